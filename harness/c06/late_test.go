package c06

// Late responses (C06: "if any one copy reaches the peer and the matching acknowledgement/response gets back before the
// attempts are exhausted, the request call succeeds with that response"), with the connection's block-wise layer switched
// on as it is by default:
//
//	late <deadlineMs|-> <replyAtMs> <bodyBytes> <pig|sep>
//
// A confirmable GET (ACK_TIMEOUT 2 s, MAX_RETRANSMIT 4: copies at 0, 2, 4, 6, 8 s, given up at 10 s; block size 16, transfer
// timeout 3 s) whose copies are all lost until replyAtMs; housekeeping runs every 100 ms.  At replyAtMs the peer answers the
// copy sent last - piggybacked, or with an empty ACK followed by a separate confirmable response - with a body of bodyBytes
// (more than 16 bytes: block-wise, the peer serves the further blocks the connection asks for).
// Output: `ok <len> <fnv>` / `err <kind>` / `pending` (the call had not returned 1 s after the last block was served).

import (
	"bufio"
	"bytes"
	"context"
	"fmt"
	"strconv"
	"testing"
	"testing/synctest"
	"time"

	"github.com/plgd-dev/go-coap/v3/message"
	"github.com/plgd-dev/go-coap/v3/message/codes"
	"github.com/plgd-dev/go-coap/v3/message/pool"
	"github.com/plgd-dev/go-coap/v3/net/blockwise"
	udpclient "github.com/plgd-dev/go-coap/v3/udp/client"
	udpcoder "github.com/plgd-dev/go-coap/v3/udp/coder"
	"verifharness/internal/lp"
	"verifharness/internal/mem"
)

func lateBody(n int) []byte {
	b := make([]byte, n)
	for i := range b {
		b[i] = byte('a' + i%23)
	}
	return b
}

func runLate(t *testing.T, deadlineMs int64, replyAtMs int64, bodyBytes int, sep bool) (line string) {
	defer func() {
		if p := recover(); p != nil {
			line = fmt.Sprintf("panic %v", p)
		}
	}()
	synctest.Test(t, func(t *testing.T) {
		cc, s := mem.NewUDPConn(mem.UDPOpts{Blockwise: true, BlockwiseSZX: blockwise.SZX16, BlockwiseTimeout: 3 * time.Second, Mutate: func(cfg *udpclient.Config) {
			cfg.TransmissionAcknowledgeTimeout = 2 * time.Second
			cfg.TransmissionMaxRetransmit = 4
		}})
		ctx := context.Background()
		if deadlineMs >= 0 {
			var c func()
			ctx, c = context.WithTimeout(ctx, time.Duration(deadlineMs)*time.Millisecond)
			defer c()
		}
		type res struct {
			body []byte
			err  error
		}
		ch := make(chan res, 1)
		go func() {
			r, err := cc.Get(ctx, "/late")
			if err != nil {
				ch <- res{nil, err}
				return
			}
			b, _ := r.ReadBody()
			ch <- res{b, nil}
		}()
		synctest.Wait()
		start := time.Now()
		var last []byte
		take := func() {
			for _, d := range s.TakeSent() {
				last = d.Data
			}
		}
		take()
		for time.Since(start) < time.Duration(replyAtMs)*time.Millisecond {
			time.Sleep(100 * time.Millisecond)
			cc.CheckExpirations(time.Now())
			synctest.Wait()
			take()
		}
		body := lateBody(bodyBytes)
		peerMID := int32(51000)
		// serve: answer the request `last` (the original or the connection's request for a further block)
		for round := 0; round < 64 && last != nil; round++ {
			req := pool.NewMessage(context.Background())
			if _, err := req.UnmarshalWithDecoder(udpcoder.DefaultCoder, last); err != nil {
				break
			}
			last = nil
			if !isReqCode(req.Code()) {
				// (a response / error message of the connection: nothing to serve)
				take()
				continue
			}
			num := 0
			if v, err := req.GetOptionUint32(message.Block2); err == nil {
				_, n, _, errD := blockwise.DecodeBlockOption(v)
				if errD == nil {
					num = int(n)
				}
			}
			r := pool.NewMessage(context.Background())
			r.SetCode(codes.Content)
			r.SetToken(req.Token())
			r.SetContentFormat(message.TextPlain)
			lo, hi, more := num*16, num*16+16, true
			if hi >= len(body) {
				hi, more = len(body), false
			}
			if lo > hi {
				lo = hi
			}
			if len(body) > 16 {
				v, _ := blockwise.EncodeBlockOption(blockwise.SZX16, int64(num), more)
				r.SetOptionUint32(message.Block2, v)
			}
			r.SetBody(bytes.NewReader(body[lo:hi]))
			if sep && round == 0 {
				a := pool.NewMessage(context.Background())
				a.SetCode(codes.Empty)
				a.SetType(message.Acknowledgement)
				a.SetMessageID(req.MessageID())
				ad, _ := a.MarshalWithEncoder(udpcoder.DefaultCoder)
				_ = cc.Process(nil, ad)
				synctest.Wait()
				r.SetType(message.Confirmable)
				peerMID++
				r.SetMessageID(peerMID)
			} else {
				r.SetType(message.Acknowledgement)
				r.SetMessageID(req.MessageID())
			}
			data, _ := r.MarshalWithEncoder(udpcoder.DefaultCoder)
			_ = cc.Process(nil, data)
			synctest.Wait()
			// what the connection sent in answer: its ACK of a separate response, and possibly the request for the next block
			for _, d := range s.TakeSent() {
				m := pool.NewMessage(context.Background())
				if _, err := m.UnmarshalWithDecoder(udpcoder.DefaultCoder, d.Data); err == nil && isReqCode(m.Code()) {
					last = d.Data
				}
			}
		}
		time.Sleep(time.Second)
		synctest.Wait()
		select {
		case r := <-ch:
			if r.err != nil {
				line = "err " + errKindLate(r.err)
			} else {
				h := lp.FnvInit
				for _, x := range r.body {
					h = lp.Mix(h, uint64(x))
				}
				line = fmt.Sprintf("ok %d %s", len(r.body), lp.Hex64(h))
			}
		default:
			line = "pending"
			_ = cc.Close()
			synctest.Wait()
			<-ch
		}
		_ = cc.Close()
		synctest.Wait()
	})
	return line
}

func isReqCode(c codes.Code) bool { return c >= codes.GET && c <= codes.DELETE }

func errKindLate(err error) string {
	switch {
	case err == nil:
		return "-"
	}
	s := err.Error()
	for _, k := range []string{"deadline exceeded", "canceled", "closed"} {
		if bytes.Contains([]byte(s), []byte(k)) {
			return map[string]string{"deadline exceeded": "deadline", "canceled": "canceled", "closed": "closed"}[k]
		}
	}
	return "other"
}

func TestC06Late(t *testing.T) {
	err := lp.FileLoop(func(f []string, w *bufio.Writer) {
		if len(f) == 5 && f[0] == "late" {
			dl := int64(-1)
			if f[1] != "-" {
				dl, _ = strconv.ParseInt(f[1], 10, 64)
			}
			at, _ := strconv.ParseInt(f[2], 10, 64)
			n, _ := strconv.Atoi(f[3])
			fmt.Fprintln(w, runLate(t, dl, at, n, f[4] == "sep"))
			return
		}
		fmt.Fprintln(w, "bad-op")
	})
	if err != nil {
		t.Fatal(err)
	}
}
