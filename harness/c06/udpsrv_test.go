package c06

// Level `udpsrv4` / `udpsrv16` of the C06 harness (TestC06UDPServer): the confirmable request is issued by the SERVER side,
// on the connection a real udp.Server returns from Server.NewConn(peer) — with the peer's IPv4 address in 4-byte
// (`udpsrv4`) or in 16-byte form (`udpsrv16`: net.ParseIP / net.ResolveUDPAddr give that form) — and the peer's
// acknowledgement / response comes in through the server's socket, i.e. through the peer table (udp/server:
// getConnKey, getOrCreateConn).  The server is configured through options.WithTransmission.  Real loopback sockets
// cannot live in a synctest bubble: real time, millisecond timeouts; after every op the harness waits until nothing
// has happened for 30 ms.  Output as for the other levels; it is judged by the specification (times are real, so it is
// not compared with the model's prediction).
//
//	cfg <ackTimeoutNs> <maxRetransmit> <nstart> udpsrv4|udpsrv16 | send <id> - [<kind>] | sleep <ns> | tick <aheadNs>
//	  | ack <id> | rst <id> | pig <id> <tag> | resp <id> <con|non> <tag> | cancel <id>

import (
	"bufio"
	"context"
	"fmt"
	"net"
	"strconv"
	"strings"
	"sync"
	"testing"
	"time"

	"github.com/plgd-dev/go-coap/v3/message"
	"github.com/plgd-dev/go-coap/v3/message/codes"
	"github.com/plgd-dev/go-coap/v3/message/pool"
	coapNet "github.com/plgd-dev/go-coap/v3/net"
	"github.com/plgd-dev/go-coap/v3/net/responsewriter"
	"github.com/plgd-dev/go-coap/v3/options"
	"github.com/plgd-dev/go-coap/v3/udp"
	udpclient "github.com/plgd-dev/go-coap/v3/udp/client"
	"verifharness/internal/lp"
	"verifharness/internal/mem"
)

func runUDPServerScenario(line string) string {
	ops := strings.Split(line, "|")
	first := strings.Fields(ops[0])
	if len(first) != 5 || first[0] != "cfg" || !strings.HasPrefix(first[4], "udpsrv") {
		return "bad-level"
	}
	ackTimeout, _ := strconv.ParseInt(first[1], 10, 64)
	maxRetransmit, _ := strconv.ParseUint(first[2], 10, 32)
	nstart, _ := strconv.ParseUint(first[3], 10, 32)
	l, err := coapNet.NewListenUDP("udp4", "0.0.0.0:0")
	if err != nil {
		return "listen-error " + err.Error()
	}
	defer func() { _ = l.Close() }()
	var tickMu sync.Mutex
	var tickFn func(now time.Time) bool
	srv := udp.NewServer(
		options.WithErrors(func(error) {}),
		options.WithMessagePool(pool.New(64, 2048)),
		options.WithHandlerFunc(func(*responsewriter.ResponseWriter[*udpclient.Conn], *pool.Message) {}),
		options.WithInactivityMonitor(100000*time.Hour, func(*udpclient.Conn) {}),
		options.WithTransmission(uint32(nstart), time.Duration(ackTimeout), uint32(maxRetransmit)),
		options.WithPeriodicRunner(func(f func(now time.Time) bool) { tickMu.Lock(); tickFn = f; tickMu.Unlock() }),
	)
	var wg sync.WaitGroup
	wg.Add(1)
	go func() { defer wg.Done(); _ = srv.Serve(l) }()
	defer func() { srv.Stop(); wg.Wait() }()
	port := l.LocalAddr().(*net.UDPAddr).Port
	peer, err := net.ListenUDP("udp4", &net.UDPAddr{IP: net.IPv4(127, 0, 0, 1).To4()})
	if err != nil {
		return "peer-error " + err.Error()
	}
	defer func() { _ = peer.Close() }()
	peerPort := peer.LocalAddr().(*net.UDPAddr).Port
	peerAddr := &net.UDPAddr{IP: net.IPv4(127, 0, 0, 1).To4(), Port: peerPort}
	if first[4] == "udpsrv16" {
		peerAddr = &net.UDPAddr{IP: net.ParseIP("127.0.0.1"), Port: peerPort} // 16-byte form of the same address
	}
	var cc *udpclient.Conn
	for try := 0; try < 200; try++ { // Serve may not have registered its listener yet
		if cc, err = srv.NewConn(peerAddr); err == nil {
			break
		}
		time.Sleep(5 * time.Millisecond)
	}
	if err != nil {
		return "newconn-error " + err.Error()
	}
	sc := &scenario{calls: map[int]*call{}, peerMID: 10000, base: time.Now(), cc: cc}
	var mu sync.Mutex
	var got []mem.Sent
	var events int
	go func() {
		buf := make([]byte, 4096)
		for {
			n, _, errR := peer.ReadFromUDP(buf)
			if errR != nil {
				return
			}
			mu.Lock()
			got = append(got, mem.Sent{At: time.Now(), Data: append([]byte(nil), buf[:n]...)})
			events++
			mu.Unlock()
		}
	}()
	srvAddr := &net.UDPAddr{IP: net.IPv4(127, 0, 0, 1).To4(), Port: port}
	sc.lk = link{
		inject: func(d []byte) { _, _ = peer.WriteToUDP(d, srvAddr) },
		takeSent: func() []mem.Sent {
			mu.Lock()
			defer mu.Unlock()
			o := got
			got = nil
			return o
		},
		tick: func(now time.Time) {
			tickMu.Lock()
			fn := tickFn
			tickMu.Unlock()
			if fn != nil {
				fn(now)
			}
		},
	}
	settle := func() {
		quiet := 0
		last := -1
		for i := 0; i < 200 && quiet < 3; i++ {
			time.Sleep(10 * time.Millisecond)
			mu.Lock()
			sc.mu.Lock()
			cur := events + len(sc.rets)
			sc.mu.Unlock()
			mu.Unlock()
			if cur == last {
				quiet++
			} else {
				quiet = 0
				last = cur
			}
		}
	}
	segs := []string{"tx=- ret=- oth=-"}
	for _, op := range ops[1:] {
		f := strings.Fields(op)
		if len(f) == 0 {
			segs = append(segs, "bad-op")
			continue
		}
		var stamp int64
		isTick := false
		get := func() *call {
			id, _ := strconv.Atoi(f[1])
			sc.mu.Lock()
			defer sc.mu.Unlock()
			return sc.calls[id]
		}
		switch f[0] {
		case "send":
			id, _ := strconv.Atoi(f[1])
			ctx, cancel := context.WithCancel(context.Background())
			req := cc.AcquireMessage(ctx)
			kind := "g"
			if len(f) > 3 {
				kind = f[3]
			}
			if errS := setupRequest(req, id, kind); errS != nil {
				panic(errS)
			}
			c := &call{id: id, req: req, cancel: cancel}
			sc.mu.Lock()
			sc.calls[id] = c
			sc.mu.Unlock()
			go sc.runCall(c)
		case "sleep":
			d, _ := strconv.ParseInt(f[1], 10, 64)
			time.Sleep(time.Duration(d))
		case "tick":
			ahead, _ := strconv.ParseInt(f[1], 10, 64)
			now := time.Now().Add(time.Duration(ahead))
			stamp = now.Sub(sc.base).Nanoseconds()
			isTick = true
			sc.lk.tick(now)
		case "ack", "rst", "pig":
			c := get()
			if c == nil || !c.sent {
				segs = append(segs, "bad-op")
				continue
			}
			switch f[0] {
			case "ack":
				sc.inject(message.Acknowledgement, codes.Empty, c.mid, nil, "")
			case "rst":
				sc.inject(message.Reset, codes.Empty, c.mid, nil, "")
			case "pig":
				sc.inject(message.Acknowledgement, codes.Content, c.mid, tokenOf(c.id), f[2])
			}
		case "resp":
			c := get()
			if c == nil || !c.sent {
				segs = append(segs, "bad-op")
				continue
			}
			typ := message.NonConfirmable
			if f[2] == "con" {
				typ = message.Confirmable
			}
			sc.peerMID++
			sc.inject(typ, codes.Content, sc.peerMID, tokenOf(c.id), f[3])
		case "cancel":
			c := get()
			if c == nil {
				segs = append(segs, "bad-op")
				continue
			}
			c.cancel()
		default:
			segs = append(segs, "bad-op")
			continue
		}
		settle()
		segs = append(segs, sc.observe(stamp, isTick))
	}
	sc.mu.Lock()
	for _, c := range sc.calls {
		c.cancel()
	}
	sc.mu.Unlock()
	return strings.Join(segs, " | ")
}

func TestC06UDPServer(t *testing.T) {
	err := lp.FileLoop(func(f []string, w *bufio.Writer) {
		defer func() {
			if r := recover(); r != nil {
				fmt.Fprintf(w, "panic %v\n", r)
			}
		}()
		fmt.Fprintln(w, runUDPServerScenario(strings.Join(f, " ")))
	})
	if err != nil {
		t.Fatal(err)
	}
}
