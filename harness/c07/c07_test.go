// Harness for C07 (stream framing): a real tcp/client.Conn over net.Pipe inside a synctest bubble;
// the byte stream is written chunk by chunk and, after every chunk (at quiescence), the messages that
// reached application handling and the open/closed state of the connection are reported.
package c07

import (
	"bufio"
	"bytes"
	"context"
	"fmt"
	"strconv"
	"strings"
	"sync"
	"net"
	"sync/atomic"
	"testing"
	"testing/synctest"
	"time"

	"github.com/plgd-dev/go-coap/v3/message/codes"
	"github.com/plgd-dev/go-coap/v3/net/blockwise"
	"github.com/plgd-dev/go-coap/v3/tcp"
	"github.com/plgd-dev/go-coap/v3/message/pool"
	"github.com/plgd-dev/go-coap/v3/net/responsewriter"
	"github.com/plgd-dev/go-coap/v3/options"
	tcpclient "github.com/plgd-dev/go-coap/v3/tcp/client"
	tcpcoder "github.com/plgd-dev/go-coap/v3/tcp/coder"
	"verifharness/internal/lp"
	"verifharness/internal/mem"
)

type caseLines struct {
	ping   bool // cfgping: the connection has a ping of its own outstanding when the stream starts
	srv    bool // cfgsrv: the connection is the one a tcp.Server creates for an accepted stream, configured through options
	max    uint32
	cache  uint16
	queue  int
	chunks [][]byte
	bad    []bool
}

func fnvBytes(b []byte) uint64 {
	h := lp.FnvInit
	for _, x := range b {
		h = lp.Mix(h, uint64(x))
	}
	return h
}

// runCase returns one output line per chunk.
func runCase(t *testing.T, c caseLines) []string {
	out := make([]string, len(c.chunks))
	synctest.Test(t, func(t *testing.T) {
		var mu sync.Mutex
		var ord []string
		var sig []string
		handler := func(_ *responsewriter.ResponseWriter[*tcpclient.Conn], req *pool.Message) {
			if c.ping {
				// a handler that takes a moment (virtual time) before it looks at its message: the reader is ahead of it
				time.Sleep(time.Millisecond)
			}
			body := bodyOf(req)
			mu.Lock()
			ord = append(ord, fmt.Sprintf("%d %s %d %s %s", req.Code(), lp.Hex(req.Token()), len(body), lp.Hex64(fnvBytes(body)), optsOf(req)))
			mu.Unlock()
		}
		var cc *tcpclient.Conn
		var peer *mem.TCPPeer
		var err error
		stopSrv := func() {}
		if c.srv {
			// block-wise transfer stays at the server's default (enabled): the streams of these cases carry no block options
			cc, peer, stopSrv, err = mem.NewTCPConnViaServer("c07-peer",
				options.WithMaxMessageSize(c.max), options.WithConnectionCacheSize(c.cache),
				options.WithReceivedMessageQueueSize(c.queue), options.WithHandlerFunc(handler))
		} else {
			cc, peer, err = mem.NewTCPConn(mem.TCPOpts{Mutate: func(cfg *tcpclient.Config) {
				cfg.MaxMessageSize = c.max
				cfg.ConnectionCacheSize = c.cache
				cfg.ReceivedMessageQueueSize = c.queue
				cfg.BlockwiseEnable = false
				// every message that is not a signal and matches no pending token ends in cfg.Handler
				// (tcp/client ignores cfg.ProcessReceivedMessage, so the handler is the observation point)
				cfg.Handler = handler
			}})
		}
		if err != nil {
			for i := range out {
				out[i] = "conn-error"
			}
			return
		}
		cc.SetTCPSignalReceivedHandler(func(code codes.Code) {
			mu.Lock()
			sig = append(sig, strconv.Itoa(int(code)))
			mu.Unlock()
		})
		synctest.Wait()
		var pingTok []byte
		if c.ping {
			// the connection's own ping goes out; the stream of the case starts with a Pong that has an 8-byte placeholder
			// token (bytes 2..9 of the stream), which is replaced by the token the ping really carries
			_, _ = cc.AsyncPing(func() {})
			synctest.Wait()
			for _, fr := range peer.TakeFrames() {
				if len(fr) == 10 && fr[0] == 0x08 && fr[1] == 0xe2 {
					pingTok = fr[2:10]
				}
			}
		}
		off := 0
		closed := func() bool {
			select {
			case <-cc.Done():
				return true
			default:
				return false
			}
		}
		for i, ch := range c.chunks {
			if c.bad[i] {
				out[i] = "bad-op"
				continue
			}
			if pingTok != nil {
				ch = append([]byte(nil), ch...)
				for k := range ch {
					if p := off + k; p >= 2 && p < 10 {
						ch[k] = pingTok[p-2]
					}
				}
			}
			off += len(ch)
			if !closed() && len(ch) > 0 {
				_ = peer.Write(ch)
			}
			synctest.Wait()
			if c.ping {
				time.Sleep(50 * time.Millisecond) // the slow handlers of everything that was delivered so far
				synctest.Wait()
			}
			mu.Lock()
			b := &strings.Builder{}
			fmt.Fprintf(b, "ord %d", len(ord))
			for _, o := range ord {
				b.WriteString(" " + o)
			}
			fmt.Fprintf(b, " sig %d", len(sig))
			for _, s := range sig {
				b.WriteString(" " + s)
			}
			ord, sig = nil, nil
			mu.Unlock()
			cl := 0
			if closed() {
				cl = 1
			}
			fmt.Fprintf(b, " closed %d", cl)
			out[i] = b.String()
		}
		_ = cc.Close()
		if c.srv {
			stopSrv()
		} else {
			peer.Close()
		}
		synctest.Wait()
	})
	return out
}

// optsOf: the options the application is handed, in their order: `.` or `num:hex,num:hex...` ("complete" covers them)
func optsOf(m *pool.Message) string {
	os := m.Options()
	if len(os) == 0 {
		return "."
	}
	parts := make([]string, 0, len(os))
	for _, o := range os {
		parts = append(parts, fmt.Sprintf("%d:%s", o.ID, lp.Hex(o.Value)))
	}
	return strings.Join(parts, ",")
}

func bodyOf(m *pool.Message) []byte {
	if m.Body() == nil {
		return nil
	}
	b, err := m.ReadBody()
	if err != nil {
		return []byte("read-error")
	}
	return b
}

func TestC07(t *testing.T) {
	var cur *caseLines
	var pendingOut []string
	flush := func(w *bufio.Writer) {
		if cur == nil {
			return
		}
		res := func() (r []string) {
			defer func() {
				if p := recover(); p != nil {
					r = make([]string, len(cur.chunks))
					for i := range r {
						r[i] = fmt.Sprintf("panic %v", p)
					}
				}
			}()
			return runCase(t, *cur)
		}()
		fmt.Fprintln(w, "ok")
		for _, l := range res {
			fmt.Fprintln(w, l)
		}
		cur = nil
	}
	_ = pendingOut
	var wlast *bufio.Writer
	err := lp.FileLoop(func(f []string, w *bufio.Writer) {
		wlast = w
		switch {
		case len(f) >= 2 && (f[0] == "cfg" || f[0] == "cfgsrv" || f[0] == "cfgping"):
			flush(w)
			mx, _ := strconv.ParseUint(f[1], 10, 32)
			cache, queue := uint64(2048), 16
			if len(f) >= 3 {
				cache, _ = strconv.ParseUint(f[2], 10, 16)
			}
			if len(f) >= 4 {
				queue, _ = strconv.Atoi(f[3])
			}
			cur = &caseLines{ping: f[0] == "cfgping", srv: f[0] == "cfgsrv", max: uint32(mx), cache: uint16(cache), queue: queue}
		case len(f) == 2 && f[0] == "chunk" && cur != nil:
			b, err := lp.ParseHex(f[1])
			cur.chunks = append(cur.chunks, b)
			cur.bad = append(cur.bad, err != nil)
		case len(f) == 1 && f[0] == "end":
			flush(w)
			fmt.Fprintln(w, "end")
		default:
			flush(w)
			fmt.Fprintln(w, "bad-op")
		}
	})
	_ = wlast // the input ends with the sentinel line `end`, which flushes the last case
	if err != nil {
		t.Fatal(err)
	}
}

// ---- the writing direction --------------------------------------------------------------------------------------
//
//	wr <seed> <bigBytes> <small> <writers>
//
// A real tcp/client.Conn (block-wise off, 1 MiB message size) on which 1 + <writers> goroutines write at the same moment:
// writer 0 one message with a body of <bigBytes> bytes, every other writer <small> messages with short bodies.  The peer
// collects the byte stream (reads of at most 64 KiB from a net.Pipe, so a large frame takes several reads) and cuts it into
// frames with the stream coder.  Output: `sent <d>* | recv <d>* rest <n> err <e>` with d = writer.seq.bodylen.fnv(body); the
// stream must consist of exactly the sent messages, each complete, those of one writer in the order it wrote them.
func runWrite(t *testing.T, seed int64, big, small, writers int, real bool) (line string) {
	defer func() {
		if p := recover(); p != nil {
			line = fmt.Sprintf("panic %v", p)
		}
	}()
	body := func() {
		var peer *mem.TCPPeer
		// settle: in the bubble, quiescence; in real time, until the peer's collected byte count has not changed for 30 ms
		settle := func() {
			if !real {
				synctest.Wait()
				return
			}
			last, same := -1, 0
			for i := 0; i < 400 && same < 6; i++ {
				time.Sleep(5 * time.Millisecond)
				n := peer.Len()
				if n == last {
					same++
				} else {
					last, same = n, 0
				}
			}
		}
		cc, p, err := mem.NewTCPConn(mem.TCPOpts{Mutate: func(cfg *tcpclient.Config) {
			cfg.MaxMessageSize = 1 << 20
			cfg.BlockwiseEnable = false
			cfg.Handler = func(_ *responsewriter.ResponseWriter[*tcpclient.Conn], _ *pool.Message) {}
		}})
		if err != nil {
			line = "conn-error"
			return
		}
		peer = p
		settle()
		peer.TakeBytes() // the connection's own CSM
		mk := func(w, seq, n int) (*pool.Message, string) {
			body := make([]byte, n)
			x := uint64(seed)*1000003 + uint64(w)*7919 + uint64(seq)*104729 + 1
			for i := range body {
				x = x*6364136223846793005 + 1442695040888963407
				body[i] = byte(x >> 56)
			}
			m := pool.NewMessage(cc.Context())
			m.SetCode(codes.POST)
			m.SetToken([]byte{byte(w), byte(seq), byte(seq >> 8)})
			m.SetBody(bytes.NewReader(body))
			return m, fmt.Sprintf("%d.%d.%d.%s", w, seq, n, lp.Hex64(fnvBytes(body)))
		}
		jobs := make([][]*pool.Message, 1+writers)
		var sent []string
		nbig := 1
		if real {
			nbig = 4 // real time: the big writer keeps the connection busy for a few frames
		}
		for s := 0; s < nbig; s++ {
			m, d := mk(0, s, big)
			jobs[0] = append(jobs[0], m)
			sent = append(sent, d)
		}
		for w := 1; w <= writers; w++ {
			for s := 0; s < small; s++ {
				m, d := mk(w, s, 1+(w*31+s*7)%40)
				jobs[w] = append(jobs[w], m)
				sent = append(sent, d)
			}
		}
		expectBytes := 0
		for _, msgs := range jobs {
			for _, m := range msgs {
				if b, err := m.MarshalWithEncoder(tcpcoder.DefaultCoder); err == nil {
					expectBytes += len(b)
				}
			}
		}
		start := make(chan struct{})
		var wg sync.WaitGroup
		var werr atomic.Int32
		for w := range jobs {
			wg.Add(1)
			go func(msgs []*pool.Message) {
				defer wg.Done()
				<-start
				for _, m := range msgs {
					if err := cc.WriteMessage(m); err != nil {
						werr.Add(1)
					}
				}
			}(jobs[w])
		}
		close(start)
		wg.Wait()
		if real {
			// every write has returned, so every byte has been read from the pipe by the peer's collector; wait until it
			// has also filed them (a collector goroutine that is descheduled on a loaded machine must not look like a short stream)
			for i := 0; i < 1000 && peer.Len() < expectBytes; i++ {
				time.Sleep(5 * time.Millisecond)
			}
		}
		settle()
		frames := peer.TakeFrames()
		rest := peer.TakeBytes()
		var recv []string
		derr := int(werr.Load())
		for _, f := range frames {
			rm := pool.NewMessage(context.Background())
			if _, err := rm.UnmarshalWithDecoder(tcpcoder.DefaultCoder, f); err != nil || len(rm.Token()) != 3 {
				derr++
				continue
			}
			body := bodyOf(rm)
			tk := rm.Token()
			recv = append(recv, fmt.Sprintf("%d.%d.%d.%s", tk[0], int(tk[1])|int(tk[2])<<8, len(body), lp.Hex64(fnvBytes(body))))
		}
		line = fmt.Sprintf("sent %s | recv %s rest %d err %d", strings.Join(sent, " "), strings.Join(recv, " "), len(rest), derr)
		_ = cc.Close()
		peer.Close()
		if !real {
			synctest.Wait()
		}
	}
	if real {
		body()
	} else {
		synctest.Test(t, func(t *testing.T) { body() })
	}
	return line
}

func TestC07Write(t *testing.T) {
	err := lp.FileLoop(func(f []string, w *bufio.Writer) {
		if len(f) == 5 && (f[0] == "wr" || f[0] == "wrr") {
			// wrr: the same in real time (no bubble), four big frames, so that writers really run in parallel
			seed, _ := strconv.ParseInt(f[1], 10, 64)
			big, _ := strconv.Atoi(f[2])
			small, _ := strconv.Atoi(f[3])
			writers, _ := strconv.Atoi(f[4])
			fmt.Fprintln(w, runWrite(t, seed, big, small, writers, f[0] == "wrr"))
			return
		}
		if len(f) == 4 && f[0] == "wrs" {
			seed, _ := strconv.ParseInt(f[1], 10, 64)
			big, _ := strconv.Atoi(f[2])
			ms, _ := strconv.Atoi(f[3])
			fmt.Fprintln(w, runWriteStalled(t, seed, big, ms))
			return
		}
		fmt.Fprintln(w, "bad-op")
	})
	if err != nil {
		t.Fatal(err)
	}
}

// ---- a write that is held up in the middle of a frame ------------------------------------------------------------------
//
//	wrs <seed> <bigBytes> <ctxMs>
//
// The peer reads the first 5000 bytes of the stream and then nothing for 300 ms (a slow reader; virtual time).  Writer A's
// message (bigBytes of body) was issued with a context that ends after ctxMs — while its frame is half out.  When the peer
// reads again, writer B sends two short messages.  Whatever A's call returned: the stream must still consist of complete
// frames of messages that were written — either A's whole frame followed by B's, or (if the connection was given up)
// nothing after the cut; never B's frames behind half of A's.
// Output: `sent <d>* | recv <d>* rest <n> err <e> closed <0|1>` (sent = the messages whose write reported success).
func runWriteStalled(t *testing.T, seed int64, big int, ctxMs int) (line string) {
	defer func() {
		if p := recover(); p != nil {
			line = fmt.Sprintf("panic %v", p)
		}
	}()
	synctest.Test(t, func(t *testing.T) {
		a, b := net.Pipe()
		var mu sync.Mutex
		var got []byte
		readerDone := make(chan struct{})
		resume := make(chan struct{})
		go func() {
			defer close(readerDone)
			buf := make([]byte, 4096)
			total := 0
			held := false
			for {
				n, err := b.Read(buf)
				mu.Lock()
				got = append(got, buf[:n]...)
				mu.Unlock()
				total += n
				if err != nil {
					return
				}
				if !held && total >= 5000 {
					held = true
					<-resume
				}
			}
		}()
		cc, err := tcp.Client(a, options.WithBlockwise(false, blockwise.SZX1024, time.Second), options.WithMaxMessageSize(1<<20),
			options.WithErrors(func(error) {}), options.WithPeriodicRunner(func(func(now time.Time) bool) {}))
		if err != nil {
			line = "conn-error"
			return
		}
		synctest.Wait()
		mk := func(ctx context.Context, w, seq, n int) (*pool.Message, string) {
			body := make([]byte, n)
			x := uint64(seed)*1000003 + uint64(w)*7919 + uint64(seq)*104729 + 1
			for i := range body {
				x = x*6364136223846793005 + 1442695040888963407
				body[i] = byte(x >> 56)
			}
			m := pool.NewMessage(ctx)
			m.SetCode(codes.POST)
			m.SetToken([]byte{byte(w), byte(seq), 0})
			m.SetBody(bytes.NewReader(body))
			return m, fmt.Sprintf("%d.%d.%d.%s", w, seq, n, lp.Hex64(fnvBytes(body)))
		}
		ctxA, cancelA := context.WithTimeout(context.Background(), time.Duration(ctxMs)*time.Millisecond)
		defer cancelA()
		mA, dA := mk(ctxA, 0, 0, big)
		aDone := make(chan error, 1)
		go func() { aDone <- cc.WriteMessage(mA) }()
		time.Sleep(300 * time.Millisecond) // the context of A has ended meanwhile; the peer starts reading again
		close(resume)
		synctest.Wait()
		var sent []string
		werr := 0
		for s := 0; s < 2; s++ {
			m, d := mk(context.Background(), 1, s, 20+s)
			if err := cc.WriteMessage(m); err != nil {
				werr++
			} else {
				sent = append(sent, d)
			}
		}
		select {
		case errA := <-aDone:
			if errA == nil {
				sent = append([]string{dA}, sent...) // only a write that reported success counts as sent
			}
		case <-time.After(2 * time.Second):
		}
		synctest.Wait()
		closed := 0
		select {
		case <-cc.Done():
			closed = 1
		default:
		}
		_ = cc.Close()
		_ = b.Close()
		<-readerDone
		mu.Lock()
		stream := got
		mu.Unlock()
		// cut into frames; the connection's own CSM comes first
		var recv []string
		derr := 0
		for len(stream) > 0 {
			var h tcpcoder.MessageHeader
			if _, err := tcpcoder.DefaultCoder.DecodeHeader(stream, &h); err != nil || uint32(len(stream)) < h.MessageLength {
				break
			}
			fr := stream[:h.MessageLength]
			stream = stream[h.MessageLength:]
			rm := pool.NewMessage(context.Background())
			if _, err := rm.UnmarshalWithDecoder(tcpcoder.DefaultCoder, fr); err != nil {
				derr++
				continue
			}
			if rm.Code() != codes.POST || len(rm.Token()) != 3 {
				continue
			}
			body := bodyOf(rm)
			tk := rm.Token()
			recv = append(recv, fmt.Sprintf("%d.%d.%d.%s", tk[0], int(tk[1]), len(body), lp.Hex64(fnvBytes(body))))
		}
		line = fmt.Sprintf("sent %s | recv %s rest %d err %d closed %d", strings.Join(sent, " "), strings.Join(recv, " "), len(stream), derr, closed)
	})
	return line
}
