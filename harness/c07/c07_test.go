// Harness for C07 (stream framing): a real tcp/client.Conn over net.Pipe inside a synctest bubble;
// the byte stream is written chunk by chunk and, after every chunk (at quiescence), the messages that
// reached application handling and the open/closed state of the connection are reported.
package c07

import (
	"bufio"
	"fmt"
	"strconv"
	"strings"
	"sync"
	"testing"
	"testing/synctest"

	"github.com/plgd-dev/go-coap/v3/message/codes"
	"github.com/plgd-dev/go-coap/v3/message/pool"
	"github.com/plgd-dev/go-coap/v3/net/responsewriter"
	"github.com/plgd-dev/go-coap/v3/options"
	tcpclient "github.com/plgd-dev/go-coap/v3/tcp/client"
	"verifharness/internal/lp"
	"verifharness/internal/mem"
)

type caseLines struct {
	srv    bool // cfgsrv: the connection is the one a tcp.Server creates for an accepted stream, configured through options
	max    uint32
	cache  uint16
	queue  int
	chunks [][]byte
	bad    []bool
}

func fnvBytes(b []byte) uint64 {
	h := lp.FnvInit
	for _, x := range b {
		h = lp.Mix(h, uint64(x))
	}
	return h
}

// runCase returns one output line per chunk.
func runCase(t *testing.T, c caseLines) []string {
	out := make([]string, len(c.chunks))
	synctest.Test(t, func(t *testing.T) {
		var mu sync.Mutex
		var ord []string
		var sig []string
		handler := func(_ *responsewriter.ResponseWriter[*tcpclient.Conn], req *pool.Message) {
			body := bodyOf(req)
			mu.Lock()
			ord = append(ord, fmt.Sprintf("%d %s %d %s", req.Code(), lp.Hex(req.Token()), len(body), lp.Hex64(fnvBytes(body))))
			mu.Unlock()
		}
		var cc *tcpclient.Conn
		var peer *mem.TCPPeer
		var err error
		stopSrv := func() {}
		if c.srv {
			// block-wise transfer stays at the server's default (enabled): the streams of these cases carry no block options
			cc, peer, stopSrv, err = mem.NewTCPConnViaServer("c07-peer",
				options.WithMaxMessageSize(c.max), options.WithConnectionCacheSize(c.cache),
				options.WithReceivedMessageQueueSize(c.queue), options.WithHandlerFunc(handler))
		} else {
			cc, peer, err = mem.NewTCPConn(mem.TCPOpts{Mutate: func(cfg *tcpclient.Config) {
				cfg.MaxMessageSize = c.max
				cfg.ConnectionCacheSize = c.cache
				cfg.ReceivedMessageQueueSize = c.queue
				cfg.BlockwiseEnable = false
				// every message that is not a signal and matches no pending token ends in cfg.Handler
				// (tcp/client ignores cfg.ProcessReceivedMessage, so the handler is the observation point)
				cfg.Handler = handler
			}})
		}
		if err != nil {
			for i := range out {
				out[i] = "conn-error"
			}
			return
		}
		cc.SetTCPSignalReceivedHandler(func(code codes.Code) {
			mu.Lock()
			sig = append(sig, strconv.Itoa(int(code)))
			mu.Unlock()
		})
		synctest.Wait()
		closed := func() bool {
			select {
			case <-cc.Done():
				return true
			default:
				return false
			}
		}
		for i, ch := range c.chunks {
			if c.bad[i] {
				out[i] = "bad-op"
				continue
			}
			if !closed() && len(ch) > 0 {
				_ = peer.Write(ch)
			}
			synctest.Wait()
			mu.Lock()
			b := &strings.Builder{}
			fmt.Fprintf(b, "ord %d", len(ord))
			for _, o := range ord {
				b.WriteString(" " + o)
			}
			fmt.Fprintf(b, " sig %d", len(sig))
			for _, s := range sig {
				b.WriteString(" " + s)
			}
			ord, sig = nil, nil
			mu.Unlock()
			cl := 0
			if closed() {
				cl = 1
			}
			fmt.Fprintf(b, " closed %d", cl)
			out[i] = b.String()
		}
		_ = cc.Close()
		if c.srv {
			stopSrv()
		} else {
			peer.Close()
		}
		synctest.Wait()
	})
	return out
}

func bodyOf(m *pool.Message) []byte {
	if m.Body() == nil {
		return nil
	}
	b, err := m.ReadBody()
	if err != nil {
		return []byte("read-error")
	}
	return b
}

func TestC07(t *testing.T) {
	var cur *caseLines
	var pendingOut []string
	flush := func(w *bufio.Writer) {
		if cur == nil {
			return
		}
		res := func() (r []string) {
			defer func() {
				if p := recover(); p != nil {
					r = make([]string, len(cur.chunks))
					for i := range r {
						r[i] = fmt.Sprintf("panic %v", p)
					}
				}
			}()
			return runCase(t, *cur)
		}()
		fmt.Fprintln(w, "ok")
		for _, l := range res {
			fmt.Fprintln(w, l)
		}
		cur = nil
	}
	_ = pendingOut
	var wlast *bufio.Writer
	err := lp.FileLoop(func(f []string, w *bufio.Writer) {
		wlast = w
		switch {
		case len(f) >= 2 && (f[0] == "cfg" || f[0] == "cfgsrv"):
			flush(w)
			mx, _ := strconv.ParseUint(f[1], 10, 32)
			cache, queue := uint64(2048), 16
			if len(f) >= 3 {
				cache, _ = strconv.ParseUint(f[2], 10, 16)
			}
			if len(f) >= 4 {
				queue, _ = strconv.Atoi(f[3])
			}
			cur = &caseLines{srv: f[0] == "cfgsrv", max: uint32(mx), cache: uint16(cache), queue: queue}
		case len(f) == 2 && f[0] == "chunk" && cur != nil:
			b, err := lp.ParseHex(f[1])
			cur.chunks = append(cur.chunks, b)
			cur.bad = append(cur.bad, err != nil)
		case len(f) == 1 && f[0] == "end":
			flush(w)
			fmt.Fprintln(w, "end")
		default:
			flush(w)
			fmt.Fprintln(w, "bad-op")
		}
	})
	_ = wlast // the input ends with the sentinel line `end`, which flushes the last case
	if err != nil {
		t.Fatal(err)
	}
}
