// Harness for C08 (observe): a real udp or tcp client.Conn over an in-memory transport inside a synctest
// bubble. Lines: cfg <udp|tcp>; reg <tok>; arrive <tok> <code> <seq|-> <atNs> <tag>; regabort <tok> <id>;
// cancel <tok> <id>; valid <old> <new> <last|-> <now>; reuse <tok> <id> <newtok> [short] (second use of a request message: once the
// registration call of <id> has returned, the application writes its next request - a one-way GET under another token of the
// same length, `short`: of a shorter length - into the very message object it registered with, no Reset, and sends it).
// One output line per input line listing what was observed at quiescence after the operation.
package c08

import (
	"bytes"
	"bufio"
	"context"
	"encoding/binary"
	"fmt"
	"strconv"
	"strings"
	"sync"
	"testing"
	"testing/synctest"
	"time"

	"github.com/plgd-dev/go-coap/v3/message"
	"github.com/plgd-dev/go-coap/v3/message/codes"
	"github.com/plgd-dev/go-coap/v3/message/pool"
	"github.com/plgd-dev/go-coap/v3/net/client"
	"github.com/plgd-dev/go-coap/v3/net/observation"
	"github.com/plgd-dev/go-coap/v3/net/responsewriter"
	tcpclient "github.com/plgd-dev/go-coap/v3/tcp/client"
	tcpcoder "github.com/plgd-dev/go-coap/v3/tcp/coder"
	udpclient "github.com/plgd-dev/go-coap/v3/udp/client"
	udpcoder "github.com/plgd-dev/go-coap/v3/udp/coder"
	"verifharness/internal/lp"
	"verifharness/internal/mem"
)

type conn interface {
	DoObserve(req *pool.Message, observeFunc func(req *pool.Message)) (client.Observation, error)
	AcquireMessage(ctx context.Context) *pool.Message
	ReleaseMessage(m *pool.Message)
	WriteMessage(req *pool.Message) error
	Close() error
}

type reg struct {
	id     int
	tok    uint64
	cancel context.CancelFunc
	obs    client.Observation
	req    *pool.Message // the request message of the registration: the application's own object
	done   bool
	failed bool
	gone   bool
}

func tokBytes(t uint64) message.Token {
	b := make([]byte, 8)
	binary.BigEndian.PutUint64(b, t)
	return b
}

type world struct {
	conMID   map[uint64]int32 // token -> message ID of a confirmable registration request that was not acknowledged yet
	deregMID map[uint64]int32 // token -> message ID of the deregistration request Cancel wrote
	deregTag map[uint64]string // token -> ETag (hex, "-" if none) carried by the deregistration request Cancel wrote
	deregTCP map[uint64]bool   // stream: a deregistration request for the token was seen
	mu      sync.Mutex
	events  []string
	udp     *udpclient.Conn
	us      *mem.UDPSession
	tcp     *tcpclient.Conn
	tp      *mem.TCPPeer
	cc      conn
	bw      bool // cfg udpbw / tcpbw: block-wise transfer enabled; notifications of live observations arrive in two blocks
	regs    []*reg
	mid     int32
	start   time.Time
	pending map[int]chan struct{}
}

func (w *world) log(s string) { w.mu.Lock(); w.events = append(w.events, s); w.mu.Unlock() }

func (w *world) take() string {
	w.mu.Lock()
	defer w.mu.Unlock()
	if len(w.events) == 0 {
		return "none"
	}
	s := strings.Join(w.events, " ; ")
	w.events = nil
	return s
}

func seqOf(m *pool.Message) string {
	v, err := m.Observe()
	if err != nil {
		return "-"
	}
	return strconv.FormatUint(uint64(v), 10)
}

func tagOf(m *pool.Message) string {
	b, err := m.ReadBody()
	if err != nil || len(b) == 0 {
		return "?"
	}
	return strings.TrimRight(string(b), ".") // block-wise notifications carry the tag padded with dots to two blocks
}

// shortTok: the token value without its leading zero bytes - a DIFFERENT token (RFC 7252: tokens are opaque byte strings,
// length included), which no registration of the harness uses
func shortTok(t uint64) message.Token {
	b := tokBytes(t)
	for len(b) > 1 && b[0] == 0 {
		b = b[1:]
	}
	return b
}

// skipBefore: the next injected message carries an option with a registry-illegal value length (a 9-byte ETag, option 4) in
// front of its Observe option (6): the decoder skips it - and must still decode Observe as Observe
var skipBefore bool

// padObserve (`arrivep` lines): the Observe value is written in three bytes, with leading zeros
var padObserve bool

func (w *world) inject(tok uint64, code codes.Code, seq string, tag string, alias ...bool) {
	m := pool.NewMessage(context.Background())
	m.SetCode(code)
	m.SetToken(tokBytes(tok))
	if skipBefore {
		m.SetOptionBytes(message.ETag, []byte{9, 9, 9, 9, 9, 9, 9, 9, 9})
	}
	if len(alias) > 0 && alias[0] {
		m.SetToken(shortTok(tok))
	}
	if seq != "-" {
		v, _ := strconv.ParseUint(seq, 10, 32)
		if padObserve {
			// a peer that always writes the sequence number in three bytes: leading zero bytes are legal in a uint option
			// (RFC 7252 section 3.2: a recipient must be prepared to process them)
			m.SetOptionBytes(message.Observe, []byte{byte(v >> 16), byte(v >> 8), byte(v)})
		} else {
			m.SetObserve(uint32(v))
		}
	}
	m.SetContentFormat(message.TextPlain)
	m.SetBody(strings.NewReader(tag))
	if len(tag) > 0 && tag[0]%2 == 0 && !skipBefore {
		// every other message carries an ETag of varying length (the observation remembers the latest one for its
		// deregistration request)
		m.SetOptionBytes(message.ETag, bytes.Repeat([]byte{tag[0]}, 1+int(tag[0])%8))
	}
	if w.udp != nil {
		w.mid++
		m.SetMessageID(w.mid)
		m.SetType(message.NonConfirmable)
		// the answer to a confirmable registration request that is still unacknowledged is piggybacked on its ACK
		w.scanSent()
		if id, ok := w.conMID[tok]; ok && !(len(alias) > 0 && alias[0]) {
			delete(w.conMID, tok)
			m.SetType(message.Acknowledgement)
			m.SetMessageID(id)
		}
		b, err := m.MarshalWithEncoder(udpcoder.DefaultCoder)
		if err != nil {
			panic(err)
		}
		if err := w.udp.Process(nil, append([]byte(nil), b...)); err != nil {
			w.log("process-error")
		}
		return
	}
	b, err := m.MarshalWithEncoder(tcpcoder.DefaultCoder)
	if err != nil {
		panic(err)
	}
	_ = w.tp.Write(append([]byte(nil), b...))
}

// liveReg: does the library hold a registered, not cancelled observation for tok (as far as the harness can see)?
func (w *world) liveReg(tok uint64) bool {
	w.mu.Lock()
	defer w.mu.Unlock()
	for _, r := range w.regs {
		// (Canceled() looks the token up: once a registration was seen gone it stays gone for the harness, a later
		// registration with the same token must not revive it)
		if r.tok == tok && r.done && !r.failed && !r.gone && r.obs != nil {
			if o, ok := r.obs.(interface{ Canceled() bool }); ok && !o.Canceled() {
				return true
			}
		}
	}
	return false
}

// injectBlockwise delivers a notification as RFC 7959 section 2.6 describes: the first 16-byte block carries the
// observation's token and the Observe option; the library asks for the second block with a GET under a NEW token, which
// the harness answers.  The application must see one notification: token of the observation, sequence number of the first
// block, the whole body.
func (w *world) injectBlockwise(tok uint64, code codes.Code, seq string, tag string) {
	body := []byte(tag + strings.Repeat(".", 24-len(tag)))
	var etag []byte
	if len(tag) > 0 && tag[0]%2 == 0 {
		etag = bytes.Repeat([]byte{tag[0]}, 1+int(tag[0])%8)
	}
	mk := func(token message.Token, num uint32, more bool, payload []byte, withObs bool) *pool.Message {
		m := pool.NewMessage(context.Background())
		m.SetCode(code)
		m.SetToken(token)
		if withObs {
			v, _ := strconv.ParseUint(seq, 10, 32)
			m.SetObserve(uint32(v))
		}
		m.SetContentFormat(message.TextPlain)
		if etag != nil {
			m.SetOptionBytes(message.ETag, etag)
		}
		blk := num << 4 // SZX 0 = 16 bytes
		if more {
			blk |= 8
		}
		m.SetOptionUint32(message.Block2, blk)
		m.SetBody(bytes.NewReader(payload))
		return m
	}
	if w.udp != nil {
		w.scanSent()
		w.mid++
		first := mk(tokBytes(tok), 0, true, body[:16], true)
		first.SetMessageID(w.mid)
		first.SetType(message.NonConfirmable)
		b, _ := first.MarshalWithEncoder(udpcoder.DefaultCoder)
		if err := w.udp.Process(nil, append([]byte(nil), b...)); err != nil {
			w.log("process-error")
		}
		synctest.Wait()
		for _, d := range w.us.TakeSent() {
			q := pool.NewMessage(context.Background())
			if _, err := q.UnmarshalWithDecoder(udpcoder.DefaultCoder, d.Data); err != nil || q.Code() != codes.GET {
				continue
			}
			if blk, err := q.GetOptionUint32(message.Block2); err != nil || blk>>4 != 1 {
				continue
			}
			second := mk(q.Token(), 1, false, body[16:], false)
			if q.Type() == message.Confirmable {
				second.SetType(message.Acknowledgement)
				second.SetMessageID(q.MessageID())
			} else {
				w.mid++
				second.SetType(message.NonConfirmable)
				second.SetMessageID(w.mid)
			}
			b2, _ := second.MarshalWithEncoder(udpcoder.DefaultCoder)
			if err := w.udp.Process(nil, append([]byte(nil), b2...)); err != nil {
				w.log("process-error")
			}
		}
		return
	}
	w.tp.TakeFrames()
	first := mk(tokBytes(tok), 0, true, body[:16], true)
	b, _ := first.MarshalWithEncoder(tcpcoder.DefaultCoder)
	_ = w.tp.Write(append([]byte(nil), b...))
	synctest.Wait()
	for _, fr := range w.tp.TakeFrames() {
		q := pool.NewMessage(context.Background())
		if _, err := q.UnmarshalWithDecoder(tcpcoder.DefaultCoder, fr); err != nil || q.Code() != codes.GET {
			continue
		}
		if blk, err := q.GetOptionUint32(message.Block2); err != nil || blk>>4 != 1 {
			continue
		}
		second := mk(q.Token(), 1, false, body[16:], false)
		b2, _ := second.MarshalWithEncoder(tcpcoder.DefaultCoder)
		_ = w.tp.Write(append([]byte(nil), b2...))
	}
}

// scanSent drains what the datagram connection wrote and remembers the message IDs of confirmable registration requests
// that are not acknowledged yet (conMID) and of deregistration requests (deregMID), by token.
func (w *world) scanSent() {
	if w.conMID == nil {
		w.conMID = map[uint64]int32{}
		w.deregMID = map[uint64]int32{}
		w.deregTag = map[uint64]string{}
	}
	for _, d := range w.us.TakeSent() {
		q := pool.NewMessage(context.Background())
		if _, err := q.UnmarshalWithDecoder(udpcoder.DefaultCoder, d.Data); err != nil || q.Code() != codes.GET {
			continue
		}
		t := binary.BigEndian.Uint64(append(make([]byte, 8-len(q.Token())), q.Token()...))
		if v, err := q.Observe(); err == nil && v == 1 {
			w.deregMID[t] = q.MessageID()
			w.deregTag[t] = etagHex(q)
		} else if q.Type() == message.Confirmable {
			w.conMID[t] = q.MessageID()
		}
	}
}

func etagHex(q *pool.Message) string {
	e, err := q.ETag()
	if err != nil || len(e) == 0 {
		return "-"
	}
	return fmt.Sprintf("%x", e)
}

// scanFrames (stream): drains what the connection wrote and remembers the deregistration requests (GET with Observe=1) by token.
func (w *world) scanFrames() {
	if w.deregTag == nil {
		w.deregTag = map[uint64]string{}
	}
	if w.deregTCP == nil {
		w.deregTCP = map[uint64]bool{}
	}
	for _, fr := range w.tp.TakeFrames() {
		q := pool.NewMessage(context.Background())
		if _, err := q.UnmarshalWithDecoder(tcpcoder.DefaultCoder, fr); err != nil || q.Code() != codes.GET {
			continue
		}
		if v, err := q.Observe(); err == nil && v == 1 {
			t := binary.BigEndian.Uint64(append(make([]byte, 8-len(q.Token())), q.Token()...))
			w.deregTCP[t] = true
			w.deregTag[t] = etagHex(q)
		}
	}
}

// answerDeregistration answers the GET with Observe=1 that Observation.Cancel has just written for token tok.
func (w *world) answerDeregistration(tok uint64) {
	m := pool.NewMessage(context.Background())
	m.SetCode(codes.Content)
	m.SetToken(tokBytes(tok))
	if w.udp != nil {
		w.scanSent()
		mid, ok := w.deregMID[tok]
		if !ok {
			return
		}
		delete(w.deregMID, tok)
		m.SetType(message.Acknowledgement)
		m.SetMessageID(mid)
		b, _ := m.MarshalWithEncoder(udpcoder.DefaultCoder)
		_ = w.udp.Process(nil, append([]byte(nil), b...))
		return
	}
	w.scanFrames()
	asked := w.deregTCP[tok]
	delete(w.deregTCP, tok)
	if !asked {
		return // Cancel sent nothing (the observation was already gone): an answer would be an unsolicited message
	}
	b, _ := m.MarshalWithEncoder(tcpcoder.DefaultCoder)
	_ = w.tp.Write(append([]byte(nil), b...))
}

func runCase(t *testing.T, transport string, ops [][]string) []string {
	out := make([]string, len(ops))
	synctest.Test(t, func(t *testing.T) {
		w := &world{mid: 100, pending: map[int]chan struct{}{}}
		w.start = time.Now()
		deflt := func(tok message.Token, m *pool.Message) {
			w.log(fmt.Sprintf("default %s", tagOf(m)))
		}
		if strings.HasSuffix(transport, "bw") {
			w.bw = true
			transport = strings.TrimSuffix(transport, "bw")
		}
		if transport == "udp" {
			w.udp, w.us = mem.NewUDPConn(mem.UDPOpts{Blockwise: w.bw, Mutate: func(cfg *udpclient.Config) {
				// many registration calls may be waiting for their first answer at the same time (burst histories): the limiter of
				// parallel requests is C16's subject and must not queue them outside the observation table
				cfg.LimitClientParallelRequests = 4096
				cfg.LimitClientEndpointParallelRequests = 4096
				cfg.TransmissionNStart = 512 // confirmable registrations must not queue behind one another (NSTART is C06's subject)
				cfg.Handler = func(_ *responsewriter.ResponseWriter[*udpclient.Conn], m *pool.Message) { deflt(m.Token(), m) }
			}})
			w.cc = w.udp
		} else {
			var err error
			w.tcp, w.tp, err = mem.NewTCPConn(mem.TCPOpts{Mutate: func(cfg *tcpclient.Config) {
				cfg.LimitClientParallelRequests = 4096
				cfg.LimitClientEndpointParallelRequests = 4096
				cfg.BlockwiseEnable = w.bw
				cfg.Handler = func(_ *responsewriter.ResponseWriter[*tcpclient.Conn], m *pool.Message) { deflt(m.Token(), m) }
			}})
			if err != nil {
				for i := range out {
					out[i] = "conn-error"
				}
				return
			}
			w.cc = w.tcp
		}
		synctest.Wait()
		for i, f := range ops {
			func() {
				defer func() {
					if r := recover(); r != nil {
						out[i] = fmt.Sprintf("panic %v", r)
					}
				}()
				switch f[0] {
				case "reg":
					tok, _ := strconv.ParseUint(f[1], 10, 64)
					id := len(w.regs)
					ctx, cancel := context.WithCancel(context.Background())
					r := &reg{id: id, tok: tok, cancel: cancel}
					w.regs = append(w.regs, r)
					req := w.cc.AcquireMessage(ctx)
					r.req = req
					req.SetCode(codes.GET)
					req.SetToken(tokBytes(tok))
					_ = req.SetPath("/obs")
					req.SetObserve(0)
					req.SetType(message.NonConfirmable)
					if len(f) == 3 && f[2] == "con" {
						// confirmable registration: on datagram transports the write waits for the ACK (or a response), so a
						// `regabort` before anything arrives leaves NewObservation through its write-error exit
						req.SetType(message.Confirmable)
					}
					selfCancel := len(f) == 3 && f[2] == "self"
					go func() {
						o, err := w.cc.DoObserve(req, func(m *pool.Message) {
							if selfCancel {
								// the application gives up from inside its callback, at the first message it sees: the context ends
								// while the registration call is on its way back
								selfCancel = false
								defer cancel()
							}
							w.log(fmt.Sprintf("cb %d %d %s %d %s", id, binary.BigEndian.Uint64(append(make([]byte, 8-len(m.Token())), m.Token()...)),
								seqOf(m), time.Since(w.start).Nanoseconds(), tagOf(m)))
						})
						w.mu.Lock()
						r.done = true
						if err != nil {
							r.failed = true
							w.events = append(w.events, fmt.Sprintf("regerr %d", id))
						} else {
							r.obs = o
							w.events = append(w.events, fmt.Sprintf("regok %d", id))
						}
						w.mu.Unlock()
					}()
				case "arrivex":
					// as `arrive`, with a skipped option in front of Observe
					tok, _ := strconv.ParseUint(f[1], 10, 64)
					code, _ := strconv.ParseUint(f[2], 10, 16)
					at, _ := strconv.ParseInt(f[4], 10, 64)
					if d := time.Duration(at) - time.Since(w.start); d > 0 {
						time.Sleep(d)
					}
					skipBefore = true
					w.inject(tok, codes.Code(code), f[3], f[5])
					skipBefore = false
				case "arrivep":
					// as `arrive`, the Observe value zero-padded to three bytes
					tok, _ := strconv.ParseUint(f[1], 10, 64)
					code, _ := strconv.ParseUint(f[2], 10, 16)
					at, _ := strconv.ParseInt(f[4], 10, 64)
					if d := time.Duration(at) - time.Since(w.start); d > 0 {
						time.Sleep(d)
					}
					padObserve = true
					w.inject(tok, codes.Code(code), f[3], f[5])
					padObserve = false
				case "arrivez":
					// the same bytes without the leading zeros: another token, nobody's
					tok, _ := strconv.ParseUint(f[1], 10, 64)
					code, _ := strconv.ParseUint(f[2], 10, 16)
					at, _ := strconv.ParseInt(f[4], 10, 64)
					if d := time.Duration(at) - time.Since(w.start); d > 0 {
						time.Sleep(d)
					}
					w.inject(tok, codes.Code(code), f[3], f[5], true)
				case "arrive":
					tok, _ := strconv.ParseUint(f[1], 10, 64)
					code, _ := strconv.ParseUint(f[2], 10, 16)
					at, _ := strconv.ParseInt(f[4], 10, 64)
					if d := time.Duration(at) - time.Since(w.start); d > 0 {
						time.Sleep(d)
					}
					if w.bw && codes.Code(code) == codes.Content && f[3] != "-" && w.liveReg(tok) {
						w.injectBlockwise(tok, codes.Code(code), f[3], f[5])
					} else {
						w.inject(tok, codes.Code(code), f[3], f[5])
					}
				case "reuse":
					id, _ := strconv.Atoi(f[2])
					nt, _ := strconv.ParseUint(f[3], 10, 64)
					if id < len(w.regs) {
						r := w.regs[id]
						w.mu.Lock()
						done := r.done
						w.mu.Unlock()
						if done && r.req != nil {
							// DoObserve has returned: the request message belongs to the application again
							t := tokBytes(nt)
							if len(f) == 5 && f[4] == "short" {
								t = shortTok(nt)
							}
							r.req.SetContext(context.Background())
							if err := r.req.SetupGet("/other", t); err != nil {
								panic(err)
							}
							r.req.SetType(message.NonConfirmable)
							if w.udp != nil {
								r.req.SetMessageID(w.udp.GetMessageID())
							}
							go func() { _ = w.cc.WriteMessage(r.req) }()
						}
					}
				case "regabort":
					id, _ := strconv.Atoi(f[2])
					if id < len(w.regs) {
						w.regs[id].cancel()
					}
				case "cancel":
					id, _ := strconv.Atoi(f[2])
					if id < len(w.regs) && w.regs[id].obs != nil {
						r := w.regs[id]
						if w.udp != nil {
							w.scanSent()
							delete(w.deregMID, r.tok) // only a deregistration request written from now on is answered
						} else {
							w.scanFrames()
							delete(w.deregTCP, r.tok)
						}
						delete(w.deregTag, r.tok)
						ctx, cancel := context.WithTimeout(context.Background(), time.Millisecond)
						if len(f) == 4 && f[3] == "done" {
							cancel() // `defer obs.Cancel(ctx)` after ctx has ended: the cancellation must still take effect
						}
						go func() {
							// the deregistration request of every other registration is answered (2.05 without Observe); the
							// others are left unanswered: Cancel returns by its context
							_ = r.obs.Cancel(ctx)
							cancel()
							w.log(fmt.Sprintf("cancelreturned %d", id))
						}()
						synctest.Wait()
						// the deregistration request Cancel wrote (if any): which ETag does it carry?
						if w.udp != nil {
							w.scanSent()
						} else {
							w.scanFrames()
						}
						if e, ok := w.deregTag[r.tok]; ok {
							delete(w.deregTag, r.tok)
							w.log(fmt.Sprintf("dereg %d %s", id, e))
						}
						if id%2 == 1 {
							w.answerDeregistration(r.tok)
							synctest.Wait()
						}
						time.Sleep(2 * time.Millisecond)
					}
				}
			}()
			synctest.Wait()
			if out[i] == "" {
				// report observations that the library itself considers cleaned up
				w.mu.Lock()
				for _, r := range w.regs {
					if r.done && !r.gone {
						if r.failed {
							r.gone = true
							w.events = append(w.events, fmt.Sprintf("cancelled %d", r.id))
						} else if o, ok := r.obs.(interface{ Canceled() bool }); ok && o.Canceled() {
							r.gone = true
							w.events = append(w.events, fmt.Sprintf("cancelled %d", r.id))
						}
					}
				}
				w.mu.Unlock()
				out[i] = w.take()
			}
		}
		for _, r := range w.regs {
			r.cancel()
		}
		_ = w.cc.Close()
		if w.tp != nil {
			w.tp.Close()
		}
		synctest.Wait()
	})
	return out
}

func TestC08(t *testing.T) {
	var transport string
	var ops [][]string
	flush := func(w *bufio.Writer) {
		if transport == "" {
			return
		}
		fmt.Fprintln(w, "ok")
		lp.PoolTraceBegin()
		res := runCase(t, transport, ops)
		lp.PoolTraceEnd(fmt.Sprintf("c08 %s %d-ops", transport, len(ops)))
		for _, l := range res {
			fmt.Fprintln(w, l)
		}
		transport, ops = "", nil
	}
	err := lp.FileLoop(func(f []string, w *bufio.Writer) {
		switch {
		case len(f) == 2 && f[0] == "cfg":
			flush(w)
			transport = f[1]
		case len(f) == 5 && f[0] == "valid":
			flush(w)
			o, _ := strconv.ParseUint(f[1], 10, 32)
			n, _ := strconv.ParseUint(f[2], 10, 32)
			now, _ := strconv.ParseInt(f[4], 10, 64)
			base := time.Unix(1_000_000_000, 0)
			last := time.Time{}
			if f[3] != "-" {
				l, _ := strconv.ParseInt(f[3], 10, 64)
				last = base.Add(time.Duration(l))
			}
			fmt.Fprintln(w, observation.ValidSequenceNumber(uint32(o), uint32(n), last, base.Add(time.Duration(now))))
		case len(f) == 1 && f[0] == "end":
			flush(w)
			fmt.Fprintln(w, "end")
		case transport != "" && (f[0] == "reg" && (len(f) == 2 || len(f) == 3) || (f[0] == "arrive" || f[0] == "arrivez" || f[0] == "arrivex" || f[0] == "arrivep") && len(f) == 6 || (f[0] == "regabort" || f[0] == "cancel") && len(f) == 3 || f[0] == "cancel" && len(f) == 4 || f[0] == "reuse" && (len(f) == 4 || len(f) == 5)):
			ops = append(ops, f)
		default:
			flush(w)
			fmt.Fprintln(w, "bad-op")
		}
	})
	if err != nil {
		t.Fatal(err)
	}
}
