//go:build c14coop

// C08 under the cooperative scheduler: cancellations that overlap, at critical-section granularity.
//
// Built only by checks/c08.py with `-tags "verif c14coop" -overlay …` - the overlay of the C14 check (harness/c14/overlay/
// zz_coop_verif.go.txt): the RWMutex of pkg/sync.Map becomes CoopRWMutex, whose Lock/RLock call into the scheduler below.
// Exactly one goroutine runs at a time; a thread of a `par` step stops before it starts and at every lock acquisition, so one
// scheduled step is one critical section of the observation table together with the lock-free code around it.  ALL
// interleavings of a `par` step are enumerated (depth-first over the choice points), each on a fresh observation.Handler.
//
// The Handler is the real net/observation.Handler over a client that answers a registration request at once (2.05 with
// Observe) and answers the deregistration GET of Cancel at once.
//
// Input ($VERIF_IN):  coop <op>;<op>;…      ops: reg <tok> · arrive <tok> <seq> <tag> · cancel <tok> <id> ·
//                                                 par cancel <tok> <id> & cancel <tok> <id> [& …]   (released together)
// Output ($VERIF_OUT): one line: for every schedule `sched=<picks> :: <observed of op 1> / <observed of op 2> / …`, joined by ` || `.
// Observed events are those of the main harness: cb <id> <tok> <seq> <at> <tag> ; regok <id> ; regerr <id> ; cancelled <id>
// (the handle reports Canceled()) ; cancelreturned <id> ; default <tag>.  <at> of step k is k*1000.
package c08

import (
	"bufio"
	"context"
	"encoding/binary"
	"fmt"
	"strconv"
	"strings"
	"testing"

	"github.com/plgd-dev/go-coap/v3/message"
	"github.com/plgd-dev/go-coap/v3/message/codes"
	"github.com/plgd-dev/go-coap/v3/message/pool"
	"github.com/plgd-dev/go-coap/v3/net/observation"
	"github.com/plgd-dev/go-coap/v3/net/responsewriter"
	csync "github.com/plgd-dev/go-coap/v3/pkg/sync"
	"verifharness/internal/lp"
)

// ---------------------------------------------------------------- scheduler

type cthread struct {
	id        int
	wake      chan struct{}
	started   bool
	wantMu    *csync.CoopRWMutex
	wantWrite bool
	done      bool
}

type coopSched struct {
	threads []*cthread
	cur     *cthread
	yield   chan int
	panics  []string
}

func coopAvailable(mu *csync.CoopRWMutex, write bool) bool {
	if write {
		return !mu.Writer && mu.Readers == 0
	}
	return !mu.Writer
}

func coopTake(mu *csync.CoopRWMutex, write bool) {
	if write {
		mu.Writer = true
	} else {
		mu.Readers++
	}
}

func (s *coopSched) Acquire(mu *csync.CoopRWMutex, write bool) {
	t := s.cur
	if t == nil {
		// the sequential steps of the history
		if !coopAvailable(mu, write) {
			panic("lock unavailable in a sequential step")
		}
		coopTake(mu, write)
		return
	}
	t.wantMu, t.wantWrite = mu, write
	s.yield <- t.id
	<-t.wake
	t.wantMu = nil
	coopTake(mu, write)
}

func (s *coopSched) Release(mu *csync.CoopRWMutex, write bool) {
	if write {
		mu.Writer = false
	} else {
		mu.Readers--
	}
}

func (s *coopSched) enabled() []int {
	var en []int
	for _, t := range s.threads {
		if t.done {
			continue
		}
		if !t.started || (t.wantMu != nil && coopAvailable(t.wantMu, t.wantWrite)) {
			en = append(en, t.id)
		}
	}
	return en
}

// runPar runs the functions as threads under the schedule prefix (index into the enabled list at every choice point; past the
// prefix: the first enabled thread).  Returns the picks made and the number of alternatives at each point.
func (s *coopSched) runPar(fs []func(), prefix []int) (taken, width []int) {
	s.threads = nil
	s.yield = make(chan int)
	for i, f := range fs {
		t := &cthread{id: i, wake: make(chan struct{})}
		s.threads = append(s.threads, t)
		go func(t *cthread, f func()) {
			<-t.wake
			defer func() {
				if r := recover(); r != nil {
					s.panics = append(s.panics, fmt.Sprintf("panic %v", r))
				}
				t.done = true
				s.yield <- t.id
			}()
			f()
		}(t, f)
	}
	for {
		en := s.enabled()
		if len(en) == 0 {
			break
		}
		k := 0
		if len(taken) < len(prefix) && prefix[len(taken)] < len(en) {
			k = prefix[len(taken)]
		}
		taken = append(taken, k)
		width = append(width, len(en))
		t := s.threads[en[k]]
		t.started = true
		s.cur = t
		t.wake <- struct{}{}
		<-s.yield
		s.cur = nil
	}
	for _, t := range s.threads {
		if !t.done {
			panic("deadlock under the cooperative scheduler")
		}
	}
	return taken, width
}

// ---------------------------------------------------------------- the observed system

type coopClient struct {
	ctx context.Context
	h   *observation.Handler[*coopClient]
	seq uint32
}

func (c *coopClient) Context() context.Context                         { return c.ctx }
func (c *coopClient) AcquireMessage(ctx context.Context) *pool.Message { return pool.NewMessage(ctx) }
func (c *coopClient) ReleaseMessage(*pool.Message)                     {}

// WriteMessage "sends" the registration request: the peer answers at once with 2.05 and the next sequence number.
func (c *coopClient) WriteMessage(req *pool.Message) error {
	c.seq++
	c.deliver(req.Token(), c.seq, "r")
	return nil
}

func (c *coopClient) deliver(tok message.Token, seq uint32, tag string) {
	n := pool.NewMessage(c.ctx)
	n.SetCode(codes.Content)
	n.SetToken(tok)
	n.SetObserve(seq)
	n.SetContentFormat(message.TextPlain)
	n.SetBody(strings.NewReader(tag))
	c.h.Handle(responsewriter.New(pool.NewMessage(c.ctx), c), n)
}

type coopWorld struct {
	cl     *coopClient
	events []string
	regs   []*observation.Observation[*coopClient]
	gone   []bool
	at     int64
}

func (w *coopWorld) log(s string) { w.events = append(w.events, s) }

func (w *coopWorld) take() string {
	// the handles that report themselves cancelled
	for i, o := range w.regs {
		if o != nil && !w.gone[i] && o.Canceled() {
			w.gone[i] = true
			w.events = append(w.events, fmt.Sprintf("cancelled %d", i))
		}
	}
	if len(w.events) == 0 {
		return "none"
	}
	s := strings.Join(w.events, " ; ")
	w.events = nil
	return s
}

func newCoopWorld() *coopWorld {
	w := &coopWorld{}
	w.cl = &coopClient{ctx: context.Background()}
	w.cl.h = observation.NewHandler(w.cl,
		func(_ *responsewriter.ResponseWriter[*coopClient], m *pool.Message) { w.log("default " + tagOf(m)) },
		func(req *pool.Message) (*pool.Message, error) {
			// the deregistration exchange of Cancel (GET with Observe=1), answered with 2.05
			resp := pool.NewMessage(req.Context())
			resp.SetCode(codes.Content)
			resp.SetToken(req.Token())
			return resp, nil
		})
	return w
}

func tok64(m *pool.Message) uint64 {
	return binary.BigEndian.Uint64(append(make([]byte, 8-len(m.Token())), m.Token()...))
}

func (w *coopWorld) cancelFn(f []string) func() {
	id, _ := strconv.Atoi(f[2])
	return func() {
		if id < len(w.regs) && w.regs[id] != nil {
			_ = w.regs[id].Cancel(context.Background())
			w.log(fmt.Sprintf("cancelreturned %d", id))
		}
	}
}

// runSchedule executes the history once; the `par` steps consume the prefix.
func runSchedule(ops []string, prefix []int) (obs []string, taken, width []int) {
	w := newCoopWorld()
	s := &coopSched{}
	csync.VerifCoopHook = s
	defer func() { csync.VerifCoopHook = nil }()
	for k, op := range ops {
		w.at = int64(k+1) * 1000
		f := strings.Fields(op)
		out := func() (out string) {
			defer func() {
				if r := recover(); r != nil {
					out = fmt.Sprintf("panic %v", r)
				}
			}()
			switch {
			case len(f) == 2 && f[0] == "reg":
				tok, _ := strconv.ParseUint(f[1], 10, 64)
				id := len(w.regs)
				w.regs = append(w.regs, nil)
				w.gone = append(w.gone, false)
				req := pool.NewMessage(w.cl.ctx)
				req.SetCode(codes.GET)
				req.SetToken(tokBytes(tok))
				_ = req.SetPath("/obs")
				req.SetObserve(0)
				o, err := w.cl.h.NewObservation(req, func(m *pool.Message) {
					w.log(fmt.Sprintf("cb %d %d %s %d %s", id, tok64(m), seqOf(m), w.at, tagOf(m)))
				})
				if err != nil {
					w.gone[id] = true
					w.log(fmt.Sprintf("regerr %d", id))
					w.log(fmt.Sprintf("cancelled %d", id))
				} else {
					w.regs[id] = o
					w.log(fmt.Sprintf("regok %d", id))
				}
			case len(f) == 4 && f[0] == "arrive":
				tok, _ := strconv.ParseUint(f[1], 10, 64)
				seq, _ := strconv.ParseUint(f[2], 10, 32)
				w.cl.deliver(tokBytes(tok), uint32(seq), f[3])
			case len(f) == 3 && f[0] == "cancel":
				w.cancelFn(f)()
			case len(f) >= 4 && f[0] == "par":
				var fs []func()
				for _, part := range strings.Split(strings.Join(f[1:], " "), "&") {
					g := strings.Fields(part)
					if len(g) != 3 || g[0] != "cancel" {
						panic("bad-op")
					}
					fs = append(fs, w.cancelFn(g))
				}
				used := len(taken)
				var rest []int
				if used < len(prefix) {
					rest = prefix[used:]
				}
				t, wd := s.runPar(fs, rest)
				taken = append(taken, t...)
				width = append(width, wd...)
				if len(s.panics) > 0 {
					panic(strings.Join(s.panics, ","))
				}
			default:
				panic("bad-op")
			}
			return ""
		}()
		if out == "" {
			out = w.take()
		}
		obs = append(obs, out)
	}
	return obs, taken, width
}

func TestC08Coop(t *testing.T) {
	err := lp.FileLoop(func(f []string, w *bufio.Writer) {
		if len(f) < 2 || f[0] != "coop" {
			fmt.Fprintln(w, "bad-op")
			return
		}
		ops := strings.Split(strings.Join(f[1:], " "), ";")
		var results []string
		var prefix []int
		for n := 0; n < 5000; n++ {
			obs, taken, width := runSchedule(ops, prefix)
			picks := make([]string, len(taken))
			for i, k := range taken {
				picks[i] = strconv.Itoa(k)
			}
			results = append(results, "sched="+strings.Join(picks, "")+" :: "+strings.Join(obs, " / "))
			// next schedule: the last choice point that has an alternative left
			k := len(taken) - 1
			for k >= 0 && taken[k]+1 >= width[k] {
				k--
			}
			if k < 0 {
				break
			}
			prefix = append(append([]int(nil), taken[:k]...), taken[k]+1)
		}
		fmt.Fprintln(w, strings.Join(results, " || "))
	})
	if err != nil {
		t.Fatal(err)
	}
}
