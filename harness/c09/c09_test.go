// Harness for C09: interruption grid. Each line
//
//	case <udp|tcp> <op> <point> <cause>
//
// runs one blocking client operation on a real client.Conn (in-memory transport, synctest virtual time), brings it to
// the interruption point, applies the cause and reports whether and how long (virtual ns) after the cause the call
// returned; then closes the connection from three goroutines (and once more) and reports the done signal and how
// often each of two registered on-close callbacks ran.
//
//	op    : get | observe | obscancel | ping | write
//	point : pre | sent | acked | queued | midblock
//	cause : cancel | deadline | close | peerclose | garbage
//
// Output: ret <0|1> after <ns> err <kind> ; done <0|1> onclose <a> <b> ; panics <n>
package c09

import (
	"bufio"
	"bytes"
	"context"
	"errors"
	"fmt"
	"io"
	"strconv"
	"strings"
	"sync"
	"sync/atomic"
	"testing"
	"testing/synctest"
	"time"

	"github.com/plgd-dev/go-coap/v3/message"
	"github.com/plgd-dev/go-coap/v3/message/codes"
	"github.com/plgd-dev/go-coap/v3/message/pool"
	"github.com/plgd-dev/go-coap/v3/net/blockwise"
	"github.com/plgd-dev/go-coap/v3/net/client"
	"github.com/plgd-dev/go-coap/v3/net/responsewriter"
	tcpclient "github.com/plgd-dev/go-coap/v3/tcp/client"
	tcpcoder "github.com/plgd-dev/go-coap/v3/tcp/coder"
	udpclient "github.com/plgd-dev/go-coap/v3/udp/client"
	udpcoder "github.com/plgd-dev/go-coap/v3/udp/coder"
	"verifharness/internal/lp"
	"verifharness/internal/mem"
)

type conn interface {
	Get(ctx context.Context, path string, opts ...message.Option) (*pool.Message, error)
	Post(ctx context.Context, path string, contentFormat message.MediaType, payload io.ReadSeeker, opts ...message.Option) (*pool.Message, error)
	Observe(ctx context.Context, path string, observeFunc func(req *pool.Message), opts ...message.Option) (client.Observation, error)
	Ping(ctx context.Context) error
	WriteMessage(req *pool.Message) error
	AcquireMessage(ctx context.Context) *pool.Message
	ReleaseMessage(m *pool.Message)
	Close() error
	Done() <-chan struct{}
	AddOnClose(f func())
	Context() context.Context
}

type world struct {
	cc     conn
	udp    *udpclient.Conn
	us     *mem.UDPSession
	tp     *mem.TCPPeer
	mu     sync.Mutex
	reqs   []*pool.Message // requests seen on the wire (decoded)
	mid    int32
	isTCP  bool
	closed atomic.Bool
}

func (w *world) inject(m *pool.Message) {
	if w.isTCP {
		b, err := m.MarshalWithEncoder(tcpcoder.DefaultCoder)
		if err != nil {
			panic(err)
		}
		_ = w.tp.Write(append([]byte(nil), b...))
		return
	}
	b, err := m.MarshalWithEncoder(udpcoder.DefaultCoder)
	if err != nil {
		panic(err)
	}
	_ = w.udp.Process(nil, append([]byte(nil), b...))
}

// collect decodes what the connection wrote since the last call.
func (w *world) collect() []*pool.Message {
	var out []*pool.Message
	if w.isTCP {
		for _, fr := range w.tp.TakeFrames() {
			m := pool.NewMessage(context.Background())
			if _, err := m.UnmarshalWithDecoder(tcpcoder.DefaultCoder, fr); err == nil {
				out = append(out, m)
			}
		}
		return out
	}
	for _, d := range w.us.TakeSent() {
		m := pool.NewMessage(context.Background())
		if _, err := m.UnmarshalWithDecoder(udpcoder.DefaultCoder, d.Data); err == nil {
			out = append(out, m)
		}
	}
	return out
}

// slowRunExit: how long after Close() the in-memory datagram session's reader returns in the `slowrun` cases
const slowRunExit = 50 * time.Millisecond

func newWorld(transport string, bw bool, limit int64, slowRun ...bool) (*world, error) {
	w := &world{mid: 40000, isTCP: transport == "tcp"}
	if !w.isTCP {
		var exitDelay time.Duration
		if len(slowRun) > 0 && slowRun[0] {
			exitDelay = slowRunExit
		}
		w.udp, w.us = mem.NewUDPConn(mem.UDPOpts{Blockwise: bw, BlockwiseSZX: blockwise.SZX16, BlockwiseTimeout: 3 * time.Second, RunExitDelay: exitDelay,
			Mutate: func(cfg *udpclient.Config) {
				cfg.LimitClientParallelRequests = limit
				cfg.LimitClientEndpointParallelRequests = limit
			}})
		w.cc = w.udp
		return w, nil
	}
	cc, peer, err := mem.NewTCPConn(mem.TCPOpts{Mutate: func(cfg *tcpclient.Config) {
		cfg.LimitClientParallelRequests = limit
		cfg.LimitClientEndpointParallelRequests = limit
		cfg.BlockwiseEnable = bw
		cfg.BlockwiseSZX = blockwise.SZX16
		cfg.BlockwiseTransferTimeout = 3 * time.Second
	}})
	if err != nil {
		return nil, err
	}
	w.cc, w.tp = cc, peer
	synctest.Wait()
	if bw {
		// the peer's CSM announces block-wise support
		csm := pool.NewMessage(context.Background())
		csm.SetCode(codes.CSM)
		csm.SetToken(message.Token{1})
		csm.SetOptionBytes(message.TCPBlockWiseTransfer, []byte{})
		w.inject(csm)
		synctest.Wait()
	}
	w.tp.TakeFrames()
	return w, nil
}

func errKind(err error) string {
	switch {
	case err == nil:
		return "nil"
	case errors.Is(err, context.Canceled):
		return "canceled"
	case errors.Is(err, context.DeadlineExceeded):
		return "deadline"
	case strings.Contains(err.Error(), "closed"):
		return "closed"
	}
	return "other"
}

func runCase(t *testing.T, transport, op, point, cause string) (line string) {
	synctest.Test(t, func(t *testing.T) {
		panics := 0
		defer func() {
			if r := recover(); r != nil {
				line = fmt.Sprintf("panic %v", r)
			}
		}()
		limit := int64(8)
		if point == "queued" || point == "queuedg" {
			limit = 1
		}
		w, err := newWorld(transport, point == "midblock", limit, point == "slowrun")
		if err != nil {
			line = "conn-error"
			return
		}
		defer func() {
			_ = w.cc.Close()
			if w.tp != nil {
				w.tp.Close()
			}
			synctest.Wait()
		}()
		var cbA, cbB atomic.Int32
		// the first callback registers two more while the shutdown walks its list: the callbacks registered before the
		// close must still run exactly once each (whether the late ones run is not demanded)
		w.cc.AddOnClose(func() {
			cbA.Add(1)
			w.cc.AddOnClose(func() {})
			w.cc.AddOnClose(func() {})
		})
		w.cc.AddOnClose(func() { cbB.Add(1) })

		baseCtx, baseCancel := context.WithCancel(context.Background())
		defer baseCancel()
		var ctx context.Context
		var cancel context.CancelFunc
		deadlineIn := 5 * time.Second
		if cause == "deadline" {
			ctx, cancel = context.WithTimeout(baseCtx, deadlineIn)
		} else {
			ctx, cancel = context.WithCancel(baseCtx)
		}
		defer cancel()
		defer baseCancel()

		applyCause := func() time.Time {
			switch cause {
			case "cancel":
				cancel()
			case "deadline":
				// nothing to do: the deadline passes by itself
				return time.Now().Add(deadlineIn) // corrected below for the pre point
			case "close":
				_ = w.cc.Close()
			case "peerclose":
				if w.isTCP {
					w.tp.Close()
				} else {
					_ = w.cc.Close() // datagram transports have no peer close: the local side notices nothing; use close
				}
			case "garbage":
				if w.isTCP {
					_ = w.tp.Write([]byte{0xf0, 0xff, 0xff, 0xff, 0xff, 0x01}) // oversized frame: the connection is closed with an error
				} else {
					_ = w.udp.Process(nil, []byte{0xff, 0xff, 0xff}) // undecodable datagram: reported, the connection lives on
					cancel()                                         // … so the call ends by its context
				}
			}
			return time.Now()
		}

		// for obscancel: establish the observation first
		var obs client.Observation
		if op == "obscancel" {
			octx, ocancel := context.WithTimeout(baseCtx, 10*time.Second)
			done := make(chan struct{})
			go func() {
				defer close(done)
				obs, _ = w.cc.Observe(octx, "/q", func(*pool.Message) {})
			}()
			synctest.Wait()
			for _, m := range w.collect() {
				if m.Code() == codes.GET {
					r := pool.NewMessage(context.Background())
					r.SetCode(codes.Content)
					r.SetToken(m.Token())
					r.SetObserve(5)
					if !w.isTCP {
						r.SetType(message.Acknowledgement)
						r.SetMessageID(m.MessageID())
					}
					w.inject(r)
				}
			}
			synctest.Wait()
			<-done
			ocancel()
			if obs == nil {
				line = "setup-failed"
				return
			}
		}

		// holder: a first request that occupies the limiter slot (peer silent)
		var holderDone chan struct{}
		// queued: the holder uses the operation's own path (the operation waits for the endpoint slot); queuedg: another path
		// (the operation takes its endpoint slot and waits for the connection-wide one)
		if point == "queued" || point == "queuedg" {
			holderDone = make(chan struct{})
			hctx, hcancel := context.WithTimeout(baseCtx, 60*time.Second)
			defer hcancel()
			hpath := "/q"
			if point == "queuedg" {
				hpath = "/h"
			}
			go func() {
				defer close(holderDone)
				r, err := w.cc.Get(hctx, hpath)
				if err == nil {
					w.cc.ReleaseMessage(r)
				}
			}()
			synctest.Wait()
			w.collect()
		}

		// sentaf ("sent, after failures"): the connection is not fresh - the application has just issued a series of one-way
		// writes whose context had already ended (each returns its context's error at once); the operation that is interrupted
		// is the SECOND kind of use of the connection and must behave as on a fresh one
		if point == "sentaf" {
			for i := 0; i < 24; i++ {
				dctx, dcancel := context.WithCancel(baseCtx)
				dcancel()
				m := w.cc.AcquireMessage(dctx)
				m.SetCode(codes.POST)
				m.SetToken(message.Token{0x66, byte(i)})
				_ = m.SetPath("/gone")
				_ = w.cc.WriteMessage(m)
				w.cc.ReleaseMessage(m)
			}
			synctest.Wait()
			w.collect()
		}

		var causeAt time.Time
		if point == "pre" {
			causeAt = applyCause()
			if cause == "deadline" {
				time.Sleep(deadlineIn + time.Millisecond)
				causeAt = time.Now()
			}
			synctest.Wait()
		}

		retCh := make(chan error, 1)
		var retAt atomic.Int64
		go func() {
			var err error
			switch op {
			case "get":
				var r *pool.Message
				if point == "midblock" {
					r, err = w.cc.Post(ctx, "/q", message.AppOctets, bytes.NewReader(make([]byte, 100)))
				} else {
					r, err = w.cc.Get(ctx, "/q")
				}
				if err == nil {
					w.cc.ReleaseMessage(r)
				}
			case "observe":
				_, err = w.cc.Observe(ctx, "/q", func(*pool.Message) {})
			case "obscancel":
				err = obs.Cancel(ctx)
			case "ping":
				err = w.cc.Ping(ctx)
			case "write":
				m := w.cc.AcquireMessage(ctx)
				m.SetCode(codes.POST)
				m.SetToken(message.Token{0x55})
				_ = m.SetPath("/q")
				if point == "midblock" {
					m.SetContentFormat(message.AppOctets)
					m.SetBody(bytes.NewReader(make([]byte, 100)))
				}
				err = w.cc.WriteMessage(m)
				w.cc.ReleaseMessage(m)
			}
			retAt.Store(time.Now().UnixNano())
			retCh <- err
		}()
		synctest.Wait()

		if point != "pre" {
			// bring the operation to the interruption point
			if point == "acked" && !w.isTCP {
				for _, m := range w.collect() {
					if m.Type() == message.Confirmable {
						a := pool.NewMessage(context.Background())
						a.SetCode(codes.Empty)
						a.SetType(message.Acknowledgement)
						a.SetMessageID(m.MessageID())
						w.inject(a)
					}
				}
				synctest.Wait()
			}
			if point == "midblock" {
				for _, m := range w.collect() {
					if v, err := m.GetOptionUint32(message.Block1); err == nil {
						r := pool.NewMessage(context.Background())
						r.SetCode(codes.Continue)
						r.SetToken(m.Token())
						r.SetOptionUint32(message.Block1, v)
						if !w.isTCP {
							r.SetType(message.Acknowledgement)
							r.SetMessageID(m.MessageID())
						}
						w.inject(r)
					}
				}
				synctest.Wait()
				w.collect() // the second block is now outstanding; the peer goes silent
			}
			// if the call already returned (e.g. a one-way non-confirmable write completes at once) there is nothing to interrupt
			select {
			case err := <-retCh:
				retCh <- err
				causeAt = time.Now()
			default:
				time.Sleep(10 * time.Millisecond)
				causeAt = applyCause()
			}
		}
		synctest.Wait()

		returned := 0
		kind := "-"
		var after int64 = -1
		wait := 2 * time.Millisecond
		if cause == "deadline" {
			wait = deadlineIn + 10*time.Millisecond
		}
		select {
		case err := <-retCh:
			returned, kind = 1, errKind(err)
		default:
			time.Sleep(wait)
			synctest.Wait()
			select {
			case err := <-retCh:
				returned, kind = 1, errKind(err)
			default:
			}
		}
		if returned == 1 {
			after = retAt.Load() - causeAt.UnixNano()
			if after < 0 {
				after = 0
			}
		}

		// queuedg: a follow-up request for the operation's path, with a context that does not end, is issued after the
		// interrupted one has returned; it queues behind the holder and must return when the connection is closed
		var followCh chan struct{}
		if point == "queuedg" && returned == 1 && (cause == "cancel" || cause == "deadline") {
			followCh = make(chan struct{})
			go func() {
				defer close(followCh)
				r, err := w.cc.Get(baseCtx, "/q")
				if err == nil {
					w.cc.ReleaseMessage(r)
				}
			}()
			synctest.Wait()
		}

		// close: three goroutines at once, then once more
		var wg sync.WaitGroup
		for i := 0; i < 3; i++ {
			wg.Add(1)
			go func() {
				defer wg.Done()
				defer func() {
					if recover() != nil {
						panics++
					}
				}()
				_ = w.cc.Close()
			}()
		}
		wg.Wait()
		_ = w.cc.Close()
		if w.tp != nil {
			w.tp.Close()
		}
		synctest.Wait()
		if point == "slowrun" {
			time.Sleep(slowRunExit + time.Millisecond) // the reader returns now; the done signal follows
			synctest.Wait()
		}
		done := 0
		select {
		case <-w.cc.Done():
			done = 1
		default:
		}
		if followCh != nil {
			// the connection is closed: the follow-up request must have returned (its context has not ended)
			select {
			case <-followCh:
			default:
				returned, after, kind = 0, -1, "followup-stuck"
			}
		}
		baseCancel()
		if followCh != nil {
			<-followCh
		}
		if holderDone != nil {
			<-holderDone
		}
		if returned == 0 {
			// let the stuck call end so that the bubble can finish; it is reported as not returned
			cancel()
			time.Sleep(70 * time.Second)
			synctest.Wait()
			select {
			case <-retCh:
			default:
			}
		}
		line = fmt.Sprintf("ret %d after %d err %s ; done %d onclose %d %d ; panics %d", returned, after, kind, done, cbA.Load(), cbB.Load(), panics)
	})
	return line
}

// runQueueFull: the connection's own handler blocks, the peer keeps sending requests until the receive queue (16) is full
// and the socket reader is parked in its hand-over to the queue; then the connection is closed (or the peer closes /
// sends garbage).  The reader must leave, the done signal must be completed and the on-close callbacks run once.
func runQueueFull(t *testing.T, transport, cause string) (line string) {
	synctest.Test(t, func(t *testing.T) {
		defer func() {
			if r := recover(); r != nil {
				line = fmt.Sprintf("panic %v", r)
			}
		}()
		release := make(chan struct{})
		handler := func() { <-release }
		var cc conn
		var us *mem.UDPSession
		var tp *mem.TCPPeer
		if transport == "udp" {
			c, s := mem.NewUDPConn(mem.UDPOpts{RunExitDelay: slowRunExit, Mutate: func(cfg *udpclient.Config) {
				cfg.Handler = func(*responsewriter.ResponseWriter[*udpclient.Conn], *pool.Message) { handler() }
			}})
			cc, us = c, s
		} else {
			c, p, err := mem.NewTCPConn(mem.TCPOpts{Mutate: func(cfg *tcpclient.Config) {
				cfg.Handler = func(*responsewriter.ResponseWriter[*tcpclient.Conn], *pool.Message) { handler() }
			}})
			if err != nil {
				line = "conn-error"
				return
			}
			cc, tp = c, p
			synctest.Wait()
			tp.TakeFrames()
		}
		var cbA, cbB atomic.Int32
		// the first callback registers two more while the shutdown walks its list: the callbacks registered before the
		// close must still run exactly once each (whether the late ones run is not demanded)
		cc.AddOnClose(func() {
			cbA.Add(1)
			cc.AddOnClose(func() {})
			cc.AddOnClose(func() {})
		})
		cc.AddOnClose(func() { cbB.Add(1) })
		// the peer's burst: more requests than the queue holds
		var pw sync.WaitGroup
		pw.Add(1)
		go func() {
			defer pw.Done()
			for i := 0; i < 24; i++ {
				m := pool.NewMessage(context.Background())
				m.SetCode(codes.GET)
				m.SetToken(message.Token{0x51, byte(i)})
				_ = m.SetPath("/h")
				if transport == "udp" {
					m.SetType(message.NonConfirmable)
					m.SetMessageID(int32(6000 + i))
					b, _ := m.MarshalWithEncoder(udpcoder.DefaultCoder)
					us.Deliver(b)
				} else {
					b, _ := m.MarshalWithEncoder(tcpcoder.DefaultCoder)
					if err := tp.Write(append([]byte(nil), b...)); err != nil {
						return
					}
				}
			}
		}()
		synctest.Wait() // the reader is parked: queue full, handler blocked
		causeAt := time.Now()
		switch cause {
		case "close":
			go func() { _ = cc.Close() }()
		case "peerclose":
			if tp != nil {
				go tp.Conn.Close()
			} else {
				go func() { _ = cc.Close() }()
			}
		}
		synctest.Wait()
		time.Sleep(slowRunExit + time.Millisecond)
		synctest.Wait()
		done, after := 0, int64(-1)
		select {
		case <-cc.Done():
			done = 1
			after = 0
		default:
		}
		_ = causeAt
		// three more closers, as in the grid
		var wg sync.WaitGroup
		for i := 0; i < 3; i++ {
			wg.Add(1)
			go func() { defer wg.Done(); _ = cc.Close() }()
		}
		wg.Wait()
		close(release)
		if tp != nil {
			tp.Close()
		}
		if done == 0 {
			// give a stuck reader the chance to end so that the bubble can finish (it is reported as not done)
			time.Sleep(time.Second)
		}
		synctest.Wait()
		pw.Wait()
		line = fmt.Sprintf("ret %d after %d err - ; done %d onclose %d %d ; panics 0", done, after, done, cbA.Load(), cbB.Load())
	})
	return line
}

// runStalled: the stream peer has stopped reading, so the operation's Write blocks inside the transport ("during send").
// Real time (a goroutine blocked on a mutex is not durably blocked, so a bubble could never report a hanging Close).
func runStalled(op, cause string) (line string) {
	defer func() {
		if r := recover(); r != nil {
			line = fmt.Sprintf("panic %v", r)
		}
	}()
	const settle = 30 * time.Millisecond
	cc, peer, err := mem.NewTCPConn(mem.TCPOpts{Mutate: func(cfg *tcpclient.Config) {
		cfg.LimitClientParallelRequests = 8
		cfg.LimitClientEndpointParallelRequests = 8
	}})
	if err != nil {
		return "conn-error"
	}
	w := &world{mid: 40000, isTCP: true, cc: cc, tp: peer}
	time.Sleep(settle)
	peer.TakeFrames()
	var cbA, cbB atomic.Int32
	// the first callback registers two more while the shutdown walks its list: the callbacks registered before the
	// close must still run exactly once each (whether the late ones run is not demanded)
	cc.AddOnClose(func() {
		cbA.Add(1)
		cc.AddOnClose(func() {})
		cc.AddOnClose(func() {})
	})
	cc.AddOnClose(func() { cbB.Add(1) })
	baseCtx, baseCancel := context.WithCancel(context.Background())
	defer baseCancel()
	var obs client.Observation
	if op == "obscancel" {
		octx, ocancel := context.WithTimeout(baseCtx, 2*time.Second)
		done := make(chan struct{})
		go func() {
			defer close(done)
			obs, _ = cc.Observe(octx, "/q", func(*pool.Message) {})
		}()
		time.Sleep(settle)
		for _, m := range w.collect() {
			if m.Code() == codes.GET {
				r := pool.NewMessage(context.Background())
				r.SetCode(codes.Content)
				r.SetToken(m.Token())
				r.SetObserve(5)
				w.inject(r)
			}
		}
		<-done
		ocancel()
		if obs == nil {
			peer.Close()
			_ = cc.Close()
			return "setup-failed"
		}
	}
	peer.Stall()
	time.Sleep(settle)
	deadlineIn := 150 * time.Millisecond
	var ctx context.Context
	var cancel context.CancelFunc
	if cause == "deadline" {
		ctx, cancel = context.WithTimeout(baseCtx, deadlineIn)
	} else {
		ctx, cancel = context.WithCancel(baseCtx)
	}
	defer cancel()
	start := time.Now()
	retCh := make(chan error, 1)
	var retAt atomic.Int64
	go func() {
		var err error
		switch op {
		case "get":
			var r *pool.Message
			r, err = cc.Get(ctx, "/q")
			if err == nil {
				cc.ReleaseMessage(r)
			}
		case "observe":
			_, err = cc.Observe(ctx, "/q", func(*pool.Message) {})
		case "obscancel":
			err = obs.Cancel(ctx)
		case "ping":
			err = cc.Ping(ctx)
		case "write":
			m := cc.AcquireMessage(ctx)
			m.SetCode(codes.POST)
			m.SetToken(message.Token{0x55})
			_ = m.SetPath("/q")
			err = cc.WriteMessage(m)
			cc.ReleaseMessage(m)
		}
		retAt.Store(time.Now().UnixNano())
		retCh <- err
	}()
	time.Sleep(settle) // the call is now blocked in the transport's Write
	var causeAt time.Time
	closeDone := make(chan struct{}, 8)
	switch cause {
	case "cancel":
		cancel()
		causeAt = time.Now()
	case "deadline":
		causeAt = start.Add(deadlineIn)
		time.Sleep(time.Until(causeAt))
	case "close":
		causeAt = time.Now()
		go func() { _ = cc.Close(); closeDone <- struct{}{} }()
	case "peerclose":
		causeAt = time.Now()
		_ = peer.Conn.Close()
	case "garbage":
		causeAt = time.Now()
		go func() { _ = peer.Write([]byte{0xf0, 0xff, 0xff, 0xff, 0xff, 0x01}) }()
	}
	returned, kind := 0, "-"
	var after int64 = -1
	select {
	case err := <-retCh:
		returned, kind = 1, errKind(err)
		after = retAt.Load() - causeAt.UnixNano()
		if after < 0 {
			after = 0
		}
	case <-time.After(time.Second):
	}
	// close: three goroutines at once, then once more; a hanging Close is noticed by the missing done signal
	panics := 0
	for i := 0; i < 3; i++ {
		go func() {
			defer func() {
				if recover() != nil {
					panics++
				}
				closeDone <- struct{}{}
			}()
			_ = cc.Close()
		}()
	}
	deadline := time.After(time.Second)
	for i := 0; i < 3; i++ {
		select {
		case <-closeDone:
		case <-deadline:
			i = 3
		}
	}
	done := 0
	select {
	case <-cc.Done():
		done = 1
	case <-time.After(500 * time.Millisecond):
	}
	// let everything go: the peer disappears, stuck writes fail
	cancel()
	baseCancel()
	peer.Close()
	if returned == 0 {
		select {
		case <-retCh:
		case <-time.After(2 * time.Second):
		}
	}
	select {
	case <-cc.Done():
	case <-time.After(2 * time.Second):
	}
	return fmt.Sprintf("ret %d after %d err %s ; done %d onclose %d %d ; panics %d", returned, after, kind, done, cbA.Load(), cbB.Load(), panics)
}

func TestC09(t *testing.T) {
	err := lp.FileLoop(func(f []string, w *bufio.Writer) {
		if len(f) == 5 && f[0] == "case" {
			lp.PoolTraceBegin()
			if f[1] == "dtls" && f[2] != "srvstop" {
				fmt.Fprintln(w, runDTLS(f[2], f[3], f[4]))
			} else if strings.HasPrefix(f[3], "opts") {
				n, _ := strconv.Atoi(strings.TrimPrefix(f[3], "opts"))
				fmt.Fprintln(w, runManyOpts(f[1], f[2], n, f[4]))
			} else if f[3] == "stalled" {
				fmt.Fprintln(w, runStalled(f[2], f[4]))
			} else if f[3] == "qfull" {
				fmt.Fprintln(w, runQueueFull(t, f[1], f[4]))
			} else if f[2] == "discover" && f[3] == "liveunserved" {
				fmt.Fprintln(w, runDiscoverUnserved(f[4]))
			} else if f[2] == "discover" {
				fmt.Fprintln(w, runDiscover(f[4]))
			} else if f[2] == "srvstop" && f[3] == "deadpeer" {
				fmt.Fprintln(w, runDeadPeer())
			} else if f[2] == "srvstop" {
				ks := strings.TrimPrefix(f[3], "k")
				slow := strings.HasSuffix(ks, "s")
				if strings.HasSuffix(ks, "r") && f[1] == "udp" {
					kr, _ := strconv.Atoi(strings.TrimSuffix(ks, "r"))
					fmt.Fprintln(w, runServerReconnect(kr))
					lp.PoolTraceEnd("c09 " + strings.Join(f[1:], " "))
					return
				}
				if strings.HasSuffix(ks, "x") && f[1] == "udp" {
					kx, _ := strconv.Atoi(strings.TrimSuffix(ks, "x"))
					fmt.Fprintln(w, runServerCtxStop(kx))
					lp.PoolTraceEnd("c09 " + strings.Join(f[1:], " "))
					return
				}
				if f[1] != "udp" && (strings.HasSuffix(ks, "f") || strings.HasSuffix(ks, "h")) {
					// transport connections whose Close() releases the connection but reports an error: all (f) / every second (h)
					kf, _ := strconv.Atoi(strings.TrimRight(ks, "fh"))
					every := 1
					if strings.HasSuffix(ks, "h") {
						every = 2
					}
					fmt.Fprintln(w, runServerFaultyClose(f[1], kf, every))
					lp.PoolTraceEnd("c09 " + strings.Join(f[1:], " "))
					return
				}
				if i := strings.Index(ks, "o"); i > 0 {
					// one more peer has sent a well-formed message with that many options
					ko, _ := strconv.Atoi(ks[:i])
					no, _ := strconv.Atoi(ks[i+1:])
					fmt.Fprintln(w, runServerStop(f[1], ko, false, false, false, no))
					lp.PoolTraceEnd("c09 " + strings.Join(f[1:], " "))
					return
				}
				appClose := strings.HasSuffix(ks, "c")
				sweepBusy := strings.HasSuffix(ks, "i") && f[1] == "udp"
				k, _ := strconv.Atoi(strings.TrimRight(ks, "sci"))
				fmt.Fprintln(w, runServerStop(f[1], k, slow, appClose, sweepBusy))
			} else {
				fmt.Fprintln(w, runCase(t, f[1], f[2], f[3], f[4]))
			}
			lp.PoolTraceEnd("c09 " + strings.Join(f[1:], " "))
			return
		}
		fmt.Fprintln(w, "bad-op")
	})
	if err != nil {
		t.Fatal(err)
	}
}
