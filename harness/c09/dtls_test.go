package c09

// DTLS side of C09 (real loopback sockets, real time; pion's handshake and record layer are the real ones):
//
//	case dtls <op> handshake <cancel|deadline|close>          the peer never answers the ClientHello: the connection's
//	                                                          reader and the operation both sit in the handshake
//	case dtls <op> live <cancel|deadline|close|peerclose>     handshake complete, then the peer stays silent
//	case dtls <op> liveack <cancel|deadline|close|peerclose>  ... or acknowledges every confirmable message with an empty
//	                                                          ACK and never responds
//	case dtls srvstop k<N> stop                               see server_test.go
//
// The peer of the `live` cases is pion's listener driven by this harness (not the library's server, which would answer
// pings): it answers one thing only, the registration of an observation on /obs, so that `obscancel` has something to
// cancel.  Output as for the other cases; each case ends with Close from three goroutines + one more.

import (
	"context"
	"fmt"
	"net"
	"os"
	"runtime/pprof"
	"sync"
	"sync/atomic"
	"time"

	piondtls "github.com/pion/dtls/v3"
	coapdtls "github.com/plgd-dev/go-coap/v3/dtls"
	"github.com/plgd-dev/go-coap/v3/message"
	"github.com/plgd-dev/go-coap/v3/message/codes"
	"github.com/plgd-dev/go-coap/v3/message/pool"
	"github.com/plgd-dev/go-coap/v3/net/client"
	udpcoder "github.com/plgd-dev/go-coap/v3/udp/coder"
)

func pskConfig() *piondtls.Config {
	return &piondtls.Config{
		PSK:             func([]byte) ([]byte, error) { return []byte{0xC0, 0x09, 0x23}, nil },
		PSKIdentityHint: []byte("c09"),
		CipherSuites:    []piondtls.CipherSuiteID{piondtls.TLS_PSK_WITH_AES_128_CCM_8},
	}
}

type dtlsPeer struct {
	l        net.Listener
	ackOnly  bool
	mu       sync.Mutex
	conns    []net.Conn
	accepted chan struct{}
	wg       sync.WaitGroup
}

func newDTLSPeer(ackOnly bool) (*dtlsPeer, error) {
	l, err := piondtls.Listen("udp4", &net.UDPAddr{IP: net.IPv4(127, 0, 0, 1)}, pskConfig())
	if err != nil {
		return nil, err
	}
	p := &dtlsPeer{l: l, ackOnly: ackOnly, accepted: make(chan struct{}, 4)}
	p.wg.Add(1)
	go func() {
		defer p.wg.Done()
		for {
			c, err := l.Accept()
			if err != nil {
				return
			}
			p.mu.Lock()
			p.conns = append(p.conns, c)
			p.mu.Unlock()
			p.wg.Add(1)
			go func() {
				defer p.wg.Done()
				p.serve(c)
			}()
		}
	}()
	return p, nil
}

func (p *dtlsPeer) serve(c net.Conn) {
	if h, ok := c.(interface {
		HandshakeContext(ctx context.Context) error
	}); ok {
		ctx, cancel := context.WithTimeout(context.Background(), 2*time.Second)
		err := h.HandshakeContext(ctx)
		cancel()
		if err != nil {
			_ = c.Close()
			return
		}
	}
	p.accepted <- struct{}{}
	buf := make([]byte, 2048)
	for {
		n, err := c.Read(buf)
		if err != nil {
			return
		}
		m := pool.NewMessage(context.Background())
		if _, err := m.UnmarshalWithDecoder(udpcoder.DefaultCoder, buf[:n]); err != nil {
			continue
		}
		path, _ := m.Path()
		obs, obsErr := m.Observe()
		switch {
		case path == "/obs" && obsErr == nil && obs == 0:
			r := pool.NewMessage(context.Background())
			r.SetCode(codes.Content)
			r.SetToken(m.Token())
			r.SetObserve(5)
			if m.Type() == message.Confirmable {
				r.SetType(message.Acknowledgement)
				r.SetMessageID(m.MessageID())
			} else {
				r.SetType(message.NonConfirmable)
				r.SetMessageID(m.MessageID() + 1000)
			}
			if data, err := r.MarshalWithEncoder(udpcoder.DefaultCoder); err == nil {
				_, _ = c.Write(data)
			}
		case p.ackOnly && m.Type() == message.Confirmable && m.Code() != codes.Empty:
			r := pool.NewMessage(context.Background())
			r.SetCode(codes.Empty)
			r.SetType(message.Acknowledgement)
			r.SetMessageID(m.MessageID())
			if data, err := r.MarshalWithEncoder(udpcoder.DefaultCoder); err == nil {
				_, _ = c.Write(data)
			}
		}
	}
}

func (p *dtlsPeer) closeConns() {
	p.mu.Lock()
	cs := append([]net.Conn(nil), p.conns...)
	p.mu.Unlock()
	for _, c := range cs {
		_ = c.Close()
	}
}

func (p *dtlsPeer) close() {
	_ = p.l.Close()
	p.closeConns()
	done := make(chan struct{})
	go func() { p.wg.Wait(); close(done) }()
	select {
	case <-done:
	case <-time.After(3 * time.Second):
	}
}

func runDTLS(op, point, cause string) (line string) {
	defer func() {
		if r := recover(); r != nil {
			line = fmt.Sprintf("panic %v", r)
		}
	}()
	const settle = 40 * time.Millisecond
	var addr string
	var peer *dtlsPeer
	switch point {
	case "handshake":
		silent, err := net.ListenUDP("udp4", &net.UDPAddr{IP: net.IPv4(127, 0, 0, 1)})
		if err != nil {
			return "conn-error"
		}
		defer silent.Close()
		addr = silent.LocalAddr().String()
		if cause == "peerclose" || op == "obscancel" {
			return "bad-op"
		}
	case "live", "liveack":
		var err error
		peer, err = newDTLSPeer(point == "liveack")
		if err != nil {
			return "conn-error"
		}
		defer peer.close()
		addr = peer.l.Addr().String()
	default:
		return "bad-op"
	}
	cc, err := coapdtls.Dial(addr, pskConfig())
	if err != nil {
		return "conn-error"
	}
	if peer != nil {
		select {
		case <-peer.accepted:
		case <-time.After(2 * time.Second):
			_ = cc.Close()
			return "setup-failed"
		}
	}
	time.Sleep(settle)
	var cbA, cbB atomic.Int32
	// the first callback registers two more while the shutdown walks its list: the callbacks registered before the
	// close must still run exactly once each (whether the late ones run is not demanded)
	cc.AddOnClose(func() {
		cbA.Add(1)
		cc.AddOnClose(func() {})
		cc.AddOnClose(func() {})
	})
	cc.AddOnClose(func() { cbB.Add(1) })
	baseCtx, baseCancel := context.WithCancel(context.Background())
	defer baseCancel()
	var obs client.Observation
	if op == "obscancel" {
		octx, ocancel := context.WithTimeout(baseCtx, 2*time.Second)
		obs, _ = cc.Observe(octx, "/obs", func(*pool.Message) {})
		ocancel()
		if obs == nil {
			_ = cc.Close()
			return "setup-failed"
		}
	}
	deadlineIn := 150 * time.Millisecond
	var ctx context.Context
	var cancel context.CancelFunc
	if cause == "deadline" {
		ctx, cancel = context.WithTimeout(baseCtx, deadlineIn)
	} else {
		ctx, cancel = context.WithCancel(baseCtx)
	}
	defer cancel()
	start := time.Now()
	retCh := make(chan error, 1)
	var retAt atomic.Int64
	go func() {
		var err error
		switch op {
		case "get":
			var r *pool.Message
			r, err = cc.Get(ctx, "/q")
			if err == nil {
				cc.ReleaseMessage(r)
			}
		case "observe":
			_, err = cc.Observe(ctx, "/q", func(*pool.Message) {})
		case "obscancel":
			err = obs.Cancel(ctx)
		case "ping":
			err = cc.Ping(ctx)
		case "write":
			// a one-way write returns once the datagram is handed to the transport; with the handshake outstanding that
			// is where it waits
			m := cc.AcquireMessage(ctx)
			m.SetCode(codes.POST)
			m.SetToken(message.Token{0x56})
			m.SetType(message.NonConfirmable)
			_ = m.SetPath("/q")
			err = cc.WriteMessage(m)
			cc.ReleaseMessage(m)
		}
		retAt.Store(time.Now().UnixNano())
		retCh <- err
	}()
	time.Sleep(settle)
	var causeAt time.Time
	switch cause {
	case "cancel":
		cancel()
		causeAt = time.Now()
	case "deadline":
		causeAt = start.Add(deadlineIn)
		time.Sleep(time.Until(causeAt))
	case "close":
		causeAt = time.Now()
		go func() { _ = cc.Close() }()
	case "peerclose":
		causeAt = time.Now()
		peer.closeConns() // close_notify reaches the client
	default:
		_ = cc.Close()
		return "bad-op"
	}
	returned, kind := 0, "-"
	var after int64 = -1
	select {
	case err := <-retCh:
		returned, kind = 1, errKind(err)
		after = retAt.Load() - causeAt.UnixNano()
		if after < 0 {
			after = 0
		}
	case <-time.After(time.Second):
		if os.Getenv("VERIF_DBG") != "" {
			_ = pprof.Lookup("goroutine").WriteTo(os.Stderr, 2)
		}
	}
	panics := 0
	closeDone := make(chan struct{}, 4)
	for i := 0; i < 3; i++ {
		go func() {
			defer func() {
				if recover() != nil {
					panics++
				}
				closeDone <- struct{}{}
			}()
			_ = cc.Close()
		}()
	}
	deadline := time.After(time.Second)
	for i := 0; i < 3; i++ {
		select {
		case <-closeDone:
		case <-deadline:
			i = 3
		}
	}
	_ = cc.Close()
	done := 0
	select {
	case <-cc.Done():
		done = 1
	case <-time.After(500 * time.Millisecond):
	}
	cancel()
	baseCancel()
	if returned == 0 {
		select {
		case <-retCh:
		case <-time.After(2 * time.Second):
		}
	}
	return fmt.Sprintf("ret %d after %d err %s ; done %d onclose %d %d ; panics %d", returned, after, kind, done, cbA.Load(), cbB.Load(), panics)
}
