package c09

// Eleventh seeded round: two situations the grid did not have.
//
//	case <tcp|dtls> srvstop k<N>f stop      a stream / DTLS server over an in-memory listener with N accepted connections whose
//	case <tcp|dtls> srvstop k<N>h stop      peers are silent; the transport connection's Close() RELEASES the connection but
//	                                        reports an error (what a tls.Conn / pion conn does when its close_notify alert can
//	                                        not be delivered to a failed peer) - f: every connection, h: every second one.
//	                                        Stop() from three goroutines, then once more: Serve must return, every peer must
//	                                        see its connection end, every connection's done signal must be completed and its
//	                                        on-close callbacks must have run exactly once.
//	                                        Output: ret = every peer saw the end of its connection, done = Serve returned and
//	                                        every done signal is complete, onclose = min / max runs of a callback.
//
//	case <udp|tcp> <op> opts<N> <cancel|close>   the "after send" point with a peer that then sends one WELL-FORMED message that
//	                                        carries N (empty Uri-Path) options - unusual, legal, and for N <= ~1460 within one
//	                                        datagram of the default MTU; the option buffer of the pooled message that receives
//	                                        it has to grow 16 -> 32 -> ... past N.  Then the cause; then Close() from three
//	                                        goroutines.  Real time (a reader that never comes back from decoding spins: a
//	                                        synctest bubble would never settle), in-memory transports, bound 0.5 s.
//
//	case <udp|tcp|dtls> srvstop k<N>o<M> stop    runServerStop with one more peer that has sent such a message (M options)
//	                                        right before Stop().

import (
	"context"
	"errors"
	"fmt"
	"net"
	"sync"
	"sync/atomic"
	"time"

	coapdtls "github.com/plgd-dev/go-coap/v3/dtls"
	"github.com/plgd-dev/go-coap/v3/message"
	"github.com/plgd-dev/go-coap/v3/message/codes"
	"github.com/plgd-dev/go-coap/v3/message/pool"
	"github.com/plgd-dev/go-coap/v3/net/client"
	"github.com/plgd-dev/go-coap/v3/options"
	"github.com/plgd-dev/go-coap/v3/tcp"
	tcpclient "github.com/plgd-dev/go-coap/v3/tcp/client"
	tcpcoder "github.com/plgd-dev/go-coap/v3/tcp/coder"
	udpclient "github.com/plgd-dev/go-coap/v3/udp/client"
	udpcoder "github.com/plgd-dev/go-coap/v3/udp/coder"
	"verifharness/internal/mem"
)

// faultyCloseConn: Close releases the connection and reports that the peer could not be told about it.
type faultyCloseConn struct{ net.Conn }

func (c *faultyCloseConn) Close() error {
	_ = c.Conn.Close()
	return errors.New("failed to send closeNotify alert (but connection was closed anyway): write: broken pipe")
}

func runServerFaultyClose(transport string, k, faultyEvery int) (line string) {
	defer func() {
		if r := recover(); r != nil {
			line = fmt.Sprintf("panic %v", r)
		}
	}()
	counter := &onCloseCounter{}
	var mu sync.Mutex
	var dones []<-chan struct{}
	var accepted atomic.Int32
	l := mem.NewListener()
	served := make(chan struct{})
	var stop func()
	noRunner := func(func(now time.Time) bool) {}
	switch transport {
	case "tcp":
		s := tcp.NewServer(options.WithErrors(func(error) {}), options.WithPeriodicRunner(noRunner),
			options.WithOnNewConn(func(cc *tcpclient.Conn) {
				counter.add(func(f func()) { cc.AddOnClose(f) })
				mu.Lock()
				dones = append(dones, cc.Done())
				mu.Unlock()
				accepted.Add(1)
			}))
		go func() { _ = s.Serve(l); close(served) }()
		stop = s.Stop
	case "dtls":
		s := coapdtls.NewServer(options.WithErrors(func(error) {}), options.WithPeriodicRunner(noRunner),
			options.WithOnNewConn(func(cc *udpclient.Conn) {
				counter.add(func(f func()) { cc.AddOnClose(f) })
				mu.Lock()
				dones = append(dones, cc.Done())
				mu.Unlock()
				accepted.Add(1)
			}))
		go func() { _ = s.Serve(l); close(served) }()
		stop = s.Stop
	default:
		return "bad-op"
	}
	var peers []*mem.TCPPeer
	defer func() {
		for _, p := range peers {
			p.Close()
		}
	}()
	for i := 0; i < k; i++ {
		a, b := net.Pipe()
		peers = append(peers, mem.NewTCPPeer(b)) // reads whatever the server writes (the stream server's CSM), never writes
		var c net.Conn = a
		if faultyEvery > 0 && i%faultyEvery == 0 {
			c = &faultyCloseConn{Conn: a}
		}
		l.Push(&mem.AddrConn{Conn: c, Local: deadAddr("server"), Remote: deadAddr(fmt.Sprintf("peer-%d", i))})
	}
	deadline := time.Now().Add(time.Second)
	for int(accepted.Load()) < k && time.Now().Before(deadline) {
		time.Sleep(2 * time.Millisecond)
	}
	if int(accepted.Load()) < k {
		stop()
		return "setup-failed"
	}
	time.Sleep(30 * time.Millisecond) // every connection is in the server's table and its reader sits in Read
	causeAt := time.Now()
	panics := 0
	var swg sync.WaitGroup
	for i := 0; i < 3; i++ {
		swg.Add(1)
		go func() {
			defer swg.Done()
			defer func() {
				if recover() != nil {
					panics++
				}
			}()
			stop()
		}()
	}
	swg.Wait()
	stop()
	done := 0
	var after int64 = -1
	select {
	case <-served:
		done = 1
		after = time.Since(causeAt).Nanoseconds()
	case <-time.After(time.Second):
	}
	time.Sleep(20 * time.Millisecond) // the peers' readers report the end of their streams
	ret := 1
	for _, p := range peers {
		if !p.EOF() {
			ret = 0
		}
	}
	mu.Lock()
	for _, d := range dones {
		select {
		case <-d:
		default:
			done = 0
		}
	}
	mu.Unlock()
	lo, hi := counter.minmax()
	if done == 0 {
		after = -1
	}
	if ret == 0 {
		after = -1
	}
	return fmt.Sprintf("ret %d after %d err - ; done %d onclose %d %d ; panics %d", ret, after, done, lo, hi, panics)
}

// manyOptions: a well-formed GET with n empty Uri-Path options (i distinguishes token and message ID)
func manyOptions(isTCP bool, n, i int) []byte {
	m := pool.NewMessage(context.Background())
	m.SetCode(codes.GET)
	m.SetToken(message.Token{0x77, byte(i)})
	for j := 0; j < n; j++ {
		m.AddOptionBytes(message.URIPath, nil)
	}
	var b []byte
	var err error
	if isTCP {
		b, err = m.MarshalWithEncoder(tcpcoder.DefaultCoder)
	} else {
		m.SetType(message.NonConfirmable)
		m.SetMessageID(int32(7000 + i))
		b, err = m.MarshalWithEncoder(udpcoder.DefaultCoder)
	}
	if err != nil {
		panic(err)
	}
	return append([]byte(nil), b...)
}

func runManyOpts(transport, op string, n int, cause string) (line string) {
	defer func() {
		if r := recover(); r != nil {
			line = fmt.Sprintf("panic %v", r)
		}
	}()
	const settle = 30 * time.Millisecond
	isTCP := transport == "tcp"
	var cc conn
	var us *mem.UDPSession
	var peer *mem.TCPPeer
	if isTCP {
		c, p, err := mem.NewTCPConn(mem.TCPOpts{Mutate: func(cfg *tcpclient.Config) {
			cfg.LimitClientParallelRequests = 8
			cfg.LimitClientEndpointParallelRequests = 8
		}})
		if err != nil {
			return "conn-error"
		}
		cc, peer = c, p
	} else {
		// the session whose Run loop hands the datagrams to Process, as the real sessions' readers do
		c, s := mem.NewUDPConn(mem.UDPOpts{RunExitDelay: time.Millisecond, Mutate: func(cfg *udpclient.Config) {
			cfg.LimitClientParallelRequests = 8
			cfg.LimitClientEndpointParallelRequests = 8
		}})
		cc, us = c, s
	}
	w := &world{mid: 40000, isTCP: isTCP, cc: cc, tp: peer, us: us}
	deliver := func(b []byte) {
		if isTCP {
			go func() { _ = peer.Write(b) }()
		} else {
			us.Deliver(b)
		}
	}
	time.Sleep(settle)
	w.collect()
	var cbA, cbB atomic.Int32
	cc.AddOnClose(func() {
		cbA.Add(1)
		cc.AddOnClose(func() {})
		cc.AddOnClose(func() {})
	})
	cc.AddOnClose(func() { cbB.Add(1) })
	baseCtx, baseCancel := context.WithCancel(context.Background())
	defer baseCancel()
	finish := func() {
		baseCancel()
		_ = cc.Close()
		if peer != nil {
			peer.Close()
		}
	}
	var obs client.Observation
	if op == "obscancel" {
		octx, ocancel := context.WithTimeout(baseCtx, 2*time.Second)
		done := make(chan struct{})
		go func() {
			defer close(done)
			obs, _ = cc.Observe(octx, "/q", func(*pool.Message) {})
		}()
		time.Sleep(settle)
		for _, m := range w.collect() {
			if m.Code() == codes.GET {
				r := pool.NewMessage(context.Background())
				r.SetCode(codes.Content)
				r.SetToken(m.Token())
				r.SetObserve(5)
				var b []byte
				if isTCP {
					b, _ = r.MarshalWithEncoder(tcpcoder.DefaultCoder)
				} else {
					r.SetType(message.Acknowledgement)
					r.SetMessageID(m.MessageID())
					b, _ = r.MarshalWithEncoder(udpcoder.DefaultCoder)
				}
				deliver(append([]byte(nil), b...))
			}
		}
		<-done
		ocancel()
		if obs == nil {
			finish()
			return "setup-failed"
		}
	}
	ctx, cancel := context.WithCancel(baseCtx)
	defer cancel()
	retCh := make(chan error, 1)
	var retAt atomic.Int64
	go func() {
		var err error
		switch op {
		case "get":
			var r *pool.Message
			r, err = cc.Get(ctx, "/q")
			if err == nil {
				cc.ReleaseMessage(r)
			}
		case "observe":
			_, err = cc.Observe(ctx, "/q", func(*pool.Message) {})
		case "obscancel":
			err = obs.Cancel(ctx)
		case "ping":
			err = cc.Ping(ctx)
		case "write":
			m := cc.AcquireMessage(ctx)
			m.SetCode(codes.POST)
			m.SetToken(message.Token{0x55})
			_ = m.SetPath("/q")
			err = cc.WriteMessage(m)
			cc.ReleaseMessage(m)
		}
		retAt.Store(time.Now().UnixNano())
		retCh <- err
	}()
	time.Sleep(settle) // the request is out, the peer has not answered
	deliver(manyOptions(isTCP, n, 1))
	time.Sleep(settle)
	causeAt := time.Now()
	switch cause {
	case "cancel":
		cancel()
	case "close":
		go func() { _ = cc.Close() }()
	default:
		finish()
		return "bad-op"
	}
	returned, kind := 0, "-"
	var after int64 = -1
	select {
	case err := <-retCh:
		returned, kind = 1, errKind(err)
		after = retAt.Load() - causeAt.UnixNano()
		if after < 0 {
			after = 0
		}
	case <-time.After(time.Second):
	}
	panics := 0
	closeDone := make(chan struct{}, 3)
	for i := 0; i < 3; i++ {
		go func() {
			defer func() {
				if recover() != nil {
					panics++
				}
				closeDone <- struct{}{}
			}()
			_ = cc.Close()
		}()
	}
	deadline := time.After(time.Second)
	for i := 0; i < 3; i++ {
		select {
		case <-closeDone:
		case <-deadline:
			i = 3
		}
	}
	done := 0
	select {
	case <-cc.Done():
		done = 1
	case <-time.After(500 * time.Millisecond):
	}
	cancel()
	finish()
	if returned == 0 {
		select {
		case <-retCh:
		case <-time.After(2 * time.Second):
		}
	}
	return fmt.Sprintf("ret %d after %d err %s ; done %d onclose %d %d ; panics %d", returned, after, kind, done, cbA.Load(), cbB.Load(), panics)
}
