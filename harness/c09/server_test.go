package c09

// Server side of C09 (real loopback sockets, real time):
//
//	case udp discover live <cancel|deadline|close>   DiscoveryRequest blocked waiting for answers; cause = its context is
//	                                                 cancelled / expires / the server is stopped
//	case <udp|tcp|dtls> srvstop k<N> stop                N clients each with a request in flight whose handler blocks until its
//	                                                 connection ends; Stop() from three goroutines, then once more:
//	                                                 Serve must return, every accepted connection's on-close callback must
//	                                                 have run exactly once, every client request must return
//
// Output has the format of the client grid: `ret R after NS err K ; done D onclose A B ; panics P` where for srvstop
// R = all client calls returned, D = Serve returned, A/B = min/max number of times an accepted connection's two on-close
// callbacks ran (1 1 when there are no connections), and for discover D = Serve returned after the final Stop.

import (
	"context"
	"fmt"
	"net"
	"sync"
	"sync/atomic"
	"time"

	piondtls "github.com/pion/dtls/v3"
	dtlsnet "github.com/pion/dtls/v3/pkg/net"
	coapdtls "github.com/plgd-dev/go-coap/v3/dtls"
	"github.com/plgd-dev/go-coap/v3/message"
	"github.com/plgd-dev/go-coap/v3/message/codes"
	"github.com/plgd-dev/go-coap/v3/message/pool"
	"github.com/plgd-dev/go-coap/v3/mux"
	coapNet "github.com/plgd-dev/go-coap/v3/net"
	"github.com/plgd-dev/go-coap/v3/options"
	"github.com/plgd-dev/go-coap/v3/pkg/runner/periodic"
	"github.com/plgd-dev/go-coap/v3/tcp"
	tcpclient "github.com/plgd-dev/go-coap/v3/tcp/client"
	"github.com/plgd-dev/go-coap/v3/udp"
	udpserver "github.com/plgd-dev/go-coap/v3/udp/server"
	udpclient "github.com/plgd-dev/go-coap/v3/udp/client"
	"verifharness/internal/mem"
)

// firstWriteOnly lets the first datagram (the ClientHello) through and loses everything written afterwards: the
// server-side handshake with this peer never completes.
type firstWriteOnly struct {
	net.Conn
	writes atomic.Int32
}

func (c *firstWriteOnly) Write(b []byte) (int, error) {
	if c.writes.Add(1) == 1 {
		return c.Conn.Write(b)
	}
	return len(b), nil
}

type onCloseCounter struct {
	mu sync.Mutex
	a  []*atomic.Int32
	b  []*atomic.Int32
}

func (c *onCloseCounter) add(register func(func())) { c.addWith(register, func() {}) }

// addWith: the first callback also runs `first` after it has been counted
func (c *onCloseCounter) addWith(register func(func()), first func()) {
	x, y := &atomic.Int32{}, &atomic.Int32{}
	c.mu.Lock()
	c.a = append(c.a, x)
	c.b = append(c.b, y)
	c.mu.Unlock()
	// (the first callback registers two more while the shutdown walks its list: those registered before must still run once)
	register(func() { x.Add(1); first(); register(func() {}); register(func() {}) })
	register(func() { y.Add(1) })
}

func (c *onCloseCounter) minmax() (int32, int32) {
	c.mu.Lock()
	defer c.mu.Unlock()
	lo, hi := int32(1), int32(1)
	first := true
	for _, l := range [][]*atomic.Int32{c.a, c.b} {
		for _, v := range l {
			n := v.Load()
			if first {
				lo, hi, first = n, n, false
			}
			if n < lo {
				lo = n
			}
			if n > hi {
				hi = n
			}
		}
	}
	return lo, hi
}

// slow: one more peer connects right before Stop() and the application's OnNewConn callback for it takes 150 ms: Stop()
// arrives while that connection is between Accept and its registration in the server's connection table.
//
// appClose: the application closes every accepted connection itself (cc.Close()) and the first on-close callback of each
// takes 60 ms; Stop() comes as soon as one of those callbacks has started, i.e. while the connection's shutdown — begun
// by whoever noticed the closed connection first (its reader, or the datagram server's housekeeping sweep) — is still
// walking the callbacks.  Every callback must still run exactly once.
//
// sweepBusy (datagram server only): every accepted connection has an inactivity monitor (150 ms, housekeeping every 50 ms)
// whose callback — application code — takes 100 ms on its first call and then closes the connection; the clients stay
// silent, so the housekeeping sweep is in the middle of its walk over the connections (holding its snapshot of the
// table) when the application closes all of them and calls Stop().  Stop() and the sweep then both find the same closed
// connections (with k = 3 in every order of the two walks: Stop takes 60 ms per connection, the sweep resumes at 100 ms).
//
// manyOpts (optional, > 0): one more peer connects and sends one well-formed request that carries that many (empty Uri-Path)
// options right before Stop() - whatever a peer has sent, Stop() must end Serve and every connection.
func runServerStop(transport string, k int, slow, appClose, sweepBusy bool, manyOpts ...int) (line string) {
	defer func() {
		if r := recover(); r != nil {
			line = fmt.Sprintf("panic %v", r)
		}
	}()
	var inHandler atomic.Int32
	r := mux.NewRouter()
	_ = r.Handle("/block", mux.HandlerFunc(func(w mux.ResponseWriter, req *mux.Message) {
		inHandler.Add(1)
		select {
		case <-w.Conn().Context().Done(): // ends when the server closes the connection
		case <-time.After(5 * time.Second):
		}
		_ = w.SetResponse(codes.Content, message.TextPlain, nil)
	}))
	counter := &onCloseCounter{}
	var accepted atomic.Int32
	var cbStarted atomic.Int32
	var srvMu sync.Mutex
	var srvClose []func() error
	onNew := func(register func(func()), closeFn func() error) {
		if appClose || sweepBusy {
			srvMu.Lock()
			srvClose = append(srvClose, closeFn)
			srvMu.Unlock()
			// the first of the two counted callbacks is the slow one
			counter.addWith(register, func() {
				cbStarted.Add(1)
				time.Sleep(60 * time.Millisecond)
			})
			if slow && int(accepted.Add(1)) > k {
				time.Sleep(150 * time.Millisecond)
			}
			return
		}
		counter.add(register)
		if slow && int(accepted.Add(1)) > k {
			time.Sleep(150 * time.Millisecond)
		}
	}
	served := make(chan error, 1)
	var sweepEntered atomic.Int32
	sweepCtx, sweepCancel := context.WithCancel(context.Background())
	defer sweepCancel()
	var stop func()
	var addr string
	panics := 0
	if transport == "udp" {
		l, err := coapNet.NewListenUDP("udp4", "127.0.0.1:0")
		if err != nil {
			return "conn-error"
		}
		defer l.Close()
		uopts := []udpserver.Option{options.WithMux(r), options.WithErrors(func(error) {}),
			options.WithOnNewConn(func(cc *udpclient.Conn) { onNew(func(f func()) { cc.AddOnClose(f) }, cc.Close) })}
		if sweepBusy {
			uopts = append(uopts, options.WithPeriodicRunner(periodic.New(sweepCtx.Done(), 50*time.Millisecond)),
				options.WithInactivityMonitor(150*time.Millisecond, func(cc *udpclient.Conn) {
					if sweepEntered.Add(1) == 1 {
						time.Sleep(100 * time.Millisecond)
					}
					_ = cc.Close()
				}))
		}
		s := udp.NewServer(uopts...)
		go func() { served <- s.Serve(l) }()
		stop, addr = s.Stop, l.LocalAddr().String()
	} else if transport == "dtls" {
		l, err := coapNet.NewDTLSListener("udp4", "127.0.0.1:0", pskConfig())
		if err != nil {
			return "conn-error"
		}
		defer l.Close()
		s := coapdtls.NewServer(options.WithMux(r), options.WithErrors(func(error) {}),
			options.WithOnNewConn(func(cc *udpclient.Conn) { onNew(func(f func()) { cc.AddOnClose(f) }, cc.Close) }))
		go func() { served <- s.Serve(l) }()
		stop, addr = s.Stop, l.Addr().String()
	} else {
		l, err := coapNet.NewTCPListener("tcp4", "127.0.0.1:0")
		if err != nil {
			return "conn-error"
		}
		defer l.Close()
		s := tcp.NewServer(options.WithMux(r), options.WithErrors(func(error) {}),
			options.WithOnNewConn(func(cc *tcpclient.Conn) { onNew(func(f func()) { cc.AddOnClose(f) }, cc.Close) }))
		go func() { served <- s.Serve(l) }()
		stop, addr = s.Stop, l.Addr().String()
	}
	time.Sleep(30 * time.Millisecond)
	if transport == "dtls" {
		// two peers that send a ClientHello and lose everything afterwards: their handshakes are in progress at Stop()
		stallCtx, stallCancel := context.WithCancel(context.Background())
		defer stallCancel()
		for i := 0; i < 2; i++ {
			raw, err := net.Dial("udp4", addr)
			if err != nil {
				return "conn-error"
			}
			defer raw.Close()
			st := &firstWriteOnly{Conn: raw}
			xc, err := piondtls.Client(dtlsnet.PacketConnFromConn(st), raw.RemoteAddr(), pskConfig())
			if err != nil {
				return "conn-error"
			}
			go func() {
				_ = xc.HandshakeContext(stallCtx)
				_ = xc.Close()
			}()
			deadline := time.Now().Add(time.Second)
			for st.writes.Load() == 0 && time.Now().Before(deadline) {
				time.Sleep(5 * time.Millisecond)
			}
		}
		time.Sleep(30 * time.Millisecond)
	}
	// clients with a request in flight
	type cl interface {
		Get(ctx context.Context, path string, opts ...message.Option) (*pool.Message, error)
		Close() error
		Done() <-chan struct{}
	}
	var clients []cl
	var cwg sync.WaitGroup
	var returned atomic.Int32
	for i := 0; i < k; i++ {
		var c cl
		var err error
		if transport == "udp" {
			c, err = udp.Dial(addr)
		} else if transport == "dtls" {
			c, err = coapdtls.Dial(addr, pskConfig())
		} else {
			c, err = tcp.Dial(addr)
		}
		if err != nil {
			return "conn-error"
		}
		clients = append(clients, c)
		cwg.Add(1)
		go func() {
			defer cwg.Done()
			ctx, cancel := context.WithTimeout(context.Background(), 900*time.Millisecond)
			defer cancel()
			resp, err := c.Get(ctx, "/block")
			_ = resp
			_ = err
			returned.Add(1)
		}()
	}
	deadline := time.Now().Add(time.Second)
	for int(inHandler.Load()) < k && time.Now().Before(deadline) {
		time.Sleep(5 * time.Millisecond)
	}
	if int(inHandler.Load()) < k {
		return "setup-failed"
	}
	if slow {
		// the late peer: connects (and, for dtls, shakes hands) now; its OnNewConn is still running when Stop() comes
		var c cl
		var err error
		switch transport {
		case "udp":
			c, err = udp.Dial(addr)
		case "dtls":
			c, err = coapdtls.Dial(addr, pskConfig())
		default:
			c, err = tcp.Dial(addr)
		}
		if err != nil {
			return "conn-error"
		}
		clients = append(clients, c)
		cwg.Add(1)
		go func() {
			defer cwg.Done()
			ctx, cancel := context.WithTimeout(context.Background(), 900*time.Millisecond)
			defer cancel()
			_, _ = c.Get(ctx, "/block")
			returned.Add(1)
		}()
		deadline := time.Now().Add(time.Second)
		for int(accepted.Load()) <= k && time.Now().Before(deadline) {
			time.Sleep(2 * time.Millisecond)
		}
		if int(accepted.Load()) <= k {
			return "setup-failed"
		}
		time.Sleep(20 * time.Millisecond)
	}
	if len(manyOpts) > 0 && manyOpts[0] > 0 {
		type wr interface {
			cl
			AcquireMessage(ctx context.Context) *pool.Message
			ReleaseMessage(m *pool.Message)
			WriteMessage(req *pool.Message) error
		}
		var c wr
		var err error
		switch transport {
		case "udp":
			c, err = udp.Dial(addr)
		case "dtls":
			c, err = coapdtls.Dial(addr, pskConfig())
		default:
			c, err = tcp.Dial(addr)
		}
		if err != nil {
			return "conn-error"
		}
		clients = append(clients, c)
		m := c.AcquireMessage(context.Background())
		m.SetCode(codes.GET)
		m.SetToken(message.Token{0x77, 0x01})
		if transport != "tcp" {
			m.SetType(message.NonConfirmable)
		}
		for j := 0; j < manyOpts[0]; j++ {
			m.AddOptionBytes(message.URIPath, nil)
		}
		err = c.WriteMessage(m)
		c.ReleaseMessage(m)
		if err != nil {
			return "setup-failed"
		}
		time.Sleep(50 * time.Millisecond)
	}
	if sweepBusy {
		deadline := time.Now().Add(2 * time.Second)
		for sweepEntered.Load() == 0 && time.Now().Before(deadline) {
			time.Sleep(time.Millisecond)
		}
		if sweepEntered.Load() == 0 {
			return "setup-failed"
		}
	}
	if appClose || sweepBusy {
		srvMu.Lock()
		cl := append([]func() error(nil), srvClose...)
		srvMu.Unlock()
		for _, f := range cl {
			_ = f()
		}
	}
	if appClose {
		// the shutdown of a closed connection starts when its reader, or the server's housekeeping (datagram server: a sweep
		// every 100 ms … 4 s depending on the configuration), notices; wait for the first slow callback to have started
		deadline := time.Now().Add(6 * time.Second)
		for k > 0 && cbStarted.Load() == 0 && time.Now().Before(deadline) {
			time.Sleep(2 * time.Millisecond)
		}
		if k > 0 && cbStarted.Load() == 0 {
			return "setup-failed"
		}
	}
	causeAt := time.Now()
	var swg sync.WaitGroup
	for i := 0; i < 3; i++ {
		swg.Add(1)
		go func() {
			defer swg.Done()
			defer func() {
				if recover() != nil {
					panics++
				}
			}()
			stop()
		}()
	}
	stopped := make(chan struct{})
	go func() { swg.Wait(); close(stopped) }()
	select {
	case <-stopped:
		stop() // once more
	case <-time.After(2 * time.Second):
	}
	done := 0
	var after int64 = -1
	select {
	case <-served:
		done = 1
		after = time.Since(causeAt).Nanoseconds()
	case <-time.After(2 * time.Second):
	}
	// the clients' calls end by their own deadlines at the latest (the server is gone)
	cdone := make(chan struct{})
	go func() { cwg.Wait(); close(cdone) }()
	ret := 0
	select {
	case <-cdone:
		ret = 1
	case <-time.After(3 * time.Second):
	}
	for _, c := range clients {
		_ = c.Close()
	}
	time.Sleep(20 * time.Millisecond)
	lo, hi := counter.minmax()
	if appClose || sweepBusy {
		// the slow callbacks run one connection after the other in the datagram server's sweep: give them time to finish
		deadline := time.Now().Add(2 * time.Second)
		for lo == 0 && time.Now().Before(deadline) {
			time.Sleep(10 * time.Millisecond)
			lo, hi = counter.minmax()
		}
		time.Sleep(150 * time.Millisecond) // … and a possible second run of one of them to show
		lo, hi = counter.minmax()
	}
	if done == 0 {
		after = -1
	}
	return fmt.Sprintf("ret %d after %d err - ; done %d onclose %d %d ; panics %d", ret, after, done, lo, hi, panics)
}

// runDeadPeer: a stream server accepts a connection whose peer is already gone (or answers the TLS handshake with garbage):
// the connection-signalling message written while the connection is set up fails.  The connection handed to OnNewConn
// must still end properly: done signal completed, every on-close callback run exactly once, Stop() returns.
func runDeadPeer() (line string) {
	defer func() {
		if r := recover(); r != nil {
			line = fmt.Sprintf("panic %v", r)
		}
	}()
	var cbA, cbB atomic.Int32
	ccCh := make(chan *tcpclient.Conn, 1)
	s := tcp.NewServer(options.WithErrors(func(error) {}),
		options.WithOnNewConn(func(cc *tcpclient.Conn) {
			cc.AddOnClose(func() { cbA.Add(1) })
			cc.AddOnClose(func() { cbB.Add(1) })
			ccCh <- cc
		}))
	l := mem.NewListener()
	served := make(chan struct{})
	go func() { _ = s.Serve(l); close(served) }()
	a, b := net.Pipe()
	_ = b.Close() // the peer is gone before the server has written anything
	l.Push(&mem.AddrConn{Conn: a, Local: deadAddr("server"), Remote: deadAddr("dead-peer")})
	var cc *tcpclient.Conn
	select {
	case cc = <-ccCh:
	case <-time.After(time.Second):
		s.Stop()
		return "setup-failed"
	}
	done := 0
	start := time.Now()
	select {
	case <-cc.Done():
		done = 1
	case <-time.After(500 * time.Millisecond):
	}
	after := time.Since(start).Nanoseconds()
	s.Stop()
	ret := 0
	select {
	case <-served:
		ret = 1
	case <-time.After(2 * time.Second):
	}
	if done == 0 {
		after = -1
		_ = cc.Close()
	}
	time.Sleep(10 * time.Millisecond)
	return fmt.Sprintf("ret %d after %d err - ; done %d onclose %d %d ; panics 0", ret, after, done, cbA.Load(), cbB.Load())
}

type deadAddr string

func (a deadAddr) Network() string { return "mem" }
func (a deadAddr) String() string  { return string(a) }

func runDiscover(cause string) (line string) {
	defer func() {
		if r := recover(); r != nil {
			line = fmt.Sprintf("panic %v", r)
		}
	}()
	l, err := coapNet.NewListenUDP("udp4", "127.0.0.1:0")
	if err != nil {
		return "conn-error"
	}
	defer l.Close()
	s := udp.NewServer(options.WithErrors(func(error) {}))
	served := make(chan error, 1)
	go func() { served <- s.Serve(l) }()
	time.Sleep(30 * time.Millisecond)
	// a silent responder address: nobody answers
	silent, err := net.ListenUDP("udp4", &net.UDPAddr{IP: net.IPv4(127, 0, 0, 1)})
	if err != nil {
		return "conn-error"
	}
	defer silent.Close()
	base, baseCancel := context.WithCancel(context.Background())
	defer baseCancel()
	ctx, cancel := context.WithCancel(base)
	deadlineIn := 150 * time.Millisecond
	if cause == "deadline" {
		ctx, cancel = context.WithTimeout(base, deadlineIn)
	}
	defer cancel()
	start := time.Now()
	retCh := make(chan error, 1)
	var retAt atomic.Int64
	go func() {
		req := pool.NewMessage(ctx)
		_ = req.SetupGet("/oic/res", message.Token{0xD9, 0x01})
		req.SetMessageID(4711)
		req.SetType(message.NonConfirmable)
		err := s.DiscoveryRequest(req, silent.LocalAddr().String(), func(*udpclient.Conn, *pool.Message) {})
		retAt.Store(time.Now().UnixNano())
		retCh <- err
	}()
	time.Sleep(40 * time.Millisecond)
	var causeAt time.Time
	switch cause {
	case "cancel":
		causeAt = time.Now()
		cancel()
	case "deadline":
		causeAt = start.Add(deadlineIn)
	case "close":
		causeAt = time.Now()
		go s.Stop()
	}
	returned, kind := 0, "-"
	var after int64 = -1
	select {
	case err := <-retCh:
		returned, kind = 1, errKind(err)
		after = retAt.Load() - causeAt.UnixNano()
		if after < 0 {
			after = 0
		}
	case <-time.After(1500 * time.Millisecond):
	}
	baseCancel()
	s.Stop()
	done := 0
	select {
	case <-served:
		done = 1
	case <-time.After(2 * time.Second):
	}
	if returned == 0 {
		select {
		case <-retCh:
		case <-time.After(2 * time.Second):
		}
	}
	return fmt.Sprintf("ret %d after %d err %s ; done %d onclose 1 1 ; panics 0", returned, after, kind, done)
}

// runDiscoverUnserved (`case udp discover liveunserved <cancel|deadline|close>`): the "before send" point of a discovery - the
// application issues the DiscoveryRequest before the server serves (the library lets it wait for Serve); Serve never comes.
// The call must return when its context is cancelled / expires, and when the server is stopped (from three goroutines).
func runDiscoverUnserved(cause string) (line string) {
	defer func() {
		if r := recover(); r != nil {
			line = fmt.Sprintf("panic %v", r)
		}
	}()
	s := udp.NewServer(options.WithErrors(func(error) {}))
	base, baseCancel := context.WithCancel(context.Background())
	defer baseCancel()
	ctx, cancel := context.WithCancel(base)
	deadlineIn := 150 * time.Millisecond
	if cause == "deadline" {
		ctx, cancel = context.WithTimeout(base, deadlineIn)
	}
	defer cancel()
	start := time.Now()
	retCh := make(chan error, 1)
	var retAt atomic.Int64
	go func() {
		req := pool.NewMessage(ctx)
		_ = req.SetupGet("/oic/res", message.Token{0xD9, 0x02})
		req.SetMessageID(4712)
		req.SetType(message.NonConfirmable)
		err := s.DiscoveryRequest(req, "127.0.0.1:5683", func(*udpclient.Conn, *pool.Message) {})
		retAt.Store(time.Now().UnixNano())
		retCh <- err
	}()
	time.Sleep(40 * time.Millisecond)
	var causeAt time.Time
	switch cause {
	case "cancel":
		causeAt = time.Now()
		cancel()
	case "deadline":
		causeAt = start.Add(deadlineIn)
	case "close":
		causeAt = time.Now()
		for i := 0; i < 3; i++ {
			go s.Stop()
		}
	default:
		return "bad-op"
	}
	returned, kind := 0, "-"
	var after int64 = -1
	select {
	case err := <-retCh:
		returned, kind = 1, errKind(err)
		after = retAt.Load() - causeAt.UnixNano()
		if after < 0 {
			after = 0
		}
	case <-time.After(1500 * time.Millisecond):
	}
	baseCancel()
	s.Stop()
	if returned == 0 {
		select {
		case <-retCh:
		case <-time.After(2 * time.Second):
		}
	}
	return fmt.Sprintf("ret %d after %d err %s ; done 1 onclose 1 1 ; panics 0", returned, after, kind)
}

// runServerCtxStop (`case udp srvstop k<N>x stop`): the datagram server got its context from the application
// (options.WithContext) and is shut down by cancelling that context - Stop() is not called.  k raw peers have each sent one
// request (so the server has a connection per peer); on every such connection the server has a request of its own in flight
// (context without deadline) which the peer has acknowledged but does not answer.  After the cancellation every one of those
// requests must return, Serve must return and every on-close callback must have run exactly once.
func runServerCtxStop(k int) (line string) {
	defer func() {
		if r := recover(); r != nil {
			line = fmt.Sprintf("panic %v", r)
		}
	}()
	l, err := coapNet.NewListenUDP("udp4", "127.0.0.1:0")
	if err != nil {
		return "conn-error"
	}
	defer l.Close()
	parent, parentCancel := context.WithCancel(context.Background())
	defer parentCancel()
	counter := &onCloseCounter{}
	var returned atomic.Int32
	var lastRet atomic.Int64
	var started atomic.Int32
	var ccMu sync.Mutex
	var srvConns []*udpclient.Conn
	s := udp.NewServer(options.WithContext(parent), options.WithErrors(func(error) {}),
		// housekeeping every 20 ms for as long as the server asks for it (it asks for one more pass after its context ended)
		options.WithPeriodicRunner(func(f func(now time.Time) bool) {
			go func() {
				for f(time.Now()) {
					time.Sleep(20 * time.Millisecond)
				}
			}()
		}),
		options.WithOnNewConn(func(cc *udpclient.Conn) {
			counter.add(func(f func()) { cc.AddOnClose(f) })
			started.Add(1)
			ccMu.Lock()
			srvConns = append(srvConns, cc)
			ccMu.Unlock()
			go func() {
				r, err := cc.Get(context.Background(), "/from-server")
				if err == nil {
					cc.ReleaseMessage(r)
				}
				lastRet.Store(time.Now().UnixNano())
				returned.Add(1)
			}()
		}))
	served := make(chan error, 1)
	go func() { served <- s.Serve(l) }()
	time.Sleep(30 * time.Millisecond)
	var socks []*net.UDPConn
	defer func() {
		for _, c := range socks {
			c.Close()
		}
	}()
	acked := 0
	for i := 0; i < k; i++ {
		c, err := net.DialUDP("udp4", nil, l.LocalAddr().(*net.UDPAddr))
		if err != nil {
			return "conn-error"
		}
		socks = append(socks, c)
		_, _ = c.Write([]byte{0x51, 0x01, 0x40, byte(i), byte(0xC0 + i), 0xb1, 'x'}) // NON GET /x
		// read until the server's own confirmable request arrives; acknowledge it (empty ACK), never answer it
		buf := make([]byte, 1500)
		deadline := time.Now().Add(time.Second)
		for time.Now().Before(deadline) {
			_ = c.SetReadDeadline(time.Now().Add(100 * time.Millisecond))
			n, err := c.Read(buf)
			if err != nil || n < 4 {
				continue
			}
			if buf[0]&0x30 == 0x00 && buf[1] == 0x01 { // CON GET
				_, _ = c.Write([]byte{0x60, 0x00, buf[2], buf[3]})
				acked++
				break
			}
		}
	}
	if acked != k {
		return "setup-failed"
	}
	time.Sleep(30 * time.Millisecond)
	causeAt := time.Now()
	parentCancel()
	// (Serve itself sits in its socket read until the listener is closed: whether it returns on the cancellation alone is not
	// C09's subject; `done` reports the done signals of the server-side connections)
	deadline := time.Now().Add(2 * time.Second)
	for int(returned.Load()) < k && time.Now().Before(deadline) {
		time.Sleep(5 * time.Millisecond)
	}
	ret, after := 0, int64(-1)
	if int(returned.Load()) == k {
		ret = 1
		after = lastRet.Load() - causeAt.UnixNano()
		if after < 0 || k == 0 {
			after = 0
		}
	}
	time.Sleep(100 * time.Millisecond) // the last housekeeping pass reaps the closed connections
	allDone := func() int {
		ccMu.Lock()
		defer ccMu.Unlock()
		for _, cc := range srvConns {
			select {
			case <-cc.Done():
			default:
				return 0
			}
		}
		return 1
	}
	done := allDone()
	lo, hi := counter.minmax()
	// (the pass runs every 20 ms of real time: on a loaded machine give it up to a second before reporting)
	for late := time.Now().Add(time.Second); (done == 0 || lo == 0) && time.Now().Before(late); {
		time.Sleep(10 * time.Millisecond)
		done = allDone()
		lo, hi = counter.minmax()
	}
	s.Stop() // the listener is closed now: Serve returns
	select {
	case <-served:
	case <-time.After(2 * time.Second):
	}
	return fmt.Sprintf("ret %d after %d err - ; done %d onclose %d %d ; panics 0", ret, after, done, lo, hi)
}

// runServerReconnect (`case udp srvstop k<N>r stop`): k raw peers each have a connection on the datagram server; the
// application closes those connections (cc.Close()) and every peer sends its next datagram right away — before any
// housekeeping pass — so the server makes a new connection for it.  Then Stop().  Every on-close callback of the old and of
// the new connections must have run exactly once, and every connection's done signal must be completed.
func runServerReconnect(k int) (line string) {
	defer func() {
		if r := recover(); r != nil {
			line = fmt.Sprintf("panic %v", r)
		}
	}()
	l, err := coapNet.NewListenUDP("udp4", "127.0.0.1:0")
	if err != nil {
		return "conn-error"
	}
	defer l.Close()
	counter := &onCloseCounter{}
	var ccMu sync.Mutex
	var srvConns []*udpclient.Conn
	r := mux.NewRouter()
	_ = r.Handle("/x", mux.HandlerFunc(func(w mux.ResponseWriter, req *mux.Message) {
		_ = w.SetResponse(codes.Content, message.TextPlain, nil)
	}))
	s := udp.NewServer(options.WithMux(r), options.WithErrors(func(error) {}),
		options.WithOnNewConn(func(cc *udpclient.Conn) {
			counter.add(func(f func()) { cc.AddOnClose(f) })
			ccMu.Lock()
			srvConns = append(srvConns, cc)
			ccMu.Unlock()
		}))
	served := make(chan error, 1)
	go func() { served <- s.Serve(l) }()
	time.Sleep(30 * time.Millisecond)
	var socks []*net.UDPConn
	defer func() {
		for _, c := range socks {
			c.Close()
		}
	}()
	ask := func(c *net.UDPConn, mid byte) bool {
		_, _ = c.Write([]byte{0x41, 0x01, 0x50, mid, 0xD0 + mid%16, 0xb1, 'x'}) // CON GET /x
		buf := make([]byte, 256)
		_ = c.SetReadDeadline(time.Now().Add(time.Second))
		n, err := c.Read(buf)
		return err == nil && n >= 4
	}
	for i := 0; i < k; i++ {
		c, err := net.DialUDP("udp4", nil, l.LocalAddr().(*net.UDPAddr))
		if err != nil {
			return "conn-error"
		}
		socks = append(socks, c)
		if !ask(c, byte(i)) {
			return "setup-failed"
		}
	}
	ccMu.Lock()
	first := append([]*udpclient.Conn(nil), srvConns...)
	ccMu.Unlock()
	if len(first) != k {
		return "setup-failed"
	}
	for _, cc := range first {
		_ = cc.Close()
	}
	for i, c := range socks {
		if !ask(c, byte(100+i)) {
			return "setup-failed"
		}
	}
	causeAt := time.Now()
	var swg sync.WaitGroup
	for i := 0; i < 3; i++ {
		swg.Add(1)
		go func() { defer swg.Done(); s.Stop() }()
	}
	swg.Wait()
	s.Stop()
	ret, after := 0, int64(-1)
	select {
	case <-served:
		ret = 1
		after = time.Since(causeAt).Nanoseconds()
	case <-time.After(2 * time.Second):
	}
	time.Sleep(50 * time.Millisecond)
	done := 1
	ccMu.Lock()
	for _, cc := range srvConns {
		select {
		case <-cc.Done():
		default:
			done = 0
		}
	}
	n := len(srvConns)
	ccMu.Unlock()
	if n != 2*k {
		return fmt.Sprintf("ret %d after %d err conns%d ; done %d onclose 0 0 ; panics 0", ret, after, n, done)
	}
	lo, hi := counter.minmax()
	return fmt.Sprintf("ret %d after %d err - ; done %d onclose %d %d ; panics 0", ret, after, done, lo, hi)
}
