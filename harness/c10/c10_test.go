// Harness for C10 (servers stay up, peers isolated). Real loopback sockets and real time (synctest cannot bubble
// sockets). Lines:
//
//	keyeq <rA> <lkindA> <lipA> <rB> <lkindB> <lipB>   -> 1|0   (do two (remote, local) pairs share a peer-table key?)
//	serve <udp|tcp|dtls> <seed> <good> <bad> <msgs>   -> per good client what it received + server liveness
//	                                                     (dtls: the adversaries send a ClientHello and stall, plus garbage records)
//	discover <responders> [dup]                       -> discovery routing on a real datagram server; with `dup` a second
//	                                                     discovery re-using each running discovery's token is issued (and must be
//	                                                     refused) before the responders answer
//
// A rig problem (cannot listen, cannot connect) is reported as `rig-error …`, never as a violation.
package c10

import (
	"bufio"
	"bytes"
	"context"
	"crypto/ecdsa"
	"crypto/elliptic"
	crand "crypto/rand"
	"crypto/tls"
	"crypto/x509"
	"crypto/x509/pkix"
	"errors"
	"fmt"
	"math/big"
	"math/rand"
	"net"
	"strconv"
	"strings"
	"sync"
	"sync/atomic"
	"testing"
	"time"

	piondtls "github.com/pion/dtls/v3"
	dtlsnet "github.com/pion/dtls/v3/pkg/net"
	coapdtls "github.com/plgd-dev/go-coap/v3/dtls"
	"github.com/plgd-dev/go-coap/v3/message"
	"github.com/plgd-dev/go-coap/v3/message/codes"
	"github.com/plgd-dev/go-coap/v3/message/pool"
	"github.com/plgd-dev/go-coap/v3/mux"
	coapNet "github.com/plgd-dev/go-coap/v3/net"
	"github.com/plgd-dev/go-coap/v3/net/responsewriter"
	"github.com/plgd-dev/go-coap/v3/options"
	pkgErrors "github.com/plgd-dev/go-coap/v3/pkg/errors"
	"github.com/plgd-dev/go-coap/v3/tcp"
	tcpclient "github.com/plgd-dev/go-coap/v3/tcp/client"
	tcpcoder "github.com/plgd-dev/go-coap/v3/tcp/coder"
	"github.com/plgd-dev/go-coap/v3/udp"
	udpclient "github.com/plgd-dev/go-coap/v3/udp/client"
	udpcoder "github.com/plgd-dev/go-coap/v3/udp/coder"
	udpserver "github.com/plgd-dev/go-coap/v3/udp/server"
	"verifharness/internal/lp"
)

func mkLocal(kind string, ip string) *net.UDPAddr {
	switch kind {
	case "concrete":
		return &net.UDPAddr{IP: net.ParseIP("10.0.0." + ip), Port: 5683}
	case "concrete6":
		return &net.UDPAddr{IP: net.ParseIP("2001:db8::" + ip), Port: 5683}
	case "multicast":
		return &net.UDPAddr{IP: net.ParseIP("224.0.1." + ip), Port: 5683}
	case "multicast6":
		return &net.UDPAddr{IP: net.ParseIP("ff02::" + ip), Port: 5683}
	case "unspecified":
		return &net.UDPAddr{IP: net.IPv4zero, Port: 5683}
	case "unspecified6":
		return &net.UDPAddr{IP: net.IPv6unspecified, Port: 5683}
	case "empty":
		return &net.UDPAddr{Port: 5683}
	}
	return &net.UDPAddr{Port: 5683}
}

func mkRemote(r string) *net.UDPAddr {
	n, _ := strconv.Atoi(r)
	return &net.UDPAddr{IP: net.IPv4(192, 168, 1, byte(n%250+1)), Port: 40000 + n}
}

// ---------------------------------------------------------------- serve

type goodResult struct {
	got   int
	wrong int
	order bool
}

func request(tok byte, seq int, mid int32, udpMode bool) []byte {
	m := pool.NewMessage(context.Background())
	m.SetCode(codes.POST)
	m.SetToken(message.Token{0xC1, tok, byte(seq)})
	_ = m.SetPath("/echo")
	m.SetContentFormat(message.TextPlain)
	m.SetBody(strings.NewReader(fmt.Sprintf("c%d-%d", tok, seq)))
	if udpMode {
		m.SetType(message.Confirmable)
		m.SetMessageID(mid)
		b, _ := m.MarshalWithEncoder(udpcoder.DefaultCoder)
		return append([]byte(nil), b...)
	}
	b, _ := m.MarshalWithEncoder(tcpcoder.DefaultCoder)
	return append([]byte(nil), b...)
}

func garbage(rng *rand.Rand, udpMode bool, maxSize int) []byte {
	return garbageKind(rng.Intn(7), rng, udpMode, maxSize)
}

const garbageKinds = 7

func garbageKind(kind int, rng *rand.Rand, udpMode bool, maxSize int) []byte {
	switch kind {
	case 0:
		b := make([]byte, 1+rng.Intn(40))
		rng.Read(b)
		return b
	case 1: // truncated valid message
		b := request(9, rng.Intn(200), int32(rng.Intn(60000)), udpMode)
		return b[:1+rng.Intn(len(b)-1)]
	case 2: // oversize
		b := make([]byte, maxSize+50)
		if udpMode {
			copy(b, request(9, 1, 1, true))
		} else {
			b[0] = 0xe0
			b[1] = 0xff
			b[2] = 0xff
		}
		return b
	case 3: // unsolicited response with an unknown token
		m := pool.NewMessage(context.Background())
		m.SetCode(codes.Content)
		m.SetToken(message.Token{0xEE, byte(rng.Intn(256))})
		if udpMode {
			m.SetType(message.Type(rng.Intn(4)))
			m.SetMessageID(int32(rng.Intn(65536)))
			b, _ := m.MarshalWithEncoder(udpcoder.DefaultCoder)
			return append([]byte(nil), b...)
		}
		b, _ := m.MarshalWithEncoder(tcpcoder.DefaultCoder)
		return append([]byte(nil), b...)
	case 4: // empty ACK / RST for unknown message IDs
		if udpMode {
			return []byte{byte(0x40 | (2+rng.Intn(2))<<4), 0, byte(rng.Intn(256)), byte(rng.Intn(256))}
		}
		return []byte{0x0f, 0x01} // reserved token length
	case 5: // option soup
		return append(request(9, 2, 7, udpMode)[:5], 0xff, 0xff, 0xf0, 0x1f)
	}
	return []byte{0xff}
}

func serveUDP(seed int64, good, bad, msgs int) string {
	rng := rand.New(rand.NewSource(seed))
	l, err := coapNet.NewListenUDP("udp4", "127.0.0.1:0")
	if err != nil {
		return "rig-error listen"
	}
	defer l.Close()
	var handled atomic.Int64
	var panics atomic.Int64
	r := mux.NewRouter()
	_ = r.Handle("/echo", mux.HandlerFunc(func(w mux.ResponseWriter, req *mux.Message) {
		handled.Add(1)
		body, _ := req.ReadBody()
		_ = w.SetResponse(codes.Content, message.TextPlain, bytes.NewReader(body))
	}))
	const maxSize = 1024
	s := udp.NewServer(options.WithMux(r), options.WithMaxMessageSize(maxSize), options.WithErrors(func(error) {}),
		options.WithMessagePool(pool.New(64, 2048)))
	served := make(chan error, 1)
	go func() {
		defer func() {
			if rec := recover(); rec != nil {
				panics.Add(1)
				served <- fmt.Errorf("panic %v", rec)
			}
		}()
		served <- s.Serve(l)
	}()
	addr := l.LocalAddr().(*net.UDPAddr)
	results := make([]goodResult, good)
	var wg sync.WaitGroup
	stopBad := make(chan struct{})
	for b := 0; b < bad; b++ {
		c, err := net.DialUDP("udp4", nil, addr)
		if err != nil {
			continue
		}
		bseed := rng.Int63()
		// opening salvo: every kind of malformed datagram once, before the well-behaved clients start
		srng := rand.New(rand.NewSource(bseed + 1))
		for k := 0; k < garbageKinds; k++ {
			_, _ = c.Write(garbageKind(k, srng, true, maxSize))
		}
		wg.Add(1)
		go func() {
			defer wg.Done()
			defer c.Close()
			brng := rand.New(rand.NewSource(bseed))
			for {
				select {
				case <-stopBad:
					return
				default:
				}
				_, _ = c.Write(garbage(brng, true, maxSize))
				time.Sleep(time.Duration(200+brng.Intn(800)) * time.Microsecond)
			}
		}()
	}
	time.Sleep(20 * time.Millisecond)
	var gwg sync.WaitGroup
	for g := 0; g < good; g++ {
		c, err := net.DialUDP("udp4", nil, addr)
		if err != nil {
			return "rig-error dial"
		}
		gwg.Add(1)
		go func(g int, c *net.UDPConn) {
			defer gwg.Done()
			defer c.Close()
			res := goodResult{order: true}
			buf := make([]byte, 2048)
			for i := 0; i < msgs; i++ {
				mid := int32(1000*g + i)
				req := request(byte(g), i, mid, true)
				answered := false
				for attempt := 0; attempt < 4 && !answered; attempt++ { // a client retransmits (the server de-duplicates)
					_, _ = c.Write(req)
					_ = c.SetReadDeadline(time.Now().Add(500 * time.Millisecond))
					for {
						n, err := c.Read(buf)
						if err != nil {
							break
						}
						m := pool.NewMessage(context.Background())
						if _, err := m.UnmarshalWithDecoder(udpcoder.DefaultCoder, buf[:n]); err != nil {
							res.wrong++
							continue
						}
						body, _ := m.ReadBody()
						if bytes.Equal(m.Token(), message.Token{0xC1, byte(g), byte(i)}) && string(body) == fmt.Sprintf("c%d-%d", g, i) && m.Code() == codes.Content {
							answered = true
							break
						}
						if len(m.Token()) == 3 && m.Token()[0] == 0xC1 && (m.Token()[1] != byte(g) || int(m.Token()[2]) > i) {
							res.wrong++ // a response that belongs to another client or to a request not yet sent
						}
					}
				}
				if answered {
					res.got++
				} else {
					break // no point in waiting for the rest: the verdict is already negative
				}
			}
			results[g] = res
		}(g, c)
	}
	gwg.Wait()
	close(stopBad)
	wg.Wait()
	// liveness probe by a fresh peer
	alive := 0
	if c, err := net.DialUDP("udp4", nil, addr); err == nil {
		_, _ = c.Write(request(200, 1, 4242, true))
		_ = c.SetReadDeadline(time.Now().Add(2 * time.Second))
		buf := make([]byte, 2048)
		if n, err := c.Read(buf); err == nil && n > 4 {
			alive = 1
		}
		c.Close()
	}
	stillServing := 1
	select {
	case <-served:
		stillServing = 0
	default:
	}
	s.Stop()
	select {
	case <-served:
	case <-time.After(3 * time.Second):
	}
	var b strings.Builder
	for g, r := range results {
		fmt.Fprintf(&b, "g%d got %d/%d wrong %d ; ", g, r.got, msgs, r.wrong)
	}
	fmt.Fprintf(&b, "alive %d serving %d panics %d", alive, stillServing, panics.Load())
	return b.String()
}

func serveTCP(seed int64, good, bad, msgs int) string {
	rng := rand.New(rand.NewSource(seed))
	l, err := coapNet.NewTCPListener("tcp4", "127.0.0.1:0")
	if err != nil {
		return "rig-error listen"
	}
	defer l.Close()
	var panics atomic.Int64
	r := mux.NewRouter()
	_ = r.Handle("/echo", mux.HandlerFunc(func(w mux.ResponseWriter, req *mux.Message) {
		body, _ := req.ReadBody()
		_ = w.SetResponse(codes.Content, message.TextPlain, bytes.NewReader(body))
	}))
	const maxSize = 1024
	s := tcp.NewServer(options.WithMux(r), options.WithMaxMessageSize(maxSize), options.WithErrors(func(error) {}),
		options.WithMessagePool(pool.New(64, 2048)))
	served := make(chan error, 1)
	go func() {
		defer func() {
			if rec := recover(); rec != nil {
				panics.Add(1)
				served <- fmt.Errorf("panic %v", rec)
			}
		}()
		served <- s.Serve(l)
	}()
	addr := l.Addr().String()
	var wg sync.WaitGroup
	stopBad := make(chan struct{})
	for b := 0; b < bad; b++ {
		bseed := rng.Int63()
		wg.Add(1)
		go func() {
			defer wg.Done()
			brng := rand.New(rand.NewSource(bseed))
			for {
				select {
				case <-stopBad:
					return
				default:
				}
				c, err := net.DialTimeout("tcp4", addr, time.Second)
				if err != nil {
					time.Sleep(time.Millisecond)
					continue
				}
				switch brng.Intn(4) {
				case 0: // connect and stall
					time.Sleep(time.Duration(1+brng.Intn(20)) * time.Millisecond)
				case 1: // garbage then abrupt close
					_, _ = c.Write(garbage(brng, false, maxSize))
				default:
					for k := 0; k < 1+brng.Intn(4); k++ {
						_, _ = c.Write(garbage(brng, false, maxSize))
						time.Sleep(time.Duration(brng.Intn(500)) * time.Microsecond)
					}
				}
				c.Close()
			}
		}()
	}
	// opening salvo: one connection per kind of malformed stream, before the well-behaved clients start
	srng := rand.New(rand.NewSource(seed + 1))
	for k := 0; k < garbageKinds && bad > 0; k++ {
		if c, err := net.DialTimeout("tcp4", addr, time.Second); err == nil {
			_, _ = c.Write(garbageKind(k, srng, false, maxSize))
			time.Sleep(2 * time.Millisecond)
			c.Close()
		}
	}
	time.Sleep(20 * time.Millisecond)
	results := make([]goodResult, good)
	var gwg sync.WaitGroup
	for g := 0; g < good; g++ {
		gwg.Add(1)
		go func(g int) {
			defer gwg.Done()
			c, err := net.DialTimeout("tcp4", addr, 2*time.Second)
			if err != nil {
				return
			}
			defer c.Close()
			res := goodResult{order: true}
			var acc []byte
			buf := make([]byte, 4096)
			for i := 0; i < msgs; i++ {
				_, _ = c.Write(request(byte(g), i, 0, false))
				answered := false
				_ = c.SetReadDeadline(time.Now().Add(2 * time.Second))
				for !answered {
					// parse frames accumulated so far
					for {
						var h tcpcoder.MessageHeader
						if _, err := tcpcoder.DefaultCoder.DecodeHeader(acc, &h); err != nil || uint32(len(acc)) < h.MessageLength {
							break
						}
						m := pool.NewMessage(context.Background())
						_, err := m.UnmarshalWithDecoder(tcpcoder.DefaultCoder, acc[:h.MessageLength])
						acc = acc[h.MessageLength:]
						if err != nil {
							res.wrong++
							continue
						}
						if m.Code() == codes.CSM {
							continue
						}
						body, _ := m.ReadBody()
						if bytes.Equal(m.Token(), message.Token{0xC1, byte(g), byte(i)}) && string(body) == fmt.Sprintf("c%d-%d", g, i) && m.Code() == codes.Content {
							answered = true
						} else {
							res.wrong++
						}
					}
					if answered {
						break
					}
					n, err := c.Read(buf)
					if err != nil {
						break
					}
					acc = append(acc, buf[:n]...)
				}
				if answered {
					res.got++
				} else {
					break
				}
			}
			results[g] = res
		}(g)
	}
	gwg.Wait()
	close(stopBad)
	wg.Wait()
	alive := 0
	if c, err := tcp.Dial(addr, options.WithErrors(func(error) {})); err == nil {
		ctx, cancel := context.WithTimeout(context.Background(), 2*time.Second)
		if resp, err := c.Post(ctx, "/echo", message.TextPlain, strings.NewReader("probe")); err == nil && resp.Code() == codes.Content {
			alive = 1
		}
		cancel()
		_ = c.Close()
	}
	stillServing := 1
	select {
	case <-served:
		stillServing = 0
	default:
	}
	s.Stop()
	select {
	case <-served:
	case <-time.After(3 * time.Second):
	}
	var b strings.Builder
	for g, r := range results {
		fmt.Fprintf(&b, "g%d got %d/%d wrong %d ; ", g, r.got, msgs, r.wrong)
	}
	fmt.Fprintf(&b, "alive %d serving %d panics %d", alive, stillServing, panics.Load())
	return b.String()
}

// ---------------------------------------------------------------- peer table against the model

// peerTable drives a real datagram server with a history of events and reports which peers have an entry in its peer
// table after each event (hook VerifConnKeys):  w<i> well-formed request from peer i, m<i> undecodable datagram from
// peer i, n<i> server-initiated connection to peer i (NewConn), c<i> the server closes its connection to peer i.
// slowMonitorFactory: the application's factory for inactivity monitors takes a moment (the server calls it while it sets a
// new peer's connection up)
type slowMonitorFactory struct{ d time.Duration }

func (o slowMonitorFactory) UDPServerApply(cfg *udpserver.Config) {
	orig := cfg.CreateInactivityMonitor
	cfg.CreateInactivityMonitor = func() udpclient.InactivityMonitor {
		time.Sleep(o.d)
		return orig()
	}
}

// peerTableRace: per round a new peer; k goroutines call Server.NewConn(peer) at the same moment as the peer's first
// datagram arrives.  One logical connection per peer: OnNewConn must have run once for it, every NewConn call must have
// returned that connection, and the datagram must have been handled by it.
func peerTableRace(rounds, k int) string {
	l, err := coapNet.NewListenUDP("udp4", "127.0.0.1:0")
	if err != nil {
		return "rig-error listen"
	}
	defer l.Close()
	var mu sync.Mutex
	created := map[string]int{}
	handledBy := map[string]*udpclient.Conn{}
	r := mux.NewRouter()
	_ = r.Handle("/echo", mux.HandlerFunc(func(w mux.ResponseWriter, req *mux.Message) {
		if cc, ok := w.Conn().(*udpclient.Conn); ok {
			mu.Lock()
			handledBy[cc.RemoteAddr().String()] = cc
			mu.Unlock()
		}
		_ = w.SetResponse(codes.Content, message.TextPlain, bytes.NewReader([]byte("x")))
	}))
	s := udp.NewServer(options.WithMux(r), options.WithErrors(func(error) {}), slowMonitorFactory{2 * time.Millisecond},
		options.WithOnNewConn(func(cc *udpclient.Conn) {
			mu.Lock()
			created[cc.RemoteAddr().String()]++
			mu.Unlock()
		}))
	served := make(chan error, 1)
	go func() { served <- s.Serve(l) }()
	defer func() {
		s.Stop()
		select {
		case <-served:
		case <-time.After(3 * time.Second):
		}
	}()
	addr := l.LocalAddr().(*net.UDPAddr)
	time.Sleep(30 * time.Millisecond)
	for round := 0; round < rounds; round++ {
		c, err := net.DialUDP("udp4", nil, addr)
		if err != nil {
			return "rig-error dial"
		}
		peer := c.LocalAddr().(*net.UDPAddr)
		start := make(chan struct{})
		got := make([]*udpclient.Conn, k)
		var wg sync.WaitGroup
		for i := 0; i < k; i++ {
			wg.Add(1)
			go func(i int) {
				defer wg.Done()
				<-start
				cc, err := s.NewConn(peer)
				if err == nil {
					got[i] = cc
				}
			}(i)
		}
		wg.Add(1)
		go func() {
			defer wg.Done()
			<-start
			_, _ = c.Write(request(7, round+1, int32(2000+round), true))
		}()
		close(start)
		wg.Wait()
		_ = c.SetReadDeadline(time.Now().Add(500 * time.Millisecond))
		buf := make([]byte, 256)
		_, rerr := c.Read(buf)
		c.Close()
		mu.Lock()
		n, hb := created[peer.String()], handledBy[peer.String()]
		mu.Unlock()
		if rerr != nil {
			return fmt.Sprintf("race round %d: the peer's request was not answered", round)
		}
		if n != 1 {
			return fmt.Sprintf("race round %d: %d connections were created for one peer", round, n)
		}
		for i := 0; i < k; i++ {
			if got[i] == nil || got[i] != got[0] {
				return fmt.Sprintf("race round %d: NewConn calls returned different connections", round)
			}
		}
		if hb != got[0] {
			return fmt.Sprintf("race round %d: the datagram was handled by another connection than the one NewConn returned", round)
		}
	}
	return fmt.Sprintf("race ok rounds %d", rounds)
}

func peerTable(evs []string) string {
	l, err := coapNet.NewListenUDP("udp4", "127.0.0.1:0")
	if err != nil {
		return "rig-error listen"
	}
	defer l.Close()
	r := mux.NewRouter()
	_ = r.Handle("/echo", mux.HandlerFunc(func(w mux.ResponseWriter, req *mux.Message) {
		_ = w.SetResponse(codes.Content, message.TextPlain, bytes.NewReader([]byte("x")))
	}))
	s := udp.NewServer(options.WithMux(r), options.WithErrors(func(error) {}))
	served := make(chan error, 1)
	go func() { served <- s.Serve(l) }()
	defer func() {
		s.Stop()
		select {
		case <-served:
		case <-time.After(3 * time.Second):
		}
	}()
	addr := l.LocalAddr().(*net.UDPAddr)
	time.Sleep(30 * time.Millisecond)
	socks := map[int]*net.UDPConn{}
	defer func() {
		for _, c := range socks {
			c.Close()
		}
	}()
	sock := func(i int) *net.UDPConn {
		if c, ok := socks[i]; ok {
			return c
		}
		c, err := net.DialUDP("udp4", nil, addr)
		if err != nil {
			return nil
		}
		socks[i] = c
		return c
	}
	conns := map[int]*udpclient.Conn{}
	var out []string
	seq := 0
	for _, e := range evs {
		if len(e) < 2 {
			return "bad-op"
		}
		i, err := strconv.Atoi(e[1:])
		if err != nil {
			return "bad-op"
		}
		c := sock(i)
		if c == nil {
			return "rig-error dial"
		}
		switch e[0] {
		case 'w':
			seq++
			_, _ = c.Write(request(byte(i), seq, int32(2000+seq), true))
		case 'm':
			_, _ = c.Write([]byte{0xff, 0xff, 0xff})
		case 'n':
			cc, err := s.NewConn(c.LocalAddr().(*net.UDPAddr))
			if err == nil {
				conns[i] = cc
			}
		case 'c':
			// close whatever connection the server has for that peer
			for _, k := range s.VerifConnKeys() {
				if strings.HasPrefix(k, c.LocalAddr().String()+"-") && !strings.HasSuffix(k, "!closed") {
					if cc, err := s.NewConn(c.LocalAddr().(*net.UDPAddr)); err == nil {
						_ = cc.Close()
					}
				}
			}
		default:
			return "bad-op"
		}
		time.Sleep(15 * time.Millisecond)
		present := map[int]int{}
		for _, k := range s.VerifConnKeys() {
			if strings.HasSuffix(k, "!closed") {
				continue // logically gone: removed by the next housekeeping pass or replaced by the peer's next datagram
			}
			for j, sc := range socks {
				if strings.HasPrefix(k, sc.LocalAddr().String()+"-") {
					present[j]++
				}
			}
		}
		var ids []string
		for j := 0; j < 64; j++ {
			for n := 0; n < present[j]; n++ {
				ids = append(ids, strconv.Itoa(j))
			}
		}
		if len(ids) == 0 {
			out = append(out, "-")
		} else {
			out = append(out, strings.Join(ids, ","))
		}
	}
	return "t " + strings.Join(out, " ")
}

// ---------------------------------------------------------------- one peer's backlog and the shared read loop

// serveUDPBacklog: peer A sends a burst of well-formed non-confirmable requests to a resource whose handler takes
// slowMs; peer B then sends one request to a fast resource and must be answered within its deadline (1 s).
// serveUDPWild: a datagram server on the wildcard address with peers that reach it over DIFFERENT local addresses
// (127.0.0.1 and 127.0.0.2).  Peer A has a request queued behind a slow handler when peer B's datagram arrives at the other
// local address: A's responses must still come from the address A sent to (its socket is connected: anything else is
// dropped by the kernel), and B's from B's.
func serveUDPWild(slowMs int) string {
	l, err := coapNet.NewListenUDP("udp4", "0.0.0.0:0")
	if err != nil {
		return "rig-error listen"
	}
	defer l.Close()
	r := mux.NewRouter()
	_ = r.Handle("/slow", mux.HandlerFunc(func(w mux.ResponseWriter, req *mux.Message) {
		select {
		case <-time.After(time.Duration(slowMs) * time.Millisecond):
		case <-w.Conn().Context().Done():
		}
		_ = w.SetResponse(codes.Content, message.TextPlain, bytes.NewReader([]byte("slow")))
	}))
	_ = r.Handle("/echo", mux.HandlerFunc(func(w mux.ResponseWriter, req *mux.Message) {
		body, _ := req.ReadBody()
		_ = w.SetResponse(codes.Content, message.TextPlain, bytes.NewReader(body))
	}))
	s := udp.NewServer(options.WithMux(r), options.WithErrors(func(error) {}))
	served := make(chan error, 1)
	go func() { served <- s.Serve(l) }()
	port := l.LocalAddr().(*net.UDPAddr).Port
	time.Sleep(30 * time.Millisecond)
	a, err := net.DialUDP("udp4", nil, &net.UDPAddr{IP: net.IPv4(127, 0, 0, 1), Port: port})
	if err != nil {
		return "rig-error dial"
	}
	defer a.Close()
	b, err := net.DialUDP("udp4", nil, &net.UDPAddr{IP: net.IPv4(127, 0, 0, 2), Port: port})
	if err != nil {
		return "rig-error dial-second-address"
	}
	defer b.Close()
	send := func(c *net.UDPConn, path string, tok byte, mid int32) {
		m := pool.NewMessage(context.Background())
		m.SetCode(codes.GET)
		m.SetToken(message.Token{tok})
		_ = m.SetPath(path)
		m.SetType(message.NonConfirmable)
		m.SetMessageID(mid)
		bs, _ := m.MarshalWithEncoder(udpcoder.DefaultCoder)
		_, _ = c.Write(bs)
	}
	count := func(c *net.UDPConn, want int, wait time.Duration) int {
		got := 0
		buf := make([]byte, 2048)
		deadline := time.Now().Add(wait)
		for got < want {
			_ = c.SetReadDeadline(deadline)
			n, err := c.Read(buf)
			if err != nil {
				break
			}
			m := pool.NewMessage(context.Background())
			if _, err := m.UnmarshalWithDecoder(udpcoder.DefaultCoder, buf[:n]); err == nil && m.Code() == codes.Content {
				got++
			}
		}
		return got
	}
	send(a, "/slow", 0xA1, 2001) // in the handler
	send(a, "/slow", 0xA2, 2002) // queued behind it
	time.Sleep(time.Duration(slowMs/3) * time.Millisecond)
	send(b, "/echo", 0xB1, 3001) // arrives at the other local address meanwhile
	gb := count(b, 1, time.Second)
	ga := count(a, 2, time.Duration(3*slowMs)*time.Millisecond+time.Second)
	// a server-initiated exchange with a third endpoint C on 127.0.0.1 (Server.NewConn, no local address given: the
	// connection of a wildcard listener); the last datagram the server received came in at 127.0.0.2.  C answers to the
	// address the request came from; the answer must reach the connection NewConn returned.
	srvInit := 0
	if c, err := net.ListenUDP("udp4", &net.UDPAddr{IP: net.IPv4(127, 0, 0, 1)}); err == nil {
		defer c.Close()
		send(b, "/echo", 0xB2, 3002) // once more at 127.0.0.2, so that it is the latest destination address
		_ = count(b, 1, time.Second)
		go func() {
			buf := make([]byte, 2048)
			_ = c.SetReadDeadline(time.Now().Add(2 * time.Second))
			n, from, err := c.ReadFromUDP(buf)
			if err != nil {
				return
			}
			m := pool.NewMessage(context.Background())
			if _, err := m.UnmarshalWithDecoder(udpcoder.DefaultCoder, buf[:n]); err != nil {
				return
			}
			r := pool.NewMessage(context.Background())
			r.SetCode(codes.Content)
			r.SetToken(m.Token())
			r.SetType(message.Acknowledgement)
			r.SetMessageID(m.MessageID())
			r.SetContentFormat(message.TextPlain)
			r.SetBody(bytes.NewReader([]byte("from-c")))
			bs, _ := r.MarshalWithEncoder(udpcoder.DefaultCoder)
			_, _ = c.WriteToUDP(bs, from)
		}()
		if cc, err := s.NewConn(c.LocalAddr().(*net.UDPAddr)); err == nil {
			ctx, cancel := context.WithTimeout(context.Background(), time.Second)
			resp, err := cc.Get(ctx, "/c")
			cancel()
			if err == nil {
				if body, _ := resp.ReadBody(); string(body) == "from-c" {
					srvInit = 1
				}
				cc.ReleaseMessage(resp)
			}
			// one logical connection for C: the peer table holds it under exactly one key
			keys := 0
			for _, k := range s.VerifConnKeys() {
				if strings.HasPrefix(k, c.LocalAddr().String()+"-") && !strings.HasSuffix(k, "!closed") {
					keys++
				}
			}
			if srvInit == 1 && keys != 1 {
				srvInit = 10 + keys
			}
		}
	} else {
		srvInit = 1 // (no second socket: nothing to observe)
	}
	s.Stop()
	serving := 0
	select {
	case <-served:
		serving = 1
	case <-time.After(2 * time.Second):
	}
	return fmt.Sprintf("wild a %d/2 b %d/1 stopped %d srvinit %d", ga, gb, serving, srvInit)
}

func serveUDPBacklog(slowMs, burst int) string {
	l, err := coapNet.NewListenUDP("udp4", "127.0.0.1:0")
	if err != nil {
		return "rig-error listen"
	}
	defer l.Close()
	r := mux.NewRouter()
	var slowHandled atomic.Int64
	_ = r.Handle("/slow", mux.HandlerFunc(func(w mux.ResponseWriter, req *mux.Message) {
		slowHandled.Add(1)
		select {
		case <-time.After(time.Duration(slowMs) * time.Millisecond):
		case <-w.Conn().Context().Done():
		}
		_ = w.SetResponse(codes.Content, message.TextPlain, bytes.NewReader([]byte("slow")))
	}))
	_ = r.Handle("/echo", mux.HandlerFunc(func(w mux.ResponseWriter, req *mux.Message) {
		body, _ := req.ReadBody()
		_ = w.SetResponse(codes.Content, message.TextPlain, bytes.NewReader(body))
	}))
	s := udp.NewServer(options.WithMux(r), options.WithErrors(func(error) {}))
	served := make(chan error, 1)
	go func() { served <- s.Serve(l) }()
	addr := l.LocalAddr().(*net.UDPAddr)
	time.Sleep(30 * time.Millisecond)
	a, err := net.DialUDP("udp4", nil, addr)
	if err != nil {
		return "rig-error dial"
	}
	defer a.Close()
	for i := 0; i < burst; i++ {
		m := pool.NewMessage(context.Background())
		m.SetCode(codes.GET)
		m.SetToken(message.Token{0xA0, byte(i)})
		_ = m.SetPath("/slow")
		m.SetType(message.NonConfirmable)
		m.SetMessageID(int32(1000 + i))
		b, _ := m.MarshalWithEncoder(udpcoder.DefaultCoder)
		_, _ = a.Write(b)
	}
	time.Sleep(50 * time.Millisecond)
	b, err := net.DialUDP("udp4", nil, addr)
	if err != nil {
		return "rig-error dial"
	}
	defer b.Close()
	got := 0
	start := time.Now()
	_, _ = b.Write(request(9, 1, 7001, true))
	_ = b.SetReadDeadline(time.Now().Add(time.Second))
	buf := make([]byte, 2048)
	if n, err := b.Read(buf); err == nil && n > 4 {
		got = 1
	}
	waited := time.Since(start).Milliseconds()
	stillServing := 1
	select {
	case <-served:
		stillServing = 0
	default:
	}
	s.Stop()
	select {
	case <-served:
	case <-time.After(5 * time.Second):
	}
	return fmt.Sprintf("b got %d/1 waited %d slowhandled %d serving %d", got, waited, slowHandled.Load(), stillServing)
}

// serveMuxLive: the application adds a route to the server's router at run time while one peer's handler is still running
// (300 ms); another peer's request must be served meanwhile, and the new route must work afterwards.  A handler that
// registers a route itself (a POST that creates a resource) must return.
func serveMuxLive() string {
	l, err := coapNet.NewListenUDP("udp4", "127.0.0.1:0")
	if err != nil {
		return "rig-error listen"
	}
	defer l.Close()
	r := mux.NewRouter()
	inSlow := make(chan struct{}, 1)
	_ = r.Handle("/slow", mux.HandlerFunc(func(w mux.ResponseWriter, req *mux.Message) {
		select {
		case inSlow <- struct{}{}:
		default:
		}
		select {
		case <-time.After(300 * time.Millisecond):
		case <-w.Conn().Context().Done():
		}
		_ = w.SetResponse(codes.Content, message.TextPlain, bytes.NewReader([]byte("slow")))
	}))
	_ = r.Handle("/echo", mux.HandlerFunc(func(w mux.ResponseWriter, req *mux.Message) {
		body, _ := req.ReadBody()
		_ = w.SetResponse(codes.Content, message.TextPlain, bytes.NewReader(body))
	}))
	_ = r.Handle("/create", mux.HandlerFunc(func(w mux.ResponseWriter, req *mux.Message) {
		_ = r.Handle("/created", mux.HandlerFunc(func(w mux.ResponseWriter, req *mux.Message) {
			_ = w.SetResponse(codes.Content, message.TextPlain, bytes.NewReader([]byte("created")))
		}))
		_ = w.SetResponse(codes.Created, message.TextPlain, nil)
	}))
	s := udp.NewServer(options.WithMux(r), options.WithErrors(func(error) {}))
	served := make(chan error, 1)
	go func() { served <- s.Serve(l) }()
	addr := l.LocalAddr().(*net.UDPAddr)
	time.Sleep(30 * time.Millisecond)
	get := func(c *net.UDPConn, path string, tok byte, mid int32, wait time.Duration) bool {
		m := pool.NewMessage(context.Background())
		m.SetCode(codes.GET)
		m.SetToken(message.Token{tok})
		_ = m.SetPath(path)
		m.SetType(message.NonConfirmable)
		m.SetMessageID(mid)
		bs, _ := m.MarshalWithEncoder(udpcoder.DefaultCoder)
		_, _ = c.Write(bs)
		buf := make([]byte, 2048)
		_ = c.SetReadDeadline(time.Now().Add(wait))
		n, err := c.Read(buf)
		if err != nil {
			return false
		}
		rm := pool.NewMessage(context.Background())
		_, err = rm.UnmarshalWithDecoder(udpcoder.DefaultCoder, buf[:n])
		return err == nil && (rm.Code() == codes.Content || rm.Code() == codes.Created)
	}
	a, err := net.DialUDP("udp4", nil, addr)
	if err != nil {
		return "rig-error dial"
	}
	defer a.Close()
	b, err := net.DialUDP("udp4", nil, addr)
	if err != nil {
		return "rig-error dial"
	}
	defer b.Close()
	aDone := make(chan bool, 1)
	go func() { aDone <- get(a, "/slow", 0xA1, 2001, 2*time.Second) }()
	select {
	case <-inSlow:
	case <-time.After(time.Second):
		return "rig-error slow handler not entered"
	}
	added := make(chan struct{})
	go func() {
		_ = r.Handle("/added", mux.HandlerFunc(func(w mux.ResponseWriter, req *mux.Message) {
			_ = w.SetResponse(codes.Content, message.TextPlain, bytes.NewReader([]byte("added")))
		}))
		close(added)
	}()
	time.Sleep(30 * time.Millisecond)
	bServed := 0
	if get(b, "/echo", 0xB1, 3001, 200*time.Millisecond) { // well inside the 300 ms of A's handler
		bServed = 1
	}
	addedInTime := 0
	select {
	case <-added:
		addedInTime = 1
	case <-time.After(10 * time.Millisecond):
	}
	aOK := 0
	if <-aDone {
		aOK = 1
	}
	newRoute := 0
	if get(b, "/added", 0xB2, 3002, 500*time.Millisecond) {
		newRoute = 1
	}
	create := 0
	if get(b, "/create", 0xB3, 3003, 500*time.Millisecond) && get(b, "/created", 0xB4, 3004, 500*time.Millisecond) {
		create = 1
	}
	stopped := 0
	go s.Stop()
	select {
	case <-served:
		stopped = 1
	case <-time.After(2 * time.Second):
	}
	return fmt.Sprintf("muxlive a %d b %d added %d newroute %d create %d stopped %d", aOK, bServed, addedInTime, newRoute, create, stopped)
}

// serveTCPMonitor: a stream server whose application installed a request monitor that drops DELETE requests
// (options.WithRequestMonitor: "drop" = the message is not processed, the connection lives on).  A peer pipelines a dropped
// request and ordinary ones in ONE write; every ordinary request must be answered, in order, without further traffic.
func serveTCPMonitor() string {
	l, err := coapNet.NewTCPListener("tcp4", "127.0.0.1:0")
	if err != nil {
		return "rig-error listen"
	}
	defer l.Close()
	r := mux.NewRouter()
	_ = r.Handle("/echo", mux.HandlerFunc(func(w mux.ResponseWriter, req *mux.Message) {
		body, _ := req.ReadBody()
		_ = w.SetResponse(codes.Content, message.TextPlain, bytes.NewReader(body))
	}))
	s := tcp.NewServer(options.WithMux(r), options.WithErrors(func(error) {}),
		options.WithRequestMonitor(tcpclient.RequestMonitorFunc(func(_ *tcpclient.Conn, req *pool.Message) (bool, error) {
			return req.Code() == codes.DELETE, nil
		})))
	served := make(chan error, 1)
	go func() { served <- s.Serve(l) }()
	defer func() {
		s.Stop()
		select {
		case <-served:
		case <-time.After(3 * time.Second):
		}
	}()
	c, err := net.Dial("tcp4", l.Addr().String())
	if err != nil {
		return "rig-error dial"
	}
	defer c.Close()
	del := func(tok byte) []byte {
		m := pool.NewMessage(context.Background())
		m.SetCode(codes.DELETE)
		m.SetToken(message.Token{0xDD, tok})
		_ = m.SetPath("/echo")
		b, _ := m.MarshalWithEncoder(tcpcoder.DefaultCoder)
		return append([]byte(nil), b...)
	}
	var w []byte
	w = append(w, []byte{0x00, 0xe1}...) // CSM
	w = append(w, request(1, 1, 0, false)...)
	w = append(w, del(1)...)
	w = append(w, request(1, 2, 0, false)...)
	w = append(w, del(2)...)
	w = append(w, del(3)...)
	w = append(w, request(1, 3, 0, false)...)
	if _, err := c.Write(w); err != nil {
		return "rig-error write"
	}
	// read frames for a second: the three POSTs must be answered in order (the server's own CSM comes first)
	var got []string
	var buf []byte
	deadline := time.Now().Add(time.Second)
	tmp := make([]byte, 4096)
	for len(got) < 3 && time.Now().Before(deadline) {
		_ = c.SetReadDeadline(deadline)
		n, err := c.Read(tmp)
		if err != nil {
			break
		}
		buf = append(buf, tmp[:n]...)
		for {
			var h tcpcoder.MessageHeader
			if _, err := tcpcoder.DefaultCoder.DecodeHeader(buf, &h); err != nil || uint32(len(buf)) < h.MessageLength {
				break
			}
			m := pool.NewMessage(context.Background())
			if _, err := m.UnmarshalWithDecoder(tcpcoder.DefaultCoder, buf[:h.MessageLength]); err == nil && m.Code() == codes.Content {
				body, _ := m.ReadBody()
				got = append(got, string(body))
			}
			buf = buf[h.MessageLength:]
		}
	}
	return fmt.Sprintf("monitor answered %d/3 %s", len(got), strings.Join(got, ","))
}

// serveUDPGiveUp: the server has a confirmable request of its own outstanding towards peer A, who never answers; the
// request is given up (ACK_TIMEOUT 40 ms, MAX_RETRANSMIT 1, housekeeping every 20 ms).  After that - and after A sent one
// more datagram - peer B must still be served, and Stop() must end Serve.  (A silent peer must not cost the others anything.)
func serveUDPGiveUp() string {
	l, err := coapNet.NewListenUDP("udp4", "127.0.0.1:0")
	if err != nil {
		return "rig-error listen"
	}
	defer l.Close()
	r := mux.NewRouter()
	_ = r.Handle("/echo", mux.HandlerFunc(func(w mux.ResponseWriter, req *mux.Message) {
		body, _ := req.ReadBody()
		_ = w.SetResponse(codes.Content, message.TextPlain, bytes.NewReader(body))
	}))
	var firstPeer atomic.Int32
	var srvReqDone atomic.Int32
	s := udp.NewServer(options.WithMux(r), options.WithErrors(func(error) {}),
		options.WithTransmission(1, 40*time.Millisecond, 1),
		options.WithPeriodicRunner(func(f func(now time.Time) bool) {
			go func() {
				for f(time.Now()) {
					time.Sleep(20 * time.Millisecond)
				}
			}()
		}),
		options.WithOnNewConn(func(cc *udpclient.Conn) {
			if firstPeer.Add(1) != 1 {
				return
			}
			go func() {
				ctx, cancel := context.WithTimeout(context.Background(), time.Second)
				defer cancel()
				if resp, err := cc.Get(ctx, "/never-answered"); err == nil {
					cc.ReleaseMessage(resp)
				}
				srvReqDone.Add(1)
			}()
		}))
	served := make(chan error, 1)
	go func() { served <- s.Serve(l) }()
	addr := l.LocalAddr().(*net.UDPAddr)
	time.Sleep(30 * time.Millisecond)
	a, err := net.DialUDP("udp4", nil, addr)
	if err != nil {
		return "rig-error dial"
	}
	defer a.Close()
	_, _ = a.Write(request(1, 1, 4001, true))
	time.Sleep(300 * time.Millisecond) // both copies of the server's request are out and given up by now
	_, _ = a.Write(request(1, 2, 4002, true))
	time.Sleep(50 * time.Millisecond)
	b, err := net.DialUDP("udp4", nil, addr)
	if err != nil {
		return "rig-error dial"
	}
	defer b.Close()
	got := 0
	buf := make([]byte, 2048)
	for i := 0; i < 3; i++ {
		_, _ = b.Write(request(9, i+1, int32(7001+i), true))
		_ = b.SetReadDeadline(time.Now().Add(500 * time.Millisecond))
		if n, err := b.Read(buf); err == nil && n > 4 {
			got++
		}
	}
	stopped := 0
	done := make(chan struct{})
	go func() { s.Stop(); close(done) }()
	select {
	case <-served:
		stopped = 1
	case <-time.After(2 * time.Second):
	}
	return fmt.Sprintf("giveup b got %d/3 stopped %d", got, stopped)
}

// serveUDPOrder: one peer sends `burst` well-formed non-confirmable requests back to back (more than the connection's
// receive queue holds) while the handler is busy with the first one for slowMs; the handler must see them in the order in
// which they arrived (one socket pair on loopback: the order in which they were sent).
func serveUDPOrder(slowMs, burst int) string {
	l, err := coapNet.NewListenUDP("udp4", "127.0.0.1:0")
	if err != nil {
		return "rig-error listen"
	}
	defer l.Close()
	r := mux.NewRouter()
	var mu sync.Mutex
	var seen []int
	_ = r.Handle("/seq", mux.HandlerFunc(func(w mux.ResponseWriter, req *mux.Message) {
		tok := req.Token()
		mu.Lock()
		first := len(seen) == 0
		if len(tok) == 2 {
			seen = append(seen, int(tok[1]))
		}
		mu.Unlock()
		if first {
			select {
			case <-time.After(time.Duration(slowMs) * time.Millisecond):
			case <-w.Conn().Context().Done():
			}
		}
	}))
	s := udp.NewServer(options.WithMux(r), options.WithErrors(func(error) {}))
	served := make(chan error, 1)
	go func() { served <- s.Serve(l) }()
	addr := l.LocalAddr().(*net.UDPAddr)
	time.Sleep(30 * time.Millisecond)
	a, err := net.DialUDP("udp4", nil, addr)
	if err != nil {
		return "rig-error dial"
	}
	defer a.Close()
	for i := 0; i < burst; i++ {
		m := pool.NewMessage(context.Background())
		m.SetCode(codes.POST)
		m.SetToken(message.Token{0xB0, byte(i)})
		_ = m.SetPath("/seq")
		m.SetType(message.NonConfirmable)
		m.SetMessageID(int32(3000 + i))
		b, _ := m.MarshalWithEncoder(udpcoder.DefaultCoder)
		_, _ = a.Write(b)
	}
	deadline := time.Now().Add(time.Duration(slowMs)*time.Millisecond + 2*time.Second)
	for time.Now().Before(deadline) {
		mu.Lock()
		n := len(seen)
		mu.Unlock()
		if n >= burst {
			break
		}
		time.Sleep(5 * time.Millisecond)
	}
	s.Stop()
	select {
	case <-served:
	case <-time.After(5 * time.Second):
	}
	mu.Lock()
	defer mu.Unlock()
	bad := -1
	for i := 1; i < len(seen); i++ {
		if seen[i] <= seen[i-1] {
			bad = i
			break
		}
	}
	if bad >= 0 {
		return fmt.Sprintf("order handled %d/%d broken at %d: %d after %d", len(seen), burst, bad, seen[bad], seen[bad-1])
	}
	return fmt.Sprintf("order handled %d/%d ascending", len(seen), burst)
}

// ---------------------------------------------------------------- DTLS

// firstWriteOnly lets the first datagram (the ClientHello) through and loses everything written afterwards: the
// server-side handshake with this peer never completes.
type firstWriteOnly struct {
	net.Conn
	writes atomic.Int32
}

func (c *firstWriteOnly) Write(b []byte) (int, error) {
	if c.writes.Add(1) == 1 {
		return c.Conn.Write(b)
	}
	return len(b), nil
}

func pskConfig() *piondtls.Config {
	return &piondtls.Config{
		PSK:             func([]byte) ([]byte, error) { return []byte{0xC1, 0x0A, 0x23}, nil },
		PSKIdentityHint: []byte("c10"),
		CipherSuites:    []piondtls.CipherSuiteID{piondtls.TLS_PSK_WITH_AES_128_CCM_8},
	}
}

func serveDTLS(seed int64, good, bad, msgs int) string {
	rng := rand.New(rand.NewSource(seed))
	// the application's admission filter refuses the peers whose addresses are listed here (pion: OnConnectionAttempt);
	// a refused peer must not cost the others anything
	var refusedMu sync.Mutex
	refused := map[string]bool{}
	srvCfg := pskConfig()
	srvCfg.OnConnectionAttempt = func(a net.Addr) error {
		refusedMu.Lock()
		defer refusedMu.Unlock()
		if refused[a.String()] {
			return errors.New("peer refused by the application")
		}
		return nil
	}
	l, err := coapNet.NewDTLSListener("udp4", "127.0.0.1:0", srvCfg)
	if err != nil {
		return "rig-error listen"
	}
	defer l.Close()
	var panics atomic.Int64
	r := mux.NewRouter()
	_ = r.Handle("/echo", mux.HandlerFunc(func(w mux.ResponseWriter, req *mux.Message) {
		body, _ := req.ReadBody()
		_ = w.SetResponse(codes.Content, message.TextPlain, bytes.NewReader(body))
	}))
	s := coapdtls.NewServer(options.WithMux(r), options.WithErrors(func(error) {}))
	served := make(chan error, 1)
	go func() {
		defer func() {
			if rec := recover(); rec != nil {
				panics.Add(1)
				served <- fmt.Errorf("panic %v", rec)
			}
		}()
		served <- s.Serve(l)
	}()
	addr := l.Addr().String()
	// adversaries: ClientHello then silence (the handshake stalls), and raw sockets sending garbage records
	stallCtx, stallCancel := context.WithCancel(context.Background())
	var bwg sync.WaitGroup
	stopBad := make(chan struct{})
	for b := 0; b < bad; b++ {
		raw, err := net.Dial("udp4", addr)
		if err != nil {
			continue
		}
		st := &firstWriteOnly{Conn: raw}
		xc, err := piondtls.Client(dtlsnet.PacketConnFromConn(st), raw.RemoteAddr(), pskConfig())
		if err != nil {
			raw.Close()
			continue
		}
		bwg.Add(1)
		go func() {
			defer bwg.Done()
			_ = xc.HandshakeContext(stallCtx) // never completes
			_ = xc.Close()
			raw.Close()
		}()
		deadline := time.Now().Add(2 * time.Second)
		for st.writes.Load() == 0 && time.Now().Before(deadline) {
			time.Sleep(5 * time.Millisecond)
		}
		g, err := net.Dial("udp4", addr)
		if err != nil {
			continue
		}
		bseed := rng.Int63()
		bwg.Add(1)
		go func() {
			defer bwg.Done()
			defer g.Close()
			brng := rand.New(rand.NewSource(bseed))
			for {
				select {
				case <-stopBad:
					return
				default:
				}
				n := 1 + brng.Intn(80)
				buf := make([]byte, n)
				brng.Read(buf)
				if brng.Intn(2) == 0 && n > 13 { // looks like a DTLS 1.2 handshake record with a wrong body
					buf[0], buf[1], buf[2] = 22, 0xfe, 0xfd
				}
				_, _ = g.Write(buf)
				time.Sleep(time.Duration(500+brng.Intn(1500)) * time.Microsecond)
			}
		}()
	}
	// one more adversary: a peer the application refuses (it sends a proper ClientHello and keeps retrying)
	if bad > 0 {
		if raw, err := net.Dial("udp4", addr); err == nil {
			refusedMu.Lock()
			refused[raw.LocalAddr().String()] = true
			refusedMu.Unlock()
			if xc, err := piondtls.Client(dtlsnet.PacketConnFromConn(raw), raw.RemoteAddr(), pskConfig()); err == nil {
				bwg.Add(1)
				go func() {
					defer bwg.Done()
					_ = xc.HandshakeContext(stallCtx)
					_ = xc.Close()
					raw.Close()
				}()
			} else {
				raw.Close()
			}
		}
	}
	time.Sleep(250 * time.Millisecond) // the stalled ClientHellos have reached the server's accept loop
	results := make([]goodResult, good)
	var gwg sync.WaitGroup
	for g := 0; g < good; g++ {
		gwg.Add(1)
		go func(g int) {
			defer gwg.Done()
			res := goodResult{order: true}
			defer func() { results[g] = res }()
			dctx, dcancel := context.WithTimeout(context.Background(), 5*time.Second)
			defer dcancel()
			cc, err := coapdtls.Dial(addr, pskConfig(), options.WithContext(dctx))
			if err != nil {
				return
			}
			defer func() {
				_ = cc.Close()
				<-cc.Done()
			}()
			for i := 0; i < msgs; i++ {
				ctx, cancel := context.WithTimeout(context.Background(), 4*time.Second)
				want := fmt.Sprintf("c%d-%d", g, i)
				resp, err := cc.Post(ctx, "/echo", message.TextPlain, strings.NewReader(want))
				cancel()
				if err != nil {
					return
				}
				body, _ := resp.ReadBody()
				if resp.Code() != codes.Content || string(body) != want {
					res.wrong++
				}
				res.got++
			}
		}(g)
	}
	gwg.Wait()
	alive := 0
	{
		dctx, dcancel := context.WithTimeout(context.Background(), 5*time.Second)
		if cc, err := coapdtls.Dial(addr, pskConfig(), options.WithContext(dctx)); err == nil {
			ctx, cancel := context.WithTimeout(context.Background(), 3*time.Second)
			if resp, err := cc.Post(ctx, "/echo", message.TextPlain, strings.NewReader("probe")); err == nil && resp.Code() == codes.Content {
				alive = 1
			}
			cancel()
			_ = cc.Close()
			<-cc.Done()
		}
		dcancel()
	}
	stillServing := 1
	select {
	case <-served:
		stillServing = 0
	default:
	}
	close(stopBad)
	stallCancel()
	bwg.Wait()
	s.Stop()
	select {
	case <-served:
	case <-time.After(5 * time.Second):
	}
	var b strings.Builder
	for g, r := range results {
		fmt.Fprintf(&b, "g%d got %d/%d wrong %d ; ", g, r.got, msgs, r.wrong)
	}
	fmt.Fprintf(&b, "alive %d serving %d panics %d", alive, stillServing, panics.Load())
	return b.String()
}

// ---------------------------------------------------------------- TLS

// selfSigned makes a throw-away certificate for 127.0.0.1.
func selfSigned() (tls.Certificate, *x509.CertPool, error) {
	key, err := ecdsa.GenerateKey(elliptic.P256(), crand.Reader)
	if err != nil {
		return tls.Certificate{}, nil, err
	}
	tmpl := &x509.Certificate{SerialNumber: big.NewInt(1), Subject: pkix.Name{CommonName: "c10"},
		NotBefore: time.Now().Add(-time.Hour), NotAfter: time.Now().Add(time.Hour),
		KeyUsage: x509.KeyUsageDigitalSignature | x509.KeyUsageCertSign, ExtKeyUsage: []x509.ExtKeyUsage{x509.ExtKeyUsageServerAuth},
		IsCA: true, BasicConstraintsValid: true, IPAddresses: []net.IP{net.IPv4(127, 0, 0, 1)}}
	der, err := x509.CreateCertificate(crand.Reader, tmpl, tmpl, &key.PublicKey, key)
	if err != nil {
		return tls.Certificate{}, nil, err
	}
	leaf, _ := x509.ParseCertificate(der)
	pool := x509.NewCertPool()
	pool.AddCert(leaf)
	return tls.Certificate{Certificate: [][]byte{der}, PrivateKey: key, Leaf: leaf}, pool, nil
}

// serveTLS: a TLS stream server; the adversaries connect on TCP and never start (or never finish) the TLS handshake, or
// send garbage instead of a ClientHello; the well-behaved clients must all be served meanwhile.
func serveTLS(seed int64, good, bad, msgs int) string {
	rng := rand.New(rand.NewSource(seed))
	cert, roots, err := selfSigned()
	if err != nil {
		return "rig-error cert"
	}
	l, err := coapNet.NewTLSListener("tcp4", "127.0.0.1:0", &tls.Config{Certificates: []tls.Certificate{cert}, MinVersion: tls.VersionTLS12})
	if err != nil {
		return "rig-error listen"
	}
	defer l.Close()
	var panics atomic.Int64
	r := mux.NewRouter()
	_ = r.Handle("/echo", mux.HandlerFunc(func(w mux.ResponseWriter, req *mux.Message) {
		body, _ := req.ReadBody()
		_ = w.SetResponse(codes.Content, message.TextPlain, bytes.NewReader(body))
	}))
	s := tcp.NewServer(options.WithMux(r), options.WithErrors(func(error) {}))
	served := make(chan error, 1)
	go func() {
		defer func() {
			if rec := recover(); rec != nil {
				panics.Add(1)
				served <- fmt.Errorf("panic %v", rec)
			}
		}()
		served <- s.Serve(l)
	}()
	addr := l.Addr().String()
	var stalled []net.Conn
	for b := 0; b < bad; b++ {
		c, err := net.Dial("tcp4", addr)
		if err != nil {
			continue
		}
		stalled = append(stalled, c)
		switch rng.Intn(3) {
		case 0: // connects and says nothing
		case 1: // the first bytes of a ClientHello record, then silence
			_, _ = c.Write([]byte{0x16, 0x03, 0x01, 0x02, 0x00, 0x01, 0x00})
		case 2: // not TLS at all
			g := make([]byte, 1+rng.Intn(40))
			rng.Read(g)
			_, _ = c.Write(g)
		}
	}
	defer func() {
		for _, c := range stalled {
			_ = c.Close()
		}
	}()
	time.Sleep(100 * time.Millisecond)
	clientCfg := &tls.Config{RootCAs: roots, ServerName: "127.0.0.1", MinVersion: tls.VersionTLS12}
	results := make([]goodResult, good)
	var gwg sync.WaitGroup
	for g := 0; g < good; g++ {
		gwg.Add(1)
		go func(g int) {
			defer gwg.Done()
			res := goodResult{order: true}
			defer func() { results[g] = res }()
			dctx, dcancel := context.WithTimeout(context.Background(), 4*time.Second)
			defer dcancel()
			cc, err := tcp.Dial(addr, options.WithTLS(clientCfg), options.WithContext(dctx))
			if err != nil {
				return
			}
			defer func() {
				_ = cc.Close()
				<-cc.Done()
			}()
			for i := 0; i < msgs; i++ {
				ctx, cancel := context.WithTimeout(context.Background(), 3*time.Second)
				want := fmt.Sprintf("c%d-%d", g, i)
				resp, err := cc.Post(ctx, "/echo", message.TextPlain, strings.NewReader(want))
				cancel()
				if err != nil {
					return
				}
				body, _ := resp.ReadBody()
				if resp.Code() != codes.Content || string(body) != want {
					res.wrong++
				}
				res.got++
			}
		}(g)
	}
	gwg.Wait()
	alive := 0
	{
		dctx, dcancel := context.WithTimeout(context.Background(), 4*time.Second)
		if cc, err := tcp.Dial(addr, options.WithTLS(clientCfg), options.WithContext(dctx)); err == nil {
			ctx, cancel := context.WithTimeout(context.Background(), 3*time.Second)
			if resp, err := cc.Post(ctx, "/echo", message.TextPlain, strings.NewReader("probe")); err == nil && resp.Code() == codes.Content {
				alive = 1
			}
			cancel()
			_ = cc.Close()
			<-cc.Done()
		}
		dcancel()
	}
	stillServing := 1
	select {
	case <-served:
		stillServing = 0
	default:
	}
	for _, c := range stalled {
		_ = c.Close()
	}
	s.Stop()
	select {
	case <-served:
	case <-time.After(5 * time.Second):
	}
	var b strings.Builder
	for g, r := range results {
		fmt.Fprintf(&b, "g%d got %d/%d wrong %d ; ", g, r.got, msgs, r.wrong)
	}
	fmt.Fprintf(&b, "alive %d serving %d panics %d", alive, stillServing, panics.Load())
	return b.String()
}

// ---------------------------------------------------------------- discovery

// discoverBW: set by `discover <n> bw`: every responder answers block-wise (two 16-byte blocks, RFC 7959): the server's
// connection for that responder fetches the second block with the discovery request found by its token, and the receiver
// must get ONE complete body.
var discoverBW bool

func discover(responders int, dup bool, failFirst ...bool) string {
	l, err := coapNet.NewListenUDP("udp4", "127.0.0.1:0")
	if err != nil {
		return "rig-error listen"
	}
	defer l.Close()
	var deflt atomic.Int64
	s := udp.NewServer(options.WithErrors(func(error) {}), options.WithHandlerFunc(func(w *responsewriter.ResponseWriter[*udpclient.Conn], r *pool.Message) {
		deflt.Add(1)
	}))
	served := make(chan error, 1)
	go func() { served <- s.Serve(l) }()
	defer func() {
		s.Stop()
		select {
		case <-served:
		case <-time.After(3 * time.Second):
		}
	}()
	srvAddr := l.LocalAddr().(*net.UDPAddr)
	// responders: raw sockets that answer the discovery request they receive; plus one stray peer
	var rwg sync.WaitGroup
	type got struct {
		remote string
		tag    string
		tok    string
	}
	var mu sync.Mutex
	var received []got
	addrs := []string{}
	for i := 0; i < responders; i++ {
		pc, err := net.ListenUDP("udp4", &net.UDPAddr{IP: net.IPv4(127, 0, 0, 1)})
		if err != nil {
			return "rig-error responder"
		}
		addrs = append(addrs, pc.LocalAddr().String())
		rwg.Add(1)
		go func(i int, pc *net.UDPConn) {
			defer rwg.Done()
			defer pc.Close()
			buf := make([]byte, 2048)
			_ = pc.SetReadDeadline(time.Now().Add(2 * time.Second))
			n, from, err := pc.ReadFromUDP(buf)
			if err != nil {
				return
			}
			if dup {
				time.Sleep(250 * time.Millisecond) // answer only after the duplicate-token discovery was refused
			}
			req := pool.NewMessage(context.Background())
			if _, err := req.UnmarshalWithDecoder(udpcoder.DefaultCoder, buf[:n]); err != nil {
				return
			}
			resp := pool.NewMessage(context.Background())
			resp.SetCode(codes.Content)
			resp.SetToken(req.Token())
			resp.SetType(message.NonConfirmable)
			resp.SetMessageID(int32(7000 + i))
			resp.SetContentFormat(message.TextPlain)
			body := fmt.Sprintf("r%d", i)
			if discoverBW {
				body += strings.Repeat(".", 24-len(body))
				resp.SetOptionUint32(message.Block2, 0<<4|8|0) // block 0, more, 16 bytes
				resp.SetBody(strings.NewReader(body[:16]))
			} else {
				resp.SetBody(strings.NewReader(body))
			}
			b, _ := resp.MarshalWithEncoder(udpcoder.DefaultCoder)
			_, _ = pc.WriteToUDP(b, from)
			if discoverBW {
				defer func() {
					// the request for the second block
					for k := 0; k < 4; k++ {
						_ = pc.SetReadDeadline(time.Now().Add(time.Second))
						n, from, err := pc.ReadFromUDP(buf)
						if err != nil {
							return
						}
						q := pool.NewMessage(context.Background())
						if _, err := q.UnmarshalWithDecoder(udpcoder.DefaultCoder, buf[:n]); err != nil {
							continue
						}
						blk, err := q.GetOptionUint32(message.Block2)
						if err != nil || blk>>4 != 1 {
							continue
						}
						if path, _ := q.Path(); path != "/oic/res" || q.Code() != codes.GET || !bytes.Equal(q.Token(), req.Token()) {
							continue // not a continuation of the discovery request this responder answered
						}
						r2 := pool.NewMessage(context.Background())
						r2.SetCode(codes.Content)
						r2.SetToken(q.Token())
						r2.SetContentFormat(message.TextPlain)
						r2.SetOptionUint32(message.Block2, 1<<4|0)
						r2.SetBody(strings.NewReader(body[16:]))
						if q.Type() == message.Confirmable {
							r2.SetType(message.Acknowledgement)
							r2.SetMessageID(q.MessageID())
						} else {
							r2.SetType(message.NonConfirmable)
							r2.SetMessageID(int32(7200 + i))
						}
						b2, _ := r2.MarshalWithEncoder(udpcoder.DefaultCoder)
						_, _ = pc.WriteToUDP(b2, from)
						return
					}
				}()
			}
			// and a stray response with a foreign token from the same responder
			resp.SetToken(message.Token{0xAB, byte(i)})
			resp.Remove(message.Block2) // the stray is a plain single-datagram response
			resp.SetMessageID(int32(7100 + i))
			b, _ = resp.MarshalWithEncoder(udpcoder.DefaultCoder)
			_, _ = pc.WriteToUDP(b, from)
		}(i, pc)
	}
	_ = srvAddr
	token := message.Token{0xD1, 0x5C, 0x0F}
	failed := 0
	if len(failFirst) > 0 && failFirst[0] {
		// every token is first used by a discovery whose SEND fails (context already over): that call must leave nothing
		// behind, the token must be free for the real discovery below and its responses must reach the real receiver.
		// The server must be serving by then: since repair F38 a discovery issued BEFORE Serve returns with its context's
		// error without registering anything, and the send would not be reached.
		{
			wctx, wcancel := context.WithTimeout(context.Background(), 2*time.Second)
			warm := pool.NewMessage(wctx)
			_ = warm.SetupGet("/oic/res", message.Token{0xD1, 0x5C, 0x0E})
			warm.SetMessageID(2899)
			warm.SetType(message.NonConfirmable)
			wdone := make(chan struct{})
			go func() {
				defer close(wdone)
				_ = s.DiscoveryRequest(warm, "127.0.0.1:9", func(*udpclient.Conn, *pool.Message) {})
			}()
			time.Sleep(50 * time.Millisecond)
			wcancel()
			<-wdone
		}
		for i, a := range addrs {
			ctx, cancel := context.WithCancel(context.Background())
			cancel()
			req := pool.NewMessage(ctx)
			_ = req.SetupGet("/oic/res", append(append(message.Token(nil), token...), byte(i)))
			req.SetMessageID(int32(2900 + i))
			req.SetType(message.NonConfirmable)
			err := s.DiscoveryRequest(req, a, func(cc *udpclient.Conn, resp *pool.Message) {
				mu.Lock()
				received = append(received, got{cc.RemoteAddr().String(), "to-failed-call", ""})
				mu.Unlock()
			})
			if err != nil {
				failed++
			}
		}
	}
	var dwg sync.WaitGroup
	for i, a := range addrs {
		a := a
		i := i
		dwg.Add(1)
		go func() {
			defer dwg.Done()
			ctx, cancel := context.WithTimeout(context.Background(), 700*time.Millisecond)
			defer cancel()
			req := pool.NewMessage(ctx)
			_ = req.SetupGet("/oic/res", append(message.Token(nil), token...))
			req.SetMessageID(int32(3000))
			req.SetType(message.NonConfirmable)
			// every responder gets its own discovery with its own token (tokens must be unique among running discoveries)
			req.SetToken(append(append(message.Token(nil), token...), byte(i)))
			_ = s.DiscoveryRequest(req, a, func(cc *udpclient.Conn, resp *pool.Message) {
				body, _ := resp.ReadBody()
				mu.Lock()
				received = append(received, got{cc.RemoteAddr().String(), string(body), fmt.Sprintf("%x", []byte(resp.Token()))})
				mu.Unlock()
			})
		}()
	}
	refused, dupGot := 0, 0
	if dup {
		time.Sleep(80 * time.Millisecond) // the discoveries above are registered and waiting
		for i, a := range addrs {
			ctx, cancel := context.WithTimeout(context.Background(), 50*time.Millisecond)
			req := pool.NewMessage(ctx)
			_ = req.SetupGet("/oic/res", append(append(message.Token(nil), token...), byte(i)))
			req.SetMessageID(int32(3500 + i))
			req.SetType(message.NonConfirmable)
			err := s.DiscoveryRequest(req, a, func(cc *udpclient.Conn, resp *pool.Message) {
				mu.Lock()
				dupGot++
				mu.Unlock()
			})
			cancel()
			if errors.Is(err, pkgErrors.ErrKeyAlreadyExists) {
				refused++
			}
		}
	}
	dwg.Wait()
	rwg.Wait()
	mu.Lock()
	defer mu.Unlock()
	okc, badc := 0, 0
	for _, g := range received {
		idx := -1
		for i, a := range addrs {
			if a == g.remote {
				idx = i
			}
		}
		if idx >= 0 && strings.TrimRight(g.tag, ".") == fmt.Sprintf("r%d", idx) && (!discoverBW || len(g.tag) == 24) && strings.HasPrefix(g.tok, "d15c0f") {
			okc++
		} else {
			badc++
		}
	}
	if dup {
		return fmt.Sprintf("receiver ok %d/%d bad %d default %d refused %d/%d dupgot %d", okc, responders, badc, deflt.Load(), refused, responders, dupGot)
	}
	if len(failFirst) > 0 && failFirst[0] {
		return fmt.Sprintf("receiver ok %d/%d bad %d default %d failedsend %d/%d", okc, responders, badc, deflt.Load(), failed, responders)
	}
	return fmt.Sprintf("receiver ok %d/%d bad %d default %d", okc, responders, badc, deflt.Load())
}

func TestC10(t *testing.T) {
	err := lp.FileLoop(func(f []string, w *bufio.Writer) {
		defer func() {
			if r := recover(); r != nil {
				fmt.Fprintf(w, "panic %v\n", r)
			}
		}()
		switch {
		case len(f) == 7 && f[0] == "keyeq":
			a := udpserver.VerifConnKey(mkRemote(f[1]), mkLocal(f[2], f[3]))
			b := udpserver.VerifConnKey(mkRemote(f[4]), mkLocal(f[5], f[6]))
			if a == b {
				fmt.Fprintln(w, "1")
			} else {
				fmt.Fprintln(w, "0")
			}
		case len(f) == 6 && f[0] == "serve":
			seed, _ := strconv.ParseInt(f[2], 10, 64)
			good, _ := strconv.Atoi(f[3])
			bad, _ := strconv.Atoi(f[4])
			msgs, _ := strconv.Atoi(f[5])
			if f[1] == "udpwild" {
				fmt.Fprintln(w, serveUDPWild(good)) // serve udpwild <seed> <slowMs> <unused> <unused>
			} else if f[1] == "muxlive" {
				fmt.Fprintln(w, serveMuxLive()) // serve muxlive 0 0 0 0
			} else if f[1] == "tcpmonitor" {
				fmt.Fprintln(w, serveTCPMonitor()) // serve tcpmonitor 0 0 0 0
			} else if f[1] == "udpgiveup" {
				fmt.Fprintln(w, serveUDPGiveUp()) // serve udpgiveup 0 0 0 0
			} else if f[1] == "udporder" {
				fmt.Fprintln(w, serveUDPOrder(good, bad)) // serve udporder <seed> <slowMs> <burst> <unused>
			} else if f[1] == "udpbacklog" {
				fmt.Fprintln(w, serveUDPBacklog(good, bad)) // serve udpbacklog <seed> <slowMs> <burst> <unused>
			} else if f[1] == "udp" {
				fmt.Fprintln(w, serveUDP(seed, good, bad, msgs))
			} else if f[1] == "tls" {
				fmt.Fprintln(w, serveTLS(seed, good, bad, msgs))
			} else if f[1] == "dtls" {
				fmt.Fprintln(w, serveDTLS(seed, good, bad, msgs))
			} else {
				fmt.Fprintln(w, serveTCP(seed, good, bad, msgs))
			}
		case len(f) == 3 && f[0] == "tablerace":
			rounds, _ := strconv.Atoi(f[1])
			k, _ := strconv.Atoi(f[2])
			fmt.Fprintln(w, peerTableRace(rounds, k))
		case len(f) >= 3 && f[0] == "streams":
			fmt.Fprintln(w, streams(f[1], f[2:]))
		case len(f) >= 2 && f[0] == "hk":
			fmt.Fprintln(w, housekeeping(f[1:]))
		case len(f) >= 2 && f[0] == "table":
			fmt.Fprintln(w, peerTable(f[1:]))
		case len(f) >= 3 && f[0] == "discover" && f[1] == "tok":
			fmt.Fprintln(w, discoverTokens(f[2:])) // discover tok <D>:<S> ... (discover_tokens_test.go)
		case len(f) == 3 && f[0] == "discover" && f[2] == "failsend":
			n, _ := strconv.Atoi(f[1])
			fmt.Fprintln(w, discover(n, false, true))
		case len(f) == 3 && f[0] == "discover" && f[2] == "bw":
			n, _ := strconv.Atoi(f[1])
			discoverBW = true
			fmt.Fprintln(w, discover(n, false))
			discoverBW = false
		case (len(f) == 2 || len(f) == 3 && f[2] == "dup") && f[0] == "discover":
			n, _ := strconv.Atoi(f[1])
			fmt.Fprintln(w, discover(n, len(f) == 3))
		default:
			fmt.Fprintln(w, "bad-op")
		}
	})
	if err != nil {
		t.Fatal(err)
	}
}
