// C10, eleventh seeded round: discovery receivers and the TOKENS of everything else that reaches the server while a
// discovery is open.  Line:
//
//	discover tok <D1>:<S1> <D2>:<S2> ...     tokens in hex, `-` = the empty token
//
// For every pair k: one responder (raw socket), one discovery with the application-chosen token D_k (DiscoveryRequest)
// towards it, and one well-behaved client (raw socket).  While all discoveries are open
//   - responder k answers its discovery (token D_k, body r<k>) and sends a stray response that carries the DIFFERENT token S_k,
//   - client k sends a non-confirmable GET with token S_k to the server and waits for the answer of the server's handler.
// D_k and S_k are different tokens that are related (S_k is D_k without its leading zero bytes, with a zero byte appended,
// a prefix, the empty token, ...): "responses to a discovery request are delivered only to the receiver registered for
// their token", whatever table key the server derives from a token.
//
//	-> receiver ok <a>/<n> bad <b> default <d> clients <c>/<n> keys <1|0>[ first <got-token>><receiver's-token>]
//
// a: receivers that got exactly their responder's answer (its connection, its body, token == D_k); b: anything else handed to
// a receiver; d: messages the server's own handler saw (expected 2n: n strays, n requests); c: clients answered by the
// server's handler; keys: are message.Token.Hash() of all 2n tokens of the line pairwise different (the hypothesis of
// Props/C10Tokens keyed_agrees, evaluated by the real function on the tokens of this line).
package c10

import (
	"bytes"
	"context"
	"encoding/hex"
	"fmt"
	"net"
	"strings"
	"sync"
	"sync/atomic"
	"time"

	"github.com/plgd-dev/go-coap/v3/message"
	"github.com/plgd-dev/go-coap/v3/message/codes"
	"github.com/plgd-dev/go-coap/v3/message/pool"
	coapNet "github.com/plgd-dev/go-coap/v3/net"
	"github.com/plgd-dev/go-coap/v3/net/responsewriter"
	"github.com/plgd-dev/go-coap/v3/options"
	"github.com/plgd-dev/go-coap/v3/udp"
	udpclient "github.com/plgd-dev/go-coap/v3/udp/client"
	udpcoder "github.com/plgd-dev/go-coap/v3/udp/coder"
)

func parseTok(s string) (message.Token, bool) {
	if s == "-" {
		return message.Token{}, true
	}
	b, err := hex.DecodeString(s)
	if err != nil || len(b) > 8 {
		return nil, false
	}
	return message.Token(b), true
}

func tokStr(t []byte) string {
	if len(t) == 0 {
		return "-"
	}
	return hex.EncodeToString(t)
}

func discoverTokens(pairs []string) string {
	type pair struct{ d, s message.Token }
	var ps []pair
	for _, p := range pairs {
		f := strings.Split(p, ":")
		if len(f) != 2 {
			return "bad-op"
		}
		d, ok1 := parseTok(f[0])
		s, ok2 := parseTok(f[1])
		if !ok1 || !ok2 || len(d) == 0 || bytes.Equal(d, s) {
			return "bad-op"
		}
		ps = append(ps, pair{d, s})
	}
	n := len(ps)
	// the table key of every token of the line, by the real function
	keysDistinct := 1
	seen := map[uint64]string{}
	for _, p := range ps {
		for _, t := range []message.Token{p.d, p.s} {
			h := t.Hash()
			if o, ok := seen[h]; ok && o != tokStr(t) {
				keysDistinct = 0
			}
			seen[h] = tokStr(t)
		}
	}
	l, err := coapNet.NewListenUDP("udp4", "127.0.0.1:0")
	if err != nil {
		return "rig-error listen"
	}
	defer l.Close()
	var deflt atomic.Int64
	s := udp.NewServer(options.WithErrors(func(error) {}), options.WithHandlerFunc(func(w *responsewriter.ResponseWriter[*udpclient.Conn], r *pool.Message) {
		deflt.Add(1)
		if r.Code() == codes.GET {
			_ = w.SetResponse(codes.Content, message.TextPlain, bytes.NewReader([]byte("dflt")))
		}
	}))
	served := make(chan error, 1)
	go func() { served <- s.Serve(l) }()
	defer func() {
		s.Stop()
		select {
		case <-served:
		case <-time.After(3 * time.Second):
		}
	}()
	srvAddr := l.LocalAddr().(*net.UDPAddr)
	type got struct {
		k      int // the receiver (discovery) that was called
		remote string
		body   string
		tok    []byte
	}
	var mu sync.Mutex
	var received []got
	var rwg, dwg, cwg sync.WaitGroup
	addrs := make([]string, n)
	for k := 0; k < n; k++ {
		pc, err := net.ListenUDP("udp4", &net.UDPAddr{IP: net.IPv4(127, 0, 0, 1)})
		if err != nil {
			return "rig-error responder"
		}
		addrs[k] = pc.LocalAddr().String()
		rwg.Add(1)
		go func(k int, pc *net.UDPConn) {
			defer rwg.Done()
			defer pc.Close()
			buf := make([]byte, 2048)
			_ = pc.SetReadDeadline(time.Now().Add(2 * time.Second))
			nb, from, err := pc.ReadFromUDP(buf)
			if err != nil {
				return
			}
			req := pool.NewMessage(context.Background())
			if _, err := req.UnmarshalWithDecoder(udpcoder.DefaultCoder, buf[:nb]); err != nil {
				return
			}
			time.Sleep(100 * time.Millisecond) // all discoveries of the line are registered and waiting
			resp := pool.NewMessage(context.Background())
			resp.SetCode(codes.Content)
			resp.SetToken(req.Token())
			resp.SetType(message.NonConfirmable)
			resp.SetMessageID(int32(7000 + k))
			resp.SetContentFormat(message.TextPlain)
			resp.SetBody(strings.NewReader(fmt.Sprintf("r%d", k)))
			b, _ := resp.MarshalWithEncoder(udpcoder.DefaultCoder)
			_, _ = pc.WriteToUDP(b, from)
			// the stray: same responder, the related but different token
			resp.SetToken(ps[k].s)
			resp.SetMessageID(int32(7100 + k))
			resp.SetBody(strings.NewReader(fmt.Sprintf("stray%d", k)))
			b, _ = resp.MarshalWithEncoder(udpcoder.DefaultCoder)
			_, _ = pc.WriteToUDP(b, from)
		}(k, pc)
	}
	for k := 0; k < n; k++ {
		k := k
		dwg.Add(1)
		go func() {
			defer dwg.Done()
			ctx, cancel := context.WithTimeout(context.Background(), 700*time.Millisecond)
			defer cancel()
			req := pool.NewMessage(ctx)
			_ = req.SetupGet("/oic/res", append(message.Token(nil), ps[k].d...))
			req.SetMessageID(int32(3000 + k))
			req.SetType(message.NonConfirmable)
			_ = s.DiscoveryRequest(req, addrs[k], func(cc *udpclient.Conn, resp *pool.Message) {
				body, _ := resp.ReadBody()
				mu.Lock()
				received = append(received, got{k, cc.RemoteAddr().String(), string(body), append([]byte(nil), resp.Token()...)})
				mu.Unlock()
			})
		}()
	}
	// the well-behaved clients: a request with token S_k while the discoveries are open
	var answered atomic.Int64
	for k := 0; k < n; k++ {
		cwg.Add(1)
		go func(k int) {
			defer cwg.Done()
			time.Sleep(200 * time.Millisecond)
			c, err := net.DialUDP("udp4", nil, srvAddr)
			if err != nil {
				return
			}
			defer c.Close()
			m := pool.NewMessage(context.Background())
			m.SetCode(codes.GET)
			m.SetToken(ps[k].s)
			_ = m.SetPath("/x")
			m.SetType(message.NonConfirmable)
			m.SetMessageID(int32(5000 + k))
			b, _ := m.MarshalWithEncoder(udpcoder.DefaultCoder)
			buf := make([]byte, 2048)
			for try := 0; try < 2; try++ { // a non-confirmable request may be repeated by its sender
				if _, err := c.Write(b); err != nil {
					return
				}
				_ = c.SetReadDeadline(time.Now().Add(150 * time.Millisecond))
				nb, err := c.Read(buf)
				if err != nil {
					continue
				}
				r := pool.NewMessage(context.Background())
				if _, err := r.UnmarshalWithDecoder(udpcoder.DefaultCoder, buf[:nb]); err != nil {
					continue
				}
				body, _ := r.ReadBody()
				if r.Code() == codes.Content && bytes.Equal(r.Token(), ps[k].s) && string(body) == "dflt" {
					answered.Add(1)
					return
				}
			}
		}(k)
	}
	dwg.Wait()
	rwg.Wait()
	cwg.Wait()
	mu.Lock()
	defer mu.Unlock()
	okc, badc := 0, 0
	first := ""
	for _, g := range received {
		if g.remote == addrs[g.k] && g.body == fmt.Sprintf("r%d", g.k) && bytes.Equal(g.tok, ps[g.k].d) {
			okc++
			continue
		}
		badc++
		if first == "" {
			first = " first " + tokStr(g.tok) + ">" + tokStr(ps[g.k].d)
		}
	}
	d := deflt.Load()
	if d > int64(2*n) && answered.Load() == int64(n) {
		d = int64(2 * n) // a client repeated its request because the answer was slow: the handler saw it twice
	}
	return fmt.Sprintf("receiver ok %d/%d bad %d default %d clients %d/%d keys %d%s", okc, n, badc, d, answered.Load(), n, keysDistinct, first)
}
