// C10, tenth seeded round: histories on a real datagram server whose housekeeping pass is driven by the harness
// (options.WithPeriodicRunner), so that the pass can MEET the other two ways a closed peer connection is cleaned up: the
// peer's next datagram (getConn) and Stop (closeSessions).  A closed connection stays in the peer table until one of the
// three shuts it down; the pass works on a snapshot of the table.  Line:
//
//	hk <ev>...     w<i>      well-formed request of peer i (must be answered)
//	               m<i>      undecodable datagram of peer i (the server closes that peer's connection)
//	               c<i>      the application closes the server's connection to peer i
//	               p         one housekeeping pass
//	               p:<ev>    one housekeeping pass; while it shuts the first closed connection down (inside that connection's
//	                         OnClose callback, i.e. after the pass took its snapshot) event <ev> (w<i>, m<i>, c<i> or s) happens;
//	                         peer `o` = another peer whose connection is closed and not yet shut down (none: ok(none))
//	               s         Server.Stop(); must end Serve
//	-> hk <ev>=<result> ...  w 1|0, m/c -, p ok | ok(<inner result>) | ok(unfired) | panic:<value>, s 1|0|panic:<value>
package c10

import (
	"bytes"
	"fmt"
	"net"
	"strconv"
	"strings"
	"sync"
	"sync/atomic"
	"time"

	"github.com/plgd-dev/go-coap/v3/message"
	"github.com/plgd-dev/go-coap/v3/message/codes"
	"github.com/plgd-dev/go-coap/v3/message/pool"
	coapNet "github.com/plgd-dev/go-coap/v3/net"
	"github.com/plgd-dev/go-coap/v3/net/responsewriter"
	"github.com/plgd-dev/go-coap/v3/options"
	"github.com/plgd-dev/go-coap/v3/udp"
	udpclient "github.com/plgd-dev/go-coap/v3/udp/client"
)

func housekeeping(evs []string) string {
	l, err := coapNet.NewListenUDP("udp4", "127.0.0.1:0")
	if err != nil {
		return "rig-error listen"
	}
	defer l.Close()
	passCh := make(chan func(time.Time) bool, 1)
	var mu sync.Mutex
	latest := map[string]*udpclient.Conn{} // remote address -> the newest connection the server made for it
	var armed func(cc *udpclient.Conn)
	var fired atomic.Bool
	s := udp.NewServer(
		options.WithErrors(func(error) {}),
		options.WithMessagePool(pool.New(64, 2048)),
		options.WithPeriodicRunner(func(f func(now time.Time) bool) { passCh <- f }),
		options.WithOnNewConn(func(cc *udpclient.Conn) {
			cc.AddOnClose(func() {
				mu.Lock()
				f := armed
				mu.Unlock()
				if f != nil && fired.CompareAndSwap(false, true) {
					f(cc)
				}
			})
			mu.Lock()
			latest[cc.RemoteAddr().String()] = cc
			mu.Unlock()
		}),
		options.WithHandlerFunc(func(w *responsewriter.ResponseWriter[*udpclient.Conn], _ *pool.Message) {
			_ = w.SetResponse(codes.Content, message.TextPlain, bytes.NewReader([]byte("ok")))
		}),
	)
	served := make(chan any, 1)
	go func() {
		defer func() { served <- recover() }()
		_ = s.Serve(l)
	}()
	var pass func(time.Time) bool
	select {
	case pass = <-passCh:
	case <-time.After(time.Second):
		s.Stop()
		return "rig-error the server did not register its housekeeping"
	}
	srvAddr, _ := l.LocalAddr().(*net.UDPAddr)
	peers := map[int]*net.UDPConn{}
	defer func() {
		for _, p := range peers {
			_ = p.Close()
		}
	}()
	peer := func(i int) *net.UDPConn {
		if p := peers[i]; p != nil {
			return p
		}
		p, errD := net.DialUDP("udp4", nil, srvAddr)
		if errD != nil {
			return nil
		}
		peers[i] = p
		return p
	}
	cur := func(p *net.UDPConn) *udpclient.Conn {
		mu.Lock()
		defer mu.Unlock()
		return latest[p.LocalAddr().String()]
	}
	stopped := false
	serveEnded := false
	seq := 0
	var do func(ev string, inner bool) string
	do = func(ev string, inner bool) string {
		if ev == "s" {
			stopped = true
			s.Stop()
			if inner {
				return "-"
			}
			select {
			case p := <-served:
				serveEnded = true
				if p != nil {
					return fmt.Sprintf("panic:%v", p)
				}
				return "1"
			case <-time.After(1500 * time.Millisecond):
				return "0"
			}
		}
		if ev == "p" || strings.HasPrefix(ev, "p:") {
			if inner {
				return "bad-op"
			}
			innerRes := "unfired"
			if len(ev) > 2 {
				fired.Store(false)
				mu.Lock()
				armed = func(cc *udpclient.Conn) {
					in := ev[2:]
					if strings.HasSuffix(in, "o") {
						// `o`: another peer than the one whose connection is being shut down, whose connection is closed too
						// (it is in the snapshot of the running pass)
						in = ""
						for i := 1; i <= 9 && in == ""; i++ {
							if p := peers[i]; p != nil {
								if c := cur(p); c != nil && c != cc && c.Context().Err() != nil {
									in = ev[2:len(ev)-1] + strconv.Itoa(i)
								}
							}
						}
						if in == "" {
							innerRes = "none"
							return
						}
					}
					innerRes = do(in, true)
				}
				mu.Unlock()
			}
			out := ""
			func() {
				defer func() {
					if r := recover(); r != nil {
						out = fmt.Sprintf("panic:%v", r)
					}
				}()
				pass(time.Now())
			}()
			mu.Lock()
			armed = nil
			mu.Unlock()
			if out != "" {
				return out
			}
			if len(ev) > 2 {
				return "ok(" + innerRes + ")"
			}
			return "ok"
		}
		if len(ev) < 2 {
			return "bad-op"
		}
		i, errA := strconv.Atoi(ev[1:])
		if errA != nil {
			return "bad-op"
		}
		p := peer(i)
		if p == nil {
			return "rig-error dial"
		}
		switch ev[0] {
		case 'w':
			if stopped {
				return "-"
			}
			buf := make([]byte, 1500)
			for try := 0; try < 2; try++ {
				seq++
				tok := byte(seq)
				if _, errW := p.Write([]byte{0x51, 0x01, byte(seq >> 8), byte(seq), tok, 0xb1, 'a'}); errW != nil {
					return "0"
				}
				deadline := time.Now().Add(500 * time.Millisecond)
				for {
					_ = p.SetReadDeadline(deadline)
					n, errR := p.Read(buf)
					if errR != nil {
						break
					}
					if n >= 5 && buf[0]&0xcf == 0x41 && buf[1] == byte(codes.Content) && buf[4] == tok {
						return "1"
					}
				}
			}
			return "0"
		case 'm':
			before := cur(p)
			beforeClosed := before != nil && before.Context().Err() != nil
			if _, errW := p.Write([]byte{0xff}); errW != nil {
				return "rig-error write"
			}
			// the datagram reaches the peer's live connection (which is closed for it), or a new connection is made for it
			// (and closed) when the peer had none or a closed one
			deadline := time.Now().Add(time.Second)
			for time.Now().Before(deadline) {
				now := cur(p)
				if now != nil && now.Context().Err() != nil && ((before != nil && !beforeClosed && now == before) || now != before) {
					break
				}
				time.Sleep(time.Millisecond)
			}
			return "-"
		case 'c':
			if cc := cur(p); cc != nil {
				_ = cc.Close()
			}
			return "-"
		}
		return "bad-op"
	}
	var res []string
	for _, ev := range evs {
		if stopped {
			res = append(res, ev+"=-")
			continue
		}
		res = append(res, ev+"="+strings.ReplaceAll(do(ev, false), " ", "_"))
	}
	if !serveEnded {
		res = append(res, "end="+strings.ReplaceAll(do("s", false), " ", "_"))
	}
	return "hk " + strings.Join(res, " ")
}
