// C10, tenth seeded round: histories of CONNECTIONS on a real stream / DTLS server (tcp/server, dtls/server) behind an
// in-memory listener that hands the server accepted connections with any (remote, local) address pair - in particular two
// simultaneously open connections with equal remote and different local addresses (a wildcard / multi-homed listener reached
// from one source ip:port over two of its addresses).  Line:
//
//	streams <tcp|dtls> <ev>...      o<c>.<r>.<l>  a connection c from remote r to local address l is accepted; one exchange
//	                                q<c>          one request on connection c (answer must name c's own address pair)
//	                                x<c>          the peer closes connection c
//	                                h             one housekeeping pass (options.WithPeriodicRunner hands it to the harness)
//	                                s             Server.Stop(); must end Serve
//	                                f             the listener's Accept fails ONCE with a transient error (EMFILE / ECONNABORTED:
//	                                              the listener is not closed, the server's context is alive)
//	                                f*<n>         a series of n such failures, one Accept call after the other
//	                                              result 1 = after every failure the server called Accept again within 2 s,
//	                                              0:<k>:<ms> = after the k-th failed Accept of this server's LIFE it did not (no peer
//	                                              can be accepted meanwhile); ms = how long the harness waited
//	-> streams <ev>=<result>/<live connections> ...   result: o,q 1|0 (served), x -, h the connections the pass visited,
//	                                                  s 1|0 (Serve returned)
package c10

import (
	"bytes"
	"context"
	"fmt"
	"net"
	"os"
	"sort"
	"strconv"
	"strings"
	"sync"
	"sync/atomic"
	"syscall"
	"time"

	coapdtls "github.com/plgd-dev/go-coap/v3/dtls"
	dtlsserver "github.com/plgd-dev/go-coap/v3/dtls/server"
	"github.com/plgd-dev/go-coap/v3/message"
	"github.com/plgd-dev/go-coap/v3/message/codes"
	"github.com/plgd-dev/go-coap/v3/message/pool"
	"github.com/plgd-dev/go-coap/v3/mux"
	coapNet "github.com/plgd-dev/go-coap/v3/net"
	"github.com/plgd-dev/go-coap/v3/options"
	"github.com/plgd-dev/go-coap/v3/tcp"
	tcpclient "github.com/plgd-dev/go-coap/v3/tcp/client"
	tcpcoder "github.com/plgd-dev/go-coap/v3/tcp/coder"
	tcpserver "github.com/plgd-dev/go-coap/v3/tcp/server"
	udpclient "github.com/plgd-dev/go-coap/v3/udp/client"
	udpcoder "github.com/plgd-dev/go-coap/v3/udp/coder"
	"verifharness/internal/mem"
)

// failListener: the in-memory listener of the stream histories (connections pushed with Push are accepted in order) whose
// Accept can be made to fail transiently.  calls counts the Accept calls of the server.
type failListener struct {
	ch     chan net.Conn
	fail   chan failReq
	closed chan struct{}
	once   sync.Once
	calls  atomic.Int64
}

// failReq: one injected failure; the listener answers on at with the number of the Accept call that returns it
type failReq struct {
	err error
	at  chan int64
}

func newFailListener() *failListener {
	return &failListener{ch: make(chan net.Conn, 16), fail: make(chan failReq), closed: make(chan struct{})}
}

func (l *failListener) Push(c net.Conn) { l.ch <- c }

func (l *failListener) AcceptWithContext(ctx context.Context) (net.Conn, error) {
	l.calls.Add(1)
	select {
	case c := <-l.ch:
		return c, nil
	case r := <-l.fail:
		r.at <- l.calls.Load() // (Accept is called by the server's one accept loop only)
		return nil, r.err
	case <-ctx.Done():
		return nil, ctx.Err()
	case <-l.closed:
		return nil, coapNet.ErrListenerIsClosed
	}
}

func (l *failListener) Close() error {
	l.once.Do(func() { close(l.closed) })
	return nil
}

// transient Accept errors as the operating system reports them (net.OpError around an errno)
var acceptErrs = []error{
	&net.OpError{Op: "accept", Net: "tcp", Err: os.NewSyscallError("accept4", syscall.EMFILE)},
	&net.OpError{Op: "accept", Net: "tcp", Err: os.NewSyscallError("accept4", syscall.ECONNABORTED)},
	&net.OpError{Op: "accept", Net: "tcp", Err: os.NewSyscallError("accept4", syscall.ENFILE)},
}

type sAddr string

func (a sAddr) Network() string { return "mem" }
func (a sAddr) String() string  { return string(a) }

// chunkReader collects what the server writes to the peer's end of the pipe
type chunkReader struct {
	mu     sync.Mutex
	chunks [][]byte // datagram transports: one write = one message
	buf    []byte   // stream transport
	eof    bool
}

func (r *chunkReader) run(c net.Conn) {
	b := make([]byte, 65536)
	for {
		n, err := c.Read(b)
		r.mu.Lock()
		if n > 0 {
			r.chunks = append(r.chunks, append([]byte(nil), b[:n]...))
			r.buf = append(r.buf, b[:n]...)
		}
		if err != nil {
			r.eof = true
			r.mu.Unlock()
			return
		}
		r.mu.Unlock()
	}
}

// take returns the messages received so far (decoded), consuming them
func (r *chunkReader) take(stream bool) []*pool.Message {
	r.mu.Lock()
	defer r.mu.Unlock()
	var out []*pool.Message
	if stream {
		for len(r.buf) > 0 {
			var h tcpcoder.MessageHeader
			if _, err := tcpcoder.DefaultCoder.DecodeHeader(r.buf, &h); err != nil || uint32(len(r.buf)) < h.MessageLength {
				break
			}
			m := pool.NewMessage(context.Background())
			if _, err := m.UnmarshalWithDecoder(tcpcoder.DefaultCoder, append([]byte(nil), r.buf[:h.MessageLength]...)); err == nil {
				out = append(out, m)
			}
			r.buf = r.buf[h.MessageLength:]
		}
		r.chunks = nil
		return out
	}
	for _, c := range r.chunks {
		m := pool.NewMessage(context.Background())
		if _, err := m.UnmarshalWithDecoder(udpcoder.DefaultCoder, c); err == nil {
			out = append(out, m)
		}
	}
	r.chunks = nil
	r.buf = nil
	return out
}

func (r *chunkReader) isEOF() bool { r.mu.Lock(); defer r.mu.Unlock(); return r.eof }

type srvConn interface {
	Context() context.Context
	Done() <-chan struct{}
}

type streamConn struct {
	id         int
	pair       string
	end        net.Conn
	rd         *chunkReader
	cc         srvConn
	peerClosed bool
	seq        int
}

// visit-recording inactivity monitors (the housekeeping pass of a stream / DTLS server calls CheckInactivity of every
// connection it finds in its registry)
type visitMonTCP struct{ rec func(cc any) }

func (m visitMonTCP) Notify()                                         {}
func (m visitMonTCP) CheckInactivity(_ time.Time, cc *tcpclient.Conn) { m.rec(cc) }

type visitMonUDP struct{ rec func(cc any) }

func (m visitMonUDP) Notify()                                         {}
func (m visitMonUDP) CheckInactivity(_ time.Time, cc *udpclient.Conn) { m.rec(cc) }

type visitMonOpt struct{ rec func(cc any) }

func (o visitMonOpt) TCPServerApply(cfg *tcpserver.Config) {
	cfg.CreateInactivityMonitor = func() tcpclient.InactivityMonitor { return visitMonTCP{o.rec} }
}

func (o visitMonOpt) DTLSServerApply(cfg *dtlsserver.Config) {
	cfg.CreateInactivityMonitor = func() udpclient.InactivityMonitor { return visitMonUDP{o.rec} }
}

func streams(transport string, evs []string) (out string) {
	stream := transport == "tcp"
	r := mux.NewRouter()
	_ = r.Handle("/who", mux.HandlerFunc(func(w mux.ResponseWriter, _ *mux.Message) {
		p := w.Conn().RemoteAddr().String() + ">" + w.Conn().NetConn().LocalAddr().String()
		_ = w.SetResponse(codes.Content, message.TextPlain, bytes.NewReader([]byte(p)))
	}))
	var mu sync.Mutex
	var visited []any
	rec := func(cc any) { mu.Lock(); visited = append(visited, cc); mu.Unlock() }
	passCh := make(chan func(time.Time) bool, 1)
	newConn := make(chan srvConn, 16)
	runner := options.WithPeriodicRunner(func(f func(now time.Time) bool) { passCh <- f })
	l := newFailListener()
	failures := 0 // failed Accepts of this server's life
	served := make(chan any, 1)
	var stop func()
	if stream {
		s := tcp.NewServer(options.WithMux(r), options.WithErrors(func(error) {}), options.WithMessagePool(pool.New(64, 2048)), runner,
			visitMonOpt{rec}, options.WithOnNewConn(func(cc *tcpclient.Conn) { newConn <- cc }))
		go func() {
			defer func() { served <- recover() }()
			_ = s.Serve(l)
		}()
		stop = s.Stop
	} else {
		s := coapdtls.NewServer(options.WithMux(r), options.WithErrors(func(error) {}), options.WithMessagePool(pool.New(64, 2048)), runner,
			visitMonOpt{rec}, options.WithOnNewConn(func(cc *udpclient.Conn) { newConn <- cc }))
		go func() {
			defer func() { served <- recover() }()
			_ = s.Serve(l)
		}()
		stop = s.Stop
	}
	var pass func(time.Time) bool
	select {
	case pass = <-passCh:
	case <-time.After(time.Second):
		stop()
		return "rig-error the server did not register its housekeeping"
	}
	conns := map[int]*streamConn{}
	var order []int
	stopped := false
	stalled := false
	serveEnded := false
	defer func() {
		if !stopped {
			stop()
		}
		for _, c := range conns {
			_ = c.end.Close()
		}
		if !serveEnded {
			select {
			case <-served:
			case <-time.After(2 * time.Second):
			}
		}
	}()
	exchange := func(c *streamConn) string {
		c.seq++
		m := pool.NewMessage(context.Background())
		m.SetCode(codes.GET)
		tok := message.Token{0xA0, byte(c.id), byte(c.seq)}
		m.SetToken(tok)
		_ = m.SetPath("/who")
		var b []byte
		if stream {
			b, _ = m.MarshalWithEncoder(tcpcoder.DefaultCoder)
		} else {
			m.SetType(message.Confirmable)
			m.SetMessageID(int32(1000*c.id + c.seq))
			b, _ = m.MarshalWithEncoder(udpcoder.DefaultCoder)
		}
		wr := make(chan error, 1)
		go func() { _, err := c.end.Write(append([]byte(nil), b...)); wr <- err }()
		deadline := time.Now().Add(800 * time.Millisecond)
		select {
		case err := <-wr:
			if err != nil {
				return "0"
			}
		case <-time.After(800 * time.Millisecond):
			return "0"
		}
		for time.Now().Before(deadline) {
			for _, resp := range c.rd.take(stream) {
				if resp.Code() == codes.Content && bytes.Equal(resp.Token(), tok) {
					body, _ := resp.ReadBody()
					if string(body) == c.pair {
						return "1"
					}
					return "0:" + string(body)
				}
			}
			if c.rd.isEOF() {
				return "0"
			}
			time.Sleep(time.Millisecond)
		}
		return "0"
	}
	live := func() string {
		var ids []string
		for _, id := range order {
			c := conns[id]
			if c.peerClosed {
				continue
			}
			if c.cc.Context().Err() == nil && !c.rd.isEOF() {
				ids = append(ids, strconv.Itoa(id))
			}
		}
		if len(ids) == 0 {
			return "-"
		}
		return strings.Join(ids, ",")
	}
	var res []string
	for _, ev := range evs {
		var o string
		if stalled {
			res = append(res, ev+"=-/-")
			continue
		}
		switch {
		case stopped:
			o = "-"
		case strings.HasPrefix(ev, "o"):
			f := strings.Split(ev[1:], ".")
			if len(f) != 3 {
				return "bad-op"
			}
			id, _ := strconv.Atoi(f[0])
			if conns[id] != nil {
				return "bad-op"
			}
			a, b := net.Pipe()
			c := &streamConn{id: id, pair: "r" + f[1] + ">l" + f[2], end: b, rd: &chunkReader{}}
			go c.rd.run(b)
			l.Push(&mem.AddrConn{Conn: a, Local: sAddr("l" + f[2]), Remote: sAddr("r" + f[1])})
			select {
			case c.cc = <-newConn:
			case <-time.After(time.Second):
				_ = b.Close()
				return "rig-error the server did not accept the connection"
			}
			conns[id] = c
			order = append(order, id)
			if stream {
				go func() { _, _ = b.Write([]byte{0x00, 0xe1}) }() // the peer's CSM
			}
			o = exchange(c)
		case strings.HasPrefix(ev, "q"):
			id, _ := strconv.Atoi(ev[1:])
			c := conns[id]
			if c == nil || c.peerClosed {
				return "bad-op"
			}
			o = exchange(c)
		case strings.HasPrefix(ev, "x"):
			id, _ := strconv.Atoi(ev[1:])
			c := conns[id]
			if c == nil || c.peerClosed {
				return "bad-op"
			}
			c.peerClosed = true
			_ = c.end.Close()
			select {
			case <-c.cc.Done():
			case <-time.After(time.Second):
			}
			time.Sleep(20 * time.Millisecond) // serveConnection unregisters the connection after Run returned
			o = "-"
		case ev == "h":
			mu.Lock()
			visited = nil
			mu.Unlock()
			func() {
				defer func() {
					if r := recover(); r != nil {
						o = fmt.Sprintf("panic:%v", r)
					}
				}()
				pass(time.Now())
			}()
			if o == "" {
				var ids []int
				mu.Lock()
				for _, v := range visited {
					for _, c := range conns {
						if any(c.cc) == v {
							ids = append(ids, c.id)
						}
					}
				}
				mu.Unlock()
				sort.Ints(ids)
				var s []string
				for _, i := range ids {
					s = append(s, strconv.Itoa(i))
				}
				o = strings.Join(s, ",")
				if o == "" {
					o = "-"
				}
			}
		case ev == "f" || strings.HasPrefix(ev, "f*"):
			k := 1
			if ev != "f" {
				k, _ = strconv.Atoi(ev[2:])
				if k < 1 || k > 64 {
					return "bad-op"
				}
			}
			o = "1"
			for i := 0; i < k && o == "1"; i++ {
				t0 := time.Now()
				at := make(chan int64, 1)
				var failedCall int64
				select {
				case l.fail <- failReq{acceptErrs[failures%len(acceptErrs)], at}:
					failures++
					failedCall = <-at
				case <-time.After(2 * time.Second):
					o = fmt.Sprintf("0:%d:%d", failures+1, time.Since(t0).Milliseconds())
					stalled = true
					continue
				}
				for l.calls.Load() <= failedCall && time.Since(t0) < 2*time.Second {
					time.Sleep(200 * time.Microsecond)
				}
				if l.calls.Load() <= failedCall {
					o = fmt.Sprintf("0:%d:%d", failures, time.Since(t0).Milliseconds())
					stalled = true // the rest of the history is not run: the accept loop is not available
				}
			}
		case ev == "s":
			stopped = true
			stop()
			select {
			case p := <-served:
				serveEnded = true
				o = "1"
				if p != nil {
					o = fmt.Sprintf("panic:%v", p)
				}
			case <-time.After(1500 * time.Millisecond):
				o = "0"
			}
		default:
			return "bad-op"
		}
		o = strings.ReplaceAll(o, " ", "_")
		if stopped && ev != "s" {
			res = append(res, ev+"=-/-")
			continue
		}
		if ev == "s" {
			time.Sleep(10 * time.Millisecond)
		}
		res = append(res, ev+"="+o+"/"+live())
	}
	return "streams " + strings.Join(res, " ")
}
