// Harness for C11 (each received message is processed once; handlers may call back).
//
// One history per input line:
//
//	scn <udp|udp@<n>|tcp|tcp@<n>> <queue> <limit> <eplimit> <op> <op> ...       (tcp@<n>: ConnectionCacheSize n, the session's read buffer;
//	                    udp@<n>: NSTART n — RFC 7252 4.7, the number of outstanding interactions; plain udp: 1000, never reached)
//
// ops (colon separated):
//
//	arrive:<m>:<prog>   the peer sends request m; its handler runs prog = steps joined by '+':
//	                      r      return
//	                      g<k>   nested blocking cc.Do (GET /n, token of exchange k, 30 s deadline)
//	                      n<k>   the same with a non-confirmable request (datagram: no wait for an ACK, one hand-over only)
//	                      s<ms>  the handler itself takes <ms> (time.Sleep: it blocks without touching the connection)
//	                      h<k>   the same on path /h<k> (its own endpoint)
//	                      o<k>   nested cc.DoObserve (20 s deadline)
//	                      p      nested cc.Ping (10 s deadline)
//	                      w<k>   one-way confirmable cc.WriteMessage (POST /w, token of exchange k, 30 s): on the datagram transport it
//	                             returns when the peer's ACK (`ack:<k>`) has been read — by the socket reader, no loop needed
//	                      a      the handler answers the request (2.05; the reply is cached under the request's message ID)
//	                      j      the handler takes the request message over (Hijack) and passes it on to another part of the application
//	                             (a worker), which gives it back to the pool when it is done with it: op `rel:<m>`
//	arrivem:<m>:<prog>:<con|non>:+<d>   the same with a confirmable / non-confirmable request whose message ID is the ID of the
//	                    last message the connection itself sent plus d (the peer's ID space happens to meet ours)
//	mon:<m>:<prog>      (stream) one write with two frames: a message the connection's request monitor drops (the harness's monitor
//	                    drops DELETE), and request m behind it — which is a message like any other
//	rel:<m>             the new owner of request m (taken over by its handler, step `j`) is done with the message and gives it back to
//	                    the pool (cc.ReleaseMessage).  It does so between two reads of the socket reader, on that goroutine: whatever
//	                    the peer sends next is read after the release (a fixed order, no race with the pool's per-processor caches)
//	flood:<m0>:<n>:<con|non>   a busy peer: n distinct requests m0 … m0+n-1 (confirmable / non-confirmable, consecutive message IDs),
//	                    back to back, every handler answers (program `a`)
//	dup:<m>             the peer sends the very datagram of request m once more (same message ID, same token: a retransmission)
//	<op>&<op>&…         these ops are applied without running to quiescence in between; `yield` as a part lets the other goroutines
//	                    run for a moment (no virtual time passes)
//	resp2:<k>           the peer answers nested exchange k twice, back to back (stream: both frames in one write): the first is the
//	                    response, the second (payload "dup") belongs to nobody and reaches the handler, logged as request 7000+k
//	burst:<m1>-<m2>-…   several requests with returning handlers, back to back (no idle point in between)
//	call:<prog>         the same program run by the application outside any handler
//	watch:<k>:<prog>    the application registers observation k (cc.DoObserve, 20 s deadline, outside any handler); its callback
//	                    runs prog when the first notification after the registration arrives (other notifications: returns)
//	note:<k>            the peer sends the next notification of observation k (non-confirmable, increasing Observe value);
//	                    the j-th notification of observation k is logged like a request with the number 9000+100k+j
//	notem:<k>:<con|non>:+<d>   the same as note:<k>, confirmable / non-confirmable, with the message ID of the last message the
//	                    connection sent under an ID of its own plus d (udp)
//	pad:<n>             the next frame / datagram of the peer is padded to exactly n bytes (payload)
//	empty:<i>:<ack|rst> (udp) the peer sends an empty message (code 0.00, no token) of that type whose message ID matches nothing
//	                    outstanding; one that reaches the application's handler is logged like a request with the number 8000+i
//
// A line `disc <order>` runs one discovery of a real udp.Server over a loopback socket instead (see runDisc).
//
//	resp:<k>            the peer answers nested exchange k (piggybacked on the datagram transport; with an Observe option for o<k>)
//	ack:<k>             the peer sends the bare ACK for nested exchange k (udp)
//	sep:<k>             the peer sends the separate response for nested exchange k (udp, NON)
//	pong                the peer answers the last ping
//	sleep:<ms> · close · settle
//
// Messages from the peer are fed by one goroutine in order (like the socket reader), so a full receive queue blocks the
// following ones.  After every op the bubble runs to quiescence; one segment of events (in the order they happened) is emitted per op:
//
//	s<m>  handler of request m entered      e<m>  handler of request m returned
//	n<k>:<ok|timeout|ctx|closed|exists|other>:<ms>   nested call k returned after <ms> of virtual time
//
// The last segment `final:<queued>` tells how many fed messages the feeder could not yet hand over.
package c11

import (
	"bufio"
	"bytes"
	"context"
	"errors"
	"fmt"
	"net"
	"os"
	"runtime"
	"strconv"
	"strings"
	"sync"
	"testing"
	"testing/synctest"
	"time"

	"github.com/plgd-dev/go-coap/v3/message"
	"github.com/plgd-dev/go-coap/v3/message/codes"
	"github.com/plgd-dev/go-coap/v3/message/pool"
	coapNet "github.com/plgd-dev/go-coap/v3/net"
	"github.com/plgd-dev/go-coap/v3/net/responsewriter"
	"github.com/plgd-dev/go-coap/v3/options"
	pkgErrors "github.com/plgd-dev/go-coap/v3/pkg/errors"
	tcpclient "github.com/plgd-dev/go-coap/v3/tcp/client"
	tcpcoder "github.com/plgd-dev/go-coap/v3/tcp/coder"
	"github.com/plgd-dev/go-coap/v3/udp"
	udpclient "github.com/plgd-dev/go-coap/v3/udp/client"
	udpcoder "github.com/plgd-dev/go-coap/v3/udp/coder"
	"verifharness/internal/lp"
	"verifharness/internal/mem"
)

type observation interface {
	Cancel(ctx context.Context, opts ...message.Option) error
}

type conn interface {
	AcquireMessage(ctx context.Context) *pool.Message
	ReleaseMessage(m *pool.Message)
	Do(req *pool.Message) (*pool.Message, error)
	WriteMessage(req *pool.Message) error
	Ping(ctx context.Context) error
	Close() error
}

type world struct {
	mu          sync.Mutex
	udp         bool
	cc          conn
	observe     func(req *pool.Message) error
	observeWith func(req *pool.Message, f func(*pool.Message)) error
	events      []string
	progs       map[string]string // request token hex -> handler program
	sent        func() []sentMsg
	last        map[string]sentMsg
	lastPing    sentMsg
	feed        chan feedItem
	hij         map[int]*pool.Message // requests taken over by their handlers (step j), until released
	padNext     int
	lastOwn     int32 // message ID of the last message the connection sent under an ID of its own
	ackedResp   map[int32]bool
	resp2       map[int]bool   // exchanges answered twice (resp2)
	datagrams   map[int][]byte // request m as it was sent (for dup)
	later       bool           // inside a compound op, after its first part
	autoAcks    int
	notes       map[int]int // observation -> notifications sent so far
	fed         int
	handed      int
	nextMid     int32
}

// feedItem is what the socket-reader goroutine gets: a datagram / a piece of the stream of the peer, or something the application
// does between two reads (rel)
type feedItem struct {
	d []byte
	f func()
}

type sentMsg struct {
	typ  message.Type
	code codes.Code
	tok  string
	mid  int32
}

func reqTok(m int) message.Token  { return message.Token{0xA0, byte(m >> 8), byte(m)} }
func nestTok(k int) message.Token { return message.Token{0xB0, byte(k >> 8), byte(k)} }

func (w *world) log(s string) {
	w.mu.Lock()
	w.events = append(w.events, s)
	w.mu.Unlock()
}

func errName(err error) string {
	switch {
	case err == nil:
		return "ok"
	case errors.Is(err, pkgErrors.ErrKeyAlreadyExists):
		return "exists"
	case errors.Is(err, context.DeadlineExceeded):
		return "timeout"
	case strings.Contains(err.Error(), "connection was closed") || strings.Contains(err.Error(), "closed") || strings.Contains(err.Error(), "cannot write"):
		return "closed"
	case errors.Is(err, context.Canceled):
		return "ctx"
	}
	return "other"
}

// runProg is the body of the application handler for one request.
func (w *world) runProg(prog string, r *pool.Message, m int) {
	for _, st := range strings.Split(prog, "+") {
		switch {
		case st == "r" || st == "" || st == "a":
		case st == "j":
			if r != nil {
				r.Hijack()
				w.mu.Lock()
				w.hij[m] = r
				w.mu.Unlock()
				r = nil // the handler has passed the message on
			}
		case st[0] == 'w':
			k, _ := strconv.Atoi(st[1:])
			ctx, cancel := context.WithTimeout(context.Background(), 30*time.Second)
			start := time.Now()
			req := w.cc.AcquireMessage(ctx)
			req.SetCode(codes.POST)
			req.SetToken(nestTok(k))
			_ = req.SetPath("/w")
			if w.udp {
				req.SetType(message.Confirmable)
			}
			err := w.cc.WriteMessage(req)
			w.cc.ReleaseMessage(req)
			cancel()
			w.log(fmt.Sprintf("n%d:%s:%d", k, errName(err), time.Since(start).Milliseconds()))
		case st[0] == 's':
			ms, _ := strconv.Atoi(st[1:])
			time.Sleep(time.Duration(ms) * time.Millisecond)
		case st[0] == 'g' || st[0] == 'h' || st[0] == 'o' || st[0] == 'n':
			k, _ := strconv.Atoi(st[1:])
			to := 30 * time.Second
			if st[0] == 'o' {
				to = 20 * time.Second
			}
			ctx, cancel := context.WithTimeout(context.Background(), to)
			start := time.Now()
			req := w.cc.AcquireMessage(ctx)
			req.SetCode(codes.GET)
			req.SetToken(nestTok(k))
			if st[0] == 'n' && w.udp {
				req.SetType(message.NonConfirmable)
			}
			if st[0] == 'h' {
				_ = req.SetPath("/h" + st[1:])
			} else {
				_ = req.SetPath("/n")
			}
			var err error
			if st[0] == 'o' {
				req.SetObserve(0)
				err = w.observe(req)
			} else {
				var resp *pool.Message
				resp, err = w.cc.Do(req)
				if err == nil {
					w.cc.ReleaseMessage(resp)
				}
			}
			w.cc.ReleaseMessage(req)
			cancel()
			w.log(fmt.Sprintf("n%d:%s:%d", k, errName(err), time.Since(start).Milliseconds()))
		case st == "p":
			ctx, cancel := context.WithTimeout(context.Background(), 10*time.Second)
			start := time.Now()
			err := w.cc.Ping(ctx)
			cancel()
			w.log(fmt.Sprintf("n0:%s:%d", errName(err), time.Since(start).Milliseconds()))
		}
	}
}

// watch registers observation k; the callback is invoked for the registration's response (invocation 1) and for every
// notification (invocation j+1 for the j-th): it logs the notification like a request and runs prog for the first one.
func (w *world) watch(k int, prog string) {
	ctx, cancel := context.WithTimeout(context.Background(), 20*time.Second)
	defer cancel()
	start := time.Now()
	req := w.cc.AcquireMessage(ctx)
	req.SetCode(codes.GET)
	req.SetToken(nestTok(k))
	_ = req.SetPath("/n")
	req.SetObserve(0)
	inv := 0
	err := w.observeWith(req, func(*pool.Message) {
		w.mu.Lock()
		inv++
		i := inv
		w.mu.Unlock()
		if i == 1 {
			return
		}
		id := 9000 + 100*k + (i - 1)
		w.log(fmt.Sprintf("s%d", id))
		if i == 2 {
			w.runProg(prog, nil, 0)
		}
		w.log(fmt.Sprintf("e%d", id))
	})
	w.cc.ReleaseMessage(req)
	w.log(fmt.Sprintf("n%d:%s:%d", k, errName(err), time.Since(start).Milliseconds()))
}

func (w *world) handler(r *pool.Message, answer func()) {
	if r.Code() == codes.Content {
		// of the two messages `resp2:<k>` sends under the token of exchange k, one is the call's response and the other one
		// reaches this handler.  (Which is which is not fixed: a confirmable nested request asks for a replacement loop twice,
		// and the second request can replace the loop that is just dispatching the first message; the new loop may then hand the
		// second message to the call first.)
		if len(r.Token()) == 3 && r.Token()[0] == 0xB0 {
			k := int(r.Token()[1])<<8 | int(r.Token()[2])
			w.mu.Lock()
			twice := w.resp2[k]
			w.mu.Unlock()
			if twice {
				w.log(fmt.Sprintf("s%d", 7000+k))
				w.log(fmt.Sprintf("e%d", 7000+k))
			}
		}
		return
	}
	if r.Code() == codes.Empty && r.MessageID() >= 30000 && r.MessageID() < 31000 {
		// an empty message of the peer that the message layer handed up
		w.log(fmt.Sprintf("s%d", 8000+int(r.MessageID())-30000))
		w.log(fmt.Sprintf("e%d", 8000+int(r.MessageID())-30000))
		return
	}
	if r.Code() < codes.GET || r.Code() > codes.DELETE {
		return
	}
	tok := lp.Hex(r.Token())
	if len(tok) != 6 || !strings.HasPrefix(tok, "a0") {
		return
	}
	m, _ := strconv.ParseInt(tok[2:], 16, 32)
	w.mu.Lock()
	prog := w.progs[tok]
	w.mu.Unlock()
	w.log(fmt.Sprintf("s%d", m))
	if strings.Contains("+"+prog+"+", "+a+") {
		answer()
	}
	w.runProg(prog, r, int(m))
	w.log(fmt.Sprintf("e%d", m))
}

// build encodes one message of the peer; after `pad:<n>` the message gets the payload that makes it exactly n bytes long
// (if no payload length does, the nearest longer one).
func (w *world) build(typ message.Type, code codes.Code, tok message.Token, mid int32, f func(m *pool.Message)) []byte {
	target := w.padNext
	w.padNext = 0
	if target == 0 {
		return w.build1(typ, code, tok, mid, f, -1)
	}
	var best []byte
	for p := 0; p <= target+8; p++ {
		d := w.build1(typ, code, tok, mid, f, p)
		if len(d) == target {
			return d
		}
		if len(d) > target && best == nil {
			best = d
		}
	}
	if best == nil {
		best = w.build1(typ, code, tok, mid, f, -1)
	}
	return best
}

func (w *world) build1(typ message.Type, code codes.Code, tok message.Token, mid int32, f func(m *pool.Message), payload int) []byte {
	m := pool.NewMessage(context.Background())
	m.SetCode(code)
	if len(tok) > 0 {
		m.SetToken(tok)
	}
	if f != nil {
		f(m)
	}
	if payload > 0 {
		m.SetBody(bytes.NewReader(bytes.Repeat([]byte{'p'}, payload)))
	}
	if w.udp {
		m.SetType(typ)
		m.SetMessageID(mid)
		b, err := m.MarshalWithEncoder(udpcoder.DefaultCoder)
		if err != nil {
			panic(err)
		}
		return append([]byte(nil), b...)
	}
	b, err := m.MarshalWithEncoder(tcpcoder.DefaultCoder)
	if err != nil {
		panic(err)
	}
	return append([]byte(nil), b...)
}

func (w *world) absorb() {
	for _, s := range w.sent() {
		if w.udp && (s.typ == message.Confirmable || s.typ == message.NonConfirmable) && s.mid < 20000 {
			w.lastOwn = s.mid
		}
		if w.udp && s.typ == message.Confirmable && s.code >= codes.Created && !w.ackedResp[s.mid] {
			// the connection answered one of the peer's requests with a confirmable response: the peer acknowledges it
			w.ackedResp[s.mid] = true
			w.push(w.build1(message.Acknowledgement, codes.Empty, nil, s.mid, nil, -1))
			w.autoAcks++
		}
		if s.code >= codes.GET && s.code <= codes.DELETE {
			w.last[s.tok] = s
		}
		if (w.udp && s.code == codes.Empty && s.typ == message.Confirmable) || (!w.udp && s.code == codes.Ping) {
			w.lastPing = s
		}
	}
}

func (w *world) push(d []byte) {
	w.mu.Lock()
	w.fed++
	w.mu.Unlock()
	w.feed <- feedItem{d: d}
}

func (w *world) apply(f []string, obsExch map[int]bool) {
	atoi := func(s string) int { v, _ := strconv.Atoi(s); return v }
	switch {
	case f[0] == "arrive" && len(f) == 3:
		w.tick() // distinct virtual start times, hence distinct deadlines
		m := atoi(f[1])
		w.mu.Lock()
		w.progs[lp.Hex(reqTok(m))] = f[2]
		w.mu.Unlock()
		for _, st := range strings.Split(f[2], "+") {
			if len(st) > 1 && st[0] == 'o' {
				obsExch[atoi(st[1:])] = true
			}
		}
		mid := w.nextMid
		w.nextMid++
		d := w.build(message.NonConfirmable, codes.GET, reqTok(m), mid, func(x *pool.Message) { _ = x.SetPath("/req") })
		w.datagrams[m] = d
		w.push(d)
	case f[0] == "mon" && len(f) == 3:
		w.tick()
		m := atoi(f[1])
		w.mu.Lock()
		w.progs[lp.Hex(reqTok(m))] = f[2]
		w.mu.Unlock()
		mid := w.nextMid
		w.nextMid += 2
		dropped := w.build(message.NonConfirmable, codes.DELETE, reqTok(5000+m), mid, func(x *pool.Message) { _ = x.SetPath("/req") })
		d := w.build(message.NonConfirmable, codes.GET, reqTok(m), mid+1, func(x *pool.Message) { _ = x.SetPath("/req") })
		if w.udp {
			w.push(dropped)
			w.push(d)
		} else {
			w.push(append(append([]byte(nil), dropped...), d...))
		}
	case f[0] == "rel" && len(f) == 2:
		m := atoi(f[1])
		w.feed <- feedItem{f: func() {
			w.mu.Lock()
			r := w.hij[m]
			delete(w.hij, m)
			w.mu.Unlock()
			if r != nil {
				w.cc.ReleaseMessage(r)
			}
		}}
	case f[0] == "flood" && len(f) == 4:
		w.tick()
		typ := message.NonConfirmable
		if f[3] == "con" {
			typ = message.Confirmable
		}
		m0, n := atoi(f[1]), atoi(f[2])
		w.mu.Lock()
		for i := 0; i < n; i++ {
			w.progs[lp.Hex(reqTok(m0+i))] = "a"
		}
		w.mu.Unlock()
		for i := 0; i < n; i++ {
			mid := w.nextMid
			w.nextMid++
			d := w.build1(typ, codes.GET, reqTok(m0+i), mid, func(x *pool.Message) { _ = x.SetPath("/req") }, -1)
			w.datagrams[m0+i] = d
			w.push(d)
		}
	case f[0] == "dup" && len(f) == 2:
		w.tick()
		if d, ok := w.datagrams[atoi(f[1])]; ok {
			w.push(append([]byte(nil), d...))
		}
	case f[0] == "arrivem" && len(f) == 5:
		w.tick()
		m := atoi(f[1])
		w.mu.Lock()
		w.progs[lp.Hex(reqTok(m))] = f[2]
		w.mu.Unlock()
		typ := message.NonConfirmable
		if f[3] == "con" {
			typ = message.Confirmable
		}
		mid := w.lastOwn + int32(atoi(strings.TrimPrefix(f[4], "+")))
		d := w.build(typ, codes.GET, reqTok(m), mid, func(x *pool.Message) { _ = x.SetPath("/req") })
		w.datagrams[m] = d
		w.push(d)
	case f[0] == "resp2" && len(f) == 2:
		k := atoi(f[1])
		lastReq, ok := w.last[lp.Hex(nestTok(k))]
		if !ok {
			w.log(fmt.Sprintf("early%d", k))
			return
		}
		w.mu.Lock()
		w.resp2[k] = true
		w.mu.Unlock()
		first := w.build(message.Acknowledgement, codes.Content, nestTok(k), lastReq.mid, nil)
		mid := w.nextMid
		w.nextMid++
		second := w.build(message.NonConfirmable, codes.Content, nestTok(k), mid, func(x *pool.Message) { x.SetBody(bytes.NewReader([]byte("dup"))) })
		if w.udp {
			w.push(first)
			w.push(second)
		} else {
			w.push(append(append([]byte(nil), first...), second...))
		}
	case f[0] == "burst" && len(f) == 2:
		// several requests with returning handlers put on the wire back to back (no idle point in between)
		w.tick()
		for _, id := range strings.Split(f[1], "-") {
			m := atoi(id)
			w.mu.Lock()
			w.progs[lp.Hex(reqTok(m))] = "r"
			w.mu.Unlock()
			mid := w.nextMid
			w.nextMid++
			w.push(w.build(message.NonConfirmable, codes.GET, reqTok(m), mid, func(x *pool.Message) { _ = x.SetPath("/req") }))
		}
	case f[0] == "resp" && len(f) == 2:
		k := atoi(f[1])
		lastReq, ok := w.last[lp.Hex(nestTok(k))]
		if !ok {
			w.log(fmt.Sprintf("early%d", k)) // the request has not been sent yet: nothing to answer
			return
		}
		w.push(w.build(message.Acknowledgement, codes.Content, nestTok(k), lastReq.mid, func(x *pool.Message) {
			if obsExch[k] {
				x.SetObserve(7)
			}
		}))
	case f[0] == "ack" && len(f) == 2:
		if !w.udp {
			return
		}
		lastReq, ok := w.last[lp.Hex(nestTok(atoi(f[1])))]
		if !ok {
			w.log(fmt.Sprintf("early%d", atoi(f[1])))
			return
		}
		w.push(w.build(message.Acknowledgement, codes.Empty, nil, lastReq.mid, nil))
	case f[0] == "sep" && len(f) == 2:
		k := atoi(f[1])
		if _, ok := w.last[lp.Hex(nestTok(k))]; !ok {
			w.log(fmt.Sprintf("early%d", k))
			return
		}
		mid := w.nextMid
		w.nextMid++
		w.push(w.build(message.NonConfirmable, codes.Content, nestTok(k), mid, func(x *pool.Message) {
			if obsExch[k] {
				x.SetObserve(7)
			}
		}))
	case f[0] == "pong":
		if w.lastPing.code == 0 && w.lastPing.tok == "" && w.lastPing.mid == 0 {
			w.log("early0")
			return
		}
		if w.udp {
			w.push(w.build(message.Reset, codes.Empty, nil, w.lastPing.mid, nil))
		} else {
			tok, _ := lp.ParseHex(w.lastPing.tok)
			w.push(w.build(0, codes.Pong, tok, 0, nil))
		}
	case f[0] == "call" && len(f) == 2:
		w.tick()
		go w.runProg(f[1], nil, 0)
	case f[0] == "watch" && len(f) == 3:
		w.tick()
		k := atoi(f[1])
		obsExch[k] = true
		go w.watch(k, f[2])
	case f[0] == "note" && len(f) == 2:
		w.tick()
		k := atoi(f[1])
		w.mu.Lock()
		w.notes[k]++
		j := w.notes[k]
		w.mu.Unlock()
		mid := w.nextMid
		w.nextMid++
		w.push(w.build(message.NonConfirmable, codes.Content, nestTok(k), mid, func(x *pool.Message) { x.SetObserve(uint32(10 + j)) }))
	case f[0] == "notem" && len(f) == 4:
		w.tick()
		k := atoi(f[1])
		w.mu.Lock()
		w.notes[k]++
		j := w.notes[k]
		w.mu.Unlock()
		typ := message.NonConfirmable
		if f[2] == "con" {
			typ = message.Confirmable
		}
		mid := w.lastOwn + int32(atoi(strings.TrimPrefix(f[3], "+")))
		if !w.udp {
			mid = 0
		}
		w.push(w.build(typ, codes.Content, nestTok(k), mid, func(x *pool.Message) { x.SetObserve(uint32(10 + j)) }))
	case f[0] == "pad" && len(f) == 2:
		w.padNext = atoi(f[1])
	case f[0] == "yield":
		// the feeder hands over what was pushed and the loops get to run: a goroutine that ends up waiting for a lock cannot be
		// waited for with synctest.Wait
		for i := 0; i < 20000; i++ {
			runtime.Gosched()
		}
	case f[0] == "empty" && len(f) == 3:
		if !w.udp {
			return
		}
		w.tick()
		typ := message.Reset
		if f[2] == "ack" {
			typ = message.Acknowledgement
		}
		w.push(w.build(typ, codes.Empty, nil, int32(30000+atoi(f[1])), nil))
	case f[0] == "sleep" && len(f) == 2:
		time.Sleep(time.Duration(atoi(f[1])) * time.Millisecond)
	case f[0] == "close":
		_ = w.cc.Close()
	case f[0] == "settle":
	default:
		panic("bad-op " + strings.Join(f, ":"))
	}
}

// tick lets one virtual millisecond pass before an arrival (distinct deadlines) — except inside a compound op after its first
// part: a goroutine of the connection may then be waiting for a lock, which is not "idle" for synctest, and virtual time would
// never pass.
func (w *world) tick() {
	if !w.later {
		time.Sleep(time.Millisecond)
	}
}

func (w *world) run(ops []string, inject func([]byte) error) string {
	var segs []string
	done := make(chan struct{})
	go func() {
		defer close(done)
		for d := range w.feed {
			if d.f != nil {
				d.f()
				continue
			}
			_ = inject(d.d) // fails only once the connection is closed
			w.mu.Lock()
			w.handed++
			w.mu.Unlock()
		}
	}()
	obsExch := map[int]bool{}
	for _, op := range ops {
		func() {
			defer func() {
				if r := recover(); r != nil {
					w.log(fmt.Sprintf("panic:%v", r))
				}
			}()
			for i, sub := range strings.Split(op, "&") {
				w.later = i > 0
				w.apply(strings.Split(sub, ":"), obsExch)
			}
			w.later = false
		}()
		synctest.Wait()
		w.absorb()
		for i := 0; w.autoAcks > 0 && i < 4; i++ {
			w.autoAcks = 0
			synctest.Wait()
			w.absorb()
		}
		w.mu.Lock()
		ev := append([]string(nil), w.events...)
		w.events = nil
		w.mu.Unlock()
		if len(ev) == 0 {
			segs = append(segs, "-")
		} else {
			segs = append(segs, strings.Join(ev, ","))
		}
	}
	w.mu.Lock()
	segs = append(segs, fmt.Sprintf("final:%d", w.fed-w.handed))
	w.mu.Unlock()
	_ = w.cc.Close()
	close(w.feed)
	synctest.Wait()
	// anything still blocked is released by the deadlines of the nested calls
	time.Sleep(40 * time.Second)
	synctest.Wait()
	<-done
	return strings.Join(segs, ";")
}

func newWorld(udp bool) *world {
	return &world{udp: udp, progs: map[string]string{}, last: map[string]sentMsg{}, feed: make(chan feedItem, 4096), hij: map[int]*pool.Message{}, nextMid: 40000, notes: map[int]int{}, lastOwn: 100, ackedResp: map[int32]bool{}, resp2: map[int]bool{}, datagrams: map[int][]byte{}}
}

func runUDP(t *testing.T, nstart int, queue int, limit, eplimit int64, ops []string) (out string) {
	synctest.Test(t, func(t *testing.T) {
		w := newWorld(true)
		// a request monitor that drops (without error) what carries the method DELETE
		monitor := udpclient.WithRequestMonitor(func(_ *udpclient.Conn, r *pool.Message) (bool, error) { return r.Code() == codes.DELETE, nil })
		cc, s := mem.NewUDPConn(mem.UDPOpts{ConnOpts: []udpclient.Option{monitor}, Mutate: func(cfg *udpclient.Config) {
			cfg.LimitClientParallelRequests = limit
			cfg.LimitClientEndpointParallelRequests = eplimit
			cfg.ReceivedMessageQueueSize = queue
			cfg.TransmissionNStart = 1000
			if nstart > 0 {
				cfg.TransmissionNStart = uint32(nstart)
			}
			cfg.GetMID = func() int32 { return 0xffff/2 + 100 }
			cfg.Handler = func(rw *responsewriter.ResponseWriter[*udpclient.Conn], r *pool.Message) {
				w.handler(r, func() { _ = rw.SetResponse(codes.Content, message.TextPlain, bytes.NewReader([]byte("ok"))) })
			}
		}})
		w.cc = cc
		w.observe = func(req *pool.Message) error {
			_, err := cc.DoObserve(req, func(*pool.Message) {})
			return err
		}
		w.observeWith = func(req *pool.Message, f func(*pool.Message)) error {
			_, err := cc.DoObserve(req, f)
			return err
		}
		w.sent = func() []sentMsg {
			var out []sentMsg
			for _, d := range s.TakeSent() {
				m := pool.NewMessage(context.Background())
				if _, err := m.UnmarshalWithDecoder(udpcoder.DefaultCoder, d.Data); err == nil {
					out = append(out, sentMsg{m.Type(), m.Code(), lp.Hex(m.Token()), m.MessageID()})
				}
			}
			return out
		}
		out = w.run(ops, func(d []byte) error { return cc.Process(nil, d) })
	})
	return out
}

func runTCP(t *testing.T, cache int, queue int, limit, eplimit int64, ops []string) (out string) {
	synctest.Test(t, func(t *testing.T) {
		w := newWorld(false)
		cc, peer, err := mem.NewTCPConn(mem.TCPOpts{Mutate: func(cfg *tcpclient.Config) {
			cfg.LimitClientParallelRequests = limit
			cfg.LimitClientEndpointParallelRequests = eplimit
			cfg.ReceivedMessageQueueSize = queue
			cfg.BlockwiseEnable = false
			// a request monitor that drops (without error) what carries the method DELETE
			cfg.RequestMonitor = func(_ *tcpclient.Conn, r *pool.Message) (bool, error) { return r.Code() == codes.DELETE, nil }
			if cache > 0 {
				cfg.ConnectionCacheSize = uint16(cache)
			}
			cfg.Handler = func(rw *responsewriter.ResponseWriter[*tcpclient.Conn], r *pool.Message) {
				w.handler(r, func() { _ = rw.SetResponse(codes.Content, message.TextPlain, bytes.NewReader([]byte("ok"))) })
			}
		}})
		if err != nil {
			out = "conn-error"
			return
		}
		synctest.Wait()
		peer.TakeFrames()
		w.cc = cc
		w.observe = func(req *pool.Message) error {
			_, err := cc.DoObserve(req, func(*pool.Message) {})
			return err
		}
		w.observeWith = func(req *pool.Message, f func(*pool.Message)) error {
			_, err := cc.DoObserve(req, f)
			return err
		}
		w.sent = func() []sentMsg {
			var out []sentMsg
			for _, d := range peer.TakeFrames() {
				m := pool.NewMessage(context.Background())
				if _, err := m.UnmarshalWithDecoder(tcpcoder.DefaultCoder, d); err == nil {
					out = append(out, sentMsg{0, m.Code(), lp.Hex(m.Token()), 0})
				}
			}
			return out
		}
		out = w.run(ops, func(d []byte) error { return peer.Write(d) })
		peer.Close()
		synctest.Wait()
	})
	return out
}

var _ = bytes.NewReader

// runDisc: one discovery of a real udp.Server over a loopback socket (real time).  The responder is a scripted raw socket.  It
// answers the discovery request (response 1); the receiver callback, run by the receive loop of the responder's connection,
// issues a blocking confirmable GET on that connection; the responder then sends, 30 ms apart and in the given order
// (joined by '-'): `ack` the empty ACK of the nested request, `d2` a second response to the discovery (response 2), `sep` the
// separate response of the nested request, or `pig` its piggybacked response.  Output: the events in the order they happened:
//
//	A1b A2   the responder sent discovery response 1 (its callback blocks) / 2      K   the responder answered the nested request
//	s<j> e<j>  the callback for response j entered / returned                       n1:<ok|timeout|…>:<ms>  the nested request returned
func runDisc(order string) (out string) {
	defer func() {
		if r := recover(); r != nil {
			out = fmt.Sprintf("panic:%v", r)
		}
	}()
	var mu sync.Mutex
	var events []string
	logEv := func(s string) { mu.Lock(); events = append(events, s); mu.Unlock() }
	l, err := coapNet.NewListenUDP("udp4", "127.0.0.1:0")
	if err != nil {
		return "skip:listen"
	}
	defer l.Close()
	srv := udp.NewServer(options.WithMessagePool(pool.New(64, 2048)), options.WithErrors(func(error) {}))
	served := make(chan struct{})
	go func() { defer close(served); _ = srv.Serve(l) }()
	defer func() { srv.Stop(); <-served }()
	time.Sleep(20 * time.Millisecond)
	resp, err := net.ListenUDP("udp4", &net.UDPAddr{IP: net.IPv4(127, 0, 0, 1)})
	if err != nil {
		return "skip:listen"
	}
	defer resp.Close()
	discTok := message.Token{0xD1, 0x5C}
	enc := func(typ message.Type, code codes.Code, tok message.Token, mid int32, payload string) []byte {
		m := pool.NewMessage(context.Background())
		m.SetType(typ)
		m.SetCode(code)
		if len(tok) > 0 {
			m.SetToken(tok)
		}
		m.SetMessageID(mid)
		if payload != "" {
			m.SetBody(bytes.NewReader([]byte(payload)))
		}
		b, err := m.MarshalWithEncoder(udpcoder.DefaultCoder)
		if err != nil {
			panic(err)
		}
		return append([]byte(nil), b...)
	}
	go func() {
		buf := make([]byte, 2048)
		for {
			n, from, err := resp.ReadFromUDP(buf)
			if err != nil {
				return
			}
			m := pool.NewMessage(context.Background())
			if _, err := m.UnmarshalWithDecoder(udpcoder.DefaultCoder, buf[:n]); err != nil {
				continue
			}
			if m.Code() != codes.GET {
				continue
			}
			if bytes.Equal(m.Token(), discTok) {
				logEv("A1b")
				_, _ = resp.WriteToUDP(enc(message.NonConfirmable, codes.Content, discTok, 100, "r1"), from)
				continue
			}
			// the nested request
			tok := append(message.Token(nil), m.Token()...)
			mid := m.MessageID()
			for _, step := range strings.Split(order, "-") {
				switch step {
				case "ack":
					_, _ = resp.WriteToUDP(enc(message.Acknowledgement, codes.Empty, nil, mid, ""), from)
				case "d2":
					logEv("A2")
					_, _ = resp.WriteToUDP(enc(message.NonConfirmable, codes.Content, discTok, 101, "r2"), from)
				case "sep":
					logEv("K")
					_, _ = resp.WriteToUDP(enc(message.NonConfirmable, codes.Content, tok, 102, "x"), from)
				case "pig":
					logEv("K")
					_, _ = resp.WriteToUDP(enc(message.Acknowledgement, codes.Content, tok, mid, "x"), from)
				}
				time.Sleep(30 * time.Millisecond)
			}
		}
	}()
	ctx, cancel := context.WithTimeout(context.Background(), 1500*time.Millisecond)
	defer cancel()
	req := pool.NewMessage(ctx)
	_ = req.SetupGet("/oic/res", discTok)
	req.SetMessageID(4711)
	req.SetType(message.NonConfirmable)
	_ = srv.DiscoveryRequest(req, resp.LocalAddr().String(), func(cc *udpclient.Conn, r *pool.Message) {
		body, _ := r.ReadBody()
		j := 0
		if len(body) == 2 && body[0] == 'r' {
			j = int(body[1] - '0')
		}
		logEv(fmt.Sprintf("s%d", j))
		if j == 1 {
			nctx, ncancel := context.WithTimeout(context.Background(), 800*time.Millisecond)
			start := time.Now()
			res, err := cc.Get(nctx, "/x")
			if err == nil {
				cc.ReleaseMessage(res)
			}
			ncancel()
			logEv(fmt.Sprintf("n1:%s:%d", errName(err), time.Since(start).Milliseconds()))
		}
		logEv(fmt.Sprintf("e%d", j))
	})
	time.Sleep(50 * time.Millisecond)
	mu.Lock()
	defer mu.Unlock()
	return strings.Join(events, ",") + ";final:0"
}

func TestC11(t *testing.T) {
	err := lp.FileLoop(func(f []string, w *bufio.Writer) {
		defer func() {
			if r := recover(); r != nil {
				fmt.Fprintf(w, "panic %v\n", r)
			}
		}()
		if len(f) == 2 && f[0] == "disc" {
			fmt.Fprintln(w, runDisc(f[1]))
			_ = w.Flush()
			return
		}
		if len(f) < 5 || f[0] != "scn" {
			fmt.Fprintln(w, "bad-op")
			return
		}
		q, _ := strconv.Atoi(f[2])
		lim, _ := strconv.ParseInt(f[3], 10, 64)
		ep, _ := strconv.ParseInt(f[4], 10, 64)
		// Watchdog in real time (this goroutine and the timer are outside the bubble).  A goroutine of the connection that waits
		// for a sync.Mutex is not durably blocked: the bubble never becomes idle, virtual time cannot pass and the history never
		// ends.  The line is answered with `hang`, everything written so far is flushed and the process ends; the check script
		// goes on with the remaining lines in a new process.
		limit := 3 * time.Second
		if v, err := strconv.Atoi(os.Getenv("VERIF_HANG_S")); err == nil && v > 0 {
			limit = time.Duration(v) * time.Second
		}
		watchdog := time.AfterFunc(limit, func() {
			fmt.Fprintln(w, "hang")
			_ = w.Flush()
			if os.Getenv("VERIF_HANG_STACKS") != "" {
				buf := make([]byte, 1<<20)
				os.Stderr.Write(buf[:runtime.Stack(buf, true)])
			}
			os.Exit(0)
		})
		defer func() {
			watchdog.Stop()
			_ = w.Flush()
		}()
		if f[1] == "udp" || strings.HasPrefix(f[1], "udp@") {
			nstart := 0
			if i := strings.Index(f[1], "@"); i >= 0 {
				nstart, _ = strconv.Atoi(f[1][i+1:])
			}
			fmt.Fprintln(w, runUDP(t, nstart, q, lim, ep, f[5:]))
		} else {
			cache := 0
			if i := strings.Index(f[1], "@"); i >= 0 {
				cache, _ = strconv.Atoi(f[1][i+1:])
			}
			fmt.Fprintln(w, runTCP(t, cache, q, lim, ep, f[5:]))
		}
	})
	if err != nil {
		t.Fatal(err)
	}
}
