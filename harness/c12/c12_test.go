// Harness for C12 (pooled message ownership): scenarios on real udp/tcp client.Conn objects (in-memory transports,
// synctest) with the pool lifecycle tracker of hook h1 switched on. Each input line `scn <transport> <name> [args]`
// runs one scenario in its own bubble and prints its lifecycle trace: `acq n`, `rel n`, `put n`, `poison n ok|bad`
// from the pool, `hold n` / `unhold n` around every place where the application legitimately holds a message
// (request inside a handler, response returned from a request call, notification inside a callback), `changed n`
// when the content of a held message differs between hold and unhold, `leak n` when a poisoned (pooled) message
// shows up on the wire or in application hands.
package c12

import (
	"bufio"
	"bytes"
	"context"
	"errors"
	"fmt"
	"io"
	"math/rand"
	"strconv"
	"strings"
	"sync"
	"sync/atomic"
	"testing"
	"testing/synctest"
	"time"

	"github.com/plgd-dev/go-coap/v3/message"
	"github.com/plgd-dev/go-coap/v3/message/codes"
	"github.com/plgd-dev/go-coap/v3/message/pool"
	"github.com/plgd-dev/go-coap/v3/net/blockwise"
	"github.com/plgd-dev/go-coap/v3/net/client"
	"github.com/plgd-dev/go-coap/v3/net/responsewriter"
	tcpclient "github.com/plgd-dev/go-coap/v3/tcp/client"
	tcpcoder "github.com/plgd-dev/go-coap/v3/tcp/coder"
	udpclient "github.com/plgd-dev/go-coap/v3/udp/client"
	udpcoder "github.com/plgd-dev/go-coap/v3/udp/coder"
	"verifharness/internal/lp"
	"verifharness/internal/mem"
)

func snapshot(m *pool.Message) string {
	var b bytes.Buffer
	fmt.Fprintf(&b, "%d|%x|", m.Code(), []byte(m.Token()))
	for _, o := range m.Options() {
		fmt.Fprintf(&b, "%d:%x,", o.ID, o.Value)
	}
	body, _ := m.ReadBody()
	fmt.Fprintf(&b, "|%x", body)
	return b.String()
}

func poisoned(m *pool.Message) bool {
	return m.Code() == pool.VerifPoisonCode || bytes.Equal(m.Token(), pool.VerifPoisonToken)
}

// hold marks the beginning of a legitimate application hold and returns the function that ends it.
func hold(m *pool.Message) func() {
	if poisoned(m) {
		pool.VerifTraceMark("leak", m)
	}
	pool.VerifTraceMark("hold", m)
	snap := snapshot(m)
	return func() {
		if snapshot(m) != snap {
			pool.VerifTraceMark("changed", m)
		}
		pool.VerifTraceMark("unhold", m)
	}
}

// ---------------------------------------------------------------- udp world

type udpWorld struct {
	cc      *udpclient.Conn
	s       *mem.UDPSession
	handler func(w *responsewriter.ResponseWriter[*udpclient.Conn], r *pool.Message)
	onSent  func(m *pool.Message) // peer behaviour: called (outside the connection's goroutines) for every datagram written
	gate    func(m *pool.Message) // called inside the connection's write: may block it (a slow socket)
	mid     int32
	mu      sync.Mutex
	later   []func()
}

func newUDP(bw bool) *udpWorld {
	w := &udpWorld{mid: 30000}
	w.cc, w.s = mem.NewUDPConn(mem.UDPOpts{Blockwise: bw, BlockwiseSZX: blockwise.SZX16, Mutate: func(cfg *udpclient.Config) {
		cfg.LimitClientParallelRequests = 16
		cfg.LimitClientEndpointParallelRequests = 16
		cfg.TransmissionAcknowledgeTimeout = 2 * time.Second
		cfg.GetToken = tokenSource
		cfg.Handler = func(rw *responsewriter.ResponseWriter[*udpclient.Conn], r *pool.Message) {
			if w.handler != nil {
				w.handler(rw, r)
			}
		}
	}})
	w.s.OnWrite = func(data []byte) {
		m := pool.NewMessage(context.Background())
		if _, err := m.UnmarshalWithDecoder(udpcoder.DefaultCoder, data); err != nil {
			return
		}
		if poisoned(m) || m.MessageID() == pool.VerifPoisonMID {
			pool.VerifTraceMark("leak", m)
		}
		if w.gate != nil {
			w.gate(m)
		}
		if w.onSent != nil {
			cb := w.onSent
			go cb(m)
		}
	}
	return w
}

func (w *udpWorld) inject(m *pool.Message) {
	b, err := m.MarshalWithEncoder(udpcoder.DefaultCoder)
	if err != nil {
		panic(err)
	}
	_ = w.cc.Process(nil, append([]byte(nil), b...))
}

func (w *udpWorld) nextMID() int32 { w.mu.Lock(); defer w.mu.Unlock(); w.mid++; return w.mid }

func reply(req *pool.Message, typ message.Type, code codes.Code, mid int32, payload string, obs int) *pool.Message {
	m := pool.NewMessage(context.Background())
	m.SetCode(code)
	m.SetToken(req.Token())
	m.SetType(typ)
	m.SetMessageID(mid)
	if obs >= 0 {
		m.SetObserve(uint32(obs))
	}
	if payload != "" {
		m.SetContentFormat(message.TextPlain)
		m.SetBody(strings.NewReader(payload))
	}
	return m
}

// ---------------------------------------------------------------- scenarios

// path: the receive path with a handler that performs ops (S = SetMessage, W = Swap, R = release what Swap returned, H = Hijack).
func scnPathUDP(t *testing.T, ops string) {
	w := newUDP(false)
	var hijacked *pool.Message
	var endHold func()
	w.handler = func(rw *responsewriter.ResponseWriter[*udpclient.Conn], r *pool.Message) {
		pool.VerifTraceMark("isreq", r)
		pool.VerifTraceMark("isresp", rw.Message())
		done := hold(r)
		var swapped []*pool.Message
		hj := false
		for _, op := range ops {
			switch op {
			case 'S':
				m := w.cc.AcquireMessage(r.Context())
				pool.VerifTraceMark("fresh", m)
				m.SetCode(codes.Content)
				m.SetToken(r.Token())
				rw.SetMessage(m)
			case 'W':
				m := w.cc.AcquireMessage(r.Context())
				pool.VerifTraceMark("fresh", m)
				m.SetCode(codes.Changed)
				m.SetToken(r.Token())
				swapped = append([]*pool.Message{rw.Swap(m)}, swapped...)
			case 'R':
				if len(swapped) > 0 {
					w.cc.ReleaseMessage(swapped[0])
					swapped = swapped[1:]
				}
			case 'H':
				r.Hijack()
				hj = true
			case 'C':
				_ = rw.SetResponse(codes.Content, message.TextPlain, strings.NewReader("ok"))
			}
		}
		if hj {
			hijacked, endHold = r, done // the application keeps the request beyond the handler
		} else {
			done()
		}
	}
	req := pool.NewMessage(context.Background())
	req.SetCode(codes.POST)
	req.SetToken(message.Token{1, 2, 3})
	req.SetType(message.Confirmable)
	req.SetMessageID(w.nextMID())
	_ = req.SetPath("/a")
	req.SetContentFormat(message.TextPlain)
	req.SetBody(strings.NewReader("body"))
	w.inject(req)
	synctest.Wait()
	// more traffic while a hijacked request is still held
	for i := 0; i < 3; i++ {
		w.handler = nil
		m := pool.NewMessage(context.Background())
		m.SetCode(codes.GET)
		m.SetToken(message.Token{9, byte(i)})
		m.SetType(message.NonConfirmable)
		m.SetMessageID(w.nextMID())
		w.inject(m)
		synctest.Wait()
	}
	if hijacked != nil {
		endHold()
		w.cc.ReleaseMessage(hijacked)
	}
	_ = w.cc.Close()
	synctest.Wait()
}

// do: client requests against a scripted peer.
// refusedCalls: calls of the generic client API that the library refuses before anything is sent (a path segment longer than
// 255 bytes cannot be encoded): every message acquired on the way must be given back exactly once.
type apiConn interface {
	Get(ctx context.Context, path string, opts ...message.Option) (*pool.Message, error)
	Post(ctx context.Context, path string, contentFormat message.MediaType, payload io.ReadSeeker, opts ...message.Option) (*pool.Message, error)
	Put(ctx context.Context, path string, contentFormat message.MediaType, payload io.ReadSeeker, opts ...message.Option) (*pool.Message, error)
	Delete(ctx context.Context, path string, opts ...message.Option) (*pool.Message, error)
	Observe(ctx context.Context, path string, observeFunc func(req *pool.Message), opts ...message.Option) (client.Observation, error)
	ReleaseMessage(m *pool.Message)
}

// failToken: while set, the token source the connections were configured with (cfg.GetToken) fails - another way for the
// request builders to give up after they have acquired a message
var failToken atomic.Bool

func tokenSource() (message.Token, error) {
	if failToken.Load() {
		return nil, errors.New("token source exhausted")
	}
	return message.GetToken()
}

func refusedCalls(cc apiConn) {
	refusedCallsWith(cc, "/ok/"+strings.Repeat("s", 300))
	failToken.Store(true)
	refusedCallsWith(cc, "/ok/fine")
	failToken.Store(false)
}

func refusedCallsWith(cc apiConn, bad string) {
	ctx, cancel := context.WithTimeout(context.Background(), time.Second)
	defer cancel()
	give := func(m *pool.Message, err error) {
		if err == nil && m != nil {
			cc.ReleaseMessage(m)
		}
	}
	give(cc.Get(ctx, bad))
	give(cc.Post(ctx, bad, message.TextPlain, strings.NewReader("body")))
	give(cc.Put(ctx, bad, message.TextPlain, strings.NewReader("body")))
	give(cc.Delete(ctx, bad))
	if o, err := cc.Observe(ctx, bad, func(*pool.Message) {}); err == nil && o != nil {
		_ = o.Cancel(ctx)
	}
	give(cc.Post(ctx, bad, message.TextPlain, nil))
}

func scnDoUDP(t *testing.T, kind string) {
	w := newUDP(false)
	var mu sync.Mutex
	answered := map[int32]bool{}
	w.onSent = func(m *pool.Message) {
		if m.Code() < codes.GET || m.Code() > codes.DELETE {
			return
		}
		mu.Lock()
		dup := answered[m.MessageID()]
		answered[m.MessageID()] = true
		mu.Unlock()
		if dup {
			return
		}
		switch kind {
		case "piggy":
			w.inject(reply(m, message.Acknowledgement, codes.Content, m.MessageID(), "piggy", -1))
		case "separate":
			w.inject(reply(m, message.Acknowledgement, codes.Empty, m.MessageID(), "", -1))
			time.Sleep(10 * time.Millisecond)
			r := reply(m, message.NonConfirmable, codes.Content, w.nextMID(), "separate", -1)
			w.inject(r)
			w.inject(r) // and a duplicate of it
		case "dupack":
			a := reply(m, message.Acknowledgement, codes.Content, m.MessageID(), "piggy", -1)
			w.inject(a)
			w.inject(a)
		case "reset":
			w.inject(reply(m, message.Reset, codes.Empty, m.MessageID(), "", -1))
		case "silent", "cancel":
		case "refused":
			w.inject(reply(m, message.Acknowledgement, codes.Content, m.MessageID(), "piggy", -1))
		}
	}
	if kind == "refused" {
		refusedCalls(w.cc)
	}
	for i := 0; i < 3; i++ {
		ctx, cancel := context.WithTimeout(context.Background(), 40*time.Second)
		if kind == "cancel" {
			go func() { time.Sleep(time.Second); cancel() }()
		}
		done := make(chan struct{})
		go func() {
			defer close(done)
			resp, err := w.cc.Get(ctx, "/x")
			if err == nil {
				end := hold(resp)
				time.Sleep(5 * time.Millisecond) // other traffic may run meanwhile
				end()
				w.cc.ReleaseMessage(resp)
			}
		}()
		for k := 0; k < 12; k++ {
			time.Sleep(2100 * time.Millisecond)
			w.cc.CheckExpirations(time.Now())
			synctest.Wait()
			select {
			case <-done:
				k = 100
			default:
			}
		}
		cancel()
		<-done
	}
	_ = w.cc.Close()
	synctest.Wait()
}

// earlyrel: the application releases the response the moment the request call returns and immediately re-uses the
// pool, while the receive path that delivered the response is still busy (its ACK for the separate confirmable response
// is held up in the socket write).  `conf` selects a confirmable (ACK is written) or non-confirmable separate response.
func scnEarlyReleaseUDP(t *testing.T, rounds int) {
	w := newUDP(false)
	var mu sync.Mutex
	var gateCh chan struct{}
	w.gate = func(m *pool.Message) {
		if m.Type() == message.Acknowledgement && m.Code() == codes.Empty {
			mu.Lock()
			ch := gateCh
			mu.Unlock()
			if ch != nil {
				<-ch
			}
		}
	}
	answered := map[int32]bool{}
	w.onSent = func(m *pool.Message) {
		if m.Code() < codes.GET || m.Code() > codes.DELETE {
			return
		}
		mu.Lock()
		dup := answered[m.MessageID()]
		answered[m.MessageID()] = true
		mu.Unlock()
		if dup {
			return
		}
		ack := reply(m, message.Acknowledgement, codes.Empty, m.MessageID(), "", -1)
		ack.SetToken(nil) // a proper empty ACK carries no token
		w.inject(ack)
		time.Sleep(10 * time.Millisecond)
		w.inject(reply(m, message.Confirmable, codes.Content, w.nextMID(), "separate-con", -1))
	}
	for i := 0; i < rounds; i++ {
		ch := make(chan struct{})
		mu.Lock()
		gateCh = ch
		mu.Unlock()
		ctx, cancel := context.WithTimeout(context.Background(), 40*time.Second)
		resp, err := w.cc.Get(ctx, "/x")
		if err != nil {
			close(ch)
			cancel()
			continue
		}
		end := hold(resp)
		end()
		w.cc.ReleaseMessage(resp) // the application is done with the response at once
		// ... and goes on to use the pool: what it acquires now is its own until it releases it
		var mine []*pool.Message
		var ends []func()
		for k := 0; k < 3; k++ {
			m := w.cc.AcquireMessage(ctx)
			m.SetCode(codes.PUT)
			m.SetToken(message.Token{0xA0, byte(i), byte(k)})
			_ = m.SetPath("/mine")
			m.SetBody(strings.NewReader(fmt.Sprintf("mine-%d-%d", i, k)))
			mine = append(mine, m)
			ends = append(ends, hold(m))
		}
		mu.Lock()
		gateCh = nil
		mu.Unlock()
		close(ch) // the receive path finishes its ACK and its own clean-up now
		synctest.Wait()
		time.Sleep(5 * time.Millisecond)
		synctest.Wait()
		for k, m := range mine {
			ends[k]()
			w.cc.ReleaseMessage(m)
		}
		cancel()
	}
	_ = w.cc.Close()
	synctest.Wait()
}

// dupreq: n confirmable requests are answered (the replies are cached for de-duplication), then the peer repeats them all:
// every repeated request must be answered with exactly the bytes of its first reply.  A reply that changed came out of
// memory that was given back in the meantime (the cache must own what it keeps).
func scnDupReqUDP(t *testing.T, n int) {
	w := newUDP(false)
	w.handler = func(rw *responsewriter.ResponseWriter[*udpclient.Conn], r *pool.Message) {
		done := hold(r)
		body := fmt.Sprintf("reply-for-%x-%s", []byte(r.Token()), strings.Repeat("x", int(r.Token()[1])%7))
		_ = rw.SetResponse(codes.Content, message.TextPlain, strings.NewReader(body))
		done()
	}
	mk := func(i int) *pool.Message {
		m := pool.NewMessage(context.Background())
		m.SetCode(codes.GET)
		m.SetToken(message.Token{0xD0, byte(i)})
		m.SetType(message.Confirmable)
		m.SetMessageID(int32(31000 + i))
		_ = m.SetPath("/dup")
		return m
	}
	first := map[int][]byte{}
	take := func() []byte {
		var last []byte
		for _, d := range w.s.TakeSent() {
			last = d.Data
		}
		return last
	}
	for i := 0; i < n; i++ {
		w.inject(mk(i))
		synctest.Wait()
		first[i] = take()
	}
	for i := 0; i < n; i++ {
		w.inject(mk(i))
		synctest.Wait()
		again := take()
		if again != nil && !bytes.Equal(again, first[i]) {
			pool.VerifTraceMark("leak", pool.NewMessage(context.Background()))
		}
	}
	_ = w.cc.Close()
	synctest.Wait()
}

// bwwritedup: a one-way block-wise write (body larger than a block) is started twice with one token while the first is
// unfinished: the second is refused - and whatever the layer acquired for it must be given back exactly once.
func scnBWWriteDupUDP(t *testing.T, rounds int) {
	w := newUDP(true)
	for i := 0; i < rounds; i++ {
		for k := 0; k < 2; k++ {
			m := w.cc.AcquireMessage(context.Background())
			m.SetCode(codes.Content)
			m.SetToken(message.Token{0xE0, byte(i)})
			m.SetType(message.NonConfirmable)
			m.SetContentFormat(message.AppOctets)
			m.SetBody(bytes.NewReader(bytes.Repeat([]byte{byte(0x40 + k)}, 100)))
			_ = w.cc.WriteMessage(m)
			w.cc.ReleaseMessage(m)
			synctest.Wait()
		}
	}
	_ = w.cc.Close()
	synctest.Wait()
}

func scnObserveUDP(t *testing.T, n int) {
	w := newUDP(false)
	w.onSent = func(m *pool.Message) {
		if m.Code() != codes.GET {
			return
		}
		if v, err := m.Observe(); err == nil && v == 0 {
			w.inject(reply(m, message.Acknowledgement, codes.Content, m.MessageID(), "first", 2))
			for i := 0; i < n; i++ {
				time.Sleep(time.Millisecond)
				w.inject(reply(m, message.NonConfirmable, codes.Content, w.nextMID(), fmt.Sprintf("n%d", i), 3+i))
			}
		} else {
			w.inject(reply(m, message.Acknowledgement, codes.Content, m.MessageID(), "bye", -1))
		}
	}
	ctx, cancel := context.WithTimeout(context.Background(), 30*time.Second)
	defer cancel()
	obs, err := w.cc.Observe(ctx, "/o", func(m *pool.Message) {
		end := hold(m)
		end()
	})
	synctest.Wait()
	time.Sleep(50 * time.Millisecond)
	synctest.Wait()
	if err == nil {
		_ = obs.Cancel(ctx)
	}
	_ = w.cc.Close()
	synctest.Wait()
}

func scnBlockwiseUDP(t *testing.T, size int) {
	w := newUDP(true)
	// peer: a second real connection, so that both directions run the real block-wise code
	p := newUDP(true)
	w.onSent = func(m *pool.Message) { p.inject(m) }
	p.onSent = func(m *pool.Message) { w.inject(m) }
	body := make([]byte, size)
	for i := range body {
		body[i] = byte(i*7 + 1)
	}
	p.handler = func(rw *responsewriter.ResponseWriter[*udpclient.Conn], r *pool.Message) {
		end := hold(r)
		got, _ := r.ReadBody()
		_ = rw.SetResponse(codes.Content, message.AppOctets, bytes.NewReader(got))
		end()
	}
	ctx, cancel := context.WithTimeout(context.Background(), 30*time.Second)
	defer cancel()
	resp, err := w.cc.Post(ctx, "/bw", message.AppOctets, bytes.NewReader(body))
	if err == nil {
		end := hold(resp)
		end()
		w.cc.ReleaseMessage(resp)
	} else {
		pool.VerifTraceMark("note-post-error", pool.NewMessage(ctx))
	}
	synctest.Wait()
	time.Sleep(5 * time.Second)
	w.cc.CheckExpirations(time.Now())
	p.cc.CheckExpirations(time.Now())
	_ = w.cc.Close()
	_ = p.cc.Close()
	synctest.Wait()
}

func scnMixUDP(t *testing.T, seed int64, n int) {
	w := newUDP(false)
	rng := rand.New(rand.NewSource(seed))
	var mu sync.Mutex
	w.onSent = func(m *pool.Message) {
		if m.Code() < codes.GET || m.Code() > codes.DELETE {
			return
		}
		mu.Lock()
		c := rng.Intn(5)
		d := time.Duration(rng.Intn(3000)) * time.Millisecond
		mu.Unlock()
		time.Sleep(d)
		switch c {
		case 0:
			w.inject(reply(m, message.Acknowledgement, codes.Content, m.MessageID(), "p", -1))
		case 1:
			w.inject(reply(m, message.Acknowledgement, codes.Empty, m.MessageID(), "", -1))
			w.inject(reply(m, message.NonConfirmable, codes.Content, w.nextMID(), "s", -1))
		case 2:
			a := reply(m, message.Acknowledgement, codes.Content, m.MessageID(), "p", -1)
			w.inject(a)
			w.inject(a)
		case 3:
			w.inject(reply(m, message.Reset, codes.Empty, m.MessageID(), "", -1))
		}
	}
	w.handler = func(rw *responsewriter.ResponseWriter[*udpclient.Conn], r *pool.Message) {
		end := hold(r)
		_ = rw.SetResponse(codes.Content, message.TextPlain, strings.NewReader("h"))
		end()
	}
	var wg sync.WaitGroup
	for i := 0; i < n; i++ {
		wg.Add(1)
		go func(i int) {
			defer wg.Done()
			ctx, cancel := context.WithTimeout(context.Background(), time.Duration(1+i%7)*time.Second)
			defer cancel()
			resp, err := w.cc.Get(ctx, "/m"+strconv.Itoa(i%3))
			if err == nil {
				end := hold(resp)
				time.Sleep(time.Millisecond)
				end()
				w.cc.ReleaseMessage(resp)
			}
		}(i)
		if i%2 == 0 { // requests from the peer in between
			m := pool.NewMessage(context.Background())
			m.SetCode(codes.GET)
			m.SetToken(message.Token{7, byte(i)})
			m.SetType(message.Confirmable)
			m.SetMessageID(w.nextMID())
			w.inject(m)
		}
	}
	for k := 0; k < 12; k++ {
		time.Sleep(time.Second)
		w.cc.CheckExpirations(time.Now())
	}
	wg.Wait()
	_ = w.cc.Close()
	synctest.Wait()
}

// ---------------------------------------------------------------- observation / block-wise situations on real connections (hook h1)

// obscancel: a notification is still inside its callback while the application cancels the observation (the
// deregistration request and its response pass through the same connection meanwhile); later notifications reach
// the connection's handler.
func scnObsCancelUDP(t *testing.T, n int) {
	w := newUDP(false)
	w.handler = func(rw *responsewriter.ResponseWriter[*udpclient.Conn], r *pool.Message) {
		end := hold(r)
		end()
	}
	var regTok message.Token
	var mu sync.Mutex
	w.onSent = func(m *pool.Message) {
		if m.Code() != codes.GET {
			return
		}
		if v, err := m.Observe(); err == nil && v == 0 {
			mu.Lock()
			regTok = append(message.Token(nil), m.Token()...)
			mu.Unlock()
			w.inject(reply(m, message.Acknowledgement, codes.Content, m.MessageID(), "first", 2))
			for i := 0; i < n; i++ {
				time.Sleep(time.Millisecond)
				w.inject(reply(m, message.NonConfirmable, codes.Content, w.nextMID(), fmt.Sprintf("n%d", i), 3+i))
			}
		} else {
			w.inject(reply(m, message.Acknowledgement, codes.Content, m.MessageID(), "bye", -1))
		}
	}
	release := make(chan struct{})
	ctx, cancel := context.WithTimeout(context.Background(), 30*time.Second)
	defer cancel()
	obs, err := w.cc.Observe(ctx, "/o", func(m *pool.Message) {
		end := hold(m)
		if b, _ := m.ReadBody(); string(b) == "n0" {
			<-release // this notification stays in its callback
		}
		end()
	})
	synctest.Wait()
	time.Sleep(50 * time.Millisecond)
	synctest.Wait()
	if err == nil {
		done := make(chan struct{})
		go func() { defer close(done); _ = obs.Cancel(ctx) }()
		synctest.Wait()
		time.Sleep(50 * time.Millisecond)
		synctest.Wait()
		close(release)
		<-done
		// a notification that was on its way
		mu.Lock()
		tok := regTok
		mu.Unlock()
		late := pool.NewMessage(context.Background())
		late.SetToken(tok)
		w.inject(reply(late, message.NonConfirmable, codes.Content, w.nextMID(), "late", 40))
	} else {
		close(release)
	}
	synctest.Wait()
	_ = w.cc.Close()
	synctest.Wait()
}

// scriptedBlocks: a peer that serves `body` in blocks of 16 under whatever token the GET carries
func blockReply(req *pool.Message, typ message.Type, mid int32, body []byte, num int, obs int) *pool.Message {
	m := pool.NewMessage(context.Background())
	m.SetCode(codes.Content)
	m.SetToken(req.Token())
	m.SetType(typ)
	m.SetMessageID(mid)
	if obs >= 0 {
		m.SetObserve(uint32(obs))
	}
	m.SetContentFormat(message.AppOctets)
	end := (num + 1) * 16
	more := true
	if end >= len(body) {
		end, more = len(body), false
	}
	v, _ := blockwise.EncodeBlockOption(blockwise.SZX16, int64(num), more)
	m.SetOptionUint32(message.Block2, v)
	m.SetBody(bytes.NewReader(body[num*16 : end]))
	return m
}

// obsblock: notifications whose body takes several blocks: the layer fetches the rest under a new token and hands the
// reassembled message to the callback.
func scnObsBlockUDP(t *testing.T, n int) {
	w := newUDP(true)
	body := bytes.Repeat([]byte("0123456789abcdef"), 2)
	body = append(body, []byte("tail")...)
	w.onSent = func(m *pool.Message) {
		if m.Code() != codes.GET {
			return
		}
		if bv, err := m.GetOptionUint32(message.Block2); err == nil {
			if _, num, _, err := blockwise.DecodeBlockOption(bv); err == nil && num > 0 {
				w.inject(blockReply(m, message.Acknowledgement, m.MessageID(), body, int(num), -1))
				return
			}
		}
		if v, err := m.Observe(); err == nil && v == 0 {
			w.inject(reply(m, message.Acknowledgement, codes.Content, m.MessageID(), "first", 2))
			for i := 0; i < n; i++ {
				time.Sleep(20 * time.Millisecond)
				w.inject(blockReply(m, message.NonConfirmable, w.nextMID(), body, 0, 3+i))
			}
		} else {
			w.inject(reply(m, message.Acknowledgement, codes.Content, m.MessageID(), "bye", -1))
		}
	}
	ctx, cancel := context.WithTimeout(context.Background(), 30*time.Second)
	defer cancel()
	obs, err := w.cc.Observe(ctx, "/o", func(m *pool.Message) {
		end := hold(m)
		if b, _ := m.ReadBody(); len(b) > 5 && !bytes.Equal(b, body) {
			pool.VerifTraceMark("changed", m)
		}
		end()
	})
	synctest.Wait()
	time.Sleep(time.Second)
	synctest.Wait()
	if err == nil {
		_ = obs.Cancel(ctx)
	}
	time.Sleep(5 * time.Second)
	w.cc.CheckExpirations(time.Now())
	_ = w.cc.Close()
	synctest.Wait()
}

// doabandon: a block-wise upload whose caller gives up while the transfer is under way (the peer stops answering after
// `answered` blocks); the answer to the block that was on its way arrives afterwards; then the housekeeping tick.
func scnDoAbandonUDP(t *testing.T, answered int) {
	w := newUDP(true)
	var mu sync.Mutex
	var last *pool.Message
	count := 0
	w.onSent = func(m *pool.Message) {
		if m.Code() != codes.POST {
			return
		}
		bv, err := m.GetOptionUint32(message.Block1)
		if err != nil {
			return
		}
		_, num, more, _ := blockwise.DecodeBlockOption(bv)
		mu.Lock()
		count++
		c := count
		mu.Unlock()
		r := pool.NewMessage(context.Background())
		r.SetCode(codes.Continue)
		r.SetToken(m.Token())
		r.SetType(message.Acknowledgement)
		r.SetMessageID(m.MessageID())
		v, _ := blockwise.EncodeBlockOption(blockwise.SZX16, num, more)
		r.SetOptionUint32(message.Block1, v)
		if c <= answered {
			w.inject(r)
			return
		}
		mu.Lock()
		if last == nil {
			last = r
		}
		mu.Unlock()
	}
	ctx, cancel := context.WithTimeout(context.Background(), 1500*time.Millisecond)
	body := bytes.Repeat([]byte{0x5a}, 70)
	req := w.cc.AcquireMessage(ctx)
	req.SetCode(codes.POST)
	tok, _ := message.GetToken()
	req.SetToken(tok)
	_ = req.SetPath("/up")
	req.SetContentFormat(message.AppOctets)
	req.SetBody(bytes.NewReader(body))
	endReq := hold(req) // the request is the caller's for the whole call and beyond
	resp, err := w.cc.Do(req)
	if err == nil {
		end := hold(resp)
		end()
		w.cc.ReleaseMessage(resp)
	}
	cancel()
	synctest.Wait()
	mu.Lock()
	l := last
	mu.Unlock()
	if l != nil {
		w.inject(l) // the late answer
		synctest.Wait()
	}
	endReq()
	w.cc.ReleaseMessage(req)
	time.Sleep(5 * time.Second)
	w.cc.CheckExpirations(time.Now())
	synctest.Wait()
	_ = w.cc.Close()
	synctest.Wait()
}

// bwsweep: an upload from the peer stalls after its first blocks; long after the entry's validity the housekeeping tick
// runs while (`order` = both), before (sweepfirst) or after (blockfirst) the last block of the same token is handled;
// then the transfer is repeated from its first block.
func scnBWSweepUDP(t *testing.T, order string) {
	w := newUDP(true)
	w.handler = func(rw *responsewriter.ResponseWriter[*udpclient.Conn], r *pool.Message) {
		end := hold(r)
		_, _ = r.ReadBody()
		time.Sleep(time.Millisecond)
		_ = rw.SetResponse(codes.Changed, message.TextPlain, strings.NewReader("done"))
		end()
	}
	body := bytes.Repeat([]byte{0x33}, 40)
	blk := func(num int) *pool.Message {
		m := pool.NewMessage(context.Background())
		m.SetCode(codes.PUT)
		m.SetToken(message.Token{0xB5, 0x01})
		m.SetType(message.Confirmable)
		m.SetMessageID(w.nextMID())
		_ = m.SetPath("/up")
		end := (num + 1) * 16
		more := true
		if end >= len(body) {
			end, more = len(body), false
		}
		v, _ := blockwise.EncodeBlockOption(blockwise.SZX16, int64(num), more)
		m.SetOptionUint32(message.Block1, v)
		m.SetBody(bytes.NewReader(body[num*16 : end]))
		return m
	}
	for round := 0; round < 2; round++ {
		w.inject(blk(0))
		synctest.Wait()
		w.inject(blk(1))
		synctest.Wait()
		if round == 0 {
			time.Sleep(10 * time.Second) // the entry's validity is 3 s
			switch order {
			case "sweepfirst":
				w.cc.CheckExpirations(time.Now())
				w.inject(blk(2))
			case "blockfirst":
				w.inject(blk(2))
				w.cc.CheckExpirations(time.Now())
			default:
				done := make(chan struct{})
				go func() { defer close(done); w.inject(blk(2)) }()
				w.cc.CheckExpirations(time.Now())
				<-done
			}
		} else {
			w.inject(blk(2))
		}
		synctest.Wait()
		time.Sleep(10 * time.Millisecond)
		synctest.Wait()
	}
	_ = w.cc.Close()
	synctest.Wait()
}

// ---------------------------------------------------------------- request bodies that fail

// faultyBody: an application's body reader that fails: on Read after `readOK` bytes were delivered (readOK < 0: never), on
// the `seekFail`-th call of Seek (seekFail < 0: never).
type faultyBody struct {
	r        *bytes.Reader
	readOK   int
	seekFail int
	given    int
	seeks    int
}

var errFaultyBody = errors.New("body cannot be read")

func (b *faultyBody) Read(p []byte) (int, error) {
	if b.readOK >= 0 {
		left := b.readOK - b.given
		if left <= 0 {
			return 0, errFaultyBody
		}
		if len(p) > left {
			p = p[:left]
		}
	}
	n, err := b.r.Read(p)
	b.given += n
	return n, err
}

func (b *faultyBody) Seek(off int64, whence int) (int64, error) {
	b.seeks++
	if b.seekFail >= 0 && b.seeks-1 == b.seekFail {
		return 0, errFaultyBody
	}
	if whence == io.SeekStart && b.readOK >= 0 {
		// a fresh pass over the body may again deliver its first bytes
		b.given = int(off)
	}
	return b.r.Seek(off, whence)
}

// badbody: requests whose body fails while the library copies it (the copy kept for the retransmissions of a confirmable
// message, the block cut out for a block-wise transfer, the datagram itself), between ordinary requests that recycle the
// pool's messages.  fault = read<k> | seek<k>; typ = con | non; api = post | do | write; size of the body in bytes.
func scnBadBodyUDP(t *testing.T, bw bool, fault, typ, api string, size int) {
	w := newUDP(bw)
	w.handler = func(rw *responsewriter.ResponseWriter[*udpclient.Conn], r *pool.Message) {
		end := hold(r)
		end()
	}
	var mu sync.Mutex
	answered := map[int32]bool{}
	w.onSent = func(m *pool.Message) {
		if m.Code() < codes.GET || m.Code() > codes.DELETE {
			return
		}
		mu.Lock()
		dup := answered[m.MessageID()]
		answered[m.MessageID()] = true
		mu.Unlock()
		if dup {
			return
		}
		typR, mid := message.Acknowledgement, m.MessageID()
		if m.Type() != message.Confirmable {
			typR, mid = message.NonConfirmable, w.nextMID()
		}
		code := codes.Changed
		r := reply(m, typR, code, mid, "ok", -1)
		if bv, err := m.GetOptionUint32(message.Block1); err == nil {
			if _, _, more, err := blockwise.DecodeBlockOption(bv); err == nil && more {
				r = reply(m, typR, codes.Continue, mid, "", -1)
			}
			r.SetOptionUint32(message.Block1, bv)
		}
		w.inject(r)
	}
	k, _ := strconv.Atoi(strings.TrimLeft(fault, "readsek"))
	mkBody := func(faulty bool) io.ReadSeeker {
		data := bytes.Repeat([]byte{0x42}, size)
		if !faulty {
			return bytes.NewReader(data)
		}
		fb := &faultyBody{r: bytes.NewReader(data), readOK: -1, seekFail: -1}
		if strings.HasPrefix(fault, "read") {
			fb.readOK = k
		} else {
			fb.seekFail = k
		}
		return fb
	}
	one := func(i int, faulty bool) {
		ctx, cancel := context.WithTimeout(context.Background(), 5*time.Second)
		defer cancel()
		give := func(resp *pool.Message, err error) {
			if err == nil && resp != nil {
				end := hold(resp)
				end()
				w.cc.ReleaseMessage(resp)
			}
		}
		if api == "post" && typ == "con" {
			give(w.cc.Post(ctx, "/b", message.AppOctets, mkBody(faulty)))
			return
		}
		req := w.cc.AcquireMessage(ctx)
		req.SetCode(codes.POST)
		tok, _ := message.GetToken()
		req.SetToken(tok)
		_ = req.SetPath("/b")
		if typ == "non" {
			req.SetType(message.NonConfirmable)
		} else {
			req.SetType(message.Confirmable)
		}
		req.SetContentFormat(message.AppOctets)
		req.SetBody(mkBody(faulty))
		if api == "write" {
			_ = w.cc.WriteMessage(req)
		} else {
			give(w.cc.Do(req))
		}
		w.cc.ReleaseMessage(req)
	}
	for i := 0; i < 5; i++ {
		one(i, i == 1 || i == 3)
		synctest.Wait()
		// traffic from the peer in between takes messages out of the pool as well
		m := pool.NewMessage(context.Background())
		m.SetCode(codes.GET)
		m.SetToken(message.Token{0xBB, byte(i)})
		m.SetType(message.NonConfirmable)
		m.SetMessageID(w.nextMID())
		w.inject(m)
		synctest.Wait()
	}
	time.Sleep(6 * time.Second)
	w.cc.CheckExpirations(time.Now())
	synctest.Wait()
	_ = w.cc.Close()
	synctest.Wait()
}

// ---------------------------------------------------------------- tcp

func scnTCP(t *testing.T, name string, arg string) {
	var handler func(w *responsewriter.ResponseWriter[*tcpclient.Conn], r *pool.Message)
	cc, peer, err := mem.NewTCPConn(mem.TCPOpts{Mutate: func(cfg *tcpclient.Config) {
		cfg.GetToken = tokenSource
		cfg.LimitClientParallelRequests = 16
		cfg.LimitClientEndpointParallelRequests = 16
		cfg.BlockwiseEnable = false
		cfg.Handler = func(w *responsewriter.ResponseWriter[*tcpclient.Conn], r *pool.Message) {
			if handler != nil {
				handler(w, r)
			}
		}
	}})
	if err != nil {
		return
	}
	synctest.Wait()
	peer.TakeFrames()
	send := func(m *pool.Message) {
		b, err := m.MarshalWithEncoder(tcpcoder.DefaultCoder)
		if err != nil {
			panic(err)
		}
		_ = peer.Write(append([]byte(nil), b...))
	}
	answer := func() {
		for _, fr := range peer.TakeFrames() {
			m := pool.NewMessage(context.Background())
			if _, err := m.UnmarshalWithDecoder(tcpcoder.DefaultCoder, fr); err != nil {
				continue
			}
			if poisoned(m) {
				pool.VerifTraceMark("leak", m)
			}
			if m.Code() >= codes.GET && m.Code() <= codes.DELETE {
				r := pool.NewMessage(context.Background())
				r.SetCode(codes.Content)
				r.SetToken(m.Token())
				r.SetBody(strings.NewReader("tcp"))
				r.SetContentFormat(message.TextPlain)
				send(r)
			}
		}
	}
	switch name {
	case "path":
		var hijacked *pool.Message
		var endHold func()
		handler = func(rw *responsewriter.ResponseWriter[*tcpclient.Conn], r *pool.Message) {
			pool.VerifTraceMark("isreq", r)
			pool.VerifTraceMark("isresp", rw.Message())
			done := hold(r)
			var swapped []*pool.Message
			hj := false
			for _, op := range arg {
				switch op {
				case 'S':
					m := cc.AcquireMessage(r.Context())
					pool.VerifTraceMark("fresh", m)
					m.SetCode(codes.Content)
					m.SetToken(r.Token())
					rw.SetMessage(m)
				case 'W':
					m := cc.AcquireMessage(r.Context())
					pool.VerifTraceMark("fresh", m)
					m.SetCode(codes.Changed)
					m.SetToken(r.Token())
					swapped = append([]*pool.Message{rw.Swap(m)}, swapped...)
				case 'R':
					if len(swapped) > 0 {
						cc.ReleaseMessage(swapped[0])
						swapped = swapped[1:]
					}
				case 'H':
					r.Hijack()
					hj = true
				case 'C':
					_ = rw.SetResponse(codes.Content, message.TextPlain, strings.NewReader("ok"))
				}
			}
			if hj {
				hijacked, endHold = r, done
			} else {
				done()
			}
		}
		req := pool.NewMessage(context.Background())
		req.SetCode(codes.POST)
		req.SetToken(message.Token{1, 2, 3})
		_ = req.SetPath("/a")
		req.SetBody(strings.NewReader("body"))
		req.SetContentFormat(message.TextPlain)
		send(req)
		synctest.Wait()
		handler = nil
		for i := 0; i < 3; i++ {
			m := pool.NewMessage(context.Background())
			m.SetCode(codes.GET)
			m.SetToken(message.Token{9, byte(i)})
			send(m)
			synctest.Wait()
		}
		if hijacked != nil {
			endHold()
			cc.ReleaseMessage(hijacked)
		}
	case "do":
		if arg == "refused" {
			refusedCalls(cc)
		}
		for i := 0; i < 3; i++ {
			ctx, cancel := context.WithTimeout(context.Background(), 5*time.Second)
			done := make(chan struct{})
			go func() {
				defer close(done)
				resp, err := cc.Get(ctx, "/x")
				if err == nil {
					end := hold(resp)
					time.Sleep(time.Millisecond)
					end()
					cc.ReleaseMessage(resp)
				}
			}()
			synctest.Wait()
			if arg != "silent" {
				answer()
			}
			synctest.Wait()
			if arg == "silent" {
				time.Sleep(6 * time.Second)
			}
			cancel()
			<-done
		}
	}
	_ = cc.Close()
	peer.Close()
	synctest.Wait()
}

// ---------------------------------------------------------------- large frames (sizes at and beyond the 16-bit boundary)

// frameOfLen encodes a message whose encoded form is exactly n bytes long (the payload is cut to fit).
func frameOfLen(enc func(m *pool.Message) ([]byte, error), code codes.Code, token message.Token, path string, fill byte, n int) []byte {
	pl := n - 32
	if pl < 1 {
		pl = 1
	}
	for i := 0; i < 12; i++ {
		m := pool.NewMessage(context.Background())
		m.SetCode(code)
		m.SetToken(token)
		m.SetMessageID(int32(20000 + i))
		m.SetType(message.NonConfirmable)
		if path != "" {
			_ = m.SetPath(path)
		}
		m.SetContentFormat(message.AppOctets)
		body := make([]byte, pl)
		for k := range body {
			body[k] = fill + byte(k%89)
		}
		m.SetBody(bytes.NewReader(body))
		b, err := enc(m)
		if err != nil {
			panic(err)
		}
		if len(b) == n {
			return append([]byte(nil), b...)
		}
		pl += n - len(b)
		if pl < 1 {
			break
		}
	}
	panic(fmt.Sprintf("no frame of %d bytes", n))
}

// decode: a message decoded from n bytes keeps its content when the memory the bytes were received in is used for
// the next message (a transport's read buffer is): what the holder of the message reads is the message's own.
func scnDecode(t *testing.T, coder string, n int) {
	var frame []byte
	p := pool.New(64, 2048)
	m := p.AcquireMessage(context.Background())
	var err error
	if coder == "udp" {
		frame = frameOfLen(func(m *pool.Message) ([]byte, error) { return m.MarshalWithEncoder(udpcoder.DefaultCoder) }, codes.POST, message.Token{1, 2, 3, 4}, "/decode", 7, n)
		_, err = m.UnmarshalWithDecoder(udpcoder.DefaultCoder, frame)
	} else {
		frame = frameOfLen(func(m *pool.Message) ([]byte, error) { return m.MarshalWithEncoder(tcpcoder.DefaultCoder) }, codes.POST, message.Token{1, 2, 3, 4}, "/decode", 7, n)
		_, err = m.UnmarshalWithDecoder(tcpcoder.DefaultCoder, frame)
	}
	if err != nil {
		pool.VerifTraceMark("note-decode-error", m)
		p.ReleaseMessage(m)
		return
	}
	end := hold(m)
	for i := range frame {
		frame[i] = 0xEE // the next message arrives in the same memory
	}
	end()
	p.ReleaseMessage(m)
}

// jumbo: a frame of exactly n bytes on a tcp connection (block-wise off, MaxMessageSize 1 MiB): as a request that is
// inside its handler (`req`) or as a response the caller of Get still holds (`resp`) while the connection goes on
// receiving.  The peer pipelines: a small request, the frame, and the beginning of the next frame arrive in one write (so
// the stream buffer of the session is not empty when the frame has been decoded); once the message is held, a long run of
// further frames follows (more bytes than the stream buffer has room for, every frame handled at once).
func scnJumboTCP(t *testing.T, n int, role string) {
	var handler func(w *responsewriter.ResponseWriter[*tcpclient.Conn], r *pool.Message)
	cc, peer, err := mem.NewTCPConn(mem.TCPOpts{Mutate: func(cfg *tcpclient.Config) {
		cfg.GetToken = tokenSource
		cfg.BlockwiseEnable = false
		cfg.MaxMessageSize = 1 << 20
		cfg.ReceivedMessageQueueSize = 2048 // requests that arrive while a handler runs wait here
		cfg.Handler = func(w *responsewriter.ResponseWriter[*tcpclient.Conn], r *pool.Message) {
			if handler != nil {
				handler(w, r)
			}
		}
	}})
	if err != nil {
		return
	}
	synctest.Wait()
	peer.TakeFrames()
	enc := func(m *pool.Message) ([]byte, error) { return m.MarshalWithEncoder(tcpcoder.DefaultCoder) }
	const fill = 2048
	prefix := frameOfLen(enc, codes.POST, message.Token{7, 7}, "/small", 55, 40)
	if (len(prefix)+n)%fill == 0 {
		prefix = frameOfLen(enc, codes.POST, message.Token{7, 7}, "/small", 55, 41)
	}
	var rest []byte
	for i := 0; i < (2*n+140000)/fill; i++ {
		rest = append(rest, frameOfLen(enc, codes.POST, message.Token{8, byte(i), byte(i >> 8)}, "/next", byte(131+i), fill)...)
	}
	first := func(frame []byte) []byte {
		out := append(append([]byte(nil), prefix...), frame...)
		return append(out, rest[:100]...)
	}
	switch role {
	case "req":
		inHandler := make(chan struct{})
		goOn := make(chan struct{})
		handler = func(rw *responsewriter.ResponseWriter[*tcpclient.Conn], r *pool.Message) {
			if p, _ := r.Path(); p != "/first" {
				return
			}
			done := hold(r)
			close(inHandler)
			<-goOn
			done()
		}
		sent := make(chan struct{})
		go func() {
			defer close(sent)
			_ = peer.Write(first(frameOfLen(enc, codes.POST, message.Token{1, 2, 3, 4}, "/first", 7, n)))
			<-inHandler
			_ = peer.Write(rest[100:])
		}()
		<-inHandler
		synctest.Wait()
		close(goOn)
		<-sent
		synctest.Wait()
	case "resp":
		ctx, cancel := context.WithTimeout(context.Background(), 5*time.Second)
		defer cancel()
		type res struct {
			m   *pool.Message
			err error
		}
		ch := make(chan res, 1)
		go func() { m, err := cc.Get(ctx, "/big"); ch <- res{m, err} }()
		synctest.Wait()
		var tok message.Token
		for _, fr := range peer.TakeFrames() {
			m := pool.NewMessage(context.Background())
			if _, err := m.UnmarshalWithDecoder(tcpcoder.DefaultCoder, fr); err == nil && m.Code() == codes.GET {
				tok = append(message.Token(nil), m.Token()...)
			}
		}
		go func() { _ = peer.Write(first(frameOfLen(enc, codes.Content, tok, "", 7, n))) }()
		r := <-ch
		if r.err == nil {
			end := hold(r.m)
			synctest.Wait()
			_ = peer.Write(rest[100:])
			synctest.Wait()
			end()
			cc.ReleaseMessage(r.m)
		} else {
			pool.VerifTraceMark("note-get-error", pool.NewMessage(ctx))
		}
	}
	_ = cc.Close()
	peer.Close()
	synctest.Wait()
}

// ---------------------------------------------------------------- driver

func runScenario(t *testing.T, f []string) (trace []string) {
	synctest.Test(t, func(t *testing.T) {
		pool.VerifTraceEnable(true)
		defer func() {
			if r := recover(); r != nil {
				trace = append(pool.VerifTraceTake(), fmt.Sprintf("panic %v", r))
			}
		}()
		arg := ""
		if len(f) > 3 {
			arg = f[3]
		}
		// path programs over the tracking pool (paths_test.go): the trace is the tracking pool's
		if f[1] == "obs" || f[1] == "bw" {
			defer func() {
				if r := recover(); r != nil {
					trace = []string{fmt.Sprintf("panic %v", r)}
				}
			}()
			pathsFresh = arg == "fresh"
			if f[1] == "obs" {
				trace = pathsObs(f[2])
			} else {
				trace = pathsBw(f[2])
			}
			return
		}
		switch f[1] + ":" + f[2] {
		case "udp:path":
			scnPathUDP(t, arg)
		case "udp:do":
			scnDoUDP(t, arg)
		case "udp:dupreq":
			n, _ := strconv.Atoi(arg)
			scnDupReqUDP(t, n)
		case "udp:bwwritedup":
			n, _ := strconv.Atoi(arg)
			scnBWWriteDupUDP(t, n)
		case "udp:earlyrel":
			n, _ := strconv.Atoi(arg)
			scnEarlyReleaseUDP(t, n)
		case "udp:observe":
			n, _ := strconv.Atoi(arg)
			scnObserveUDP(t, n)
		case "udp:badbody", "udp:badbodybw":
			// scn udp badbody[bw] <fault> <con|non> <post|do|write> <size>
			if len(f) >= 7 {
				size, _ := strconv.Atoi(f[6])
				scnBadBodyUDP(t, f[2] == "badbodybw", f[3], f[4], f[5], size)
			}
		case "udp:obscancel":
			n, _ := strconv.Atoi(arg)
			scnObsCancelUDP(t, n)
		case "udp:obsblock":
			n, _ := strconv.Atoi(arg)
			scnObsBlockUDP(t, n)
		case "udp:doabandon":
			n, _ := strconv.Atoi(arg)
			scnDoAbandonUDP(t, n)
		case "udp:bwsweep":
			scnBWSweepUDP(t, arg)
		case "udp:blockwise":
			n, _ := strconv.Atoi(arg)
			scnBlockwiseUDP(t, n)
		case "udp:mix":
			seed, _ := strconv.ParseInt(arg, 10, 64)
			n := 8
			if len(f) > 4 {
				n, _ = strconv.Atoi(f[4])
			}
			scnMixUDP(t, seed, n)
		case "tcp:path", "tcp:do":
			scnTCP(t, f[2], arg)
		case "tcp:jumbo":
			// scn tcp jumbo <frame length> <req|resp>
			if len(f) >= 5 {
				n, _ := strconv.Atoi(f[3])
				scnJumboTCP(t, n, f[4])
			}
		case "pool:decode":
			// scn pool decode <tcp|udp> <encoded length>
			if len(f) >= 5 {
				n, _ := strconv.Atoi(f[4])
				scnDecode(t, f[3], n)
			}
		default:
			pool.VerifTraceMark("bad-scenario", pool.NewMessage(context.Background()))
		}
		trace = pool.VerifTraceTake()
		pool.VerifTraceEnable(false)
	})
	return trace
}

func TestC12(t *testing.T) {
	err := lp.FileLoop(func(f []string, w *bufio.Writer) {
		if len(f) >= 3 && f[0] == "scn" {
			tr := runScenario(t, f)
			if len(tr) == 0 {
				fmt.Fprintln(w, "trace -")
				return
			}
			fmt.Fprintln(w, "trace "+strings.Join(tr, ";"))
			return
		}
		fmt.Fprintln(w, "bad-op")
	})
	if err != nil {
		t.Fatal(err)
	}
}
