// Path programs of C12 (Model/OwnershipPaths.lean) against the real code: the real observation.Handler and the real
// blockwise.BlockWise run over a tracking LIFO pool (free list with Reset on release, as message/pool does — the same
// idea as harness/c04's trackPool); the harness plays the receive path (acquire the received message, acquire the
// response, call the layer, release the response, release the message unless hijacked) and the application.  Before every
// step (or group of steps the code does in one go) the harness puts a mark `step <spec>` into the trace; where two
// goroutines meet (a callback that is still running while Cancel runs, an expiry sweep while a block is being appended,
// a Do given up while its transfer is under way) the first is parked at a gate.  The driver (Driver/C12Paths.lean) runs the
// steps on the program and compares the events segment by segment.
//
// `scn obs <name> [fresh]`  observation paths;  `scn bw <name> [fresh]`  block-wise paths.  Pool mode: LIFO re-use (a
// message that is used after its release is somebody else's by then) or `fresh` (no re-use: a second release of an object
// cannot hide behind its re-acquisition).
package c12

import (
	"bytes"
	"context"
	"errors"
	"fmt"
	"io"
	"sync"
	"testing/synctest"
	"time"

	"github.com/plgd-dev/go-coap/v3/message"
	"github.com/plgd-dev/go-coap/v3/message/codes"
	"github.com/plgd-dev/go-coap/v3/message/pool"
	"github.com/plgd-dev/go-coap/v3/net/blockwise"
	"github.com/plgd-dev/go-coap/v3/net/observation"
	"github.com/plgd-dev/go-coap/v3/net/responsewriter"
)

type tpool struct {
	mu    sync.Mutex
	free  []*pool.Message
	ids   map[*pool.Message]int
	out   map[*pool.Message]bool
	trace []string
	ctx   context.Context
	fresh bool // never hand a released object out again: a second release of it cannot hide behind a re-acquisition
}

// pathsFresh: pool mode of the scenario that runs (`scn obs|bw <name> fresh`)
var pathsFresh bool

func newTPool(ctx context.Context) *tpool {
	return &tpool{ids: map[*pool.Message]int{}, out: map[*pool.Message]bool{}, ctx: ctx, fresh: pathsFresh}
}

func (p *tpool) idLocked(m *pool.Message) int {
	if v, ok := p.ids[m]; ok {
		return v
	}
	p.ids[m] = len(p.ids) + 1
	return p.ids[m]
}

func (p *tpool) id(m *pool.Message) int { p.mu.Lock(); defer p.mu.Unlock(); return p.idLocked(m) }

func (p *tpool) AcquireMessage(ctx context.Context) *pool.Message {
	p.mu.Lock()
	defer p.mu.Unlock()
	var m *pool.Message
	if n := len(p.free); n > 0 {
		m = p.free[n-1]
		p.free = p.free[:n-1]
		m.Reset() // takes the pool's trap body off
		m.SetContext(ctx)
	} else {
		m = pool.NewMessage(ctx)
	}
	p.out[m] = true
	p.trace = append(p.trace, fmt.Sprintf("acq %d", p.idLocked(m)))
	return m
}

func (p *tpool) ReleaseMessage(m *pool.Message) {
	p.mu.Lock()
	defer p.mu.Unlock()
	p.trace = append(p.trace, fmt.Sprintf("rel %d", p.idLocked(m)))
	if !p.out[m] {
		return // released twice: the monitor reports it; the free list keeps it once
	}
	delete(p.out, m)
	m.Reset()
	// a message that sits in the pool carries a body that reports every access: whoever reads the body (or asks for its
	// size) of a message he has released is seen (`use n`)
	m.SetBody(&trapBody{p: p, id: p.idLocked(m)})
	if !p.fresh {
		p.free = append(p.free, m)
	}
}

// trapBody: the body of a message that sits in the pool
type trapBody struct {
	p  *tpool
	id int
}

func (b *trapBody) log() {
	b.p.mu.Lock()
	defer b.p.mu.Unlock()
	b.p.trace = append(b.p.trace, fmt.Sprintf("use %d", b.id))
}
func (b *trapBody) Read([]byte) (int, error)       { b.log(); return 0, io.EOF }
func (b *trapBody) Seek(int64, int) (int64, error) { b.log(); return 0, nil }

func (p *tpool) Context() context.Context { return p.ctx }

func (p *tpool) WriteMessage(*pool.Message) error { return nil }

func (p *tpool) ev(kind string, m *pool.Message) {
	p.mu.Lock()
	defer p.mu.Unlock()
	p.trace = append(p.trace, fmt.Sprintf("%s %d", kind, p.idLocked(m)))
}

func (p *tpool) step(format string, a ...any) {
	p.mu.Lock()
	defer p.mu.Unlock()
	p.trace = append(p.trace, "step "+fmt.Sprintf(format, a...))
}

func (p *tpool) take() []string {
	p.mu.Lock()
	defer p.mu.Unlock()
	t := p.trace
	p.trace = nil
	return t
}

// rx: one invocation of the receive path
type rx struct {
	x *pool.Message
	w *responsewriter.ResponseWriter[*tpool]
}

func (p *tpool) rxStart(mark string, fill func(x *pool.Message)) *rx {
	p.step("%s", mark)
	x := p.AcquireMessage(p.ctx)
	fill(x)
	w := p.AcquireMessage(p.ctx)
	w.SetToken(x.Token())
	return &rx{x: x, w: responsewriter.New(w, p, x.Options()...)}
}

// rxFinish: what ProcessReceivedMessageWithHandler does after the handler returned (udp order)
func (p *tpool) rxFinish(r *rx) {
	p.ReleaseMessage(r.w.Message())
	if !r.x.IsHijacked() {
		p.ReleaseMessage(r.x)
	}
}

var (
	pathsToken = message.Token{0xC1, 0x20, 0x01}
)

func bodyOf(n int) []byte {
	b := make([]byte, n)
	for i := range b {
		b[i] = byte(i*5 + 3)
	}
	return b
}

func blockVal(num int, more bool) uint32 {
	v, err := blockwise.EncodeBlockOption(blockwise.SZX16, int64(num), more)
	if err != nil {
		panic(err)
	}
	return v
}

type gated struct {
	data    *bytes.Reader
	once    sync.Once
	reading chan struct{}
	release chan struct{}
}

func (g *gated) Read(b []byte) (int, error) {
	g.once.Do(func() { close(g.reading); <-g.release })
	return g.data.Read(b)
}
func (g *gated) Seek(off int64, whence int) (int64, error) { return g.data.Seek(off, whence) }

// ---------------------------------------------------------------- observation

type delivery struct {
	hijack bool
	gate   chan struct{}
}

type obsWorld struct {
	tp   *tpool
	h    *observation.Handler[*tpool]
	mu   sync.Mutex
	dl   map[*pool.Message]*delivery
	doCh chan func() (*pool.Message, error)
}

func newObsWorld(tp *tpool) *obsWorld {
	o := &obsWorld{tp: tp, dl: map[*pool.Message]*delivery{}, doCh: make(chan func() (*pool.Message, error))}
	o.h = observation.NewHandler(tp, func(_ *responsewriter.ResponseWriter[*tpool], r *pool.Message) { o.callback(r) },
		func(*pool.Message) (*pool.Message, error) { return (<-o.doCh)() })
	return o
}

// callback: the application's observe function (and its handler for messages no observation claims)
func (o *obsWorld) callback(m *pool.Message) {
	o.mu.Lock()
	d := o.dl[m]
	o.mu.Unlock()
	o.tp.ev("hold", m)
	if d != nil && d.hijack {
		o.tp.step("hijack:%d", o.tp.id(m))
		m.Hijack()
	}
	if d != nil && d.gate != nil {
		<-d.gate
	}
	if d == nil || !d.hijack {
		o.tp.ev("unhold", m)
	}
}

// deliver starts one receive-path invocation in its own goroutine; the returned function lets the callback return and
// finishes the invocation
func (o *obsWorld) deliver(notify bool, obs int, d *delivery) (x *pool.Message, finish func()) {
	mark := "deliver:?:?:1"
	if !notify {
		mark = "deliver:?:?:0+cbReturn:0:$1" // the callback is not called: the invocation runs through
	}
	r := o.tp.rxStart(mark, func(x *pool.Message) {
		x.SetCode(codes.Content)
		x.SetToken(pathsToken)
		if obs >= 0 {
			x.SetObserve(uint32(obs))
		}
		x.SetContentFormat(message.TextPlain)
		x.SetBody(bytes.NewReader([]byte("n")))
	})
	if d == nil {
		d = &delivery{}
	}
	d.gate = make(chan struct{})
	o.mu.Lock()
	o.dl[r.x] = d
	o.mu.Unlock()
	done := make(chan struct{})
	go func() {
		defer close(done)
		o.h.Handle(r.w, r.x)
		o.tp.rxFinish(r)
	}()
	synctest.Wait()
	return r.x, func() {
		if notify {
			o.tp.step("cbReturn:0:%d", o.tp.id(r.x))
		}
		close(d.gate)
		<-done
		o.mu.Lock()
		delete(o.dl, r.x)
		o.mu.Unlock()
	}
}

func pathsObs(name string) []string {
	ctx, cancelAll := context.WithCancel(context.Background())
	defer cancelAll()
	tp := newTPool(ctx)
	o := newObsWorld(tp)
	// registration (what Client.Observe does around NewObservation)
	tp.step("observeStart:?")
	req := tp.AcquireMessage(ctx)
	req.SetCode(codes.GET)
	req.SetToken(pathsToken)
	_ = req.SetPath("/obs")
	req.SetObserve(0)
	var obs *observation.Observation[*tpool]
	regDone := make(chan struct{})
	go func() {
		defer close(regDone)
		obs, _ = o.h.NewObservation(req, o.callback)
	}()
	synctest.Wait()
	_, fin := o.deliver(true, 2, nil) // the response to the registration, through the same callback
	fin()
	<-regDone
	tp.step("observeEnd:1")
	tp.ReleaseMessage(req)
	if obs == nil {
		return append(tp.take(), "panic 0")
	}
	cancelWith := func(ok bool) chan struct{} {
		tp.step("cancel:?")
		cdone := make(chan struct{})
		go func() { defer close(cdone); _ = obs.Cancel(ctx) }()
		synctest.Wait()
		if ok {
			tp.step("cancelResp:?+cancelEnd")
			o.doCh <- func() (*pool.Message, error) {
				p := tp.AcquireMessage(ctx)
				p.SetCode(codes.Content)
				p.SetToken(pathsToken)
				return p, nil
			}
		} else {
			tp.step("cancelFail")
			o.doCh <- func() (*pool.Message, error) { return nil, errors.New("gone") }
		}
		<-cdone
		return cdone
	}
	switch name {
	case "basic":
		for i := 0; i < 2; i++ {
			_, fin := o.deliver(true, 3+i, nil)
			fin()
		}
		_, fin := o.deliver(false, 1, nil) // an out-of-date notification: the callback is not called
		fin()
		cancelWith(true)
		_, fin = o.deliver(true, 9, nil) // nobody observes any more: the application's handler gets it
		fin()
	case "cancelcb":
		_, fin1 := o.deliver(true, 3, nil) // stays in its callback
		_, fin2 := o.deliver(true, 4, nil) // a second one as well
		cancelWith(true)
		fin2()
		fin1()
		tp.step("cancel:?") // a second Cancel finds nothing to remove
		_ = obs.Cancel(ctx)
	case "hijack":
		x, fin := o.deliver(true, 3, &delivery{hijack: true})
		fin()
		_, fin2 := o.deliver(true, 4, nil)
		fin2()
		cancelWith(false)
		tp.step("appRelease:%d", tp.id(x))
		tp.ev("unhold", x)
		tp.ReleaseMessage(x)
	case "getreq":
		for i := 0; i < 2; i++ {
			tp.step("getRequest:?")
			t, ok := o.h.GetObservationRequest(pathsToken)
			if ok {
				_, fin := o.deliver(true, 3+i, nil)
				tp.step("tmpRelease:%d", tp.id(t))
				tp.ReleaseMessage(t)
				fin()
			}
		}
		cancelWith(true)
		tp.step("getRequest:?")
		if t, ok := o.h.GetObservationRequest(pathsToken); ok {
			tp.ReleaseMessage(t)
		}
		tp.step("close")
	}
	cancelAll()
	synctest.Wait()
	return tp.take()
}

// ---------------------------------------------------------------- block-wise

type bwWorld struct {
	tp   *tpool
	bw   *blockwise.BlockWise[*tpool]
	next func(w *responsewriter.ResponseWriter[*tpool], r *pool.Message)
}

func (b *bwWorld) handle(r *rx) {
	b.bw.Handle(r.w, r.x, blockwise.SZX16, 1152, func(w *responsewriter.ResponseWriter[*tpool], m *pool.Message) { b.next(w, m) })
}

func (b *bwWorld) rxEnd(r *rx) {
	b.tp.step("rxEnd:%d", b.tp.id(r.x))
	b.tp.rxFinish(r)
}

// appHandler: the application's handler: holds the message while it runs, answers with `resp` bytes (observe: as a notification)
func (b *bwWorld) appHandler(resp []byte, observe bool) func(w *responsewriter.ResponseWriter[*tpool], r *pool.Message) {
	return func(w *responsewriter.ResponseWriter[*tpool], r *pool.Message) {
		b.tp.ev("hold", r)
		_, _ = r.ReadBody()
		if resp != nil {
			var opts message.Options
			if observe {
				buf := make([]byte, 4)
				opts, _, _ = opts.SetObserve(buf, 7)
			}
			_ = w.SetResponse(codes.Content, message.AppOctets, bytes.NewReader(resp), opts...)
		}
		b.tp.ev("unhold", r)
	}
}

func upBlock(code codes.Code, body []byte, num, nblk int, payload io.ReadSeeker) func(x *pool.Message) {
	return func(x *pool.Message) {
		x.SetCode(code)
		x.SetToken(pathsToken)
		if code == codes.PUT || code == codes.POST {
			_ = x.SetPath("/bw")
			x.SetOptionUint32(message.Block1, blockVal(num, num < nblk-1))
		} else {
			x.SetOptionUint32(message.Block2, blockVal(num, num < nblk-1))
		}
		if payload == nil {
			end := (num + 1) * 16
			if end > len(body) {
				end = len(body)
			}
			payload = bytes.NewReader(body[num*16 : end])
		}
		x.SetBody(payload)
	}
}

func pathsBw(name string) []string {
	ctx, cancelAll := context.WithCancel(context.Background())
	defer cancelAll()
	tp := newTPool(ctx)
	b := &bwWorld{tp: tp}
	var outside func(token message.Token) (*pool.Message, bool)
	b.bw = blockwise.New(tp, time.Minute, func(error) {}, func(t message.Token) (*pool.Message, bool) {
		if outside != nil {
			return outside(t)
		}
		return nil, false
	})
	body := bodyOf(40) // three blocks of 16
	appReq := func(code codes.Code, withBody bool) *pool.Message {
		tp.step("appAcquire:?")
		r := tp.AcquireMessage(ctx)
		r.SetCode(code)
		r.SetToken(pathsToken)
		_ = r.SetPath("/bw")
		if withBody {
			r.SetContentFormat(message.AppOctets)
			r.SetBody(bytes.NewReader(body))
		}
		return r
	}
	appDone := func(m *pool.Message) {
		tp.step("appHold:%d", tp.id(m))
		tp.ev("hold", m)
		_, _ = m.ReadBody()
		tp.step("appUnhold:%d", tp.id(m))
		tp.ev("unhold", m)
		tp.step("appRelease:%d", tp.id(m))
		tp.ReleaseMessage(m)
	}
	// a Do whose `do` function waits for the response the harness hands it, or for its context
	type doCall struct {
		resp    *pool.Message
		err     error
		first   chan *pool.Message
		respCh  chan *pool.Message
		retGate chan struct{}
		done    chan struct{}
		cancel  context.CancelFunc
	}
	startDo := func(r *pool.Message, big bool) *doCall {
		d := &doCall{first: make(chan *pool.Message, 1), respCh: make(chan *pool.Message, 1), retGate: make(chan struct{}), done: make(chan struct{})}
		dctx, cancel := context.WithCancel(ctx)
		d.cancel = cancel
		r.SetContext(dctx)
		if big {
			tp.step("doStart:%d:1:?", tp.id(r))
		} else {
			tp.step("doStart:%d:0:0", tp.id(r))
		}
		go func() {
			defer close(d.done)
			d.resp, d.err = b.bw.Do(r, blockwise.SZX16, 1152, func(req *pool.Message) (*pool.Message, error) {
				d.first <- req
				select {
				case p := <-d.respCh:
					<-d.retGate
					return p, nil
				case <-dctx.Done():
					<-d.retGate
					return nil, dctx.Err()
				}
			})
		}()
		select {
		case <-d.first:
		case <-d.done: // Do returned without sending anything
		}
		synctest.Wait()
		return d
	}
	endDo := func(d *doCall) {
		tp.step("doReturn")
		close(d.retGate)
		<-d.done
	}
	cont := func(num int, last bool) {
		r := tp.rxStart("rxStart:?:?", func(x *pool.Message) {
			x.SetCode(codes.Continue)
			x.SetToken(pathsToken)
			x.SetOptionUint32(message.Block1, blockVal(num, true))
		})
		tp.step("contCode:%d+contCreate:%d:?:0", tp.id(r.x), tp.id(r.x))
		b.handle(r)
		b.rxEnd(r)
	}
	switch name {
	case "doupload", "doabort":
		r := appReq(codes.PUT, true)
		d := startDo(r, true)
		b.next = b.appHandler(nil, false)
		cont(0, false)
		if name == "doabort" {
			// the caller gives up while the transfer is under way
			d.cancel()
			synctest.Wait()
			endDo(d)
			// the answer to the block that was on its way arrives afterwards: nothing is registered any more
			l := tp.rxStart("rxStart:?:?", func(x *pool.Message) {
				x.SetCode(codes.Continue)
				x.SetToken(pathsToken)
				x.SetOptionUint32(message.Block1, blockVal(1, true))
			})
			tp.step("forward:%d+forwardReturn:%d", tp.id(l.x), tp.id(l.x))
			b.handle(l)
			b.rxEnd(l)
			tp.step("appRelease:%d", tp.id(r))
			tp.ReleaseMessage(r)
			break
		}
		cont(1, true)
		// the final response
		f := tp.rxStart("rxStart:?:?", func(x *pool.Message) {
			x.SetCode(codes.Changed)
			x.SetToken(pathsToken)
		})
		b.next = func(_ *responsewriter.ResponseWriter[*tpool], m *pool.Message) {
			tp.step("rxToCaller:%d", tp.id(m))
			m.Hijack()
			d.respCh <- m
		}
		b.handle(f)
		b.rxEnd(f)
		endDo(d)
		if d.resp != nil {
			appDone(d.resp)
		}
		tp.step("appRelease:%d", tp.id(r))
		tp.ReleaseMessage(r)
	case "download":
		r := appReq(codes.GET, false)
		d := startDo(r, false)
		b.next = func(_ *responsewriter.ResponseWriter[*tpool], m *pool.Message) {
			m.Hijack()
			d.respCh <- m
		}
		for num := 0; num < 3; num++ {
			x := tp.rxStart("rxStart:?:?", upBlock(codes.Content, body, num, 3, nil))
			id := tp.id(x.x)
			switch num {
			case 0:
				tp.step("getSent:%d:?:0+reasmEnter:%d:?:0+reasmAppend:%d+reasmMore:%d:?", id, id, id, id)
			case 1:
				tp.step("getSent:%d:?:0+reasmEnter:%d:0:0+reasmAppend:%d+reasmMore:%d:?", id, id, id, id)
			default:
				tp.step("getSent:%d:?:0+reasmEnter:%d:0:0+reasmAppend:%d+reasmComplete:%d:1+reasmLeave:%d", id, id, id, id, id)
			}
			b.handle(x)
			b.rxEnd(x)
		}
		endDo(d)
		if d.resp != nil {
			if got, _ := d.resp.ReadBody(); !bytes.Equal(got, body) {
				tp.ev("changed", d.resp)
			}
			appDone(d.resp)
		}
		tp.step("appRelease:%d", tp.id(r))
		tp.ReleaseMessage(r)
	case "upload", "sweepappend":
		b.next = b.appHandler([]byte("ok"), false)
		for num := 0; num < 2; num++ {
			x := tp.rxStart("rxStart:?:?", upBlock(codes.PUT, body, num, 3, nil))
			id := tp.id(x.x)
			if num == 0 {
				tp.step("reasmEnter:%d:?:0+reasmAppend:%d+reasmMore:%d:?", id, id, id)
			} else {
				tp.step("reasmEnter:%d:0:0+reasmAppend:%d+reasmMore:%d:?", id, id, id)
			}
			b.handle(x)
			b.rxEnd(x)
		}
		g := &gated{data: bytes.NewReader(body[32:]), reading: make(chan struct{}), release: make(chan struct{})}
		x := tp.rxStart("rxStart:?:?", upBlock(codes.PUT, body, 2, 3, g))
		id := tp.id(x.x)
		tp.step("reasmEnter:%d:0:0+reasmAppend:%d", id, id)
		hdone := make(chan struct{})
		go func() { defer close(hdone); b.handle(x) }()
		<-g.reading
		if name == "sweepappend" {
			// the housekeeping tick, long after the entry's validity, while the last block is being appended
			tp.step("sweep")
			b.bw.CheckExpirations(time.Now().Add(2 * time.Hour))
			synctest.Wait()
		}
		tp.step("reasmComplete:%d:0+reasmLeave:%d+respond:%d:0:0:0", id, id, id)
		close(g.release)
		<-hdone
		b.rxEnd(x)
	case "bwresponse", "bwnotify":
		observe := name == "bwnotify"
		b.next = b.appHandler(body, observe)
		g0 := tp.rxStart("rxStart:?:?", func(x *pool.Message) {
			x.SetCode(codes.GET)
			x.SetToken(pathsToken)
			_ = x.SetPath("/bw")
			if observe {
				x.SetObserve(0)
			}
		})
		id := tp.id(g0.x)
		if observe {
			tp.step("forward:%d+forwardReturn:%d+respond:%d:2:?:0", id, id, id)
		} else {
			tp.step("forward:%d+forwardReturn:%d+respond:%d:3:?:0", id, id, id)
		}
		b.handle(g0)
		b.rxEnd(g0)
		if observe {
			break
		}
		for num := 1; num < 3; num++ {
			gx := tp.rxStart("rxStart:?:?", func(x *pool.Message) {
				x.SetCode(codes.GET)
				x.SetToken(pathsToken)
				_ = x.SetPath("/bw")
				x.SetOptionUint32(message.Block2, blockVal(num, false))
			})
			id := tp.id(gx.x)
			if num == 2 {
				tp.step("contCode:%d+contCreate:%d:?:0+contDone", id, id)
			} else {
				tp.step("contCode:%d+contCreate:%d:?:0", id, id)
			}
			b.handle(gx)
			b.rxEnd(gx)
		}
	case "write":
		mk := func(n int, observe bool) *pool.Message {
			tp.step("appAcquire:?")
			r := tp.AcquireMessage(ctx)
			r.SetCode(codes.Content)
			r.SetToken(pathsToken)
			r.SetType(message.NonConfirmable)
			if observe {
				r.SetObserve(5)
			}
			r.SetContentFormat(message.AppOctets)
			r.SetBody(bytes.NewReader(bodyOf(n)))
			return r
		}
		wr := func(r *pool.Message, spec string) {
			tp.step(spec, tp.id(r))
			_ = b.bw.WriteMessage(r, blockwise.SZX16, 1152, func(*pool.Message) error { return nil })
			tp.step("appRelease:%d", tp.id(r))
			tp.ReleaseMessage(r)
		}
		wr(mk(5, false), "write:%d:?:0:0")
		wr(mk(40, true), "write:%d:?:2:?")
		wr(mk(40, false), "write:%d:?:3:?")
		wr(mk(40, false), "write:%d:?:3:?") // the token is in use: refused, the working copy is given back
	case "staleresp", "staledo", "stalewrite":
		// A response in blocks under token T whose transfer the peer gives up after the first block; the entry's validity
		// ends (the layer's transfer timeout; here one minute) and NO housekeeping tick runs: the element is still in the
		// map.  In that window a new exchange under the same token starts block-wise sending: a new GET answered in blocks
		// (staleresp), a Do of the application with a body in blocks (staledo), a WriteMessage (stalewrite).  Then the
		// application takes messages out of the pool and holds them, and the peer asks for following blocks.
		get := func(num int) *rx {
			return tp.rxStart("rxStart:?:?", func(x *pool.Message) {
				x.SetCode(codes.GET)
				x.SetToken(pathsToken)
				_ = x.SetPath("/bw")
				if num > 0 {
					x.SetOptionUint32(message.Block2, blockVal(num, false))
				}
			})
		}
		b.next = b.appHandler(body, false)
		g0 := get(0)
		id := tp.id(g0.x)
		tp.step("forward:%d+forwardReturn:%d+respond:%d:3:?:0", id, id, id)
		b.handle(g0)
		b.rxEnd(g0)
		tp.step("expire")
		time.Sleep(2 * time.Minute)
		body2 := bodyOf(40)
		for i := range body2 {
			body2[i] ^= 0xA5
		}
		var mine []*pool.Message
		appTakes := func() {
			for k := 0; k < 2; k++ {
				tp.step("appAcquire:?")
				m := tp.AcquireMessage(ctx)
				m.SetCode(codes.PUT)
				m.SetToken(message.Token{0xA0, byte(k)})
				m.SetBody(bytes.NewReader([]byte("the application's own payload, not the peer's business")))
				tp.step("appHold:%d", tp.id(m))
				tp.ev("hold", m)
				mine = append(mine, m)
			}
		}
		continueFrom := func(layerOwned bool) {
			for num := 1; num < 3; num++ {
				gx := get(num)
				id := tp.id(gx.x)
				if num == 2 && layerOwned {
					tp.step("contCode:%d+contCreate:%d:?:0+contDone", id, id)
				} else {
					tp.step("contCode:%d+contCreate:%d:?:0", id, id)
				}
				b.handle(gx)
				b.rxEnd(gx)
			}
		}
		switch name {
		case "staleresp":
			b.next = b.appHandler(body2, false)
			g1 := get(0)
			id := tp.id(g1.x)
			tp.step("forward:%d+forwardReturn:%d+respond:%d:3:?:0", id, id, id)
			b.handle(g1)
			b.rxEnd(g1)
			appTakes()
			continueFrom(true)
		case "stalewrite":
			tp.step("appAcquire:?")
			r := tp.AcquireMessage(ctx)
			r.SetCode(codes.Content)
			r.SetToken(pathsToken)
			r.SetType(message.NonConfirmable)
			r.SetContentFormat(message.AppOctets)
			r.SetBody(bytes.NewReader(body2))
			tp.step("write:%d:?:3:?", tp.id(r))
			_ = b.bw.WriteMessage(r, blockwise.SZX16, 1152, func(*pool.Message) error { return nil })
			tp.step("appRelease:%d", tp.id(r))
			tp.ReleaseMessage(r)
			appTakes()
			continueFrom(true)
		case "staledo":
			r := appReq(codes.PUT, true)
			d := startDo(r, true)
			b.next = b.appHandler([]byte("ok"), false)
			cont(0, false)
			d.cancel() // the caller gives up while the transfer is under way
			synctest.Wait()
			endDo(d)
			tp.step("appRelease:%d", tp.id(r))
			tp.ReleaseMessage(r)
			appTakes()
			// the peer asks for a following block under the token: nothing is registered any more, the application's
			// handler gets the request
			gx := get(1)
			id := tp.id(gx.x)
			tp.step("forward:%d+forwardReturn:%d+respond:%d:0:0:0", id, id, id)
			b.handle(gx)
			b.rxEnd(gx)
		}
		for _, m := range mine {
			tp.step("appUnhold:%d", tp.id(m))
			tp.ev("unhold", m)
			tp.step("appRelease:%d", tp.id(m))
			tp.ReleaseMessage(m)
		}
	case "obsblock":
		// a block-wise notification: the copy of the registration request comes from the real observation handler
		o := newObsWorld(tp)
		req := tp.AcquireMessage(ctx)
		req.SetCode(codes.GET)
		req.SetToken(pathsToken)
		_ = req.SetPath("/obs")
		req.SetObserve(0)
		regDone := make(chan struct{})
		go func() { defer close(regDone); _, _ = o.h.NewObservation(req, o.callback) }()
		synctest.Wait()
		_, fin := o.deliver(true, 2, nil)
		fin()
		<-regDone
		tp.ReleaseMessage(req)
		tp.take() // the registration is the observation program's business; this trace starts here
		outside = o.h.GetObservationRequest
		b.next = func(w *responsewriter.ResponseWriter[*tpool], m *pool.Message) { o.h.Handle(w, m) }
		x := tp.rxStart("rxStart:?:?", func(x *pool.Message) {
			upBlock(codes.Content, body, 0, 3, nil)(x)
			x.SetObserve(5)
		})
		id := tp.id(x.x)
		tp.step("getSent:%d:?:1+obsClone:%d:?+reasmEnter:%d:?:0+reasmAppend:%d+reasmMore:%d:?", id, id, id, id, id)
		b.handle(x)
		newToken := append(message.Token(nil), x.w.Message().Token()...)
		b.rxEnd(x)
		for num := 1; num < 3; num++ {
			y := tp.rxStart("rxStart:?:?", func(m *pool.Message) {
				upBlock(codes.Content, body, num, 3, nil)(m)
				m.SetToken(newToken)
			})
			id := tp.id(y.x)
			if num == 1 {
				tp.step("getSent:%d:?:0+reasmEnter:%d:0:0+reasmAppend:%d+reasmMore:%d:?", id, id, id, id)
			} else {
				tp.step("getSent:%d:?:0+reasmEnter:%d:0:0+reasmAppend:%d+reasmComplete:%d:0+reasmLeave:%d", id, id, id, id, id)
			}
			b.handle(y)
			b.rxEnd(y)
		}
	}
	cancelAll()
	synctest.Wait()
	return tp.take()
}
