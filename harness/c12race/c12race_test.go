// Race-detector harness for C12 ("the library never reads or writes a message after releasing it, under any concurrency of
// requests, handlers, retransmissions and housekeeping").  Real goroutines, real time, `go test -race`:
//
//	race <seed> <milliseconds> <workers>
//	meet <seed> <rounds> <bodysize>
//	bwmeet <seed> <rounds> <bodysize>
//	stallwrite <seed> <rounds>
//
// `stallwrite`: stream connection whose peer has stopped reading: a request's frame write is blocked in the transport while
// its context expires.  If the call returns then (the unchanged library does not: known finding F26 of C09), the application
// owns its request again: it releases it and sends the next one.  When the peer reads again, every frame on the wire must be
// one of the requests as they were issued, each at most once - bytes of a released (recycled) message must never be sent.
//
// `bwmeet`: a block-wise upload (POST with an application-supplied body reader) whose context is cancelled at the moment
// the peer's 2.31 Continue for the outstanding block is processed: the request call returns, the application releases
// the request message and re-uses its body reader - the library must not still be reading either of them.
//
// `meet` arranges the meeting instead of waiting for it: a confirmable POST with a body is left unanswered until its
// retransmission is due; then one goroutine runs the expiry sweep (which clones and retransmits the stored request) and
// another delivers the peer's answer (ACK / piggybacked response / separate response / reset, which releases the stored
// request), released together by a barrier with a random skew of a few microseconds.
//
// Confirmable requests on a real udp/client.Conn over the in-memory session while a sweeper calls CheckExpirations
// (retransmission: midElement.GetMessage clones the stored request) as fast as it can and the peer answers each
// transmission after a delay around the acknowledgement time-out, with an ACK, a piggybacked response, a separate response
// or a reset - so that the release of the stored request (on ACK/RST/response) and its retransmission meet.
// Output: `ok requests=N retransmissions=M answered=K` ; a race report (stderr, DATA RACE) or a crash is the finding.
package c12race

import (
	"bufio"
	"bytes"
	"context"
	"fmt"
	"io"
	"math/rand"
	"runtime"
	"strconv"
	"strings"
	"sync"
	"sync/atomic"
	"testing"
	"time"

	"github.com/plgd-dev/go-coap/v3/message"
	"github.com/plgd-dev/go-coap/v3/message/codes"
	"github.com/plgd-dev/go-coap/v3/message/pool"
	"github.com/plgd-dev/go-coap/v3/net/blockwise"
	"github.com/plgd-dev/go-coap/v3/net/responsewriter"
	tcpclient "github.com/plgd-dev/go-coap/v3/tcp/client"
	tcpcoder "github.com/plgd-dev/go-coap/v3/tcp/coder"
	udpclient "github.com/plgd-dev/go-coap/v3/udp/client"
	udpcoder "github.com/plgd-dev/go-coap/v3/udp/coder"
	"verifharness/internal/lp"
	"verifharness/internal/mem"
)

func runRace(seed int64, ms int, workers int) string {
	const ackTimeout = 4 * time.Millisecond
	cc, s := mem.NewUDPConn(mem.UDPOpts{Mutate: func(cfg *udpclient.Config) {
		cfg.LimitClientParallelRequests = 64
		cfg.LimitClientEndpointParallelRequests = 64
		cfg.TransmissionNStart = 64
		cfg.TransmissionAcknowledgeTimeout = ackTimeout
		cfg.TransmissionMaxRetransmit = 6
		cfg.Handler = func(*responsewriter.ResponseWriter[*udpclient.Conn], *pool.Message) {}
	}})
	var retrans, answered, requests atomic.Int64
	var seen sync.Map // MID -> transmissions
	var pwg sync.WaitGroup
	var mid atomic.Int32
	mid.Store(50000)
	stop := make(chan struct{})
	s.OnWrite = func(data []byte) {
		m := pool.NewMessage(context.Background())
		if _, err := m.UnmarshalWithDecoder(udpcoder.DefaultCoder, data); err != nil {
			return
		}
		if m.Type() != message.Confirmable || m.Code() < codes.GET || m.Code() > codes.DELETE {
			return
		}
		n, _ := seen.LoadOrStore(m.MessageID(), new(atomic.Int32))
		k := n.(*atomic.Int32).Add(1)
		if k > 1 {
			retrans.Add(1)
		}
		tok := append(message.Token(nil), m.Token()...)
		id := m.MessageID()
		h := int64(id)*7919 + int64(k)*104729 + seed
		pwg.Add(1)
		go func() {
			defer pwg.Done()
			r := rand.New(rand.NewSource(h))
			if k == 1 && r.Intn(3) != 0 {
				return // let it be retransmitted
			}
			// answer close to the next retransmission instant
			d := ackTimeout*time.Duration(1<<uint(k-1)) - time.Duration(r.Intn(1500))*time.Microsecond + time.Duration(r.Intn(700))*time.Microsecond
			if d > 0 {
				select {
				case <-time.After(d):
				case <-stop:
					return
				}
			}
			a := pool.NewMessage(context.Background())
			switch r.Intn(4) {
			case 0: // piggybacked response
				a.SetType(message.Acknowledgement)
				a.SetMessageID(id)
				a.SetCode(codes.Content)
				a.SetToken(tok)
				a.SetBody(strings.NewReader("piggy"))
			case 1: // empty ACK, then a separate response
				a.SetType(message.Acknowledgement)
				a.SetMessageID(id)
				a.SetCode(codes.Empty)
				b, _ := a.MarshalWithEncoder(udpcoder.DefaultCoder)
				_ = cc.Process(nil, append([]byte(nil), b...))
				a = pool.NewMessage(context.Background())
				a.SetType(message.NonConfirmable)
				a.SetMessageID(mid.Add(1))
				a.SetCode(codes.Content)
				a.SetToken(tok)
			case 2: // response without an ACK (also acknowledges the request)
				a.SetType(message.NonConfirmable)
				a.SetMessageID(mid.Add(1))
				a.SetCode(codes.Content)
				a.SetToken(tok)
			case 3: // reset
				a.SetType(message.Reset)
				a.SetMessageID(id)
				a.SetCode(codes.Empty)
			}
			b, err := a.MarshalWithEncoder(udpcoder.DefaultCoder)
			if err != nil {
				return
			}
			_ = cc.Process(nil, append([]byte(nil), b...))
			answered.Add(1)
		}()
	}
	var swg sync.WaitGroup
	swg.Add(1)
	go func() { // housekeeping, as fast as it can
		defer swg.Done()
		for {
			select {
			case <-stop:
				return
			default:
			}
			cc.CheckExpirations(time.Now())
			time.Sleep(50 * time.Microsecond)
		}
	}()
	deadline := time.Now().Add(time.Duration(ms) * time.Millisecond)
	var wg sync.WaitGroup
	for w := 0; w < workers; w++ {
		wg.Add(1)
		go func(w int) {
			defer wg.Done()
			for time.Now().Before(deadline) {
				ctx, cancel := context.WithTimeout(context.Background(), 300*time.Millisecond)
				requests.Add(1)
				resp, err := cc.Get(ctx, fmt.Sprintf("/r/%d", w))
				if err == nil {
					_ = resp.Code()
					cc.ReleaseMessage(resp)
				}
				cancel()
			}
		}(w)
	}
	wg.Wait()
	close(stop)
	swg.Wait()
	pwg.Wait()
	_ = cc.Close()
	<-cc.Done()
	return fmt.Sprintf("ok requests=%d retransmissions=%d answered=%d", requests.Load(), retrans.Load(), answered.Load())
}

func runMeet(seed int64, rounds int, bodySize int) string {
	const ackTimeout = 2 * time.Millisecond
	cc, s := mem.NewUDPConn(mem.UDPOpts{MaxSize: 256 * 1024, Mutate: func(cfg *udpclient.Config) {
		cfg.LimitClientParallelRequests = 8
		cfg.LimitClientEndpointParallelRequests = 8
		cfg.TransmissionNStart = 8
		cfg.TransmissionAcknowledgeTimeout = ackTimeout
		cfg.TransmissionMaxRetransmit = 8
		cfg.Handler = func(*responsewriter.ResponseWriter[*udpclient.Conn], *pool.Message) {}
	}})
	rng := rand.New(rand.NewSource(seed))
	var mu sync.Mutex
	var lastMID int32
	var lastTok message.Token
	var writes int
	s.OnWrite = func(data []byte) {
		m := pool.NewMessage(context.Background())
		if _, err := m.UnmarshalWithDecoder(udpcoder.DefaultCoder, data); err != nil {
			return
		}
		if m.Type() == message.Confirmable && m.Code() == codes.POST {
			mu.Lock()
			lastMID, lastTok = m.MessageID(), append(message.Token(nil), m.Token()...)
			writes++
			mu.Unlock()
		}
	}
	body := make([]byte, bodySize)
	for i := range body {
		body[i] = byte(i)
	}
	met, answered := 0, 0
	mid := int32(52000)
	for r := 0; r < rounds; r++ {
		ctx, cancel := context.WithTimeout(context.Background(), 200*time.Millisecond)
		done := make(chan struct{})
		go func() {
			defer close(done)
			resp, err := cc.Post(ctx, "/meet", message.AppOctets, strings.NewReader(string(body)))
			if err == nil {
				_ = resp.Code()
				cc.ReleaseMessage(resp)
				answered++
			}
		}()
		// wait for the first transmission, then until the retransmission is due
		for i := 0; i < 2000; i++ {
			mu.Lock()
			w := writes
			mu.Unlock()
			if w > 0 {
				break
			}
			time.Sleep(20 * time.Microsecond)
		}
		time.Sleep(ackTimeout + 300*time.Microsecond)
		mu.Lock()
		id, tok := lastMID, lastTok
		writes = 0
		mu.Unlock()
		a := pool.NewMessage(context.Background())
		kind := rng.Intn(4)
		switch kind {
		case 0:
			a.SetType(message.Acknowledgement)
			a.SetMessageID(id)
			a.SetCode(codes.Changed)
			a.SetToken(tok)
		case 1:
			a.SetType(message.Acknowledgement)
			a.SetMessageID(id)
			a.SetCode(codes.Empty)
		case 2:
			mid++
			a.SetType(message.NonConfirmable)
			a.SetMessageID(mid)
			a.SetCode(codes.Changed)
			a.SetToken(tok)
		case 3:
			a.SetType(message.Reset)
			a.SetMessageID(id)
			a.SetCode(codes.Empty)
		}
		b, _ := a.MarshalWithEncoder(udpcoder.DefaultCoder)
		b = append([]byte(nil), b...)
		skew := time.Duration(rng.Intn(40)) * time.Microsecond
		first := rng.Intn(2)
		start := make(chan struct{})
		var wg sync.WaitGroup
		wg.Add(2)
		go func() {
			defer wg.Done()
			<-start
			if first == 1 {
				spin(skew)
			}
			cc.CheckExpirations(time.Now())
		}()
		go func() {
			defer wg.Done()
			<-start
			if first == 0 {
				spin(skew)
			}
			_ = cc.Process(nil, b)
		}()
		close(start)
		wg.Wait()
		met++
		if kind == 1 { // the empty ACK only stops retransmission: now the separate response
			mid++
			sr := pool.NewMessage(context.Background())
			sr.SetType(message.NonConfirmable)
			sr.SetMessageID(mid)
			sr.SetCode(codes.Changed)
			sr.SetToken(tok)
			sb, _ := sr.MarshalWithEncoder(udpcoder.DefaultCoder)
			_ = cc.Process(nil, append([]byte(nil), sb...))
		}
		<-done
		cancel()
	}
	_ = cc.Close()
	<-cc.Done()
	return fmt.Sprintf("ok rounds=%d answered=%d", met, answered)
}

// trackedBody is the application's body reader as the library sees it.  It knows whom the body belongs to: while the
// request call runs the library may read it; once the call has returned it is the application's again.  A library read
// that starts, or is still in progress, after the hand-back is a use after release.  Reads take a few microseconds
// (a file or pipe would take longer).
type trackedBody struct {
	rd         *bytes.Reader
	appOwns    atomic.Bool
	inUse      atomic.Int32
	lateUses   atomic.Int32
	overlapped atomic.Int32
	uses       atomic.Int32
	// gated rounds: once armed, the library's next use of the body announces itself (entered) and stays inside the body
	// for up to 2 ms or until the application lets it go (release): the application gives up exactly then
	armed   atomic.Bool
	entered chan struct{}
	release chan struct{}
}

func (t *trackedBody) enter() {
	if t.appOwns.Load() {
		t.lateUses.Add(1)
	}
	t.inUse.Add(1)
	t.uses.Add(1)
	if t.armed.CompareAndSwap(true, false) {
		select {
		case t.entered <- struct{}{}:
		default:
		}
		select {
		case <-t.release:
		case <-time.After(2 * time.Millisecond):
		}
		return
	}
	spin(15 * time.Microsecond)
}
func (t *trackedBody) Read(p []byte) (int, error) {
	t.enter()
	defer t.inUse.Add(-1)
	return t.rd.Read(p)
}
func (t *trackedBody) Seek(off int64, whence int) (int64, error) {
	t.enter()
	defer t.inUse.Add(-1)
	return t.rd.Seek(off, whence)
}

// handBack is called by the application when its request call has returned.
func (t *trackedBody) handBack() {
	t.appOwns.Store(true)
	if t.inUse.Load() > 0 {
		t.overlapped.Add(1)
	}
}

func runBWMeet(seed int64, rounds int, bodySize int) string {
	rng := rand.New(rand.NewSource(seed))
	var mu sync.Mutex
	var last *pool.Message
	var curTok message.Token
	onWrite := func(data []byte) {
		m := pool.NewMessage(context.Background())
		if _, err := m.UnmarshalWithDecoder(udpcoder.DefaultCoder, data); err != nil {
			return
		}
		mu.Lock()
		if m.Code() == codes.POST && bytes.Equal(m.Token(), curTok) && last == nil { // the first block of THIS round's request
			last = m
		}
		mu.Unlock()
	}
	// A write from the receive path that fails (here: the next block, written with the context of the request the application
	// has just given up) closes the connection: the rounds get a fresh connection whenever the current one is gone.
	newConn := func() (*udpclient.Conn, *mem.UDPSession) {
		c, s := mem.NewUDPConn(mem.UDPOpts{Blockwise: true, BlockwiseSZX: blockwise.SZX16, BlockwiseTimeout: 200 * time.Millisecond,
			Mutate: func(cfg *udpclient.Config) {
				cfg.LimitClientParallelRequests = 8
				cfg.LimitClientEndpointParallelRequests = 8
				cfg.TransmissionAcknowledgeTimeout = time.Second
				cfg.Handler = func(*responsewriter.ResponseWriter[*udpclient.Conn], *pool.Message) {}
			}})
		s.OnWrite = onWrite
		return c, s
	}
	cc, _ := newConn()
	conns := 1
	body := make([]byte, bodySize)
	for i := range body {
		body[i] = byte(i * 7)
	}
	met, late, overlapped := 0, 0, 0
	var gatedRounds, gatedEntered atomic.Int32
	for r := 0; r < rounds; r++ {
		select {
		case <-cc.Done():
			cc, _ = newConn()
			conns++
		default:
		}
		tok := message.Token{0xB0, byte(r), byte(r >> 8)}
		mu.Lock()
		last = nil
		curTok = tok
		mu.Unlock()
		ctx, cancel := context.WithCancel(context.Background())
		rd := &trackedBody{rd: bytes.NewReader(body), entered: make(chan struct{}, 1), release: make(chan struct{})}
		gated := r%2 == 1 // every other round: the application gives up exactly while the library reads the body
		req := cc.AcquireMessage(ctx)
		req.SetCode(codes.POST)
		req.SetType(message.NonConfirmable) // the blocks written from the receive path must not wait for acknowledgements nobody sends
		req.SetToken(tok)
		_ = req.SetPath("/up")
		req.SetContentFormat(message.AppOctets)
		req.SetBody(rd)
		done := make(chan struct{})
		go func() {
			defer close(done)
			resp, err := cc.Do(req)
			if err == nil {
				cc.ReleaseMessage(resp)
			}
		}()
		var first *pool.Message
		for i := 0; i < 5000 && first == nil; i++ {
			mu.Lock()
			first = last
			mu.Unlock()
			if first == nil {
				time.Sleep(20 * time.Microsecond)
			}
		}
		if first == nil {
			cancel()
			<-done
			continue
		}
		blk, _ := first.GetOptionUint32(message.Block1)
		cont := pool.NewMessage(context.Background())
		cont.SetCode(codes.Continue)
		cont.SetToken(first.Token())
		cont.SetType(message.NonConfirmable)
		cont.SetMessageID(int32(30000 + r%20000))
		cont.SetOptionUint32(message.Block1, blk)
		b, _ := cont.MarshalWithEncoder(udpcoder.DefaultCoder)
		b = append([]byte(nil), b...)
		skew := time.Duration(rng.Intn(300)) * time.Microsecond
		firstActor := rng.Intn(2)
		start := make(chan struct{})
		var wg sync.WaitGroup
		wg.Add(2)
		if gated {
			rd.armed.Store(true)
		}
		go func() { // the peer's Continue is processed: the library cuts the next block out of the request's body
			defer wg.Done()
			<-start
			if firstActor == 1 && !gated {
				spin(skew)
			}
			_ = cc.Process(nil, b)
		}()
		go func() { // the application gives up: once the call has returned the request and its body are the application's again
			defer wg.Done()
			<-start
			if gated {
				gatedRounds.Add(1)
				select {
				case <-rd.entered: // the library is inside the body now
					gatedEntered.Add(1)
				case <-time.After(5 * time.Millisecond):
				}
			} else if firstActor == 0 {
				spin(skew)
			}
			cancel()
			<-done
			rd.handBack()
			close(rd.release)
			_, _ = rd.rd.Seek(0, io.SeekStart) // the application re-uses its reader
			_, _ = rd.rd.Read(make([]byte, 8))
			cc.ReleaseMessage(req)
		}()
		close(start)
		wg.Wait()
		time.Sleep(200 * time.Microsecond)
		late += int(rd.lateUses.Load())
		overlapped += int(rd.overlapped.Load())
		met++
	}
	_ = cc.Close()
	<-cc.Done()
	if late+overlapped > 0 {
		return fmt.Sprintf("bad use-after-handback rounds=%d late=%d overlapped=%d", met, late, overlapped)
	}
	return fmt.Sprintf("ok rounds=%d gated=%d entered=%d conns=%d", met, gatedRounds.Load(), gatedEntered.Load(), conns)
}

func runStallWrite(seed int64, rounds int) string {
	// one P: what the application's goroutine releases to the pool is what it acquires next (sync.Pool is per P)
	defer runtime.GOMAXPROCS(runtime.GOMAXPROCS(1))
	rng := rand.New(rand.NewSource(seed))
	early := 0
	for r := 0; r < rounds; r++ {
		cc, peer, err := mem.NewTCPConn(mem.TCPOpts{Mutate: func(cfg *tcpclient.Config) {
			cfg.LimitClientParallelRequests = 8
			cfg.LimitClientEndpointParallelRequests = 8
		}})
		if err != nil {
			return "bad conn-error"
		}
		time.Sleep(5 * time.Millisecond)
		peer.TakeFrames() // the CSM
		peer.Stall()
		time.Sleep(2 * time.Millisecond)
		type want struct {
			tok  string
			path string
		}
		var wants []want
		type reqDef struct {
			tok  message.Token
			path string
		}
		var defs []reqDef
		for i := 0; i < 3; i++ {
			tok := message.Token{0xC1, byte(r), byte(i), byte(rng.Intn(256))}
			path := fmt.Sprintf("/stall/%d/%d/%s", r, i, strings.Repeat("p", 3+i*7))
			defs = append(defs, reqDef{tok, path})
			wants = append(wants, want{fmt.Sprintf("%x", []byte(tok)), path})
		}
		firstBack := make(chan struct{})
		allBack := make(chan struct{})
		go func() { // the application: three requests one after the other, each given 10 ms
			defer close(allBack)
			for i, d := range defs {
				ctx, cancel := context.WithTimeout(context.Background(), 10*time.Millisecond)
				req := cc.AcquireMessage(ctx)
				req.SetCode(codes.GET)
				req.SetToken(d.tok)
				_ = req.SetPath(d.path)
				resp, err := cc.Do(req)
				if err == nil {
					cc.ReleaseMessage(resp)
				}
				cancel()
				cc.ReleaseMessage(req) // the call has returned: the request is the application's again, and it gives it back
				if i == 0 {
					close(firstBack)
				}
			}
		}()
		select {
		case <-firstBack:
			// the call returned although its frame is still (partly) unwritten: let the application go on for a while
			early++
			select {
			case <-allBack:
			case <-time.After(60 * time.Millisecond):
			}
		case <-time.After(30 * time.Millisecond):
		}
		peer.Resume()
		select {
		case <-allBack:
		case <-time.After(200 * time.Millisecond):
		}
		time.Sleep(10 * time.Millisecond)
		seen := map[string]int{}
		verdict := ""
		for _, fr := range peer.TakeFrames() {
			m := pool.NewMessage(context.Background())
			if _, err := m.UnmarshalWithDecoder(tcpcoder.DefaultCoder, fr); err != nil {
				verdict = fmt.Sprintf("bad round=%d an undecodable frame was written after the peer resumed reading", r)
				break
			}
			p, _ := m.Path()
			k := fmt.Sprintf("%x %s", []byte(m.Token()), p)
			seen[k]++
			ok := false
			for _, w := range wants {
				ok = ok || (w.tok+" "+w.path) == k
			}
			if !ok {
				verdict = fmt.Sprintf("bad round=%d a frame that no request issued was written (token %x path %s)", r, []byte(m.Token()), p)
				break
			}
			if seen[k] > 1 {
				verdict = fmt.Sprintf("bad round=%d the frame of one request was written twice (token %x): the bytes of a recycled message were sent in place of another request's", r, []byte(m.Token()))
				break
			}
		}
		if verdict == "" && peer.TakeBytes() != nil && early > 0 {
			// an incomplete tail: a frame whose length field and content do not belong together
			verdict = fmt.Sprintf("bad round=%d bytes that do not make up a frame were left on the wire", r)
		}
		_ = cc.Close()
		peer.Close()
		<-allBack
		if verdict != "" {
			return verdict
		}
	}
	return fmt.Sprintf("ok rounds=%d early=%d", rounds, early)
}

// spin waits without yielding to the scheduler for long: a sleep would be far too coarse
func spin(d time.Duration) {
	t := time.Now()
	for time.Since(t) < d {
	}
}

func TestC12Race(t *testing.T) {
	err := lp.FileLoop(func(f []string, w *bufio.Writer) {
		if len(f) == 4 && f[0] == "race" {
			seed, _ := strconv.ParseInt(f[1], 10, 64)
			ms, _ := strconv.Atoi(f[2])
			workers, _ := strconv.Atoi(f[3])
			fmt.Fprintln(w, runRace(seed, ms, workers))
			return
		}
		if len(f) == 4 && f[0] == "bwmeet" {
			seed, _ := strconv.ParseInt(f[1], 10, 64)
			rounds, _ := strconv.Atoi(f[2])
			size, _ := strconv.Atoi(f[3])
			fmt.Fprintln(w, runBWMeet(seed, rounds, size))
			return
		}
		if len(f) == 3 && f[0] == "stallwrite" {
			seed, _ := strconv.ParseInt(f[1], 10, 64)
			rounds, _ := strconv.Atoi(f[2])
			fmt.Fprintln(w, runStallWrite(seed, rounds))
			return
		}
		if len(f) == 4 && f[0] == "meet" {
			seed, _ := strconv.ParseInt(f[1], 10, 64)
			rounds, _ := strconv.Atoi(f[2])
			size, _ := strconv.Atoi(f[3])
			fmt.Fprintln(w, runMeet(seed, rounds, size))
			return
		}
		fmt.Fprintln(w, "bad-op")
	})
	if err != nil {
		t.Fatal(err)
	}
}
