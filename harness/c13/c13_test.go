// Harness for C13 (no per-exchange state outlives the exchange).
//
// One history per input line:
//
//	scn <udp|udp@<nstart>|tcp> <bw 0|1> <limit> <eplimit> <op> <op> ...      (udp@<n>: NSTART n instead of "unlimited")
//	disc <outcome>                                  (udp/server discovery tables, real loopback socket)
//
// ops (colon separated):
//
//	do:<id>:<tokid>:<path>:<con|non>:<bodylen>:<deadline s|0>   cc.Do (GET, or POST when bodylen > 0) in a goroutine
//	obs:<id>:<path>:<deadline>                                 cc.DoObserve in a goroutine
//	obscancel:<id>                                             Observation.Cancel in a goroutine
//	ping:<id>:<deadline>                                       cc.Ping in a goroutine
//	aping:<id>                                                 cc.AsyncPing (live until its pong arrives or its cancel is called)
//	apcancel:<id>                                              the cancel function AsyncPing returned is called
//	write:<id>:<con|non>                                       one-way cc.WriteMessage in a goroutine
//	ack:<id> | rst:<id> | pong:<id>                            peer answers the last message of that exchange
//	resp:<id>:<pig|con|non>:<code>:<bodylen>:<obsseq|->        peer responds (body > 16 with block-wise on: first block)
//	nb0:<id>:<pig|con|non>:<bodylen>:<obsseq>                  peer sends a notification that is complete in its first block:
//	                                                           Observe + Block2 (num 0, no more), body of at most one block
//	blk2:<id>:<num>:<more>:<pig|non>                           peer sends one more response block
//	cont:<id>:<num>                                            peer acknowledges an uploaded block (2.31)
//	bad:<id>                                                   peer responds with an undecodable block option
//	req:<n>:<con|non>:<resplen>                                peer request (GET), handler answers resplen bytes
//	reqs:<from>:<count>                                        count confirmable peer requests <from>…, each answered (and cached)
//	nblk:<num>:<more>                                          peer answers the last request of the connection that asks for a
//	                                                           following block (Block2 num > 0) — the follow-up GET of a block-wise
//	                                                           notification runs under a token of its own — with block num
//	reqb2:<n>:<num>                                            peer fetches block num of that answer
//	up:<n>:<num>:<more>                                        peer uploads one block of a POST body
//	cancel:<id> · sleep:<ms> · tick · close · settle · end     (end: cancel every context)
//
// second use of a request message (an application that builds its requests by hand in a message object of its own and uses
// that object again for its next request: AcquireMessage once, then SetupGet / SetupPost with the next token, no Reset):
//
//	mobs:<slot>:<toklen>:<id>:<path>:<deadline>                            as obs, the request is the message object <slot>
//	mdo:<slot>:<toklen>:<id>:<tokid>:<path>:<con|non>:<bodylen>:<deadline>  as do
//	mwrite:<slot>:<toklen>:<id>:<con|non>                                  as write
//
// (toklen 1…8: length of the token of that exchange).  A slot is used again only after the call that used it has returned.
// Aliasing probe: when a slot is written again, every observation that was registered from it and is still live must still be
// found under its registration-time token, report that token and not report itself cancelled; otherwise the segment carries
// `keychanged:observations:<id>`.
//
// After every op the bubble runs to quiescence and one segment is emitted:
//
//	<tok>,<mid>,<cache>,<lock>,<bwR>,<bwS>,<obs>,<lim>,<rmid>/<calls>,<pings>,<writes>,<liveobs>
//
// (tcp: mid, cache, lock, rmid are 0; rmid = udp/client Conn.requestMessageIDs, token of a confirmable request that is being
// written -> its message ID).  After the last op the harness ends every exchange, then alternates
// sleeping and housekeeping ticks well past every deadline and emits the final segment `final:<sizes>/<live…>`.
package c13

import (
	"bufio"
	"bytes"
	"context"
	"fmt"
	"net"
	"strconv"
	"strings"
	"sync"
	"testing"
	"testing/synctest"
	"time"

	"github.com/plgd-dev/go-coap/v3/message"
	"github.com/plgd-dev/go-coap/v3/message/codes"
	"github.com/plgd-dev/go-coap/v3/message/pool"
	coapNet "github.com/plgd-dev/go-coap/v3/net"
	"github.com/plgd-dev/go-coap/v3/net/blockwise"
	"github.com/plgd-dev/go-coap/v3/net/responsewriter"
	"github.com/plgd-dev/go-coap/v3/options"
	tcpclient "github.com/plgd-dev/go-coap/v3/tcp/client"
	tcpcoder "github.com/plgd-dev/go-coap/v3/tcp/coder"
	"github.com/plgd-dev/go-coap/v3/udp"
	udpclient "github.com/plgd-dev/go-coap/v3/udp/client"
	udpcoder "github.com/plgd-dev/go-coap/v3/udp/coder"
	"verifharness/internal/lp"
	"verifharness/internal/mem"
)

type observation interface {
	Cancel(ctx context.Context, opts ...message.Option) error
	Canceled() bool
}

// conn is what both connection types offer.
type conn interface {
	AcquireMessage(ctx context.Context) *pool.Message
	ReleaseMessage(m *pool.Message)
	Do(req *pool.Message) (*pool.Message, error)
	Ping(ctx context.Context) error
	AsyncPing(receivedPong func()) (func(), error)
	WriteMessage(req *pool.Message) error
	CheckExpirations(now time.Time)
	Close() error
}

type sent struct {
	typ     message.Type
	code    codes.Code
	tok     string
	mid     int32
	b1, b2  int64 // block option values, -1 = absent
	observe int64
}

type world struct {
	mu       sync.Mutex
	udp      bool
	bw       bool
	cc       conn
	observe  func(req *pool.Message, f func(*pool.Message)) (observation, error)
	sizes    func() [9]int
	inject   func([]byte) error
	taken    func() []sent
	cancels  map[int]context.CancelFunc
	apCancel map[int]func() // cancel functions returned by AsyncPing
	apDone   map[int]bool   // that ping exchange is over: pong received, or cancelled
	calls    int
	pings    int
	writes   int
	obs      map[int]observation
	liveObs  map[int]bool
	last     map[string]sent // last request sent per token
	lastPing sent
	lastBlk  sent // last request sent that asks for a following block (Block2 num > 0)
	nextMid  int32
	respLen  map[string]int // peer request token -> answer length
	// caller-owned request messages that are used more than once
	slots    map[int]*pool.Message
	slotBusy map[int]bool
	slotObs  map[int][]int // observations registered from that message object
	tokLen   map[int]int   // token length of exchange id (default 4)
	obsReq   func(tok message.Token) (*pool.Message, bool)
	newMID   func() int32
	over     bool     // close / end was executed
	probes   []string // failed aliasing probes since the last segment
}

func tokOf(id int) message.Token {
	return message.Token{0xC1, 0x03, byte(id >> 8), byte(id)}
}

// tok: the token of exchange id - tokOf(id) unless an m-op chose another length (shorter: the last bytes; longer: padded)
func (w *world) tok(id int) message.Token {
	w.mu.Lock()
	n, ok := w.tokLen[id]
	w.mu.Unlock()
	t := tokOf(id)
	switch {
	case !ok || n == 4:
		return t
	case n < 4 && n > 0:
		return t[4-n:]
	default:
		for len(t) < n && len(t) < 8 {
			t = append(t, byte(0xA0+len(t)))
		}
		return t
	}
}

// slot returns the caller-owned message object <slot> for its next use with token tok: the application writes the new
// request into it (no Reset).  Aliasing probe for the observations registered from this object.
func (w *world) slot(n int, ctx context.Context) *pool.Message {
	w.mu.Lock()
	m := w.slots[n]
	busy := w.slotBusy[n]
	w.slotBusy[n] = true
	w.mu.Unlock()
	if busy {
		panic("slot-busy")
	}
	if m == nil {
		m = w.cc.AcquireMessage(ctx)
		w.mu.Lock()
		w.slots[n] = m
		w.mu.Unlock()
	}
	m.SetContext(ctx)
	return m
}

func (w *world) slotFree(n int) {
	w.mu.Lock()
	w.slotBusy[n] = false
	w.mu.Unlock()
}

func (w *world) probeSlot(n int) {
	if w.over || w.obsReq == nil {
		return
	}
	w.mu.Lock()
	ids := append([]int(nil), w.slotObs[n]...)
	w.mu.Unlock()
	for _, id := range ids {
		w.mu.Lock()
		o, live := w.obs[id], w.liveObs[id]
		w.mu.Unlock()
		if o == nil || !live {
			continue
		}
		want := w.tok(id)
		m, ok := w.obsReq(want)
		bad := !ok || o.Canceled()
		if ok {
			if !bytes.Equal(m.Token(), want) {
				bad = true
			}
			w.cc.ReleaseMessage(m)
		}
		if bad {
			w.mu.Lock()
			w.probes = append(w.probes, fmt.Sprintf("keychanged:observations:%d", id))
			w.mu.Unlock()
		}
	}
}

func peerTok(n int) message.Token {
	return message.Token{0x5e, byte(n >> 8), byte(n)}
}

func body(n int) []byte {
	b := make([]byte, n)
	for i := range b {
		b[i] = byte('a' + i%26)
	}
	return b
}

func ctxFor(dl int) (context.Context, context.CancelFunc) {
	if dl > 0 {
		return context.WithTimeout(context.Background(), time.Duration(dl)*time.Second)
	}
	return context.WithCancel(context.Background())
}

func blockVal(num int64, more bool) uint32 {
	v, err := blockwise.EncodeBlockOption(blockwise.SZX16, num, more)
	if err != nil {
		panic(err)
	}
	return v
}

func (w *world) build(typ message.Type, code codes.Code, tok message.Token, mid int32, payload []byte, f func(m *pool.Message)) []byte {
	m := pool.NewMessage(context.Background())
	m.SetCode(code)
	if len(tok) > 0 {
		m.SetToken(tok)
	}
	if f != nil {
		f(m)
	}
	if len(payload) > 0 {
		m.SetBody(bytes.NewReader(payload))
	}
	if w.udp {
		m.SetType(typ)
		m.SetMessageID(mid)
		b, err := m.MarshalWithEncoder(udpcoder.DefaultCoder)
		if err != nil {
			panic(err)
		}
		return append([]byte(nil), b...)
	}
	b, err := m.MarshalWithEncoder(tcpcoder.DefaultCoder)
	if err != nil {
		panic(err)
	}
	return append([]byte(nil), b...)
}

func decodeSent(udp bool, data []byte) (sent, bool) {
	m := pool.NewMessage(context.Background())
	var err error
	if udp {
		_, err = m.UnmarshalWithDecoder(udpcoder.DefaultCoder, data)
	} else {
		_, err = m.UnmarshalWithDecoder(tcpcoder.DefaultCoder, data)
	}
	if err != nil {
		return sent{}, false
	}
	s := sent{typ: m.Type(), code: m.Code(), tok: lp.Hex(m.Token()), mid: m.MessageID(), b1: -1, b2: -1, observe: -1}
	if v, err := m.GetOptionUint32(message.Block1); err == nil {
		s.b1 = int64(v)
	}
	if v, err := m.GetOptionUint32(message.Block2); err == nil {
		s.b2 = int64(v)
	}
	if v, err := m.Observe(); err == nil {
		s.observe = int64(v)
	}
	return s, true
}

func (w *world) absorb() {
	for _, s := range w.taken() {
		if s.code >= codes.GET && s.code <= codes.DELETE {
			w.last[s.tok] = s
			if s.b2 >= 16 { // Block2 option value with num > 0
				w.lastBlk = s
			}
		}
		if (w.udp && s.code == codes.Empty && s.typ == message.Confirmable) || (!w.udp && s.code == codes.Ping) {
			w.lastPing = s
		}
	}
}

func (w *world) segment() string {
	sz := w.sizes()
	w.mu.Lock()
	defer w.mu.Unlock()
	live := 0
	for _, v := range w.liveObs {
		if v {
			live++
		}
	}
	seg := fmt.Sprintf("%d,%d,%d,%d,%d,%d,%d,%d,%d/%d,%d,%d,%d", sz[0], sz[1], sz[2], sz[3], sz[4], sz[5], sz[6], sz[7], sz[8], w.calls, w.pings, w.writes, live)
	if len(w.probes) > 0 {
		seg += "!" + strings.Join(w.probes, "!")
		w.probes = nil
	}
	return seg
}

// respond sends a response for exchange id relative to the last request that carried its token.
func (w *world) respond(id int, kind string, code codes.Code, payload []byte, f func(m *pool.Message)) {
	tok := w.tok(id)
	lastReq := w.last[lp.Hex(tok)]
	typ := message.NonConfirmable
	mid := w.nextMid
	switch kind {
	case "pig":
		typ = message.Acknowledgement
		mid = lastReq.mid
	case "con":
		typ = message.Confirmable
		w.nextMid++
	default:
		w.nextMid++
	}
	if err := w.inject(w.build(typ, code, tok, mid, payload, f)); err != nil {
		panic(err)
	}
}

func (w *world) apply(f []string) {
	atoi := func(s string) int { v, _ := strconv.Atoi(s); return v }
	switch {
	case f[0] == "do" && len(f) == 7:
		id, tokid, path, typ, blen, dl := atoi(f[1]), atoi(f[2]), f[3], f[4], atoi(f[5]), atoi(f[6])
		ctx, cancel := ctxFor(dl)
		w.cancels[id] = cancel
		w.mu.Lock()
		w.calls++
		w.mu.Unlock()
		go func() {
			defer func() { recover(); w.mu.Lock(); w.calls--; w.mu.Unlock() }()
			req := w.cc.AcquireMessage(ctx)
			defer w.cc.ReleaseMessage(req)
			req.SetToken(tokOf(tokid))
			if blen > 0 {
				req.SetCode(codes.POST)
				req.SetContentFormat(message.TextPlain)
				req.SetBody(bytes.NewReader(body(blen)))
			} else {
				req.SetCode(codes.GET)
			}
			_ = req.SetPath("/" + path)
			if w.udp {
				if typ == "con" {
					req.SetType(message.Confirmable)
				} else {
					req.SetType(message.NonConfirmable)
				}
			}
			resp, err := w.cc.Do(req)
			if err == nil {
				w.cc.ReleaseMessage(resp)
			}
		}()
	case f[0] == "obs" && len(f) == 4:
		id, path, dl := atoi(f[1]), f[2], atoi(f[3])
		ctx, cancel := ctxFor(dl)
		w.cancels[id] = cancel
		w.mu.Lock()
		w.calls++
		w.mu.Unlock()
		go func() {
			defer func() { recover(); w.mu.Lock(); w.calls--; w.mu.Unlock() }()
			req := w.cc.AcquireMessage(ctx)
			defer w.cc.ReleaseMessage(req)
			req.SetToken(tokOf(id))
			req.SetCode(codes.GET)
			_ = req.SetPath("/" + path)
			req.SetObserve(0)
			o, err := w.observe(req, func(*pool.Message) {})
			if err == nil && o != nil {
				w.mu.Lock()
				w.obs[id] = o
				w.liveObs[id] = !o.Canceled()
				w.mu.Unlock()
			}
		}()
	case f[0] == "mobs" && len(f) == 6:
		sl, tl, id, path, dl := atoi(f[1]), atoi(f[2]), atoi(f[3]), f[4], atoi(f[5])
		ctx, cancel := ctxFor(dl)
		w.cancels[id] = cancel
		w.mu.Lock()
		w.calls++
		w.tokLen[id] = tl
		w.mu.Unlock()
		req := w.slot(sl, ctx)
		if err := req.SetupGet("/"+path, w.tok(id)); err != nil {
			panic(err)
		}
		req.SetBody(nil)
		req.SetObserve(0)
		if w.udp {
			req.SetType(message.Confirmable)
			req.SetMessageID(w.newMID())
		}
		w.probeSlot(sl)
		go func() {
			defer func() { recover(); w.slotFree(sl); w.mu.Lock(); w.calls--; w.mu.Unlock() }()
			o, err := w.observe(req, func(*pool.Message) {})
			if err == nil && o != nil {
				w.mu.Lock()
				w.obs[id] = o
				w.liveObs[id] = !o.Canceled()
				w.slotObs[sl] = append(w.slotObs[sl], id)
				w.mu.Unlock()
			}
		}()
	case f[0] == "mdo" && len(f) == 9:
		sl, tl, id, tokid, path, typ, blen, dl := atoi(f[1]), atoi(f[2]), atoi(f[3]), atoi(f[4]), f[5], f[6], atoi(f[7]), atoi(f[8])
		ctx, cancel := ctxFor(dl)
		w.cancels[id] = cancel
		w.mu.Lock()
		w.calls++
		if _, ok := w.tokLen[tokid]; !ok {
			w.tokLen[tokid] = tl
		}
		w.mu.Unlock()
		req := w.slot(sl, ctx)
		var err error
		if blen > 0 {
			err = req.SetupPost("/"+path, w.tok(tokid), message.TextPlain, bytes.NewReader(body(blen)))
		} else {
			err = req.SetupGet("/"+path, w.tok(tokid))
			req.SetBody(nil)
		}
		if err != nil {
			panic(err)
		}
		if w.udp {
			if typ == "con" {
				req.SetType(message.Confirmable)
			} else {
				req.SetType(message.NonConfirmable)
			}
			req.SetMessageID(w.newMID())
		}
		w.probeSlot(sl)
		go func() {
			defer func() { recover(); w.slotFree(sl); w.mu.Lock(); w.calls--; w.mu.Unlock() }()
			resp, err := w.cc.Do(req)
			if err == nil {
				w.cc.ReleaseMessage(resp)
			}
		}()
	case f[0] == "mwrite" && len(f) == 5:
		sl, tl, id := atoi(f[1]), atoi(f[2]), atoi(f[3])
		ctx, cancel := ctxFor(0)
		w.cancels[id] = cancel
		w.mu.Lock()
		w.writes++
		w.tokLen[id] = tl
		w.mu.Unlock()
		req := w.slot(sl, ctx)
		if err := req.SetupPost("/w", w.tok(id), message.TextPlain, nil); err != nil {
			panic(err)
		}
		req.SetBody(nil)
		if w.udp {
			if f[4] == "con" {
				req.SetType(message.Confirmable)
			} else {
				req.SetType(message.NonConfirmable)
			}
			req.SetMessageID(w.newMID())
		}
		w.probeSlot(sl)
		go func() {
			defer func() { recover(); w.slotFree(sl); w.mu.Lock(); w.writes--; w.mu.Unlock() }()
			_ = w.cc.WriteMessage(req)
		}()
	case f[0] == "obscancel" && len(f) == 2:
		id := atoi(f[1])
		w.mu.Lock()
		o := w.obs[id]
		w.mu.Unlock()
		if o == nil {
			return
		}
		ctx, cancel := ctxFor(60)
		w.cancels[10000+id] = cancel
		w.mu.Lock()
		w.calls++
		w.liveObs[id] = false
		w.mu.Unlock()
		go func() {
			defer func() { recover(); w.mu.Lock(); w.calls--; w.mu.Unlock() }()
			_ = o.Cancel(ctx)
		}()
	case f[0] == "ping" && len(f) == 3:
		id, dl := atoi(f[1]), atoi(f[2])
		ctx, cancel := ctxFor(dl)
		w.cancels[id] = cancel
		w.mu.Lock()
		w.pings++
		w.mu.Unlock()
		go func() {
			defer func() { recover(); w.mu.Lock(); w.pings--; w.mu.Unlock() }()
			_ = w.cc.Ping(ctx)
		}()
	case f[0] == "aping" && len(f) == 2:
		id := atoi(f[1])
		w.mu.Lock()
		w.pings++
		w.mu.Unlock()
		go func() {
			defer func() {
				if r := recover(); r != nil {
					w.apEnd(id)
				}
			}()
			cancel, err := w.cc.AsyncPing(func() { w.apEnd(id) })
			if err != nil {
				w.apEnd(id)
				return
			}
			w.mu.Lock()
			w.apCancel[id] = cancel
			w.mu.Unlock()
		}()
	case f[0] == "apcancel" && len(f) == 2:
		id := atoi(f[1])
		w.mu.Lock()
		cancel := w.apCancel[id]
		w.mu.Unlock()
		if cancel != nil {
			cancel()
			w.apEnd(id)
		}
	case f[0] == "write" && len(f) == 3:
		id := atoi(f[1])
		ctx, cancel := ctxFor(0)
		w.cancels[id] = cancel
		w.mu.Lock()
		w.writes++
		w.mu.Unlock()
		go func() {
			defer func() { recover(); w.mu.Lock(); w.writes--; w.mu.Unlock() }()
			req := w.cc.AcquireMessage(ctx)
			defer w.cc.ReleaseMessage(req)
			req.SetToken(tokOf(id))
			req.SetCode(codes.POST)
			_ = req.SetPath("/w")
			if w.udp {
				if f[2] == "con" {
					req.SetType(message.Confirmable)
				} else {
					req.SetType(message.NonConfirmable)
				}
			}
			_ = w.cc.WriteMessage(req)
		}()
	case (f[0] == "ack" || f[0] == "rst") && len(f) == 2:
		if !w.udp {
			return
		}
		id := atoi(f[1])
		lastReq, ok := w.last[lp.Hex(w.tok(id))]
		if !ok {
			lastReq = w.lastPing
		}
		typ := message.Acknowledgement
		if f[0] == "rst" {
			typ = message.Reset
		}
		if err := w.inject(w.build(typ, codes.Empty, nil, lastReq.mid, nil, nil)); err != nil {
			panic(err)
		}
	case f[0] == "pong" && len(f) == 2:
		if w.udp {
			if err := w.inject(w.build(message.Reset, codes.Empty, nil, w.lastPing.mid, nil, nil)); err != nil {
				panic(err)
			}
			return
		}
		tok, _ := lp.ParseHex(w.lastPing.tok)
		if err := w.inject(w.build(0, codes.Pong, tok, 0, nil, nil)); err != nil {
			panic(err)
		}
	case f[0] == "resp" && len(f) == 6:
		id, kind, code, blen := atoi(f[1]), f[2], atoi(f[3]), atoi(f[4])
		b := body(blen)
		w.respond(id, kind, codes.Code(code), func() []byte {
			if w.bw && blen > 16 {
				return b[:16]
			}
			return b
		}(), func(m *pool.Message) {
			if f[5] != "-" {
				m.SetObserve(uint32(atoi(f[5])))
			}
			if w.bw && blen > 16 {
				m.SetOptionUint32(message.Block2, blockVal(0, true))
				m.SetOptionUint32(message.Size2, uint32(blen))
			}
		})
	case f[0] == "nb0" && len(f) == 5:
		id, kind, blen := atoi(f[1]), f[2], atoi(f[3])
		if blen > 16 {
			blen = 16
		}
		w.respond(id, kind, codes.Content, body(blen), func(m *pool.Message) {
			if f[4] != "-" {
				m.SetObserve(uint32(atoi(f[4])))
			}
			m.SetOptionUint32(message.Block2, blockVal(0, false))
		})
	case f[0] == "blk2" && len(f) == 5:
		id, num, more := atoi(f[1]), atoi(f[2]), f[3] == "1"
		w.respond(id, f[4], codes.Content, body(16), func(m *pool.Message) {
			m.SetOptionUint32(message.Block2, blockVal(int64(num), more))
		})
	case f[0] == "cont" && len(f) == 3:
		id, num := atoi(f[1]), atoi(f[2])
		w.respond(id, "pig", codes.Continue, nil, func(m *pool.Message) {
			m.SetOptionUint32(message.Block1, blockVal(int64(num), true))
		})
	case f[0] == "bad" && len(f) == 2:
		id := atoi(f[1])
		w.respond(id, "non", codes.Content, body(16), func(m *pool.Message) {
			m.SetOptionBytes(message.Block2, []byte{0x01, 0x00, 0x00, 0x08})
		})
	case f[0] == "req" && len(f) == 4:
		n, typ, rlen := atoi(f[1]), f[2], atoi(f[3])
		w.mu.Lock()
		w.respLen[lp.Hex(peerTok(n))] = rlen
		w.mu.Unlock()
		t := message.NonConfirmable
		if typ == "con" {
			t = message.Confirmable
		}
		if err := w.inject(w.build(t, codes.GET, peerTok(n), int32(50000+n), nil, func(m *pool.Message) { _ = m.SetPath("/srv") })); err != nil {
			panic(err)
		}
	case f[0] == "reqs" && len(f) == 3:
		from, count := atoi(f[1]), atoi(f[2])
		for n := from; n < from+count; n++ {
			w.mu.Lock()
			w.respLen[lp.Hex(peerTok(n))] = 4
			w.mu.Unlock()
			if err := w.inject(w.build(message.Confirmable, codes.GET, peerTok(n), int32(50000+n), nil, func(m *pool.Message) { _ = m.SetPath("/srv") })); err != nil {
				panic(err)
			}
		}
	case f[0] == "nblk" && len(f) == 3:
		num, more := atoi(f[1]), f[2] == "1"
		if w.lastBlk.tok == "" {
			return
		}
		tok, _ := lp.ParseHex(w.lastBlk.tok)
		typ := message.NonConfirmable
		mid := w.nextMid
		w.nextMid++
		if w.lastBlk.typ == message.Confirmable {
			typ = message.Acknowledgement
			mid = w.lastBlk.mid
		}
		if err := w.inject(w.build(typ, codes.Content, tok, mid, body(16), func(m *pool.Message) {
			m.SetOptionUint32(message.Block2, blockVal(int64(num), more))
		})); err != nil {
			panic(err)
		}
	case f[0] == "reqb2" && len(f) == 3:
		n, num := atoi(f[1]), atoi(f[2])
		mid := w.nextMid
		w.nextMid++
		if err := w.inject(w.build(message.Confirmable, codes.GET, peerTok(n), mid, nil, func(m *pool.Message) {
			_ = m.SetPath("/srv")
			m.SetOptionUint32(message.Block2, blockVal(int64(num), false))
		})); err != nil {
			panic(err)
		}
	case f[0] == "up" && len(f) == 4:
		n, num, more := atoi(f[1]), atoi(f[2]), f[3] == "1"
		mid := w.nextMid
		w.nextMid++
		w.mu.Lock()
		w.respLen[lp.Hex(peerTok(1000+n))] = 4
		w.mu.Unlock()
		if err := w.inject(w.build(message.Confirmable, codes.POST, peerTok(1000+n), mid, body(16), func(m *pool.Message) {
			_ = m.SetPath("/srv")
			m.SetOptionUint32(message.Block1, blockVal(int64(num), more))
		})); err != nil {
			panic(err)
		}
	case f[0] == "cancel" && len(f) == 2:
		if c := w.cancels[atoi(f[1])]; c != nil {
			c()
		}
	case f[0] == "sleep" && len(f) == 2:
		time.Sleep(time.Duration(atoi(f[1])) * time.Millisecond)
	case f[0] == "tick":
		w.cc.CheckExpirations(time.Now())
	case f[0] == "close":
		w.over = true
		_ = w.cc.Close()
	case f[0] == "end":
		w.over = true
		for _, c := range w.cancels {
			c()
		}
		w.abandonPings()
	case f[0] == "settle":
	default:
		panic("bad-op " + strings.Join(f, ":"))
	}
}

// apEnd: the asynchronous ping `id` is over (its pong was delivered, it was cancelled, or it could not be sent)
func (w *world) apEnd(id int) {
	w.mu.Lock()
	defer w.mu.Unlock()
	if !w.apDone[id] {
		w.apDone[id] = true
		w.pings--
	}
}

// abandonPings: the caller gives up every asynchronous ping that has not been answered, by calling the cancel function
// AsyncPing returned (its obligation).  For a ping whose pong was delivered nothing is called: that exchange is over.
func (w *world) abandonPings() {
	w.mu.Lock()
	var todo []int
	for id := range w.apCancel {
		if !w.apDone[id] {
			todo = append(todo, id)
		}
	}
	w.mu.Unlock()
	for _, id := range todo {
		w.mu.Lock()
		c := w.apCancel[id]
		w.mu.Unlock()
		c()
		w.apEnd(id)
	}
}

func (w *world) run(ops []string) string {
	var segs []string
	for _, op := range ops {
		func() {
			defer func() {
				if r := recover(); r != nil {
					segs = append(segs, fmt.Sprintf("panic:%v", r))
				}
			}()
			w.apply(strings.Split(op, ":"))
		}()
		synctest.Wait()
		w.absorb()
		segs = append(segs, w.segment())
	}
	// every exchange ends, then housekeeping runs well past every deadline
	for _, c := range w.cancels {
		c()
	}
	synctest.Wait()
	w.abandonPings()
	synctest.Wait()
	for i := 0; i < 12; i++ {
		time.Sleep(45 * time.Second)
		w.cc.CheckExpirations(time.Now())
		synctest.Wait()
	}
	w.absorb()
	segs = append(segs, "final:"+w.segment())
	return strings.Join(segs, ";")
}

func newWorld(udp, bw bool) *world {
	return &world{udp: udp, bw: bw, cancels: map[int]context.CancelFunc{}, apCancel: map[int]func(){}, apDone: map[int]bool{}, obs: map[int]observation{}, liveObs: map[int]bool{},
		last: map[string]sent{}, nextMid: 40000, respLen: map[string]int{},
		slots: map[int]*pool.Message{}, slotBusy: map[int]bool{}, slotObs: map[int][]int{}, tokLen: map[int]int{}}
}

func (w *world) answer(tok message.Token) int {
	w.mu.Lock()
	defer w.mu.Unlock()
	return w.respLen[lp.Hex(tok)]
}

func runUDP(t *testing.T, nstart uint32, bw bool, limit, eplimit int64, ops []string) (out string) {
	synctest.Test(t, func(t *testing.T) {
		w := newWorld(true, bw)
		cc, s := mem.NewUDPConn(mem.UDPOpts{Blockwise: bw, BlockwiseSZX: blockwise.SZX16, Mutate: func(cfg *udpclient.Config) {
			cfg.LimitClientParallelRequests = limit
			cfg.LimitClientEndpointParallelRequests = eplimit
			cfg.TransmissionNStart = nstart
			cfg.GetMID = func() int32 { return 0xffff/2 + 100 }
			cfg.Handler = func(rw *responsewriter.ResponseWriter[*udpclient.Conn], r *pool.Message) {
				if r.Code() >= codes.GET && r.Code() <= codes.DELETE {
					_ = rw.SetResponse(codes.Content, message.TextPlain, bytes.NewReader(body(w.answer(r.Token()))))
				}
			}
		}})
		w.cc = cc
		w.observe = func(req *pool.Message, f func(*pool.Message)) (observation, error) {
			o, err := cc.DoObserve(req, f)
			if err != nil {
				return nil, err
			}
			return o, nil
		}
		w.sizes = func() [9]int {
			z := cc.VerifSizes()
			return [9]int{z.Token, z.Mid, z.Cache, z.Lock, z.BwRecv, z.BwSend, z.Obs, z.Limiter, cc.VerifRequestMessageIDs()}
		}
		w.inject = func(d []byte) error { return cc.Process(nil, d) }
		w.obsReq = cc.GetObservationRequest
		w.newMID = cc.GetMessageID
		w.taken = func() []sent {
			var out []sent
			for _, d := range s.TakeSent() {
				if x, ok := decodeSent(true, d.Data); ok {
					out = append(out, x)
				}
			}
			return out
		}
		out = w.run(ops)
		_ = cc.Close()
		synctest.Wait()
	})
	return out
}

func runTCP(t *testing.T, bw bool, limit, eplimit int64, ops []string) (out string) {
	synctest.Test(t, func(t *testing.T) {
		w := newWorld(false, bw)
		cc, peer, err := mem.NewTCPConn(mem.TCPOpts{Mutate: func(cfg *tcpclient.Config) {
			cfg.LimitClientParallelRequests = limit
			cfg.LimitClientEndpointParallelRequests = eplimit
			cfg.BlockwiseEnable = bw
			cfg.BlockwiseSZX = blockwise.SZX16
			cfg.Handler = func(rw *responsewriter.ResponseWriter[*tcpclient.Conn], r *pool.Message) {
				if r.Code() >= codes.GET && r.Code() <= codes.DELETE {
					_ = rw.SetResponse(codes.Content, message.TextPlain, bytes.NewReader(body(w.answer(r.Token()))))
				}
			}
		}})
		if err != nil {
			out = "conn-error"
			return
		}
		synctest.Wait()
		peer.TakeFrames()
		if bw {
			m := pool.NewMessage(context.Background())
			m.SetCode(codes.CSM)
			m.SetOptionBytes(message.TCPBlockWiseTransfer, []byte{})
			b, _ := m.MarshalWithEncoder(tcpcoder.DefaultCoder)
			_ = peer.Write(append([]byte(nil), b...))
			synctest.Wait()
		}
		w.cc = cc
		w.observe = func(req *pool.Message, f func(*pool.Message)) (observation, error) {
			o, err := cc.DoObserve(req, f)
			if err != nil {
				return nil, err
			}
			return o, nil
		}
		w.sizes = func() [9]int {
			z := cc.VerifSizes()
			return [9]int{z.Token, 0, 0, 0, z.BwRecv, z.BwSend, z.Obs, z.Limiter, 0}
		}
		w.inject = func(d []byte) error { return peer.Write(d) }
		w.obsReq = cc.GetObservationRequest
		w.newMID = func() int32 { return 0 }
		w.taken = func() []sent {
			var out []sent
			for _, d := range peer.TakeFrames() {
				if x, ok := decodeSent(false, d); ok {
					out = append(out, x)
				}
			}
			return out
		}
		out = w.run(ops)
		_ = cc.Close()
		peer.Close()
		synctest.Wait()
	})
	return out
}

// ---------------------------------------------------------------- discovery tables (udp/server)

func runDiscovery(outcome string) (out string) {
	defer func() {
		if r := recover(); r != nil {
			out = fmt.Sprintf("panic:%v", r)
		}
	}()
	l, err := coapNet.NewListenUDP("udp4", "127.0.0.1:0")
	if err != nil {
		return "skip:listen"
	}
	defer l.Close()
	s := udp.NewServer(options.WithMessagePool(pool.New(64, 2048)), options.WithErrors(func(error) {}))
	var wg sync.WaitGroup
	wg.Add(1)
	go func() { defer wg.Done(); _ = s.Serve(l) }()
	defer func() { s.Stop(); wg.Wait() }()
	time.Sleep(20 * time.Millisecond)
	// a silent peer to send to
	silent, err := net.ListenUDP("udp4", &net.UDPAddr{IP: net.IPv4(127, 0, 0, 1)})
	if err != nil {
		return "skip:listen"
	}
	defer silent.Close()
	addr := silent.LocalAddr().String()
	mk := func(ctx context.Context, tok message.Token) *pool.Message {
		req := pool.NewMessage(ctx)
		_ = req.SetupGet("/oic/res", tok)
		req.SetMessageID(1234)
		req.SetType(message.NonConfirmable)
		return req
	}
	recv := func(*udpclient.Conn, *pool.Message) {}
	var results []string
	during := ""
	switch outcome {
	case "timeout":
		ctx, cancel := context.WithTimeout(context.Background(), 40*time.Millisecond)
		defer cancel()
		err := s.DiscoveryRequest(mk(ctx, message.Token{1, 2, 3}), addr, recv)
		results = append(results, fmt.Sprint(err == nil))
	case "cancel":
		ctx, cancel := context.WithCancel(context.Background())
		go func() { time.Sleep(30 * time.Millisecond); cancel() }()
		err := s.DiscoveryRequest(mk(ctx, message.Token{1, 2, 4}), addr, recv)
		results = append(results, fmt.Sprint(err == nil))
	case "duptoken":
		ctx, cancel := context.WithTimeout(context.Background(), 120*time.Millisecond)
		defer cancel()
		done := make(chan error, 1)
		go func() { done <- s.DiscoveryRequest(mk(ctx, message.Token{1, 2, 5}), addr, recv) }()
		time.Sleep(30 * time.Millisecond)
		ctx2, cancel2 := context.WithTimeout(context.Background(), 30*time.Millisecond)
		defer cancel2()
		err2 := s.DiscoveryRequest(mk(ctx2, message.Token{1, 2, 5}), addr, recv)
		rq, hd := s.VerifDiscoverySizes()
		during = fmt.Sprintf("during:%d,%d", rq, hd)
		results = append(results, fmt.Sprint(err2 != nil), fmt.Sprint(<-done == nil))
	case "badaddr":
		ctx, cancel := context.WithTimeout(context.Background(), 40*time.Millisecond)
		defer cancel()
		err := s.DiscoveryRequest(mk(ctx, message.Token{1, 2, 6}), "not-an-address", recv)
		results = append(results, fmt.Sprint(err != nil))
	case "notoken":
		ctx, cancel := context.WithTimeout(context.Background(), 40*time.Millisecond)
		defer cancel()
		err := s.DiscoveryRequest(mk(ctx, nil), addr, recv)
		results = append(results, fmt.Sprint(err != nil))
	case "many":
		var wg2 sync.WaitGroup
		for i := 0; i < 8; i++ {
			wg2.Add(1)
			go func(i int) {
				defer wg2.Done()
				ctx, cancel := context.WithTimeout(context.Background(), time.Duration(20+5*i)*time.Millisecond)
				defer cancel()
				_ = s.DiscoveryRequest(mk(ctx, message.Token{9, byte(i)}), addr, recv)
			}(i)
		}
		wg2.Wait()
		results = append(results, "true")
	default:
		return "bad-op"
	}
	rq, hd := s.VerifDiscoverySizes()
	return strings.TrimSpace(fmt.Sprintf("%s ret:%s final:%d,%d", during, strings.Join(results, ","), rq, hd))
}

func TestC13(t *testing.T) {
	err := lp.FileLoop(func(f []string, w *bufio.Writer) {
		defer func() {
			if r := recover(); r != nil {
				fmt.Fprintf(w, "panic %v\n", r)
			}
		}()
		switch {
		case len(f) >= 5 && f[0] == "scn":
			bw := f[2] == "1"
			lim, _ := strconv.ParseInt(f[3], 10, 64)
			ep, _ := strconv.ParseInt(f[4], 10, 64)
			if strings.HasPrefix(f[1], "udp") {
				nstart := uint32(1000)
				if i := strings.Index(f[1], "@"); i >= 0 {
					if v, err := strconv.Atoi(f[1][i+1:]); err == nil && v > 0 {
						nstart = uint32(v)
					}
				}
				fmt.Fprintln(w, runUDP(t, nstart, bw, lim, ep, f[5:]))
			} else {
				fmt.Fprintln(w, runTCP(t, bw, lim, ep, f[5:]))
			}
		case len(f) == 2 && f[0] == "disc":
			fmt.Fprintln(w, runDiscovery(f[1]))
		default:
			fmt.Fprintln(w, "bad-op")
		}
	})
	if err != nil {
		t.Fatal(err)
	}
}
