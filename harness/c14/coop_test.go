//go:build c14coop

// Cooperative scheduler for C14. Built only by checks/c14.py with `-tags "verif c14coop" -overlay …`: the overlay replaces
// the RWMutex of pkg/sync.Map by CoopRWMutex (see overlay/zz_coop_verif.go.txt), whose Lock/RLock call into this scheduler.
// Exactly one goroutine runs at a time. A thread stops (yields) at the start of every operation and at every lock
// acquisition except the first one of an operation, so one scheduled step = one critical section together with the
// lock-free code before/after it — the granularity of the property ("all interleavings at critical-section granularity").
//
// Input ($VERIF_IN):   prog <map|cache> pre=<ops> t0=<ops> t1=<ops> [t2=<ops>] post=<ops> [max=<n>]      (ops: a,b,c or -)
//                      sched <i,i,…> prog …                                                                (one given schedule)
// Output ($VERIF_OUT): for every explored schedule `sched <i,…> | <history>`, then `# prog … schedules=<n> [truncated]`.
// History: `c<t>:<op>` / `r<t>:<result>` tokens; thread 9 = the sequential pre/post phases.
package c14

import (
	"bufio"
	"fmt"
	"strconv"
	"strings"
	"testing"
	"testing/synctest"
	"time"

	csync "github.com/plgd-dev/go-coap/v3/pkg/sync"
	"verifharness/internal/lp"
)

type abortRun struct{}

type cthread struct {
	id        int
	ops       []string
	wake      chan struct{}
	atOpStart bool
	firstAcq  bool
	wantMu    *csync.CoopRWMutex
	wantWrite bool
	done      bool
}

type coopSched struct {
	threads []*cthread
	cur     *cthread
	yield   chan int
	aborted  bool
	panicked bool
	events   []string
}

func available(mu *csync.CoopRWMutex, write bool) bool {
	if write {
		return !mu.Writer && mu.Readers == 0
	}
	return !mu.Writer
}

func take(mu *csync.CoopRWMutex, write bool) {
	if write {
		mu.Writer = true
	} else {
		mu.Readers++
	}
}

func (s *coopSched) Acquire(mu *csync.CoopRWMutex, write bool) {
	t := s.cur
	if t == nil {
		// the controller itself (sequential pre/post phase)
		if !available(mu, write) {
			panic("lock unavailable in a sequential phase")
		}
		take(mu, write)
		return
	}
	if t.firstAcq && available(mu, write) {
		t.firstAcq = false
		take(mu, write)
		return
	}
	t.firstAcq = false
	t.wantMu, t.wantWrite = mu, write
	s.yield <- t.id
	<-t.wake
	if s.aborted {
		panic(abortRun{})
	}
	t.wantMu = nil
	take(mu, write)
}

func (s *coopSched) Release(mu *csync.CoopRWMutex, write bool) {
	if write {
		mu.Writer = false
	} else {
		mu.Readers--
	}
}

func (s *coopSched) enabled() []int {
	var en []int
	for _, t := range s.threads {
		if t.done {
			continue
		}
		if t.atOpStart || (t.wantMu != nil && available(t.wantMu, t.wantWrite)) {
			en = append(en, t.id)
		}
	}
	return en
}

type program struct {
	kind    string
	pre     []string
	threads [][]string
	post    []string
	max     int
	text    string
}

func splitOps(s string) []string {
	if s == "-" || s == "" {
		return nil
	}
	return strings.Split(s, ",")
}

func parseProgram(f []string) (*program, error) {
	if len(f) < 2 || f[0] != "prog" {
		return nil, fmt.Errorf("not a prog line")
	}
	p := &program{kind: f[1], max: 20000, text: strings.Join(f, " ")}
	for _, w := range f[2:] {
		k, v, ok := strings.Cut(w, "=")
		if !ok {
			return nil, fmt.Errorf("bad field %q", w)
		}
		switch {
		case k == "pre":
			p.pre = splitOps(v)
		case k == "post":
			p.post = splitOps(v)
		case k == "max":
			p.max, _ = strconv.Atoi(v)
		case strings.HasPrefix(k, "t"):
			p.threads = append(p.threads, splitOps(v))
		default:
			return nil, fmt.Errorf("bad field %q", w)
		}
	}
	return p, nil
}

type trace struct {
	chosen  []int
	enabled [][]int
	history string
	bad     string // deadlock / divergence
}

// runSchedule executes the program once following `prefix`, then always the lowest enabled thread.
func runSchedule(t *testing.T, p *program, prefix []int) (tr trace) {
	synctest.Test(t, func(t *testing.T) {
		s := &coopSched{yield: make(chan int)}
		csync.VerifCoopHook = s
		defer func() { csync.VerifCoopHook = nil }()
		obj := newCoopObject(p.kind)
		logs := map[*cthread]*[]string{}
		e := &env{base: time.Now(), curLog: func() *[]string {
			if logs[s.cur] == nil {
				logs[s.cur] = new([]string)
			}
			return logs[s.cur]
		}}
		// a scheduling point that is not a lock of the object under test: a private mutex taken for reading
		var gateMu csync.CoopRWMutex
		e.gate = func() { gateMu.RLock(); gateMu.RUnlock() }
		curID := func() int {
			if s.cur == nil {
				return 9
			}
			return s.cur.id
		}
		e.boundary = func(ret, nextOp string) {
			id := curID()
			s.events = append(s.events, fmt.Sprintf("r%d:%s", id, ret))
			if t := s.cur; t != nil {
				t.atOpStart = true
				s.yield <- t.id
				<-t.wake
				if s.aborted {
					panic(abortRun{})
				}
				t.atOpStart = false
				t.firstAcq = true
			}
			s.events = append(s.events, fmt.Sprintf("c%d:%s", id, nextOp))
		}
		run := func(id int, op string) {
			f := strings.Split(op, ":")
			name := op
			if h, ok := obj.(historyOp); ok {
				name = h.histOp(f)
			}
			s.events = append(s.events, fmt.Sprintf("c%d:%s", id, name))
			res := func() (res string) {
				if id == 9 {
					// a panic of the code under test in a sequential phase is this schedule's observation (the threads'
					// goroutines recover theirs below): the binary goes on with the next schedule / program
					defer func() {
						if r := recover(); r != nil {
							s.panicked = true
							res = "panic:" + strings.ReplaceAll(fmt.Sprint(r), " ", "_")
						}
					}()
				}
				return obj.exec(f, e)
			}()
			s.events = append(s.events, fmt.Sprintf("r%d:%s", id, res))
		}
		for _, op := range p.pre {
			if !s.panicked {
				run(9, op)
			}
		}
		for i, ops := range p.threads {
			th := &cthread{id: i, ops: ops, wake: make(chan struct{})}
			s.threads = append(s.threads, th)
			go func() {
				defer func() {
					if r := recover(); r != nil {
						if _, ok := r.(abortRun); !ok {
							s.panicked = true
							s.events = append(s.events, fmt.Sprintf("r%d:panic:%s", th.id, strings.ReplaceAll(fmt.Sprint(r), " ", "_")))
						}
					}
					th.done = true
					th.atOpStart = false
					if !s.aborted {
						s.yield <- th.id
					}
				}()
				for _, op := range th.ops {
					th.atOpStart = true
					s.yield <- th.id
					<-th.wake
					if s.aborted {
						panic(abortRun{})
					}
					th.atOpStart = false
					th.firstAcq = true
					run(th.id, op)
				}
			}()
			if id := <-s.yield; id != i {
				panic("unexpected yield order")
			}
		}
		step := 0
		for {
			en := s.enabled()
			if len(en) == 0 {
				for _, th := range s.threads {
					if !th.done {
						tr.bad = "deadlock"
					}
				}
				break
			}
			pick := en[0]
			if step < len(prefix) {
				pick = prefix[step]
				ok := false
				for _, x := range en {
					ok = ok || x == pick
				}
				if !ok {
					tr.bad = "diverged"
					break
				}
			}
			tr.chosen = append(tr.chosen, pick)
			tr.enabled = append(tr.enabled, en)
			th := s.threads[pick]
			s.cur = th
			th.wake <- struct{}{}
			<-s.yield
			s.cur = nil
			step++
		}
		if tr.bad != "" {
			// release the parked goroutines
			s.aborted = true
			for _, th := range s.threads {
				if !th.done {
					th.wake <- struct{}{}
				}
			}
			synctest.Wait()
			s.events = append(s.events, "r9:"+tr.bad)
		} else {
			for _, op := range p.post {
				if !s.panicked { // after a panic the object may be left locked / half updated: the history ends there
					run(9, op)
				}
			}
		}
		tr.history = strings.Join(s.events, " ")
		if c, ok := obj.(interface{ shutdown() }); ok {
			// objects with goroutines of their own (a real connection) end them before the bubble is left
			func() {
				defer func() { _ = recover() }()
				c.shutdown()
			}()
			synctest.Wait()
		}
	})
	return tr
}

func intsStr(xs []int) string {
	if len(xs) == 0 {
		return "-"
	}
	p := make([]string, len(xs))
	for i, x := range xs {
		p[i] = strconv.Itoa(x)
	}
	return strings.Join(p, ",")
}

func exploreProgram(t *testing.T, p *program, w *bufio.Writer) {
	n := 0
	truncated := false
	var dfs func(prefix []int)
	dfs = func(prefix []int) {
		if n >= p.max {
			truncated = true
			return
		}
		tr := runSchedule(t, p, prefix)
		n++
		fmt.Fprintf(w, "sched %s | %s\n", intsStr(tr.chosen), tr.history)
		if tr.bad == "diverged" {
			return
		}
		for d := len(tr.chosen) - 1; d >= len(prefix); d-- {
			for _, alt := range tr.enabled[d] {
				if alt > tr.chosen[d] {
					dfs(append(append([]int(nil), tr.chosen[:d]...), alt))
				}
			}
		}
	}
	dfs(nil)
	tail := ""
	if truncated {
		tail = " truncated"
	}
	fmt.Fprintf(w, "# %s schedules=%d%s\n", p.text, n, tail)
}

func TestC14(t *testing.T) {
	err := lp.FileLoop(func(f []string, w *bufio.Writer) {
		defer func() {
			if r := recover(); r != nil {
				fmt.Fprintf(w, "panic %v\n", r)
			}
		}()
		switch {
		case len(f) > 2 && f[0] == "prog":
			p, err := parseProgram(f)
			if err != nil {
				fmt.Fprintf(w, "bad-op %v\n", err)
				return
			}
			exploreProgram(t, p, w)
		case len(f) > 3 && f[0] == "sched" && f[2] == "prog":
			p, err := parseProgram(f[2:])
			if err != nil {
				fmt.Fprintf(w, "bad-op %v\n", err)
				return
			}
			var pre []int
			if f[1] != "-" {
				for _, x := range strings.Split(f[1], ",") {
					pre = append(pre, atoi(x))
				}
			}
			tr := runSchedule(t, p, pre)
			fmt.Fprintf(w, "sched %s | %s\n", intsStr(tr.chosen), tr.history)
		default:
			fmt.Fprintln(w, "bad-op")
		}
	})
	if err != nil {
		t.Fatal(err)
	}
}
