//go:build c14coop

// Wrapper kind `limiter` (C16 x C14): the REAL limitparallelrequests.LimitParallelRequests over the cooperative-mutex Map.
// Every critical section of the endpoint table (pkg/sync.Map) is a scheduling point, so the interleavings the limiter's
// synctest harness (harness/c16) cannot produce - an arrival that has looked its path up while the last request of the path
// finishes - are enumerated deterministically.  The histories are printed in the format of harness/c16 and judged by the
// C16 specification (lean/Driver/C16.lean: limits, admission order, cancel-neutral, no leak, idle).
//
// Input ($VERIF_IN):   lim <L> <E> t0=<ops> t1=<ops> … [max=<n>]           all schedules (DFS by re-execution)
//                      lsched <i,i,…> lim <L> <E> t0=…                      one given schedule
//                      ops of a thread (a client goroutine), comma separated:
//                        req:<id>:<path>   Do(request for path) - arrives, (waits), runs inside the wrapped function until the
//                                          thread is scheduled again (= finish), releases
//                        cancel:<id>       the context of request <id> ends (enabled once <id> has arrived and not returned)
// Output ($VERIF_OUT): `lsched <i,…> | cfg L E ; <ev> [& <ev>] | run … ret … tab … n … ; … ; idle | entries n probe ok`
//                      per schedule, then `# lim … schedules=<n> [truncated]`.
//
// A scheduled step runs one thread from where it is parked (start of an operation, a lock of the table it has to wait its
// turn for, the inside of the wrapped function) until it parks again, blocks for real (the select of acquireEndpoint, the
// semaphore) or ends; goroutines this wakes (a closed channel) run on until they park.  The controller waits for that with
// synctest.Wait.  A line of the history is closed whenever no thread is parked in the middle of a limiter operation (at a
// lock): these are the states a client can observe at quiescence; the steps in between are the events of one window
// (`ping <t>` = a thread went on from a lock, no event of the specification).
package c14

import (
	"bufio"
	"context"
	"errors"
	"fmt"
	"runtime"
	"sort"
	"strconv"
	"strings"
	gosync "sync"
	"testing"
	"testing/synctest"

	"github.com/plgd-dev/go-coap/v3/message"
	"github.com/plgd-dev/go-coap/v3/message/codes"
	"github.com/plgd-dev/go-coap/v3/message/pool"
	lpr "github.com/plgd-dev/go-coap/v3/net/client/limitParallelRequests"
	csync "github.com/plgd-dev/go-coap/v3/pkg/sync"
	"verifharness/internal/lp"
)

func gid() uint64 {
	var b [64]byte
	n := runtime.Stack(b[:], false)
	f := strings.Fields(string(b[:n]))
	if len(f) < 2 {
		return 0
	}
	id, _ := strconv.ParseUint(f[1], 10, 64)
	return id
}

type lthread struct {
	id        int
	ops       []string
	next      string // the operation the thread is about to start (park == "op")
	wake      chan struct{}
	park      string // "" running / blocked for real / ended; "op", "lock", "do"
	wantMu    *csync.CoopRWMutex
	wantWrite bool
	firstAcq  bool
	inReq     int // the request whose Do the thread is inside
	done      bool
}

type limSched struct {
	lim     *lpr.LimitParallelRequests
	threads []*lthread
	cur     *lthread
	aborted bool

	mu        gosync.Mutex
	byGid     map[uint64]*lthread
	reqID     map[*pool.Message]int
	running   map[int]bool
	arrived   []int
	pathOf    map[int]int
	cancelFn  map[int]context.CancelFunc
	cancelled map[int]bool
	returned  map[int]string
	newRets   []int
	panics    []string
}

func (s *limSched) threadOf() *lthread {
	g := gid()
	s.mu.Lock()
	defer s.mu.Unlock()
	return s.byGid[g]
}

func (s *limSched) parkAt(t *lthread, where string) {
	t.park = where
	<-t.wake
	if s.aborted {
		panic(abortRun{})
	}
	t.park = ""
}

func (s *limSched) Acquire(mu *csync.CoopRWMutex, write bool) {
	t := s.threadOf()
	if t == nil {
		// the controller (observation, idle probe)
		if !available(mu, write) {
			panic("lock unavailable in a sequential phase")
		}
		take(mu, write)
		return
	}
	if s.aborted {
		panic(abortRun{})
	}
	if t == s.cur && t.firstAcq && available(mu, write) {
		t.firstAcq = false
		take(mu, write)
		return
	}
	t.firstAcq = false
	t.wantMu, t.wantWrite = mu, write
	s.parkAt(t, "lock")
	t.wantMu = nil
	take(mu, write)
}

func (s *limSched) Release(mu *csync.CoopRWMutex, write bool) {
	if write {
		mu.Writer = false
	} else {
		mu.Readers--
	}
}

func (s *limSched) do(req *pool.Message) (*pool.Message, error) {
	t := s.threadOf()
	s.mu.Lock()
	id, ok := s.reqID[req]
	if ok {
		s.running[id] = true
	}
	s.mu.Unlock()
	if !ok || t == nil {
		return nil, nil // a probe request: returns at once
	}
	s.parkAt(t, "do")
	t.firstAcq = true
	s.mu.Lock()
	delete(s.running, id)
	s.mu.Unlock()
	return nil, nil
}

func limPathKey(p int) uint64 {
	return lpr.VerifHash(message.Options{{ID: message.URIPath, Value: []byte(fmt.Sprintf("p%d", p))}})
}

func limRequest(ctx context.Context, path int) *pool.Message {
	req := pool.NewMessage(ctx)
	req.SetCode(codes.GET)
	if err := req.SetPath(fmt.Sprintf("/p%d", path)); err != nil {
		panic(err)
	}
	return req
}

func (s *limSched) exec(t *lthread, op string) {
	f := strings.Split(op, ":")
	switch f[0] {
	case "req":
		id, path := atoi(f[1]), atoi(f[2])
		ctx, cancel := context.WithCancel(context.Background())
		req := limRequest(ctx, path)
		s.mu.Lock()
		s.reqID[req] = id
		s.cancelFn[id] = cancel
		s.arrived = append(s.arrived, id)
		s.pathOf[id] = path
		s.mu.Unlock()
		t.inReq = id
		res := "ok"
		_, err := s.lim.Do(req)
		switch {
		case err == nil:
		case errors.Is(err, context.Canceled):
			res = "ctx"
		default:
			res = "other"
		}
		s.mu.Lock()
		s.returned[id] = res
		s.newRets = append(s.newRets, id)
		s.mu.Unlock()
	case "cancel":
		id := atoi(f[1])
		s.mu.Lock()
		fn := s.cancelFn[id]
		s.cancelled[id] = true
		s.mu.Unlock()
		if fn != nil {
			fn()
		}
	default:
		panic("bad limiter op " + op)
	}
}

func (s *limSched) enabledThreads() []int {
	s.mu.Lock()
	defer s.mu.Unlock()
	var en []int
	for _, t := range s.threads {
		switch t.park {
		case "op":
			f := strings.Split(t.next, ":")
			if f[0] == "cancel" {
				id := atoi(f[1])
				arrived := false
				for _, a := range s.arrived {
					arrived = arrived || a == id
				}
				if !arrived || s.returned[id] != "" || s.cancelled[id] {
					continue
				}
			}
			en = append(en, t.id)
		case "do":
			en = append(en, t.id)
		case "lock":
			if available(t.wantMu, t.wantWrite) {
				en = append(en, t.id)
			}
		}
	}
	return en
}

func (s *limSched) observe() string {
	s.mu.Lock()
	run := make([]int, 0, len(s.running))
	for id := range s.running {
		run = append(run, id)
	}
	sort.Ints(run)
	rets := append([]int(nil), s.newRets...)
	s.newRets = nil
	sort.Ints(rets)
	rp := make([]string, len(rets))
	for i, id := range rets {
		rp[i] = fmt.Sprintf("%d:%s", id, s.returned[id])
	}
	paths := map[int]bool{}
	for _, id := range s.arrived {
		paths[s.pathOf[id]] = true
	}
	s.mu.Unlock()
	ps := make([]int, 0, len(paths))
	for p := range paths {
		ps = append(ps, p)
	}
	sort.Ints(ps)
	var tab []string
	for _, p := range ps {
		if c, w, ok := s.lim.VerifEndpoint(limPathKey(p)); ok {
			tab = append(tab, fmt.Sprintf("%d:%d/%d", p, c, w))
		}
	}
	dash := func(l []string) string {
		if len(l) == 0 {
			return "-"
		}
		return strings.Join(l, ",")
	}
	return fmt.Sprintf("run %s ret %s tab %s n %d", intsStr(run), dash(rp), dash(tab), s.lim.VerifEntries())
}

// probe: after all calls returned a fresh request is admitted at once on every path used, and nothing is left behind
func (s *limSched) probe() string {
	s.mu.Lock()
	used := map[int]bool{}
	for _, id := range s.arrived {
		used[s.pathOf[id]] = true
	}
	s.mu.Unlock()
	ps := make([]int, 0, len(used))
	for p := range used {
		ps = append(ps, p)
	}
	sort.Ints(ps)
	for _, p := range append(ps, 500) {
		ctx, cancel := context.WithCancel(context.Background())
		returned := false
		go func() {
			defer func() { _ = recover() }()
			_, err := s.lim.Do(limRequest(ctx, p))
			returned = err == nil
		}()
		synctest.Wait()
		cancel()
		if !returned {
			synctest.Wait()
			return fmt.Sprintf("blocked:p%d", p)
		}
	}
	if e := s.lim.VerifEntries(); e != 0 {
		return fmt.Sprintf("entries-after-probe:%d", e)
	}
	return "ok"
}

type limProgram struct {
	limit, eplimit int64
	threads        [][]string
	max            int
	text           string
}

func parseLimProgram(f []string) (*limProgram, error) {
	if len(f) < 4 || f[0] != "lim" {
		return nil, fmt.Errorf("not a lim line")
	}
	p := &limProgram{max: 20000, text: strings.Join(f, " ")}
	p.limit, _ = strconv.ParseInt(f[1], 10, 64)
	p.eplimit, _ = strconv.ParseInt(f[2], 10, 64)
	for _, w := range f[3:] {
		k, v, ok := strings.Cut(w, "=")
		switch {
		case ok && k == "max":
			p.max, _ = strconv.Atoi(v)
		case ok && strings.HasPrefix(k, "t"):
			p.threads = append(p.threads, splitOps(v))
		default:
			return nil, fmt.Errorf("bad field %q", w)
		}
	}
	return p, nil
}

func runLimSchedule(t *testing.T, p *limProgram, prefix []int) (tr trace) {
	synctest.Test(t, func(t *testing.T) {
		s := &limSched{byGid: map[uint64]*lthread{}, reqID: map[*pool.Message]int{}, running: map[int]bool{}, pathOf: map[int]int{},
			cancelFn: map[int]context.CancelFunc{}, cancelled: map[int]bool{}, returned: map[int]string{}}
		s.lim = lpr.New(p.limit, p.eplimit, s.do, nil)
		csync.VerifCoopHook = s
		defer func() { csync.VerifCoopHook = nil }()
		var b strings.Builder
		fmt.Fprintf(&b, "cfg %d %d", p.limit, p.eplimit)
		for i, ops := range p.threads {
			th := &lthread{id: i, ops: ops, wake: make(chan struct{}), inReq: -1}
			s.threads = append(s.threads, th)
			go func() {
				s.mu.Lock()
				s.byGid[gid()] = th
				s.mu.Unlock()
				defer func() {
					if r := recover(); r != nil {
						if _, ok := r.(abortRun); !ok {
							s.mu.Lock()
							s.panics = append(s.panics, fmt.Sprint(r))
							s.mu.Unlock()
						}
					}
					th.park = ""
					th.done = true
				}()
				for _, op := range th.ops {
					th.next = op
					s.parkAt(th, "op")
					th.firstAcq = true
					s.exec(th, op)
				}
			}()
		}
		var pending []string
		midOperation := func() bool {
			for _, th := range s.threads {
				if th.park == "lock" {
					return true
				}
			}
			return false
		}
		step := 0
		for {
			synctest.Wait()
			if len(pending) > 0 && !midOperation() {
				fmt.Fprintf(&b, " ; %s | %s", strings.Join(pending, " & "), s.observe())
				pending = nil
			}
			s.mu.Lock()
			crashed := len(s.panics) > 0
			s.mu.Unlock()
			if crashed {
				break
			}
			en := s.enabledThreads()
			if len(en) == 0 {
				break
			}
			pick := en[0]
			if step < len(prefix) {
				pick = prefix[step]
				ok := false
				for _, x := range en {
					ok = ok || x == pick
				}
				if !ok {
					tr.bad = "diverged"
					break
				}
			}
			tr.chosen = append(tr.chosen, pick)
			tr.enabled = append(tr.enabled, en)
			th := s.threads[pick]
			switch th.park {
			case "op":
				f := strings.Split(th.next, ":")
				if f[0] == "req" {
					pending = append(pending, fmt.Sprintf("arrive %s %s", f[1], f[2]))
				} else {
					pending = append(pending, "cancel "+f[1])
				}
			case "do":
				pending = append(pending, fmt.Sprintf("finish %d", th.inReq))
			default:
				pending = append(pending, fmt.Sprintf("ping %d", th.id))
			}
			s.cur = th
			th.wake <- struct{}{}
			step++
		}
		if len(pending) > 0 {
			fmt.Fprintf(&b, " ; %s | %s", strings.Join(pending, " & "), s.observe())
		}
		if tr.bad == "" {
			s.mu.Lock()
			all := len(s.panics) == 0
			for _, id := range s.arrived {
				all = all && s.returned[id] != ""
			}
			s.mu.Unlock()
			if all {
				entries := s.lim.VerifEntries()
				fmt.Fprintf(&b, " ; idle | entries %d probe %s", entries, s.probe())
			} else {
				fmt.Fprintf(&b, " ; idle | entries %d probe pending", s.lim.VerifEntries())
			}
		}
		s.mu.Lock()
		if len(s.panics) > 0 {
			fmt.Fprintf(&b, " ; panic | %s", strings.ReplaceAll(strings.Join(s.panics, "/"), " ", "_"))
		}
		// let every goroutine leave before the bubble ends
		s.aborted = true
		for _, fn := range s.cancelFn {
			fn()
		}
		s.mu.Unlock()
		for _, th := range s.threads {
			if th.park != "" {
				th.wake <- struct{}{}
			}
		}
		synctest.Wait()
		tr.history = b.String()
		if tr.bad != "" {
			tr.history = tr.bad
		}
	})
	return tr
}

func exploreLimProgram(t *testing.T, p *limProgram, w *bufio.Writer) {
	n := 0
	truncated := false
	var dfs func(prefix []int)
	dfs = func(prefix []int) {
		if n >= p.max {
			truncated = true
			return
		}
		tr := runLimSchedule(t, p, prefix)
		n++
		fmt.Fprintf(w, "lsched %s | %s\n", intsStr(tr.chosen), tr.history)
		if tr.bad == "diverged" {
			return
		}
		for d := len(tr.chosen) - 1; d >= len(prefix); d-- {
			for _, alt := range tr.enabled[d] {
				if alt > tr.chosen[d] {
					dfs(append(append([]int(nil), tr.chosen[:d]...), alt))
				}
			}
		}
	}
	dfs(nil)
	tail := ""
	if truncated {
		tail = " truncated"
	}
	fmt.Fprintf(w, "# %s schedules=%d%s\n", p.text, n, tail)
}

func TestC14Limiter(t *testing.T) {
	err := lp.FileLoop(func(f []string, w *bufio.Writer) {
		defer func() {
			if r := recover(); r != nil {
				fmt.Fprintf(w, "panic %v\n", r)
			}
		}()
		switch {
		case len(f) > 3 && f[0] == "lim":
			p, err := parseLimProgram(f)
			if err != nil {
				fmt.Fprintf(w, "bad-op %v\n", err)
				return
			}
			exploreLimProgram(t, p, w)
		case len(f) > 5 && f[0] == "lsched" && f[2] == "lim":
			p, err := parseLimProgram(f[2:])
			if err != nil {
				fmt.Fprintf(w, "bad-op %v\n", err)
				return
			}
			var pre []int
			if f[1] != "-" {
				for _, x := range strings.Split(f[1], ",") {
					pre = append(pre, atoi(x))
				}
			}
			tr := runLimSchedule(t, p, pre)
			fmt.Fprintf(w, "lsched %s | %s\n", intsStr(tr.chosen), tr.history)
		default:
			fmt.Fprintln(w, "bad-op")
		}
	})
	if err != nil {
		t.Fatal(err)
	}
}
