// Objects under test for C14: the real sync.Map[int,int] and cache.Cache[int,int] of /repo behind one small interface
// that executes an operation given as text and returns its result as canonical text (see checks/c14.py for the grammar).
package c14

import (
	"fmt"
	"sort"
	"strconv"
	"strings"
	"time"

	"github.com/plgd-dev/go-coap/v3/pkg/cache"
	csync "github.com/plgd-dev/go-coap/v3/pkg/sync"
)

type val struct{ id, vu int }

func (v val) String() string {
	if v.vu == 0 {
		return strconv.Itoa(v.id)
	}
	return fmt.Sprintf("%d@%d", v.id, v.vu)
}

func parseVal(s string) val {
	a, b, ok := strings.Cut(s, "@")
	id, _ := strconv.Atoi(a)
	vu := 0
	if ok {
		vu, _ = strconv.Atoi(b)
	}
	return val{id, vu}
}

func optStr(v val, ok bool) string {
	if !ok {
		return "nil"
	}
	return v.String()
}

type kv struct {
	k int
	v val
}

// runMin: a maximal run of at least this many entries with consecutive keys and one value is written `a..b=v` in a sorted
// listing (a lossless abbreviation: the listing of a table of 1025 or 2048 entries stays readable; lean/Driver/C14.lean reads
// and writes the same form)
const runMin = 8

func listStr(l []kv, sorted bool) string {
	if sorted {
		sort.Slice(l, func(i, j int) bool { return l[i].k < l[j].k })
	}
	var p []string
	for i := 0; i < len(l); {
		j := i + 1
		for sorted && j < len(l) && l[j].k == l[j-1].k+1 && l[j].v == l[i].v {
			j++
		}
		if j-i >= runMin {
			p = append(p, fmt.Sprintf("%d..%d=%s", l[i].k, l[j-1].k, l[i].v))
			i = j
			continue
		}
		p = append(p, fmt.Sprintf("%d=%s", l[i].k, l[i].v))
		i++
	}
	return "[" + strings.Join(p, ",") + "]"
}

func atoi(s string) int { n, _ := strconv.Atoi(s); return n }

// env gives an operation access to the harness: the base of the virtual clock and the log that collects onExpire calls of
// the thread that is running (the sweep reports the entries added to it while it ran).
type env struct {
	base   time.Time
	curLog func() *[]string
	// cooperative scheduler only (nil otherwise):
	// boundary ends the history operation the running thread is in with result `ret` and starts the next one (`nextOp`) at the
	// thread's next scheduled step — for one real call that is two operations of the specification (BlockWise.Do = register … remove)
	boundary func(ret, nextOp string)
	// gate is a scheduling point inside code the harness supplies to the library (a client's AcquireMessage)
	gate func()
}

// historyOp lets an object say under which name of the specification an operation appears in the history.
type historyOp interface {
	histOp(f []string) string
}

type object interface {
	exec(f []string, e *env) string
}

// ---------------------------------------------------------------- sync.Map[int,int]

type mapObj struct{ m *csync.Map[int, int] }

func newMapObj() *mapObj { return &mapObj{m: csync.NewMap[int, int]()} }

func replaceFn(f []string) func(old int, loaded bool) (int, bool) {
	switch f[0] {
	case "inc":
		d := atoi(f[1])
		return func(old int, loaded bool) (int, bool) {
			if loaded {
				return old + d, false
			}
			return d, false
		}
	case "del":
		return func(old int, loaded bool) (int, bool) { return old, true }
	case "cas":
		x, y := atoi(f[1]), atoi(f[2])
		return func(old int, loaded bool) (int, bool) {
			if !loaded {
				return old, true
			}
			if old == x {
				return y, false
			}
			return old, false
		}
	}
	panic("bad replace function " + strings.Join(f, ":"))
}

// lwfr appears in the history as the LoadWithFunc it is
func (o *mapObj) histOp(f []string) string {
	if f[0] == "lwfr" {
		return "lwf:" + strings.Join(f[1:], ":")
	}
	return strings.Join(f, ":")
}

func (o *mapObj) exec(f []string, e *env) string {
	m := o.m
	iv := func(i int) val { return val{id: i} }
	switch f[0] {
	case "store":
		m.Store(atoi(f[1]), parseVal(f[2]).id)
		return "-"
	case "load":
		v, ok := m.Load(atoi(f[1]))
		return "v=" + optStr(iv(v), ok)
	case "los":
		v, loaded := m.LoadOrStore(atoi(f[1]), parseVal(f[2]).id)
		return fmt.Sprintf("a=%s/%v", iv(v), loaded)
	case "replace":
		v, ok := m.Replace(atoi(f[1]), parseVal(f[2]).id)
		return "v=" + optStr(iv(v), ok)
	case "delete":
		m.Delete(atoi(f[1]))
		return "-"
	case "lad":
		v, ok := m.LoadAndDelete(atoi(f[1]))
		return "v=" + optStr(iv(v), ok)
	case "ladall":
		var l []kv
		for k, v := range m.LoadAndDeleteAll() {
			l = append(l, kv{k, iv(v)})
		}
		return "d=" + listStr(l, true)
	case "copy":
		var l []kv
		for k, v := range m.CopyData() {
			l = append(l, kv{k, iv(v)})
		}
		return "d=" + listStr(l, true)
	case "len":
		return fmt.Sprintf("n=%d", m.Length())
	case "range":
		stop := -1
		if len(f) > 1 {
			stop = atoi(f[1])
		}
		var l []kv
		m.Range(func(k, v int) bool {
			l = append(l, kv{k, iv(v)})
			return len(l) != stop
		})
		return "w=" + listStr(l, false)
	case "range2":
		var l []kv
		m.Range2(func(k, v int) bool {
			l = append(l, kv{k, iv(v)})
			return true
		})
		return "d=" + listStr(l, true)
	case "swf":
		m.StoreWithFunc(atoi(f[1]), func() int { return parseVal(f[2]).id })
		return "-"
	case "lwf":
		d := atoi(f[2])
		cb := "nil"
		v, ok := m.LoadWithFunc(atoi(f[1]), func(v int) int { cb = iv(v).String(); return v + d })
		return fmt.Sprintf("v=%s/cb=%s", optStr(iv(v), ok), cb)
	case "lwfr":
		// LoadWithFunc whose callback looks the key up again (a nested read lock: a scheduling point inside the callback):
		// cb = what the callback was called with, now = what the map holds under the key while the callback runs
		d := atoi(f[2])
		cb, now := "nil", "nil"
		v, ok := m.LoadWithFunc(atoi(f[1]), func(v int) int {
			cb = iv(v).String()
			w, wok := m.Load(atoi(f[1]))
			now = optStr(iv(w), wok)
			return v + d
		})
		if cb == "nil" {
			return fmt.Sprintf("v=%s/cb=nil", optStr(iv(v), ok))
		}
		return fmt.Sprintf("v=%s/cb=%s/now=%s", optStr(iv(v), ok), cb, now)
	case "loswf":
		d := atoi(f[2])
		cb := "nil"
		v, loaded := m.LoadOrStoreWithFunc(atoi(f[1]), func(v int) int { cb = iv(v).String(); return v + d },
			func() int { return parseVal(f[3]).id })
		return fmt.Sprintf("a=%s/%v/cb=%s", iv(v), loaded, cb)
	case "loswfn":
		// the lazy store-if-absent: no onLoad callback (nil) - what an identity callback would have seen is the value returned
		v, loaded := m.LoadOrStoreWithFunc(atoi(f[1]), nil, func() int { return parseVal(f[2]).id })
		cb := "nil"
		if loaded {
			cb = iv(v).String()
		}
		return fmt.Sprintf("a=%s/%v/cb=%s", iv(v), loaded, cb)
	case "rwf":
		fn := replaceFn(f[2:])
		cb := "nil"
		v, ok := m.ReplaceWithFunc(atoi(f[1]), func(old int, loaded bool) (int, bool) {
			cb = optStr(iv(old), loaded)
			return fn(old, loaded)
		})
		return fmt.Sprintf("v=%s/cb=%s", optStr(iv(v), ok), cb)
	case "dwf":
		cb := "nil"
		m.DeleteWithFunc(atoi(f[1]), func(v int) { cb = iv(v).String() })
		return "v=nil/cb=" + cb
	case "ladwf":
		d := atoi(f[2])
		cb := "nil"
		v, ok := m.LoadAndDeleteWithFunc(atoi(f[1]), func(v int) int { cb = iv(v).String(); return v + d })
		return fmt.Sprintf("v=%s/cb=%s", optStr(iv(v), ok), cb)
	case "tick":
		time.Sleep(time.Duration(atoi(f[1])) * time.Second)
		return "-"
	case "fill":
		// fill:<n>:<base>:<v> = n calls of Store, keys base … base+n-1, one value: the table of a connection that has been busy
		// for a while (1024 / 1025 / 2048 entries and more); in the history the n calls are written as this one token
		for i, n, base, v := 0, atoi(f[1]), atoi(f[2]), parseVal(f[3]).id; i < n; i++ {
			m.Store(base+i, v)
		}
		return "-"
	}
	panic("bad map op " + strings.Join(f, ":"))
}

// ---------------------------------------------------------------- cache.Cache[int,int]

type cacheObj struct {
	c *cache.Cache[int, int]
}

func newCacheObj() *cacheObj { return &cacheObj{c: cache.NewCache[int, int]()} }

func (o *cacheObj) elem(v val, e *env) *cache.Element[int] {
	var until time.Time
	if v.vu != 0 {
		until = e.base.Add(time.Duration(v.vu) * time.Second)
	}
	vv := v
	return cache.NewElement(v.id, until, func(int) {
		lg := e.curLog()
		*lg = append(*lg, vv.String())
	})
}

func elemVal(el *cache.Element[int], e *env) val {
	u := el.ValidUntil.Load()
	vu := 0
	if !u.IsZero() {
		vu = int(u.Sub(e.base) / time.Second)
	}
	return val{id: el.Data(), vu: vu}
}

func (o *cacheObj) exec(f []string, e *env) string {
	c := o.c
	ev := func(el *cache.Element[int], ok bool) string {
		if !ok || el == nil {
			return "nil"
		}
		return elemVal(el, e).String()
	}
	switch f[0] {
	case "clos":
		el := o.elem(parseVal(f[2]), e)
		a, loaded := c.LoadOrStore(atoi(f[1]), el)
		return fmt.Sprintf("a=%s/%v", ev(a, true), loaded)
	case "cload":
		a := c.Load(atoi(f[1]))
		return "v=" + ev(a, a != nil)
	case "sweep":
		lg := e.curLog()
		from := len(*lg)
		// `sweep` passes the clock, `sweep:<t>` an explicit time (seconds after the base; it may be ahead of or behind the clock)
		now := time.Now()
		if len(f) > 1 {
			now = e.base.Add(time.Duration(atoi(f[1])) * time.Second)
		}
		c.CheckExpirations(now)
		got := append([]string(nil), (*lg)[from:]...)
		return "x=[" + strings.Join(got, ",") + "]"
	case "store":
		c.Store(atoi(f[1]), o.elem(parseVal(f[2]), e))
		return "-"
	case "load":
		a, ok := c.Map.Load(atoi(f[1]))
		return "v=" + ev(a, ok)
	case "los":
		a, loaded := c.Map.LoadOrStore(atoi(f[1]), o.elem(parseVal(f[2]), e))
		return fmt.Sprintf("a=%s/%v", ev(a, true), loaded)
	case "replace":
		a, ok := c.Replace(atoi(f[1]), o.elem(parseVal(f[2]), e))
		return "v=" + ev(a, ok)
	case "delete":
		c.Delete(atoi(f[1]))
		return "-"
	case "lad":
		a, ok := c.LoadAndDelete(atoi(f[1]))
		return "v=" + ev(a, ok)
	case "len":
		return fmt.Sprintf("n=%d", c.Length())
	case "copy":
		var l []kv
		for k, v := range c.CopyData() {
			l = append(l, kv{k, elemVal(v, e)})
		}
		return "d=" + listStr(l, true)
	case "tick":
		time.Sleep(time.Duration(atoi(f[1])) * time.Second)
		return "-"
	case "fill":
		// fill:<n>:<base>:<id>[@<vu>] = n calls of Store (see the map's fill)
		for i, n, base := 0, atoi(f[1]), atoi(f[2]); i < n; i++ {
			c.Store(base+i, o.elem(parseVal(f[3]), e))
		}
		return "-"
	}
	panic("bad cache op " + strings.Join(f, ":"))
}

func newObject(kind string) object {
	if kind == "cache" {
		return newCacheObj()
	}
	return newMapObj()
}
