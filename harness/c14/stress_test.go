// Stress part of C14: many goroutines hammer the real sync.Map / cache.Cache of /repo with the real RWMutex; call and
// return events are ordered by one atomic counter (a call is numbered before it starts, a return after it ended), so
// the recorded order respects real time. Each round is one short history, judged by the Lean linearizability search.
//
// Input ($VERIF_IN):  stress <map|cache> <seed> <rounds> <goroutines> <opsPerGoroutine> <keys>
// Output:             one `stress | <history>` line per round.
package c14

import (
	"bufio"
	"fmt"
	"math/rand"
	"sort"
	"strings"
	"sync"
	"sync/atomic"
	"testing"
	"time"

	"verifharness/internal/lp"
)

type stamped struct {
	seq  int64
	text string
}

func randomOp(rng *rand.Rand, kind string, keys int, fresh *int) string {
	k := 1 + rng.Intn(keys)
	*fresh++
	v := *fresh
	if kind == "cache" {
		// elements: never expiring (vu 0), already expired (vu 1; rounds start at elapsed >= 2 s), far future, or at the far end
		// of the time axis (beyond the year 2262, where int64 Unix nanoseconds end; clock + math.MaxInt64 ns = "practically never")
		vu := []int{0, 1, 1, 100000, 8300000000, 9223372036}[rng.Intn(6)]
		val := fmt.Sprintf("%d@%d", v, vu)
		switch rng.Intn(10) {
		case 0, 1, 2:
			return fmt.Sprintf("clos:%d:%s", k, val)
		case 3, 4:
			return fmt.Sprintf("cload:%d", k)
		case 5:
			return "sweep"
		case 9:
			// a sweep whose `now` is behind (0: nothing is expired) or far ahead of the clock (everything with a deadline is)
			return []string{"sweep:0", "sweep:200000"}[rng.Intn(2)]
		case 6:
			return fmt.Sprintf("store:%d:%s", k, val)
		case 7:
			return fmt.Sprintf("lad:%d", k)
		default:
			return fmt.Sprintf("delete:%d", k)
		}
	}
	switch rng.Intn(14) {
	case 0, 1, 2:
		return fmt.Sprintf("los:%d:%d", k, v)
	case 3:
		return fmt.Sprintf("store:%d:%d", k, v)
	case 4:
		return fmt.Sprintf("load:%d", k)
	case 5:
		return fmt.Sprintf("delete:%d", k)
	case 6:
		return fmt.Sprintf("lad:%d", k)
	case 7:
		return fmt.Sprintf("replace:%d:%d", k, v)
	case 8:
		return fmt.Sprintf("rwf:%d:inc:1", k)
	case 9:
		return fmt.Sprintf("loswf:%d:1000:%d", k, v)
	case 10:
		return fmt.Sprintf("ladwf:%d:1000", k)
	case 11:
		return "len"
	case 12:
		return fmt.Sprintf("rwf:%d:cas:%d:%d", k, v-1, v)
	default:
		return "copy"
	}
}

func stressRound(rng *rand.Rand, kind string, goroutines, opsPer, keys int) string {
	obj := newObject(kind)
	var ctr atomic.Int64
	var mu sync.Mutex
	var evs []stamped
	// onExpire calls are not compared in stress rounds: every call gets a throw-away log (no sharing between goroutines)
	throwAway := func() *[]string { return new([]string) }
	e := &env{base: time.Now().Add(-2 * time.Second), curLog: throwAway}
	fresh := 0
	progs := make([][]string, goroutines)
	for i := range progs {
		for j := 0; j < opsPer; j++ {
			progs[i] = append(progs[i], randomOp(rng, kind, keys, &fresh))
		}
	}
	// the sweep op logs its onExpire calls through env; give every goroutine its own env copy
	var start, wg sync.WaitGroup
	var gate atomic.Bool
	start.Add(goroutines)
	wg.Add(goroutines)
	for i := range progs {
		go func(id int) {
			defer wg.Done()
			le := &env{base: e.base, curLog: throwAway}
			var local []stamped
			start.Done()
			for !gate.Load() {
			}
			for _, op := range progs[id] {
				c := ctr.Add(1)
				res := func() (res string) {
					defer func() {
						if r := recover(); r != nil {
							res = "panic:" + strings.ReplaceAll(fmt.Sprint(r), " ", "_")
						}
					}()
					return obj.exec(strings.Split(op, ":"), le)
				}()
				r := ctr.Add(1)
				local = append(local, stamped{c, fmt.Sprintf("c%d:%s", id, op)}, stamped{r, fmt.Sprintf("r%d:%s", id, res)})
			}
			mu.Lock()
			evs = append(evs, local...)
			mu.Unlock()
		}(i)
	}
	start.Wait()
	gate.Store(true)
	wg.Wait()
	sort.Slice(evs, func(i, j int) bool { return evs[i].seq < evs[j].seq })
	parts := make([]string, 0, len(evs)+2*keys+2)
	// the objects' clock stands at "2 s after the base" for the whole round (elements with vu=1 are expired, vu=100000 are not)
	parts = append(parts, "c99:tick:2", "r99:-")
	for _, ev := range evs {
		parts = append(parts, ev.text)
	}
	// final sequential observation of every key
	for k := 1; k <= keys; k++ {
		op := fmt.Sprintf("load:%d", k)
		parts = append(parts, "c99:"+op, "r99:"+obj.exec(strings.Split(op, ":"), e))
	}
	return strings.Join(parts, " ")
}

func TestC14Stress(t *testing.T) {
	err := lp.FileLoop(func(f []string, w *bufio.Writer) {
		if len(f) != 7 || f[0] != "stress" {
			fmt.Fprintln(w, "bad-op")
			return
		}
		rng := rand.New(rand.NewSource(int64(atoi(f[2]))))
		for i := 0; i < atoi(f[3]); i++ {
			fmt.Fprintf(w, "stress | %s\n", stressRound(rng, f[1], atoi(f[4]), atoi(f[5]), atoi(f[6])))
		}
	})
	if err != nil {
		t.Fatal(err)
	}
	_ = time.Now
}
