//go:build c14coop

// Callers of the map / cache under the cooperative scheduler (C14, second half): the wrappers that promise store-if-absent /
// read-under-lock semantics are driven themselves, on the real code, and their histories are judged by the same
// linearizability specification as the map's.
//
//	kind mcache   udp/client's response cache (messageCache, through the overlay export VerifNewMessageCache):
//	              clos:k:id@vu = Store(k, message with body id)   — specification: Cache.LoadOrStore, result not observable ("?")
//	              cload:k      = Load(k)                          — specification: Cache.Load
//	              (vu must be clock + ExchangeLifetime: the wrapper chooses the expiry itself)
//	kind bwsend   net/blockwise's table of requests being sent (a real BlockWise over a pooling client):
//	              hold:k:id    = Do(request with token k, code id) whose inner do returns at once; the caller then releases the
//	                             request to the pool (it is reset)  — specification: LoadOrStore(k,id) … Delete(k), two operations
//	              copy:k       = getSentRequest(token k)          — specification: Load(k); the copy is built field by field from
//	                             the stored request, the client's AcquireMessage in the middle of it is a scheduling point
//	              code:k       = getSendingMessageCode(token k)   — specification: Load(k)
package c14

import (
	"bytes"
	"context"
	"encoding/binary"
	"fmt"
	"strconv"
	"strings"
	"time"

	"github.com/plgd-dev/go-coap/v3/message"
	"github.com/plgd-dev/go-coap/v3/message/codes"
	"github.com/plgd-dev/go-coap/v3/message/pool"
	"github.com/plgd-dev/go-coap/v3/net/blockwise"
	udpclient "github.com/plgd-dev/go-coap/v3/udp/client"
)

func newCoopObject(kind string) object {
	switch kind {
	case "mcache":
		return &mcacheObj{mc: udpclient.VerifNewMessageCache(), vu: map[int]int{}}
	case "bwsend":
		c := &poolClient{p: pool.New(16, 1024)}
		return &bwsendObj{cl: c, bw: blockwise.New(c, time.Hour, func(error) {}, nil)}
	}
	return newObject(kind)
}

// ---------------------------------------------------------------- udp/client messageCache

type mcacheObj struct {
	mc udpclient.MessageCache
	vu map[int]int // id -> expiry the program announced (Load cannot see it)
}

var lifetime = int(udpclient.ExchangeLifetime / time.Second)

func (o *mcacheObj) exec(f []string, e *env) string {
	switch f[0] {
	case "clos":
		v := parseVal(f[2])
		now := int(time.Since(e.base) / time.Second)
		if v.vu != now+lifetime {
			panic(fmt.Sprintf("program error: messageCache.Store at time %d stores until %d, the program says %d", now, now+lifetime, v.vu))
		}
		o.vu[v.id] = v.vu
		m := pool.NewMessage(context.Background())
		m.SetCode(codes.Content)
		m.SetType(message.Acknowledgement)
		m.SetMessageID(int32(atoi(f[1])))
		m.SetToken(message.Token{1})
		m.SetContentFormat(message.TextPlain)
		m.SetBody(bytes.NewReader([]byte(strconv.Itoa(v.id))))
		if err := o.mc.Store(f[1], m); err != nil {
			panic(err)
		}
		return "?" // the wrapper does not say whether it stored
	case "cload":
		m := pool.NewMessage(context.Background())
		ok, err := o.mc.Load(f[1], m)
		if err != nil {
			panic(err)
		}
		if !ok {
			return "v=nil"
		}
		b, err := m.ReadBody()
		if err != nil {
			panic(err)
		}
		id := atoi(string(b))
		return "v=" + val{id: id, vu: o.vu[id]}.String()
	case "tick":
		time.Sleep(time.Duration(atoi(f[1])) * time.Second)
		return "-"
	}
	panic("bad mcache op " + strings.Join(f, ":"))
}

// ---------------------------------------------------------------- net/blockwise sendingMessagesCache

type poolClient struct {
	p    *pool.Pool
	gate func()
}

func (c *poolClient) AcquireMessage(ctx context.Context) *pool.Message {
	if c.gate != nil {
		c.gate()
	}
	return c.p.AcquireMessage(ctx)
}

func (c *poolClient) ReleaseMessage(m *pool.Message) { c.p.ReleaseMessage(m) }

type bwsendObj struct {
	cl *poolClient
	bw *blockwise.BlockWise[*poolClient]
}

func tokenOf(k int) message.Token {
	b := make([]byte, 4)
	binary.BigEndian.PutUint32(b, uint32(0x5a000000+k))
	return b
}

func (o *bwsendObj) histOp(f []string) string {
	switch f[0] {
	case "hold":
		return "los:" + f[1] + ":" + f[2]
	case "copy", "code":
		return "load:" + f[1]
	}
	return strings.Join(f, ":")
}

func (o *bwsendObj) exec(f []string, e *env) string {
	o.cl.gate = e.gate
	k := atoi(f[1])
	switch f[0] {
	case "hold":
		id := atoi(f[2])
		req := o.cl.p.AcquireMessage(context.Background())
		req.SetCode(codes.Code(id))
		req.SetToken(tokenOf(k))
		req.SetType(message.Confirmable)
		if err := req.SetPath("/x"); err != nil {
			panic(err)
		}
		entered := false
		_, err := o.bw.Do(req, blockwise.SZX1024, 65536, func(*pool.Message) (*pool.Message, error) {
			// the request is registered: the first operation of the specification is over, the second begins when this
			// thread is scheduled again (Do then removes the entry)
			entered = true
			e.boundary(fmt.Sprintf("a=%d/false", id), "delete:"+f[1])
			return nil, nil
		})
		// the request is the caller's again: it goes back to the pool and is reset
		o.cl.p.ReleaseMessage(req)
		if !entered {
			return fmt.Sprintf("a=0/true/err=%v", err != nil)
		}
		return "-"
	case "copy":
		m := o.bw.VerifGetSentRequest(tokenOf(k))
		if m == nil {
			return "v=nil"
		}
		id := int(m.Code())
		if !bytes.Equal(m.Token(), tokenOf(k)) {
			id = 0 // copied from a message that is not the stored request any more
		}
		o.cl.p.ReleaseMessage(m)
		return "v=" + strconv.Itoa(id)
	case "code":
		c, ok := o.bw.VerifGetSendingMessageCode(tokenOf(k).Hash())
		if !ok {
			return "v=nil"
		}
		return "v=" + strconv.Itoa(int(c))
	}
	panic("bad bwsend op " + strings.Join(f, ":"))
}
