//go:build c14coop

// Callers of the map / cache under the cooperative scheduler (C14, second half): the wrappers that promise store-if-absent /
// read-under-lock semantics are driven themselves, on the real code, and their histories are judged by the same
// linearizability specification as the map's.
//
//	kind mcache   udp/client's response cache (messageCache, through the overlay export VerifNewMessageCache):
//	              clos:k:id@vu = Store(k, message with body id)   — specification: Cache.LoadOrStore, result not observable ("?")
//	              cload:k      = Load(k)                          — specification: Cache.Load
//	              (vu must be clock + ExchangeLifetime: the wrapper chooses the expiry itself)
//	kind bwsend   net/blockwise's table of requests being sent (a real BlockWise over a pooling client):
//	              hold:k:id    = Do(request with token k, code id) whose inner do returns at once; the caller then releases the
//	                             request to the pool (it is reset)  — specification: LoadOrStore(k,id) … Delete(k), two operations
//	              copy:k       = getSentRequest(token k)          — specification: Load(k); the copy is built field by field from
//	                             the stored request, the client's AcquireMessage in the middle of it is a scheduling point
//	              code:k       = getSendingMessageCode(token k)   — specification: Load(k)
//	kind bwrecv   net/blockwise's reassembly table (an expiring cache), through overlay exports:
//	              clos:k:id@vu = getCachedReceivedMessage for a first block with token k (sequence id, valid until vu): the
//	                             store-if-absent of the reassembly entry      — specification: Cache.LoadOrStore
//	              cload:k      = the look-up of processReceivedMessage       — specification: Cache.Load
//	              sweep[:t]    = BlockWise.CheckExpirations
//	kind midtab   udp/client's table of pending message IDs on a real Conn (overlay exports):
//	              pend:k:id    = the registration writeMessage makes for a confirmable message — specification: LoadOrStore(k,id)
//	              take:k       = handleSpecialMessages for an acknowledgement with message ID k; the result says whether this
//	                             call obtained the element (its handler ran)       — specification: LoadAndDelete(k)
//	              has:k        = plain look-up                                    — specification: Load(k)
//	kind obstab   net/observation's table of observations (a real Handler over a client that answers at once):
//	              reg:k:id     = NewObservation with token k                 — specification: LoadOrStore(k,id)
//	              cancel:k     = Cancel on the FIRST observation registered under k; the result says whether the deregistration
//	                             request was sent, i.e. whether this call removed the observation — specification: LoadAndDelete(k)
//	              has:k        = GetObservation                              — specification: Load(k)
package c14

import (
	"bytes"
	"context"
	"encoding/binary"
	"fmt"
	"strconv"
	"strings"
	"time"

	"github.com/plgd-dev/go-coap/v3/message"
	"github.com/plgd-dev/go-coap/v3/message/codes"
	"github.com/plgd-dev/go-coap/v3/message/pool"
	"github.com/plgd-dev/go-coap/v3/net/blockwise"
	"github.com/plgd-dev/go-coap/v3/net/observation"
	"github.com/plgd-dev/go-coap/v3/net/responsewriter"
	udpclient "github.com/plgd-dev/go-coap/v3/udp/client"
	"verifharness/internal/mem"
)

func newCoopObject(kind string) object {
	switch kind {
	case "mcache":
		return &mcacheObj{mc: udpclient.VerifNewMessageCache(), vu: map[int]int{}}
	case "bwsend":
		c := &poolClient{p: pool.New(16, 1024)}
		return &bwsendObj{cl: c, bw: blockwise.New(c, time.Hour, func(error) {}, nil)}
	case "bwrecv":
		c := &poolClient{p: pool.New(16, 1024)}
		return &bwrecvObj{cl: c, bw: blockwise.New(c, time.Hour, func(error) {}, nil), vu: map[int]int{}}
	case "obstab":
		return newObstabObj()
	case "midtab":
		cc, _ := mem.NewUDPConn(mem.UDPOpts{})
		return &midtabObj{cc: cc, idOf: map[int]int{}}
	case "mapcb":
		// the plain map; programs of this kind use lwfr (a callback with a scheduling point inside the critical section,
		// which the step model does not have): judged, not replayed
		return &mapcbObj{mapObj: newMapObj()}
	}
	return newObject(kind)
}

// ---------------------------------------------------------------- the plain map, callbacks under the WRITE lock

// mapcbObj is the plain map plus
//
//	loswfr:k:d:v = LoadOrStoreWithFunc(k, onLoad, create) whose onLoad callback records what it was called with (cb) and the
//	               element that is in the map under k while it runs (now; read through the overlay-only VerifPeek, because
//	               the callback runs under the write lock and cannot re-read through the locking API)
//	               - specification: loswf:k:d:v, plus "the callback runs on the element that is currently in the map"
type mapcbObj struct{ *mapObj }

func (o *mapcbObj) histOp(f []string) string {
	if f[0] == "loswfr" {
		return "loswf:" + strings.Join(f[1:], ":")
	}
	return o.mapObj.histOp(f)
}

func (o *mapcbObj) exec(f []string, e *env) string {
	if f[0] != "loswfr" {
		return o.mapObj.exec(f, e)
	}
	k, d := atoi(f[1]), atoi(f[2])
	cb, now := "nil", "nil"
	v, loaded := o.m.LoadOrStoreWithFunc(k, func(v int) int {
		cb = val{id: v}.String()
		w, wok := o.m.VerifPeek(k)
		now = optStr(val{id: w}, wok)
		return v + d
	}, func() int { return parseVal(f[3]).id })
	if cb == "nil" {
		return fmt.Sprintf("a=%s/%v/cb=nil", val{id: v}, loaded)
	}
	return fmt.Sprintf("a=%s/%v/cb=%s/now=%s", val{id: v}, loaded, cb, now)
}

// ---------------------------------------------------------------- udp/client messageCache

type mcacheObj struct {
	mc udpclient.MessageCache
	vu map[int]int // id -> expiry the program announced (Load cannot see it)
}

var lifetime = int(udpclient.ExchangeLifetime / time.Second)

func (o *mcacheObj) exec(f []string, e *env) string {
	switch f[0] {
	case "clos":
		v := parseVal(f[2])
		now := int(time.Since(e.base) / time.Second)
		if v.vu != now+lifetime {
			panic(fmt.Sprintf("program error: messageCache.Store at time %d stores until %d, the program says %d", now, now+lifetime, v.vu))
		}
		o.vu[v.id] = v.vu
		m := pool.NewMessage(context.Background())
		m.SetCode(codes.Content)
		m.SetType(message.Acknowledgement)
		m.SetMessageID(int32(atoi(f[1])))
		m.SetToken(message.Token{1})
		m.SetContentFormat(message.TextPlain)
		m.SetBody(bytes.NewReader([]byte(strconv.Itoa(v.id))))
		if err := o.mc.Store(f[1], m); err != nil {
			panic(err)
		}
		return "?" // the wrapper does not say whether it stored
	case "cload":
		m := pool.NewMessage(context.Background())
		ok, err := o.mc.Load(f[1], m)
		if err != nil {
			panic(err)
		}
		if !ok {
			return "v=nil"
		}
		b, err := m.ReadBody()
		if err != nil {
			panic(err)
		}
		id := atoi(string(b))
		return "v=" + val{id: id, vu: o.vu[id]}.String()
	case "tick":
		time.Sleep(time.Duration(atoi(f[1])) * time.Second)
		return "-"
	}
	panic("bad mcache op " + strings.Join(f, ":"))
}

// ---------------------------------------------------------------- net/blockwise sendingMessagesCache

type poolClient struct {
	p    *pool.Pool
	gate func()
}

func (c *poolClient) AcquireMessage(ctx context.Context) *pool.Message {
	if c.gate != nil {
		c.gate()
	}
	return c.p.AcquireMessage(ctx)
}

func (c *poolClient) ReleaseMessage(m *pool.Message) { c.p.ReleaseMessage(m) }

type bwsendObj struct {
	cl *poolClient
	bw *blockwise.BlockWise[*poolClient]
}

func tokenOf(k int) message.Token {
	b := make([]byte, 4)
	binary.BigEndian.PutUint32(b, uint32(0x5a000000+k))
	return b
}

func (o *bwsendObj) histOp(f []string) string {
	switch f[0] {
	case "hold":
		return "los:" + f[1] + ":" + f[2]
	case "copy", "code", "cont":
		return "load:" + f[1]
	}
	return strings.Join(f, ":")
}

func (o *bwsendObj) exec(f []string, e *env) string {
	o.cl.gate = e.gate
	k := atoi(f[1])
	switch f[0] {
	case "hold":
		id := atoi(f[2])
		req := o.cl.p.AcquireMessage(context.Background())
		req.SetCode(codes.Code(id))
		req.SetToken(tokenOf(k))
		req.SetType(message.Confirmable)
		if err := req.SetPath("/x"); err != nil {
			panic(err)
		}
		req.SetBody(bytes.NewReader(make([]byte, 40))) // small enough to go out in one piece; `cont` reads a 16-byte block of it
		entered := false
		_, err := o.bw.Do(req, blockwise.SZX1024, 65536, func(*pool.Message) (*pool.Message, error) {
			// the request is registered: the first operation of the specification is over, the second begins when this
			// thread is scheduled again (Do then removes the entry)
			entered = true
			e.boundary(fmt.Sprintf("a=%d/false", id), "delete:"+f[1])
			return nil, nil
		})
		// the request is the caller's again: it goes back to the pool and is reset
		o.cl.p.ReleaseMessage(req)
		if !entered {
			return fmt.Sprintf("a=0/true/err=%v", err != nil)
		}
		return "-"
	case "copy":
		m := o.bw.VerifGetSentRequest(tokenOf(k))
		if m == nil {
			return "v=nil"
		}
		id := int(m.Code())
		if !bytes.Equal(m.Token(), tokenOf(k)) {
			id = 0 // copied from a message that is not the stored request any more
		}
		o.cl.p.ReleaseMessage(m)
		return "v=" + strconv.Itoa(id)
	case "cont":
		// continueSendingMessage: the peer asks for a block of the request registered under the token; the block message is
		// built from the registered request (code, options, token, body) - specification: Load(k)
		m := o.bw.VerifContinueSending(tokenOf(k))
		if m == nil {
			return "v=nil"
		}
		id := int(m.Code())
		if !bytes.Equal(m.Token(), tokenOf(k)) {
			id = 0
		}
		o.cl.p.ReleaseMessage(m)
		return "v=" + strconv.Itoa(id)
	case "code":
		c, ok := o.bw.VerifGetSendingMessageCode(tokenOf(k).Hash())
		if !ok {
			return "v=nil"
		}
		return "v=" + strconv.Itoa(int(c))
	}
	panic("bad bwsend op " + strings.Join(f, ":"))
}

// ---------------------------------------------------------------- net/blockwise receivingMessagesCache

type bwrecvObj struct {
	cl *poolClient
	bw *blockwise.BlockWise[*poolClient]
	vu map[int]int
}

func (o *bwrecvObj) exec(f []string, e *env) string {
	o.cl.gate = e.gate
	switch f[0] {
	case "clos":
		k := atoi(f[1])
		v := parseVal(f[2])
		o.vu[v.id] = v.vu
		r := pool.NewMessage(context.Background())
		r.SetCode(codes.POST)
		r.SetToken(tokenOf(k))
		r.SetSequence(uint64(v.id))
		var until time.Time
		if v.vu != 0 {
			until = e.base.Add(time.Duration(v.vu) * time.Second)
		}
		seq, err := o.bw.VerifStoreReceived(r, until)
		if err != nil {
			panic(err)
		}
		id := int(seq)
		return fmt.Sprintf("a=%s/%v", val{id: id, vu: o.vu[id]}, id != v.id)
	case "cload":
		seq, ok := o.bw.VerifLoadReceived(tokenOf(atoi(f[1])))
		if !ok {
			return "v=nil"
		}
		return "v=" + val{id: int(seq), vu: o.vu[int(seq)]}.String()
	case "sweep":
		now := time.Now()
		if len(f) > 1 {
			now = e.base.Add(time.Duration(atoi(f[1])) * time.Second)
		}
		o.bw.CheckExpirations(now)
		return "x=[]"
	case "tick":
		time.Sleep(time.Duration(atoi(f[1])) * time.Second)
		return "-"
	}
	panic("bad bwrecv op " + strings.Join(f, ":"))
}

// ---------------------------------------------------------------- net/observation observations

// obsClient answers every request it is asked to write at once: the registration gets its first notification before
// WriteMessage returns (NewObservation never blocks).
type obsClient struct {
	ctx context.Context
	h   *observation.Handler[*obsClient]
}

func (c *obsClient) Context() context.Context                    { return c.ctx }
func (c *obsClient) ReleaseMessage(*pool.Message)                 {}
func (c *obsClient) AcquireMessage(ctx context.Context) *pool.Message { return pool.NewMessage(ctx) }
func (c *obsClient) WriteMessage(req *pool.Message) error {
	resp := pool.NewMessage(context.Background())
	resp.SetCode(codes.Content)
	resp.SetToken(req.Token())
	resp.SetObserve(2)
	c.h.Handle(nil, resp)
	return nil
}

type obstabObj struct {
	cl      *obsClient
	h       *observation.Handler[*obsClient]
	first   map[int]*observation.Observation[*obsClient] // the first observation registered under a key
	idOf    map[*observation.Observation[*obsClient]]int
	deregs  int
	lastKey int
}

func newObstabObj() *obstabObj {
	o := &obstabObj{first: map[int]*observation.Observation[*obsClient]{}, idOf: map[*observation.Observation[*obsClient]]int{}}
	o.cl = &obsClient{ctx: context.Background()}
	o.h = observation.NewHandler(o.cl, func(*responsewriter.ResponseWriter[*obsClient], *pool.Message) {},
		func(req *pool.Message) (*pool.Message, error) {
			// the deregistration GET (Observe: 1) of Observation.Cancel
			o.deregs++
			resp := pool.NewMessage(context.Background())
			resp.SetCode(codes.Content)
			resp.SetToken(req.Token())
			return resp, nil
		})
	o.cl.h = o.h
	return o
}

func (o *obstabObj) histOp(f []string) string {
	switch f[0] {
	case "reg":
		return "los:" + f[1] + ":" + f[2]
	case "cancel":
		return "lad:" + f[1]
	case "has":
		return "load:" + f[1]
	}
	return strings.Join(f, ":")
}

func (o *obstabObj) exec(f []string, e *env) string {
	k := atoi(f[1])
	switch f[0] {
	case "reg":
		id := atoi(f[2])
		req := pool.NewMessage(context.Background())
		req.SetCode(codes.GET)
		req.SetToken(tokenOf(k))
		req.SetObserve(0)
		if err := req.SetPath("/o"); err != nil {
			panic(err)
		}
		ob, err := o.h.NewObservation(req, func(*pool.Message) {})
		if err != nil {
			// the token is taken: report the observation that holds it
			if cur, ok := o.h.GetObservation(tokenOf(k).Hash()); ok {
				return fmt.Sprintf("a=%d/true", o.idOf[cur])
			}
			return "a=0/true"
		}
		o.idOf[ob] = id
		if o.first[k] == nil {
			o.first[k] = ob
		}
		return fmt.Sprintf("a=%d/false", id)
	case "cancel":
		ob := o.first[k]
		if ob == nil {
			return "v=nil"
		}
		before := o.deregs
		if err := ob.Cancel(context.Background()); err != nil {
			return "v=err"
		}
		if o.deregs > before {
			return fmt.Sprintf("v=%d", o.idOf[ob]) // this call removed the observation and deregistered it
		}
		return "v=nil"
	case "has":
		ob, ok := o.h.GetObservation(tokenOf(k).Hash())
		if !ok {
			return "v=nil"
		}
		return fmt.Sprintf("v=%d", o.idOf[ob])
	}
	panic("bad obstab op " + strings.Join(f, ":"))
}

// ---------------------------------------------------------------- udp/client midHandlerContainer

type midtabObj struct {
	cc   *udpclient.Conn
	idOf map[int]int
}

func (o *midtabObj) shutdown() { _ = o.cc.Close() }

func (o *midtabObj) histOp(f []string) string {
	switch f[0] {
	case "pend":
		return "los:" + f[1] + ":" + f[2]
	case "take":
		return "lad:" + f[1]
	case "has":
		return "load:" + f[1]
	}
	return strings.Join(f, ":")
}

func (o *midtabObj) exec(f []string, e *env) string {
	k := atoi(f[1])
	switch f[0] {
	case "pend":
		id := atoi(f[2])
		if o.cc.VerifPendMid(int32(k), func() { *e.curLog() = append(*e.curLog(), strconv.Itoa(id)) }) {
			o.idOf[k] = id
			return fmt.Sprintf("a=%d/false", id)
		}
		return fmt.Sprintf("a=%d/true", o.idOf[k])
	case "take":
		r := pool.NewMessage(context.Background())
		r.SetType(message.Acknowledgement)
		r.SetCode(codes.Content)
		r.SetMessageID(int32(k))
		r.SetToken(tokenOf(k))
		log := e.curLog()
		before := len(*log)
		o.cc.VerifHandleSpecialMessages(r)
		if len(*log) > before {
			return "v=" + (*log)[len(*log)-1] // this call obtained the pending element: its handler ran
		}
		return "v=nil"
	case "has":
		if o.cc.VerifHasMid(int32(k)) {
			return fmt.Sprintf("v=%d", o.idOf[k])
		}
		return "v=nil"
	}
	panic("bad midtab op " + strings.Join(f, ":"))
}
