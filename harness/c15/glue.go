package main

// Users of the option-list API one level up (C15, "clone / reset-to" through the library's own glue):
//
//   - net/responsewriter: `setresp` calls ResponseWriter.SetResponse on a writer around the current pooled message;
//   - net/observation: `observe` registers an observation whose request is the current pooled message (the handler keeps a
//     copy of the request's options), `obsopts` / `obsreq` / `obscancel` read that copy back (Observation.Request,
//     Handler.GetObservationRequest, the deregistration request Observation.Cancel hands to the connection);
//   - message/pool.Pool: `recycle` releases the current message to a real pool and acquires one again.
//
// The connection is a minimal in-process observation.Client: a written registration request is answered at once by a 2.05
// notification, the deregistration request is recorded and answered by 2.05.  No goroutines, no clock.

import (
	"bytes"
	"context"
	"fmt"
	"strconv"
	"strings"

	"github.com/plgd-dev/go-coap/v3/message"
	"github.com/plgd-dev/go-coap/v3/message/codes"
	"github.com/plgd-dev/go-coap/v3/message/pool"
	"github.com/plgd-dev/go-coap/v3/net/client"
	"github.com/plgd-dev/go-coap/v3/net/observation"
	"github.com/plgd-dev/go-coap/v3/net/responsewriter"
	"verifharness/internal/lp"
)

type glueConn struct {
	ctx     context.Context
	p       *pool.Pool
	handler *observation.Handler[*glueConn]
	wire    string // option list of the last request handed to the connection by Cancel
	tokens  int
	seq     uint32 // Observe sequence number of the last notification
	cl      *client.Client[*glueConn]
}

// AsyncPing completes net/client.Conn; never used by the request builders.
func (g *glueConn) AsyncPing(func()) (func(), error) { return func() {}, nil }

func (g *glueConn) nextToken() (message.Token, error) {
	g.tokens++
	return message.Token{0xb1, 0x1d, byte(g.tokens >> 8), byte(g.tokens)}, nil
}

func newGlue() *glueConn {
	g := &glueConn{ctx: context.Background(), p: pool.New(64, 2048)}
	g.handler = observation.NewHandler(g, func(*responsewriter.ResponseWriter[*glueConn], *pool.Message) {}, g.do)
	g.cl = client.New(g, g.handler, g.nextToken, nil)
	g.seq = 2
	return g
}

func (g *glueConn) Context() context.Context                          { return g.ctx }
func (g *glueConn) AcquireMessage(ctx context.Context) *pool.Message { return g.p.AcquireMessage(ctx) }
func (g *glueConn) ReleaseMessage(m *pool.Message)                   { g.p.ReleaseMessage(m) }

// WriteMessage: the registration request goes out; the peer answers with a first notification.
func (g *glueConn) WriteMessage(req *pool.Message) error {
	resp := pool.NewMessage(g.ctx)
	resp.SetCode(codes.Content)
	resp.SetToken(req.Token())
	resp.SetObserve(2)
	g.handler.Handle(responsewriter.New(pool.NewMessage(g.ctx), g), resp)
	return nil
}

// do: a request/response exchange (used by Cancel): record what is on the wire, answer 2.05.
func (g *glueConn) do(req *pool.Message) (*pool.Message, error) {
	g.wire = fmtOptions(req.Options())
	resp := pool.NewMessage(g.ctx)
	resp.SetCode(codes.Content)
	resp.SetToken(req.Token())
	return resp, nil
}

func fmtOptions(o message.Options) string {
	var b strings.Builder
	b.WriteString(strconv.Itoa(len(o)))
	for _, x := range o {
		b.WriteByte(' ')
		b.WriteString(strconv.Itoa(int(x.ID)))
		b.WriteByte(':')
		b.WriteString(lp.Hex(x.Value))
	}
	return b.String()
}

type glueState struct {
	conn *glueConn
	obs  *observation.Observation[*glueConn]
	w    map[*pool.Message]*responsewriter.ResponseWriter[*glueConn]
}

func (s *state) glueInit() *glueState {
	if s.glue == nil {
		s.glue = &glueState{conn: newGlue(), w: map[*pool.Message]*responsewriter.ResponseWriter[*glueConn]{}}
	}
	return s.glue
}

// execGlue handles the glue operations; ok=false when f[0] is not one of them.
func (s *state) execGlue(f []string) (string, bool) {
	switch f[0] {
	case "setresp", "observe", "obsopts", "obsreq", "obscancel", "recycle", "notify", "build":
	default:
		return "", false
	}
	if !s.pool {
		return "bad-op", true
	}
	g := s.glueInit()
	c := s.cur
	switch f[0] {
	case "setresp":
		// setresp <code> <contentFormat> <body 0|1> <n> {id:hex}*
		if len(f) < 5 {
			return "bad-op", true
		}
		code, e1 := strconv.ParseUint(f[1], 10, 16)
		cf, e2 := strconv.ParseUint(f[2], 10, 16)
		in, ok := parseItems(f[5:])
		if e1 != nil || e2 != nil || !ok {
			return "bad-op", true
		}
		w := g.w[c.msg]
		if w == nil {
			w = responsewriter.New(c.msg, g.conn)
			g.w[c.msg] = w
		}
		var err error
		if f[3] == "1" {
			err = w.SetResponse(codes.Code(code), message.MediaType(cf), bytes.NewReader([]byte("body")), in...)
		} else {
			err = w.SetResponse(codes.Code(code), message.MediaType(cf), nil, in...)
		}
		return fmt.Sprintf("ret %s %d", errKind(err), s.tail()), true
	case "observe":
		// the current message is the registration request (its options are what they are); fresh token
		g.conn.tokens++
		c.msg.SetToken(message.Token{0xc1, 0x5c, byte(g.conn.tokens >> 8), byte(g.conn.tokens)})
		c.msg.SetCode(codes.GET)
		obs, err := g.conn.handler.NewObservation(c.msg, func(*pool.Message) {})
		if err != nil {
			return fmt.Sprintf("ret other %d", s.tail()), true
		}
		g.obs = obs
		return fmt.Sprintf("ret ok %d", s.tail()), true
	case "obsopts":
		if g.obs == nil {
			return "ret notfound 0", true
		}
		return "ret ok " + fmtOptions(g.obs.Request().Options), true
	case "obsreq":
		if g.obs == nil {
			return "ret notfound 0", true
		}
		m, ok := g.conn.handler.GetObservationRequest(g.obs.Request().Token)
		if !ok {
			return "ret notfound 0", true
		}
		out := "ret ok " + fmtOptions(m.Options())
		g.conn.ReleaseMessage(m)
		return out, true
	case "obscancel":
		if g.obs == nil || g.obs.Canceled() {
			return "ret notfound 0", true
		}
		g.conn.wire = ""
		if err := g.obs.Cancel(g.conn.ctx); err != nil {
			return "ret other 0", true
		}
		return "ret ok " + g.conn.wire, true
	case "notify":
		// notify <etaghex>: the peer sends the next notification of the observation, with this ETag ("-" = none)
		if len(f) != 2 || g.obs == nil || g.obs.Canceled() {
			if len(f) != 2 {
				return "bad-op", true
			}
			return "ret notfound 0", true
		}
		etag, err := lp.ParseHex(f[1])
		if err != nil {
			return "bad-op", true
		}
		g.conn.seq++
		n := pool.NewMessage(g.conn.ctx)
		n.SetCode(codes.Content)
		n.SetToken(g.obs.Request().Token)
		n.SetObserve(g.conn.seq)
		if len(etag) > 0 {
			n.SetOptionBytes(message.ETag, etag)
		}
		g.conn.handler.Handle(responsewriter.New(pool.NewMessage(g.conn.ctx), g.conn), n)
		return fmt.Sprintf("ret ok %d", s.tail()), true
	case "build":
		// build <get|post|put|delete|observe> <pathhex> <cf> <body 0|1> <spare> <n> {id:hex}*
		// the generic client's request builders, driven with a caller-owned option slice `base` (len n, cap n+spare) while a
		// sibling slice append(base, Accept:32) over the same backing array is still in use.
		// answer: the built request's options # the sibling slice afterwards # base afterwards
		if len(f) < 7 {
			return "bad-op", true
		}
		path, e0 := lp.ParseHex(f[2])
		cf, e1 := strconv.ParseUint(f[3], 10, 16)
		spare, e2 := strconv.Atoi(f[5])
		in, ok := parseItems(f[7:])
		if e0 != nil || e1 != nil || e2 != nil || !ok || spare < 0 {
			return "bad-op", true
		}
		base := make([]message.Option, len(in), len(in)+spare)
		copy(base, in)
		sibling := append(base, message.Option{ID: message.Accept, Value: []byte{0x32}})
		var body *bytes.Reader
		var req *pool.Message
		var err error
		ctx := g.conn.ctx
		if f[4] == "1" {
			body = bytes.NewReader([]byte("payload"))
		}
		switch f[1] {
		case "get":
			req, err = g.conn.cl.NewGetRequest(ctx, string(path), base...)
		case "delete":
			req, err = g.conn.cl.NewDeleteRequest(ctx, string(path), base...)
		case "observe":
			req, err = g.conn.cl.NewObserveRequest(ctx, string(path), base...)
		case "post":
			if body != nil {
				req, err = g.conn.cl.NewPostRequest(ctx, string(path), message.MediaType(cf), body, base...)
			} else {
				req, err = g.conn.cl.NewPostRequest(ctx, string(path), message.MediaType(cf), nil, base...)
			}
		case "put":
			if body != nil {
				req, err = g.conn.cl.NewPutRequest(ctx, string(path), message.MediaType(cf), body, base...)
			} else {
				req, err = g.conn.cl.NewPutRequest(ctx, string(path), message.MediaType(cf), nil, base...)
			}
		default:
			return "bad-op", true
		}
		if err != nil {
			return fmt.Sprintf("ret %s 0 # %s # %s", errKind(err), fmtOptions(sibling), fmtOptions(base)), true
		}
		out := fmt.Sprintf("ret ok %s # %s # %s", fmtOptions(req.Options()), fmtOptions(sibling), fmtOptions(base))
		g.conn.ReleaseMessage(req)
		return out, true
	case "recycle":
		// the message goes back to the pool (Reset) and a message is taken from the pool again
		delete(g.w, c.msg)
		g.conn.p.ReleaseMessage(c.msg)
		c.msg = g.conn.p.AcquireMessage(g.conn.ctx)
		return fmt.Sprintf("ret ok %d", s.tail()), true
	}
	return "bad-op", true
}
