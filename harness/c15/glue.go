package main

// Users of the option-list API one level up (C15, "clone / reset-to" through the library's own glue):
//
//   - net/responsewriter: `setresp` calls ResponseWriter.SetResponse on a writer around the current pooled message;
//   - net/observation: `observe` registers an observation whose request is the current pooled message (the handler keeps a
//     copy of the request's options), `obsopts` / `obsreq` / `obscancel` read that copy back (Observation.Request,
//     Handler.GetObservationRequest, the deregistration request Observation.Cancel hands to the connection);
//   - message/pool.Pool: `recycle` releases the current message to a real pool and acquires one again.
//
// The connection is a minimal in-process observation.Client: a written registration request is answered at once by a 2.05
// notification, the deregistration request is recorded and answered by 2.05.  No goroutines, no clock.

import (
	"bytes"
	"context"
	"fmt"
	"strconv"
	"strings"

	"github.com/plgd-dev/go-coap/v3/message"
	"github.com/plgd-dev/go-coap/v3/message/codes"
	"github.com/plgd-dev/go-coap/v3/message/pool"
	"github.com/plgd-dev/go-coap/v3/net/observation"
	"github.com/plgd-dev/go-coap/v3/net/responsewriter"
	"verifharness/internal/lp"
)

type glueConn struct {
	ctx     context.Context
	p       *pool.Pool
	handler *observation.Handler[*glueConn]
	wire    string // option list of the last request handed to the connection by Cancel
	tokens  int
}

func newGlue() *glueConn {
	g := &glueConn{ctx: context.Background(), p: pool.New(64, 2048)}
	g.handler = observation.NewHandler(g, func(*responsewriter.ResponseWriter[*glueConn], *pool.Message) {}, g.do)
	return g
}

func (g *glueConn) Context() context.Context                          { return g.ctx }
func (g *glueConn) AcquireMessage(ctx context.Context) *pool.Message { return g.p.AcquireMessage(ctx) }
func (g *glueConn) ReleaseMessage(m *pool.Message)                   { g.p.ReleaseMessage(m) }

// WriteMessage: the registration request goes out; the peer answers with a first notification.
func (g *glueConn) WriteMessage(req *pool.Message) error {
	resp := pool.NewMessage(g.ctx)
	resp.SetCode(codes.Content)
	resp.SetToken(req.Token())
	resp.SetObserve(2)
	g.handler.Handle(responsewriter.New(pool.NewMessage(g.ctx), g), resp)
	return nil
}

// do: a request/response exchange (used by Cancel): record what is on the wire, answer 2.05.
func (g *glueConn) do(req *pool.Message) (*pool.Message, error) {
	g.wire = fmtOptions(req.Options())
	resp := pool.NewMessage(g.ctx)
	resp.SetCode(codes.Content)
	resp.SetToken(req.Token())
	return resp, nil
}

func fmtOptions(o message.Options) string {
	var b strings.Builder
	b.WriteString(strconv.Itoa(len(o)))
	for _, x := range o {
		b.WriteByte(' ')
		b.WriteString(strconv.Itoa(int(x.ID)))
		b.WriteByte(':')
		b.WriteString(lp.Hex(x.Value))
	}
	return b.String()
}

type glueState struct {
	conn *glueConn
	obs  *observation.Observation[*glueConn]
	w    map[*pool.Message]*responsewriter.ResponseWriter[*glueConn]
}

func (s *state) glueInit() *glueState {
	if s.glue == nil {
		s.glue = &glueState{conn: newGlue(), w: map[*pool.Message]*responsewriter.ResponseWriter[*glueConn]{}}
	}
	return s.glue
}

// execGlue handles the glue operations; ok=false when f[0] is not one of them.
func (s *state) execGlue(f []string) (string, bool) {
	switch f[0] {
	case "setresp", "observe", "obsopts", "obsreq", "obscancel", "recycle":
	default:
		return "", false
	}
	if !s.pool {
		return "bad-op", true
	}
	g := s.glueInit()
	c := s.cur
	switch f[0] {
	case "setresp":
		// setresp <code> <contentFormat> <body 0|1> <n> {id:hex}*
		if len(f) < 5 {
			return "bad-op", true
		}
		code, e1 := strconv.ParseUint(f[1], 10, 16)
		cf, e2 := strconv.ParseUint(f[2], 10, 16)
		in, ok := parseItems(f[5:])
		if e1 != nil || e2 != nil || !ok {
			return "bad-op", true
		}
		w := g.w[c.msg]
		if w == nil {
			w = responsewriter.New(c.msg, g.conn)
			g.w[c.msg] = w
		}
		var err error
		if f[3] == "1" {
			err = w.SetResponse(codes.Code(code), message.MediaType(cf), bytes.NewReader([]byte("body")), in...)
		} else {
			err = w.SetResponse(codes.Code(code), message.MediaType(cf), nil, in...)
		}
		return fmt.Sprintf("ret %s %d", errKind(err), s.tail()), true
	case "observe":
		// the current message is the registration request (its options are what they are); fresh token
		g.conn.tokens++
		c.msg.SetToken(message.Token{0xc1, 0x5c, byte(g.conn.tokens >> 8), byte(g.conn.tokens)})
		c.msg.SetCode(codes.GET)
		obs, err := g.conn.handler.NewObservation(c.msg, func(*pool.Message) {})
		if err != nil {
			return fmt.Sprintf("ret other %d", s.tail()), true
		}
		g.obs = obs
		return fmt.Sprintf("ret ok %d", s.tail()), true
	case "obsopts":
		if g.obs == nil {
			return "ret notfound 0", true
		}
		return "ret ok " + fmtOptions(g.obs.Request().Options), true
	case "obsreq":
		if g.obs == nil {
			return "ret notfound 0", true
		}
		m, ok := g.conn.handler.GetObservationRequest(g.obs.Request().Token)
		if !ok {
			return "ret notfound 0", true
		}
		out := "ret ok " + fmtOptions(m.Options())
		g.conn.ReleaseMessage(m)
		return out, true
	case "obscancel":
		if g.obs == nil || g.obs.Canceled() {
			return "ret notfound 0", true
		}
		g.conn.wire = ""
		if err := g.obs.Cancel(g.conn.ctx); err != nil {
			return "ret other 0", true
		}
		return "ret ok " + g.conn.wire, true
	case "recycle":
		// the message goes back to the pool (Reset) and a message is taken from the pool again
		delete(g.w, c.msg)
		g.conn.p.ReleaseMessage(c.msg)
		c.msg = g.conn.p.AcquireMessage(g.conn.ctx)
		return fmt.Sprintf("ret ok %d", s.tail()), true
	}
	return "bad-op", true
}
