// Command c15 is the correspondence harness of property C15: it executes operation lines on the real
// message.Options / pool.Message of /repo and prints, after every operation, the return values and the whole
// option list (line protocol: DESIGN.md appendix A, C15 row; docs/notes/C15.md).
//
// Objects: `new raw <cap> <bufsize>` — a message.Options with capacity cap edited through the Options API with one
// caller-owned buffer of bufsize bytes that is consumed monotonically (never grown); `new pool <cap>` — a
// pool.Message whose option slice has capacity cap.  There are always two objects (current / other): `clone`
// copies the current one into the other and makes the copy current, `swap` switches.
package main

import (
	"bufio"
	"context"
	"errors"
	"fmt"
	"runtime"
	"strconv"
	"strings"

	"github.com/plgd-dev/go-coap/v3/message"
	"github.com/plgd-dev/go-coap/v3/message/pool"
	"verifharness/internal/lp"
)

type slot struct {
	// raw
	opts message.Options
	buf  []byte
	orig []byte
	// pool
	msg *pool.Message
}

type state struct {
	glue    *glueState
	pool    bool
	bufSize int
	cur     *slot
	oth     *slot
}

func errKind(err error) string {
	switch {
	case err == nil:
		return "ok"
	case errors.Is(err, message.ErrOptionNotFound):
		return "notfound"
	case errors.Is(err, message.ErrTooSmall):
		return "toosmall"
	case errors.Is(err, message.ErrInvalidValueLength):
		return "invalid"
	}
	return "other"
}

func (s *state) options() message.Options {
	if s.pool {
		return s.cur.msg.Options()
	}
	return s.cur.opts
}

func (s *state) list() (out string) {
	defer func() {
		if r := recover(); r != nil {
			out = "?"
		}
	}()
	o := s.options()
	var b strings.Builder
	b.WriteString(strconv.Itoa(len(o)))
	for _, x := range o {
		b.WriteByte(' ')
		b.WriteString(strconv.Itoa(int(x.ID)))
		b.WriteByte(':')
		b.WriteString(lp.Hex(x.Value))
	}
	return b.String()
}

func (s *state) tail() int {
	if s.pool {
		return s.cur.msg.VerifC15ValueBufferLen()
	}
	return 0
}

// rawDone is what a direct user of the Options API does with the three results.
func (s *state) rawDone(o message.Options, used int, err error) string {
	s.cur.opts = o
	if err == nil {
		s.cur.buf = s.cur.buf[used:]
	}
	return fmt.Sprintf("ret %s %d", errKind(err), used)
}

func newPoolMsg(capacity int) *pool.Message {
	m := pool.NewMessage(context.Background())
	if capacity != cap(m.Options()) {
		m.SetMessage(message.Message{Options: make(message.Options, 0, capacity)})
	}
	return m
}

func parseItems(fs []string) (message.Options, bool) {
	in := make(message.Options, 0, len(fs))
	for _, f := range fs {
		a, b, ok := strings.Cut(f, ":")
		if !ok {
			return nil, false
		}
		id, err := strconv.ParseUint(a, 10, 16)
		v, err2 := lp.ParseHex(b)
		if err != nil || err2 != nil {
			return nil, false
		}
		in = append(in, message.Option{ID: message.OptionID(id), Value: v})
	}
	return in, true
}

func hexs[T ~string | ~[]byte](vs []T) string {
	var b strings.Builder
	for _, v := range vs {
		b.WriteByte(' ')
		b.WriteString(lp.Hex([]byte(v)))
	}
	return b.String()
}

// exec runs one operation and returns the `ret …` text.
func (s *state) exec(f []string) string {
	num := func(i int) (uint64, bool) {
		if i >= len(f) {
			return 0, false
		}
		v, err := strconv.ParseUint(f[i], 10, 32)
		return v, err == nil
	}
	if r, ok := s.execGlue(f); ok {
		return r
	}
	if r, ok := s.execRecv(f); ok {
		return r
	}
	// option numbers are uint16
	if len(f) > 1 && f[0] != "setpath" && f[0] != "setloc" && f[0] != "addquery" && f[0] != "resetto" && f[0] != "resetself" && f[0] != "resetslice" {
		if v, ok := num(1); !ok || v > 65535 {
			return "bad-op"
		}
	}
	hexArg := func(i int) ([]byte, bool) {
		if i >= len(f) {
			return nil, false
		}
		v, err := lp.ParseHex(f[i])
		return v, err == nil
	}
	c := s.cur
	switch f[0] {
	case "set", "add", "setstr", "addstr":
		idn, ok1 := num(1)
		v, ok2 := hexArg(2)
		if !ok1 || !ok2 || len(f) != 3 {
			return "bad-op"
		}
		id := message.OptionID(idn)
		if s.pool {
			switch f[0] {
			case "set":
				c.msg.SetOptionBytes(id, v)
			case "add":
				c.msg.AddOptionBytes(id, v)
			case "setstr":
				c.msg.SetOptionString(id, string(v))
			case "addstr":
				c.msg.AddOptionString(id, string(v))
			}
			return fmt.Sprintf("ret ok %d", s.tail())
		}
		switch f[0] {
		case "set":
			return s.rawDone(c.opts.SetBytes(c.buf, id, v))
		case "add":
			return s.rawDone(c.opts.AddBytes(c.buf, id, v))
		case "setstr":
			return s.rawDone(c.opts.SetString(c.buf, id, string(v)))
		default:
			return s.rawDone(c.opts.AddString(c.buf, id, string(v)))
		}
	case "setu32", "addu32":
		idn, ok1 := num(1)
		v, ok2 := num(2)
		if !ok1 || !ok2 || len(f) != 3 {
			return "bad-op"
		}
		id := message.OptionID(idn)
		if s.pool {
			if f[0] == "setu32" {
				c.msg.SetOptionUint32(id, uint32(v))
			} else {
				c.msg.AddOptionUint32(id, uint32(v))
			}
			return fmt.Sprintf("ret ok %d", s.tail())
		}
		if f[0] == "setu32" {
			return s.rawDone(c.opts.SetUint32(c.buf, id, uint32(v)))
		}
		return s.rawDone(c.opts.AddUint32(c.buf, id, uint32(v)))
	case "remove":
		idn, ok := num(1)
		if !ok || len(f) != 2 {
			return "bad-op"
		}
		if s.pool {
			c.msg.Remove(message.OptionID(idn))
			return fmt.Sprintf("ret ok %d", s.tail())
		}
		c.opts = c.opts.Remove(message.OptionID(idn))
		return "ret ok 0"
	case "setpath", "setloc", "addquery":
		p, ok := hexArg(1)
		if !ok || len(f) != 2 {
			return "bad-op"
		}
		if s.pool {
			switch f[0] {
			case "setpath":
				err := c.msg.SetPath(string(p))
				return fmt.Sprintf("ret %s %d", errKind(err), s.tail())
			case "addquery":
				c.msg.AddQuery(string(p))
				return fmt.Sprintf("ret ok %d", s.tail())
			}
			return "bad-op"
		}
		switch f[0] {
		case "setpath":
			return s.rawDone(c.opts.SetPath(c.buf, string(p)))
		case "setloc":
			return s.rawDone(c.opts.SetLocationPath(c.buf, string(p)))
		default:
			return s.rawDone(c.opts.AddString(c.buf, message.URIQuery, string(p)))
		}
	case "resetto":
		if len(f) < 2 {
			return "bad-op"
		}
		in, ok := parseItems(f[2:])
		if !ok {
			return "bad-op"
		}
		if s.pool {
			c.msg.ResetOptionsTo(in)
			return fmt.Sprintf("ret ok %d", s.tail())
		}
		return s.rawDone(c.opts.ResetOptionsTo(c.buf, in))
	case "resetself":
		// reset the object to a selection (subset / permutation / repetition, by index modulo the length) of ITS OWN
		// current options: the values of `in` are views into the object's own value buffer
		cur := s.options()
		in := make(message.Options, 0, len(f)-1)
		for _, a := range f[1:] {
			i, err := strconv.ParseUint(a, 10, 32)
			if err != nil {
				return "bad-op"
			}
			if len(cur) > 0 {
				in = append(in, cur[int(i)%len(cur)])
			}
		}
		if s.pool {
			c.msg.ResetOptionsTo(in)
			return fmt.Sprintf("ret ok %d", s.tail())
		}
		return s.rawDone(c.opts.ResetOptionsTo(c.buf, in))
	case "resetslice":
		// reset the object to the slice [k:k+n] of ITS OWN option slice: `in` shares the backing array with the receiver
		// (m.ResetOptionsTo(m.Options()[k:k+n])); k and n are normalised into range
		if len(f) != 3 {
			return "bad-op"
		}
		k64, e1 := strconv.ParseUint(f[1], 10, 32)
		n64, e2 := strconv.ParseUint(f[2], 10, 32)
		if e1 != nil || e2 != nil {
			return "bad-op"
		}
		cur := s.options()
		k := int(k64) % (len(cur) + 1)
		n := int(n64) % (len(cur) - k + 1)
		in := cur[k : k+n]
		if s.pool {
			c.msg.ResetOptionsTo(in)
			return fmt.Sprintf("ret ok %d", s.tail())
		}
		return s.rawDone(c.opts.ResetOptionsTo(c.buf, in))
	case "clone":
		if s.pool {
			if err := c.msg.Clone(s.oth.msg); err != nil {
				return fmt.Sprintf("ret other %d", s.tail())
			}
			s.cur, s.oth = s.oth, s.cur
			return fmt.Sprintf("ret ok %d", s.tail())
		}
		cl, err := c.opts.Clone()
		if err != nil {
			return fmt.Sprintf("ret %s 0", errKind(err))
		}
		b := make([]byte, s.bufSize)
		s.oth = &slot{opts: cl, buf: b, orig: b}
		s.cur, s.oth = s.oth, s.cur
		return "ret ok 0"
	case "swap":
		s.cur, s.oth = s.oth, s.cur
		return fmt.Sprintf("ret ok %d", s.tail())
	case "reset":
		if s.pool {
			c.msg.Reset()
			return fmt.Sprintf("ret ok %d", s.tail())
		}
		c.opts = c.opts[:0]
		c.buf = c.orig
		return "ret ok 0"
	}
	// queries
	o := s.options()
	switch f[0] {
	case "find":
		idn, ok := num(1)
		if !ok || len(f) != 2 {
			return "bad-op"
		}
		a, b, err := o.Find(message.OptionID(idn))
		return fmt.Sprintf("ret %s %d %d", errKind(err), a, b)
	case "has":
		idn, ok := num(1)
		if !ok || len(f) != 2 {
			return "bad-op"
		}
		var h bool
		if s.pool {
			h = c.msg.HasOption(message.OptionID(idn))
		} else {
			h = o.HasOption(message.OptionID(idn))
		}
		if h {
			return "ret ok 1"
		}
		return "ret ok 0"
	case "getu32":
		idn, ok := num(1)
		if !ok || len(f) != 2 {
			return "bad-op"
		}
		var v uint32
		var err error
		if s.pool {
			v, err = c.msg.GetOptionUint32(message.OptionID(idn))
		} else {
			v, err = o.GetUint32(message.OptionID(idn))
		}
		return fmt.Sprintf("ret %s %d", errKind(err), v)
	case "getstr", "getbytes":
		idn, ok := num(1)
		if !ok || len(f) != 2 {
			return "bad-op"
		}
		var v []byte
		var err error
		switch {
		case f[0] == "getstr":
			var str string
			str, err = o.GetString(message.OptionID(idn))
			v = []byte(str)
		case s.pool:
			v, err = c.msg.GetOptionBytes(message.OptionID(idn))
		default:
			v, err = o.GetBytes(message.OptionID(idn))
		}
		return fmt.Sprintf("ret %s %s", errKind(err), lp.Hex(v))
	case "getu32s", "getstrs", "getbytess":
		idn, ok1 := num(1)
		n, ok2 := num(2)
		if !ok1 || !ok2 || len(f) != 3 {
			return "bad-op"
		}
		id := message.OptionID(idn)
		switch f[0] {
		case "getu32s":
			r := make([]uint32, n)
			cnt, err := o.GetUint32s(id, r)
			out := fmt.Sprintf("ret %s %d", errKind(err), cnt)
			if err == nil {
				for i := 0; i < cnt && i < len(r); i++ {
					out += " " + strconv.FormatUint(uint64(r[i]), 10)
				}
			}
			return out
		case "getstrs":
			r := make([]string, n)
			cnt, err := o.GetStrings(id, r)
			out := fmt.Sprintf("ret %s %d", errKind(err), cnt)
			if err == nil {
				out += hexs(r[:min(cnt, len(r))])
			}
			return out
		default:
			r := make([][]byte, n)
			var cnt int
			var err error
			if s.pool {
				cnt, err = c.msg.GetOptionAllBytes(id, r)
			} else {
				cnt, err = o.GetBytess(id, r)
			}
			out := fmt.Sprintf("ret %s %d", errKind(err), cnt)
			if err == nil {
				out += hexs(r[:min(cnt, len(r))])
			}
			return out
		}
	case "path", "locpath":
		var p string
		var err error
		switch {
		case f[0] == "locpath":
			p, err = o.LocationPath()
		case s.pool:
			p, err = c.msg.Path()
		default:
			p, err = o.Path()
		}
		return fmt.Sprintf("ret %s %s", errKind(err), lp.Hex([]byte(p)))
	case "queries":
		var q []string
		var err error
		if s.pool {
			q, err = c.msg.Queries()
		} else {
			q, err = o.Queries()
		}
		if err != nil {
			return fmt.Sprintf("ret %s 0", errKind(err))
		}
		return fmt.Sprintf("ret ok %d%s", len(q), hexs(q))
	case "cf":
		var v message.MediaType
		var err error
		if s.pool {
			v, err = c.msg.ContentFormat()
		} else {
			v, err = o.ContentFormat()
		}
		return fmt.Sprintf("ret %s %d", errKind(err), int32(v))
	}
	return "bad-op"
}

func main() {
	var s *state
	lp.Loop(func(f []string, w *bufio.Writer) {
		if len(f) == 0 {
			fmt.Fprintln(w, "bad-op")
			return
		}
		if f[0] == "new" {
			switch {
			case len(f) == 4 && f[1] == "raw":
				c, e1 := strconv.Atoi(f[2])
				b, e2 := strconv.Atoi(f[3])
				if e1 != nil || e2 != nil || c < 0 || b < 0 {
					fmt.Fprintln(w, "bad-op")
					return
				}
				b1, b2 := make([]byte, b), make([]byte, b)
				s = &state{bufSize: b,
					cur: &slot{opts: make(message.Options, 0, c), buf: b1, orig: b1},
					oth: &slot{opts: make(message.Options, 0), buf: b2, orig: b2}}
			case len(f) == 3 && f[1] == "pool":
				c, e1 := strconv.Atoi(f[2])
				if e1 != nil || c < 0 {
					fmt.Fprintln(w, "bad-op")
					return
				}
				s = &state{pool: true, cur: &slot{msg: newPoolMsg(c)}, oth: &slot{msg: pool.NewMessage(context.Background())}}
			default:
				fmt.Fprintln(w, "bad-op")
				return
			}
			fmt.Fprintf(w, "ret ok %d | 0\n", s.tail())
			return
		}
		if s == nil {
			fmt.Fprintln(w, "dead")
			return
		}
		ret := func() (ret string) {
			defer func() {
				if r := recover(); r != nil {
					if _, ok := r.(runtime.Error); ok {
						ret = "panic runtime"
						return
					}
					if e, ok := r.(error); ok {
						ret = fmt.Sprintf("ret xpanic-%s %d", errKind(e), s.tail())
						return
					}
					ret = "panic other"
				}
			}()
			return s.exec(f)
		}()
		if ret == "bad-op" {
			fmt.Fprintln(w, ret)
			return
		}
		fmt.Fprintf(w, "%s | %s\n", ret, s.list())
	})
}
