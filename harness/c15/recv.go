// The receive entrance of a pooled message (C15, eleventh seeded round): `recv <n> {id:hex}*` does what a connection
// does with an arriving datagram — a message from the pool (Reset) into which the datagram is unmarshalled
// (pool.Message.UnmarshalWithDecoder with the UDP coder).  The option values of such a message are sub-slices of the
// message's unmarshal buffer, not of its value buffer; every editing operation of the line protocol can follow.
// The datagram is produced by the library's own encoder from the options given (ascending numbers: the wire format
// cannot carry anything else), code GET, a 4-byte token, no payload.
package main

import (
	"fmt"

	"github.com/plgd-dev/go-coap/v3/message"
	"github.com/plgd-dev/go-coap/v3/message/codes"
	udpcoder "github.com/plgd-dev/go-coap/v3/udp/coder"
)

func (s *state) execRecv(f []string) (string, bool) {
	if f[0] != "recv" {
		return "", false
	}
	if !s.pool || len(f) < 2 {
		return "bad-op", true
	}
	in, ok := parseItems(f[2:])
	if !ok {
		return "bad-op", true
	}
	for i := range in {
		if in[i].ID == 0 || (i > 0 && in[i].ID < in[i-1].ID) {
			return "bad-op", true
		}
	}
	wire := message.Message{
		Code: codes.GET, Token: message.Token{1, 2, 3, 4}, MessageID: 7, Type: message.Confirmable, Options: in,
	}
	size, err := udpcoder.DefaultCoder.Size(wire)
	if err != nil {
		return "bad-op", true
	}
	data := make([]byte, size)
	n, err := udpcoder.DefaultCoder.Encode(wire, data)
	if err != nil {
		return "bad-op", true
	}
	data = data[:n]
	m := s.cur.msg
	m.Reset()
	if _, err = m.UnmarshalWithDecoder(udpcoder.DefaultCoder, data); err != nil {
		return fmt.Sprintf("ret other %d", s.tail()), true
	}
	// the caller's datagram is not the message's: scribble over it
	for i := range data {
		data[i] = 0xee
	}
	return fmt.Sprintf("ret ok %d", s.tail()), true
}
