// Harness for C16 (parallel-request limits): the real limitparallelrequests.New(...) is driven inside a
// testing/synctest bubble. One history = `cfg L E ; <line> ; <line> ; … ; idle` where a line is one event (or several
// events joined by `&`, issued in the same quiescence window). After every line the harness waits until all goroutines
// are durably blocked (synctest.Wait) and records what a client can see: which requests are inside the wrapped `do`,
// which calls returned and how, and (read-only hook) the endpoint table.
//
// Input lines ($VERIF_IN):
//
//	explore <limit> <eplimit> <nreq> <npaths> <pre 0|1>   every order of arrive/cancel/finish (DFS by re-execution)
//	random  <seed> <count> <nreq> <npaths>                 random walks, including multi-event windows (also several calls made in one window)
//	burst   <seed> <count> <lo> <hi>                       random histories that start with a burst of lo..hi requests for ONE path
//	                                                       (one call per window, so the arrival order is known), which is then drained by
//	                                                       completions, thinned by cancellations of waiters and topped up by new arrivals
//	replay  cfg L E ; ev ; ev & ev ; … ; idle              one given history; `arrive A..B P`, `finish A..B`, `cancel A..B` stand for
//	                                                       one line per id (ascending, or descending when A > B)
//
// Output ($VERIF_OUT): one line per executed history, `cfg L E ; ev | obs ; … ; idle | entries n probe ok`.
package c16

import (
	"bufio"
	"context"
	"errors"
	"fmt"
	"math/rand"
	"sort"
	"strconv"
	"strings"
	"sync"
	"testing"
	"testing/synctest"

	"github.com/plgd-dev/go-coap/v3/message"
	"github.com/plgd-dev/go-coap/v3/message/codes"
	"github.com/plgd-dev/go-coap/v3/message/pool"
	lpr "github.com/plgd-dev/go-coap/v3/net/client/limitParallelRequests"
	"verifharness/internal/lp"
)

type event struct {
	kind string // arrive | arrivec | cancel | finish
	id   int
	path int
}

func (e event) String() string {
	switch e.kind {
	case "arrive", "arrivec":
		return fmt.Sprintf("%s %d %d", e.kind, e.id, e.path)
	}
	return fmt.Sprintf("%s %d", e.kind, e.id)
}

type line []event

func (l line) String() string {
	parts := make([]string, len(l))
	for i, e := range l {
		parts[i] = e.String()
	}
	return strings.Join(parts, " & ")
}

type sim struct {
	lim       *lpr.LimitParallelRequests
	mu        sync.Mutex
	running   map[int]bool
	reqID     map[*pool.Message]int
	finishCh  map[int]chan struct{}
	finished  map[int]bool
	cancelFn  map[int]context.CancelFunc
	cancelled map[int]bool
	arrived   []int
	pathOf    map[int]int
	returned  map[int]string
	newRets   []int
	panics    []string
}

func newSim(limit, eplimit int64) *sim {
	s := &sim{
		running: map[int]bool{}, reqID: map[*pool.Message]int{}, finishCh: map[int]chan struct{}{}, finished: map[int]bool{},
		cancelFn: map[int]context.CancelFunc{}, cancelled: map[int]bool{}, pathOf: map[int]int{}, returned: map[int]string{},
	}
	s.lim = lpr.New(limit, eplimit, s.do, nil)
	return s
}

func (s *sim) do(req *pool.Message) (*pool.Message, error) {
	s.mu.Lock()
	id := s.reqID[req]
	s.running[id] = true
	ch := s.finishCh[id]
	s.mu.Unlock()
	<-ch
	s.mu.Lock()
	delete(s.running, id)
	s.mu.Unlock()
	return nil, nil
}

func pathKey(p int) uint64 {
	return lpr.VerifHash(message.Options{{ID: message.URIPath, Value: []byte(fmt.Sprintf("p%d", p))}})
}

func (s *sim) start(id, path int, pre bool) {
	ctx, cancel := context.WithCancel(context.Background())
	if pre {
		cancel()
	}
	req := pool.NewMessage(ctx)
	req.SetCode(codes.GET)
	if err := req.SetPath(fmt.Sprintf("/p%d", path)); err != nil {
		panic(err)
	}
	s.mu.Lock()
	s.reqID[req] = id
	s.finishCh[id] = make(chan struct{})
	s.cancelFn[id] = cancel
	s.cancelled[id] = pre
	s.arrived = append(s.arrived, id)
	s.pathOf[id] = path
	s.mu.Unlock()
	go func() {
		res := "ok"
		func() {
			defer func() {
				if r := recover(); r != nil {
					res = "panic"
					s.mu.Lock()
					s.panics = append(s.panics, fmt.Sprint(r))
					s.mu.Unlock()
				}
			}()
			_, err := s.lim.Do(req)
			switch {
			case err == nil:
			case errors.Is(err, context.Canceled):
				res = "ctx"
			default:
				res = "other"
			}
		}()
		s.mu.Lock()
		s.returned[id] = res
		s.newRets = append(s.newRets, id)
		s.mu.Unlock()
	}()
}

func (s *sim) apply(e event) {
	switch e.kind {
	case "arrive":
		s.start(e.id, e.path, false)
	case "arrivec":
		s.start(e.id, e.path, true)
	case "cancel":
		s.mu.Lock()
		fn := s.cancelFn[e.id]
		s.cancelled[e.id] = true
		s.mu.Unlock()
		if fn != nil {
			fn()
		}
	case "finish":
		s.mu.Lock()
		ok := s.running[e.id] && !s.finished[e.id]
		if ok {
			s.finished[e.id] = true
		}
		ch := s.finishCh[e.id]
		s.mu.Unlock()
		if ok {
			close(ch)
		}
	}
}

func (s *sim) runningIDs() []int {
	s.mu.Lock()
	defer s.mu.Unlock()
	ids := make([]int, 0, len(s.running))
	for id := range s.running {
		ids = append(ids, id)
	}
	sort.Ints(ids)
	return ids
}

func joinInts(xs []int) string {
	if len(xs) == 0 {
		return "-"
	}
	p := make([]string, len(xs))
	for i, x := range xs {
		p[i] = strconv.Itoa(x)
	}
	return strings.Join(p, ",")
}

// observe is called at quiescence.
func (s *sim) observe() string {
	run := s.runningIDs()
	s.mu.Lock()
	rets := append([]int(nil), s.newRets...)
	s.newRets = nil
	sort.Ints(rets)
	rp := make([]string, len(rets))
	for i, id := range rets {
		rp[i] = fmt.Sprintf("%d:%s", id, s.returned[id])
	}
	paths := map[int]bool{}
	for _, id := range s.arrived {
		paths[s.pathOf[id]] = true
	}
	s.mu.Unlock()
	ps := make([]int, 0, len(paths))
	for p := range paths {
		ps = append(ps, p)
	}
	sort.Ints(ps)
	var tab []string
	for _, p := range ps {
		if c, w, ok := s.lim.VerifEndpoint(pathKey(p)); ok {
			tab = append(tab, fmt.Sprintf("%d:%d/%d", p, c, w))
		}
	}
	r := "-"
	if len(rp) > 0 {
		r = strings.Join(rp, ",")
	}
	tb := "-"
	if len(tab) > 0 {
		tb = strings.Join(tab, ",")
	}
	return fmt.Sprintf("run %s ret %s tab %s n %d", joinInts(run), r, tb, s.lim.VerifEntries())
}

// probe: after all calls returned, fresh requests must be admitted at once (per used path up to the limits, and on fresh paths).
func (s *sim) probe(limit, eplimit int64) string {
	eff := func(l int64, d int) int {
		if l <= 0 || l > int64(d) {
			return d
		}
		return int(l)
	}
	used := map[int]bool{}
	for _, id := range s.arrived {
		used[s.pathOf[id]] = true
	}
	ps := make([]int, 0, len(used))
	for p := range used {
		ps = append(ps, p)
	}
	sort.Ints(ps)
	next := 1000
	batch := func(paths []int) string {
		var ids []int
		for _, p := range paths {
			s.start(next, p, false)
			ids = append(ids, next)
			next++
		}
		synctest.Wait()
		run := s.runningIDs()
		if len(run) != len(ids) {
			return fmt.Sprintf("blocked:%d-of-%d-on-%s", len(run), len(ids), joinInts(paths))
		}
		for _, id := range ids {
			s.apply(event{kind: "finish", id: id})
		}
		synctest.Wait()
		for _, id := range ids {
			if s.returned[id] != "ok" {
				return fmt.Sprintf("noreturn:%d", id)
			}
		}
		s.mu.Lock()
		s.newRets = nil
		s.mu.Unlock()
		return ""
	}
	n := eff(eplimit, 2)
	if m := eff(limit, 2); m < n {
		n = m
	}
	for _, p := range ps {
		same := make([]int, n)
		for i := range same {
			same[i] = p
		}
		if r := batch(same); r != "" {
			return r
		}
	}
	var fresh []int
	for i := 0; i < eff(limit, 3); i++ {
		fresh = append(fresh, 500+i)
	}
	if r := batch(fresh); r != "" {
		return r
	}
	if e := s.lim.VerifEntries(); e != 0 {
		return fmt.Sprintf("entries-after-probe:%d", e)
	}
	return "ok"
}

type status struct {
	arrived   []int
	returned  map[int]bool
	cancelled map[int]bool
	running   []int
	maxPath   int
}

// runHistory executes lines on a fresh limiter inside one bubble. If `idle` is set (or decide returns no further line) the
// idle probe is appended. `next` may extend the history step by step (random walks); it is called at quiescence.
func runHistory(t *testing.T, limit, eplimit int64, lines []line, idle bool, next func(st status) (line, bool)) (string, status) {
	var b strings.Builder
	var st status
	fmt.Fprintf(&b, "cfg %d %d", limit, eplimit)
	synctest.Test(t, func(t *testing.T) {
		s := newSim(limit, eplimit)
		snapshot := func() status {
			s.mu.Lock()
			defer s.mu.Unlock()
			st := status{returned: map[int]bool{}, cancelled: map[int]bool{}, maxPath: -1}
			st.arrived = append(st.arrived, s.arrived...)
			for id := range s.returned {
				st.returned[id] = true
			}
			for id, c := range s.cancelled {
				if c {
					st.cancelled[id] = true
				}
			}
			for id := range s.running {
				st.running = append(st.running, id)
			}
			sort.Ints(st.running)
			for _, id := range s.arrived {
				if s.pathOf[id] > st.maxPath {
					st.maxPath = s.pathOf[id]
				}
			}
			return st
		}
		do := func(l line) {
			for _, e := range l {
				s.apply(e)
			}
			synctest.Wait()
			fmt.Fprintf(&b, " ; %s | %s", l.String(), s.observe())
		}
		for _, l := range lines {
			do(l)
		}
		for next != nil {
			l, ok := next(snapshot())
			if !ok {
				break
			}
			do(l)
		}
		st = snapshot()
		if idle {
			all := true
			for _, id := range st.arrived {
				if !st.returned[id] {
					all = false
				}
			}
			if all {
				entries := s.lim.VerifEntries()
				fmt.Fprintf(&b, " ; idle | entries %d probe %s", entries, s.probe(limit, eplimit))
			} else {
				fmt.Fprintf(&b, " ; idle | entries %d probe pending", s.lim.VerifEntries())
			}
		}
		if len(s.panics) > 0 {
			fmt.Fprintf(&b, " ; panic | %s", strings.ReplaceAll(strings.Join(s.panics, "/"), " ", "_"))
		}
		// let every goroutine leave before the bubble ends
		s.mu.Lock()
		for _, fn := range s.cancelFn {
			fn()
		}
		for id, ch := range s.finishCh {
			if !s.finished[id] {
				s.finished[id] = true
				close(ch)
			}
		}
		s.mu.Unlock()
		synctest.Wait()
	})
	return b.String(), st
}

func enabled(st status, nreq, npaths int, pre bool) []event {
	var en []event
	if len(st.arrived) < nreq {
		id := len(st.arrived)
		for p := 0; p <= st.maxPath+1 && p < npaths; p++ {
			en = append(en, event{kind: "arrive", id: id, path: p})
			if pre {
				en = append(en, event{kind: "arrivec", id: id, path: p})
			}
		}
	}
	run := map[int]bool{}
	for _, id := range st.running {
		run[id] = true
		en = append(en, event{kind: "finish", id: id})
	}
	for _, id := range st.arrived {
		if !st.returned[id] && !st.cancelled[id] && !run[id] {
			en = append(en, event{kind: "cancel", id: id})
		}
	}
	return en
}

func explore(t *testing.T, limit, eplimit int64, nreq, npaths int, pre bool, emit func(string)) int {
	n := 0
	var rec func(prefix []line)
	rec = func(prefix []line) {
		// a cheap run without the idle probe tells which events are enabled
		_, st := runHistory(t, limit, eplimit, prefix, false, nil)
		en := enabled(st, nreq, npaths, pre)
		if len(en) == 0 {
			h, _ := runHistory(t, limit, eplimit, prefix, true, nil)
			emit(h)
			n++
			return
		}
		for _, e := range en {
			rec(append(append([]line(nil), prefix...), line{e}))
		}
	}
	rec(nil)
	return n
}

func randomWalk(t *testing.T, rng *rand.Rand, nreq, npaths int) string {
	limit := int64(rng.Intn(4))
	eplimit := int64(rng.Intn(4))
	if rng.Intn(3) > 0 && limit == 0 && eplimit == 0 {
		eplimit = 1
	}
	steps := 0
	h, _ := runHistory(t, limit, eplimit, nil, true, func(st status) (line, bool) {
		steps++
		en := enabled(st, nreq, npaths, true)
		// cancelling a running request is legal too (it must not change anything)
		for _, id := range st.running {
			if !st.cancelled[id] && rng.Intn(4) == 0 {
				en = append(en, event{kind: "cancel", id: id})
			}
		}
		if len(en) == 0 || steps > 6*nreq {
			return nil, false
		}
		// bias towards arrivals early so that queues build up
		pick := func() event {
			e := en[rng.Intn(len(en))]
			if (e.kind == "finish" || e.kind == "cancel") && len(st.arrived) < nreq && rng.Intn(3) > 0 {
				e = en[rng.Intn(len(en))]
			}
			if strings.HasPrefix(e.kind, "arrive") {
				e.path = rng.Intn(npaths)
				if rng.Intn(5) > 0 {
					e.kind = "arrive"
				}
			}
			return e
		}
		l := line{pick()}
		if rng.Intn(4) == 0 {
			// a second (and rarely a third) event on another request in the same quiescence window
			arrivals := 0
			if strings.HasPrefix(l[0].kind, "arrive") {
				arrivals = 1
			}
			for k := 0; k < 1+rng.Intn(2); k++ {
				e2 := pick()
				if strings.HasPrefix(e2.kind, "arrive") {
					// a further call made in the same window (often for the same path: the calls race for registration
					// and, past the per-path limit, for the total limit)
					e2.id = len(st.arrived) + arrivals
					if e2.id >= nreq {
						continue
					}
					if arrivals > 0 && rng.Intn(3) > 0 {
						e2.path = l[0].path
					}
					arrivals++
				}
				dup := false
				for _, e := range l {
					if e.id == e2.id {
						dup = true
					}
				}
				if !dup {
					l = append(l, e2)
				}
			}
		}
		return l, true
	})
	return h
}

// burstWalk: a burst of n requests for path 0 (one call per window; a few calls for path 1 in between), far more than the
// path admits, then a long tail in which the burst is drained: completions (mostly), cancellations of waiters (front, back,
// middle of the queue), a trickle of new arrivals, now and then two events in one window.  Three temperaments: pure drain,
// drain with cancellations, churn (every completion is followed by a cancellation and a new arrival).
func burstWalk(t *testing.T, rng *rand.Rand, lo, hi int) string {
	eplimit := int64(1 + rng.Intn(2))
	if rng.Intn(6) == 0 {
		eplimit = 3
	}
	limit := []int64{0, 0, eplimit, eplimit + 1, 1}[rng.Intn(5)]
	n := lo + rng.Intn(hi-lo+1)
	temper := rng.Intn(3)
	extra := 0
	if temper > 0 {
		extra = n/4 + rng.Intn(n/2+1)
	}
	nextID := 0
	burst := int(eplimit) + n
	steps := 0
	h, _ := runHistory(t, limit, eplimit, nil, true, func(st status) (line, bool) {
		steps++
		if steps > 8*(burst+extra) {
			return nil, false
		}
		arrive := func(p int) event {
			e := event{kind: "arrive", id: nextID, path: p}
			nextID++
			return e
		}
		if nextID < burst {
			if rng.Intn(12) == 0 {
				burst++
				return line{arrive(1)}, true
			}
			return line{arrive(0)}, true
		}
		run := map[int]bool{}
		for _, id := range st.running {
			run[id] = true
		}
		var waiting []int
		for _, id := range st.arrived {
			if !st.returned[id] && !st.cancelled[id] && !run[id] {
				waiting = append(waiting, id)
			}
		}
		cancelOne := func() (event, bool) {
			if len(waiting) == 0 {
				return event{}, false
			}
			var id int
			switch rng.Intn(4) {
			case 0:
				id = waiting[0]
			case 1:
				id = waiting[len(waiting)-1]
			default:
				id = waiting[rng.Intn(len(waiting))]
			}
			return event{kind: "cancel", id: id}, true
		}
		finishOne := func() (event, bool) {
			if len(st.running) == 0 {
				return event{}, false
			}
			return event{kind: "finish", id: st.running[rng.Intn(len(st.running))]}, true
		}
		var e event
		ok := false
		r := rng.Intn(100)
		switch {
		case temper == 0 || r < 55:
			e, ok = finishOne()
		case r < 80:
			e, ok = cancelOne()
		case extra > 0:
			extra--
			e, ok = arrive(0), true
		}
		if !ok {
			if e, ok = finishOne(); !ok {
				if e, ok = cancelOne(); !ok {
					return nil, false
				}
			}
		}
		l := line{e}
		if temper == 2 && e.kind == "finish" {
			// churn: the completion is followed, each in its own window, by a cancellation and a new arrival - emitted as the next
			// steps through the ordinary choice above; here only the rare same-window pair
			if c, ok := cancelOne(); ok && rng.Intn(8) == 0 && c.id != e.id {
				l = append(l, c)
			}
		}
		return l, true
	})
	return h
}

func parseHistory(f []string) (int64, int64, []line, bool, error) {
	segs := strings.Split(strings.Join(f, " "), ";")
	var limit, eplimit int64
	var lines []line
	idle := false
	for i, sg := range segs {
		w := strings.Fields(strings.SplitN(sg, "|", 2)[0])
		if len(w) == 0 {
			continue
		}
		if i == 0 {
			if len(w) != 3 || w[0] != "cfg" {
				return 0, 0, nil, false, fmt.Errorf("history must start with cfg")
			}
			limit, _ = strconv.ParseInt(w[1], 10, 64)
			eplimit, _ = strconv.ParseInt(w[2], 10, 64)
			continue
		}
		if w[0] == "idle" {
			idle = true
			continue
		}
		if w[0] == "panic" {
			continue
		}
		if len(w) >= 2 && strings.Contains(w[1], "..") && !strings.Contains(strings.Join(w, " "), "&") {
			// bulk form: one line per id
			ab := strings.SplitN(w[1], "..", 2)
			a, err1 := strconv.Atoi(ab[0])
			b, err2 := strconv.Atoi(ab[1])
			if err1 != nil || err2 != nil || a < 0 || b < 0 || a-b > 1<<16 || b-a > 1<<16 {
				return 0, 0, nil, false, fmt.Errorf("bad range %q", w[1])
			}
			e := event{kind: w[0]}
			if len(w) > 2 {
				e.path, _ = strconv.Atoi(w[2])
			}
			for id := a; ; {
				e.id = id
				lines = append(lines, line{e})
				if id == b {
					break
				}
				if a <= b {
					id++
				} else {
					id--
				}
			}
			continue
		}
		var l line
		for _, part := range strings.Split(strings.Join(w, " "), "&") {
			x := strings.Fields(part)
			if len(x) < 2 {
				return 0, 0, nil, false, fmt.Errorf("bad event %q", part)
			}
			id, _ := strconv.Atoi(x[1])
			e := event{kind: x[0], id: id}
			if len(x) > 2 {
				e.path, _ = strconv.Atoi(x[2])
			}
			l = append(l, e)
		}
		lines = append(lines, l)
	}
	return limit, eplimit, lines, idle, nil
}

func TestC16(t *testing.T) {
	err := lp.FileLoop(func(f []string, w *bufio.Writer) {
		defer func() {
			if r := recover(); r != nil {
				fmt.Fprintf(w, "panic %v\n", r)
			}
		}()
		atoi := func(s string) int { n, _ := strconv.Atoi(s); return n }
		switch {
		case len(f) == 6 && f[0] == "explore":
			n := explore(t, int64(atoi(f[1])), int64(atoi(f[2])), atoi(f[3]), atoi(f[4]), f[5] == "1", func(h string) { fmt.Fprintln(w, h) })
			fmt.Fprintf(w, "# explored %s: %d histories\n", strings.Join(f[1:], " "), n)
		case len(f) == 5 && f[0] == "random":
			seed, _ := strconv.ParseInt(f[1], 10, 64)
			rng := rand.New(rand.NewSource(seed))
			for i := 0; i < atoi(f[2]); i++ {
				fmt.Fprintln(w, randomWalk(t, rng, 1+rng.Intn(atoi(f[3])), atoi(f[4])))
			}
		case len(f) == 5 && f[0] == "burst":
			seed, _ := strconv.ParseInt(f[1], 10, 64)
			rng := rand.New(rand.NewSource(seed))
			for i := 0; i < atoi(f[2]); i++ {
				fmt.Fprintln(w, burstWalk(t, rng, atoi(f[3]), atoi(f[4])))
			}
		case len(f) > 1 && f[0] == "replay":
			limit, eplimit, lines, idle, err := parseHistory(f[1:])
			if err != nil {
				fmt.Fprintf(w, "bad-op %v\n", err)
				return
			}
			h, _ := runHistory(t, limit, eplimit, lines, idle, nil)
			fmt.Fprintln(w, h)
		default:
			fmt.Fprintln(w, "bad-op")
		}
	})
	if err != nil {
		t.Fatal(err)
	}
}
