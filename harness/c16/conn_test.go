// Connection-level harness for C16: the property is about the CONNECTION ("at most the configured number of client requests
// in flight on a connection / per path"), so besides the limiter object (c16_test.go) the real udp and tcp client.Conn are
// driven over the in-memory transports inside a testing/synctest bubble.  A scripted peer decodes everything the connection
// writes: a request (GET/POST/PUT/DELETE) is IN FLIGHT from its first transmission until the harness injects its response.
// Which call a wire request belongs to is read from a Uri-Query tag `i=<id>` that every call adds (the limiter keys on the
// Uri-Path options only).
//
// Operations: get/post <id> <path>, observe <id> <path>, unobserve <id> <path> <obsid> (Observation.Cancel: its deregistration
// GET is a client request of the connection like any other), ping <id> / pong <id> (not requests: must neither count nor be
// held back), respond <id> (the peer answers the wire request of call id), cancel <id> (the call's context ends; a call that
// returns this way has given its request up: it no longer counts as in flight).
//
// Input ($VERIF_IN):
//
//	connexplore <udp|tcp> <limit> <eplimit> <nops> <npaths>     every order of the operations above (DFS by re-execution)
//	connrandom  <udp|tcp> <seed> <count> <nops> <npaths>         random walks, also several events per window
//	connreplay  conn <udp|tcp> L E ; op ; op & op ; … ; idle     one given history
//
// Output: one line per history in the format of the object-level harness, `conn <tr> L E ; <ops> | run <ids> ret <id:res,…>
// tab <path:counter/waiters,…> n <entries> ; … ; idle | entries n probe ok`; `run` = calls whose request is in flight on the wire.
package c16

import (
	"bufio"
	"bytes"
	"context"
	"errors"
	"fmt"
	"io"
	"math/rand"
	"sort"
	"strconv"
	"net"
	"strings"
	"sync"
	"testing"
	"testing/synctest"
	"time"

	piondtls "github.com/pion/dtls/v3"
	dtlsnet "github.com/pion/dtls/v3/pkg/net"
	coapdtls "github.com/plgd-dev/go-coap/v3/dtls"
	"github.com/plgd-dev/go-coap/v3/message"
	"github.com/plgd-dev/go-coap/v3/message/codes"
	"github.com/plgd-dev/go-coap/v3/message/pool"
	netclient "github.com/plgd-dev/go-coap/v3/net/client"
	lpr "github.com/plgd-dev/go-coap/v3/net/client/limitParallelRequests"
	"github.com/plgd-dev/go-coap/v3/options"
	"github.com/plgd-dev/go-coap/v3/tcp"
	tcpclient "github.com/plgd-dev/go-coap/v3/tcp/client"
	tcpcoder "github.com/plgd-dev/go-coap/v3/tcp/coder"
	udpclient "github.com/plgd-dev/go-coap/v3/udp/client"
	udpcoder "github.com/plgd-dev/go-coap/v3/udp/coder"
	"verifharness/internal/lp"
	"verifharness/internal/mem"
)

type cconn interface {
	Get(ctx context.Context, path string, opts ...message.Option) (*pool.Message, error)
	Post(ctx context.Context, path string, contentFormat message.MediaType, payload io.ReadSeeker, opts ...message.Option) (*pool.Message, error)
	Observe(ctx context.Context, path string, observeFunc func(req *pool.Message), opts ...message.Option) (netclient.Observation, error)
	AsyncPing(receivedPong func()) (func(), error)
	ReleaseMessage(m *pool.Message)
	Close() error
}

type cevent struct {
	kind string // get | post | observe | unobserve | ping | pong | respond | cancel
	id   int
	path int
	ref  int
}

func (e cevent) String() string {
	switch e.kind {
	case "get", "post", "observe":
		return fmt.Sprintf("%s %d %d", e.kind, e.id, e.path)
	case "unobserve":
		return fmt.Sprintf("unobserve %d %d %d", e.id, e.path, e.ref)
	}
	return fmt.Sprintf("%s %d", e.kind, e.id)
}

type cline []cevent

func (l cline) String() string {
	p := make([]string, len(l))
	for i, e := range l {
		p[i] = e.String()
	}
	return strings.Join(p, " & ")
}

// wreq is a request seen on the wire.
type wreq struct {
	token   message.Token
	mid     int32
	observe int64 // -1: no Observe option
	ping    bool
}

type cworld struct {
	tr  string
	cc  cconn
	lim *lpr.LimitParallelRequests
	// the wire, as the scripted peer sees it
	datagram bool                // datagram coder (udp, dtls) or stream coder (tcp)
	takeRaw  func() [][]byte     // datagrams / frames written by the connection since the last call
	sendRaw  func(b []byte)      // deliver one datagram / frame to the connection
	shutdown func()              // close connection, peer (and server)

	mu        sync.Mutex
	wire      map[int]*wreq
	inflight  map[int]bool
	pingWire  map[int]*wreq // pings are matched in the order they were sent
	pingOrder []int
	pingsSeen int
	started   []int
	kind      map[int]string
	pathOf    map[int]int
	cancelFn  map[int]context.CancelFunc
	cancelled map[int]bool
	returned  map[int]string
	newRets   []int
	obs       map[int]netclient.Observation
	obsUsed   map[int]bool
	pinged    bool
	problems  []string
}

func tagOpt(id int) message.Option {
	return message.Option{ID: message.URIQuery, Value: []byte(fmt.Sprintf("i=%d", id))}
}

func classify(err error) string {
	switch {
	case err == nil:
		return "ok"
	case errors.Is(err, context.Canceled):
		return "ctx"
	}
	return "other"
}

func (w *cworld) done(id int, err error) {
	w.mu.Lock()
	w.returned[id] = classify(err)
	if err != nil && !errors.Is(err, context.Canceled) {
		w.problems = append(w.problems, fmt.Sprintf("%d:%v", id, err))
	}
	w.newRets = append(w.newRets, id)
	w.mu.Unlock()
}

func (w *cworld) begin(e cevent) context.Context {
	ctx, cancel := context.WithCancel(context.Background())
	w.mu.Lock()
	w.started = append(w.started, e.id)
	w.kind[e.id] = e.kind
	w.pathOf[e.id] = e.path
	w.cancelFn[e.id] = cancel
	w.mu.Unlock()
	return ctx
}

func (w *cworld) apply(e cevent) {
	path := fmt.Sprintf("/p%d", e.path)
	switch e.kind {
	case "get":
		ctx := w.begin(e)
		go func() {
			resp, err := w.cc.Get(ctx, path, tagOpt(e.id))
			if resp != nil {
				w.cc.ReleaseMessage(resp)
			}
			w.done(e.id, err)
		}()
	case "post":
		ctx := w.begin(e)
		go func() {
			resp, err := w.cc.Post(ctx, path, message.TextPlain, bytes.NewReader([]byte("x")), tagOpt(e.id))
			if resp != nil {
				w.cc.ReleaseMessage(resp)
			}
			w.done(e.id, err)
		}()
	case "observe":
		ctx := w.begin(e)
		go func() {
			o, err := w.cc.Observe(ctx, path, func(*pool.Message) {}, tagOpt(e.id))
			if err == nil {
				w.mu.Lock()
				w.obs[e.id] = o
				w.mu.Unlock()
			}
			w.done(e.id, err)
		}()
	case "unobserve":
		w.mu.Lock()
		o := w.obs[e.ref]
		w.obsUsed[e.ref] = true
		w.mu.Unlock()
		ctx := w.begin(e)
		if o == nil {
			w.done(e.id, errors.New("no such observation"))
			return
		}
		go func() { w.done(e.id, o.Cancel(ctx, tagOpt(e.id))) }()
	case "ping":
		w.mu.Lock()
		w.started = append(w.started, e.id)
		w.kind[e.id] = "ping"
		w.pinged = true
		w.pingOrder = append(w.pingOrder, e.id)
		w.returned[e.id] = "ping" // a ping is not a call that returns something to judge
		w.mu.Unlock()
		if _, err := w.cc.AsyncPing(func() {}); err != nil {
			w.mu.Lock()
			w.problems = append(w.problems, fmt.Sprintf("ping %d: %v", e.id, err))
			w.mu.Unlock()
		}
	case "pong":
		w.mu.Lock()
		r := w.pingWire[e.id]
		w.mu.Unlock()
		if r != nil {
			w.inject(r, codes.Empty, true)
		}
	case "respond":
		w.mu.Lock()
		r := w.wire[e.id]
		ok := w.inflight[e.id]
		if ok {
			w.inflight[e.id] = false
		}
		w.mu.Unlock()
		if ok {
			w.inject(r, codes.Content, false)
		}
	case "cancel":
		w.mu.Lock()
		fn := w.cancelFn[e.id]
		w.cancelled[e.id] = true
		w.mu.Unlock()
		if fn != nil {
			fn()
		}
	}
}

// inject answers a wire request: datagram transport = piggybacked acknowledgement, stream transport = response frame.
func (w *cworld) inject(r *wreq, code codes.Code, pong bool) {
	m := pool.NewMessage(context.Background())
	m.SetCode(code)
	if !pong {
		m.SetToken(r.token)
		if r.observe == 0 {
			m.SetObserve(2) // registration accepted
		}
		m.SetContentFormat(message.TextPlain)
		m.SetBody(strings.NewReader("r"))
	}
	if w.datagram {
		m.SetMessageID(r.mid)
		m.SetType(message.Acknowledgement)
		b, err := m.MarshalWithEncoder(udpcoder.DefaultCoder)
		if err != nil {
			panic(err)
		}
		w.sendRaw(append([]byte(nil), b...))
		return
	}
	if pong {
		m.SetCode(codes.Pong)
		m.SetToken(r.token)
	}
	b, err := m.MarshalWithEncoder(tcpcoder.DefaultCoder)
	if err != nil {
		panic(err)
	}
	w.sendRaw(append([]byte(nil), b...))
}

// scan decodes what the connection wrote since the last call.
func (w *cworld) scan() {
	var msgs []*pool.Message
	for _, d := range w.takeRaw() {
		m := pool.NewMessage(context.Background())
		var err error
		if w.datagram {
			_, err = m.UnmarshalWithDecoder(udpcoder.DefaultCoder, d)
		} else {
			_, err = m.UnmarshalWithDecoder(tcpcoder.DefaultCoder, d)
		}
		if err == nil {
			msgs = append(msgs, m)
		}
	}
	w.mu.Lock()
	defer w.mu.Unlock()
	for _, m := range msgs {
		c := m.Code()
		isPing := (w.datagram && c == codes.Empty && m.Type() == message.Confirmable) || (!w.datagram && c == codes.Ping)
		if isPing {
			if w.pingsSeen < len(w.pingOrder) {
				w.pingWire[w.pingOrder[w.pingsSeen]] = &wreq{token: append(message.Token(nil), m.Token()...), mid: m.MessageID(), ping: true}
				w.pingsSeen++
			}
			continue
		}
		if c != codes.GET && c != codes.POST && c != codes.PUT && c != codes.DELETE {
			continue
		}
		id := -1
		if qs, err := m.Options().Queries(); err == nil {
			for _, q := range qs {
				if strings.HasPrefix(q, "i=") {
					id, _ = strconv.Atoi(q[2:])
				}
			}
		}
		if id < 0 {
			w.problems = append(w.problems, "untagged-request-on-the-wire")
			continue
		}
		r := &wreq{token: append(message.Token(nil), m.Token()...), mid: m.MessageID(), observe: -1}
		if v, err := m.Observe(); err == nil {
			r.observe = int64(v)
		}
		w.wire[id] = r
		w.inflight[id] = true
	}
}

func (w *cworld) inflightIDs() []int {
	w.mu.Lock()
	defer w.mu.Unlock()
	var ids []int
	for id, f := range w.inflight {
		if f {
			ids = append(ids, id)
		}
	}
	sort.Ints(ids)
	return ids
}

func (w *cworld) observe() string {
	w.scan()
	// a call that returned without a response (its context ended while its request was on the wire) has given the request up:
	// from the client's point of view — the one the limits speak about — it is no longer in flight
	w.mu.Lock()
	for id := range w.returned {
		if w.inflight[id] {
			w.inflight[id] = false
		}
	}
	w.mu.Unlock()
	run := w.inflightIDs()
	w.mu.Lock()
	rets := append([]int(nil), w.newRets...)
	w.newRets = nil
	sort.Ints(rets)
	rp := make([]string, 0, len(rets))
	for _, id := range rets {
		rp = append(rp, fmt.Sprintf("%d:%s", id, w.returned[id]))
	}
	paths := map[int]bool{}
	for _, id := range w.started {
		if w.kind[id] != "ping" {
			paths[w.pathOf[id]] = true
		}
	}
	w.mu.Unlock()
	ps := make([]int, 0, len(paths))
	for p := range paths {
		ps = append(ps, p)
	}
	sort.Ints(ps)
	var tab []string
	for _, p := range ps {
		if c, q, ok := w.lim.VerifEndpoint(pathKey(p)); ok {
			tab = append(tab, fmt.Sprintf("%d:%d/%d", p, c, q))
		}
	}
	r, tb := "-", "-"
	if len(rp) > 0 {
		r = strings.Join(rp, ",")
	}
	if len(tab) > 0 {
		tb = strings.Join(tab, ",")
	}
	return fmt.Sprintf("run %s ret %s tab %s n %d", joinInts(run), r, tb, w.lim.VerifEntries())
}

type cstatus struct {
	started   []int
	kind      map[int]string
	returned  map[int]bool
	cancelled map[int]bool
	inflight  []int
	obsFree   []int // established observations not yet cancelled by an unobserve
	obsPath   map[int]int
	pinged    bool
	maxPath   int
}

func (w *cworld) status() cstatus {
	infl := w.inflightIDs()
	w.mu.Lock()
	defer w.mu.Unlock()
	st := cstatus{kind: map[int]string{}, returned: map[int]bool{}, cancelled: map[int]bool{}, obsPath: map[int]int{}, inflight: infl, pinged: w.pinged, maxPath: -1}
	st.started = append(st.started, w.started...)
	for id, k := range w.kind {
		st.kind[id] = k
		if k != "ping" && w.pathOf[id] > st.maxPath {
			st.maxPath = w.pathOf[id]
		}
	}
	for id := range w.returned {
		st.returned[id] = true
	}
	for id, c := range w.cancelled {
		st.cancelled[id] = c
	}
	for id := range w.obs {
		if !w.obsUsed[id] {
			st.obsFree = append(st.obsFree, id)
			st.obsPath[id] = w.pathOf[id]
		}
	}
	sort.Ints(st.obsFree)
	return st
}

// dgramEnd is the harness end of a datagram pipe (one Write = one datagram), as in harness/c18/srv_test.go.
type dgramEnd struct {
	c    net.Conn
	mu   sync.Mutex
	got  [][]byte
	done chan struct{}
}

func newDgramEnd(c net.Conn) *dgramEnd {
	p := &dgramEnd{c: c, done: make(chan struct{})}
	go func() {
		defer close(p.done)
		b := make([]byte, 65536)
		for {
			n, err := c.Read(b)
			if n > 0 {
				p.mu.Lock()
				p.got = append(p.got, append([]byte(nil), b[:n]...))
				p.mu.Unlock()
			}
			if err != nil {
				return
			}
		}
	}()
	return p
}

func (p *dgramEnd) take() [][]byte {
	p.mu.Lock()
	defer p.mu.Unlock()
	o := p.got
	p.got = nil
	return o
}

type connAddr string

func (a connAddr) Network() string { return "mem" }
func (a connAddr) String() string  { return string(a) }

// connect builds the connection under test.
//
//	udp, tcp   client.NewConnWithOpts on the in-memory transports, limits written into the Config
//	tcpcli     the real constructor tcp.Client with options.WithLimitClient(Endpoint)ParallelRequest
//	tcpsrv     a connection accepted by a real tcp.Server configured with those options
//	dtlssrv    a connection accepted by a real dtls.Server configured with those options
//	dtlscli    the real constructor dtls.Client (the appliers udp.Client uses as well) with an option list in which other
//	           options (WithTransmission, WithMaxMessageSize, WithBlockwise, …) precede and follow the two limit options
//
// On server-made connections the requests are the ones the SERVER sends to its peer over the accepted connection.
func (w *cworld) connect(limit, eplimit int64) error {
	noRunner := options.WithPeriodicRunner(func(func(now time.Time) bool) {})
	switch w.tr {
	case "udp":
		cc, us := mem.NewUDPConn(mem.UDPOpts{Mutate: func(cfg *udpclient.Config) {
			cfg.LimitClientParallelRequests = limit
			cfg.LimitClientEndpointParallelRequests = eplimit
			// RFC 7252 NSTART (outstanding confirmable interactions, default 1) is a separate congestion limit applied
			// inside the limiter's slot; it is lifted here so that "inside do" and "on the wire" coincide
			cfg.TransmissionNStart = 64
		}})
		w.cc, w.lim, w.datagram = cc, cc.LimitParallelRequests, true
		w.takeRaw = func() [][]byte {
			var o [][]byte
			for _, d := range us.TakeSent() {
				o = append(o, d.Data)
			}
			return o
		}
		w.sendRaw = func(b []byte) {
			if err := cc.Process(nil, b); err != nil {
				w.problems = append(w.problems, "process:"+err.Error())
			}
		}
		w.shutdown = func() { _ = cc.Close() }
	case "tcp":
		cc, tp, err := mem.NewTCPConn(mem.TCPOpts{Mutate: func(cfg *tcpclient.Config) {
			cfg.LimitClientParallelRequests = limit
			cfg.LimitClientEndpointParallelRequests = eplimit
		}})
		if err != nil {
			return err
		}
		w.cc, w.lim = cc, cc.LimitParallelRequests
		w.takeRaw, w.sendRaw = tp.TakeFrames, func(b []byte) { _ = tp.Write(b) }
		w.shutdown = func() { _ = cc.Close(); tp.Close() }
	case "tcpcli":
		a, b := net.Pipe()
		tp := mem.NewTCPPeer(b)
		cc, err := tcp.Client(a, options.WithLimitClientParallelRequest(limit), options.WithLimitClientEndpointParallelRequest(eplimit),
			options.WithMessagePool(pool.New(64, 2048)), options.WithErrors(func(error) {}), noRunner, options.WithCloseSocket())
		if err != nil {
			tp.Close()
			return err
		}
		w.cc, w.lim = cc, cc.LimitParallelRequests
		w.takeRaw, w.sendRaw = tp.TakeFrames, func(b []byte) { _ = tp.Write(b) }
		w.shutdown = func() { _ = cc.Close(); tp.Close() }
	case "tcpsrv":
		cc, tp, stop, err := mem.NewTCPConnViaServer("peer", options.WithLimitClientParallelRequest(limit), options.WithLimitClientEndpointParallelRequest(eplimit))
		if err != nil {
			return err
		}
		w.cc, w.lim = cc, cc.LimitParallelRequests
		w.takeRaw, w.sendRaw = tp.TakeFrames, func(b []byte) { _ = tp.Write(b) }
		w.shutdown = func() { _ = cc.Close(); stop() }
	case "dtlssrv":
		ch := make(chan *udpclient.Conn, 1)
		s := coapdtls.NewServer(options.WithLimitClientParallelRequest(limit), options.WithLimitClientEndpointParallelRequest(eplimit),
			options.WithTransmission(64, 2*time.Second, 4), // NSTART lifted, see "udp"
			options.WithMessagePool(pool.New(64, 2048)), options.WithErrors(func(error) {}), noRunner,
			options.WithOnNewConn(func(cc *udpclient.Conn) { ch <- cc }))
		l := mem.NewListener()
		served := make(chan struct{})
		go func() { _ = s.Serve(l); close(served) }()
		a, b := net.Pipe()
		end := newDgramEnd(b)
		l.Push(&mem.AddrConn{Conn: a, Local: connAddr("server"), Remote: connAddr("peer")})
		synctest.Wait()
		stop := func() { s.Stop(); _ = end.c.Close(); <-end.done; <-served }
		var cc *udpclient.Conn
		select {
		case cc = <-ch:
		default:
			stop()
			return errors.New("the dtls server did not accept the connection")
		}
		w.cc, w.lim, w.datagram = cc, cc.LimitParallelRequests, true
		w.takeRaw, w.sendRaw = end.take, func(b []byte) { _, _ = end.c.Write(b) }
		w.shutdown = func() { _ = cc.Close(); stop() }
	case "dtlscli":
		// the real constructor dtls.Client over a pion DTLS connection (PSK handshake through an in-memory pipe), configured
		// by an option LIST in which other options precede and FOLLOW the two limit options: whatever else is configured,
		// the limits of the connection are the ones the limit options gave
		a, b := net.Pipe()
		psk := func() *piondtls.Config {
			return &piondtls.Config{
				PSK:             func([]byte) ([]byte, error) { return []byte{0xC1, 0x06}, nil },
				PSKIdentityHint: []byte("c16"),
				CipherSuites:    []piondtls.CipherSuiteID{piondtls.TLS_PSK_WITH_AES_128_CCM_8},
			}
		}
		sc, err := piondtls.Server(dtlsnet.PacketConnFromConn(b), connAddr("client"), psk())
		if err != nil {
			return err
		}
		xc, err := piondtls.Client(dtlsnet.PacketConnFromConn(a), connAddr("server"), psk())
		if err != nil {
			return err
		}
		herr := make(chan error, 1)
		go func() { herr <- sc.HandshakeContext(context.Background()) }()
		if err := xc.HandshakeContext(context.Background()); err != nil {
			return err
		}
		if err := <-herr; err != nil {
			return err
		}
		cc := coapdtls.Client(xc,
			options.WithTransmission(64, 2*time.Second, 4), // NSTART lifted, see "udp"
			options.WithMessagePool(pool.New(64, 2048)),
			options.WithLimitClientParallelRequest(limit), options.WithLimitClientEndpointParallelRequest(eplimit),
			options.WithTransmission(64, 2*time.Second, 4), options.WithMaxMessageSize(64*1024), options.WithMTU(1400),
			options.WithBlockwise(false, 0, time.Second), options.WithErrors(func(error) {}), noRunner, options.WithCloseSocket())
		end := newDgramEnd(sc)
		w.cc, w.lim, w.datagram = cc, cc.LimitParallelRequests, true
		w.takeRaw, w.sendRaw = end.take, func(b []byte) { _, _ = end.c.Write(b) }
		w.shutdown = func() { _ = cc.Close(); _ = sc.Close(); <-end.done }
	default:
		return fmt.Errorf("unknown transport %q", w.tr)
	}
	return nil
}

func runConnHistory(t *testing.T, tr string, limit, eplimit int64, lines []cline, idle bool, next func(st cstatus) (cline, bool)) (string, cstatus) {
	var b strings.Builder
	var st cstatus
	fmt.Fprintf(&b, "conn %s %d %d", tr, limit, eplimit)
	synctest.Test(t, func(t *testing.T) {
		w := &cworld{tr: tr, wire: map[int]*wreq{}, inflight: map[int]bool{}, pingWire: map[int]*wreq{}, kind: map[int]string{}, pathOf: map[int]int{},
			cancelFn: map[int]context.CancelFunc{}, cancelled: map[int]bool{}, returned: map[int]string{}, obs: map[int]netclient.Observation{}, obsUsed: map[int]bool{}}
		if err := w.connect(limit, eplimit); err != nil {
			fmt.Fprintf(&b, " ; panic | conn-error_%s", strings.ReplaceAll(err.Error(), " ", "_"))
			return
		}
		synctest.Wait()
		w.scan() // the stream connection's own CSM
		do := func(l cline) {
			for _, e := range l {
				w.apply(e)
			}
			synctest.Wait()
			fmt.Fprintf(&b, " ; %s | %s", l.String(), w.observe())
		}
		for _, l := range lines {
			do(l)
		}
		for next != nil {
			l, ok := next(w.status())
			if !ok {
				break
			}
			do(l)
		}
		st = w.status()
		if idle {
			all := true
			for _, id := range st.started {
				if !st.returned[id] {
					all = false
				}
			}
			entries := w.lim.VerifEntries()
			if all {
				// a fresh request must reach the wire at once
				probe := "ok"
				w.apply(cevent{kind: "get", id: 900, path: 9})
				synctest.Wait()
				w.scan()
				if ids := w.inflightIDs(); len(ids) != 1 || ids[0] != 900 {
					probe = "blocked:" + joinInts(ids)
				} else {
					w.apply(cevent{kind: "respond", id: 900})
					synctest.Wait()
					if w.returned[900] != "ok" {
						probe = "noreturn"
					}
				}
				fmt.Fprintf(&b, " ; idle | entries %d probe %s", entries, probe)
			} else {
				fmt.Fprintf(&b, " ; idle | entries %d probe pending", entries)
			}
		}
		if len(w.problems) > 0 {
			fmt.Fprintf(&b, " ; panic | %s", strings.ReplaceAll(strings.Join(w.problems, "/"), " ", "_"))
		}
		w.mu.Lock()
		for _, fn := range w.cancelFn {
			fn()
		}
		w.mu.Unlock()
		w.shutdown()
		synctest.Wait()
	})
	return b.String(), st
}

func connEnabled(st cstatus, nops, npaths int, withPost bool) []cevent {
	var en []cevent
	if len(st.started) < nops {
		id := len(st.started)
		for p := 0; p <= st.maxPath+1 && p < npaths; p++ {
			en = append(en, cevent{kind: "get", id: id, path: p}, cevent{kind: "observe", id: id, path: p})
			if withPost {
				en = append(en, cevent{kind: "post", id: id, path: p})
			}
		}
		for _, o := range st.obsFree {
			en = append(en, cevent{kind: "unobserve", id: id, path: st.obsPath[o], ref: o})
		}
		if !st.pinged {
			en = append(en, cevent{kind: "ping", id: id})
		}
	}
	infl := map[int]bool{}
	for _, id := range st.inflight {
		infl[id] = true
		en = append(en, cevent{kind: "respond", id: id})
	}
	for _, id := range st.started {
		if st.kind[id] != "ping" && !st.returned[id] && !st.cancelled[id] && !infl[id] {
			en = append(en, cevent{kind: "cancel", id: id})
		}
	}
	return en
}

func connExplore(t *testing.T, tr string, limit, eplimit int64, nops, npaths int, emit func(string)) int {
	n := 0
	var rec func(prefix []cline)
	rec = func(prefix []cline) {
		_, st := runConnHistory(t, tr, limit, eplimit, prefix, false, nil)
		en := connEnabled(st, nops, npaths, false)
		if len(en) == 0 {
			h, _ := runConnHistory(t, tr, limit, eplimit, prefix, true, nil)
			emit(h)
			n++
			return
		}
		for _, e := range en {
			rec(append(append([]cline(nil), prefix...), cline{e}))
		}
	}
	rec(nil)
	return n
}

func connRandom(t *testing.T, tr string, rng *rand.Rand, nops, npaths int) string {
	limit := int64(1 + rng.Intn(3))
	eplimit := int64(1 + rng.Intn(2))
	if rng.Intn(6) == 0 {
		limit = 0
	}
	steps := 0
	h, _ := runConnHistory(t, tr, limit, eplimit, nil, true, func(st cstatus) (cline, bool) {
		steps++
		en := connEnabled(st, nops, npaths, true)
		if len(en) == 0 || steps > 8*nops {
			return nil, false
		}
		pick := func() cevent {
			e := en[rng.Intn(len(en))]
			if (e.kind == "respond" || e.kind == "cancel") && len(st.started) < nops && rng.Intn(2) == 0 {
				e = en[rng.Intn(len(en))]
			}
			return e
		}
		l := cline{pick()}
		if rng.Intn(4) == 0 {
			e2 := pick()
			starts := func(k string) bool { return k != "respond" && k != "cancel" }
			if e2.id != l[0].id && !(starts(e2.kind) && starts(l[0].kind)) {
				l = append(l, e2)
			}
		}
		return l, true
	})
	return h
}

func parseConnHistory(f []string) (string, int64, int64, []cline, bool, error) {
	segs := strings.Split(strings.Join(f, " "), ";")
	var tr string
	var limit, eplimit int64
	var lines []cline
	idle := false
	for i, sg := range segs {
		w := strings.Fields(strings.SplitN(sg, "|", 2)[0])
		if len(w) == 0 {
			continue
		}
		if i == 0 {
			if len(w) != 4 || w[0] != "conn" {
				return "", 0, 0, nil, false, fmt.Errorf("history must start with conn <tr> L E")
			}
			tr = w[1]
			limit, _ = strconv.ParseInt(w[2], 10, 64)
			eplimit, _ = strconv.ParseInt(w[3], 10, 64)
			continue
		}
		if w[0] == "idle" {
			idle = true
			continue
		}
		if w[0] == "panic" {
			continue
		}
		var l cline
		for _, part := range strings.Split(strings.Join(w, " "), "&") {
			x := strings.Fields(part)
			if len(x) < 2 {
				return "", 0, 0, nil, false, fmt.Errorf("bad event %q", part)
			}
			e := cevent{kind: x[0]}
			e.id, _ = strconv.Atoi(x[1])
			if len(x) > 2 {
				e.path, _ = strconv.Atoi(x[2])
			}
			if len(x) > 3 {
				e.ref, _ = strconv.Atoi(x[3])
			}
			l = append(l, e)
		}
		lines = append(lines, l)
	}
	return tr, limit, eplimit, lines, idle, nil
}

func TestC16Conn(t *testing.T) {
	err := lp.FileLoop(func(f []string, w *bufio.Writer) {
		defer func() {
			if r := recover(); r != nil {
				fmt.Fprintf(w, "panic %v\n", r)
			}
		}()
		atoi := func(s string) int { n, _ := strconv.Atoi(s); return n }
		switch {
		case len(f) == 6 && f[0] == "connexplore":
			n := connExplore(t, f[1], int64(atoi(f[2])), int64(atoi(f[3])), atoi(f[4]), atoi(f[5]), func(h string) { fmt.Fprintln(w, h) })
			fmt.Fprintf(w, "# connexplored %s: %d histories\n", strings.Join(f[1:], " "), n)
		case len(f) == 6 && f[0] == "connrandom":
			seed, _ := strconv.ParseInt(f[2], 10, 64)
			rng := rand.New(rand.NewSource(seed))
			for i := 0; i < atoi(f[3]); i++ {
				fmt.Fprintln(w, connRandom(t, f[1], rng, 2+rng.Intn(atoi(f[4])-1), atoi(f[5])))
			}
		case len(f) > 1 && f[0] == "connreplay":
			tr, limit, eplimit, lines, idle, err := parseConnHistory(f[1:])
			if err != nil {
				fmt.Fprintf(w, "bad-op %v\n", err)
				return
			}
			h, _ := runConnHistory(t, tr, limit, eplimit, lines, idle, nil)
			fmt.Fprintln(w, h)
		default:
			fmt.Fprintln(w, "bad-op")
		}
	})
	if err != nil {
		t.Fatal(err)
	}
}
