// Command c17 drives a real mux.Router through the line protocol of DESIGN appendix A (property C17).
//
//	reset | route <pat> <h|nil> | routef <pat> <h|nil> | unroute <pat> | default <h|nil> | defaultf <h|nil>
//	mw <name> | serve <path|none> | served <path|none> | match <path>
//
// Strings are lower-case hex of their bytes ("-" = empty). `serve` builds a pool.Message whose Uri-Path options
// re-assemble (Options.Path) to exactly the given path — which therefore must be empty ("none": no option at all) or
// start with "/" — and hands it to mux.ToHandler(router), the adapter the udp/tcp/dtls servers use (it builds the
// per-request mux.Message and RouteParams), with recording handlers and middlewares; requests of one case are served one
// after another through the same adapter. `served` calls Router.ServeCOAP directly with a fresh mux.Message, `match`
// calls Router.Match directly (any string).
package main

import (
	"bufio"
	"bytes"
	"context"
	"errors"
	"fmt"
	"io"
	"regexp/syntax"
	"sort"
	"strings"

	"github.com/plgd-dev/go-coap/v3/message"
	"github.com/plgd-dev/go-coap/v3/message/codes"
	"github.com/plgd-dev/go-coap/v3/message/pool"
	"github.com/plgd-dev/go-coap/v3/mux"
	"github.com/plgd-dev/go-coap/v3/net/responsewriter"
	udpClient "github.com/plgd-dev/go-coap/v3/udp/client"
	"verifharness/internal/lp"
)

type hit struct {
	h, pattern string
	isDefault  bool
	path, tpl  string
	vars       map[string]string
}

type recorder struct {
	chain []string
	hits  []hit
}

// respWriter is the ResponseWriter handed to ServeCOAP; the router's built-in NotFound responder shows up here.
type respWriter struct {
	rec *recorder
	req *mux.Message
}

func (w *respWriter) SetResponse(code codes.Code, _ message.MediaType, _ io.ReadSeeker, _ ...message.Option) error {
	if code == codes.NotFound {
		w.rec.chain = append(w.rec.chain, "=notfound")
		w.rec.hits = append(w.rec.hits, hit{h: "notfound", isDefault: true, path: w.req.RouteParams.Path,
			tpl: w.req.RouteParams.PathTemplate, vars: copyVars(w.req.RouteParams.Vars)})
	}
	return nil
}
func (w *respWriter) Conn() mux.Conn           { return nil }
func (w *respWriter) SetMessage(*pool.Message) {}
func (w *respWriter) Message() *pool.Message   { return nil }

func copyVars(m map[string]string) map[string]string {
	out := map[string]string{}
	for k, v := range m {
		out[k] = v
	}
	return out
}

type state struct {
	r   *mux.Router
	rec *recorder
}

func newState() *state {
	return &state{r: mux.NewRouter(), rec: &recorder{}}
}

func (s *state) handler(name, pattern string, isDefault bool) func(w mux.ResponseWriter, r *mux.Message) {
	return func(_ mux.ResponseWriter, r *mux.Message) {
		s.rec.chain = append(s.rec.chain, "="+name)
		s.rec.hits = append(s.rec.hits, hit{h: name, pattern: pattern, isDefault: isDefault, path: r.RouteParams.Path,
			tpl: r.RouteParams.PathTemplate, vars: copyVars(r.RouteParams.Vars)})
	}
}

func errKind(err error) string {
	var se *syntax.Error
	switch {
	case err == nil:
		return "ok"
	case errors.As(err, &se):
		return "err regex"
	case err.Error() == "nil handler":
		return "err nilhandler"
	case strings.HasPrefix(err.Error(), "mux: unbalanced braces"):
		return "err unbalanced"
	case strings.HasPrefix(err.Error(), "mux: missing name or pattern"):
		return "err missing"
	case err.Error() == "pattern is not registered in":
		return "err notregistered"
	}
	return "err other:" + strings.ReplaceAll(err.Error(), " ", "_")
}

func panicKind(r any) string {
	msg := fmt.Sprint(r)
	switch {
	case strings.Contains(msg, "contains capture groups"):
		return "panic capture"
	case strings.Contains(msg, "cannot handle pattern"):
		return "panic handlefunc"
	case strings.Contains(msg, "nil pointer dereference"):
		return "panic nilfunc"
	case strings.Contains(msg, "slice bounds out of range"):
		return "panic slice"
	case strings.Contains(msg, "index out of range"):
		return "panic index"
	}
	return "panic other:" + strings.ReplaceAll(msg, " ", "_")
}

func fmtVars(m map[string]string) string {
	if len(m) == 0 {
		return "-"
	}
	parts := make([]string, 0, len(m))
	for k, v := range m {
		parts = append(parts, lp.Hex([]byte(k))+":"+lp.Hex([]byte(v)))
	}
	sort.Strings(parts)
	return strings.Join(parts, ",")
}

func normPattern(p string) string {
	if p == "" {
		return "/"
	}
	return p
}

func main() {
	st := newState()
	pl := pool.New(0, 0)
	// the server-side adapter around the router of the current case (st is re-read on every request)
	adapter := mux.ToHandler[*udpClient.Conn](mux.HandlerFunc(func(w mux.ResponseWriter, r *mux.Message) {
		st.r.ServeCOAP(&respWriter{rec: st.rec, req: r}, r)
	}))
	lp.Loop(func(f []string, w *bufio.Writer) {
		defer func() {
			if r := recover(); r != nil {
				fmt.Fprintln(w, panicKind(r))
			}
		}()
		if len(f) == 0 {
			fmt.Fprintln(w, "bad-op")
			return
		}
		arg := func(i int) string {
			b, err := lp.ParseHex(f[i])
			if err != nil {
				panic("bad hex")
			}
			return string(b)
		}
		switch {
		case f[0] == "reset" && len(f) == 1:
			st = newState()
			fmt.Fprintln(w, "ok")
		case f[0] == "route" && len(f) == 3:
			p := arg(1)
			var h mux.Handler
			if f[2] != "nil" {
				h = mux.HandlerFunc(st.handler(f[2], normPattern(p), false))
			}
			fmt.Fprintln(w, errKind(st.r.Handle(p, h)))
		case f[0] == "routef" && len(f) == 3:
			p := arg(1)
			var fn func(w mux.ResponseWriter, r *mux.Message)
			if f[2] != "nil" {
				fn = st.handler(f[2], normPattern(p), false)
			}
			st.r.HandleFunc(p, fn)
			fmt.Fprintln(w, "ok")
		case f[0] == "unroute" && len(f) == 2:
			fmt.Fprintln(w, errKind(st.r.HandleRemove(arg(1))))
		case f[0] == "default" && len(f) == 2:
			var h mux.Handler
			if f[1] != "nil" {
				h = mux.HandlerFunc(st.handler(f[1], "", true))
			}
			st.r.DefaultHandle(h)
			fmt.Fprintln(w, "ok")
		case f[0] == "defaultf" && len(f) == 2:
			var fn func(w mux.ResponseWriter, r *mux.Message)
			if f[1] != "nil" {
				fn = st.handler(f[1], "", true)
			}
			st.r.DefaultHandleFunc(fn)
			fmt.Fprintln(w, "ok")
		case f[0] == "mw" && len(f) == 2:
			name := f[1]
			rec := st
			st.r.Use(func(next mux.Handler) mux.Handler {
				return mux.HandlerFunc(func(w mux.ResponseWriter, r *mux.Message) {
					rec.rec.chain = append(rec.rec.chain, "+"+name)
					next.ServeCOAP(w, r)
					rec.rec.chain = append(rec.rec.chain, "-"+name)
				})
			})
			fmt.Fprintln(w, "ok")
		case (f[0] == "serve" || f[0] == "served") && len(f) == 2:
			// serve: through mux.ToHandler, the adapter every udp/tcp/dtls server uses (it builds the per-request
			// mux.Message / RouteParams); served: Router.ServeCOAP called directly with a fresh mux.Message.
			msg := pl.AcquireMessage(context.Background())
			msg.SetCode(codes.GET)
			want := ""
			if f[1] != "none" {
				want = arg(1)
				if !strings.HasPrefix(want, "/") {
					fmt.Fprintln(w, "bad-op")
					return
				}
				for _, seg := range bytes.Split([]byte(want[1:]), []byte("/")) {
					msg.AddOptionBytes(message.URIPath, seg)
				}
			}
			if got, err := msg.Options().Path(); (err != nil && !(want == "" && errors.Is(err, message.ErrOptionNotFound))) || got != want {
				fmt.Fprintf(w, "bad-path %q %v\n", got, err)
				return
			}
			st.rec.chain, st.rec.hits = nil, nil
			if f[0] == "served" {
				req := &mux.Message{Message: msg, RouteParams: new(mux.RouteParams)}
				st.r.ServeCOAP(&respWriter{rec: st.rec, req: req}, req)
			} else {
				resp := pl.AcquireMessage(context.Background())
				adapter(responsewriter.New[*udpClient.Conn](resp, nil), msg)
			}
			switch len(st.rec.hits) {
			case 0:
				if len(st.rec.chain) != 0 {
					fmt.Fprintf(w, "chain-without-handler %s\n", strings.Join(st.rec.chain, ","))
					return
				}
				fmt.Fprintln(w, "none")
			case 1:
				h := st.rec.hits[0]
				pat := "*"
				if !h.isDefault {
					pat = lp.Hex([]byte(h.pattern))
				}
				fmt.Fprintf(w, "hit %s %s %s %s %s %s\n", h.h, pat, fmtVars(h.vars), strings.Join(st.rec.chain, ","),
					lp.Hex([]byte(h.path)), lp.Hex([]byte(h.tpl)))
			default:
				fmt.Fprintf(w, "multi %d %s\n", len(st.rec.hits), strings.Join(st.rec.chain, ","))
			}
		case f[0] == "match" && len(f) == 2:
			rp := new(mux.RouteParams)
			route, pat := st.r.Match(arg(1), rp)
			if route == nil {
				fmt.Fprintln(w, "nomatch")
				return
			}
			fmt.Fprintf(w, "m %s %s %s %s\n", lp.Hex([]byte(pat)), fmtVars(rp.Vars), lp.Hex([]byte(rp.Path)), lp.Hex([]byte(rp.PathTemplate)))
		default:
			fmt.Fprintln(w, "bad-op")
		}
	})
}
