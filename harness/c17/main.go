// Command c17 drives a real mux.Router through the line protocol of DESIGN appendix A (property C17).
//
//	reset | route <pat> <h|nil> | routef <pat> <h|nil> | unroute <pat> | default <h|nil> | defaultf <h|nil>
//	mw <name> | serve <path|none> | served <path|none> | match <path>
//	churn <n> <prefix> <h>   (n modifications of the route table: Handle / HandleRemove of <prefix>0, <prefix>0, <prefix>1, ...)
//	getroute <pat> | getroutes | seterr <name> | servefail <path|none>
//	inner <registration op> | mount <pat> <var> | msgnew <path|none> | msgpath <path|none> | msgserve
//
// Strings are lower-case hex of their bytes ("-" = empty). `serve` builds a pool.Message whose Uri-Path options
// re-assemble (Options.Path) to exactly the given path — which therefore must be empty ("none": no option at all) or
// start with "/" — and hands it to mux.ToHandler(router), the adapter the udp/tcp/dtls servers use (it builds the
// per-request mux.Message and RouteParams), with recording handlers and middlewares; requests of one case are served one
// after another through the same adapter. `served` calls Router.ServeCOAP directly with a fresh mux.Message, `match`
// calls Router.Match directly (any string). Requests that arrive as bytes on a real connection: harness/c17wire.
package main

import (
	"bufio"
	"bytes"
	"context"
	"errors"
	"fmt"
	"io"
	"os"
	"strings"

	"github.com/plgd-dev/go-coap/v3/message"
	"github.com/plgd-dev/go-coap/v3/message/codes"
	"github.com/plgd-dev/go-coap/v3/message/pool"
	"github.com/plgd-dev/go-coap/v3/mux"
	"github.com/plgd-dev/go-coap/v3/net/responsewriter"
	udpClient "github.com/plgd-dev/go-coap/v3/udp/client"
	"verifharness/c17core"
	"verifharness/internal/lp"
)

// captureStdout runs f with os.Stdout replaced by a pipe and returns what was written to it.
func captureStdout(f func()) string {
	old := os.Stdout
	r, wp, err := os.Pipe()
	if err != nil {
		f()
		return ""
	}
	os.Stdout = wp
	done := make(chan string)
	go func() {
		b, _ := io.ReadAll(r)
		done <- string(b)
	}()
	func() {
		defer func() {
			os.Stdout = old
			wp.Close()
		}()
		f()
	}()
	return <-done
}

func main() {
	st := c17core.New()
	pl := pool.New(0, 0)
	var obj *mux.Message // the message object of msgnew / msgpath / msgserve
	// the server-side adapter around the router of the current case (st is re-read on every request)
	adapter := mux.ToHandler[*udpClient.Conn](c17core.Handler(func() *c17core.State { return st }))
	lp.Loop(func(f []string, w *bufio.Writer) {
		defer func() {
			if r := recover(); r != nil {
				fmt.Fprintln(w, c17core.PanicKind(r))
			}
		}()
		if len(f) == 0 {
			fmt.Fprintln(w, "bad-op")
			return
		}
		switch {
		case f[0] == "reset" && len(f) == 1:
			st = c17core.New()
			obj = nil
			fmt.Fprintln(w, "ok")
		case st.Register(f, w):
		case (f[0] == "msgnew" || f[0] == "msgpath") && len(f) == 2:
			// one message object that is dispatched again and again: msgnew builds it (fresh RouteParams), msgpath only
			// rewrites its Uri-Path options
			want := ""
			if f[1] != "none" {
				want = c17core.Arg(f, 1)
				if !strings.HasPrefix(want, "/") {
					fmt.Fprintln(w, "bad-op")
					return
				}
			}
			if f[0] == "msgnew" {
				m := pl.AcquireMessage(context.Background())
				m.SetCode(codes.GET)
				obj = &mux.Message{Message: m, RouteParams: new(mux.RouteParams)}
			}
			if obj == nil {
				fmt.Fprintln(w, "bad-op")
				return
			}
			c17core.SetPathExact(obj.Message, want)
			if got, err := obj.Options().Path(); (err != nil && !(want == "" && errors.Is(err, message.ErrOptionNotFound))) || got != want {
				fmt.Fprintf(w, "bad-path %q %v\n", got, err)
				return
			}
			fmt.Fprintln(w, "ok")
		case f[0] == "msgserve" && len(f) == 1:
			if obj == nil {
				fmt.Fprintln(w, "bad-op")
				return
			}
			st.Begin()
			st.R.ServeCOAP(&c17core.Writer{S: st, Req: obj}, obj)
			fmt.Fprintln(w, st.Report())
		case f[0] == "getroutes" && len(f) == 1:
			fmt.Fprintln(w, st.Routes())
		case f[0] == "getroute" && len(f) == 2:
			rt := st.R.GetRoute(c17core.Arg(f, 1))
			if rt == nil {
				fmt.Fprintln(w, "route nil")
				return
			}
			fmt.Fprintln(w, "route "+st.RouteFields(rt))
		case (f[0] == "serve" || f[0] == "served" || f[0] == "servefail") && len(f) == 2:
			// serve: through mux.ToHandler, the adapter every udp/tcp/dtls server uses (it builds the per-request
			// mux.Message / RouteParams); served: Router.ServeCOAP called directly with a fresh mux.Message.
			msg := pl.AcquireMessage(context.Background())
			msg.SetCode(codes.GET)
			want := ""
			if f[1] != "none" {
				want = c17core.Arg(f, 1)
				if !strings.HasPrefix(want, "/") {
					fmt.Fprintln(w, "bad-op")
					return
				}
				for _, seg := range bytes.Split([]byte(want[1:]), []byte("/")) {
					msg.AddOptionBytes(message.URIPath, seg)
				}
			}
			if got, err := msg.Options().Path(); (err != nil && !(want == "" && errors.Is(err, message.ErrOptionNotFound))) || got != want {
				fmt.Fprintf(w, "bad-path %q %v\n", got, err)
				return
			}
			st.Begin()
			if f[0] == "servefail" {
				// a response writer that refuses SetResponse: the built-in NotFound responder reports that to Router.errors
				// (the error handler NewRouter installs prints to os.Stdout: caught in a pipe and reported as `print`)
				req := &mux.Message{Message: msg, RouteParams: new(mux.RouteParams)}
				printed := captureStdout(func() {
					defer func() {
						if r := recover(); r != nil {
							st.Begin()
							fmt.Fprintln(w, c17core.PanicKind(r)+" errs=-")
							req = nil
						}
					}()
					st.R.ServeCOAP(&c17core.Writer{S: st, Req: req, Fail: true}, req)
				})
				if req == nil {
					return
				}
				errs := st.Errs()
				if strings.Contains(printed, "cannot set response") {
					if errs == "-" {
						errs = "print"
					} else {
						errs += ",print"
					}
				}
				fmt.Fprintln(w, st.Report()+" errs="+errs)
				return
			} else if f[0] == "served" {
				req := &mux.Message{Message: msg, RouteParams: new(mux.RouteParams)}
				st.R.ServeCOAP(&c17core.Writer{S: st, Req: req}, req)
			} else {
				resp := pl.AcquireMessage(context.Background())
				adapter(responsewriter.New[*udpClient.Conn](resp, nil), msg)
			}
			fmt.Fprintln(w, st.Report())
		case f[0] == "match" && len(f) == 2:
			rp := new(mux.RouteParams)
			route, pat := st.R.Match(c17core.Arg(f, 1), rp)
			if route == nil {
				fmt.Fprintln(w, "nomatch")
				return
			}
			fmt.Fprintf(w, "m %s %s %s %s\n", lp.Hex([]byte(pat)), c17core.FmtVars(rp.Vars), lp.Hex([]byte(rp.Path)), lp.Hex([]byte(rp.PathTemplate)))
		default:
			fmt.Fprintln(w, "bad-op")
		}
	})
}
