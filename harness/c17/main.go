// Command c17 drives a real mux.Router through the line protocol of DESIGN appendix A (property C17).
//
//	reset | route <pat> <h|nil> | routef <pat> <h|nil> | unroute <pat> | default <h|nil> | defaultf <h|nil>
//	mw <name> | serve <path|none> | served <path|none> | match <path>
//
// Strings are lower-case hex of their bytes ("-" = empty). `serve` builds a pool.Message whose Uri-Path options
// re-assemble (Options.Path) to exactly the given path — which therefore must be empty ("none": no option at all) or
// start with "/" — and hands it to mux.ToHandler(router), the adapter the udp/tcp/dtls servers use (it builds the
// per-request mux.Message and RouteParams), with recording handlers and middlewares; requests of one case are served one
// after another through the same adapter. `served` calls Router.ServeCOAP directly with a fresh mux.Message, `match`
// calls Router.Match directly (any string). Requests that arrive as bytes on a real connection: harness/c17wire.
package main

import (
	"bufio"
	"bytes"
	"context"
	"errors"
	"fmt"
	"strings"

	"github.com/plgd-dev/go-coap/v3/message"
	"github.com/plgd-dev/go-coap/v3/message/codes"
	"github.com/plgd-dev/go-coap/v3/message/pool"
	"github.com/plgd-dev/go-coap/v3/mux"
	"github.com/plgd-dev/go-coap/v3/net/responsewriter"
	udpClient "github.com/plgd-dev/go-coap/v3/udp/client"
	"verifharness/c17core"
	"verifharness/internal/lp"
)

func main() {
	st := c17core.New()
	pl := pool.New(0, 0)
	// the server-side adapter around the router of the current case (st is re-read on every request)
	adapter := mux.ToHandler[*udpClient.Conn](c17core.Handler(func() *c17core.State { return st }))
	lp.Loop(func(f []string, w *bufio.Writer) {
		defer func() {
			if r := recover(); r != nil {
				fmt.Fprintln(w, c17core.PanicKind(r))
			}
		}()
		if len(f) == 0 {
			fmt.Fprintln(w, "bad-op")
			return
		}
		switch {
		case f[0] == "reset" && len(f) == 1:
			st = c17core.New()
			fmt.Fprintln(w, "ok")
		case st.Register(f, w):
		case (f[0] == "serve" || f[0] == "served") && len(f) == 2:
			// serve: through mux.ToHandler, the adapter every udp/tcp/dtls server uses (it builds the per-request
			// mux.Message / RouteParams); served: Router.ServeCOAP called directly with a fresh mux.Message.
			msg := pl.AcquireMessage(context.Background())
			msg.SetCode(codes.GET)
			want := ""
			if f[1] != "none" {
				want = c17core.Arg(f, 1)
				if !strings.HasPrefix(want, "/") {
					fmt.Fprintln(w, "bad-op")
					return
				}
				for _, seg := range bytes.Split([]byte(want[1:]), []byte("/")) {
					msg.AddOptionBytes(message.URIPath, seg)
				}
			}
			if got, err := msg.Options().Path(); (err != nil && !(want == "" && errors.Is(err, message.ErrOptionNotFound))) || got != want {
				fmt.Fprintf(w, "bad-path %q %v\n", got, err)
				return
			}
			st.Begin()
			if f[0] == "served" {
				req := &mux.Message{Message: msg, RouteParams: new(mux.RouteParams)}
				st.R.ServeCOAP(&c17core.Writer{S: st, Req: req}, req)
			} else {
				resp := pl.AcquireMessage(context.Background())
				adapter(responsewriter.New[*udpClient.Conn](resp, nil), msg)
			}
			fmt.Fprintln(w, st.Report())
		case f[0] == "match" && len(f) == 2:
			rp := new(mux.RouteParams)
			route, pat := st.R.Match(c17core.Arg(f, 1), rp)
			if route == nil {
				fmt.Fprintln(w, "nomatch")
				return
			}
			fmt.Fprintf(w, "m %s %s %s %s\n", lp.Hex([]byte(pat)), c17core.FmtVars(rp.Vars), lp.Hex([]byte(rp.Path)), lp.Hex([]byte(rp.PathTemplate)))
		default:
			fmt.Fprintln(w, "bad-op")
		}
	})
}
