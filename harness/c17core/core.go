// Package c17core holds what the C17 harnesses share: a real mux.Router with recording handlers and middlewares, the
// registration operations of the line protocol and the canonical report of one dispatch.
package c17core

import (
	"bufio"
	"errors"
	"fmt"
	"io"
	"reflect"
	"regexp/syntax"
	"sort"
	"strconv"
	"strings"
	"unsafe"

	"github.com/plgd-dev/go-coap/v3/message"
	"github.com/plgd-dev/go-coap/v3/message/codes"
	"github.com/plgd-dev/go-coap/v3/message/pool"
	"github.com/plgd-dev/go-coap/v3/mux"
	"verifharness/internal/lp"
)

type hit struct {
	h, pattern string
	isDefault  bool
	path, tpl  string
	vars       map[string]string
}

// State is one router under test plus the record of what ran during the current dispatch.
type State struct {
	R      *mux.Router
	chain  []string
	hits   []hit
	panick string // a panic inside ServeCOAP, caught by Handler (on a connection it would take the process down)
	// caller is the application's own slice of middlewares last handed to Use as `Use(caller...)`; it has spare capacity
	// and stays the application's property: what the application does with it later is none of the router's business
	caller []mux.MiddlewareFunc
	// errs: names of the error handlers (SetErrorHandler) called during the current dispatch
	errs []string
	// Inner is a second router (operations prefixed `inner`), the target of mount handlers; its handlers and middlewares
	// record into this state
	Inner *mux.Router
}

func New() *State { return &State{R: mux.NewRouter(), Inner: mux.NewRouter()} }

// Writer is the ResponseWriter handed to Router.ServeCOAP: the router's built-in NotFound responder shows up in
// SetResponse. Inner (optional) is the real writer of the connection; calls are passed on to it.
type Writer struct {
	S     *State
	Req   *mux.Message
	Inner mux.ResponseWriter
	// Fail makes SetResponse refuse (after recording): what the built-in NotFound responder reports to Router.errors
	Fail bool
}

func (w *Writer) SetResponse(code codes.Code, cf message.MediaType, d io.ReadSeeker, opts ...message.Option) error {
	if code == codes.NotFound {
		w.S.chain = append(w.S.chain, "=notfound")
		w.S.hits = append(w.S.hits, hit{h: "notfound", isDefault: true, path: w.Req.RouteParams.Path,
			tpl: w.Req.RouteParams.PathTemplate, vars: copyVars(w.Req.RouteParams.Vars)})
	}
	if w.Fail {
		return errors.New("response writer refuses")
	}
	if w.Inner != nil {
		return w.Inner.SetResponse(code, cf, d, opts...)
	}
	return nil
}

func (w *Writer) Conn() mux.Conn { return nil }

func (w *Writer) SetMessage(m *pool.Message) {
	if w.Inner != nil {
		w.Inner.SetMessage(m)
	}
}

func (w *Writer) Message() *pool.Message {
	if w.Inner != nil {
		return w.Inner.Message()
	}
	return nil
}

// Handler is the mux.Handler to install in front of the router (through mux.ToHandler or options.WithMux): it swaps the
// writer for a recording one and calls the router of the state current() returns at that moment.
func Handler(current func() *State) mux.Handler {
	return mux.HandlerFunc(func(w mux.ResponseWriter, r *mux.Message) {
		s := current()
		defer func() {
			if p := recover(); p != nil {
				s.panick = PanicKind(p)
			}
		}()
		s.R.ServeCOAP(&Writer{S: s, Req: r, Inner: w}, r)
	})
}

func copyVars(m map[string]string) map[string]string {
	out := map[string]string{}
	for k, v := range m {
		out[k] = v
	}
	return out
}

func (s *State) handler(name, pattern string, isDefault bool) func(w mux.ResponseWriter, r *mux.Message) {
	return func(_ mux.ResponseWriter, r *mux.Message) {
		s.chain = append(s.chain, "="+name)
		s.hits = append(s.hits, hit{h: name, pattern: pattern, isDefault: isDefault, path: r.RouteParams.Path,
			tpl: r.RouteParams.PathTemplate, vars: copyVars(r.RouteParams.Vars)})
	}
}

func ErrKind(err error) string {
	var se *syntax.Error
	switch {
	case err == nil:
		return "ok"
	case errors.As(err, &se):
		return "err regex"
	case err.Error() == "nil handler":
		return "err nilhandler"
	case strings.HasPrefix(err.Error(), "mux: unbalanced braces"):
		return "err unbalanced"
	case strings.HasPrefix(err.Error(), "mux: missing name or pattern"):
		return "err missing"
	case err.Error() == "pattern is not registered in":
		return "err notregistered"
	}
	return "err other:" + strings.ReplaceAll(err.Error(), " ", "_")
}

func PanicKind(r any) string {
	msg := fmt.Sprint(r)
	switch {
	case strings.Contains(msg, "contains capture groups"):
		return "panic capture"
	case strings.Contains(msg, "cannot handle pattern"):
		return "panic handlefunc"
	case strings.Contains(msg, "nil pointer dereference"):
		return "panic nilfunc"
	case strings.Contains(msg, "slice bounds out of range"):
		return "panic slice"
	case strings.Contains(msg, "index out of range"):
		return "panic index"
	}
	return "panic other:" + strings.ReplaceAll(msg, " ", "_")
}

func FmtVars(m map[string]string) string {
	if len(m) == 0 {
		return "-"
	}
	parts := make([]string, 0, len(m))
	for k, v := range m {
		parts = append(parts, lp.Hex([]byte(k))+":"+lp.Hex([]byte(v)))
	}
	sort.Strings(parts)
	return strings.Join(parts, ",")
}

func normPattern(p string) string {
	if p == "" {
		return "/"
	}
	return p
}

// Arg decodes the hex field i.
func Arg(f []string, i int) string {
	b, err := lp.ParseHex(f[i])
	if err != nil {
		panic("bad hex")
	}
	return string(b)
}

// SetPathExact replaces the Uri-Path options of msg so that Options().Path() yields exactly path ("" = no option at all,
// else it must start with "/": one option per segment, empty segments included).
func SetPathExact(msg *pool.Message, path string) {
	msg.Remove(message.URIPath)
	if path == "" {
		return
	}
	for _, seg := range strings.Split(path[1:], "/") {
		msg.AddOptionBytes(message.URIPath, []byte(seg))
	}
}

// Register executes route / routef / unroute / default / defaultf / mw on the state's router and prints the answer.
// It reports false when the line is none of these.
func (s *State) Register(f []string, w *bufio.Writer) bool {
	switch {
	case f[0] == "route" && len(f) == 3:
		p := Arg(f, 1)
		var h mux.Handler
		if f[2] != "nil" {
			h = mux.HandlerFunc(s.handler(f[2], normPattern(p), false))
		}
		fmt.Fprintln(w, ErrKind(s.R.Handle(p, h)))
	case f[0] == "routef" && len(f) == 3:
		p := Arg(f, 1)
		var fn func(w mux.ResponseWriter, r *mux.Message)
		if f[2] != "nil" {
			fn = s.handler(f[2], normPattern(p), false)
		}
		s.R.HandleFunc(p, fn)
		fmt.Fprintln(w, "ok")
	case f[0] == "unroute" && len(f) == 2:
		fmt.Fprintln(w, ErrKind(s.R.HandleRemove(Arg(f, 1))))
	case f[0] == "default" && len(f) == 2:
		var h mux.Handler
		if f[1] != "nil" {
			h = mux.HandlerFunc(s.handler(f[1], "", true))
		}
		s.R.DefaultHandle(h)
		fmt.Fprintln(w, "ok")
	case f[0] == "defaultf" && len(f) == 2:
		var fn func(w mux.ResponseWriter, r *mux.Message)
		if f[1] != "nil" {
			fn = s.handler(f[1], "", true)
		}
		s.R.DefaultHandleFunc(fn)
		fmt.Fprintln(w, "ok")
	case f[0] == "mw" && len(f) == 2:
		s.R.Use(s.mw(f[1]))
		fmt.Fprintln(w, "ok")
	case f[0] == "churn" && len(f) == 4:
		// a long run in one line: <n> modifications of the route table, the i-th (from 0) being Handle(<prefix><i/2>, h) for
		// even i and HandleRemove(<prefix><i/2>) for odd i - resources that come and go.  `ok <n>`, or the first answer that
		// is not ok: `bad <i> <answer>` (the run stops there)
		n, err := strconv.Atoi(f[1])
		if err != nil || n < 0 || n > 1<<26 {
			return false
		}
		prefix := Arg(f, 2)
		for i := 0; i < n; i++ {
			p := prefix + strconv.Itoa(i/2)
			var ans string
			func() {
				defer func() {
					if r := recover(); r != nil {
						ans = PanicKind(r)
					}
				}()
				if i%2 == 0 {
					ans = ErrKind(s.R.Handle(p, mux.HandlerFunc(s.handler(f[3], normPattern(p), false))))
				} else {
					ans = ErrKind(s.R.HandleRemove(p))
				}
			}()
			if ans != "ok" {
				fmt.Fprintf(w, "bad %d %s\n", i, ans)
				return true
			}
		}
		fmt.Fprintf(w, "ok %d\n", n)
	case f[0] == "inner" && len(f) >= 3 && f[1] != "inner" && f[1] != "mount":
		// a registration operation on the inner router
		s.R, s.Inner = s.Inner, s.R
		defer func() { s.R, s.Inner = s.Inner, s.R }()
		return s.Register(f[1:], w)
	case f[0] == "mount" && len(f) == 3:
		// a route of the outer router whose handler strips the path down to the value of one of its variables and hands
		// the SAME message to the inner router (chain: >v … <v)
		p, v, tag := Arg(f, 1), Arg(f, 2), f[2]
		h := mux.HandlerFunc(func(w mux.ResponseWriter, r *mux.Message) {
			s.chain = append(s.chain, ">"+tag)
			SetPathExact(r.Message, "/"+r.RouteParams.Vars[v])
			s.Inner.ServeCOAP(w, r)
			s.chain = append(s.chain, "<"+tag)
		})
		fmt.Fprintln(w, ErrKind(s.R.Handle(p, h)))
	case f[0] == "seterr" && len(f) == 2:
		name := f[1]
		s.R.SetErrorHandler(func(error) { s.errs = append(s.errs, name) })
		fmt.Fprintln(w, "ok")
	case f[0] == "usev" && len(f) == 3:
		// Use(caller...) with a slice the application owns and that has <spare> unused elements of capacity
		spare, err := strconv.Atoi(f[1])
		if err != nil || spare < 0 || spare > 64 {
			return false
		}
		names := strings.Split(f[2], ",")
		s.caller = make([]mux.MiddlewareFunc, 0, len(names)+spare)
		for _, n := range names {
			s.caller = append(s.caller, s.mw(n))
		}
		s.R.Use(s.caller...)
		fmt.Fprintln(w, "ok")
	case f[0] == "callerappend" && len(f) == 2:
		// the application appends to ITS slice (as a second router's Use(caller...), Use(x) would do inside the shared array)
		if s.caller != nil {
			_ = append(s.caller, s.mw(f[1]))
			sib := New()
			sib.R.Use(s.caller...)
			sib.R.Use(sib.mw(f[1] + "'"))
		}
		fmt.Fprintln(w, "ok")
	case f[0] == "callerset" && len(f) == 3:
		// the application overwrites an element of ITS slice
		i, err := strconv.Atoi(f[1])
		if err != nil {
			return false
		}
		if i >= 0 && i < len(s.caller) {
			s.caller[i] = s.mw(f[2])
		}
		fmt.Fprintln(w, "ok")
	default:
		return false
	}
	return true
}

// mw is a recording middleware: logs its name on the way in and on the way out.
func (s *State) mw(name string) mux.MiddlewareFunc {
	return func(next mux.Handler) mux.Handler {
		return mux.HandlerFunc(func(w mux.ResponseWriter, r *mux.Message) {
			s.chain = append(s.chain, "+"+name)
			next.ServeCOAP(w, r)
			s.chain = append(s.chain, "-"+name)
		})
	}
}

// Begin clears the record before a dispatch.
func (s *State) Begin() { s.chain, s.hits, s.panick, s.errs = nil, nil, "", nil }

// Errs names the error handlers called since Begin ("-" = none).
func (s *State) Errs() string {
	if len(s.errs) == 0 {
		return "-"
	}
	return strings.Join(s.errs, ",")
}

// RouteFields describes a route obtained from GetRoute / GetRoutes: `<pattern> <handler> <regexp>` (hex, name, hex). The
// package only exports GetRouteRegexp, so the route's own pattern and handler are read from its unexported fields (the
// route is a copy the accessor handed out); which recording handler it holds is found out by invoking it.
func (s *State) RouteFields(rt *mux.Route) string {
	v := reflect.ValueOf(rt).Elem()
	pf := v.FieldByName("pattern")
	hf := v.FieldByName("h")
	pattern := reflect.NewAt(pf.Type(), unsafe.Pointer(pf.UnsafeAddr())).Elem().Interface().(string)
	h, _ := reflect.NewAt(hf.Type(), unsafe.Pointer(hf.UnsafeAddr())).Elem().Interface().(mux.Handler)
	name := "nilhandler"
	if h != nil {
		saved := *s
		s.Begin()
		func() {
			defer func() {
				if recover() != nil {
					name = "nilf"
				}
			}()
			req := &mux.Message{RouteParams: new(mux.RouteParams)}
			h.ServeCOAP(&Writer{S: s, Req: req}, req)
			if len(s.hits) == 1 {
				name = s.hits[0].h
			} else {
				name = fmt.Sprintf("ran%d", len(s.hits))
			}
		}()
		s.chain, s.hits, s.panick, s.errs = saved.chain, saved.hits, saved.panick, saved.errs
	}
	rx, err := rt.GetRouteRegexp()
	rxs := lp.Hex([]byte(rx))
	if err != nil {
		rxs = "!" + strings.ReplaceAll(err.Error(), " ", "_")
	}
	return fmt.Sprintf("%s %s %s", lp.Hex([]byte(pattern)), name, rxs)
}

// Routes is the canonical report of GetRoutes: `routes <n> <key>/<pattern>/<handler>/<regexp>,…` sorted. The returned map is
// the caller's (a clone): it is emptied afterwards, which must not reach the router.
func (s *State) Routes() string {
	m := s.R.GetRoutes()
	if len(m) == 0 {
		return "routes 0 -"
	}
	es := make([]string, 0, len(m))
	for k, rt := range m {
		rt := rt
		es = append(es, lp.Hex([]byte(k))+"/"+strings.ReplaceAll(s.RouteFields(&rt), " ", "/"))
	}
	sort.Strings(es)
	n := len(m)
	for k := range m {
		delete(m, k)
	}
	return fmt.Sprintf("routes %d %s", n, strings.Join(es, ","))
}

// Report is the canonical line for what ran since Begin: `none`, `hit <h> <pattern|*> <vars> <chain> <path> <template>`,
// or a diagnostic when more than one handler ran.
func (s *State) Report() string {
	if s.panick != "" {
		return s.panick
	}
	switch len(s.hits) {
	case 0:
		if len(s.chain) != 0 {
			return "chain-without-handler " + strings.Join(s.chain, ",")
		}
		return "none"
	case 1:
		h := s.hits[0]
		pat := "*"
		if !h.isDefault {
			pat = lp.Hex([]byte(h.pattern))
		}
		return fmt.Sprintf("hit %s %s %s %s %s %s", h.h, pat, FmtVars(h.vars), strings.Join(s.chain, ","),
			lp.Hex([]byte(h.path)), lp.Hex([]byte(h.tpl)))
	}
	return fmt.Sprintf("multi %d %s", len(s.hits), strings.Join(s.chain, ","))
}
