// Package c17race is the concurrency evidence for property C17: goroutines register, replace and remove routes and
// swap the default handler of one real mux.Router while others dispatch requests. Built with -race by checks/c17.py.
//
// Input ($VERIF_IN): lines `race <seed> <milliseconds> <dispatchers>` (output `ok serves=N mutations=M` or `bad <what>`,
// first inconsistency seen) and `writers <seed> <rounds> <writers>` (concurrent writers on disjoint patterns, see
// runWriters; output `ok rounds=R operations=N` or `bad lost-update <what>`). A data race makes the race detector print its report and fail the test.
//
// Requests go through mux.ToHandler (the adapter the servers use). What a handler checks when it is invoked (with an in-harness reference matcher that knows nothing of regexps):
//   - the pattern it was registered under matches the ENTIRE path of the request it received;
//   - the variables it got are the corresponding path segments;
//   - no permanently registered pattern that matches the path is longer;
//
// and the default handler checks that no permanently registered pattern matches the path. Exactly one handler must
// have run per ServeCOAP.
package c17race

import (
	"bufio"
	"context"
	"fmt"
	"io"
	"math/rand"
	"strconv"
	"strings"
	"sync"
	"sync/atomic"
	"testing"
	"time"

	"github.com/plgd-dev/go-coap/v3/message"
	"github.com/plgd-dev/go-coap/v3/message/codes"
	"github.com/plgd-dev/go-coap/v3/message/pool"
	"github.com/plgd-dev/go-coap/v3/mux"
	"github.com/plgd-dev/go-coap/v3/net/responsewriter"
	udpClient "github.com/plgd-dev/go-coap/v3/udp/client"
	"verifharness/internal/lp"
)

// refMatch: templates of this harness are "/"-separated segments, each a literal, `{name}` or `{name:[0-9]+}`.
func refMatch(pattern, path string) (map[string]string, bool) {
	ps := strings.Split(pattern, "/")
	xs := strings.Split(path, "/")
	if len(ps) != len(xs) {
		return nil, false
	}
	vars := map[string]string{}
	for i, p := range ps {
		x := xs[i]
		switch {
		case strings.HasPrefix(p, "{") && strings.HasSuffix(p, ":[0-9]+}"):
			if x == "" || strings.Trim(x, "0123456789") != "" {
				return nil, false
			}
			vars[p[1:len(p)-len(":[0-9]+}")]] = x
		case strings.HasPrefix(p, "{") && strings.HasSuffix(p, "}"):
			if x == "" {
				return nil, false
			}
			vars[p[1:len(p)-1]] = x
		default:
			if p != x {
				return nil, false
			}
		}
	}
	return vars, true
}

var permanent = []string{"/a", "/a/b", "/a/{x}", "/s/{n:[0-9]+}"}

var volatile = []string{"/a/b/c", "/{x}/b", "/a/{n:[0-9]+}", "/{x}/{y}", "/a.b", "/s/{x}", "/{p}", "/s/12", "/a/{x}/c", "/"}

var paths = []string{"", "/", "/a", "/a/b", "/a/7", "/a/b/c", "/s/12", "/s/x", "/q/b", "/axb", "/a.b", "/zz", "/a/", "/a/q/c", "/s/12/", "//"}

type reqState struct {
	path  string
	calls int32
}

type nullWriter struct{ onNotFound func() }

func (w *nullWriter) SetResponse(code codes.Code, _ message.MediaType, _ io.ReadSeeker, _ ...message.Option) error {
	if code == codes.NotFound && w.onNotFound != nil {
		w.onNotFound()
	}
	return nil
}
func (w *nullWriter) Conn() mux.Conn           { return nil }
func (w *nullWriter) SetMessage(*pool.Message) {}
func (w *nullWriter) Message() *pool.Message   { return nil }

type ctxKey struct{}

func runRace(seed int64, d time.Duration, dispatchers int) string {
	r := mux.NewRouter()
	var bad atomic.Value
	report := func(format string, a ...any) {
		bad.CompareAndSwap(nil, fmt.Sprintf(format, a...))
	}
	var serves, mutations atomic.Int64
	mkHandler := func(pattern string) mux.Handler {
		return mux.HandlerFunc(func(_ mux.ResponseWriter, req *mux.Message) {
			rs := req.Context().Value(ctxKey{}).(*reqState)
			atomic.AddInt32(&rs.calls, 1)
			p := rs.path
			if p == "" {
				p = "/"
			}
			vars, ok := refMatch(pattern, p)
			if !ok {
				report("dispatched-to-non-matching-pattern pattern=%q path=%q", pattern, rs.path)
				return
			}
			if req.RouteParams.PathTemplate != pattern || req.RouteParams.Path != p {
				report("route-params pattern=%q path=%q got template=%q path=%q", pattern, rs.path, req.RouteParams.PathTemplate, req.RouteParams.Path)
			}
			if len(vars) != len(req.RouteParams.Vars) {
				report("vars pattern=%q path=%q got=%v", pattern, rs.path, req.RouteParams.Vars)
			}
			for k, v := range vars {
				if req.RouteParams.Vars[k] != v {
					report("vars pattern=%q path=%q got=%v want=%v", pattern, rs.path, req.RouteParams.Vars, vars)
				}
			}
			for _, q := range permanent {
				if _, m := refMatch(q, p); m && len(q) > len(pattern) {
					report("longer-matching-pattern-exists pattern=%q longer=%q path=%q", pattern, q, rs.path)
				}
			}
		})
	}
	mkDefault := func() mux.Handler {
		return mux.HandlerFunc(func(_ mux.ResponseWriter, req *mux.Message) {
			rs := req.Context().Value(ctxKey{}).(*reqState)
			atomic.AddInt32(&rs.calls, 1)
			p := rs.path
			if p == "" {
				p = "/"
			}
			for _, q := range permanent {
				if _, m := refMatch(q, p); m {
					report("default-although-a-route-matches pattern=%q path=%q", q, rs.path)
				}
			}
			if len(req.RouteParams.Vars) != 0 {
				report("variables-on-default path=%q got=%v", rs.path, req.RouteParams.Vars)
			}
		})
	}
	for _, p := range permanent {
		if err := r.Handle(p, mkHandler(p)); err != nil {
			return "bad setup " + err.Error()
		}
	}
	r.DefaultHandle(mkDefault())
	stop := make(chan struct{})
	var wg sync.WaitGroup
	// mutators
	for m := 0; m < 2; m++ {
		wg.Add(1)
		go func(m int) {
			defer wg.Done()
			rng := rand.New(rand.NewSource(seed*7919 + int64(m)))
			for {
				select {
				case <-stop:
					return
				default:
				}
				p := volatile[rng.Intn(len(volatile))]
				switch rng.Intn(5) {
				case 0, 1:
					if err := r.Handle(p, mkHandler(p)); err != nil {
						report("handle %q: %v", p, err)
					}
				case 2:
					_ = r.HandleRemove(p)
				case 3:
					r.DefaultHandle(mkDefault())
				case 4:
					r.HandleFunc(p, mkHandler(p).ServeCOAP)
				}
				mutations.Add(1)
			}
		}(m)
	}
	// readers of the route table
	wg.Add(1)
	go func() {
		defer wg.Done()
		for {
			select {
			case <-stop:
				return
			default:
			}
			_ = r.GetRoutes()
			_ = r.GetRoute(volatile[0])
		}
	}()
	// dispatchers
	pl := pool.New(0, 0)
	adapter := mux.ToHandler[*udpClient.Conn](r)
	for k := 0; k < dispatchers; k++ {
		wg.Add(1)
		go func(k int) {
			defer wg.Done()
			rng := rand.New(rand.NewSource(seed*104729 + int64(k)))
			for {
				select {
				case <-stop:
					return
				default:
				}
				path := paths[rng.Intn(len(paths))]
				rs := &reqState{path: path}
				msg := pl.AcquireMessage(context.WithValue(context.Background(), ctxKey{}, rs))
				msg.SetCode(codes.GET)
				if path != "" {
					for _, seg := range strings.Split(path[1:], "/") {
						msg.AddOptionBytes(message.URIPath, []byte(seg))
					}
				}
				// through the adapter the servers use (it builds the per-request mux.Message / RouteParams)
				adapter(responsewriter.New[*udpClient.Conn](pl.AcquireMessage(context.Background()), nil), msg)
				if c := atomic.LoadInt32(&rs.calls); c != 1 {
					report("handlers-invoked=%d path=%q", c, path)
				}
				serves.Add(1)
			}
		}(k)
	}
	time.Sleep(d)
	close(stop)
	wg.Wait()
	if b := bad.Load(); b != nil {
		return "bad " + strings.ReplaceAll(b.(string), " ", "_")
	}
	return fmt.Sprintf("ok serves=%d mutations=%d", serves.Load(), mutations.Load())
}

// runWriters: several goroutines register and remove routes CONCURRENTLY, each on its own patterns (`/w<k>/p<j>`), so the
// operations commute and the table after they joined is known: pattern registered iff the last successful operation of its
// owner on it was a Handle. Compared: every Handle/HandleRemove answer (a HandleRemove of a pattern its owner has registered
// must succeed), GetRoutes, and one dispatch per pattern (its handler iff registered, else the default handler).
func runWriters(seed int64, rounds, writers int) string {
	const perWriter = 4
	const ops = 24
	total := 0
	for round := 0; round < rounds; round++ {
		r := mux.NewRouter()
		var hitMu sync.Mutex
		hit := ""
		mk := func(p string) mux.Handler {
			return mux.HandlerFunc(func(mux.ResponseWriter, *mux.Message) { hitMu.Lock(); hit = p; hitMu.Unlock() })
		}
		r.DefaultHandle(mk("default"))
		expected := make([]map[string]bool, writers)
		problems := make([]string, writers)
		start := make(chan struct{})
		var wg sync.WaitGroup
		for k := 0; k < writers; k++ {
			expected[k] = map[string]bool{}
			wg.Add(1)
			go func(k int) {
				defer wg.Done()
				rng := rand.New(rand.NewSource(seed*1000003 + int64(round)*131 + int64(k)))
				<-start
				for j := 0; j < ops; j++ {
					p := fmt.Sprintf("/w%d/p%d", k, rng.Intn(perWriter))
					if rng.Intn(3) == 0 {
						err := r.HandleRemove(p)
						if (err == nil) != expected[k][p] && problems[k] == "" {
							problems[k] = fmt.Sprintf("HandleRemove(%q)=%v but its only writer had registered=%v", p, err, expected[k][p])
						}
						delete(expected[k], p)
					} else {
						if err := r.Handle(p, mk(p)); err != nil && problems[k] == "" {
							problems[k] = fmt.Sprintf("Handle(%q): %v", p, err)
						}
						expected[k][p] = true
					}
				}
			}(k)
		}
		close(start)
		wg.Wait()
		total += writers * ops
		for _, pr := range problems {
			if pr != "" {
				return "bad lost-update " + strings.ReplaceAll(fmt.Sprintf("round=%d %s", round, pr), " ", "_")
			}
		}
		routes := r.GetRoutes()
		adapter := mux.ToHandler[*udpClient.Conn](r)
		pl := pool.New(0, 0)
		for k := 0; k < writers; k++ {
			for j := 0; j < perWriter; j++ {
				p := fmt.Sprintf("/w%d/p%d", k, j)
				_, in := routes[p]
				if in != expected[k][p] {
					return "bad lost-update " + strings.ReplaceAll(fmt.Sprintf("round=%d pattern=%q registered-by-its-only-writer=%v in-GetRoutes=%v (writers=%d)", round, p, expected[k][p], in, writers), " ", "_")
				}
				msg := pl.AcquireMessage(context.Background())
				msg.SetCode(codes.GET)
				for _, seg := range strings.Split(p[1:], "/") {
					msg.AddOptionBytes(message.URIPath, []byte(seg))
				}
				hit = ""
				adapter(responsewriter.New[*udpClient.Conn](pl.AcquireMessage(context.Background()), nil), msg)
				want := "default"
				if expected[k][p] {
					want = p
				}
				if hit != want {
					return "bad lost-update " + strings.ReplaceAll(fmt.Sprintf("round=%d path=%q dispatched-to=%q want=%q", round, p, hit, want), " ", "_")
				}
			}
		}
	}
	return fmt.Sprintf("ok rounds=%d operations=%d", rounds, total)
}

func TestC17Race(t *testing.T) {
	err := lp.FileLoop(func(f []string, w *bufio.Writer) {
		if len(f) == 4 && f[0] == "writers" {
			seed, _ := strconv.ParseInt(f[1], 10, 64)
			rounds, _ := strconv.Atoi(f[2])
			n, _ := strconv.Atoi(f[3])
			fmt.Fprintln(w, runWriters(seed, rounds, n))
			return
		}
		if len(f) != 4 || f[0] != "race" {
			fmt.Fprintln(w, "bad-op")
			return
		}
		seed, _ := strconv.ParseInt(f[1], 10, 64)
		ms, _ := strconv.Atoi(f[2])
		n, _ := strconv.Atoi(f[3])
		fmt.Fprintln(w, runRace(seed, time.Duration(ms)*time.Millisecond, n))
	})
	if err != nil {
		t.Fatal(err)
	}
}
