// Package c17wire drives the C17 router over the REAL receive path: request bytes (built by an independent encoder in
// checks/c17.py) -> udp/tcp decoder -> real connection -> the handler installed by options.WithMux -> mux.Router.
//
// Input lines ($VERIF_IN): the registration operations of harness/c17 (reset, route, routef, unroute, default, defaultf,
// mw) and
//
//	wire <udp|tcp|tcpsrv> <code> <segments> <hex of the datagram / frame>
//
// (<code> and <segments> are for the model and the judge; this harness only uses the bytes). Every `wire` line gets a
// fresh connection inside a synctest bubble: udp = udp/client.Conn over an in-memory session, handler set by
// options.WithMux(h).UDPClientApply; tcp = tcp.Client over net.Pipe, options.WithMux(h).TCPClientApply; tcpsrv = a
// connection accepted by a real tcp.Server configured with options.WithMux(h) (TCPServerApply). Output: the same
// report as `serve` of harness/c17 (`none` when no handler ran), or `process-error`.
package c17wire

import (
	"bufio"
	"fmt"
	"testing"
	"testing/synctest"

	"github.com/plgd-dev/go-coap/v3/options"
	tcpclient "github.com/plgd-dev/go-coap/v3/tcp/client"
	udpclient "github.com/plgd-dev/go-coap/v3/udp/client"
	"verifharness/c17core"
	"verifharness/internal/lp"
	"verifharness/internal/mem"
)

func wireOnce(t *testing.T, st *c17core.State, transport string, data []byte) (line string) {
	h := c17core.Handler(func() *c17core.State { return st })
	synctest.Test(t, func(t *testing.T) {
		defer func() {
			if r := recover(); r != nil {
				line = c17core.PanicKind(r)
			}
		}()
		st.Begin()
		switch transport {
		case "udp":
			cc, _ := mem.NewUDPConn(mem.UDPOpts{Mutate: func(cfg *udpclient.Config) {
				options.WithMux(h).UDPClientApply(cfg)
			}})
			err := cc.Process(nil, data)
			synctest.Wait()
			line = st.Report()
			if err != nil {
				line = "process-error " + line
			}
			_ = cc.Close()
			synctest.Wait()
		case "tcp":
			cc, peer, err := mem.NewTCPConn(mem.TCPOpts{Mutate: func(cfg *tcpclient.Config) {
				options.WithMux(h).TCPClientApply(cfg)
			}})
			if err != nil {
				line = "conn-error"
				return
			}
			synctest.Wait()
			werr := peer.Write(data)
			synctest.Wait()
			line = st.Report()
			if werr != nil {
				line = "process-error " + line
			}
			_ = cc.Close()
			peer.Close()
			synctest.Wait()
		case "tcpsrv":
			cc, peer, stop, err := mem.NewTCPConnViaServer("peer", options.WithMux(h))
			if err != nil {
				line = "conn-error"
				return
			}
			synctest.Wait()
			werr := peer.Write(data)
			synctest.Wait()
			line = st.Report()
			if werr != nil {
				line = "process-error " + line
			}
			_ = cc.Close()
			stop()
			synctest.Wait()
		default:
			line = "bad-op"
		}
	})
	return line
}

func TestC17Wire(t *testing.T) {
	st := c17core.New()
	err := lp.FileLoop(func(f []string, w *bufio.Writer) {
		defer func() {
			if r := recover(); r != nil {
				fmt.Fprintln(w, c17core.PanicKind(r))
			}
		}()
		if len(f) == 0 {
			fmt.Fprintln(w, "bad-op")
			return
		}
		switch {
		case f[0] == "reset" && len(f) == 1:
			st = c17core.New()
			fmt.Fprintln(w, "ok")
		case st.Register(f, w):
		case f[0] == "wire" && len(f) == 5:
			data, err := lp.ParseHex(f[4])
			if err != nil {
				fmt.Fprintln(w, "bad-op")
				return
			}
			fmt.Fprintln(w, wireOnce(t, st, f[1], data))
		default:
			fmt.Fprintln(w, "bad-op")
		}
	})
	if err != nil {
		t.Fatal(err)
	}
}
