// Package c17wire drives the C17 router over the REAL receive path: request bytes (built by an independent encoder in
// checks/c17.py) -> udp/tcp decoder -> real connection -> the handler installed by options.WithMux -> mux.Router.
//
// Input lines ($VERIF_IN): the registration operations of harness/c17 (reset, route, routef, unroute, default, defaultf,
// mw) and
//
//	wire <udp|tcp|tcpsrv|udpsrv>[+obsfail:<token>|+discfail:<token>] <code> <segments> <hex of the datagram / frame>
//
// (<code> and <segments> are for the model and the judge; this harness only uses the bytes). Every `wire` line gets a
// fresh connection inside a synctest bubble: udp = udp/client.Conn over an in-memory session, handler set by
// options.WithMux(h).UDPClientApply; tcp = tcp.Client over net.Pipe, options.WithMux(h).TCPClientApply; tcpsrv = a
// connection accepted by a real tcp.Server configured with options.WithMux(h) (TCPServerApply). Output: the same
// report as `serve` of harness/c17 (`none` when no handler ran), or `process-error`. udpsrv = a real udp.Server
// (options.WithMux(h): UDPServerApply) on a loopback socket, the datagram sent from a plain UDP socket, followed by a
// sentinel datagram: the per-peer connection handles its messages one after another, so when the sentinel arrives the
// request has been dealt with.
//
// Preambles (the request carries the same token): +obsfail = before the request arrives the application calls
// DoObserve on the connection under that token against the silent peer and the registration ends by its deadline;
// +discfail (udpsrv) = the application starts Server.DiscoveryRequest under that token with a context that is already
// done, so the datagram cannot be written. Either way the exchange has FAILED and returned an error; a later request
// with that token is an ordinary request for the router.
package c17wire

import (
	"bufio"
	"bytes"
	"context"
	"fmt"
	"net"
	"strings"
	"testing"
	"testing/synctest"
	"time"

	"github.com/plgd-dev/go-coap/v3/message"
	"github.com/plgd-dev/go-coap/v3/message/pool"
	"github.com/plgd-dev/go-coap/v3/mux"
	coapNet "github.com/plgd-dev/go-coap/v3/net"
	coapclient "github.com/plgd-dev/go-coap/v3/net/client"
	"github.com/plgd-dev/go-coap/v3/options"
	tcpclient "github.com/plgd-dev/go-coap/v3/tcp/client"
	"github.com/plgd-dev/go-coap/v3/udp"
	udpclient "github.com/plgd-dev/go-coap/v3/udp/client"
	"verifharness/c17core"
	"verifharness/internal/lp"
	"verifharness/internal/mem"
)

// observer is what the connection types have in common for the +obsfail preamble.
type observer interface {
	NewObserveRequest(ctx context.Context, path string, opts ...message.Option) (*pool.Message, error)
	DoObserve(req *pool.Message, observeFunc func(req *pool.Message)) (coapclient.Observation, error)
}

// failedObserve registers an observation under the token that times out (the peer never answers). Reports whether the
// registration really failed.
func failedObserve(cc observer, token []byte, udp bool) bool {
	ctx, cancel := context.WithTimeout(context.Background(), 2*time.Second)
	defer cancel()
	req, err := cc.NewObserveRequest(ctx, "/obs")
	if err != nil {
		return false
	}
	req.SetToken(token)
	if udp {
		req.SetType(message.NonConfirmable) // no wait for an ACK: the registration waits for the first notification
	}
	_, err = cc.DoObserve(req, func(*pool.Message) {})
	return err != nil
}

var sentinelToken = message.Token{0x5e, 0x17, 0x17, 0xe1, 0x00, 0x01}

func wireUDPServer(st *c17core.State, pre string, token []byte, data []byte) string {
	inner := c17core.Handler(func() *c17core.State { return st })
	sentinel := make(chan struct{}, 1)
	h := mux.HandlerFunc(func(w mux.ResponseWriter, r *mux.Message) {
		if bytes.Equal(r.Token(), sentinelToken) {
			select {
			case sentinel <- struct{}{}:
			default:
			}
			return
		}
		inner.ServeCOAP(w, r)
	})
	l, err := coapNet.NewListenUDP("udp4", "127.0.0.1:0")
	if err != nil {
		return "conn-error"
	}
	defer func() { _ = l.Close() }()
	s := udp.NewServer(options.WithMux(h), options.WithErrors(func(error) {}))
	served := make(chan struct{})
	go func() { _ = s.Serve(l); close(served) }()
	defer func() { s.Stop(); <-served }()
	if pre == "discfail" {
		ctx, cancel := context.WithCancel(context.Background())
		cancel()
		dreq := pool.NewMessage(ctx)
		if err := dreq.SetupGet("/oic/res", token); err != nil {
			return "bad-op"
		}
		dreq.SetMessageID(message.GetMID())
		dreq.SetType(message.NonConfirmable)
		// Serve must have taken the listener before a discovery can be started
		var derr error
		for i := 0; i < 200; i++ {
			derr = s.DiscoveryRequest(dreq, "127.0.0.1:5683", func(*udpclient.Conn, *pool.Message) {})
			if derr == nil || !strings.Contains(derr.Error(), "doesn't serve connection") {
				break
			}
			time.Sleep(time.Millisecond)
		}
		if derr == nil || strings.Contains(derr.Error(), "doesn't serve connection") {
			return "preamble-did-not-fail"
		}
	}
	c, err := net.Dial("udp4", l.LocalAddr().String())
	if err != nil {
		return "conn-error"
	}
	defer func() { _ = c.Close() }()
	st.Begin()
	if _, err := c.Write(data); err != nil {
		return "process-error"
	}
	// sentinel: NON GET with the sentinel token and no options
	sd := append([]byte{0x50 | byte(len(sentinelToken)), 0x01, 0x7f, 0x01}, sentinelToken...)
	for attempt := 0; attempt < 20; attempt++ {
		sd[3] = byte(attempt + 1)
		if _, err := c.Write(sd); err != nil {
			return "process-error"
		}
		select {
		case <-sentinel:
			return st.Report()
		case <-time.After(100 * time.Millisecond):
		}
	}
	return "sentinel-lost " + st.Report()
}

func wireOnce(t *testing.T, st *c17core.State, transport string, data []byte) (line string) {
	h := c17core.Handler(func() *c17core.State { return st })
	pre, token := "", []byte(nil)
	if i := strings.IndexByte(transport, '+'); i >= 0 {
		p := strings.SplitN(transport[i+1:], ":", 2)
		transport = transport[:i]
		if len(p) != 2 {
			return "bad-op"
		}
		tok, err := lp.ParseHex(p[1])
		if err != nil || len(tok) == 0 {
			return "bad-op"
		}
		pre, token = p[0], tok
	}
	if transport == "udpsrv" {
		if pre != "" && pre != "discfail" {
			return "bad-op"
		}
		return wireUDPServer(st, pre, token, data)
	}
	if pre != "" && pre != "obsfail" {
		return "bad-op"
	}
	synctest.Test(t, func(t *testing.T) {
		defer func() {
			if r := recover(); r != nil {
				line = c17core.PanicKind(r)
			}
		}()
		st.Begin()
		switch transport {
		case "udp":
			cc, _ := mem.NewUDPConn(mem.UDPOpts{Mutate: func(cfg *udpclient.Config) {
				options.WithMux(h).UDPClientApply(cfg)
			}})
			if pre == "obsfail" && !failedObserve(cc, token, true) {
				line = "preamble-did-not-fail"
				return
			}
			st.Begin()
			err := cc.Process(nil, data)
			synctest.Wait()
			line = st.Report()
			if err != nil {
				line = "process-error " + line
			}
			_ = cc.Close()
			synctest.Wait()
		case "tcp":
			cc, peer, err := mem.NewTCPConn(mem.TCPOpts{Mutate: func(cfg *tcpclient.Config) {
				options.WithMux(h).TCPClientApply(cfg)
			}})
			if err != nil {
				line = "conn-error"
				return
			}
			synctest.Wait()
			if pre == "obsfail" && !failedObserve(cc, token, false) {
				line = "preamble-did-not-fail"
				return
			}
			st.Begin()
			werr := peer.Write(data)
			synctest.Wait()
			line = st.Report()
			if werr != nil {
				line = "process-error " + line
			}
			_ = cc.Close()
			peer.Close()
			synctest.Wait()
		case "tcpsrv":
			cc, peer, stop, err := mem.NewTCPConnViaServer("peer", options.WithMux(h))
			if err != nil {
				line = "conn-error"
				return
			}
			synctest.Wait()
			if pre == "obsfail" && !failedObserve(cc, token, false) {
				line = "preamble-did-not-fail"
				return
			}
			st.Begin()
			werr := peer.Write(data)
			synctest.Wait()
			line = st.Report()
			if werr != nil {
				line = "process-error " + line
			}
			_ = cc.Close()
			stop()
			synctest.Wait()
		default:
			line = "bad-op"
		}
	})
	return line
}

func TestC17Wire(t *testing.T) {
	st := c17core.New()
	err := lp.FileLoop(func(f []string, w *bufio.Writer) {
		defer func() {
			if r := recover(); r != nil {
				fmt.Fprintln(w, c17core.PanicKind(r))
			}
		}()
		if len(f) == 0 {
			fmt.Fprintln(w, "bad-op")
			return
		}
		switch {
		case f[0] == "reset" && len(f) == 1:
			st = c17core.New()
			fmt.Fprintln(w, "ok")
		case st.Register(f, w):
		case f[0] == "wire" && len(f) == 5:
			data, err := lp.ParseHex(f[4])
			if err != nil {
				fmt.Fprintln(w, "bad-op")
				return
			}
			fmt.Fprintln(w, wireOnce(t, st, f[1], data))
		default:
			fmt.Fprintln(w, "bad-op")
		}
	})
	if err != nil {
		t.Fatal(err)
	}
}
