// Harness for C18. Each case starts with
//
//	cfg <unit|udp|tcp> <periodNs> <maxRetries|-> <t0>
//
// followed by recv <t> / pong <g> <t> / tick <t> lines (absolute virtual nanoseconds since the bubble started;
// t0 is always 0 in the bubble). `unit` drives the real inactivity.Monitor / KeepAlive objects with a fake
// connection; `udp` / `tcp` drive a real client.Conn configured through options.WithKeepAlive / WithInactivityMonitor
// over the in-memory transports: received messages are injected, ticks call Conn.CheckExpirations, pings are
// recognised on the wire and answered by `pong`.
package c18

import (
	"bufio"
	"context"
	"fmt"
	"strconv"
	"strings"
	"sync"
	"testing"
	"testing/synctest"
	"time"

	"github.com/plgd-dev/go-coap/v3/message"
	"github.com/plgd-dev/go-coap/v3/message/codes"
	"github.com/plgd-dev/go-coap/v3/message/pool"
	"github.com/plgd-dev/go-coap/v3/net/responsewriter"
	"github.com/plgd-dev/go-coap/v3/options"
	tcpclient "github.com/plgd-dev/go-coap/v3/tcp/client"
	tcpcoder "github.com/plgd-dev/go-coap/v3/tcp/coder"
	udpclient "github.com/plgd-dev/go-coap/v3/udp/client"
	udpcoder "github.com/plgd-dev/go-coap/v3/udp/coder"
	"verifharness/internal/lp"
	"verifharness/internal/mem"
)

type caseDef struct {
	noClose    bool // levels udpnc / tcpnc: the application's onInactive callback only takes note, it does not close the connection
	level      string
	period     time.Duration
	maxRetries int // -1 = plain inactivity monitor
	ops        [][]string
}

type logger struct {
	mu  sync.Mutex
	evs []string
}

func (l *logger) add(s string) { l.mu.Lock(); l.evs = append(l.evs, s); l.mu.Unlock() }
func (l *logger) take() string {
	l.mu.Lock()
	defer l.mu.Unlock()
	if len(l.evs) == 0 {
		return "none"
	}
	s := strings.Join(l.evs, " ; ")
	l.evs = nil
	return s
}

// slowRequest: a non-confirmable GET /slow whose Uri-Query says how long (ns) its handler takes; nothing is sent back.
func slowRequest(d int64, id int32, udp bool) *pool.Message {
	m := pool.NewMessage(context.Background())
	m.SetCode(codes.GET)
	m.SetToken(message.Token{0x7a, byte(id)})
	_ = m.SetPath("/slow")
	m.AddQuery(strconv.FormatInt(d, 10))
	if udp {
		m.SetType(message.NonConfirmable)
		m.SetMessageID(id)
	}
	return m
}

func slowFor(r *pool.Message) {
	if p, _ := r.Path(); p != "/slow" {
		return
	}
	qs, _ := r.Queries()
	if len(qs) == 1 {
		if d, err := strconv.ParseInt(qs[0], 10, 64); err == nil {
			time.Sleep(time.Duration(d))
		}
	}
}

func slowHandlerUDP(_ *responsewriter.ResponseWriter[*udpclient.Conn], r *pool.Message) { slowFor(r) }
func slowHandlerTCP(_ *responsewriter.ResponseWriter[*tcpclient.Conn], r *pool.Message) { slowFor(r) }

// rle summarises the per-tick observations of a bulk `ticks <n> <t0> <dt>` operation (n housekeeping ticks at t0, t0+dt, …
// with a silent peer in between) as run lengths: `rle c0 3*none 65535*ping 1*close 2*none`.  The class of a tick is what
// was observed at it (ping numbers dropped), several events joined with `+`.
type rle struct {
	parts []string
	cur   string
	n     int
}

func (r *rle) add(obs string, times int) {
	var keep []string
	if obs != "none" {
		for _, p := range strings.Split(obs, " ; ") {
			switch {
			case strings.HasPrefix(p, "ping "):
				keep = append(keep, "ping")
			default:
				keep = append(keep, strings.ReplaceAll(p, " ", "_"))
			}
		}
	}
	cl := "none"
	if len(keep) > 0 {
		cl = strings.Join(keep, "+")
	}
	if cl != r.cur && r.n > 0 {
		r.parts = append(r.parts, fmt.Sprintf("%d*%s", r.n, r.cur))
		r.n = 0
	}
	r.cur = cl
	r.n += times
}

func (r *rle) String() string {
	if r.n > 0 {
		r.parts = append(r.parts, fmt.Sprintf("%d*%s", r.n, r.cur))
		r.n = 0
	}
	return "rle c0 " + strings.Join(r.parts, " ")
}

// bulkTicks runs the n ticks of a `ticks <n> <t0> <dt>` line: tick(j) performs the j-th tick and returns what was observed.
func bulkTicks(f []string, closed *bool, tick func(at int64) string) string {
	n, _ := strconv.Atoi(f[1])
	t0, _ := strconv.ParseInt(f[2], 10, 64)
	dt, _ := strconv.ParseInt(f[3], 10, 64)
	r := &rle{}
	for j := 0; j < n; j++ {
		if *closed {
			r.add("none", n-j)
			break
		}
		r.add(tick(t0+int64(j)*dt), 1)
	}
	return r.String()
}

func sleepTo(start time.Time, t int64) {
	if d := time.Duration(t) - time.Since(start); d > 0 {
		time.Sleep(d)
	}
}

// ---- connection level

// pingLog recognises keep-alive pings among what the connection wrote and numbers them 1, 2, …
type pingLog struct {
	n    int
	mids map[int]int32  // udp: generation -> message ID
	toks map[int][]byte // tcp: generation -> token
}

func runConnUDP(t *testing.T, c caseDef) []string {
	out := make([]string, len(c.ops))
	synctest.Test(t, func(t *testing.T) {
		start := time.Now()
		log := &logger{}
		closed := false
		var main *udpclient.Conn
		onInactive := func(cc *udpclient.Conn) {
			if cc != main { // the shadow connection (see below)
				_ = cc.Close()
				return
			}
			closed = true
			log.add("close")
			if c.noClose {
				// the keep-alive has given up and the connection stays open: nothing of its last ping may be left behind
				if sz := cc.VerifSizes(); sz.Mid != 0 || sz.Token != 0 {
					log.add(fmt.Sprintf("leak-pending-ping mid=%d token=%d", sz.Mid, sz.Token))
				}
				return
			}
			_ = cc.Close()
		}
		// the option is applied ONCE; every connection made from it asks its factory for a monitor, as a server does for
		// each peer.  A second, always silent connection from the same option is ticked along: monitors must not share state.
		var factory func() udpclient.InactivityMonitor
		cc, s := mem.NewUDPConn(mem.UDPOpts{Mutate: func(cfg *udpclient.Config) {
			cfg.Handler = slowHandlerUDP
			if c.maxRetries < 0 {
				options.WithInactivityMonitor(c.period, onInactive).UDPClientApply(cfg)
			} else {
				options.WithKeepAlive(uint32(c.maxRetries), c.period*time.Duration(c.maxRetries+1), onInactive).UDPClientApply(cfg)
			}
			factory = cfg.CreateInactivityMonitor
		}})
		main = cc
		if c.level == "udpreq" {
			// the application has a confirmable request outstanding that the (dead) peer never acknowledges: it holds the
			// only NSTART slot for as long as it is retransmitted.  The monitor must work all the same.
			rctx, rcancel := context.WithTimeout(context.Background(), time.Hour)
			defer rcancel()
			go func() {
				if r, err := cc.Get(rctx, "/never-answered"); err == nil {
					cc.ReleaseMessage(r)
				}
			}()
			synctest.Wait()
		}
		shadow, _ := mem.NewUDPConn(mem.UDPOpts{Mutate: func(cfg *udpclient.Config) { cfg.CreateInactivityMonitor = factory }})
		defer func() { _ = shadow.Close() }()
		pl := &pingLog{mids: map[int]int32{}}
		collect := func() {
			for _, d := range s.TakeSent() {
				m := pool.NewMessage(context.Background())
				if _, err := m.UnmarshalWithDecoder(udpcoder.DefaultCoder, d.Data); err != nil {
					log.add("undecodable")
					continue
				}
				if m.Code() == codes.Empty && m.Type() == message.Confirmable {
					seen := false
					for _, id := range pl.mids {
						seen = seen || id == m.MessageID()
					}
					if seen {
						continue // retransmission of a pending ping (message layer), not a new ping
					}
					pl.n++
					pl.mids[pl.n] = m.MessageID()
					delete(pl.mids, pl.n-64) // long runs: message IDs come round again after 65536 pings; only a recent ping can be pending
					log.add(fmt.Sprintf("ping %d", pl.n))
				}
			}
		}
		mid := int32(20000)
		inject := func(m *pool.Message) {
			b, err := m.MarshalWithEncoder(udpcoder.DefaultCoder)
			if err != nil {
				panic(err)
			}
			if err := cc.Process(nil, append([]byte(nil), b...)); err != nil {
				log.add("process-error:" + strings.ReplaceAll(err.Error(), " ", "_"))
			}
		}
		for i, f := range c.ops {
			if closed {
				out[i] = "none"
				if f[0] == "ticks" {
					out[i] = "rle c0 " + f[1] + "*none"
				}
				continue
			}
			if f[0] == "ticks" {
				// a long silent stretch: n housekeeping ticks in a row (the far end of the count of unanswered pings)
				out[i] = bulkTicks(f, &closed, func(at int64) string {
					func() {
						defer func() {
							if r := recover(); r != nil {
								log.add(fmt.Sprintf("panic %v", r))
							}
						}()
						sleepTo(start, at)
						shadow.CheckExpirations(time.Now())
						cc.CheckExpirations(time.Now())
					}()
					synctest.Wait()
					collect()
					return log.take()
				})
				continue
			}
			func() {
				defer func() {
					if r := recover(); r != nil {
						log.add(fmt.Sprintf("panic %v", r))
					}
				}()
				switch f[0] {
				case "recv":
					at, _ := strconv.ParseInt(f[1], 10, 64)
					sleepTo(start, at)
					mid++
					m := pool.NewMessage(context.Background())
					m.SetCode(codes.Content) // an unsolicited response: ends in the default handler, nothing is sent back
					m.SetType(message.NonConfirmable)
					m.SetMessageID(mid)
					m.SetToken(message.Token{0x77, byte(mid)})
					inject(m)
				case "recvk":
					at, _ := strconv.ParseInt(f[2], 10, 64)
					sleepTo(start, at)
					mid++
					m := pool.NewMessage(context.Background())
					m.SetMessageID(mid)
					switch f[1] {
					case "ping": // the peer's own CoAP ping: an empty confirmable message (answered with a reset)
						m.SetCode(codes.Empty)
						m.SetType(message.Confirmable)
					case "ack": // an empty acknowledgement that matches nothing pending
						m.SetCode(codes.Empty)
						m.SetType(message.Acknowledgement)
					case "rst":
						m.SetCode(codes.Empty)
						m.SetType(message.Reset)
					default:
						m.SetCode(codes.Content)
						m.SetType(message.NonConfirmable)
						m.SetToken(message.Token{0x78, byte(mid)})
					}
					inject(m)
				case "send":
					// the application pushes a non-confirmable message (a notification, say) to the peer
					at, _ := strconv.ParseInt(f[1], 10, 64)
					sleepTo(start, at)
					m := cc.AcquireMessage(context.Background())
					m.SetCode(codes.Content)
					m.SetType(message.NonConfirmable)
					m.SetToken(message.Token{0x5e, byte(i)})
					m.SetMessageID(cc.GetMessageID())
					if err := cc.WriteMessage(m); err != nil {
						log.add("send-error")
					}
					cc.ReleaseMessage(m)
				case "recvslow":
					at, _ := strconv.ParseInt(f[1], 10, 64)
					d, _ := strconv.ParseInt(f[2], 10, 64)
					sleepTo(start, at)
					mid++
					inject(slowRequest(d, mid, true))
				case "tickf":
					at, _ := strconv.ParseInt(f[1], 10, 64)
					sleepTo(start, at)
					s.WriteErr = fmt.Errorf("network is unreachable")
					cc.CheckExpirations(time.Now())
					s.WriteErr = nil
				case "pong":
					g, _ := strconv.Atoi(f[1])
					at, _ := strconv.ParseInt(f[2], 10, 64)
					sleepTo(start, at)
					m := pool.NewMessage(context.Background())
					m.SetCode(codes.Empty)
					m.SetType(message.Reset)
					if id, ok := pl.mids[g]; ok {
						m.SetMessageID(id)
					} else {
						m.SetMessageID(1) // answer to a ping that was never sent: just a message
					}
					inject(m)
				case "tick":
					at, _ := strconv.ParseInt(f[1], 10, 64)
					sleepTo(start, at)
					shadow.CheckExpirations(time.Now())
					cc.CheckExpirations(time.Now())
				}
			}()
			synctest.Wait()
			collect()
			out[i] = log.take()
		}
		_ = cc.Close()
		time.Sleep(time.Minute) // a slow handler may still be running (virtual time)
		synctest.Wait()
	})
	return out
}

func runConnTCP(t *testing.T, c caseDef) []string {
	out := make([]string, len(c.ops))
	synctest.Test(t, func(t *testing.T) {
		start := time.Now()
		log := &logger{}
		closed := false
		var main *tcpclient.Conn
		onInactive := func(cc *tcpclient.Conn) {
			if cc != main { // the shadow connection
				_ = cc.Close()
				return
			}
			closed = true
			log.add("close")
			if c.noClose {
				if sz := cc.VerifSizes(); sz.Token != 0 {
					log.add(fmt.Sprintf("leak-pending-ping token=%d", sz.Token))
				}
				return
			}
			_ = cc.Close()
		}
		var factory func() tcpclient.InactivityMonitor
		cc, peer, err := mem.NewTCPConn(mem.TCPOpts{Mutate: func(cfg *tcpclient.Config) {
			cfg.Handler = slowHandlerTCP
			if c.maxRetries < 0 {
				options.WithInactivityMonitor(c.period, onInactive).TCPClientApply(cfg)
			} else {
				options.WithKeepAlive(uint32(c.maxRetries), c.period*time.Duration(c.maxRetries+1), onInactive).TCPClientApply(cfg)
			}
			factory = cfg.CreateInactivityMonitor
		}})
		if err != nil {
			for i := range out {
				out[i] = "conn-error"
			}
			return
		}
		main = cc
		// a second, always silent connection made from the same option (see runConnUDP)
		shadow, shadowPeer, errS := mem.NewTCPConn(mem.TCPOpts{Mutate: func(cfg *tcpclient.Config) { cfg.CreateInactivityMonitor = factory }})
		if errS != nil {
			for i := range out {
				out[i] = "conn-error"
			}
			return
		}
		defer func() { _ = shadow.Close(); shadowPeer.Close() }()
		synctest.Wait()
		pl := &pingLog{toks: map[int][]byte{}}
		collect := func() {
			for _, fr := range peer.TakeFrames() {
				m := pool.NewMessage(context.Background())
				if _, err := m.UnmarshalWithDecoder(tcpcoder.DefaultCoder, fr); err != nil {
					log.add("undecodable")
					continue
				}
				if m.Code() == codes.Ping {
					pl.n++
					pl.toks[pl.n] = append([]byte(nil), m.Token()...)
					delete(pl.toks, pl.n-64)
					log.add(fmt.Sprintf("ping %d", pl.n))
				}
			}
		}
		collect() // drops the CSM
		log.take()
		send := func(m *pool.Message) {
			b, err := m.MarshalWithEncoder(tcpcoder.DefaultCoder)
			if err != nil {
				panic(err)
			}
			_ = peer.Write(append([]byte(nil), b...))
		}
		n := byte(0)
		trickling := false
		for i, f := range c.ops {
			if closed {
				out[i] = "none"
				if f[0] == "ticks" {
					out[i] = "rle c0 " + f[1] + "*none"
				}
				continue
			}
			if f[0] == "ticks" {
				// a long silent stretch: n housekeeping ticks in a row (the far end of the count of unanswered pings)
				out[i] = bulkTicks(f, &closed, func(at int64) string {
					func() {
						defer func() {
							if r := recover(); r != nil {
								log.add(fmt.Sprintf("panic %v", r))
							}
						}()
						sleepTo(start, at)
						shadow.CheckExpirations(time.Now())
						cc.CheckExpirations(time.Now())
					}()
					synctest.Wait()
					collect()
					return log.take()
				})
				continue
			}
			func() {
				defer func() {
					if r := recover(); r != nil {
						log.add(fmt.Sprintf("panic %v", r))
					}
				}()
				switch f[0] {
				case "recv":
					at, _ := strconv.ParseInt(f[1], 10, 64)
					sleepTo(start, at)
					n++
					m := pool.NewMessage(context.Background())
					m.SetCode(codes.Content)
					m.SetToken(message.Token{0x77, n})
					send(m)
				case "recvk":
					at, _ := strconv.ParseInt(f[2], 10, 64)
					sleepTo(start, at)
					n++
					m := pool.NewMessage(context.Background())
					m.SetToken(message.Token{0x78, n})
					switch f[1] {
					case "ping":
						m.SetCode(codes.Ping) // answered with a pong by the connection
					case "ack":
						m.SetCode(codes.Pong) // a pong nobody waits for
					case "rst":
						m.SetCode(codes.CSM)
					default:
						m.SetCode(codes.Content)
					}
					send(m)
				case "pong":
					g, _ := strconv.Atoi(f[1])
					at, _ := strconv.ParseInt(f[2], 10, 64)
					sleepTo(start, at)
					m := pool.NewMessage(context.Background())
					m.SetCode(codes.Pong)
					if tok, ok := pl.toks[g]; ok {
						m.SetToken(tok)
					} else {
						m.SetToken(message.Token{0x01})
					}
					send(m)
				case "recvslow":
					at, _ := strconv.ParseInt(f[1], 10, 64)
					d, _ := strconv.ParseInt(f[2], 10, 64)
					sleepTo(start, at)
					n++
					send(slowRequest(d, int32(n), false))
				case "send":
					at, _ := strconv.ParseInt(f[1], 10, 64)
					sleepTo(start, at)
					m := cc.AcquireMessage(context.Background())
					m.SetCode(codes.Content)
					m.SetToken(message.Token{0x5e, byte(i)})
					if err := cc.WriteMessage(m); err != nil {
						log.add("send-error")
					}
					cc.ReleaseMessage(m)
				case "trickle":
					// the peer sends the next byte(s) of ONE big frame that it never completes: bytes, but no message
					at, _ := strconv.ParseInt(f[1], 10, 64)
					sleepTo(start, at)
					if !trickling {
						trickling = true
						_ = peer.Write([]byte{0xd0, 0xff}) // Len nibble 13 (+255+13 bytes), TKL 0: header of a 270-byte frame
					} else {
						_ = peer.Write([]byte{0x00})
					}
				case "tick":
					at, _ := strconv.ParseInt(f[1], 10, 64)
					sleepTo(start, at)
					shadow.CheckExpirations(time.Now())
					cc.CheckExpirations(time.Now())
				}
			}()
			synctest.Wait()
			collect()
			out[i] = log.take()
		}
		_ = cc.Close()
		peer.Close()
		time.Sleep(time.Minute) // a slow handler may still be running (virtual time)
		synctest.Wait()
	})
	return out
}

func TestC18(t *testing.T) {
	var cur *caseDef
	flush := func(w *bufio.Writer) {
		if cur == nil {
			return
		}
		fmt.Fprintln(w, "ok")
		var res []string
		switch cur.level {
		case "unit":
			res = make([]string, len(cur.ops))
			for i := range res {
				res[i] = "unit-level cases run in harness/c18unit"
			}
		case "udp", "udpnc", "udpreq":
			lp.PoolTraceBegin()
			res = runConnUDP(t, *cur)
			lp.PoolTraceEnd(fmt.Sprintf("c18 udp %d-ops", len(cur.ops)))
		case "tcp", "tcpnc":
			lp.PoolTraceBegin()
			res = runConnTCP(t, *cur)
			lp.PoolTraceEnd(fmt.Sprintf("c18 tcp %d-ops", len(cur.ops)))
		case "tcpsrv":
			lp.PoolTraceBegin()
			res = runSrvTCP(t, *cur, false)
			lp.PoolTraceEnd(fmt.Sprintf("c18 tcpsrv %d-ops", len(cur.ops)))
		case "tcpsrvdef":
			res = runSrvTCP(t, *cur, true)
		case "dtlssrvdef":
			res = runSrvDTLS(t, *cur, true)
		case "dtlssrv":
			lp.PoolTraceBegin()
			res = runSrvDTLS(t, *cur, false)
			lp.PoolTraceEnd(fmt.Sprintf("c18 dtlssrv %d-ops", len(cur.ops)))
		}
		for _, l := range res {
			fmt.Fprintln(w, l)
		}
		cur = nil
	}
	err := lp.FileLoop(func(f []string, w *bufio.Writer) {
		switch {
		case len(f) == 5 && f[0] == "cfg":
			flush(w)
			p, _ := strconv.ParseInt(f[2], 10, 64)
			n := -1
			if f[3] != "-" {
				n, _ = strconv.Atoi(f[3])
			}
			cur = &caseDef{level: f[1], period: time.Duration(p), maxRetries: n, noClose: strings.HasSuffix(f[1], "nc")}
		case len(f) == 1 && f[0] == "end":
			flush(w)
			fmt.Fprintln(w, "end")
		case cur != nil && (f[0] == "recv" && len(f) == 2 || f[0] == "pong" && len(f) == 3 || f[0] == "tick" && len(f) == 2 ||
			f[0] == "tickf" && len(f) == 2 || f[0] == "recvk" && len(f) == 3 || f[0] == "trickle" && len(f) == 2 || f[0] == "send" && len(f) == 2 || f[0] == "recvslow" && len(f) == 3 || f[0] == "ticks" && len(f) == 4):
			cur.ops = append(cur.ops, f)
		default:
			flush(w)
			fmt.Fprintln(w, "bad-op")
		}
	})
	if err != nil {
		t.Fatal(err)
	}
}
