package c18

// pkg/connections: the table the tcp / dtls servers tick.  Every accepted connection is stored from its own goroutine
// (serveConnection) and deleted from it when it ends, so stores and deletes of different connections overlap.  Line
//
//	conns <seed> <rounds> <n>
//
// runs <rounds> rounds: n goroutines store one connection each at the same moment, then one tick must reach all n; then
// half of them delete theirs while n/2 new ones are stored, and a tick must reach exactly the remaining ones.
// Output: `ok rounds=R` or `bad round=.. ticked=.. want=..` (real goroutines, no virtual time).

import (
	"bufio"
	"context"
	"fmt"
	"math/rand"
	"net"
	"strconv"
	"sync"
	"sync/atomic"
	"testing"
	"time"

	"github.com/plgd-dev/go-coap/v3/pkg/connections"
	"verifharness/internal/lp"
)

type fakeConn struct {
	addr  srvAddr
	ticks atomic.Int32
}

func (c *fakeConn) Context() context.Context   { return context.Background() }
func (c *fakeConn) CheckExpirations(time.Time) { c.ticks.Add(1) }
func (c *fakeConn) Close() error               { return nil }
func (c *fakeConn) RemoteAddr() net.Addr       { return c.addr }

func runConns(seed int64, rounds, n int) string {
	rng := rand.New(rand.NewSource(seed))
	for r := 0; r < rounds; r++ {
		tbl := connections.New()
		first := make([]*fakeConn, n)
		for i := range first {
			first[i] = &fakeConn{addr: srvAddr(fmt.Sprintf("a%d-%d", r, i))}
		}
		start := make(chan struct{})
		var wg sync.WaitGroup
		for _, c := range first {
			wg.Add(1)
			go func(c *fakeConn) {
				defer wg.Done()
				<-start
				tbl.Store(c)
			}(c)
		}
		close(start)
		wg.Wait()
		tbl.CheckExpirations(time.Now())
		got := 0
		for _, c := range first {
			got += int(c.ticks.Load())
		}
		if got != n {
			return fmt.Sprintf("bad round=%d phase=store ticked=%d want=%d", r, got, n)
		}
		// half end, as many new ones arrive, all at once
		second := make([]*fakeConn, n/2)
		for i := range second {
			second[i] = &fakeConn{addr: srvAddr(fmt.Sprintf("b%d-%d", r, i))}
		}
		perm := rng.Perm(n)
		gone := map[int]bool{}
		for _, i := range perm[:n/2] {
			gone[i] = true
		}
		start2 := make(chan struct{})
		for i, c := range first {
			if gone[i] {
				wg.Add(1)
				go func(c *fakeConn) { defer wg.Done(); <-start2; tbl.Delete(c) }(c)
			}
		}
		for _, c := range second {
			wg.Add(1)
			go func(c *fakeConn) { defer wg.Done(); <-start2; tbl.Store(c) }(c)
		}
		close(start2)
		wg.Wait()
		tbl.CheckExpirations(time.Now())
		want, got2 := 0, 0
		for i, c := range first {
			t := int(c.ticks.Load()) - 1
			if gone[i] {
				if t != 0 {
					return fmt.Sprintf("bad round=%d phase=delete a deleted connection was ticked", r)
				}
			} else {
				want++
				got2 += t
			}
		}
		for _, c := range second {
			want++
			got2 += int(c.ticks.Load())
		}
		if got2 != want {
			return fmt.Sprintf("bad round=%d phase=mixed ticked=%d want=%d", r, got2, want)
		}
	}
	// stores that overlap a running tick: the housekeeping goroutine walks a table of many long-lived connections over and
	// over while new connections are accepted (each stored from its own goroutine); once everything is quiet, one more
	// tick must reach every connection of the table exactly once - in particular those stored while a tick was under way
	for r := 0; r < rounds; r++ {
		tbl := connections.New()
		old := make([]*fakeConn, 1500)
		for i := range old {
			old[i] = &fakeConn{addr: srvAddr(fmt.Sprintf("o%d-%d", r, i))}
			tbl.Store(old[i])
		}
		stop := make(chan struct{})
		tickerDone := make(chan struct{})
		go func() {
			defer close(tickerDone)
			for {
				select {
				case <-stop:
					return
				default:
					tbl.CheckExpirations(time.Now())
				}
			}
		}()
		fresh := make([]*fakeConn, 4*n)
		var wg sync.WaitGroup
		for i := range fresh {
			fresh[i] = &fakeConn{addr: srvAddr(fmt.Sprintf("f%d-%d", r, i))}
			wg.Add(1)
			spin := rng.Intn(20000)
			go func(c *fakeConn, spin int) {
				defer wg.Done()
				x := 0
				for k := 0; k < spin; k++ {
					x += k
				}
				_ = x
				tbl.Store(c)
			}(fresh[i], spin)
		}
		wg.Wait()
		close(stop)
		<-tickerDone
		before := make([]int32, len(fresh))
		for i, c := range fresh {
			before[i] = c.ticks.Load()
		}
		tbl.CheckExpirations(time.Now())
		missed := 0
		for i, c := range fresh {
			if c.ticks.Load()-before[i] != 1 {
				missed++
			}
		}
		if missed != 0 {
			return fmt.Sprintf("bad round=%d phase=store-during-tick connections not reached by the next tick=%d of %d", r, missed, len(fresh))
		}
	}
	return fmt.Sprintf("ok rounds=%d", rounds)
}

func TestC18Conns(t *testing.T) {
	err := lp.FileLoop(func(f []string, w *bufio.Writer) {
		if len(f) == 4 && f[0] == "conns" {
			seed, _ := strconv.ParseInt(f[1], 10, 64)
			rounds, _ := strconv.Atoi(f[2])
			n, _ := strconv.Atoi(f[3])
			fmt.Fprintln(w, runConns(seed, rounds, n))
			return
		}
		if len(f) == 3 && f[0] == "sweep" {
			nA, _ := strconv.Atoi(f[1])
			rounds, _ := strconv.Atoi(f[2])
			fmt.Fprintln(w, runSweep(nA, rounds))
			return
		}
		fmt.Fprintln(w, "bad-op")
	})
	if err != nil {
		t.Fatal(err)
	}
}
