package c18

// The client constructors and housekeeping: every connection made by udp.Dial / dtls.Dial / tcp.Dial registers with the
// configured periodic runner - whatever else is configured - a function that stays registered while the connection is
// open and asks to be dropped once it is closed.  Line
//
//	ctor <udp|dtls|tcp> <bw|nobw> <mon|nomon>
//
// Output: `registered R live L afterclose A` (R = functions registered by the constructor; L = the function's answer while
// the connection is open; A = its answer after Close).  Expected for every combination: `registered 1 live 1 afterclose 0`.

import (
	"bufio"
	"fmt"
	"net"
	"sync"
	"testing"
	"time"

	piondtls "github.com/pion/dtls/v3"
	coapdtls "github.com/plgd-dev/go-coap/v3/dtls"
	"github.com/plgd-dev/go-coap/v3/net/blockwise"
	"github.com/plgd-dev/go-coap/v3/options"
	"github.com/plgd-dev/go-coap/v3/tcp"
	tcpclient "github.com/plgd-dev/go-coap/v3/tcp/client"
	"github.com/plgd-dev/go-coap/v3/udp"
	udpclient "github.com/plgd-dev/go-coap/v3/udp/client"
	"verifharness/internal/lp"
)

func b2i(b bool) int {
	if b {
		return 1
	}
	return 0
}

func runCtor(transport string, bw, mon bool) (line string) {
	defer func() {
		if r := recover(); r != nil {
			line = fmt.Sprintf("panic %v", r)
		}
	}()
	var mu sync.Mutex
	var fns []func(now time.Time) bool
	runner := options.WithPeriodicRunner(func(f func(now time.Time) bool) {
		mu.Lock()
		fns = append(fns, f)
		mu.Unlock()
	})
	bwOpt := options.WithBlockwise(bw, blockwise.SZX16, time.Second)
	var closeFn func() error
	var done <-chan struct{}
	switch transport {
	case "udp", "dtls":
		silent, err := net.ListenUDP("udp4", &net.UDPAddr{IP: net.IPv4(127, 0, 0, 1)})
		if err != nil {
			return "conn-error"
		}
		defer silent.Close()
		opts := []udp.Option{runner, bwOpt}
		if mon {
			opts = append(opts, options.WithInactivityMonitor(time.Hour, func(*udpclient.Conn) {}))
		}
		var cc *udpclient.Conn
		if transport == "udp" {
			cc, err = udp.Dial(silent.LocalAddr().String(), opts...)
		} else {
			cc, err = coapdtls.Dial(silent.LocalAddr().String(), &piondtls.Config{
				PSK:             func([]byte) ([]byte, error) { return []byte{1, 2, 3}, nil },
				PSKIdentityHint: []byte("c18"),
				CipherSuites:    []piondtls.CipherSuiteID{piondtls.TLS_PSK_WITH_AES_128_CCM_8},
			}, opts...)
		}
		if err != nil {
			return "conn-error"
		}
		closeFn, done = cc.Close, cc.Done()
	case "tcp":
		l, err := net.Listen("tcp4", "127.0.0.1:0")
		if err != nil {
			return "conn-error"
		}
		defer l.Close()
		go func() {
			for {
				c, err := l.Accept()
				if err != nil {
					return
				}
				defer c.Close()
			}
		}()
		opts := []tcp.Option{runner, bwOpt, options.WithCSMExchangeTimeout(0)}
		if mon {
			opts = append(opts, options.WithInactivityMonitor(time.Hour, func(*tcpclient.Conn) {}))
		}
		cc, err := tcp.Dial(l.Addr().String(), opts...)
		if err != nil {
			return "conn-error"
		}
		closeFn, done = cc.Close, cc.Done()
	default:
		return "bad-op"
	}
	mu.Lock()
	n := len(fns)
	var f func(now time.Time) bool
	if n > 0 {
		f = fns[0]
	}
	mu.Unlock()
	live, after := 0, 0
	if f != nil {
		live = b2i(f(time.Now()))
	}
	_ = closeFn()
	select {
	case <-done:
	case <-time.After(time.Second):
	}
	if f != nil {
		after = b2i(f(time.Now()))
	}
	return fmt.Sprintf("registered %d live %d afterclose %d", n, live, after)
}

func TestC18Ctor(t *testing.T) {
	err := lp.FileLoop(func(f []string, w *bufio.Writer) {
		if len(f) == 4 && f[0] == "ctor" {
			fmt.Fprintln(w, runCtor(f[1], f[2] == "bw", f[3] == "mon"))
			return
		}
		fmt.Fprintln(w, "bad-op")
	})
	if err != nil {
		t.Fatal(err)
	}
}
