package c18

// Housekeeping runners (C18 "closed at the first housekeeping tick", C09 "the server's sweep completes a closed peer's
// shutdown"): the shared ticker of pkg/runner/periodic (options.WithPeriodicRunner) and the default runner of the
// connection configurations (one goroutine per registration).  Lines:
//
//	rcfg <shared|default>   a fresh runner (shared: periodic.New with a 1 s tick; default: udp/client.DefaultConfig.PeriodicRunner)
//	reg <k>                 register a function that answers "yes" until told otherwise
//	fin <k>                 function k answers "no" at its next call
//	nest <k> <j>            function k registers a new function j during its next call (a connection dialled, a server
//	                        started from inside a housekeeping callback)
//	tick                    one period elapses (virtual time)
//
// Output: the functions called since the previous line, ascending: `calls k1 k2 …`, or `none`.

import (
	"bufio"
	"fmt"
	"sort"
	"strconv"
	"strings"
	"sync"
	"testing"
	"testing/synctest"
	"time"

	"github.com/plgd-dev/go-coap/v3/pkg/runner/periodic"
	udpclient "github.com/plgd-dev/go-coap/v3/udp/client"
	"verifharness/internal/lp"
)

func runRunnerCase(t *testing.T, kind string, ops [][]string) []string {
	out := make([]string, len(ops))
	synctest.Test(t, func(t *testing.T) {
		var mu sync.Mutex
		var calls []int
		finishing := map[int]bool{}
		nest := map[int]int{}
		stop := make(chan struct{})
		var register func(f func(now time.Time) bool)
		period := time.Second
		if kind == "shared" {
			register = periodic.New(stop, period)
		} else {
			register = udpclient.DefaultConfig.PeriodicRunner
			period = 4 * time.Second
		}
		take := func() string {
			mu.Lock()
			defer mu.Unlock()
			if len(calls) == 0 {
				return "none"
			}
			sort.Ints(calls)
			s := make([]string, len(calls))
			for i, c := range calls {
				s[i] = strconv.Itoa(c)
			}
			calls = nil
			return "calls " + strings.Join(s, " ")
		}
		var all []int
		var mk func(k int) func(time.Time) bool
		mk = func(k int) func(time.Time) bool {
			return func(time.Time) bool {
				mu.Lock()
				calls = append(calls, k)
				j, nested := nest[k]
				delete(nest, k)
				if nested {
					all = append(all, j)
				}
				cont := !finishing[k]
				mu.Unlock()
				if nested {
					register(mk(j))
				}
				return cont
			}
		}
		for i, f := range ops {
			switch f[0] {
			case "reg":
				k, _ := strconv.Atoi(f[1])
				mu.Lock()
				all = append(all, k)
				mu.Unlock()
				register(mk(k))
			case "nest":
				k, _ := strconv.Atoi(f[1])
				j, _ := strconv.Atoi(f[2])
				mu.Lock()
				nest[k] = j
				mu.Unlock()
			case "fin":
				k, _ := strconv.Atoi(f[1])
				mu.Lock()
				finishing[k] = true
				mu.Unlock()
			case "tick":
				time.Sleep(period)
			}
			synctest.Wait()
			out[i] = take()
		}
		// let every registration end so that the bubble can finish
		mu.Lock()
		for _, k := range all {
			finishing[k] = true
		}
		mu.Unlock()
		close(stop)
		time.Sleep(2 * period)
		synctest.Wait()
	})
	return out
}

func TestC18Runner(t *testing.T) {
	var kind string
	var ops [][]string
	flush := func(w *bufio.Writer) {
		if kind == "" {
			return
		}
		fmt.Fprintln(w, "ok")
		for _, l := range runRunnerCase(t, kind, ops) {
			fmt.Fprintln(w, l)
		}
		kind, ops = "", nil
	}
	err := lp.FileLoop(func(f []string, w *bufio.Writer) {
		switch {
		case len(f) == 2 && f[0] == "rcfg" && (f[1] == "shared" || f[1] == "default"):
			flush(w)
			kind = f[1]
		case len(f) == 1 && f[0] == "end":
			flush(w)
			fmt.Fprintln(w, "end")
		case kind != "" && (len(f) == 2 && (f[0] == "reg" || f[0] == "fin") || len(f) == 3 && f[0] == "nest" || len(f) == 1 && f[0] == "tick"):
			ops = append(ops, f)
		default:
			flush(w)
			fmt.Fprintln(w, "bad-op")
		}
	})
	if err != nil {
		t.Fatal(err)
	}
}
