package c18

import (
	"fmt"
	"net"
	"os"
	"testing"
	"time"

	coapNet "github.com/plgd-dev/go-coap/v3/net"
	"github.com/plgd-dev/go-coap/v3/options"
	"github.com/plgd-dev/go-coap/v3/udp"
	udpclient "github.com/plgd-dev/go-coap/v3/udp/client"
)

// TestC18Server exercises the datagram server's per-datagram expiry check (udp/server getConn) with a real
// loopback listener and real time: a known peer is looked up again `period - margin` after its connection was
// created. Output (one line in $VERIF_OUT): `server silent=<ns> period=<ns> closed=<0|1>` or `server skipped <why>`.
func TestC18Server(t *testing.T) {
	out := func(s string) { _ = os.WriteFile(os.Getenv("VERIF_OUT"), []byte(s+"\n"), 0o644) }
	period := 300 * time.Millisecond
	margin := 4 * time.Millisecond
	l, err := coapNet.NewListenUDP("udp4", "127.0.0.1:0")
	if err != nil {
		out("server skipped no-loopback")
		return
	}
	defer l.Close()
	closedAt := make(chan time.Time, 4)
	s := udp.NewServer(
		options.WithInactivityMonitor(period, func(cc *udpclient.Conn) {
			closedAt <- time.Now()
			_ = cc.Close()
		}),
		options.WithPeriodicRunner(func(f func(now time.Time) bool) {}),
	)
	done := make(chan struct{})
	go func() { _ = s.Serve(l); close(done) }()
	defer func() { s.Stop(); <-done }()
	peer := &net.UDPAddr{IP: net.IPv4(127, 0, 0, 1), Port: 45683}
	var cc *udpclient.Conn
	for i := 0; i < 200; i++ {
		cc, err = s.NewConn(peer)
		if err == nil {
			break
		}
		time.Sleep(5 * time.Millisecond)
	}
	if err != nil {
		out("server skipped " + err.Error())
		return
	}
	t0 := time.Now() // the monitor was created (last activity) just before this instant
	time.Sleep(period - margin - time.Since(t0))
	_, _ = s.NewConn(peer) // what Serve does for the next datagram of this peer: getConn(existing) -> CheckExpirations(now+look-ahead)
	silent := time.Since(t0)
	closed := 0
	select {
	case <-cc.Context().Done():
		closed = 1
	default:
	}
	out(fmt.Sprintf("server silent=%d period=%d closed=%d", silent.Nanoseconds(), period.Nanoseconds(), closed))
}
