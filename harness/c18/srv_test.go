package c18

// Server side of C18: levels `tcpsrv` and `dtlssrv`.  A real tcp.Server / dtls.Server serves an in-memory listener
// (synctest virtual time); the peers are the harness ends of net.Pipe connections.  The monitors are made by the option
// the server was given (one factory call per accepted connection), and the housekeeping tick is the function the server
// hands to its periodic runner (it walks pkg/connections): `tick <t>` calls that function.  Two more peers are connected
// besides the observed one - one always silent, one that receives a message before every tick - so that a tick that
// misses a connection, or state shared between the connections' monitors, shows.
//
//	observed output per line: as for the client-side levels (`close`, `ping <n>`, `none`); a closing of the talkative
//	peer's connection is reported as `close-talkative` (never legitimate: it has just been heard from)

import (
	"context"
	"fmt"
	"net"
	"strconv"
	"sync"
	"sync/atomic"
	"testing"
	"testing/synctest"
	"time"

	coapdtls "github.com/plgd-dev/go-coap/v3/dtls"
	dtlsserver "github.com/plgd-dev/go-coap/v3/dtls/server"
	"github.com/plgd-dev/go-coap/v3/message"
	"github.com/plgd-dev/go-coap/v3/message/codes"
	"github.com/plgd-dev/go-coap/v3/message/pool"
	"github.com/plgd-dev/go-coap/v3/options"
	"github.com/plgd-dev/go-coap/v3/tcp"
	tcpclient "github.com/plgd-dev/go-coap/v3/tcp/client"
	tcpcoder "github.com/plgd-dev/go-coap/v3/tcp/coder"
	tcpserver "github.com/plgd-dev/go-coap/v3/tcp/server"
	udpclient "github.com/plgd-dev/go-coap/v3/udp/client"
	udpcoder "github.com/plgd-dev/go-coap/v3/udp/coder"
	"verifharness/internal/mem"
)

type srvAddr string

func (a srvAddr) Network() string { return "mem" }
func (a srvAddr) String() string  { return string(a) }

func pipeFor(name string) (srv net.Conn, peer net.Conn) {
	a, b := net.Pipe()
	return &mem.AddrConn{Conn: a, Local: srvAddr("server"), Remote: srvAddr(name)}, b
}

// hsConn is a connection whose (DTLS) handshake takes `delay`; dtls/server runs HandshakeContext before it sets the
// connection up.
type hsConn struct {
	net.Conn
	delay time.Duration
	done  atomic.Bool
}

func (c *hsConn) HandshakeContext(ctx context.Context) error {
	if c.done.Load() { // a completed handshake is not repeated
		return nil
	}
	defer c.done.Store(true)
	select {
	case <-time.After(c.delay):
		return nil
	case <-ctx.Done():
		return ctx.Err()
	}
}

// dgramPeer collects the datagrams a dtls/server session writes into its pipe (one Write = one datagram).
type dgramPeer struct {
	c    net.Conn
	mu   sync.Mutex
	got  [][]byte
	done chan struct{}
}

func newDgramPeer(c net.Conn) *dgramPeer {
	p := &dgramPeer{c: c, done: make(chan struct{})}
	go func() {
		defer close(p.done)
		b := make([]byte, 65536)
		for {
			n, err := c.Read(b)
			if n > 0 {
				p.mu.Lock()
				p.got = append(p.got, append([]byte(nil), b[:n]...))
				p.mu.Unlock()
			}
			if err != nil {
				return
			}
		}
	}()
	return p
}

func (p *dgramPeer) take() [][]byte {
	p.mu.Lock()
	defer p.mu.Unlock()
	o := p.got
	p.got = nil
	return o
}

func (p *dgramPeer) close() { _ = p.c.Close(); <-p.done }

// useDefault: no monitor option is given: the server's DefaultConfig decides (tcp: keep-alive with 2 retries over 16 s;
// dtls: plain monitor, 16 s), and the closing is observed through the connection's on-close callback.
func runSrvTCP(t *testing.T, c caseDef, useDefault bool) []string {
	out := make([]string, len(c.ops))
	synctest.Test(t, func(t *testing.T) {
		start := time.Now()
		log := &logger{}
		closed := false
		var mu sync.Mutex
		var conns []*tcpclient.Conn
		onInactive := func(cc *tcpclient.Conn) {
			mu.Lock()
			idx := -1
			for i, x := range conns {
				if x == cc {
					idx = i
				}
			}
			mu.Unlock()
			switch idx {
			case 0:
				closed = true
				log.add("close")
			case 2:
				log.add("close-talkative")
			}
			_ = cc.Close()
		}
		var tickFn func(now time.Time) bool
		opts := []tcpserver.Option{
			options.WithErrors(func(error) {}),
			options.WithMessagePool(pool.New(64, 2048)),
			options.WithPeriodicRunner(func(f func(now time.Time) bool) { tickFn = f }),
			options.WithHandlerFunc(slowHandlerTCP),
			options.WithOnNewConn(func(cc *tcpclient.Conn) {
				mu.Lock()
				idx := len(conns)
				conns = append(conns, cc)
				mu.Unlock()
				if useDefault {
					cc.AddOnClose(func() {
						switch idx {
						case 0:
							closed = true
							log.add("close")
						case 2:
							log.add("close-talkative")
						}
					})
				}
			}),
		}
		if useDefault {
			// nothing: DefaultConfig.CreateInactivityMonitor
		} else if c.maxRetries < 0 {
			opts = append(opts, options.WithInactivityMonitor(c.period, onInactive))
		} else {
			opts = append(opts, options.WithKeepAlive(uint32(c.maxRetries), c.period*time.Duration(c.maxRetries+1), onInactive))
		}
		s := tcp.NewServer(opts...)
		l := mem.NewListener()
		served := make(chan struct{})
		go func() { _ = s.Serve(l); close(served) }()
		var peers []*mem.TCPPeer
		for _, name := range []string{"main", "silent", "talkative"} {
			sc, pc := pipeFor(name)
			p := mem.NewTCPPeer(pc)
			peers = append(peers, p)
			l.Push(sc)
			synctest.Wait() // accepted, OnNewConn has run: conns[i] belongs to peers[i]
		}
		defer func() {
			s.Stop()
			for _, p := range peers {
				p.Close()
			}
			time.Sleep(time.Minute) // a slow handler may still be running (virtual time)
			<-served
			synctest.Wait()
		}()
		mu.Lock()
		nc := len(conns)
		mu.Unlock()
		if nc != 3 || tickFn == nil {
			for i := range out {
				out[i] = "conn-error"
			}
			return
		}
		peer := peers[0]
		pl := &pingLog{toks: map[int][]byte{}}
		collect := func() {
			for _, fr := range peer.TakeFrames() {
				m := pool.NewMessage(context.Background())
				if _, err := m.UnmarshalWithDecoder(tcpcoder.DefaultCoder, fr); err != nil {
					log.add("undecodable")
					continue
				}
				if m.Code() == codes.Ping {
					pl.n++
					pl.toks[pl.n] = append([]byte(nil), m.Token()...)
					log.add(fmt.Sprintf("ping %d", pl.n))
				}
			}
			peers[1].TakeFrames()
			peers[2].TakeFrames()
		}
		collect() // drops the CSMs
		log.take()
		send := func(p *mem.TCPPeer, m *pool.Message) {
			b, err := m.MarshalWithEncoder(tcpcoder.DefaultCoder)
			if err != nil {
				panic(err)
			}
			_ = p.Write(append([]byte(nil), b...))
		}
		n := byte(0)
		trickling := false
		for i, f := range c.ops {
			if closed {
				out[i] = "none"
				continue
			}
			func() {
				defer func() {
					if r := recover(); r != nil {
						log.add(fmt.Sprintf("panic %v", r))
					}
				}()
				switch f[0] {
				case "recv":
					at, _ := strconv.ParseInt(f[1], 10, 64)
					sleepTo(start, at)
					n++
					m := pool.NewMessage(context.Background())
					m.SetCode(codes.Content)
					m.SetToken(message.Token{0x77, n})
					send(peer, m)
				case "recvk":
					at, _ := strconv.ParseInt(f[2], 10, 64)
					sleepTo(start, at)
					n++
					m := pool.NewMessage(context.Background())
					m.SetToken(message.Token{0x78, n})
					switch f[1] {
					case "ping":
						m.SetCode(codes.Ping)
					case "ack":
						m.SetCode(codes.Pong)
					case "rst":
						m.SetCode(codes.CSM)
					default:
						m.SetCode(codes.Content)
					}
					send(peer, m)
				case "pong":
					g, _ := strconv.Atoi(f[1])
					at, _ := strconv.ParseInt(f[2], 10, 64)
					sleepTo(start, at)
					m := pool.NewMessage(context.Background())
					m.SetCode(codes.Pong)
					if tok, ok := pl.toks[g]; ok {
						m.SetToken(tok)
					} else {
						m.SetToken(message.Token{0x01})
					}
					send(peer, m)
				case "recvslow":
					at, _ := strconv.ParseInt(f[1], 10, 64)
					d, _ := strconv.ParseInt(f[2], 10, 64)
					sleepTo(start, at)
					n++
					send(peer, slowRequest(d, int32(n), false))
				case "trickle":
					at, _ := strconv.ParseInt(f[1], 10, 64)
					sleepTo(start, at)
					if !trickling {
						trickling = true
						_ = peer.Write([]byte{0xd0, 0xff})
					} else {
						_ = peer.Write([]byte{0x00})
					}
				case "tick":
					at, _ := strconv.ParseInt(f[1], 10, 64)
					sleepTo(start, at)
					// the talkative peer is heard from right before every tick
					n++
					m := pool.NewMessage(context.Background())
					m.SetCode(codes.Content)
					m.SetToken(message.Token{0x79, n})
					send(peers[2], m)
					synctest.Wait()
					tickFn(time.Now())
				}
			}()
			synctest.Wait()
			collect()
			out[i] = log.take()
		}
	})
	return out
}

func runSrvDTLS(t *testing.T, c caseDef, useDefault bool) []string {
	out := make([]string, len(c.ops))
	synctest.Test(t, func(t *testing.T) {
		start := time.Now()
		log := &logger{}
		closed := false
		var mu sync.Mutex
		var conns []*udpclient.Conn
		onInactive := func(cc *udpclient.Conn) {
			mu.Lock()
			idx := -1
			for i, x := range conns {
				if x == cc {
					idx = i
				}
			}
			mu.Unlock()
			switch idx {
			case 0:
				closed = true
				log.add("close")
			case 2:
				log.add("close-talkative")
			}
			_ = cc.Close()
		}
		var tickFn func(now time.Time) bool
		opts := []dtlsserver.Option{
			options.WithErrors(func(error) {}),
			options.WithMessagePool(pool.New(64, 2048)),
			options.WithPeriodicRunner(func(f func(now time.Time) bool) { tickFn = f }),
			options.WithHandlerFunc(slowHandlerUDP),
			options.WithOnNewConn(func(cc *udpclient.Conn) {
				mu.Lock()
				idx := len(conns)
				conns = append(conns, cc)
				mu.Unlock()
				if useDefault {
					cc.AddOnClose(func() {
						switch idx {
						case 0:
							closed = true
							log.add("close")
						case 2:
							log.add("close-talkative")
						}
					})
				}
			}),
		}
		if useDefault {
			// nothing: DefaultConfig.CreateInactivityMonitor
		} else if c.maxRetries < 0 {
			opts = append(opts, options.WithInactivityMonitor(c.period, onInactive))
		} else {
			opts = append(opts, options.WithKeepAlive(uint32(c.maxRetries), c.period*time.Duration(c.maxRetries+1), onInactive))
		}
		s := coapdtls.NewServer(opts...)
		l := mem.NewListener()
		served := make(chan struct{})
		go func() { _ = s.Serve(l); close(served) }()
		var peers []*dgramPeer
		for _, name := range []string{"main", "silent", "talkative"} {
			sc, pc := pipeFor(name)
			peers = append(peers, newDgramPeer(pc))
			if name == "main" {
				// the observed peer's handshake takes longer than a whole period (a slow key look-up, a lossy link): the
				// connection exists - and its idle time starts - when the handshake is over
				sc = &hsConn{Conn: sc, delay: c.period + 1}
			}
			l.Push(sc)
			synctest.Wait()
			if name == "main" {
				time.Sleep(c.period + 1)
				synctest.Wait()
			}
		}
		start = time.Now() // t0 of the history: the connections are established now
		defer func() {
			s.Stop()
			for _, p := range peers {
				p.close()
			}
			time.Sleep(time.Minute) // a slow handler may still be running (virtual time)
			<-served
			synctest.Wait()
		}()
		mu.Lock()
		nc := len(conns)
		mu.Unlock()
		if nc != 3 || tickFn == nil {
			for i := range out {
				out[i] = "conn-error"
			}
			return
		}
		peer := peers[0]
		pl := &pingLog{mids: map[int]int32{}}
		collect := func() {
			for _, d := range peer.take() {
				m := pool.NewMessage(context.Background())
				if _, err := m.UnmarshalWithDecoder(udpcoder.DefaultCoder, d); err != nil {
					log.add("undecodable")
					continue
				}
				if m.Code() == codes.Empty && m.Type() == message.Confirmable {
					seen := false
					for _, id := range pl.mids {
						seen = seen || id == m.MessageID()
					}
					if seen {
						continue
					}
					pl.n++
					pl.mids[pl.n] = m.MessageID()
					log.add(fmt.Sprintf("ping %d", pl.n))
				}
			}
			peers[1].take()
			peers[2].take()
		}
		mid := int32(20000)
		send := func(p *dgramPeer, m *pool.Message) {
			b, err := m.MarshalWithEncoder(udpcoder.DefaultCoder)
			if err != nil {
				panic(err)
			}
			_, _ = p.c.Write(append([]byte(nil), b...))
		}
		for i, f := range c.ops {
			if closed {
				out[i] = "none"
				continue
			}
			func() {
				defer func() {
					if r := recover(); r != nil {
						log.add(fmt.Sprintf("panic %v", r))
					}
				}()
				switch f[0] {
				case "recv":
					at, _ := strconv.ParseInt(f[1], 10, 64)
					sleepTo(start, at)
					mid++
					m := pool.NewMessage(context.Background())
					m.SetCode(codes.Content)
					m.SetType(message.NonConfirmable)
					m.SetMessageID(mid)
					m.SetToken(message.Token{0x77, byte(mid)})
					send(peer, m)
				case "recvk":
					at, _ := strconv.ParseInt(f[2], 10, 64)
					sleepTo(start, at)
					mid++
					m := pool.NewMessage(context.Background())
					m.SetMessageID(mid)
					switch f[1] {
					case "ping":
						m.SetCode(codes.Empty)
						m.SetType(message.Confirmable)
					case "ack":
						m.SetCode(codes.Empty)
						m.SetType(message.Acknowledgement)
					case "rst":
						m.SetCode(codes.Empty)
						m.SetType(message.Reset)
					default:
						m.SetCode(codes.Content)
						m.SetType(message.NonConfirmable)
						m.SetToken(message.Token{0x78, byte(mid)})
					}
					send(peer, m)
				case "recvslow":
					at, _ := strconv.ParseInt(f[1], 10, 64)
					d, _ := strconv.ParseInt(f[2], 10, 64)
					sleepTo(start, at)
					mid++
					send(peer, slowRequest(d, mid, true))
				case "pong":
					g, _ := strconv.Atoi(f[1])
					at, _ := strconv.ParseInt(f[2], 10, 64)
					sleepTo(start, at)
					m := pool.NewMessage(context.Background())
					m.SetCode(codes.Empty)
					m.SetType(message.Reset)
					if id, ok := pl.mids[g]; ok {
						m.SetMessageID(id)
					} else {
						m.SetMessageID(1)
					}
					send(peer, m)
				case "tick":
					at, _ := strconv.ParseInt(f[1], 10, 64)
					sleepTo(start, at)
					mid++
					m := pool.NewMessage(context.Background())
					m.SetCode(codes.Content)
					m.SetType(message.NonConfirmable)
					m.SetMessageID(mid)
					m.SetToken(message.Token{0x79, byte(mid)})
					send(peers[2], m)
					synctest.Wait()
					tickFn(time.Now())
				}
			}()
			synctest.Wait()
			collect()
			out[i] = log.take()
		}
	})
	return out
}
