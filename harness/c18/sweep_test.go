package c18

// The datagram server's housekeeping sweep over its peer table (udp/server handleInactivityMonitors), line
//
//	sweep <nA> <rounds>
//
// Per round: a real udp.Server on a loopback socket (inactivity monitor of 10 s that closes the connection, ticks driven by
// hand with a chosen `now`), nA + 1 peers send one datagram each.  A tick after half a period closes nobody.  The
// application then closes the nA connections of the A peers itself; the next tick comes a full period (+1 ms) after the
// last datagram of peer B: whatever else the sweep finds to do in that pass (the closed connections to reap), B has been
// silent for a full period and must be closed in this very tick.
// Output: `ok rounds=R` or `bad round=… …`.

import (
	"fmt"
	"net"
	"sync"
	"time"

	coapNet "github.com/plgd-dev/go-coap/v3/net"
	"github.com/plgd-dev/go-coap/v3/options"
	"github.com/plgd-dev/go-coap/v3/udp"
	udpclient "github.com/plgd-dev/go-coap/v3/udp/client"
)

func runSweep(nA, rounds int) string {
	for r := 0; r < rounds; r++ {
		if res := runSweepOnce(nA, r); res != "" {
			return fmt.Sprintf("bad round=%d %s", r, res)
		}
	}
	return fmt.Sprintf("ok rounds=%d", rounds)
}

func runSweepOnce(nA, round int) string {
	l, err := coapNet.NewListenUDP("udp4", "127.0.0.1:0")
	if err != nil {
		return "rig-error listen"
	}
	defer l.Close()
	var tick func(now time.Time) bool
	tickSet := make(chan struct{})
	var mu sync.Mutex
	conns := map[string]*udpclient.Conn{}
	inactive := map[string]int{}
	lastSeen := map[string]time.Time{}
	s := udp.NewServer(
		options.WithErrors(func(error) {}),
		options.WithPeriodicRunner(func(f func(now time.Time) bool) { tick = f; close(tickSet) }),
		options.WithInactivityMonitor(10*time.Second, func(cc *udpclient.Conn) {
			mu.Lock()
			inactive[cc.RemoteAddr().String()]++
			mu.Unlock()
			_ = cc.Close()
		}),
		options.WithOnNewConn(func(cc *udpclient.Conn) {
			mu.Lock()
			conns[cc.RemoteAddr().String()] = cc
			lastSeen[cc.RemoteAddr().String()] = time.Now()
			mu.Unlock()
		}),
	)
	served := make(chan error, 1)
	go func() { served <- s.Serve(l) }()
	defer func() {
		s.Stop()
		select {
		case <-served:
		case <-time.After(3 * time.Second):
		}
	}()
	select {
	case <-tickSet:
	case <-time.After(2 * time.Second):
		return "rig-error server did not start"
	}
	addr := l.LocalAddr().(*net.UDPAddr)
	var socks []*net.UDPConn
	defer func() {
		for _, c := range socks {
			c.Close()
		}
	}()
	for i := 0; i <= nA; i++ {
		c, err := net.DialUDP("udp4", nil, addr)
		if err != nil {
			return "rig-error dial"
		}
		socks = append(socks, c)
		// NON GET /x, token i
		_, _ = c.Write([]byte{0x51, 0x01, 0x30, byte(i), byte(0xA0 + i%16), 0xb1, 'x'})
	}
	deadline := time.Now().Add(2 * time.Second)
	for {
		mu.Lock()
		n := len(conns)
		mu.Unlock()
		if n == nA+1 || time.Now().After(deadline) {
			break
		}
		time.Sleep(2 * time.Millisecond)
	}
	mu.Lock()
	if len(conns) != nA+1 {
		mu.Unlock()
		return "rig-error not every peer got a connection"
	}
	bKey := socks[nA].LocalAddr().String()
	t0 := lastSeen[bKey]
	var latest time.Time
	for _, t := range lastSeen {
		if t.After(latest) {
			latest = t
		}
	}
	mu.Unlock()
	time.Sleep(20 * time.Millisecond) // the responses (4.04) are out; nothing else arrives
	tick(latest.Add(5 * time.Second))
	mu.Lock()
	early := len(inactive)
	var aConns []*udpclient.Conn
	for k, cc := range conns {
		if k != bKey {
			aConns = append(aConns, cc)
		}
	}
	mu.Unlock()
	if early != 0 {
		return fmt.Sprintf("%d connections were closed as inactive after half a period", early)
	}
	for _, cc := range aConns {
		_ = cc.Close()
	}
	_ = t0
	tick(time.Now().Add(10*time.Second + time.Millisecond))
	mu.Lock()
	nb := inactive[bKey]
	mu.Unlock()
	if nb != 1 {
		return fmt.Sprintf("a peer silent for a full period was not closed at the first tick after it (inactive callbacks for it: %d) while %d connections closed by the application were reaped in the same pass", nb, nA)
	}
	return ""
}
