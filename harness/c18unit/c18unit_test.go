// Harness for C18, unit level: the real inactivity.Monitor / KeepAlive / KeepAliveMonitor objects with a fake
// connection and a recording sendPing (so that cancellation of the superseded ping is observable).
// Lines as in harness/c18: cfg unit <periodNs> <maxRetries|-> <t0>; recv <t>; pong <g> <t>; tick <t>; end.
package c18unit

import (
	"bufio"
	"context"
	"fmt"
	"strconv"
	"strings"
	"sync"
	"testing"
	"testing/synctest"
	"time"

	"github.com/plgd-dev/go-coap/v3/net/monitor/inactivity"
	"verifharness/internal/lp"
)

type fakeConn struct {
	ctx    context.Context
	cancel context.CancelFunc
}

func (f *fakeConn) Context() context.Context { return f.ctx }
func (f *fakeConn) Close() error             { f.cancel(); return nil }

type caseDef struct {
	level      string
	period     time.Duration
	maxRetries int // -1 = plain inactivity monitor
	ops        [][]string
}

type logger struct {
	mu  sync.Mutex
	evs []string
}

func (l *logger) add(s string) { l.mu.Lock(); l.evs = append(l.evs, s); l.mu.Unlock() }
func (l *logger) take() string {
	l.mu.Lock()
	defer l.mu.Unlock()
	if len(l.evs) == 0 {
		return "none"
	}
	s := strings.Join(l.evs, " ; ")
	l.evs = nil
	return s
}

// rle summarises the per-tick observations of a bulk `ticks <n> <t0> <dt>` operation (n housekeeping ticks at t0, t0+dt, …
// with a silent peer in between) as run lengths: `rle c<cancel marks> 3*none 65535*ping 1*close 2*none`.  The class of a
// tick is what was observed at it (cancel marks counted apart, ping numbers dropped), several events joined with `+`.
type rle struct {
	cancels int
	parts   []string
	cur     string
	n       int
}

func (r *rle) add(obs string, times int) {
	var keep []string
	if obs != "none" {
		for _, p := range strings.Split(obs, " ; ") {
			switch {
			case strings.HasPrefix(p, "cancelping"):
				r.cancels++
			case strings.HasPrefix(p, "ping "):
				keep = append(keep, "ping")
			case strings.HasPrefix(p, "pingfail"):
				keep = append(keep, "pingfail")
			default:
				keep = append(keep, strings.ReplaceAll(p, " ", "_"))
			}
		}
	}
	cl := "none"
	if len(keep) > 0 {
		cl = strings.Join(keep, "+")
	}
	if cl != r.cur && r.n > 0 {
		r.parts = append(r.parts, fmt.Sprintf("%d*%s", r.n, r.cur))
		r.n = 0
	}
	r.cur = cl
	r.n += times
}

func (r *rle) String() string {
	if r.n > 0 {
		r.parts = append(r.parts, fmt.Sprintf("%d*%s", r.n, r.cur))
		r.n = 0
	}
	return fmt.Sprintf("rle c%d %s", r.cancels, strings.Join(r.parts, " "))
}

func sleepTo(start time.Time, t int64) {
	if d := time.Duration(t) - time.Since(start); d > 0 {
		time.Sleep(d)
	}
}

func runUnit(t *testing.T, c caseDef) []string {
	out := make([]string, len(c.ops))
	synctest.Test(t, func(t *testing.T) {
		start := time.Now()
		log := &logger{}
		ctx, cancel := context.WithCancel(context.Background())
		cc := &fakeConn{ctx: ctx, cancel: cancel}
		closed := false
		onInactive := func(c *fakeConn) {
			closed = true
			log.add("close")
			_ = c.Close()
		}
		type mon interface {
			Notify()
			CheckInactivity(now time.Time, cc *fakeConn)
		}
		var m mon
		pongCb := map[int]func(){}
		gen := 0
		sendFails := false
		if c.maxRetries < 0 {
			m = inactivity.New(c.period, onInactive)
		} else {
			ka := inactivity.NewKeepAlive(uint32(c.maxRetries), onInactive, func(_ *fakeConn, receivePong func()) (func(), error) {
				gen++
				g := gen
				if sendFails {
					log.add(fmt.Sprintf("pingfail %d", g))
					return nil, fmt.Errorf("cannot send")
				}
				pongCb[g] = receivePong
				log.add(fmt.Sprintf("ping %d", g))
				return func() {
					if _, ok := pongCb[g]; ok {
						delete(pongCb, g)
					}
					log.add(fmt.Sprintf("cancelping %d", g))
				}, nil
			})
			m = inactivity.NewKeepAliveMonitor(c.period, ka)
		}
		for i, f := range c.ops {
			if closed {
				out[i] = "none"
				if f[0] == "ticks" {
					out[i] = "rle c0 " + f[1] + "*none"
				}
				continue
			}
			if f[0] == "ticks" {
				// a long silent stretch: n housekeeping ticks in a row (the far end of the count of unanswered pings)
				n, _ := strconv.Atoi(f[1])
				t0, _ := strconv.ParseInt(f[2], 10, 64)
				dt, _ := strconv.ParseInt(f[3], 10, 64)
				r := &rle{}
				for j := 0; j < n; j++ {
					if closed {
						r.add("none", n-j)
						break
					}
					func() {
						defer func() {
							if rec := recover(); rec != nil {
								log.add(fmt.Sprintf("panic %v", rec))
							}
						}()
						m.CheckInactivity(start.Add(time.Duration(t0+int64(j)*dt)), cc)
					}()
					if len(pongCb) > 64 { // the callbacks of long superseded pings are of no further use to the history
						for g := range pongCb {
							if g < gen-8 {
								delete(pongCb, g)
							}
						}
					}
					r.add(log.take(), 1)
				}
				out[i] = r.String()
				continue
			}
			func() {
				defer func() {
					if r := recover(); r != nil {
						log.add(fmt.Sprintf("panic %v", r))
					}
				}()
				switch f[0] {
				case "recv":
					at, _ := strconv.ParseInt(f[1], 10, 64)
					sleepTo(start, at)
					m.Notify()
				case "pong":
					g, _ := strconv.Atoi(f[1])
					at, _ := strconv.ParseInt(f[2], 10, 64)
					sleepTo(start, at)
					m.Notify() // the answer is a message from the peer
					if cb, ok := pongCb[g]; ok {
						delete(pongCb, g)
						cb()
					}
				case "recvk":
					at, _ := strconv.ParseInt(f[2], 10, 64)
					sleepTo(start, at)
					m.Notify()
				case "tick", "tickf":
					at, _ := strconv.ParseInt(f[1], 10, 64)
					sendFails = f[0] == "tickf"
					m.CheckInactivity(start.Add(time.Duration(at)), cc)
					sendFails = false
				}
			}()
			synctest.Wait()
			out[i] = log.take()
		}
	})
	return out
}

func TestC18Unit(t *testing.T) {
	var cur *caseDef
	flush := func(w *bufio.Writer) {
		if cur == nil {
			return
		}
		fmt.Fprintln(w, "ok")
		for _, l := range runUnit(t, *cur) {
			fmt.Fprintln(w, l)
		}
		cur = nil
	}
	err := lp.FileLoop(func(f []string, w *bufio.Writer) {
		switch {
		case len(f) == 5 && f[0] == "cfg":
			flush(w)
			p, _ := strconv.ParseInt(f[2], 10, 64)
			n := -1
			if f[3] != "-" {
				n, _ = strconv.Atoi(f[3])
			}
			cur = &caseDef{level: f[1], period: time.Duration(p), maxRetries: n}
		case len(f) == 1 && f[0] == "end":
			flush(w)
			fmt.Fprintln(w, "end")
		case cur != nil && (f[0] == "recv" && len(f) == 2 || f[0] == "pong" && len(f) == 3 || f[0] == "tick" && len(f) == 2 ||
			f[0] == "tickf" && len(f) == 2 || f[0] == "recvk" && len(f) == 3 || f[0] == "ticks" && len(f) == 4):
			cur.ops = append(cur.ops, f)
		default:
			flush(w)
			fmt.Fprintln(w, "bad-op")
		}
	})
	if err != nil {
		t.Fatal(err)
	}
}
