package main

import (
	"bufio"
	"context"
	"encoding/hex"
	"errors"
	"fmt"
	"strconv"

	"github.com/plgd-dev/go-coap/v3/message"
	"github.com/plgd-dev/go-coap/v3/message/codes"
	"github.com/plgd-dev/go-coap/v3/message/pool"
	"github.com/plgd-dev/go-coap/v3/net/blockwise"
	tcpcoder "github.com/plgd-dev/go-coap/v3/tcp/coder"
	udpcoder "github.com/plgd-dev/go-coap/v3/udp/coder"
	"verifharness/internal/lp"
)

// c19Through sends a message that carries option `id` with the value it has in `src` through the named coder ("udp", "tcp";
// "raw" = no coder) and returns what the receiver reads with GetOptionUint32 — the way net/blockwise reads a block option.
func c19Through(src *pool.Message, id message.OptionID, coder string) (uint32, string) {
	dst := src
	if coder != "raw" {
		src.SetCode(codes.Content)
		src.SetToken(message.Token{0xa1, 0xb2})
		src.SetBody(nil)
		var data []byte
		var err error
		dst = pool.NewMessage(context.Background())
		switch coder {
		case "udp":
			src.SetType(message.Confirmable)
			src.SetMessageID(0x1234)
			if data, err = src.MarshalWithEncoder(udpcoder.DefaultCoder); err == nil {
				_, err = dst.UnmarshalWithDecoder(udpcoder.DefaultCoder, data)
			}
		case "tcp":
			if data, err = src.MarshalWithEncoder(tcpcoder.DefaultCoder); err == nil {
				_, err = dst.UnmarshalWithDecoder(tcpcoder.DefaultCoder, data)
			}
		default:
			return 0, "bad-op"
		}
		if err != nil {
			return 0, "codec-error"
		}
	}
	v, err := dst.GetOptionUint32(id)
	if err != nil {
		return 0, "option-lost"
	}
	return v, ""
}

func c19ErrKind(err error) (string, uint64) {
	switch {
	case errors.Is(err, blockwise.ErrInvalidSZX):
		return "invalidSZX", 1
	case errors.Is(err, blockwise.ErrBlockNumberExceedLimit):
		return "exceedLimit", 2
	case errors.Is(err, blockwise.ErrBlockInvalidSize):
		return "invalidSize", 3
	}
	return "other", 99
}

func b2u(b bool) uint64 {
	if b {
		return 1
	}
	return 0
}

func main() {
	lp.Loop(func(f []string, w *bufio.Writer) {
		defer func() {
			if r := recover(); r != nil {
				fmt.Fprintf(w, "panic %v\n", r)
			}
		}()
		if len(f) == 0 {
			fmt.Fprintln(w, "bad-op")
			return
		}
		switch {
		case f[0] == "dec" && len(f) == 2:
			v, err := strconv.ParseUint(f[1], 10, 32)
			if err != nil {
				fmt.Fprintln(w, "bad-op")
				return
			}
			szx, num, more, e := blockwise.DecodeBlockOption(uint32(v))
			if e != nil {
				k, _ := c19ErrKind(e)
				fmt.Fprintf(w, "err %s\n", k)
				return
			}
			fmt.Fprintf(w, "ok %d %d %d\n", szx, num, b2u(more))
		case f[0] == "enc" && len(f) == 4:
			s, e1 := strconv.ParseUint(f[1], 10, 8)
			n, e2 := strconv.ParseInt(f[2], 10, 64)
			m, e3 := strconv.ParseUint(f[3], 10, 8)
			if e1 != nil || e2 != nil || e3 != nil {
				fmt.Fprintln(w, "bad-op")
				return
			}
			v, e := blockwise.EncodeBlockOption(blockwise.SZX(s), n, m != 0)
			if e != nil {
				k, _ := c19ErrKind(e)
				fmt.Fprintf(w, "err %s\n", k)
				return
			}
			fmt.Fprintf(w, "ok %d\n", v)
		case (f[0] == "wenc" && len(f) == 6) || (f[0] == "wenc2" && len(f) == 7):
			// wenc2 <id> <coder> <szx> <num> <more> <previous value>: the message already carries the option (a re-used request,
			// the next block of a transfer) when the value is set - the second SetOptionUint32 must replace the first value entirely
			// wenc <23|27> <udp|tcp|raw> <szx> <num> <more>: EncodeBlockOption -> SetOptionUint32 -> (coder) -> GetOptionUint32 -> DecodeBlockOption
			id, e0 := strconv.ParseUint(f[1], 10, 16)
			s, e1 := strconv.ParseUint(f[3], 10, 8)
			n, e2 := strconv.ParseInt(f[4], 10, 64)
			m, e3 := strconv.ParseUint(f[5], 10, 8)
			if e0 != nil || e1 != nil || e2 != nil || e3 != nil {
				fmt.Fprintln(w, "bad-op")
				return
			}
			v, e := blockwise.EncodeBlockOption(blockwise.SZX(s), n, m != 0)
			if e != nil {
				k, _ := c19ErrKind(e)
				fmt.Fprintf(w, "err %s\n", k)
				return
			}
			src := pool.NewMessage(context.Background())
			if f[0] == "wenc2" {
				prev, ep := strconv.ParseUint(f[6], 10, 32)
				if ep != nil {
					fmt.Fprintln(w, "bad-op")
					return
				}
				src.SetOptionUint32(message.OptionID(id), uint32(prev))
			}
			src.SetOptionUint32(message.OptionID(id), v)
			raw, _ := src.GetOptionBytes(message.OptionID(id))
			onWire := lp.Hex(raw)
			got, bad := c19Through(src, message.OptionID(id), f[2])
			if bad != "" {
				fmt.Fprintln(w, bad)
				return
			}
			szx, num, more, e := blockwise.DecodeBlockOption(got)
			if e != nil {
				k, _ := c19ErrKind(e)
				fmt.Fprintf(w, "sent %s err %s\n", onWire, k)
				return
			}
			fmt.Fprintf(w, "ok %s %d %d %d\n", onWire, szx, num, b2u(more))
		case f[0] == "wdec" && len(f) == 4:
			// wdec <23|27> <udp|tcp|raw> <hex>: a peer's option value (any bytes) -> (coder) -> GetOptionUint32 -> DecodeBlockOption
			id, e0 := strconv.ParseUint(f[1], 10, 16)
			var bs []byte
			var e1 error
			if f[3] != "-" {
				bs, e1 = hex.DecodeString(f[3])
			}
			if e0 != nil || e1 != nil {
				fmt.Fprintln(w, "bad-op")
				return
			}
			src := pool.NewMessage(context.Background())
			src.SetOptionBytes(message.OptionID(id), bs)
			got, bad := c19Through(src, message.OptionID(id), f[2])
			if bad != "" {
				fmt.Fprintln(w, bad)
				return
			}
			szx, num, more, e := blockwise.DecodeBlockOption(got)
			if e != nil {
				k, _ := c19ErrKind(e)
				fmt.Fprintf(w, "err %s\n", k)
				return
			}
			fmt.Fprintf(w, "ok %d %d %d\n", szx, num, b2u(more))
		case f[0] == "xfer" && len(f) == 6:
			// the codec inside a transfer (xfer.go): block <num> of a body of <body> bytes through the real block-wise layer
			c19Xfer(f, w)
		case f[0] == "size" && len(f) == 2:
			s, _ := strconv.ParseUint(f[1], 10, 8)
			fmt.Fprintf(w, "%d\n", blockwise.SZX(s).Size())
		case f[0] == "buf" && len(f) == 3:
			s, _ := strconv.ParseUint(f[1], 10, 8)
			mx, _ := strconv.ParseUint(f[2], 10, 32)
			fmt.Fprintf(w, "%d\n", blockwise.VerifBufferSize(blockwise.SZX(s), uint32(mx)))
		case f[0] == "digest" && len(f) == 4 && f[1] == "dec":
			lo, _ := strconv.ParseUint(f[2], 10, 64)
			hi, _ := strconv.ParseUint(f[3], 10, 64)
			hf, hn := lp.FnvInit, lp.FnvInit
			okc := 0
			for v := lo; v < hi; v++ {
				szx, num, more, e := blockwise.DecodeBlockOption(uint32(v))
				if e != nil {
					_, k := c19ErrKind(e)
					hf = lp.Mix(lp.Mix(hf, 0), k)
					hn = lp.Mix(hn, 0)
					continue
				}
				okc++
				for _, x := range []uint64{1, uint64(szx), uint64(num), b2u(more)} {
					hf = lp.Mix(hf, x)
					hn = lp.Mix(hn, x)
				}
			}
			fmt.Fprintf(w, "digest %s %s %d\n", lp.Hex64(hf), lp.Hex64(hn), okc)
		case f[0] == "digest" && len(f) == 6 && f[1] == "enc":
			s, _ := strconv.ParseUint(f[2], 10, 8)
			m, _ := strconv.ParseUint(f[3], 10, 8)
			lo, _ := strconv.ParseInt(f[4], 10, 64)
			hi, _ := strconv.ParseInt(f[5], 10, 64)
			hf, hn := lp.FnvInit, lp.FnvInit
			okc := 0
			for n := lo; n < hi; n++ {
				v, e := blockwise.EncodeBlockOption(blockwise.SZX(s), n, m != 0)
				if e != nil {
					_, k := c19ErrKind(e)
					hf = lp.Mix(lp.Mix(hf, 0), k)
					hn = lp.Mix(hn, 0)
					continue
				}
				okc++
				hf = lp.Mix(lp.Mix(hf, 1), uint64(v))
				hn = lp.Mix(lp.Mix(hn, 1), uint64(v))
			}
			fmt.Fprintf(w, "digest %s %s %d\n", lp.Hex64(hf), lp.Hex64(hn), okc)
		default:
			fmt.Fprintln(w, "bad-op")
		}
	})
}
