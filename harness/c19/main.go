package main

import (
	"bufio"
	"errors"
	"fmt"
	"strconv"

	"github.com/plgd-dev/go-coap/v3/net/blockwise"
	"verifharness/internal/lp"
)

func c19ErrKind(err error) (string, uint64) {
	switch {
	case errors.Is(err, blockwise.ErrInvalidSZX):
		return "invalidSZX", 1
	case errors.Is(err, blockwise.ErrBlockNumberExceedLimit):
		return "exceedLimit", 2
	case errors.Is(err, blockwise.ErrBlockInvalidSize):
		return "invalidSize", 3
	}
	return "other", 99
}

func b2u(b bool) uint64 {
	if b {
		return 1
	}
	return 0
}

func main() {
	lp.Loop(func(f []string, w *bufio.Writer) {
		defer func() {
			if r := recover(); r != nil {
				fmt.Fprintf(w, "panic %v\n", r)
			}
		}()
		if len(f) == 0 {
			fmt.Fprintln(w, "bad-op")
			return
		}
		switch {
		case f[0] == "dec" && len(f) == 2:
			v, err := strconv.ParseUint(f[1], 10, 32)
			if err != nil {
				fmt.Fprintln(w, "bad-op")
				return
			}
			szx, num, more, e := blockwise.DecodeBlockOption(uint32(v))
			if e != nil {
				k, _ := c19ErrKind(e)
				fmt.Fprintf(w, "err %s\n", k)
				return
			}
			fmt.Fprintf(w, "ok %d %d %d\n", szx, num, b2u(more))
		case f[0] == "enc" && len(f) == 4:
			s, e1 := strconv.ParseUint(f[1], 10, 8)
			n, e2 := strconv.ParseInt(f[2], 10, 64)
			m, e3 := strconv.ParseUint(f[3], 10, 8)
			if e1 != nil || e2 != nil || e3 != nil {
				fmt.Fprintln(w, "bad-op")
				return
			}
			v, e := blockwise.EncodeBlockOption(blockwise.SZX(s), n, m != 0)
			if e != nil {
				k, _ := c19ErrKind(e)
				fmt.Fprintf(w, "err %s\n", k)
				return
			}
			fmt.Fprintf(w, "ok %d\n", v)
		case f[0] == "size" && len(f) == 2:
			s, _ := strconv.ParseUint(f[1], 10, 8)
			fmt.Fprintf(w, "%d\n", blockwise.SZX(s).Size())
		case f[0] == "buf" && len(f) == 3:
			s, _ := strconv.ParseUint(f[1], 10, 8)
			mx, _ := strconv.ParseUint(f[2], 10, 32)
			fmt.Fprintf(w, "%d\n", blockwise.VerifBufferSize(blockwise.SZX(s), uint32(mx)))
		case f[0] == "digest" && len(f) == 4 && f[1] == "dec":
			lo, _ := strconv.ParseUint(f[2], 10, 64)
			hi, _ := strconv.ParseUint(f[3], 10, 64)
			hf, hn := lp.FnvInit, lp.FnvInit
			okc := 0
			for v := lo; v < hi; v++ {
				szx, num, more, e := blockwise.DecodeBlockOption(uint32(v))
				if e != nil {
					_, k := c19ErrKind(e)
					hf = lp.Mix(lp.Mix(hf, 0), k)
					hn = lp.Mix(hn, 0)
					continue
				}
				okc++
				for _, x := range []uint64{1, uint64(szx), uint64(num), b2u(more)} {
					hf = lp.Mix(hf, x)
					hn = lp.Mix(hn, x)
				}
			}
			fmt.Fprintf(w, "digest %s %s %d\n", lp.Hex64(hf), lp.Hex64(hn), okc)
		case f[0] == "digest" && len(f) == 6 && f[1] == "enc":
			s, _ := strconv.ParseUint(f[2], 10, 8)
			m, _ := strconv.ParseUint(f[3], 10, 8)
			lo, _ := strconv.ParseInt(f[4], 10, 64)
			hi, _ := strconv.ParseInt(f[5], 10, 64)
			hf, hn := lp.FnvInit, lp.FnvInit
			okc := 0
			for n := lo; n < hi; n++ {
				v, e := blockwise.EncodeBlockOption(blockwise.SZX(s), n, m != 0)
				if e != nil {
					_, k := c19ErrKind(e)
					hf = lp.Mix(lp.Mix(hf, 0), k)
					hn = lp.Mix(hn, 0)
					continue
				}
				okc++
				hf = lp.Mix(lp.Mix(hf, 1), uint64(v))
				hn = lp.Mix(lp.Mix(hn, 1), uint64(v))
			}
			fmt.Fprintf(w, "digest %s %s %d\n", lp.Hex64(hf), lp.Hex64(hn), okc)
		default:
			fmt.Fprintln(w, "bad-op")
		}
	})
}
