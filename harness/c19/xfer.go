package main

import (
	"bufio"
	"bytes"
	"context"
	"errors"
	"fmt"
	"io"
	"strconv"
	"time"

	"github.com/plgd-dev/go-coap/v3/message"
	"github.com/plgd-dev/go-coap/v3/message/codes"
	"github.com/plgd-dev/go-coap/v3/message/pool"
	"github.com/plgd-dev/go-coap/v3/net/blockwise"
	"github.com/plgd-dev/go-coap/v3/net/responsewriter"
)

// The codec inside a transfer: `xfer <dl|ul|wm> <szx> <maxMessageSize> <body> <num>` asks the real block-wise layer for
// block number <num> of a body of <body> bytes in blocks of exponent <szx> - any block of any body, at the price of two
// messages, because block-wise transfers are random access (a Block2 request names the block it wants; a 2.31 Continue
// names the block it acknowledges) and the body is a virtual io.ReadSeeker (byte i is a function of i; 1 GiB costs nothing).
//
//	dl  BlockWise.Handle: a GET without Block2 (the handler answers with the body), then a GET with Block2 = <num>·16 + <szx>
//	ul  BlockWise.Do with a POST carrying the body; inside `do` the peer's 2.31 Continue for the block before <num>
//	wm  BlockWise.WriteMessage with a POST carrying the body, then the peer's 2.31 Continue for the block before <num>
//
// Output: `ok <block option value> <payload length> <size option> <data-ok|data-bad>` for the block the layer produced,
// `plain <length>` when the message left without a block option, `err <kind>` when the layer refused, `skip` when no 2.31
// Continue can lead to block <num> (its predecessor's number cannot be written, or <num> lies inside the first BERT block).

type c19Client struct{}

func (c19Client) AcquireMessage(ctx context.Context) *pool.Message { return pool.NewMessage(ctx) }
func (c19Client) ReleaseMessage(*pool.Message)                     {}

func c19BodyByte(i int64) byte {
	return byte(i) ^ byte(i>>8)*3 ^ byte(i>>16)*5 ^ byte(i>>24)*7
}

// c19Body is a body of `size` bytes that is never materialised.
type c19Body struct {
	size, pos int64
}

func (b *c19Body) Read(p []byte) (int, error) {
	if b.pos >= b.size {
		return 0, io.EOF
	}
	n := int64(len(p))
	if n > b.size-b.pos {
		n = b.size - b.pos
	}
	for i := int64(0); i < n; i++ {
		p[i] = c19BodyByte(b.pos + i)
	}
	b.pos += n
	return int(n), nil
}

func (b *c19Body) Seek(offset int64, whence int) (int64, error) {
	var abs int64
	switch whence {
	case io.SeekStart:
		abs = offset
	case io.SeekCurrent:
		abs = b.pos + offset
	case io.SeekEnd:
		abs = b.size + offset
	default:
		return 0, errors.New("c19Body.Seek: invalid whence")
	}
	if abs < 0 {
		return 0, errors.New("c19Body.Seek: negative position")
	}
	b.pos = abs
	return abs, nil
}

func c19Block(m *pool.Message, blockID, sizeID message.OptionID, unit int64) string {
	val, err := m.GetOptionUint32(blockID)
	payload := []byte{}
	if m.Body() != nil {
		if _, errS := m.Body().Seek(0, io.SeekStart); errS != nil {
			return "err body"
		}
		p, errR := io.ReadAll(m.Body())
		if errR != nil {
			return "err body"
		}
		payload = p
	}
	if err != nil {
		return fmt.Sprintf("plain %d", len(payload))
	}
	size := "-"
	if s, errS := m.GetOptionUint32(sizeID); errS == nil {
		size = strconv.FormatUint(uint64(s), 10)
	}
	// the payload must be the part of the body that the block number in the option names
	off := int64(val>>4) * unit
	want := make([]byte, len(payload))
	for i := range want {
		want[i] = c19BodyByte(off + int64(i))
	}
	data := "data-ok"
	if !bytes.Equal(want, payload) {
		data = "data-bad"
	}
	return fmt.Sprintf("ok %d %d %s %s", val, len(payload), size, data)
}

func c19Xfer(f []string, w *bufio.Writer) {
	s, e1 := strconv.ParseUint(f[2], 10, 8)
	mx, e2 := strconv.ParseUint(f[3], 10, 32)
	body, e3 := strconv.ParseInt(f[4], 10, 63)
	num, e4 := strconv.ParseInt(f[5], 10, 63)
	if e1 != nil || e2 != nil || e3 != nil || e4 != nil || num < 0 || body < 0 {
		fmt.Fprintln(w, "bad-op")
		return
	}
	szx := blockwise.SZX(s)
	unit := szx.Size()
	if unit <= 0 {
		unit = 1
	}
	var errs []error
	bw := blockwise.New(c19Client{}, time.Hour, func(err error) { errs = append(errs, err) }, nil)
	token := message.Token{0xc1, 0x9c, byte(s)}
	fail := func(err error) {
		k, _ := c19ErrKind(err)
		fmt.Fprintf(w, "err %s\n", k)
	}
	// the 2.31 Continue of the peer that acknowledges the block sent before block <num>
	ack := func() (*pool.Message, bool) {
		prev := num - blockwise.VerifBufferSize(szx, uint32(mx))/unit
		if prev < 0 || prev >= num {
			return nil, false
		}
		val, err := blockwise.EncodeBlockOption(szx, prev, true)
		if err != nil {
			return nil, false
		}
		a := pool.NewMessage(context.Background())
		a.SetCode(codes.Continue)
		a.SetToken(token)
		a.SetOptionUint32(message.Block1, val)
		return a, true
	}
	next := func(a *pool.Message) string {
		rw := responsewriter.New(pool.NewMessage(context.Background()), c19Client{})
		handed := false
		bw.Handle(rw, a, szx, uint32(mx), func(*responsewriter.ResponseWriter[c19Client], *pool.Message) { handed = true })
		if len(errs) > 0 {
			k, _ := c19ErrKind(errs[0])
			return "err " + k
		}
		if handed {
			return "err handed-to-application"
		}
		return c19Block(rw.Message(), message.Block1, message.Size1, unit)
	}
	switch f[1] {
	case "dl":
		handler := func(rw *responsewriter.ResponseWriter[c19Client], _ *pool.Message) {
			if err := rw.SetResponse(codes.Content, message.AppOctets, &c19Body{size: body}); err != nil {
				errs = append(errs, err)
			}
		}
		var out string
		for step := 0; step < 2; step++ {
			req := pool.NewMessage(context.Background())
			req.SetCode(codes.GET)
			req.SetToken(token)
			if step == 1 {
				v := uint64(num)<<4 | uint64(s&7)
				if num >= 1<<27 || s > 7 {
					fmt.Fprintln(w, "bad-op")
					return
				}
				req.SetOptionUint32(message.Block2, uint32(v))
			}
			resp := pool.NewMessage(context.Background())
			resp.SetToken(token)
			rw := responsewriter.New(resp, c19Client{})
			bw.Handle(rw, req, szx, uint32(mx), handler)
			if len(errs) > 0 {
				fail(errs[0])
				return
			}
			out = c19Block(rw.Message(), message.Block2, message.Size2, unit)
			if num == 0 {
				break
			}
		}
		fmt.Fprintln(w, out)
	case "ul":
		req := pool.NewMessage(context.Background())
		req.SetCode(codes.POST)
		req.SetToken(token)
		req.SetBody(&c19Body{size: body})
		out := ""
		_, err := bw.Do(req, szx, uint32(mx), func(first *pool.Message) (*pool.Message, error) {
			if num == 0 {
				out = c19Block(first, message.Block1, message.Size1, unit)
			} else if a, ok := ack(); ok {
				out = next(a)
			} else {
				out = "skip" // the peer cannot name the block before <num> on this entrance
			}
			final := pool.NewMessage(context.Background())
			final.SetCode(codes.Changed)
			final.SetToken(token)
			return final, nil
		})
		if err != nil {
			fail(err)
			return
		}
		fmt.Fprintln(w, out)
	case "wm":
		req := pool.NewMessage(context.Background())
		req.SetCode(codes.POST)
		req.SetToken(token)
		req.SetBody(&c19Body{size: body})
		out := ""
		err := bw.WriteMessage(req, szx, uint32(mx), func(first *pool.Message) error {
			out = c19Block(first, message.Block1, message.Size1, unit)
			return nil
		})
		if err != nil {
			fail(err)
			return
		}
		if num > 0 {
			a, ok := ack()
			if !ok {
				fmt.Fprintln(w, "skip") // the peer cannot name the block before <num> on this entrance
				return
			}
			out = next(a)
		}
		fmt.Fprintln(w, out)
	default:
		fmt.Fprintln(w, "bad-op")
	}
}
