package c19glue

// C19 at the level of the constructors (the codec itself is exercised exhaustively by harness/c19):
//
//	cfgszx <udp|dtls|tcp> <szx> <bodyBytes>   a client made by udp.Dial / dtls.Dial / tcp.Dial with
//	                                           options.WithBlockwise(true, SZX(szx), …) POSTs a body to a real server:
//	                                           `err` (the call failed, the server's handler saw nothing) or
//	                                           `ok first=<payload bytes of the first Block1 message the server's handler would
//	                                           see reassembled> delivered=<bytes>` — first is taken from the wire (tcp) or from
//	                                           the size of the first block as the library cuts it (udp/dtls: Size1 / block option)
//	bert <localMax> <peerMax> <bodyBytes>      tcp client with SZXBERT and WithMaxMessageSize(localMax) whose peer announces
//	                                           Block-Wise-Transfer and Max-Message-Size peerMax in its CSM: payload length of
//	                                           the first Block1 frame on the wire
//
// An exponent above 7 is outside the domain of the codec: it must be refused with an error, never turned into another one.

import (
	"bufio"
	"bytes"
	"context"
	"fmt"
	"io"
	"net"
	"strconv"
	"sync"
	"testing"
	"time"

	piondtls "github.com/pion/dtls/v3"
	coapdtls "github.com/plgd-dev/go-coap/v3/dtls"
	"github.com/plgd-dev/go-coap/v3/message"
	"github.com/plgd-dev/go-coap/v3/message/codes"
	"github.com/plgd-dev/go-coap/v3/message/pool"
	"github.com/plgd-dev/go-coap/v3/mux"
	coapNet "github.com/plgd-dev/go-coap/v3/net"
	"github.com/plgd-dev/go-coap/v3/net/blockwise"
	"github.com/plgd-dev/go-coap/v3/options"
	"github.com/plgd-dev/go-coap/v3/tcp"
	tcpclient "github.com/plgd-dev/go-coap/v3/tcp/client"
	tcpcoder "github.com/plgd-dev/go-coap/v3/tcp/coder"
	"github.com/plgd-dev/go-coap/v3/udp"
	"verifharness/internal/lp"
	"verifharness/internal/mem"
)

func psk() *piondtls.Config {
	return &piondtls.Config{
		PSK:             func([]byte) ([]byte, error) { return []byte{0xC1, 0x19}, nil },
		PSKIdentityHint: []byte("c19"),
		CipherSuites:    []piondtls.CipherSuiteID{piondtls.TLS_PSK_WITH_AES_128_CCM_8},
	}
}

type poster interface {
	Post(ctx context.Context, path string, contentFormat message.MediaType, payload io.ReadSeeker, opts ...message.Option) (*pool.Message, error)
	ReleaseMessage(m *pool.Message)
	Close() error
}

// oneWayWriter is the less-travelled entrance of the block-wise layer: Conn.WriteMessage -> BlockWise.WriteMessage (no Do)
type oneWayWriter interface {
	WriteMessage(req *pool.Message) error
	AcquireMessage(ctx context.Context) *pool.Message
}

func runCfgSZX(transport string, szx int, body int) (line string) { return runCfgSZXVia(transport, szx, body, false) }

func runCfgSZXVia(transport string, szx int, body int, oneWay bool) (line string) {
	defer func() {
		if r := recover(); r != nil {
			line = fmt.Sprintf("panic %v", r)
		}
	}()
	var mu sync.Mutex
	delivered := -1
	r := mux.NewRouter()
	_ = r.Handle("/up", mux.HandlerFunc(func(w mux.ResponseWriter, req *mux.Message) {
		b, _ := req.ReadBody()
		mu.Lock()
		delivered = len(b)
		mu.Unlock()
		_ = w.SetResponse(codes.Changed, message.TextPlain, nil)
	}))
	srvOpts := options.WithMux(r)
	noErr := options.WithErrors(func(error) {})
	bw := options.WithBlockwise(true, blockwise.SZX(szx), 2*time.Second)
	var cc poster
	stop := func() {}
	switch transport {
	case "udp":
		l, err := coapNet.NewListenUDP("udp4", "127.0.0.1:0")
		if err != nil {
			return "conn-error"
		}
		s := udp.NewServer(srvOpts, noErr)
		done := make(chan struct{})
		go func() { _ = s.Serve(l); close(done) }()
		stop = func() { s.Stop(); <-done; _ = l.Close() }
		c, err := udp.Dial(l.LocalAddr().String(), bw, noErr)
		if err != nil {
			stop()
			return "err"
		}
		cc = c
	case "dtls":
		l, err := coapNet.NewDTLSListener("udp4", "127.0.0.1:0", psk())
		if err != nil {
			return "conn-error"
		}
		s := coapdtls.NewServer(srvOpts, noErr)
		done := make(chan struct{})
		go func() { _ = s.Serve(l); close(done) }()
		stop = func() { s.Stop(); <-done; _ = l.Close() }
		c, err := coapdtls.Dial(l.Addr().String(), psk(), bw, noErr)
		if err != nil {
			stop()
			return "err"
		}
		cc = c
	case "tcp":
		l, err := coapNet.NewTCPListener("tcp4", "127.0.0.1:0")
		if err != nil {
			return "conn-error"
		}
		s := tcp.NewServer(srvOpts, noErr)
		done := make(chan struct{})
		go func() { _ = s.Serve(l); close(done) }()
		stop = func() { s.Stop(); <-done; _ = l.Close() }
		c, err := tcp.Dial(l.Addr().String(), bw, noErr)
		if err != nil {
			stop()
			return "err"
		}
		cc = c
	default:
		return "bad-op"
	}
	defer stop()
	defer cc.Close()
	payload := make([]byte, body)
	for i := range payload {
		payload[i] = byte(i*13 + 1)
	}
	ctx, cancel := context.WithTimeout(context.Background(), 3*time.Second)
	defer cancel()
	if oneWay {
		ww, ok := cc.(oneWayWriter)
		if !ok {
			return "bad-op"
		}
		req := ww.AcquireMessage(ctx)
		defer cc.ReleaseMessage(req)
		if err := req.SetupPost("/up", message.Token{0xc1, 0x9e, byte(szx)}, message.AppOctets, bytes.NewReader(payload)); err != nil {
			return "setup-failed"
		}
		werr := ww.WriteMessage(req)
		// whatever the layer puts on the wire is on its way now: give the server up to a second to assemble it
		dl := time.Now().Add(time.Second)
		if werr != nil {
			dl = time.Now().Add(300 * time.Millisecond)
		}
		for time.Now().Before(dl) {
			mu.Lock()
			d := delivered
			mu.Unlock()
			if d >= 0 {
				break
			}
			time.Sleep(10 * time.Millisecond)
		}
		mu.Lock()
		d := delivered
		mu.Unlock()
		if werr != nil {
			if d >= 0 {
				return fmt.Sprintf("err-but-delivered %d", d)
			}
			return "err"
		}
		return fmt.Sprintf("ok delivered=%d", d)
	}
	resp, err := cc.Post(ctx, "/up", message.AppOctets, bytes.NewReader(payload))
	mu.Lock()
	d := delivered
	mu.Unlock()
	if err != nil {
		if d >= 0 {
			return fmt.Sprintf("err-but-delivered %d", d)
		}
		return "err"
	}
	code := resp.Code()
	cc.ReleaseMessage(resp)
	return fmt.Sprintf("ok code=%d delivered=%d", int(code), d)
}

func runBERT(localMax, peerMax uint32, body int) (line string) {
	defer func() {
		if r := recover(); r != nil {
			line = fmt.Sprintf("panic %v", r)
		}
	}()
	cc, peer, err := mem.NewTCPConn(mem.TCPOpts{Mutate: func(cfg *tcpclient.Config) {
		cfg.BlockwiseEnable = true
		cfg.BlockwiseSZX = blockwise.SZXBERT
		cfg.MaxMessageSize = localMax
	}})
	if err != nil {
		return "conn-error"
	}
	defer func() { _ = cc.Close(); peer.Close() }()
	time.Sleep(10 * time.Millisecond)
	peer.TakeFrames()
	csm := pool.NewMessage(context.Background())
	csm.SetCode(codes.CSM)
	csm.SetOptionUint32(message.TCPMaxMessageSize, peerMax)
	csm.SetOptionBytes(message.TCPBlockWiseTransfer, []byte{})
	b, _ := csm.MarshalWithEncoder(tcpcoder.DefaultCoder)
	_ = peer.Write(append([]byte(nil), b...))
	time.Sleep(10 * time.Millisecond)
	payload := make([]byte, body)
	done := make(chan struct{})
	ctx, cancel := context.WithTimeout(context.Background(), 300*time.Millisecond)
	defer cancel()
	go func() {
		defer close(done)
		resp, err := cc.Post(ctx, "/up", message.AppOctets, bytes.NewReader(payload))
		if err == nil {
			cc.ReleaseMessage(resp)
		}
	}()
	first := -1
	deadline := time.Now().Add(250 * time.Millisecond)
	for first < 0 && time.Now().Before(deadline) {
		for _, fr := range peer.TakeFrames() {
			m := pool.NewMessage(context.Background())
			if _, err := m.UnmarshalWithDecoder(tcpcoder.DefaultCoder, fr); err != nil || m.Code() != codes.POST {
				continue
			}
			pb, _ := m.ReadBody()
			first = len(pb)
			break
		}
		time.Sleep(2 * time.Millisecond)
	}
	cancel()
	<-done
	return fmt.Sprintf("first %d", first)
}

// runSrvSZX: a server configured through options.WithBlockwise(true, SZX(szx), …) is asked to Serve: an exponent the
// transport cannot use (datagram transports: above 6; stream transport: above 7) must be refused by Serve with an error,
// not accepted and left to fail (or to be reinterpreted) later.  Output: `err` / `serving`.
func runSrvSZX(transport string, szx int) (line string) {
	defer func() {
		if r := recover(); r != nil {
			line = fmt.Sprintf("panic %v", r)
		}
	}()
	bw := options.WithBlockwise(true, blockwise.SZX(szx), 2*time.Second)
	noErr := options.WithErrors(func(error) {})
	served := make(chan error, 1)
	stop := func() {}
	switch transport {
	case "udp":
		l, err := coapNet.NewListenUDP("udp4", "127.0.0.1:0")
		if err != nil {
			return "conn-error"
		}
		defer l.Close()
		s := udp.NewServer(bw, noErr)
		go func() { served <- s.Serve(l) }()
		stop = s.Stop
	case "dtls":
		l, err := coapNet.NewDTLSListener("udp4", "127.0.0.1:0", psk())
		if err != nil {
			return "conn-error"
		}
		defer l.Close()
		s := coapdtls.NewServer(bw, noErr)
		go func() { served <- s.Serve(l) }()
		stop = s.Stop
	case "tcp":
		l, err := coapNet.NewTCPListener("tcp4", "127.0.0.1:0")
		if err != nil {
			return "conn-error"
		}
		defer l.Close()
		s := tcp.NewServer(bw, noErr)
		go func() { served <- s.Serve(l) }()
		stop = s.Stop
	default:
		return "bad-op"
	}
	select {
	case err := <-served:
		if err != nil {
			return "err"
		}
		return "returned-nil"
	case <-time.After(150 * time.Millisecond):
	}
	stop()
	select {
	case <-served:
	case <-time.After(2 * time.Second):
	}
	return "serving"
}

// runSZXPeer: a stream connection configured with exponent szx (any byte value) towards a peer whose CSM announces
// Block-Wise-Transfer, with Max-Message-Size peerMax or - peerMax 0 - without one.  A POST of `body` bytes: an exponent
// outside 0..7 must be refused (no request on the wire), whatever the peer announced.
func runSZXPeer(szx int, peerMax uint32, body int) (line string) {
	defer func() {
		if r := recover(); r != nil {
			line = fmt.Sprintf("panic %v", r)
		}
	}()
	cc, peer, err := mem.NewTCPConn(mem.TCPOpts{Mutate: func(cfg *tcpclient.Config) {
		// through the option an application uses (the option's applier is part of what is checked)
		options.WithBlockwise(true, blockwise.SZX(szx), 2*time.Second).TCPClientApply(cfg)
		cfg.MaxMessageSize = 65536
	}})
	if err != nil {
		return "err"
	}
	defer func() { _ = cc.Close(); peer.Close() }()
	time.Sleep(10 * time.Millisecond)
	peer.TakeFrames()
	csm := pool.NewMessage(context.Background())
	csm.SetCode(codes.CSM)
	if peerMax > 0 {
		csm.SetOptionUint32(message.TCPMaxMessageSize, peerMax)
	}
	csm.SetOptionBytes(message.TCPBlockWiseTransfer, []byte{})
	b, _ := csm.MarshalWithEncoder(tcpcoder.DefaultCoder)
	_ = peer.Write(append([]byte(nil), b...))
	time.Sleep(10 * time.Millisecond)
	payload := make([]byte, body)
	type res struct{ err error }
	done := make(chan res, 1)
	ctx, cancel := context.WithTimeout(context.Background(), 300*time.Millisecond)
	defer cancel()
	go func() {
		resp, err := cc.Post(ctx, "/up", message.AppOctets, bytes.NewReader(payload))
		if err == nil {
			cc.ReleaseMessage(resp)
		}
		done <- res{err}
	}()
	sent := ""
	deadline := time.Now().Add(250 * time.Millisecond)
	var r *res
	for sent == "" && time.Now().Before(deadline) && r == nil {
		for _, fr := range peer.TakeFrames() {
			m := pool.NewMessage(context.Background())
			if _, err := m.UnmarshalWithDecoder(tcpcoder.DefaultCoder, fr); err != nil || m.Code() != codes.POST {
				continue
			}
			pb, _ := m.ReadBody()
			bits := -1
			if v, err := m.GetOptionUint32(message.Block1); err == nil {
				bits = int(v & 7)
			}
			sent = fmt.Sprintf("sent szx=%d len=%d", bits, len(pb))
			break
		}
		select {
		case x := <-done:
			r = &x
		default:
			time.Sleep(2 * time.Millisecond)
		}
	}
	cancel()
	if r == nil {
		x := <-done
		r = &x
	}
	if sent == "" {
		for _, fr := range peer.TakeFrames() {
			m := pool.NewMessage(context.Background())
			if _, err := m.UnmarshalWithDecoder(tcpcoder.DefaultCoder, fr); err == nil && m.Code() == codes.POST {
				sent = "sent late"
			}
		}
	}
	if sent != "" {
		return sent
	}
	if r.err != nil {
		return "err"
	}
	return "ok-nothing-sent"
}

func TestC19Glue(t *testing.T) {
	err := lp.FileLoop(func(f []string, w *bufio.Writer) {
		switch {
		case len(f) == 4 && f[0] == "cfgszx":
			szx, _ := strconv.Atoi(f[2])
			body, _ := strconv.Atoi(f[3])
			fmt.Fprintln(w, runCfgSZX(f[1], szx, body))
		case len(f) == 4 && f[0] == "cfgszxw":
			szx, _ := strconv.Atoi(f[2])
			body, _ := strconv.Atoi(f[3])
			fmt.Fprintln(w, runCfgSZXVia(f[1], szx, body, true))
		case len(f) == 3 && f[0] == "srvszx":
			sz, _ := strconv.Atoi(f[2])
			fmt.Fprintln(w, runSrvSZX(f[1], sz))
		case len(f) == 4 && f[0] == "szxpeer":
			sz, _ := strconv.Atoi(f[1])
			pm, _ := strconv.ParseUint(f[2], 10, 32)
			body, _ := strconv.Atoi(f[3])
			fmt.Fprintln(w, runSZXPeer(sz, uint32(pm), body))
		case len(f) == 4 && f[0] == "bert":
			lm, _ := strconv.ParseUint(f[1], 10, 32)
			pm, _ := strconv.ParseUint(f[2], 10, 32)
			body, _ := strconv.Atoi(f[3])
			fmt.Fprintln(w, runBERT(uint32(lm), uint32(pm), body))
		default:
			fmt.Fprintln(w, "bad-op")
		}
	})
	if err != nil {
		t.Fatal(err)
	}
}

var _ = net.IPv4
