// Harness for C20 (No-Response, RFC 7967): predicate lines call noresponse.IsNoResponseCode
// directly; srv lines run a real udp/tcp client.Conn (in-memory transport, synctest bubble) whose
// handler calls ResponseWriter.SetResponse and report what was put on the wire.
package c20

import (
	"bufio"
	"bytes"
	"context"
	"fmt"
	"net"
	"strconv"
	"strings"
	"sync"
	"testing"
	"testing/synctest"
	"time"

	"github.com/plgd-dev/go-coap/v3/message"
	"github.com/plgd-dev/go-coap/v3/message/codes"
	"github.com/plgd-dev/go-coap/v3/message/noresponse"
	"github.com/plgd-dev/go-coap/v3/message/pool"
	"github.com/plgd-dev/go-coap/v3/mux"
	coapNet "github.com/plgd-dev/go-coap/v3/net"
	"github.com/plgd-dev/go-coap/v3/net/responsewriter"
	"github.com/plgd-dev/go-coap/v3/options"
	tcpclient "github.com/plgd-dev/go-coap/v3/tcp/client"
	tcpcoder "github.com/plgd-dev/go-coap/v3/tcp/coder"
	"github.com/plgd-dev/go-coap/v3/udp"
	udpclient "github.com/plgd-dev/go-coap/v3/udp/client"
	udpcoder "github.com/plgd-dev/go-coap/v3/udp/coder"
	"verifharness/internal/lp"
	"verifharness/internal/mem"
)

var reqToken = message.Token{0xa1, 0xb2}

// message ID of the harness's request; a variable so that a case can be repeated with another one when the connection's own
// (randomly seeded) message-ID counter happens to produce the same value for an unrelated message
var reqMID int32 = 0x1234

// handlerMutates: option numbers the handler inserts into ITS request object before calling SetResponse (a handler may
// normalise or annotate the request it was given; that must not change what the requester asked to suppress)
var handlerMutates []message.OptionID

// badLength: option numbers the request carries with a value length the option registry does not allow (5 bytes in a uint
// option of at most 4): the decoder skips such an option - the options BEHIND it, No-Response among them, must keep their numbers
var badLength []message.OptionID

// bwMode (`srvbw` lines): the connection has block-wise transfer enabled and the request is a GET that asks for the size of
// the representation (Size2: 0, RFC 7959 section 4) - the block-wise layer sits between the response writer and the wire
var bwMode bool

// handlerMode: "" = the connection's handler calls ResponseWriter.SetResponse directly; "mux" = the handler is a mux.Router
// installed through options.WithMux (the writer the application sees is mux's wrapper); "mw" = the same with a middleware
// that stamps an option on the response message before the handler runs
var handlerMode string

// hijackRelease (`srvh` lines): the handler takes the request over (Hijack) and hands it back to the pool before it
// responds — fire-and-forget processing of the request by another owner; what the requester asked for must still hold
var hijackRelease bool

// callCodes (`srvn` lines): the handler calls SetResponse once per code, in this order (nil: once, with the line's code)
var callCodes []codes.Code

// setCalls makes the handler's SetResponse call(s) and reports their outcomes ("accepted" / "refused", comma separated)
func setCalls(code codes.Code, set func(codes.Code) error) string {
	cs := callCodes
	if cs == nil {
		cs = []codes.Code{code}
	}
	var out []string
	for _, c := range cs {
		if err := set(c); err != nil {
			out = append(out, "refused")
		} else {
			out = append(out, "accepted")
		}
	}
	return strings.Join(out, ",")
}

func muxHandler(code codes.Code, set *string) mux.Handler {
	r := mux.NewRouter()
	if handlerMode == "mw" {
		r.Use(func(next mux.Handler) mux.Handler {
			return mux.HandlerFunc(func(w mux.ResponseWriter, req *mux.Message) {
				w.Message().SetOptionBytes(message.MaxAge, []byte{0x3c})
				next.ServeCOAP(w, req)
			})
		})
	}
	_ = r.Handle("/x", mux.HandlerFunc(func(w mux.ResponseWriter, req *mux.Message) {
		for _, id := range handlerMutates {
			req.SetOptionBytes(id, []byte{0x68, byte(id)})
		}
		*set = setCalls(code, func(c codes.Code) error { return w.SetResponse(c, message.TextPlain, nil) })
	}))
	return r
}

func typeName(t message.Type) string {
	switch t {
	case message.Confirmable:
		return "con"
	case message.NonConfirmable:
		return "non"
	case message.Acknowledgement:
		return "ack"
	case message.Reset:
		return "rst"
	}
	return fmt.Sprintf("t%d", int(t))
}

// reqMethod (`srvm` lines): the request's method code (default POST); RFC 8132's FETCH / PATCH / iPATCH (5, 6, 7) are delivered
// to handlers like the four core methods.  reqPath (`srvnf` lines): a path the router has no route for.
var reqMethod = codes.POST
var reqPath = "/x"

func buildReq(udp bool, con bool, v int64, extra ...message.OptionID) []byte {
	m := pool.NewMessage(context.Background())
	m.SetCode(reqMethod)
	m.SetToken(reqToken)
	_ = m.SetPath(reqPath)
	if bwMode {
		m.SetCode(codes.GET)
		m.SetOptionUint32(message.Size2, 0)
	}
	if v >= 0 {
		m.SetOptionUint32(message.NoResponse, uint32(v))
	}
	for _, id := range extra { // further options of the request, possibly numbered above No-Response
		m.SetOptionBytes(id, []byte{0x5a, byte(id)})
	}
	for _, id := range badLength {
		m.SetOptionBytes(id, []byte{1, 2, 3, 4, 5})
	}
	if udp {
		m.SetMessageID(reqMID)
		m.SetType(message.NonConfirmable)
		if con {
			m.SetType(message.Confirmable)
		}
		b, err := m.MarshalWithEncoder(udpcoder.DefaultCoder)
		if err != nil {
			panic(err)
		}
		return append([]byte(nil), b...)
	}
	b, err := m.MarshalWithEncoder(tcpcoder.DefaultCoder)
	if err != nil {
		panic(err)
	}
	return append([]byte(nil), b...)
}

func srvUDP(t *testing.T, con bool, v int64, code codes.Code, extra ...message.OptionID) (line string) {
	for _, id := range []int32{0x1234, 0x5a5a, 0x0777} {
		reqMID = id
		coincidence := false
		line = srvUDPOnce(t, con, v, code, &coincidence, extra...)
		if !coincidence {
			break
		}
	}
	reqMID = 0x1234
	return line
}

// preludeValue (`srvp` lines, -2 = none): an EARLIER request on the same connection carried No-Response with this value (its own
// message ID and token, answered / suppressed as it deserves); the request that is judged comes second
var preludeValue int64 = -2

// dupRequest (`srvd` lines): the same datagram is handed to the connection a second time (the peer's retransmission after a
// lost acknowledgement); what goes out for the copy is rendered like the first answer and compared with it
var dupRequest bool

func srvUDPOnce(t *testing.T, con bool, v int64, code codes.Code, coincidence *bool, extra ...message.OptionID) (line string) {
	synctest.Test(t, func(t *testing.T) {
		set := "nocall"
		cc, s := mem.NewUDPConn(mem.UDPOpts{Blockwise: bwMode, Mutate: func(cfg *udpclient.Config) {
			if handlerMode != "" {
				options.WithMux(muxHandler(code, &set)).UDPClientApply(cfg)
				return
			}
			cfg.Handler = func(w *responsewriter.ResponseWriter[*udpclient.Conn], r *pool.Message) {
				for _, id := range handlerMutates {
					r.SetOptionBytes(id, []byte{0x68, byte(id)})
				}
				if hijackRelease {
					r.Hijack()
					w.Conn().ReleaseMessage(r)
				}
				set = setCalls(code, func(c codes.Code) error { return w.SetResponse(c, message.TextPlain, nil) })
			}
		}})
		if preludeValue > -2 {
			savedMID, savedTok := reqMID, reqToken
			reqMID, reqToken = reqMID+0x0101, message.Token{0x9e, 0x11}
			_ = cc.Process(nil, buildReq(true, con, preludeValue))
			reqMID, reqToken = savedMID, savedTok
			synctest.Wait()
			s.TakeSent()
			set = "nocall"
		}
		if err := cc.Process(nil, buildReq(true, con, v, extra...)); err != nil {
			set = "process-error"
		}
		synctest.Wait()
		var b bytes.Buffer
		render := func(b *bytes.Buffer, sent []mem.Sent) {
			for _, d := range sent {
				m := pool.NewMessage(context.Background())
				if _, err := m.UnmarshalWithDecoder(udpcoder.DefaultCoder, d.Data); err != nil {
					fmt.Fprintf(b, " undecodable")
					continue
				}
				mid := "own"
				if m.MessageID() == reqMID {
					mid = "req"
					if m.Type() != message.Acknowledgement && m.Type() != message.Reset {
						// a message with its own ID that happens to equal ours: repeat the case with another request ID
						*coincidence = true
					}
				}
				fmt.Fprintf(b, " %s %d %s %s", typeName(m.Type()), m.Code(), mid, lp.Hex(m.Token()))
			}
		}
		sent := s.TakeSent()
		fmt.Fprintf(&b, "set %s sent %d", set, len(sent))
		render(&b, sent)
		line = b.String()
		if dupRequest {
			var first, second bytes.Buffer
			render(&first, sent)
			if err := cc.Process(nil, buildReq(true, con, v, extra...)); err != nil {
				second.WriteString(" process-error")
			}
			synctest.Wait()
			again := s.TakeSent()
			render(&second, again)
			if first.String() == second.String() {
				line += " dup same"
			} else {
				line += fmt.Sprintf(" dup differs sent %d%s", len(again), second.String())
			}
		}
		_ = cc.Close()
		synctest.Wait()
	})
	return line
}

func srvTCP(t *testing.T, v int64, code codes.Code, extra ...message.OptionID) (line string) {
	synctest.Test(t, func(t *testing.T) {
		set := "nocall"
		cc, peer, err := mem.NewTCPConn(mem.TCPOpts{Mutate: func(cfg *tcpclient.Config) {
			cfg.BlockwiseEnable = bwMode
			if handlerMode != "" {
				options.WithMux(muxHandler(code, &set)).TCPClientApply(cfg)
				return
			}
			cfg.Handler = func(w *responsewriter.ResponseWriter[*tcpclient.Conn], r *pool.Message) {
				for _, id := range handlerMutates {
					r.SetOptionBytes(id, []byte{0x68, byte(id)})
				}
				if hijackRelease {
					r.Hijack()
					w.Conn().ReleaseMessage(r)
				}
				set = setCalls(code, func(c codes.Code) error { return w.SetResponse(c, message.TextPlain, nil) })
			}
		}})
		if err != nil {
			line = "conn-error " + err.Error()
			return
		}
		synctest.Wait()
		peer.TakeFrames() // the connection's own CSM
		if err := peer.Write(buildReq(false, false, v, extra...)); err != nil {
			set = "write-error"
		}
		synctest.Wait()
		var b bytes.Buffer
		frames := peer.TakeFrames()
		fmt.Fprintf(&b, "set %s sent %d", set, len(frames))
		for _, d := range frames {
			m := pool.NewMessage(context.Background())
			if _, err := m.UnmarshalWithDecoder(tcpcoder.DefaultCoder, d); err != nil {
				fmt.Fprintf(&b, " undecodable")
				continue
			}
			fmt.Fprintf(&b, " - %d - %s", m.Code(), lp.Hex(m.Token()))
		}
		line = b.String()
		_ = cc.Close()
		peer.Close()
		synctest.Wait()
	})
	return line
}

// srvReal: the request is handled by a connection that a real udp.Server created for the peer (its handler is the server's
// wrapper around the configured one); multi: the datagram's control message says it was addressed to a multicast group.
func srvReal(multi, con bool, v int64, code codes.Code) (line string) {
	defer func() {
		if r := recover(); r != nil {
			line = fmt.Sprintf("panic %v", r)
		}
	}()
	l, err := coapNet.NewListenUDP("udp4", "127.0.0.1:0")
	if err != nil {
		return "conn-error listen"
	}
	defer l.Close()
	set := "nocall"
	var mu sync.Mutex
	ccCh := make(chan *udpclient.Conn, 1)
	s := udp.NewServer(options.WithErrors(func(error) {}), options.WithMessagePool(pool.New(64, 2048)),
		options.WithOnNewConn(func(cc *udpclient.Conn) {
			select {
			case ccCh <- cc:
			default:
			}
		}),
		options.WithHandlerFunc(func(w *responsewriter.ResponseWriter[*udpclient.Conn], r *pool.Message) {
			if p, _ := r.Path(); p != "/x" {
				return // the warm-up datagram: no response
			}
			mu.Lock()
			defer mu.Unlock()
			set = setCalls(code, func(c codes.Code) error { return w.SetResponse(c, message.TextPlain, nil) })
		}))
	served := make(chan struct{})
	go func() { _ = s.Serve(l); close(served) }()
	defer func() { s.Stop(); <-served }()
	peer, err := net.DialUDP("udp4", nil, l.LocalAddr().(*net.UDPAddr))
	if err != nil {
		return "conn-error dial"
	}
	defer peer.Close()
	warm := pool.NewMessage(context.Background())
	warm.SetCode(codes.GET)
	warm.SetToken(message.Token{0x77})
	_ = warm.SetPath("/warm")
	warm.SetType(message.NonConfirmable)
	warm.SetMessageID(0x0101)
	wb, _ := warm.MarshalWithEncoder(udpcoder.DefaultCoder)
	if _, err := peer.Write(wb); err != nil {
		return "conn-error write"
	}
	var cc *udpclient.Conn
	select {
	case cc = <-ccCh:
	case <-time.After(time.Second):
		return "conn-error no-connection"
	}
	time.Sleep(20 * time.Millisecond)
	var cm *coapNet.ControlMessage
	if multi {
		cm = &coapNet.ControlMessage{Dst: net.IPv4(224, 0, 1, 187)}
	}
	if err := cc.Process(cm, buildReq(true, con, v)); err != nil {
		set = "process-error"
	}
	var datagrams [][]byte
	buf := make([]byte, 2048)
	for {
		_ = peer.SetReadDeadline(time.Now().Add(120 * time.Millisecond))
		n, err := peer.Read(buf)
		if err != nil {
			break
		}
		datagrams = append(datagrams, append([]byte(nil), buf[:n]...))
	}
	mu.Lock()
	defer mu.Unlock()
	var b bytes.Buffer
	fmt.Fprintf(&b, "set %s sent %d", set, len(datagrams))
	for _, d := range datagrams {
		m := pool.NewMessage(context.Background())
		if _, err := m.UnmarshalWithDecoder(udpcoder.DefaultCoder, d); err != nil {
			fmt.Fprintf(&b, " undecodable")
			continue
		}
		mid := "own"
		if m.MessageID() == reqMID {
			mid = "req"
		}
		fmt.Fprintf(&b, " %s %d %s %s", typeName(m.Type()), m.Code(), mid, lp.Hex(m.Token()))
	}
	return b.String()
}

// srvHistory (`srvt` lines): a history on ONE long-lived datagram connection.  Steps, separated by `;`:
// `r<mid>:<con|non>:<v|->:<code>` a request with that message ID (the i-th request of the line carries the one-byte token
// 0xc0+i; its handler calls SetResponse(code)), `w<ms>` that much (virtual) time passes, `s` the periodic sweep runs
// (Conn.CheckExpirations(now), what the connection's PeriodicRunner does every few seconds).  Reported per request, like `srv`.
// A message ID that comes again after EXCHANGE_LIFETIME belongs to a NEW request (RFC 7252 section 4.4: a wrapped 16-bit counter,
// a restarted peer), whatever the reply cache still holds.
func srvHistory(t *testing.T, spec string) (line string) {
	synctest.Test(t, func(t *testing.T) {
		set := "nocall"
		var code codes.Code
		cc, s := mem.NewUDPConn(mem.UDPOpts{Mutate: func(cfg *udpclient.Config) {
			cfg.Handler = func(w *responsewriter.ResponseWriter[*udpclient.Conn], r *pool.Message) {
				set = setCalls(code, func(c codes.Code) error { return w.SetResponse(c, message.TextPlain, nil) })
			}
		}})
		savedMID, savedTok := reqMID, reqToken
		defer func() { reqMID, reqToken = savedMID, savedTok }()
		var outs []string
		n := 0
		for _, st := range strings.Split(spec, ";") {
			switch {
			case st == "s":
				cc.CheckExpirations(time.Now())
				synctest.Wait()
			case strings.HasPrefix(st, "w"):
				ms, _ := strconv.ParseInt(st[1:], 10, 64)
				time.Sleep(time.Duration(ms) * time.Millisecond)
				synctest.Wait()
			case strings.HasPrefix(st, "r"):
				f := strings.Split(st[1:], ":")
				if len(f) != 4 {
					outs = append(outs, "bad-step")
					continue
				}
				mid, _ := strconv.ParseInt(f[0], 10, 32)
				v := int64(-1)
				if f[2] != "-" {
					v, _ = strconv.ParseInt(f[2], 10, 64)
				}
				c, _ := strconv.ParseUint(f[3], 10, 16)
				code = codes.Code(c)
				reqMID, reqToken = int32(mid), message.Token{byte(0xc0 + n)}
				n++
				s.TakeSent() // whatever went out while time passed (nothing is expected to) belongs to no request
				set = "nocall"
				if err := cc.Process(nil, buildReq(true, f[1] == "con", v)); err != nil {
					set = "process-error"
				}
				synctest.Wait()
				sent := s.TakeSent()
				var b bytes.Buffer
				fmt.Fprintf(&b, "set %s sent %d", set, len(sent))
				for _, d := range sent {
					m := pool.NewMessage(context.Background())
					if _, err := m.UnmarshalWithDecoder(udpcoder.DefaultCoder, d.Data); err != nil {
						b.WriteString(" undecodable")
						continue
					}
					midName := "own"
					if m.MessageID() == reqMID {
						midName = "req"
					}
					fmt.Fprintf(&b, " %s %d %s %s", typeName(m.Type()), m.Code(), midName, lp.Hex(m.Token()))
					if m.Type() == message.Confirmable {
						// the peer acknowledges a separate (confirmable) response, so that nothing is retransmitted later
						ack := pool.NewMessage(context.Background())
						ack.SetType(message.Acknowledgement)
						ack.SetCode(codes.Empty)
						ack.SetMessageID(m.MessageID())
						if ab, err := ack.MarshalWithEncoder(udpcoder.DefaultCoder); err == nil {
							_ = cc.Process(nil, append([]byte(nil), ab...))
							synctest.Wait()
						}
					}
				}
				outs = append(outs, b.String())
			default:
				outs = append(outs, "bad-step")
			}
		}
		line = strings.Join(outs, " ; ")
		_ = cc.Close()
		synctest.Wait()
	})
	return line
}

func isLine(code uint64, v uint64) bool {
	return noresponse.IsNoResponseCode(codes.Code(code), uint32(v)) != nil
}

func TestC20(t *testing.T) {
	err := lp.FileLoop(func(f []string, w *bufio.Writer) {
		defer func() {
			if r := recover(); r != nil {
				fmt.Fprintf(w, "panic %v\n", r)
			}
		}()
		switch {
		case len(f) == 3 && f[0] == "is":
			c, _ := strconv.ParseUint(f[1], 10, 16)
			v, _ := strconv.ParseUint(f[2], 10, 32)
			if isLine(c, v) {
				fmt.Fprintln(w, "refused")
			} else {
				fmt.Fprintln(w, "accepted")
			}
		case len(f) == 6 && f[0] == "digest" && f[1] == "is":
			clo, _ := strconv.ParseUint(f[2], 10, 32)
			chi, _ := strconv.ParseUint(f[3], 10, 32)
			vlo, _ := strconv.ParseUint(f[4], 10, 64)
			vhi, _ := strconv.ParseUint(f[5], 10, 64)
			h := lp.FnvInit
			n := 0
			for c := clo; c < chi; c++ {
				for v := vlo; v < vhi; v++ {
					if isLine(c, v) {
						h = lp.Mix(h, 1)
						n++
					} else {
						h = lp.Mix(h, 0)
					}
				}
			}
			fmt.Fprintf(w, "digest %s %d\n", lp.Hex64(h), n)
		case len(f) == 3 && f[0] == "rw":
			// rw <option value hex> <code>: ResponseWriter built directly from an option list
			val, _ := lp.ParseHex(f[1])
			c, _ := strconv.ParseUint(f[2], 10, 16)
			resp := pool.NewMessage(context.Background())
			rw := responsewriter.New(resp, nopClient{}, message.Option{ID: message.URIPath, Value: []byte("x")},
				message.Option{ID: message.NoResponse, Value: val})
			if err := rw.SetResponse(codes.Code(c), message.TextPlain, nil); err != nil {
				fmt.Fprintf(w, "refused %v\n", resp.IsModified())
			} else {
				fmt.Fprintf(w, "accepted %v %d\n", resp.IsModified(), resp.Code())
			}
		case len(f) == 3 && f[0] == "rwl":
			// rwl <code> <id:hex,id:hex,…>: ResponseWriter built from a whole (sorted) request option list
			c, _ := strconv.ParseUint(f[1], 10, 16)
			var opts []message.Option
			for _, e := range strings.Split(f[2], ",") {
				kv := strings.SplitN(e, ":", 2)
				id, _ := strconv.ParseUint(kv[0], 10, 16)
				val, _ := lp.ParseHex(kv[1])
				opts = append(opts, message.Option{ID: message.OptionID(id), Value: val})
			}
			resp := pool.NewMessage(context.Background())
			rw := responsewriter.New(resp, nopClient{}, opts...)
			if err := rw.SetResponse(codes.Code(c), message.TextPlain, nil); err != nil {
				fmt.Fprintf(w, "refused %v\n", resp.IsModified())
			} else {
				fmt.Fprintf(w, "accepted %v %d\n", resp.IsModified(), resp.Code())
			}
		case len(f) == 2 && f[0] == "srvt":
			handlerMutates, badLength, callCodes = nil, nil, nil
			fmt.Fprintln(w, srvHistory(t, f[1]))
		case len(f) == 5 && f[0] == "srvreal":
			badLength = nil
			v := int64(-1)
			if f[3] != "-" {
				v, _ = strconv.ParseInt(f[3], 10, 64)
			}
			c, _ := strconv.ParseUint(f[4], 10, 16)
			fmt.Fprintln(w, srvReal(f[1] == "multi", f[2] == "con", v, codes.Code(c)))
		case len(f) == 5 && f[0] == "srvbw":
			handlerMutates, badLength = nil, nil
			bwMode = true
			v := int64(-1)
			if f[3] != "-" {
				v, _ = strconv.ParseInt(f[3], 10, 64)
			}
			c, _ := strconv.ParseUint(f[4], 10, 16)
			if f[1] == "udp" {
				fmt.Fprintln(w, srvUDP(t, f[2] == "con", v, codes.Code(c)))
			} else {
				fmt.Fprintln(w, srvTCP(t, v, codes.Code(c)))
			}
			bwMode = false
		case len(f) == 5 && (f[0] == "srvmux" || f[0] == "srvmw"):
			handlerMode = strings.TrimPrefix(f[0], "srv")
			handlerMutates = nil
			badLength = nil
			v := int64(-1)
			if f[3] != "-" {
				v, _ = strconv.ParseInt(f[3], 10, 64)
			}
			c, _ := strconv.ParseUint(f[4], 10, 16)
			var o string
			if f[1] == "udp" {
				o = srvUDP(t, f[2] == "con", v, codes.Code(c))
			} else {
				o = srvTCP(t, v, codes.Code(c))
			}
			handlerMode = ""
			if f[0] == "srvmw" {
				// the middleware touched the response message, so what goes on the wire is not the bare outcome any more:
				// only the handler's SetResponse outcome is reported
				o = strings.Fields(o + " - -")[1]
			}
			fmt.Fprintln(w, o)
		case len(f) == 6 && f[0] == "srvm":
			// srvm <udp|tcp> <con|non> <v|-> <code> <method>: the request carries another method code
			handlerMutates, badLength, callCodes = nil, nil, nil
			mc, _ := strconv.ParseUint(f[5], 10, 8)
			reqMethod = codes.Code(mc)
			v := int64(-1)
			if f[3] != "-" {
				v, _ = strconv.ParseInt(f[3], 10, 64)
			}
			c, _ := strconv.ParseUint(f[4], 10, 16)
			if f[1] == "udp" {
				fmt.Fprintln(w, srvUDP(t, f[2] == "con", v, codes.Code(c)))
			} else {
				fmt.Fprintln(w, srvTCP(t, v, codes.Code(c)))
			}
			reqMethod = codes.POST
		case len(f) == 4 && f[0] == "srvnf":
			// srvnf <udp|tcp> <con|non> <v|->: a mux.Router installed with options.WithMux has no route for the request's
			// path; its own default handler answers 4.04 - through the response writer, so No-Response applies to it too
			handlerMutates, badLength, callCodes = nil, nil, nil
			handlerMode = "mux"
			reqPath = "/missing"
			v := int64(-1)
			if f[3] != "-" {
				v, _ = strconv.ParseInt(f[3], 10, 64)
			}
			if f[1] == "udp" {
				fmt.Fprintln(w, srvUDP(t, f[2] == "con", v, codes.NotFound))
			} else {
				fmt.Fprintln(w, srvTCP(t, v, codes.NotFound))
			}
			reqPath = "/x"
			handlerMode = ""
		case len(f) == 5 && f[0] == "srvh":
			// srvh <udp|tcp> <con|non> <v|-> <code>: the handler hijacks and releases its request, then calls SetResponse
			handlerMutates, badLength, callCodes = nil, nil, nil
			hijackRelease = true
			v := int64(-1)
			if f[3] != "-" {
				v, _ = strconv.ParseInt(f[3], 10, 64)
			}
			c, _ := strconv.ParseUint(f[4], 10, 16)
			if f[1] == "udp" {
				fmt.Fprintln(w, srvUDP(t, f[2] == "con", v, codes.Code(c)))
			} else {
				fmt.Fprintln(w, srvTCP(t, v, codes.Code(c)))
			}
			hijackRelease = false
		case len(f) == 5 && f[0] == "srvn":
			// srvn <udp|tcp> <con|non> <v|-> <c1,c2,…>: the handler calls SetResponse once per code
			handlerMutates, badLength, callCodes = nil, nil, nil
			for _, e := range strings.Split(f[4], ",") {
				c, _ := strconv.ParseUint(e, 10, 16)
				callCodes = append(callCodes, codes.Code(c))
			}
			v := int64(-1)
			if f[3] != "-" {
				v, _ = strconv.ParseInt(f[3], 10, 64)
			}
			if f[1] == "udp" {
				fmt.Fprintln(w, srvUDP(t, f[2] == "con", v, callCodes[0]))
			} else {
				fmt.Fprintln(w, srvTCP(t, v, callCodes[0]))
			}
			callCodes = nil
		case len(f) == 6 && f[0] == "srvp" && f[1] == "udp":
			// srvp udp <con|non> <v|-> <code> <earlier v|->: the judged request is the SECOND on its connection
			handlerMutates, badLength = nil, nil
			preludeValue = -1
			if f[5] != "-" {
				preludeValue, _ = strconv.ParseInt(f[5], 10, 64)
			}
			v := int64(-1)
			if f[3] != "-" {
				v, _ = strconv.ParseInt(f[3], 10, 64)
			}
			c, _ := strconv.ParseUint(f[4], 10, 16)
			fmt.Fprintln(w, srvUDP(t, f[2] == "con", v, codes.Code(c)))
			preludeValue = -2
		case (len(f) == 5 || len(f) == 6) && (f[0] == "srv" || f[0] == "srvd" && f[1] == "udp" && f[2] == "con"):
			dupRequest = f[0] == "srvd"
			defer func() { dupRequest = false }()
			var extra []message.OptionID
			handlerMutates = nil
			badLength = nil
			if len(f) == 6 {
				// x<ids>: further options carried by the request; m<ids>: options the handler inserts into the request
				// object before it responds; b<ids>: options carried with a value length their definition does not allow
				for _, e := range strings.Split(strings.TrimLeft(f[5], "xmb"), ",") {
					id, _ := strconv.ParseUint(e, 10, 16)
					switch {
					case strings.HasPrefix(f[5], "m"):
						handlerMutates = append(handlerMutates, message.OptionID(id))
					case strings.HasPrefix(f[5], "b"):
						badLength = append(badLength, message.OptionID(id))
					default:
						extra = append(extra, message.OptionID(id))
					}
				}
			}
			v := int64(-1)
			if f[3] != "-" {
				v, _ = strconv.ParseInt(f[3], 10, 64)
			}
			c, _ := strconv.ParseUint(f[4], 10, 16)
			if f[1] == "udp" {
				fmt.Fprintln(w, srvUDP(t, f[2] == "con", v, codes.Code(c), extra...))
			} else {
				fmt.Fprintln(w, srvTCP(t, v, codes.Code(c), extra...))
			}
		default:
			fmt.Fprintln(w, "bad-op")
		}
	})
	if err != nil {
		t.Fatal(err)
	}
}

type nopClient struct{}

func (nopClient) ReleaseMessage(*pool.Message) {}
