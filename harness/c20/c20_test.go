// Harness for C20 (No-Response, RFC 7967): predicate lines call noresponse.IsNoResponseCode
// directly; srv lines run a real udp/tcp client.Conn (in-memory transport, synctest bubble) whose
// handler calls ResponseWriter.SetResponse and report what was put on the wire.
package c20

import (
	"bufio"
	"bytes"
	"context"
	"fmt"
	"strconv"
	"strings"
	"testing"
	"testing/synctest"

	"github.com/plgd-dev/go-coap/v3/message"
	"github.com/plgd-dev/go-coap/v3/message/codes"
	"github.com/plgd-dev/go-coap/v3/message/noresponse"
	"github.com/plgd-dev/go-coap/v3/message/pool"
	"github.com/plgd-dev/go-coap/v3/net/responsewriter"
	tcpclient "github.com/plgd-dev/go-coap/v3/tcp/client"
	tcpcoder "github.com/plgd-dev/go-coap/v3/tcp/coder"
	udpclient "github.com/plgd-dev/go-coap/v3/udp/client"
	udpcoder "github.com/plgd-dev/go-coap/v3/udp/coder"
	"verifharness/internal/lp"
	"verifharness/internal/mem"
)

var reqToken = message.Token{0xa1, 0xb2}

// message ID of the harness's request; a variable so that a case can be repeated with another one when the connection's own
// (randomly seeded) message-ID counter happens to produce the same value for an unrelated message
var reqMID int32 = 0x1234

// handlerMutates: option numbers the handler inserts into ITS request object before calling SetResponse (a handler may
// normalise or annotate the request it was given; that must not change what the requester asked to suppress)
var handlerMutates []message.OptionID

func typeName(t message.Type) string {
	switch t {
	case message.Confirmable:
		return "con"
	case message.NonConfirmable:
		return "non"
	case message.Acknowledgement:
		return "ack"
	case message.Reset:
		return "rst"
	}
	return fmt.Sprintf("t%d", int(t))
}

func buildReq(udp bool, con bool, v int64, extra ...message.OptionID) []byte {
	m := pool.NewMessage(context.Background())
	m.SetCode(codes.POST)
	m.SetToken(reqToken)
	_ = m.SetPath("/x")
	if v >= 0 {
		m.SetOptionUint32(message.NoResponse, uint32(v))
	}
	for _, id := range extra { // further options of the request, possibly numbered above No-Response
		m.SetOptionBytes(id, []byte{0x5a, byte(id)})
	}
	if udp {
		m.SetMessageID(reqMID)
		m.SetType(message.NonConfirmable)
		if con {
			m.SetType(message.Confirmable)
		}
		b, err := m.MarshalWithEncoder(udpcoder.DefaultCoder)
		if err != nil {
			panic(err)
		}
		return append([]byte(nil), b...)
	}
	b, err := m.MarshalWithEncoder(tcpcoder.DefaultCoder)
	if err != nil {
		panic(err)
	}
	return append([]byte(nil), b...)
}

func srvUDP(t *testing.T, con bool, v int64, code codes.Code, extra ...message.OptionID) (line string) {
	for _, id := range []int32{0x1234, 0x5a5a, 0x0777} {
		reqMID = id
		coincidence := false
		line = srvUDPOnce(t, con, v, code, &coincidence, extra...)
		if !coincidence {
			break
		}
	}
	reqMID = 0x1234
	return line
}

func srvUDPOnce(t *testing.T, con bool, v int64, code codes.Code, coincidence *bool, extra ...message.OptionID) (line string) {
	synctest.Test(t, func(t *testing.T) {
		set := "nocall"
		cc, s := mem.NewUDPConn(mem.UDPOpts{Mutate: func(cfg *udpclient.Config) {
			cfg.Handler = func(w *responsewriter.ResponseWriter[*udpclient.Conn], r *pool.Message) {
				for _, id := range handlerMutates {
					r.SetOptionBytes(id, []byte{0x68, byte(id)})
				}
				if err := w.SetResponse(code, message.TextPlain, nil); err != nil {
					set = "refused"
				} else {
					set = "accepted"
				}
			}
		}})
		if err := cc.Process(nil, buildReq(true, con, v, extra...)); err != nil {
			set = "process-error"
		}
		synctest.Wait()
		var b bytes.Buffer
		sent := s.TakeSent()
		fmt.Fprintf(&b, "set %s sent %d", set, len(sent))
		for _, d := range sent {
			m := pool.NewMessage(context.Background())
			if _, err := m.UnmarshalWithDecoder(udpcoder.DefaultCoder, d.Data); err != nil {
				fmt.Fprintf(&b, " undecodable")
				continue
			}
			mid := "own"
			if m.MessageID() == reqMID {
				mid = "req"
				if m.Type() != message.Acknowledgement && m.Type() != message.Reset {
					// a message with its own ID that happens to equal ours: repeat the case with another request ID
					*coincidence = true
				}
			}
			fmt.Fprintf(&b, " %s %d %s %s", typeName(m.Type()), m.Code(), mid, lp.Hex(m.Token()))
		}
		line = b.String()
		_ = cc.Close()
		synctest.Wait()
	})
	return line
}

func srvTCP(t *testing.T, v int64, code codes.Code, extra ...message.OptionID) (line string) {
	synctest.Test(t, func(t *testing.T) {
		set := "nocall"
		cc, peer, err := mem.NewTCPConn(mem.TCPOpts{Mutate: func(cfg *tcpclient.Config) {
			cfg.Handler = func(w *responsewriter.ResponseWriter[*tcpclient.Conn], r *pool.Message) {
				for _, id := range handlerMutates {
					r.SetOptionBytes(id, []byte{0x68, byte(id)})
				}
				if err := w.SetResponse(code, message.TextPlain, nil); err != nil {
					set = "refused"
				} else {
					set = "accepted"
				}
			}
		}})
		if err != nil {
			line = "conn-error " + err.Error()
			return
		}
		synctest.Wait()
		peer.TakeFrames() // the connection's own CSM
		if err := peer.Write(buildReq(false, false, v, extra...)); err != nil {
			set = "write-error"
		}
		synctest.Wait()
		var b bytes.Buffer
		frames := peer.TakeFrames()
		fmt.Fprintf(&b, "set %s sent %d", set, len(frames))
		for _, d := range frames {
			m := pool.NewMessage(context.Background())
			if _, err := m.UnmarshalWithDecoder(tcpcoder.DefaultCoder, d); err != nil {
				fmt.Fprintf(&b, " undecodable")
				continue
			}
			fmt.Fprintf(&b, " - %d - %s", m.Code(), lp.Hex(m.Token()))
		}
		line = b.String()
		_ = cc.Close()
		peer.Close()
		synctest.Wait()
	})
	return line
}

func isLine(code uint64, v uint64) bool {
	return noresponse.IsNoResponseCode(codes.Code(code), uint32(v)) != nil
}

func TestC20(t *testing.T) {
	err := lp.FileLoop(func(f []string, w *bufio.Writer) {
		defer func() {
			if r := recover(); r != nil {
				fmt.Fprintf(w, "panic %v\n", r)
			}
		}()
		switch {
		case len(f) == 3 && f[0] == "is":
			c, _ := strconv.ParseUint(f[1], 10, 16)
			v, _ := strconv.ParseUint(f[2], 10, 32)
			if isLine(c, v) {
				fmt.Fprintln(w, "refused")
			} else {
				fmt.Fprintln(w, "accepted")
			}
		case len(f) == 6 && f[0] == "digest" && f[1] == "is":
			clo, _ := strconv.ParseUint(f[2], 10, 32)
			chi, _ := strconv.ParseUint(f[3], 10, 32)
			vlo, _ := strconv.ParseUint(f[4], 10, 64)
			vhi, _ := strconv.ParseUint(f[5], 10, 64)
			h := lp.FnvInit
			n := 0
			for c := clo; c < chi; c++ {
				for v := vlo; v < vhi; v++ {
					if isLine(c, v) {
						h = lp.Mix(h, 1)
						n++
					} else {
						h = lp.Mix(h, 0)
					}
				}
			}
			fmt.Fprintf(w, "digest %s %d\n", lp.Hex64(h), n)
		case len(f) == 3 && f[0] == "rw":
			// rw <option value hex> <code>: ResponseWriter built directly from an option list
			val, _ := lp.ParseHex(f[1])
			c, _ := strconv.ParseUint(f[2], 10, 16)
			resp := pool.NewMessage(context.Background())
			rw := responsewriter.New(resp, nopClient{}, message.Option{ID: message.URIPath, Value: []byte("x")},
				message.Option{ID: message.NoResponse, Value: val})
			if err := rw.SetResponse(codes.Code(c), message.TextPlain, nil); err != nil {
				fmt.Fprintf(w, "refused %v\n", resp.IsModified())
			} else {
				fmt.Fprintf(w, "accepted %v %d\n", resp.IsModified(), resp.Code())
			}
		case len(f) == 3 && f[0] == "rwl":
			// rwl <code> <id:hex,id:hex,…>: ResponseWriter built from a whole (sorted) request option list
			c, _ := strconv.ParseUint(f[1], 10, 16)
			var opts []message.Option
			for _, e := range strings.Split(f[2], ",") {
				kv := strings.SplitN(e, ":", 2)
				id, _ := strconv.ParseUint(kv[0], 10, 16)
				val, _ := lp.ParseHex(kv[1])
				opts = append(opts, message.Option{ID: message.OptionID(id), Value: val})
			}
			resp := pool.NewMessage(context.Background())
			rw := responsewriter.New(resp, nopClient{}, opts...)
			if err := rw.SetResponse(codes.Code(c), message.TextPlain, nil); err != nil {
				fmt.Fprintf(w, "refused %v\n", resp.IsModified())
			} else {
				fmt.Fprintf(w, "accepted %v %d\n", resp.IsModified(), resp.Code())
			}
		case (len(f) == 5 || len(f) == 6) && f[0] == "srv":
			var extra []message.OptionID
			handlerMutates = nil
			if len(f) == 6 {
				// x<ids>: further options carried by the request; m<ids>: options the handler inserts into the request
				// object before it responds
				for _, e := range strings.Split(strings.TrimLeft(f[5], "xm"), ",") {
					id, _ := strconv.ParseUint(e, 10, 16)
					if strings.HasPrefix(f[5], "m") {
						handlerMutates = append(handlerMutates, message.OptionID(id))
					} else {
						extra = append(extra, message.OptionID(id))
					}
				}
			}
			v := int64(-1)
			if f[3] != "-" {
				v, _ = strconv.ParseInt(f[3], 10, 64)
			}
			c, _ := strconv.ParseUint(f[4], 10, 16)
			if f[1] == "udp" {
				fmt.Fprintln(w, srvUDP(t, f[2] == "con", v, codes.Code(c), extra...))
			} else {
				fmt.Fprintln(w, srvTCP(t, v, codes.Code(c), extra...))
			}
		default:
			fmt.Fprintln(w, "bad-op")
		}
	})
	if err != nil {
		t.Fatal(err)
	}
}

type nopClient struct{}

func (nopClient) ReleaseMessage(*pool.Message) {}
