package main

import (
	"go/ast"
	"go/parser"
	"go/token"
	"path/filepath"
	"strconv"
)

// parseFile parses one source file of the repository (no type checking).
func parseFile(repo, rel string) (*token.FileSet, *ast.File) {
	fset := token.NewFileSet()
	f, err := parser.ParseFile(fset, filepath.Join(repo, rel), nil, parser.ParseComments)
	if err != nil {
		fail("parse %s: %v", rel, err)
	}
	return fset, f
}

// funcDecl finds a top-level function or method (recv = "" for functions, else the receiver type name).
func funcDecl(f *ast.File, recv, name string) *ast.FuncDecl {
	for _, d := range f.Decls {
		fd, ok := d.(*ast.FuncDecl)
		if !ok || fd.Name.Name != name {
			continue
		}
		if recv == "" && fd.Recv == nil {
			return fd
		}
		if recv != "" && fd.Recv != nil && len(fd.Recv.List) == 1 && recvTypeName(fd.Recv.List[0].Type) == recv {
			return fd
		}
	}
	fail("function %s.%s not found", recv, name)
	return nil
}

func recvTypeName(e ast.Expr) string {
	switch t := e.(type) {
	case *ast.StarExpr:
		return recvTypeName(t.X)
	case *ast.Ident:
		return t.Name
	case *ast.IndexExpr:
		return recvTypeName(t.X)
	case *ast.IndexListExpr:
		return recvTypeName(t.X)
	}
	return ""
}

func intLit(e ast.Expr) uint64 {
	bl, ok := e.(*ast.BasicLit)
	if !ok || bl.Kind != token.INT {
		fail("expected integer literal")
	}
	v, err := strconv.ParseUint(bl.Value, 0, 64)
	if err != nil {
		fail("bad integer literal %s", bl.Value)
	}
	return v
}

func identName(e ast.Expr) string {
	if id, ok := e.(*ast.Ident); ok {
		return id.Name
	}
	return ""
}
