package main

// Generated/BlockwiseXfer.lean (C04): codes / option numbers / defaults used by the block-wise transfer model
// (values obtained by compiling against /repo) and the shape facts of net/blockwise/blockwise.go the model
// follows (read from the AST): the two "does it fit one block" comparisons, the Block1 "skip what was sent"
// addend, `more` derived from the real end of the body, NUM recomputed from the seek offset, append only at the
// end of what is held, the no-cached-entry shortcut, removal of a finished sending entry, expiry comparison.
// An unexpected shape fails this generator (the C04 check then reports the tie as broken).

import (
	"fmt"
	"go/ast"
	"go/token"
	"go/types"
	"strings"

	"github.com/plgd-dev/go-coap/v3/message"
	"github.com/plgd-dev/go-coap/v3/message/codes"
	"github.com/plgd-dev/go-coap/v3/net/blockwise"
	udpclient "github.com/plgd-dev/go-coap/v3/udp/client"
)

func init() {
	register("BlockwiseXfer.lean", genBlockwiseXfer)
}

// c04Str renders an expression without blanks (comparisons below are written without blanks too).
func c04Str(e ast.Expr) string { return strings.ReplaceAll(types.ExprString(e), " ", "") }

// c04Ifs returns every `if` statement of a function body (pre-order).
func c04Ifs(fd *ast.FuncDecl) []*ast.IfStmt {
	var out []*ast.IfStmt
	ast.Inspect(fd.Body, func(n ast.Node) bool {
		if s, ok := n.(*ast.IfStmt); ok {
			out = append(out, s)
		}
		return true
	})
	return out
}

// c04FitsCmp finds `payloadSize <op> <szxvar>.Size()` in fn and reports whether op is `<=` (true) or `<` (false).
func c04FitsCmp(fd *ast.FuncDecl, szxVar string) bool {
	found := 0
	le := false
	for _, s := range c04Ifs(fd) {
		b, ok := s.Cond.(*ast.BinaryExpr)
		if !ok || c04Str(b.X) != "payloadSize" || c04Str(b.Y) != szxVar+".Size()" {
			continue
		}
		switch b.Op {
		case token.LEQ:
			le = true
		case token.LSS:
			le = false
		default:
			fail("%s: unexpected comparison `%s`", fd.Name.Name, c04Str(s.Cond))
		}
		found++
	}
	if found != 1 {
		fail("%s: expected exactly one `payloadSize <|<= %s.Size()` test, found %d", fd.Name.Name, szxVar, found)
	}
	return le
}

func c04Bool(b bool) string {
	if b {
		return "true"
	}
	return "false"
}

func genBlockwiseXfer(g *gen, repo string) {
	_, f := parseFile(repo, "net/blockwise/blockwise.go")

	doLe := c04FitsCmp(funcDecl(f, "BlockWise", "Do"), "maxSzx")
	startLe := c04FitsCmp(funcDecl(f, "BlockWise", "startSendingMessage"), "maxSZX")

	// createSendingMessage
	csm := funcDecl(f, "BlockWise", "createSendingMessage")
	var offInit, numRecomputed, skipSent, skipParam, moreInitTrue, moreFromEnd bool
	ast.Inspect(csm.Body, func(n ast.Node) bool {
		switch s := n.(type) {
		case *ast.AssignStmt:
			if len(s.Lhs) == 1 && len(s.Rhs) == 1 {
				l, r := c04Str(s.Lhs[0]), c04Str(s.Rhs[0])
				if l == "off" && s.Tok == token.DEFINE && r == "num*szx.Size()" {
					offInit = true
				}
				if l == "num" && s.Tok == token.ASSIGN && (r == "(offSeek)/szx.Size()" || r == "offSeek/szx.Size()") {
					numRecomputed = true
				}
				if l == "more" && s.Tok == token.ASSIGN && r == "true" {
					moreInitTrue = true
				}
			}
		case *ast.IfStmt:
			c := c04Str(s.Cond)
			if c == "blockType==message.Block1&&skipSent" && len(s.Body.List) == 1 {
				if a, ok := s.Body.List[0].(*ast.AssignStmt); ok && a.Tok == token.ADD_ASSIGN && c04Str(a.Lhs[0]) == "off" && c04Str(a.Rhs[0]) == "newBufLen" {
					skipSent, skipParam = true, true
				}
			}
			if c == "blockType==message.Block1" && len(s.Body.List) == 1 {
				if a, ok := s.Body.List[0].(*ast.AssignStmt); ok && a.Tok == token.ADD_ASSIGN && c04Str(a.Lhs[0]) == "off" && c04Str(a.Rhs[0]) == "newBufLen" {
					skipSent = true
				}
			}
			if c == "offSeek+int64(readed)==payloadSize" && len(s.Body.List) == 1 {
				if a, ok := s.Body.List[0].(*ast.AssignStmt); ok && c04Str(a.Lhs[0]) == "more" && c04Str(a.Rhs[0]) == "false" {
					moreFromEnd = true
				}
			}
		}
		return true
	})
	// which callers ask for the "skip what was sent" addend: without the parameter (pinned tree) both do
	contSkips, startSkips := skipSent, skipSent
	if skipParam {
		arg := func(fn string) bool {
			fd := funcDecl(f, "BlockWise", fn)
			val, found := false, 0
			ast.Inspect(fd.Body, func(n ast.Node) bool {
				c, ok := n.(*ast.CallExpr)
				if !ok || c04Str(c.Fun) != "b.createSendingMessage" {
					return true
				}
				if len(c.Args) != 5 {
					fail("%s: createSendingMessage is not called with 5 arguments", fn)
				}
				switch c04Str(c.Args[4]) {
				case "true":
					val = true
				case "false":
					val = false
				default:
					fail("%s: skipSent argument of createSendingMessage is not a literal", fn)
				}
				found++
				return true
			})
			if found != 1 {
				fail("%s: expected exactly one call of createSendingMessage, found %d", fn, found)
			}
			return val
		}
		contSkips, startSkips = arg("continueSendingMessage"), arg("startSendingMessage")
	}
	// F39: the body of the message is tested for nil before it is used.  Two shapes are known; anything else fails.
	//   pinned:   offSeek, err := sendingMessage.Body().Seek(off, io.SeekStart)                       -> false
	//   repaired: body := sendingMessage.Body(); if body == nil { …; return nil, false, <error> }; offSeek, err := body.Seek(off, io.SeekStart)   -> true
	refusesBodylessSending := false
	{
		seekAt, bodyAt, nilAt := -1, -1, -1
		seekRhs := ""
		for i, st := range csm.Body.List {
			switch x := st.(type) {
			case *ast.AssignStmt:
				if len(x.Lhs) == 2 && len(x.Rhs) == 1 && c04Str(x.Lhs[0]) == "offSeek" && x.Tok == token.DEFINE {
					seekAt, seekRhs = i, c04Str(x.Rhs[0])
				}
				if len(x.Lhs) == 1 && len(x.Rhs) == 1 && c04Str(x.Lhs[0]) == "body" && x.Tok == token.DEFINE && c04Str(x.Rhs[0]) == "sendingMessage.Body()" {
					bodyAt = i
				}
			case *ast.IfStmt:
				if c04Str(x.Cond) == "body==nil" && x.Init == nil && x.Else == nil && len(x.Body.List) >= 1 {
					r, ok := x.Body.List[len(x.Body.List)-1].(*ast.ReturnStmt)
					if !ok || len(r.Results) != 3 || c04Str(r.Results[0]) != "nil" || c04Str(r.Results[1]) != "false" || c04Str(r.Results[2]) == "nil" {
						fail("createSendingMessage: `if body == nil` does not end with `return nil, false, <error>`")
					}
					nilAt = i
				}
			}
		}
		switch {
		case seekAt >= 0 && seekRhs == "sendingMessage.Body().Seek(off,io.SeekStart)" && bodyAt < 0 && nilAt < 0:
			refusesBodylessSending = false
		case seekAt >= 0 && seekRhs == "body.Seek(off,io.SeekStart)" && bodyAt >= 0 && bodyAt < nilAt && nilAt < seekAt:
			refusesBodylessSending = true
		default:
			fail("createSendingMessage: unexpected shape around the Seek in the body (`%s`, body := at %d, nil test at %d, Seek at %d)", seekRhs, bodyAt, nilAt, seekAt)
		}
		// no other use of sendingMessage.Body() may come before the nil test
		for i, st := range csm.Body.List {
			if !refusesBodylessSending || i >= nilAt || i == bodyAt {
				continue
			}
			ast.Inspect(st, func(n ast.Node) bool {
				if c, ok := n.(*ast.CallExpr); ok && c04Str(c) == "sendingMessage.Body()" {
					fail("createSendingMessage: sendingMessage.Body() is used before it is tested for nil")
				}
				return true
			})
		}
	}
	if !offInit {
		fail("createSendingMessage: `off := num * szx.Size()` not found")
	}
	if !numRecomputed {
		fail("createSendingMessage: `num = (offSeek) / szx.Size()` not found")
	}
	if !(moreInitTrue && moreFromEnd) {
		fail("createSendingMessage: `more = true; if offSeek+int64(readed) == payloadSize { more = false }` not found")
	}

	// processReceivedMessage
	prm := funcDecl(f, "BlockWise", "processReceivedMessage")
	appendAtEnd := false
	shortcutFound := false
	shortcutNeedsNum0 := false
	for _, s := range c04Ifs(prm) {
		c := c04Str(s.Cond)
		if c == "off==payloadSize" {
			appendAtEnd = true
		}
		if c == "cachedReceivedMessageGuard==nil" {
			// body: szx = getSzx(szx, maxSzx); if !more { [guard on num;] next(w, r); return nil }
			for _, st := range s.Body.List {
				in, ok := st.(*ast.IfStmt)
				if !ok || c04Str(in.Cond) != "!more" {
					continue
				}
				shortcutFound = true
				body := in.Body.List
				if len(body) >= 1 {
					if gi, ok := body[0].(*ast.IfStmt); ok {
						gc := c04Str(gi.Cond)
						if gc != "num>0" && gc != "num!=0" {
							fail("processReceivedMessage: unexpected guard `%s` in the no-cached-entry shortcut", gc)
						}
						if len(gi.Body.List) == 0 {
							fail("processReceivedMessage: empty guard body in the shortcut")
						}
						if _, ok := gi.Body.List[len(gi.Body.List)-1].(*ast.ReturnStmt); !ok {
							fail("processReceivedMessage: the guard of the shortcut does not return")
						}
						shortcutNeedsNum0 = true
						body = body[1:]
					}
				}
				if len(body) != 2 {
					fail("processReceivedMessage: shortcut body is not `next(w, r); return nil`")
				}
				es, ok1 := body[0].(*ast.ExprStmt)
				_, ok2 := body[1].(*ast.ReturnStmt)
				if !ok1 || !ok2 || c04Str(es.X) != "next(w,r)" {
					fail("processReceivedMessage: shortcut body is not `next(w, r); return nil`")
				}
			}
		}
	}
	// F10b: a POST/PUT without Block1 that asks for a following Block2 block is refused instead of handed to `next`;
	// a POST/PUT is never re-requested from block 0 without its body.
	refusesLostContinuation := false
	refusesBodylessRestart := false
	for _, s := range c04Ifs(prm) {
		c := c04Str(s.Cond)
		if c == "errors.Is(err,message.ErrOptionNotFound)" && len(s.Body.List) >= 1 {
			if gi, ok := s.Body.List[0].(*ast.IfStmt); ok {
				if c04Str(gi.Cond) != "blockType==message.Block1&&requestsFollowingBlock2(r)" {
					fail("processReceivedMessage: unexpected guard `%s` before next(w, r) for a message without block option", c04Str(gi.Cond))
				}
				if _, ok := gi.Body.List[len(gi.Body.List)-1].(*ast.ReturnStmt); !ok {
					fail("processReceivedMessage: the continuation guard does not return")
				}
				refusesLostContinuation = true
			}
		}
		if c == "num==0&&(sentRequest.Code()==codes.POST||sentRequest.Code()==codes.PUT)" {
			n := len(s.Body.List)
			if n < 2 {
				fail("processReceivedMessage: restart guard body too short")
			}
			a, ok1 := s.Body.List[n-2].(*ast.AssignStmt)
			r, ok2 := s.Body.List[n-1].(*ast.ReturnStmt)
			if !ok1 || !ok2 || c04Str(a.Lhs[0]) != "err" || len(r.Results) != 1 || c04Str(r.Results[0]) != "err" {
				fail("processReceivedMessage: restart guard does not end with `err = …; return err`")
			}
			refusesBodylessRestart = true
		}
	}
	// F10e: `if off == 0 { take over the options and the code of r; truncate; payloadSize = 0 }` before the append test
	block0Restarts := false
	for _, s := range c04Ifs(prm) {
		if c04Str(s.Cond) != "off==0" {
			continue
		}
		var calls []string
		truncates, zeroes := false, false
		for _, st := range s.Body.List {
			switch x := st.(type) {
			case *ast.ExprStmt:
				calls = append(calls, c04Str(x.X))
			case *ast.IfStmt:
				if x.Init != nil && strings.Contains(c04Str(x.Init.(*ast.AssignStmt).Rhs[0]), "payloadFile.Truncate(0)") && c04Str(x.Init.(*ast.AssignStmt).Lhs[0]) == "err" {
					truncates = true
				}
			case *ast.AssignStmt:
				if c04Str(x.Lhs[0]) == "payloadSize" && c04Str(x.Rhs[0]) == "0" {
					zeroes = true
				}
			}
		}
		if strings.Join(calls, ";") != "cachedReceivedMessage.ResetOptionsTo(r.Options());cachedReceivedMessage.SetCode(r.Code())" || !truncates || !zeroes {
			fail("processReceivedMessage: unexpected body of `if off == 0` (restart on the first block)")
		}
		block0Restarts = true
	}
	if refusesLostContinuation {
		fd := funcDecl(f, "", "requestsFollowingBlock2")
		last, ok := fd.Body.List[len(fd.Body.List)-1].(*ast.ReturnStmt)
		if !ok || len(last.Results) != 1 || c04Str(last.Results[0]) != "err==nil&&num>0" {
			fail("requestsFollowingBlock2: does not end with `return err == nil && num > 0`")
		}
	}
	if !appendAtEnd {
		fail("processReceivedMessage: `if off == payloadSize` not found")
	}
	if !shortcutFound {
		fail("processReceivedMessage: `if cachedReceivedMessageGuard == nil { … if !more {…} }` not found")
	}

	// getPayloadFromCachedReceivedMessage: what the ETag-changed arm does before truncating
	gp := funcDecl(f, "BlockWise", "getPayloadFromCachedReceivedMessage")
	restartKnown, restartTakesOptions := false, false
	ast.Inspect(gp.Body, func(n ast.Node) bool {
		cc, ok := n.(*ast.CaseClause)
		if !ok || len(cc.List) != 1 || c04Str(cc.List[0]) != "!bytes.Equal(rETAG,cachedReceivedMessageETAG)" {
			return true
		}
		var calls []string
		truncates := false
		for _, st := range cc.Body {
			if es, ok := st.(*ast.ExprStmt); ok {
				calls = append(calls, c04Str(es.X))
			}
			if is, ok := st.(*ast.IfStmt); ok && is.Init != nil && strings.Contains(c04Str(is.Init.(*ast.AssignStmt).Rhs[0]), "payloadFile.Truncate(0)") {
				truncates = true
			}
		}
		if !truncates {
			fail("getPayloadFromCachedReceivedMessage: the ETag-changed arm does not truncate the held bytes")
		}
		switch strings.Join(calls, ";") {
		case "cachedReceivedMessage.SetOptionBytes(message.ETag,rETAG)":
			restartKnown = true
		case "cachedReceivedMessage.ResetOptionsTo(r.Options());cachedReceivedMessage.SetCode(r.Code())":
			restartKnown, restartTakesOptions = true, true
		default:
			fail("getPayloadFromCachedReceivedMessage: unexpected statements in the ETag-changed arm: %s", strings.Join(calls, ";"))
		}
		return true
	})
	if !restartKnown {
		fail("getPayloadFromCachedReceivedMessage: `case !bytes.Equal(rETAG, cachedReceivedMessageETAG)` not found")
	}

	// guard discipline: the per-entry semaphore acquired in getCachedReceivedMessage is released only by the deferred
	// closeCachedReceivedMessage(), i.e. after `next(w, cachedReceivedMessage)` has returned; nothing releases it earlier.
	{
		gotGuard, deferred, closeCalls, releases, goStmts, nextOnCached := false, false, 0, 0, 0, 0
		ast.Inspect(prm.Body, func(n ast.Node) bool {
			switch x := n.(type) {
			case *ast.AssignStmt:
				if len(x.Lhs) == 3 && len(x.Rhs) == 1 && c04Str(x.Lhs[0]) == "cachedReceivedMessage" && c04Str(x.Lhs[1]) == "closeCachedReceivedMessage" &&
					strings.HasPrefix(c04Str(x.Rhs[0]), "b.getCachedReceivedMessage(") {
					gotGuard = true
				}
			case *ast.DeferStmt:
				if c04Str(x.Call.Fun) == "closeCachedReceivedMessage" {
					deferred = true
				}
			case *ast.GoStmt:
				goStmts++
			case *ast.CallExpr:
				f := c04Str(x.Fun)
				if f == "closeCachedReceivedMessage" {
					closeCalls++
				}
				if strings.HasSuffix(f, ".Release") {
					releases++
				}
				if f == "next" && len(x.Args) == 2 && c04Str(x.Args[1]) == "cachedReceivedMessage" {
					nextOnCached++
				}
			}
			return true
		})
		if !gotGuard {
			fail("processReceivedMessage: `cachedReceivedMessage, closeCachedReceivedMessage, err := b.getCachedReceivedMessage(…)` not found")
		}
		if !deferred || closeCalls != 1 {
			fail("processReceivedMessage: the guard must be released by `defer closeCachedReceivedMessage()` only (found %d calls, deferred=%v)", closeCalls, deferred)
		}
		if releases != 0 || goStmts != 0 || nextOnCached != 1 {
			fail("processReceivedMessage: unexpected guard handling (Release calls %d, go statements %d, next(w, cachedReceivedMessage) calls %d)", releases, goStmts, nextOnCached)
		}
		gc := funcDecl(f, "BlockWise", "getCachedReceivedMessage")
		acquires, bareRelease := 0, 0
		var walk func(n ast.Node, inLit bool)
		walk = func(n ast.Node, inLit bool) {
			ast.Inspect(n, func(m ast.Node) bool {
				switch x := m.(type) {
				case *ast.FuncLit:
					if m != n {
						walk(x.Body, true)
						return false
					}
				case *ast.CallExpr:
					f := c04Str(x.Fun)
					if strings.HasSuffix(f, ".Acquire") {
						acquires++
					}
					if strings.HasSuffix(f, ".Release") && !inLit {
						bareRelease++
					}
				}
				return true
			})
		}
		walk(gc.Body, false)
		if acquires == 0 || bareRelease != 0 {
			fail("getCachedReceivedMessage: the guard is not acquired, or released outside the returned close function (Acquire %d, bare Release %d)", acquires, bareRelease)
		}
	}

	// the glue: every connection gets its own block-wise layer (tokens, the keys of its caches, are scoped to a connection):
	// `createBlockWise = func(cc …) … { return blockwise.New(…) }` in the servers' and clients' set-up code
	for _, rel := range []string{"tcp/server/server.go", "udp/server/server.go", "dtls/server/server.go", "udp/client.go", "dtls/client.go", "tcp/client.go"} {
		_, gf := parseFile(repo, rel)
		perConn := 0
		ast.Inspect(gf, func(n ast.Node) bool {
			var lit *ast.FuncLit
			switch x := n.(type) {
			case *ast.AssignStmt:
				if len(x.Lhs) == 1 && len(x.Rhs) == 1 && c04Str(x.Lhs[0]) == "createBlockWise" && x.Tok == token.ASSIGN {
					l, ok := x.Rhs[0].(*ast.FuncLit)
					if !ok {
						fail("%s: createBlockWise is assigned something that is not a function literal creating a new layer (`%s`)", rel, c04Str(x.Rhs[0]))
					}
					lit = l
				}
			case *ast.FuncDecl:
				if x.Name.Name == "createBlockWiseFactory" { // tcp/client.go: returns the literal
					for _, st := range x.Body.List {
						if r, ok := st.(*ast.ReturnStmt); ok && len(r.Results) == 1 {
							if l, ok := r.Results[0].(*ast.FuncLit); ok {
								lit = l
							}
						}
					}
				}
			}
			if lit == nil {
				return true
			}
			news := 0
			ast.Inspect(lit.Body, func(m ast.Node) bool {
				if r, ok := m.(*ast.ReturnStmt); ok && len(r.Results) == 1 {
					if c, ok := r.Results[0].(*ast.CallExpr); ok && c04Str(c.Fun) == "blockwise.New" {
						news++
					}
				}
				return true
			})
			if news == 1 {
				perConn++
			}
			return true
		})
		if perConn != 1 {
			fail("%s: expected exactly one `createBlockWise = func(cc) { return blockwise.New(…) }` (a layer per connection), found %d", rel, perConn)
		}
	}
	// udp/server Session.Run reads datagrams into a buffer of a whole MTU (a longer datagram than the maximum message
	// size arrives with its real length and is refused by Conn.Process, it is not cut to the limit by the socket)
	{
		_, sf := parseFile(repo, "udp/server/session.go")
		run := funcDecl(sf, "Session", "Run")
		ok := false
		ast.Inspect(run.Body, func(n ast.Node) bool {
			if a, is := n.(*ast.AssignStmt); is && len(a.Rhs) == 1 && c04Str(a.Rhs[0]) == "make([]byte,s.mtu)" {
				ok = true
			}
			return true
		})
		if !ok {
			fail("udp/server Session.Run: the read buffer is not `make([]byte, s.mtu)`")
		}
	}

	// ownership and lifetime of what the caches hold:
	//  * every deadline is the context's or `time.Now().Add(b.expiration)` (never a zero / "never" time);
	//  * no onExpire callback of a cache element releases a message, and getCachedReceivedMessage releases none either
	//    (the reassembly message is owned by the cache until the transfer ends) and builds its close list through
	//    appendToClose only.
	{
		// Do: the request's entry lives as long as the call - `expire, _ := r.Context().Deadline()` (the zero time without a
		// deadline) together with the deferred Delete of the entry, as a statement of Do's body
		{
			fd := funcDecl(f, "BlockWise", "Do")
			dl, del := false, false
			for _, st := range fd.Body.List {
				if a, is := st.(*ast.AssignStmt); is && len(a.Lhs) == 2 && len(a.Rhs) == 1 &&
					c04Str(a.Lhs[0]) == "expire" && c04Str(a.Lhs[1]) == "_" && c04Str(a.Rhs[0]) == "r.Context().Deadline()" {
					dl = true
				}
				if d, is := st.(*ast.DeferStmt); is && c04Str(d.Call.Fun) == "b.sendingMessagesCache.Delete" && len(d.Call.Args) == 1 &&
					c04Str(d.Call.Args[0]) == "r.Token().Hash()" {
					del = true
				}
			}
			if !dl || !del {
				fail("Do: `expire, _ := r.Context().Deadline()` with `defer b.sendingMessagesCache.Delete(r.Token().Hash())` not found (lifetime of the request's cache entry)")
			}
		}
		want := map[string]string{"startSendingMessage": "expire=time.Now().Add(b.expiration)",
			"handleObserveResponse": "validUntil:=time.Now().Add(b.expiration)", "getValidUntil": "validUntil:=time.Now().Add(b.expiration)"}
		for fn, w := range want {
			fd := funcDecl(f, "BlockWise", fn)
			ok := false
			ast.Inspect(fd.Body, func(n ast.Node) bool {
				if a, is := n.(*ast.AssignStmt); is && len(a.Lhs) == 1 && len(a.Rhs) == 1 && c04Str(a.Lhs[0])+a.Tok.String()+c04Str(a.Rhs[0]) == w {
					ok = true
				}
				return true
			})
			if !ok {
				fail("%s: `%s` not found (deadline of a cache entry)", fn, w)
			}
		}
		nowAdds, elems := 0, 0
		ast.Inspect(f, func(n ast.Node) bool {
			c, is := n.(*ast.CallExpr)
			if !is {
				return true
			}
			switch c04Str(c.Fun) {
			case "time.Now().Add":
				if len(c.Args) == 1 && c04Str(c.Args[0]) == "b.expiration" {
					nowAdds++
				}
			case "cache.NewElement":
				elems++
				if len(c.Args) != 3 {
					fail("cache.NewElement is not called with 3 arguments")
				}
				switch d := c04Str(c.Args[1]); d {
				case "expire", "validUntil", "value.ValidUntil.Load()":
				default:
					fail("cache.NewElement: unexpected deadline expression `%s`", d)
				}
				if lit, isLit := c.Args[2].(*ast.FuncLit); isLit {
					ast.Inspect(lit.Body, func(m ast.Node) bool {
						if cc, is := m.(*ast.CallExpr); is && (strings.HasSuffix(c04Str(cc.Fun), "ReleaseMessage") || strings.HasSuffix(c04Str(cc.Fun), ".Release")) {
							fail("an onExpire callback releases something (`%s`)", c04Str(cc.Fun))
						}
						return true
					})
				} else if c04Str(c.Args[2]) != "nil" {
					fail("cache.NewElement: onExpire is neither nil nor a function literal")
				}
			}
			return true
		})
		if nowAdds != 3 || elems != 5 {
			fail("expected 3 `time.Now().Add(b.expiration)` and 5 cache.NewElement calls, found %d and %d", nowAdds, elems)
		}
		gc := funcDecl(f, "BlockWise", "getCachedReceivedMessage")
		appends, rels := 0, 0
		ast.Inspect(gc.Body, func(n ast.Node) bool {
			switch x := n.(type) {
			case *ast.AssignStmt:
				if len(x.Lhs) == 1 && c04Str(x.Lhs[0]) == "closeFnList" && x.Tok == token.ASSIGN {
					appends++
				}
			case *ast.CallExpr:
				if strings.HasSuffix(c04Str(x.Fun), "ReleaseMessage") {
					rels++
				}
			}
			return true
		})
		if appends != 1 || rels != 0 {
			fail("getCachedReceivedMessage: the close list must be extended by appendToClose only and no message released (found %d direct appends, %d ReleaseMessage calls)", appends, rels)
		}
	}

	// Handle: `if !more && sendingMessageCode > codes.DELETE { b.sendingMessagesCache.Delete(tokenStr) }`
	h := funcDecl(f, "BlockWise", "Handle")
	delAfterLast := false
	for _, s := range c04Ifs(h) {
		if c04Str(s.Cond) == "!more&&sendingMessageCode>codes.DELETE" && len(s.Body.List) == 1 &&
			strings.HasPrefix(c04Str(s.Body.List[0].(*ast.ExprStmt).X), "b.sendingMessagesCache.Delete(") {
			delAfterLast = true
		}
	}
	if !delAfterLast {
		fail("Handle: `if !more && sendingMessageCode > codes.DELETE { b.sendingMessagesCache.Delete(tokenStr) }` not found")
	}

	// pkg/cache: IsExpired is `now.After(value)` with a zero time meaning "never"
	_, cf := parseFile(repo, "pkg/cache/cache.go")
	ie := funcDecl(cf, "Element", "IsExpired")
	strict := false
	ast.Inspect(ie.Body, func(n ast.Node) bool {
		if r, ok := n.(*ast.ReturnStmt); ok && len(r.Results) == 1 && c04Str(r.Results[0]) == "now.After(value)" {
			strict = true
		}
		return true
	})
	if !strict {
		fail("cache.Element.IsExpired: `return now.After(value)` not found")
	}

	var b strings.Builder
	b.WriteString("namespace CoapVerif.Generated.BlockwiseXfer\n\n")
	code := func(name string, c codes.Code) {
		fmt.Fprintf(&b, "/-- message/codes: %s -/\ndef code%s : Nat := %d\n", name, name, uint64(c))
	}
	code("Empty", codes.Empty)
	code("GET", codes.GET)
	code("POST", codes.POST)
	code("PUT", codes.PUT)
	code("DELETE", codes.DELETE)
	code("Created", codes.Created)
	code("Changed", codes.Changed)
	code("Content", codes.Content)
	code("Continue", codes.Continue)
	code("RequestEntityIncomplete", codes.RequestEntityIncomplete)
	code("CSM", codes.CSM)
	code("Ping", codes.Ping)
	code("Pong", codes.Pong)
	code("Release", codes.Release)
	code("Abort", codes.Abort)
	opt := func(name string, o message.OptionID) {
		fmt.Fprintf(&b, "/-- message: option number of %s -/\ndef opt%s : Nat := %d\n", name, name, uint64(o))
	}
	opt("ETag", message.ETag)
	opt("Observe", message.Observe)
	opt("Block2", message.Block2)
	opt("Block1", message.Block1)
	opt("Size2", message.Size2)
	opt("Size1", message.Size1)
	fmt.Fprintf(&b, "/-- Do: `payloadSize <= maxSzx.Size()` sends the request as it is (true: `<=`, false: `<`) -/\ndef doDirectIsLe : Bool := %s\n", c04Bool(doLe))
	fmt.Fprintf(&b, "/-- startSendingMessage: `payloadSize < maxSZX.Size()` sends the message as it is (true: `<=`, false: `<`) -/\ndef startDirectIsLe : Bool := %s\n", c04Bool(startLe))
	fmt.Fprintf(&b, "/-- createSendingMessage as continueSendingMessage calls it: for Block1 the buffer length is added to the offset (\"skip the already sent bytes\") -/\ndef block1SkipsSent : Bool := %s\n", c04Bool(contSkips))
	fmt.Fprintf(&b, "/-- createSendingMessage as startSendingMessage calls it (first block of a response or of a one-way write): the same addend is applied (DESIGN section 6, O1) -/\ndef startSkipsSent : Bool := %s\n", c04Bool(startSkips))
	fmt.Fprintf(&b, "/-- processReceivedMessage: the no-cached-entry-and-no-more shortcut refuses NUM > 0 before `next(w, r)` -/\ndef shortcutNeedsNum0 : Bool := %s\n", c04Bool(shortcutNeedsNum0))
	fmt.Fprintf(&b, "/-- processReceivedMessage: a POST/PUT without Block1 asking for a Block2 block with NUM > 0 is refused (4.08), not handed to `next` -/\ndef refusesLostContinuation : Bool := %s\n", c04Bool(refusesLostContinuation))
	fmt.Fprintf(&b, "/-- processReceivedMessage: the response of a POST/PUT is never re-requested from block 0 (the request would go out without its body) -/\ndef refusesBodylessRestart : Bool := %s\n", c04Bool(refusesBodylessRestart))
	fmt.Fprintf(&b, "/-- createSendingMessage: a message whose Body() is nil (a pending request without body) is refused with an error before the body is used (F39) -/\ndef refusesBodylessSending : Bool := %s\n", c04Bool(refusesBodylessSending))
	fmt.Fprintf(&b, "/-- processReceivedMessage: a block at offset 0 (re)starts the transfer: held bytes dropped, options and code taken from the block -/\ndef block0Restarts : Bool := %s\n", c04Bool(block0Restarts))
	fmt.Fprintf(&b, "/-- processReceivedMessage / getCachedReceivedMessage: the per-entry guard is acquired before the cached message is touched and released only by the deferred close function, after `next(w, cachedReceivedMessage)` has returned (no earlier release, no go statement) -/\ndef guardReleasedOnlyAfterNext : Bool := true\n")
	fmt.Fprintf(&b, "/-- tcp/udp/dtls servers and clients: `createBlockWise` is a function literal that returns `blockwise.New(…)`, i.e. every connection gets its own layer (its own pair of caches) -/\ndef layerPerConnection : Bool := true\n")
	fmt.Fprintf(&b, "/-- udp/server Session.Run reads into `make([]byte, s.mtu)`: a datagram longer than the maximum message size keeps its length and is refused, not cut -/\ndef datagramReadBufferIsMTU : Bool := true\n")
	fmt.Fprintf(&b, "/-- every deadline of a cache entry other than Do's request entry is the context's deadline or `time.Now().Add(b.expiration)`: finite, also for an expiration of 0 -/\ndef deadlinesAreNowPlusExpiration : Bool := true\n")
	fmt.Fprintf(&b, "/-- Do: the entry of the request lives as long as the call: `expire, _ := r.Context().Deadline()` (zero time = no expiry without a deadline) and the deferred Delete of the entry are statements of Do's body -/\ndef doEntryLivesAsLongAsTheCall : Bool := true\n")
	fmt.Fprintf(&b, "/-- the caches own their messages: no onExpire callback and no path of getCachedReceivedMessage releases a message; the close list only releases guards -/\ndef cachesOwnTheirMessages : Bool := true\n")
	fmt.Fprintf(&b, "/-- getPayloadFromCachedReceivedMessage: on an ETag change the cached message takes over all options and the code of the new block (false: only the ETag) -/\ndef restartTakesNewOptions : Bool := %s\n", c04Bool(restartTakesOptions))
	fmt.Fprintf(&b, "/-- udp/client: DefaultConfig BlockwiseTransferTimeout (ns), BlockwiseSZX, MaxMessageSize -/\ndef defaultTransferTimeoutNs : Nat := %d\ndef defaultSZX : Nat := %d\ndef defaultMaxMessageSize : Nat := %d\n",
		int64(udpclient.DefaultConfig.BlockwiseTransferTimeout), uint64(udpclient.DefaultConfig.BlockwiseSZX), uint64(udpclient.DefaultConfig.MaxMessageSize))
	_ = blockwise.SZX16
	b.WriteString("\nend CoapVerif.Generated.BlockwiseXfer\n")
	g.write("BlockwiseXfer.lean", b.String())
}
