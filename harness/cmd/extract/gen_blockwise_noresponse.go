package main

import (
	"fmt"
	"strings"

	"github.com/plgd-dev/go-coap/v3/message/codes"
	"github.com/plgd-dev/go-coap/v3/message/noresponse"
	"github.com/plgd-dev/go-coap/v3/net/blockwise"
)

func init() {
	register("Blockwise.lean", func(g *gen, _ string) { genBlockwise(g) })
	register("NoResponse.lean", genNoResponse)
}

func genBlockwise(g *gen) {
	var b strings.Builder
	b.WriteString("namespace CoapVerif.Generated.Blockwise\n\n")
	fmt.Fprintf(&b, "/-- net/blockwise/blockwise.go: maxBlockValue -/\ndef maxBlockValue : Nat := %d\n", uint64(blockwise.VerifMaxBlockValue))
	fmt.Fprintf(&b, "/-- net/blockwise/blockwise.go: maxBlockNumber -/\ndef maxBlockNumber : Nat := %d\n", uint64(blockwise.VerifMaxBlockNumber))
	fmt.Fprintf(&b, "/-- net/blockwise/blockwise.go: moreBlocksFollowingMask -/\ndef moreMask : Nat := %d\n", uint64(blockwise.VerifMoreBlocksFollowingMask))
	fmt.Fprintf(&b, "/-- net/blockwise/blockwise.go: szxMask -/\ndef szxMask : Nat := %d\n", uint64(blockwise.VerifSzxMask))
	fmt.Fprintf(&b, "/-- net/blockwise/blockwise.go: SZXBERT -/\ndef szxBERT : Nat := %d\n", uint64(blockwise.SZXBERT))
	tbl := blockwise.VerifSzxToSize()
	ks := sortedKeys(tbl)
	fmt.Fprintf(&b, "/-- net/blockwise/blockwise.go: szxToSize (sorted by key) -/\ndef szxToSize : List (Nat × Int) := %s\n",
		natList(ks, func(k blockwise.SZX) string { return fmt.Sprintf("(%d, %d)", uint64(k), tbl[k]) }))
	b.WriteString("\nend CoapVerif.Generated.Blockwise\n")
	g.write("Blockwise.lean", b.String())
}

func genNoResponse(g *gen, repo string) {
	var b strings.Builder
	b.WriteString("namespace CoapVerif.Generated.NoResponse\n\n")
	m := noresponse.VerifValueMap()
	ks := sortedKeys(m)
	fmt.Fprintf(&b, "/-- message/noresponse/noresponse.go: noResponseValueMap (sorted by key) -/\ndef valueMap : List (Nat × List Nat) := %s\n",
		natList(ks, func(k uint32) string {
			return fmt.Sprintf("(%d, %s)", k, natList(m[k], func(c codes.Code) string { return fmt.Sprint(uint64(c)) }))
		}))
	shift, bits := noResponseClassSwitch(repo)
	fmt.Fprintf(&b, "/-- message/noresponse/noresponse.go: IsNoResponseCode switches on `code >> classShift` (read from the AST) -/\ndef classShift : Nat := %d\n", shift)
	fmt.Fprintf(&b, "/-- the `case <class>: classBit = <bit>` arms of that switch, in source order (read from the AST) -/\ndef classBits : List (Nat × Nat) := %s\n",
		natList(bits, func(p [2]uint64) string { return fmt.Sprintf("(%d, %d)", p[0], p[1]) }))
	eager, whole := noResponseWriterShape(repo)
	fmt.Fprintf(&b, "/-- net/responsewriter: New takes a snapshot of the request's No-Response value; SetResponse never looks at the request's options -/\ndef readAtConstruction : Bool := %v\n", eager)
	fmt.Fprintf(&b, "/-- net/responsewriter: the value is looked up with Options.GetUint32 over the whole list (no index expression) -/\ndef lookupOverWholeList : Bool := %v\n", whole)
	b.WriteString("\nend CoapVerif.Generated.NoResponse\n")
	g.write("NoResponse.lean", b.String())
}
