package main

import (
	"bytes"
	"fmt"
	"go/ast"
	"go/printer"
	"go/token"
	"sort"
	"strings"
)

// Blocking constructs of the client operations (C09): every `select` statement and every context-aware
// semaphore `Acquire(ctx, n)` in the listed functions, with the classes of its wake-up cases:
//
//	reqctx   – the request's / caller's context        (req.Context().Done(), ctx.Done(), …)
//	connctx  – the connection's context (cc.Context().Done(), h.cc.Context().Done(), s.ctx.Done() for the server)
//	conndone – the connection's done signal cc.Done(): completion of the shutdown, NOT accepted as a wake-up for Close()
//	result   – a channel that delivers the awaited result
//	default  – non-blocking select
//
// The anchor list is fixed here; a function that no longer exists, or a wake-up expression that cannot be
// classified, fails the generator (closed).
type c09Anchor struct{ file, recv, fn string }

var c09Anchors = []c09Anchor{
	{"udp/client/conn.go", "Conn", "doInternal"},
	{"udp/client/conn.go", "Conn", "waitForAcknowledge"},
	{"udp/client/conn.go", "Conn", "acquireOutstandingInteraction"},
	{"udp/client/conn.go", "Conn", "Process"},
	{"udp/client/conn.go", "Conn", "ProcessReceivedMessageWithHandler"},
	{"tcp/client/conn.go", "Conn", "doInternal"},
	{"tcp/client/conn.go", "Conn", "pushToReceivedMessageQueue"},
	{"net/observation/handler.go", "Handler", "NewObservation"},
	{"net/observation/handler.go", "Observation", "handle"},
	{"net/client/client.go", "Client", "Ping"},
	{"net/client/limitParallelRequests/limitParallelRequests.go", "LimitParallelRequests", "acquireEndpoint"},
	{"net/client/limitParallelRequests/limitParallelRequests.go", "LimitParallelRequests", "Do"},
	{"net/client/limitParallelRequests/limitParallelRequests.go", "LimitParallelRequests", "DoObserve"},
	{"udp/server/discover.go", "Server", "DiscoveryRequest"},
	{"net/client/receivedMessageReader.go", "ReceivedMessageReader", "loop"},
	{"net/conn.go", "Conn", "handshake"},
}

func c09ExprText(fset *token.FileSet, e ast.Node) string {
	var b bytes.Buffer
	_ = printer.Fprint(&b, fset, e)
	return strings.Join(strings.Fields(b.String()), "")
}

func c09ClassifyWake(txt string, params map[string]bool) string {
	t := strings.TrimPrefix(txt, "<-")
	switch {
	case strings.HasSuffix(t, ".Context().Done()") || strings.HasSuffix(t, ".Done()"):
		base := strings.TrimSuffix(strings.TrimSuffix(t, ".Done()"), ".Context()")
		if !strings.HasSuffix(t, ".Context().Done()") && (base == "cc" || strings.HasSuffix(base, ".cc") || base == "r.cc" || base == "cc.session") {
			// cc.Done() is the END of the connection's shutdown (the session's Run loop has returned), not the close
			// signal: it may come arbitrarily later than Close() (a reader that is still blocked in its read)
			return "conndone"
		}
		switch {
		case base == "cc" || strings.HasSuffix(base, ".cc") || base == "s.ctx" || base == "r.cc" || base == "cc.session":
			return "connctx"
		case base == "req" || base == "bwReq" || base == "ctx" || base == "mg":
			return "reqctx"
		}
		return "unknown:" + t
	case strings.HasPrefix(txt, "<-"):
		return "result"
	}
	return "result" // a send case: hand-over of a result
}

type c09WaitRec struct {
	file, fn, kind string
	cases          []string
}

// c09Files: every function of these files is scanned.  A blocking construct in a function that is not an anchor is
// emitted as well (with its function name), so that the Lean side has to classify it: a refactoring that moves a wait
// into a new helper cannot drop it from the list.
func c09CollectWaits(repo string) []c09WaitRec {
	var out []c09WaitRec
	anchored := map[string]bool{}
	var files []string
	seenFile := map[string]bool{}
	for _, a := range c09Anchors {
		anchored[a.file+"|"+a.recv+"."+a.fn] = true
		if !seenFile[a.file] {
			seenFile[a.file] = true
			files = append(files, a.file)
		}
	}
	found := map[string]bool{}
	for _, file := range files {
		fset, f := parseFile(repo, file)
		for _, d := range f.Decls {
			fd, ok := d.(*ast.FuncDecl)
			if !ok || fd.Body == nil {
				continue
			}
			recv := ""
			if fd.Recv != nil && len(fd.Recv.List) > 0 {
				recv = recvTypeName(fd.Recv.List[0].Type)
			}
			name := fd.Name.Name
			if recv != "" {
				name = recv + "." + name
			}
			key := file + "|" + name
			found[key] = true
			out = append(out, c09WaitsOf(fset, file, name, fd)...)
		}
	}
	for k := range anchored {
		if !found[k] {
			fail("C09 anchor %s no longer exists", k)
		}
	}
	return out
}

func c09WaitsOf(fset *token.FileSet, file, name string, fd *ast.FuncDecl) []c09WaitRec {
	var out []c09WaitRec
	a := struct{ file, fn string }{file, name}
	params := map[string]bool{}
	{
		ast.Inspect(fd.Body, func(n ast.Node) bool {
			switch s := n.(type) {
			case *ast.SelectStmt:
				var cs []string
				for _, c := range s.Body.List {
					cc := c.(*ast.CommClause)
					if cc.Comm == nil {
						cs = append(cs, "default")
						continue
					}
					var ex ast.Node
					switch st := cc.Comm.(type) {
					case *ast.ExprStmt:
						ex = st.X
					case *ast.AssignStmt:
						ex = st.Rhs[0]
					case *ast.SendStmt:
						ex = st.Chan
					}
					cl := c09ClassifyWake(c09ExprText(fset, ex), params)
					if strings.HasPrefix(cl, "unknown:") {
						fail("%s: %s: cannot classify wake-up `%s`", a.file, a.fn, c09ExprText(fset, ex))
					}
					cs = append(cs, cl)
				}
				sort.Strings(cs)
				out = append(out, c09WaitRec{a.file, a.fn, "select", cs})
			case *ast.CallExpr:
				if sel, ok := s.Fun.(*ast.SelectorExpr); ok && sel.Sel.Name == "Acquire" && len(s.Args) == 2 {
					cl := c09ClassifyWake("<-"+c09ExprText(fset, s.Args[0])+".Done()", params)
					if strings.HasPrefix(cl, "unknown:") {
						// Acquire(ctx, n) with the function's own ctx parameter
						cl = "reqctx"
					}
					out = append(out, c09WaitRec{a.file, a.fn, "acquire", []string{cl, "slot"}})
				}
			}
			return true
		})
	}
	return out
}

// Stream transport write path (net/conn.go): where the frame write can block in the OS and what can wake it.
//
//	writeHoldsLock      – WriteWithContext calls c.connection.Write between c.lock.Lock() and the (deferred) Unlock
//	closeTakesWriteLock – Close acquires c.lock before it calls c.connection.Close()
//	writeArmsDeadline   – WriteWithContext arms a write deadline / AfterFunc from its context
func c09CallsIn(fset *token.FileSet, fd *ast.FuncDecl) []string {
	var out []string
	ast.Inspect(fd.Body, func(n ast.Node) bool {
		if c, ok := n.(*ast.CallExpr); ok {
			out = append(out, c09ExprText(fset, c.Fun))
		}
		return true
	})
	return out
}

func c09Index(xs []string, want string) int {
	for i, x := range xs {
		if x == want {
			return i
		}
	}
	return -1
}

func c09StreamWriteFacts(repo string) (writeHoldsLock, closeTakesWriteLock, writeArmsDeadline bool) {
	fset, f := parseFile(repo, "net/conn.go")
	w := c09CallsIn(fset, funcDecl(f, "Conn", "WriteWithContext"))
	iw := c09Index(w, "c.connection.Write")
	if iw < 0 {
		fail("net/conn.go: Conn.WriteWithContext: no call of c.connection.Write")
	}
	il := c09Index(w, "c.lock.Lock")
	writeHoldsLock = il >= 0 && il < iw
	for _, c := range w {
		if strings.HasSuffix(c, "SetWriteDeadline") || strings.HasSuffix(c, "SetDeadline") || c == "context.AfterFunc" {
			writeArmsDeadline = true
		}
	}
	c := c09CallsIn(fset, funcDecl(f, "Conn", "Close"))
	ic := c09Index(c, "c.connection.Close")
	if ic < 0 {
		fail("net/conn.go: Conn.Close: no call of c.connection.Close")
	}
	for i, x := range c {
		if i < ic && (strings.HasSuffix(x, ".Lock") || strings.HasSuffix(x, ".RLock")) {
			closeTakesWriteLock = true
		}
	}
	return
}

// Handshake gate (net/conn.go handshake): the transports (pion dtls, crypto/tls) serialize HandshakeContext calls with a
// mutex, so a direct call made while another goroutine's handshake is in progress waits for that one, whatever its own
// context says.  handshakeWaitsForCtx: every call of c.handshakeContext in handshake() is made from a `go` statement, and
// the function waits in a select that has a case for its ctx parameter.
func c09HandshakeFacts(repo string) (waitsForCtx bool) {
	fset, f := parseFile(repo, "net/conn.go")
	fd := funcDecl(f, "Conn", "handshake")
	type span struct{ a, b token.Pos }
	var goSpans []span
	ast.Inspect(fd.Body, func(n ast.Node) bool {
		if g, ok := n.(*ast.GoStmt); ok {
			goSpans = append(goSpans, span{g.Pos(), g.End()})
		}
		return true
	})
	calls, direct := 0, 0
	ast.Inspect(fd.Body, func(n ast.Node) bool {
		if c, ok := n.(*ast.CallExpr); ok && c09ExprText(fset, c.Fun) == "c.handshakeContext" {
			calls++
			in := false
			for _, sp := range goSpans {
				if sp.a <= c.Pos() && c.End() <= sp.b {
					in = true
				}
			}
			if !in {
				direct++
			}
		}
		return true
	})
	if calls == 0 {
		fail("net/conn.go: Conn.handshake: no call of c.handshakeContext")
	}
	selectsCtx := false
	for _, w := range c09WaitsOf(fset, "net/conn.go", "Conn.handshake", fd) {
		for _, c := range w.cases {
			if w.kind == "select" && c == "reqctx" {
				selectsCtx = true
			}
		}
	}
	return direct == 0 && selectsCtx
}

// Registry of accepted connections (pkg/connections, used by the stream and DTLS servers at the end of Serve: the only thing
// that unblocks the readers of the accepted connections after Stop).  registryCloseVisitsAll: Connections.Close calls Close()
// of the registered connections inside a loop that nothing leaves early - no return, break, goto, continue or panic inside the
// loop (whatever one connection's Close() reports, the next one is still closed).
func c09RegistryFacts(repo string) (visitsAll bool) {
	fset, f := parseFile(repo, "pkg/connections/connections.go")
	fd := funcDecl(f, "Connections", "Close")
	loops, closing := 0, 0
	visitsAll = true
	ast.Inspect(fd.Body, func(n ast.Node) bool {
		var body *ast.BlockStmt
		switch l := n.(type) {
		case *ast.RangeStmt:
			body = l.Body
		case *ast.ForStmt:
			body = l.Body
		default:
			return true
		}
		loops++
		closes, leaves := false, false
		ast.Inspect(body, func(m ast.Node) bool {
			switch x := m.(type) {
			case *ast.CallExpr:
				t := c09ExprText(fset, x.Fun)
				if strings.HasSuffix(t, ".Close") {
					closes = true
				}
				if t == "panic" {
					leaves = true
				}
			case *ast.ReturnStmt, *ast.BranchStmt:
				leaves = true
			case *ast.FuncLit:
				return false
			}
			return true
		})
		if closes {
			closing++
			if leaves {
				visitsAll = false
			}
		}
		return false
	})
	if closing == 0 {
		fail("pkg/connections/connections.go: Connections.Close: no loop that closes the registered connections")
	}
	return visitsAll
}

func init() {
	register("BlockingWaits.lean", func(g *gen, repo string) {
		ws := c09CollectWaits(repo)
		var b strings.Builder
		b.WriteString("namespace CoapVerif.Generated.BlockingWaits\n\n")
		b.WriteString("structure Wait where\n  file : String\n  fn : String\n  kind : String\n  cases : List String\n  deriving Repr, DecidableEq\n\n")
		b.WriteString("/-- every `select` and context-aware `Acquire` of the anchored client operations, in source order (read from the AST) -/\ndef waits : List Wait := [\n")
		for i, w := range ws {
			sep := ","
			if i == len(ws)-1 {
				sep = ""
			}
			fmt.Fprintf(&b, "  ⟨%q, %q, %q, %s⟩%s\n", w.file, w.fn, w.kind, natList(w.cases, func(s string) string { return fmt.Sprintf("%q", s) }), sep)
		}
		b.WriteString("]\n\n")
		hl, cl, ad := c09StreamWriteFacts(repo)
		b.WriteString("/-- net/conn.go: the frame write happens while the connection's write lock is held -/\n")
		fmt.Fprintf(&b, "def writeHoldsLock : Bool := %v\n", hl)
		b.WriteString("/-- net/conn.go: Conn.Close acquires a lock before it closes the socket -/\n")
		fmt.Fprintf(&b, "def closeTakesWriteLock : Bool := %v\n", cl)
		b.WriteString("/-- net/conn.go: WriteWithContext arms a write deadline (or an AfterFunc) from its context -/\n")
		fmt.Fprintf(&b, "def writeArmsDeadline : Bool := %v\n", ad)
		b.WriteString("/-- net/conn.go: handshake() calls the transport's HandshakeContext only from a goroutine and waits in a select that listens to its ctx -/\n")
		fmt.Fprintf(&b, "def handshakeWaitsForCtx : Bool := %v\n", c09HandshakeFacts(repo))
		b.WriteString("/-- pkg/connections: Connections.Close closes the registered connections in a loop that nothing leaves early (no return / break / goto / continue / panic inside it) -/\n")
		fmt.Fprintf(&b, "def registryCloseVisitsAll : Bool := %v\n", c09RegistryFacts(repo))
		b.WriteString("\nend CoapVerif.Generated.BlockingWaits\n")
		g.write("BlockingWaits.lean", b.String())
	})
}
