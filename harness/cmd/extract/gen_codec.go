package main

import (
	"fmt"
	"go/ast"
	"go/token"
	"math"
	"strings"

	"github.com/plgd-dev/go-coap/v3/message"
	"github.com/plgd-dev/go-coap/v3/message/codes"
	tcpcoder "github.com/plgd-dev/go-coap/v3/tcp/coder"
)

// Facts for C01/C02 (wire codecs): Generated/CodecConsts.lean and Generated/OptionDefs.lean.

func init() {
	register("CodecConsts.lean", func(g *gen, _ string) { genCodecConsts(g) })
	register("OptionDefs.lean", func(g *gen, _ string) { genOptionDefs(g) })
}

func genCodecConsts(g *gen) {
	var b strings.Builder
	b.WriteString("namespace CoapVerif.Generated.Codec\n\n")
	c := func(doc, name string, v uint64) {
		fmt.Fprintf(&b, "/-- %s -/\ndef %s : Nat := %d\n", doc, name, v)
	}
	c("message/option.go: ExtendOptionByteCode", "extByteCode", message.ExtendOptionByteCode)
	c("message/option.go: ExtendOptionByteAddend", "extByteAddend", message.ExtendOptionByteAddend)
	c("message/option.go: ExtendOptionWordCode", "extWordCode", message.ExtendOptionWordCode)
	c("message/option.go: ExtendOptionWordAddend", "extWordAddend", message.ExtendOptionWordAddend)
	c("message/option.go: ExtendOptionError", "extError", message.ExtendOptionError)
	c("message/message.go: MaxTokenSize", "maxTokenSize", message.MaxTokenSize)
	c("message/getmid.go: ValidateMID upper bound (math.MaxUint16)", "maxMID", math.MaxUint16)
	c("message/type.go: Reset (largest message type of RFC 7252)", "typeReset", uint64(message.Reset))
	c("largest OptionID (type uint16)", "maxOptionID", uint64(^message.OptionID(0)))
	c("tcp/coder/coder.go: MessageLength13Base", "msgLen13Base", tcpcoder.MessageLength13Base)
	c("tcp/coder/coder.go: MessageLength14Base", "msgLen14Base", tcpcoder.MessageLength14Base)
	c("tcp/coder/coder.go: MessageLength15Base", "msgLen15Base", tcpcoder.MessageLength15Base)
	c("tcp/coder/coder.go: messageMaxLen", "messageMaxLen", tcpcoder.VerifMessageMaxLen)
	c("message/codes: CSM", "codeCSM", uint64(codes.CSM))
	c("message/codes: Ping", "codePing", uint64(codes.Ping))
	c("message/codes: Pong", "codePong", uint64(codes.Pong))
	c("message/codes: Release", "codeRelease", uint64(codes.Release))
	c("message/codes: Abort", "codeAbort", uint64(codes.Abort))
	b.WriteString("\nend CoapVerif.Generated.Codec\n")
	g.write("CodecConsts.lean", b.String())
}

func genOptionDefs(g *gen) {
	var b strings.Builder
	b.WriteString("namespace CoapVerif.Generated.OptionDefs\n\n")
	fmt.Fprintf(&b, "/-- message/option.go: ValueFormat enumeration -/\ndef fmtUnknown : Nat := %d\ndef fmtEmpty : Nat := %d\ndef fmtOpaque : Nat := %d\ndef fmtUint : Nat := %d\ndef fmtString : Nat := %d\n\n",
		message.ValueUnknown, message.ValueEmpty, message.ValueOpaque, message.ValueUint, message.ValueString)
	tbl := func(doc, name string, m map[message.OptionID]message.OptionDef) {
		ks := sortedKeys(m)
		fmt.Fprintf(&b, "/-- %s: (ID, MinLen, MaxLen, ValueFormat), sorted by ID -/\ndef %s : List (Nat × Nat × Nat × Nat) := %s\n",
			doc, name, natList(ks, func(k message.OptionID) string {
				d := m[k]
				return fmt.Sprintf("(%d, %d, %d, %d)", uint64(k), d.MinLen, d.MaxLen, uint64(d.ValueFormat))
			}))
	}
	tbl("message/option.go: CoapOptionDefs", "coapOptionDefs", message.CoapOptionDefs)
	tbl("message/tcpOptions.go: TCPSignalCSMOptionDefs", "tcpSignalCSMOptionDefs", message.TCPSignalCSMOptionDefs)
	tbl("message/tcpOptions.go: TCPSignalPingPongOptionDefs", "tcpSignalPingPongOptionDefs", message.TCPSignalPingPongOptionDefs)
	tbl("message/tcpOptions.go: TCPSignalReleaseOptionDefs", "tcpSignalReleaseOptionDefs", message.TCPSignalReleaseOptionDefs)
	tbl("message/tcpOptions.go: TCPSignalAbortOptionDefs", "tcpSignalAbortOptionDefs", message.TCPSignalAbortOptionDefs)
	b.WriteString("\nend CoapVerif.Generated.OptionDefs\n")
	g.write("OptionDefs.lean", b.String())
}

// ---------------------------------------------------------------- shape of the pooled capacity-retry loop

func init() {
	register("PoolRetry.lean", genPoolRetry)
}

// genPoolRetry recognises, in message/pool/message.go: (*Message).decode,
//
//	for {
//		n, err = decoder.Decode(r.bufferUnmarshal, &r.msg)
//		if errors.Is(err, message.ErrOptionsTooSmall) {
//			optionsCap := len(r.msg.Options) * K
//			if optionsCap == 0 { optionsCap = Z }            // optional
//			if optionsCap > L { optionsCap = L }              // optional: a cap on the capacity (L literal or constant)
//			r.msg.Options = make(message.Options, 0, optionsCap)
//			continue
//		}
//		return n, err
//	}
//
// and emits K, Z and the optional cap L. Any other statement in the retry branch fails closed.
func genPoolRetry(g *gen, repo string) {
	_, f := parseFile(repo, "message/pool/message.go")
	fd := funcDecl(f, "Message", "decode")
	var loop *ast.ForStmt
	for _, st := range fd.Body.List {
		if fs, ok := st.(*ast.ForStmt); ok {
			if loop != nil {
				fail("Message.decode: more than one loop")
			}
			loop = fs
		}
	}
	if loop == nil || loop.Cond != nil || loop.Init != nil || loop.Post != nil {
		fail("Message.decode: expected one `for { … }` loop")
	}
	if len(loop.Body.List) != 3 {
		fail("Message.decode: loop body is not `decode; if too-small {…}; return`")
	}
	if _, ok := loop.Body.List[2].(*ast.ReturnStmt); !ok {
		fail("Message.decode: loop does not end with `return n, err`")
	}
	ifs, ok := loop.Body.List[1].(*ast.IfStmt)
	if !ok || ifs.Else != nil || ifs.Init != nil {
		fail("Message.decode: second statement of the loop is not a plain if")
	}
	call, ok := ifs.Cond.(*ast.CallExpr)
	if !ok || len(call.Args) != 2 || selName(call.Fun) != "errors.Is" || selName(call.Args[1]) != "message.ErrOptionsTooSmall" {
		fail("Message.decode: retry condition is not errors.Is(err, message.ErrOptionsTooSmall)")
	}
	body := ifs.Body.List
	if len(body) < 3 {
		fail("Message.decode: retry branch too short")
	}
	// 1. optionsCap := len(r.msg.Options) * K
	def, ok := body[0].(*ast.AssignStmt)
	if !ok || def.Tok != token.DEFINE || len(def.Lhs) != 1 || len(def.Rhs) != 1 {
		fail("Message.decode: retry branch does not start with `v := len(r.msg.Options) * K`")
	}
	v := identName(def.Lhs[0])
	mul, ok := def.Rhs[0].(*ast.BinaryExpr)
	if !ok || mul.Op != token.MUL {
		fail("Message.decode: new capacity is not `len(r.msg.Options) * K`")
	}
	lc, ok := mul.X.(*ast.CallExpr)
	if !ok || identName(lc.Fun) != "len" || len(lc.Args) != 1 || selName(lc.Args[0]) != "r.msg.Options" {
		fail("Message.decode: new capacity is not computed from len(r.msg.Options)")
	}
	factor := intLit(mul.Y)
	zero := uint64(0)
	limit := "none"
	// 2. optional adjustments
	for _, st := range body[1 : len(body)-2] {
		is, ok := st.(*ast.IfStmt)
		if !ok || is.Else != nil || is.Init != nil || len(is.Body.List) != 1 {
			fail("Message.decode: unexpected statement in the retry branch")
		}
		cond, ok := is.Cond.(*ast.BinaryExpr)
		as, ok2 := is.Body.List[0].(*ast.AssignStmt)
		if !ok || !ok2 || identName(cond.X) != v || as.Tok != token.ASSIGN || len(as.Lhs) != 1 || identName(as.Lhs[0]) != v || len(as.Rhs) != 1 {
			fail("Message.decode: adjustment of the new capacity has an unexpected shape (e.g. returns instead of assigning)")
		}
		switch cond.Op {
		case token.EQL:
			if intLit(cond.Y) != 0 {
				fail("Message.decode: `%s == N` with N != 0", v)
			}
			zero = intLit(as.Rhs[0])
		case token.GTR:
			l := constOrLit(f, cond.Y)
			if constOrLit(f, as.Rhs[0]) != l {
				fail("Message.decode: capacity clamp assigns a different value than it tests")
			}
			limit = fmt.Sprintf("some %d", l)
		default:
			fail("Message.decode: unexpected comparison in the retry branch")
		}
	}
	// 3. r.msg.Options = make(message.Options, 0, v)   4. continue
	as, ok := body[len(body)-2].(*ast.AssignStmt)
	if !ok || as.Tok != token.ASSIGN || len(as.Lhs) != 1 || selName(as.Lhs[0]) != "r.msg.Options" {
		fail("Message.decode: retry branch does not assign r.msg.Options")
	}
	mk, ok := as.Rhs[0].(*ast.CallExpr)
	if !ok || identName(mk.Fun) != "make" || len(mk.Args) != 3 || intLit(mk.Args[1]) != 0 || identName(mk.Args[2]) != v {
		fail("Message.decode: new option slice is not make(message.Options, 0, %s)", v)
	}
	if br, ok := body[len(body)-1].(*ast.BranchStmt); !ok || br.Tok != token.CONTINUE {
		fail("Message.decode: retry branch does not end with continue")
	}
	var b strings.Builder
	b.WriteString("namespace CoapVerif.Generated.PoolRetry\n\n")
	b.WriteString("/-! message/pool/message.go: (*Message).decode — shape of the retry branch after ErrOptionsTooSmall (read from the AST) -/\n")
	fmt.Fprintf(&b, "/-- new capacity = len(r.msg.Options) * retryFactor -/\ndef retryFactor : Nat := %d\n", factor)
	fmt.Fprintf(&b, "/-- … replaced by this value when it is 0 (0 = no such statement) -/\ndef retryZeroCap : Nat := %d\n", zero)
	fmt.Fprintf(&b, "/-- … clamped to this value when larger (`none` = the capacity is not capped); hitting a cap is NOT an error in this shape -/\ndef retryCapLimit : Option Nat := %s\n", limit)
	b.WriteString("\nend CoapVerif.Generated.PoolRetry\n")
	g.write("PoolRetry.lean", b.String())
}

// selName renders a.b.c selector chains and identifiers.
func selName(e ast.Expr) string {
	switch t := e.(type) {
	case *ast.Ident:
		return t.Name
	case *ast.SelectorExpr:
		return selName(t.X) + "." + t.Sel.Name
	}
	return ""
}

// constOrLit is the value of an integer literal or of a package-level integer constant of the file.
func constOrLit(f *ast.File, e ast.Expr) uint64 {
	if bl, ok := e.(*ast.BasicLit); ok {
		return intLit(bl)
	}
	name := identName(e)
	for _, d := range f.Decls {
		gd, ok := d.(*ast.GenDecl)
		if !ok || gd.Tok != token.CONST {
			continue
		}
		for _, sp := range gd.Specs {
			vs := sp.(*ast.ValueSpec)
			for i, n := range vs.Names {
				if n.Name == name && i < len(vs.Values) {
					return intLit(vs.Values[i])
				}
			}
		}
	}
	fail("cannot resolve integer constant %q", name)
	return 0
}
