package main

import (
	"fmt"
	"math"
	"strings"

	"github.com/plgd-dev/go-coap/v3/message"
	"github.com/plgd-dev/go-coap/v3/message/codes"
	tcpcoder "github.com/plgd-dev/go-coap/v3/tcp/coder"
)

// Facts for C01/C02 (wire codecs): Generated/CodecConsts.lean and Generated/OptionDefs.lean.

func init() {
	register("CodecConsts.lean", func(g *gen, _ string) { genCodecConsts(g) })
	register("OptionDefs.lean", func(g *gen, _ string) { genOptionDefs(g) })
}

func genCodecConsts(g *gen) {
	var b strings.Builder
	b.WriteString("namespace CoapVerif.Generated.Codec\n\n")
	c := func(doc, name string, v uint64) {
		fmt.Fprintf(&b, "/-- %s -/\ndef %s : Nat := %d\n", doc, name, v)
	}
	c("message/option.go: ExtendOptionByteCode", "extByteCode", message.ExtendOptionByteCode)
	c("message/option.go: ExtendOptionByteAddend", "extByteAddend", message.ExtendOptionByteAddend)
	c("message/option.go: ExtendOptionWordCode", "extWordCode", message.ExtendOptionWordCode)
	c("message/option.go: ExtendOptionWordAddend", "extWordAddend", message.ExtendOptionWordAddend)
	c("message/option.go: ExtendOptionError", "extError", message.ExtendOptionError)
	c("message/message.go: MaxTokenSize", "maxTokenSize", message.MaxTokenSize)
	c("message/getmid.go: ValidateMID upper bound (math.MaxUint16)", "maxMID", math.MaxUint16)
	c("message/type.go: Reset (largest message type of RFC 7252)", "typeReset", uint64(message.Reset))
	c("largest OptionID (type uint16)", "maxOptionID", uint64(^message.OptionID(0)))
	c("tcp/coder/coder.go: MessageLength13Base", "msgLen13Base", tcpcoder.MessageLength13Base)
	c("tcp/coder/coder.go: MessageLength14Base", "msgLen14Base", tcpcoder.MessageLength14Base)
	c("tcp/coder/coder.go: MessageLength15Base", "msgLen15Base", tcpcoder.MessageLength15Base)
	c("tcp/coder/coder.go: messageMaxLen", "messageMaxLen", tcpcoder.VerifMessageMaxLen)
	c("message/codes: CSM", "codeCSM", uint64(codes.CSM))
	c("message/codes: Ping", "codePing", uint64(codes.Ping))
	c("message/codes: Pong", "codePong", uint64(codes.Pong))
	c("message/codes: Release", "codeRelease", uint64(codes.Release))
	c("message/codes: Abort", "codeAbort", uint64(codes.Abort))
	b.WriteString("\nend CoapVerif.Generated.Codec\n")
	g.write("CodecConsts.lean", b.String())
}

func genOptionDefs(g *gen) {
	var b strings.Builder
	b.WriteString("namespace CoapVerif.Generated.OptionDefs\n\n")
	fmt.Fprintf(&b, "/-- message/option.go: ValueFormat enumeration -/\ndef fmtUnknown : Nat := %d\ndef fmtEmpty : Nat := %d\ndef fmtOpaque : Nat := %d\ndef fmtUint : Nat := %d\ndef fmtString : Nat := %d\n\n",
		message.ValueUnknown, message.ValueEmpty, message.ValueOpaque, message.ValueUint, message.ValueString)
	tbl := func(doc, name string, m map[message.OptionID]message.OptionDef) {
		ks := sortedKeys(m)
		fmt.Fprintf(&b, "/-- %s: (ID, MinLen, MaxLen, ValueFormat), sorted by ID -/\ndef %s : List (Nat × Nat × Nat × Nat) := %s\n",
			doc, name, natList(ks, func(k message.OptionID) string {
				d := m[k]
				return fmt.Sprintf("(%d, %d, %d, %d)", uint64(k), d.MinLen, d.MaxLen, uint64(d.ValueFormat))
			}))
	}
	tbl("message/option.go: CoapOptionDefs", "coapOptionDefs", message.CoapOptionDefs)
	tbl("message/tcpOptions.go: TCPSignalCSMOptionDefs", "tcpSignalCSMOptionDefs", message.TCPSignalCSMOptionDefs)
	tbl("message/tcpOptions.go: TCPSignalPingPongOptionDefs", "tcpSignalPingPongOptionDefs", message.TCPSignalPingPongOptionDefs)
	tbl("message/tcpOptions.go: TCPSignalReleaseOptionDefs", "tcpSignalReleaseOptionDefs", message.TCPSignalReleaseOptionDefs)
	tbl("message/tcpOptions.go: TCPSignalAbortOptionDefs", "tcpSignalAbortOptionDefs", message.TCPSignalAbortOptionDefs)
	b.WriteString("\nend CoapVerif.Generated.OptionDefs\n")
	g.write("OptionDefs.lean", b.String())
}
