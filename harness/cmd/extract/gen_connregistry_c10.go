package main

// gen_connregistry_c10.go — C10 translator tie: what the connection registry of the stream and DTLS servers
// (pkg/connections/connections.go, used by tcp/server and dtls/server: Serve, serveConnection) uses as KEY.
//
// The registry decides which accepted connections the housekeeping pass visits and which ones the end of Serve closes.
// Model/StreamServer.lean branches on the key:
//
//   remoteAddr  : c.data.Store(conn.RemoteAddr().String(), conn) / c.data.Delete(conn.RemoteAddr().String())
//   connection  : c.data.Store(conn, conn)                        / c.data.Delete(conn)
//
// Recognised with go/ast only.  Store and Delete must each consist of exactly ONE statement, the call on c.data shown
// above, with the same kind of key in both; the two servers' serveConnection must register with
// `connections.Store(cc)` followed by `defer connections.Delete(cc)`.  Anything else (a second statement, Swap,
// CompareAndDelete, another key expression, different keys in Store and Delete …) fails closed.

import (
	"fmt"
	"go/ast"
	"strings"
)

func init() {
	register("ConnRegistry.lean", genConnRegistry)
}

// crKey classifies a key expression relative to the parameter name of the method
func crKey(fset interface{}, e ast.Expr, param string) string {
	if identName(e) == param {
		return "connection"
	}
	// <param>.RemoteAddr().String()
	if c1, ok := e.(*ast.CallExpr); ok && len(c1.Args) == 0 {
		if s1, ok := c1.Fun.(*ast.SelectorExpr); ok && s1.Sel.Name == "String" {
			if c2, ok := s1.X.(*ast.CallExpr); ok && len(c2.Args) == 0 {
				if s2, ok := c2.Fun.(*ast.SelectorExpr); ok && s2.Sel.Name == "RemoteAddr" && identName(s2.X) == param {
					return "remoteAddr"
				}
			}
		}
	}
	return ""
}

// crOnlyCall: the body of Connections.<method> is exactly `<recv>.data.<method>(args…)`; returns the arguments
func crOnlyCall(fd *ast.FuncDecl, method string) (args []ast.Expr, param string) {
	if fd.Body == nil || len(fd.Body.List) != 1 {
		fail("pkg/connections: %s: expected exactly one statement", method)
	}
	if len(fd.Type.Params.List) != 1 || len(fd.Type.Params.List[0].Names) != 1 {
		fail("pkg/connections: %s: expected one parameter", method)
	}
	param = fd.Type.Params.List[0].Names[0].Name
	if len(fd.Recv.List) != 1 || len(fd.Recv.List[0].Names) != 1 {
		fail("pkg/connections: %s: unexpected receiver", method)
	}
	recv := fd.Recv.List[0].Names[0].Name
	es, ok := fd.Body.List[0].(*ast.ExprStmt)
	if !ok {
		fail("pkg/connections: %s: the statement is not a call", method)
	}
	call, ok := es.X.(*ast.CallExpr)
	if !ok {
		fail("pkg/connections: %s: the statement is not a call", method)
	}
	sel, ok := call.Fun.(*ast.SelectorExpr)
	if !ok || sel.Sel.Name != method {
		fail("pkg/connections: %s: expected a call of data.%s", method, method)
	}
	inner, ok := sel.X.(*ast.SelectorExpr)
	if !ok || inner.Sel.Name != "data" || identName(inner.X) != recv {
		fail("pkg/connections: %s: the call is not on %s.data", method, recv)
	}
	return call.Args, param
}

// crServeConnection: `connections.Store(cc)` immediately followed by `defer connections.Delete(cc)`
func crServeConnection(repo, rel string) {
	_, f := parseFile(repo, rel)
	fd := funcDecl(f, "Server", "serveConnection")
	found := false
	for i, st := range fd.Body.List {
		es, ok := st.(*ast.ExprStmt)
		if !ok {
			continue
		}
		call, ok := es.X.(*ast.CallExpr)
		if !ok {
			continue
		}
		sel, ok := call.Fun.(*ast.SelectorExpr)
		if !ok || sel.Sel.Name != "Store" || identName(sel.X) != "connections" {
			continue
		}
		if found || len(call.Args) != 1 || identName(call.Args[0]) == "" || i+1 >= len(fd.Body.List) {
			fail("%s: serveConnection: unexpected registration", rel)
		}
		df, ok := fd.Body.List[i+1].(*ast.DeferStmt)
		if !ok {
			fail("%s: serveConnection: Store is not followed by the deferred Delete", rel)
		}
		dsel, ok := df.Call.Fun.(*ast.SelectorExpr)
		if !ok || dsel.Sel.Name != "Delete" || identName(dsel.X) != "connections" || len(df.Call.Args) != 1 ||
			identName(df.Call.Args[0]) != identName(call.Args[0]) {
			fail("%s: serveConnection: Store is not followed by `defer connections.Delete` of the same connection", rel)
		}
		found = true
	}
	if !found {
		fail("%s: serveConnection does not register the connection", rel)
	}
	// no other use of Store / Delete of the registry in the file
	n := 0
	ast.Inspect(f, func(nd ast.Node) bool {
		if sel, ok := nd.(*ast.SelectorExpr); ok && identName(sel.X) == "connections" && (sel.Sel.Name == "Store" || sel.Sel.Name == "Delete") {
			n++
		}
		return true
	})
	if n != 2 {
		fail("%s: %d uses of connections.Store/Delete, expected 2", rel, n)
	}
}

func genConnRegistry(g *gen, repo string) {
	_, f := parseFile(repo, "pkg/connections/connections.go")
	sargs, sparam := crOnlyCall(funcDecl(f, "Connections", "Store"), "Store")
	if len(sargs) != 2 || identName(sargs[1]) != sparam {
		fail("pkg/connections: Store: expected data.Store(<key>, %s)", sparam)
	}
	dargs, dparam := crOnlyCall(funcDecl(f, "Connections", "Delete"), "Delete")
	if len(dargs) != 1 {
		fail("pkg/connections: Delete: expected data.Delete(<key>)")
	}
	sk := crKey(nil, sargs[0], sparam)
	dk := crKey(nil, dargs[0], dparam)
	if sk == "" || dk == "" {
		fail("pkg/connections: unrecognised key expression (Store %q, Delete %q)", sk, dk)
	}
	if sk != dk {
		fail("pkg/connections: Store keys by %s, Delete by %s", sk, dk)
	}
	// no other writer of the map
	for _, d := range f.Decls {
		fd, ok := d.(*ast.FuncDecl)
		if !ok || fd.Body == nil || fd.Name.Name == "Store" || fd.Name.Name == "Delete" {
			continue
		}
		ast.Inspect(fd.Body, func(nd ast.Node) bool {
			if sel, ok := nd.(*ast.SelectorExpr); ok {
				if in, ok := sel.X.(*ast.SelectorExpr); ok && in.Sel.Name == "data" {
					switch sel.Sel.Name {
					case "Range":
					default:
						fail("pkg/connections: %s uses data.%s", fd.Name.Name, sel.Sel.Name)
					}
				}
			}
			return true
		})
	}
	crServeConnection(repo, "tcp/server/server.go")
	crServeConnection(repo, "dtls/server/server.go")
	var b strings.Builder
	b.WriteString("namespace CoapVerif.Generated.ConnRegistry\n\n")
	b.WriteString("/-- what `pkg/connections` (the registry of accepted connections of tcp/server and dtls/server) uses as key -/\n")
	b.WriteString("inductive RegKey\n  | remoteAddr   -- conn.RemoteAddr().String()\n  | connection   -- the connection itself\n  deriving Repr, DecidableEq\n\n")
	b.WriteString("/-- `Connections.Store` and `Connections.Delete` (one statement each, the same kind of key); tcp/server and dtls/server\n    `serveConnection`: `connections.Store(cc)` then `defer connections.Delete(cc)` -/\n")
	fmt.Fprintf(&b, "def key : RegKey := .%s\n\n", sk)
	b.WriteString("end CoapVerif.Generated.ConnRegistry\n")
	g.write("ConnRegistry.lean", b.String())
}
