package main

// Generators for C05 (Generated/Dedup.lean) and C06 (Generated/Retransmit.lean).
//
// Values (ExchangeLifetime, default transmission parameters) are obtained by compiling against
// /repo; shapes are read from the AST of udp/client/conn.go by recognisers for the exact idioms
// present. Anything unexpected fails closed (the file is left as it was and the check reports the
// tie as broken).

import (
	"fmt"
	"go/ast"
	"go/token"
	"strings"

	udpclient "github.com/plgd-dev/go-coap/v3/udp/client"
)

func init() {
	register("Dedup.lean", genDedup)
	register("Retransmit.lean", genRetransmit)
}

const drConnFile = "udp/client/conn.go"

// drConstExpr evaluates an integer literal or `lit / lit` (the only constant forms used in the anchors).
func drConstExpr(e ast.Expr) uint64 {
	switch v := e.(type) {
	case *ast.BasicLit:
		return intLit(v)
	case *ast.ParenExpr:
		return drConstExpr(v.X)
	case *ast.BinaryExpr:
		a, b := drConstExpr(v.X), drConstExpr(v.Y)
		switch v.Op {
		case token.QUO:
			if b == 0 {
				fail("division by zero in constant")
			}
			return a / b
		case token.ADD:
			return a + b
		case token.SUB:
			return a - b
		case token.MUL:
			return a * b
		}
	}
	fail("unsupported constant expression %T", e)
	return 0
}

// selCall matches `<recv>.<name>(args...)` where recv is rendered as drDotted identifiers; returns args.
func drDotted(e ast.Expr) string {
	switch v := e.(type) {
	case *ast.Ident:
		return v.Name
	case *ast.SelectorExpr:
		return drDotted(v.X) + "." + v.Sel.Name
	case *ast.CallExpr:
		return drDotted(v.Fun) + "()"
	}
	return "?"
}

func drCallsIn(n ast.Node, fun string) []*ast.CallExpr {
	var out []*ast.CallExpr
	ast.Inspect(n, func(x ast.Node) bool {
		if c, ok := x.(*ast.CallExpr); ok && drDotted(c.Fun) == fun {
			out = append(out, c)
		}
		return true
	})
	return out
}

// drItoaIntArg matches strconv.Itoa(int(X)) and returns X.
func drItoaIntArg(e ast.Expr) ast.Expr {
	c, ok := e.(*ast.CallExpr)
	if !ok || drDotted(c.Fun) != "strconv.Itoa" || len(c.Args) != 1 {
		fail("cache key is not strconv.Itoa(int(..))")
	}
	c2, ok := c.Args[0].(*ast.CallExpr)
	if !ok || identName(c2.Fun) != "int" || len(c2.Args) != 1 {
		fail("cache key is not strconv.Itoa(int(..))")
	}
	return c2.Args[0]
}

func drParamNames(fd *ast.FuncDecl) []string {
	var out []string
	for _, f := range fd.Type.Params.List {
		for _, n := range f.Names {
			out = append(out, n.Name)
		}
	}
	return out
}

func drContains(xs []string, s string) bool {
	for _, x := range xs {
		if x == s {
			return true
		}
	}
	return false
}

func drLeanBool(b bool) string {
	if b {
		return "true"
	}
	return "false"
}


// --- per-connection set-up of the servers and the transmission option (round 4: the configuration path is tied as well)

// drAssigns reports whether node n contains the plain assignment `<lhs> = <rhs>` (dotted names).
func drAssigns(n ast.Node, lhs, rhs string) bool {
	found := false
	ast.Inspect(n, func(x ast.Node) bool {
		if as, ok := x.(*ast.AssignStmt); ok && as.Tok == token.ASSIGN && len(as.Lhs) == 1 && len(as.Rhs) == 1 &&
			drDotted(as.Lhs[0]) == lhs && drDotted(as.Rhs[0]) == rhs {
			found = true
		}
		return true
	})
	return found
}

var drTransmissionFields = []string{"TransmissionNStart", "TransmissionAcknowledgeTimeout", "TransmissionMaxRetransmit"}

// drConnTakesTransmission: the function copies the three transmission parameters of the server configuration into the
// configuration of the connection it creates (`cfg.X = s.cfg.X`).
func drConnTakesTransmission(fd *ast.FuncDecl) bool {
	for _, fld := range drTransmissionFields {
		if !drAssigns(fd, "cfg."+fld, "s.cfg."+fld) {
			return false
		}
	}
	return true
}

// drConnDefaultCache: the NewConnWithOpts call of the function passes no response-message-cache option, i.e. the
// connection gets the default (unbounded, EXCHANGE_LIFETIME) cache of udp/client.
func drConnDefaultCache(fd *ast.FuncDecl, pkg string) bool {
	calls := drCallsIn(fd, pkg+".NewConnWithOpts")
	if len(calls) != 1 {
		fail("%s: expected one %s.NewConnWithOpts call", fd.Name.Name, pkg)
	}
	return len(drCallsIn(calls[0], pkg+".WithResponseMessageCache")) == 0
}

// drMutexMapTrace lists, in source order, what a method of udp/client/mutexmap.go does with the map lock, the entry map, an
// entry's reference count and an entry's own mutex.
func drMutexMapTrace(fn *ast.FuncDecl) string {
	var ev []string
	stores := map[ast.Node]bool{}
	deferred := map[ast.Node]bool{}
	ast.Inspect(fn.Body, func(x ast.Node) bool {
		switch v := x.(type) {
		case *ast.DeferStmt:
			deferred[v.Call] = true
		case *ast.AssignStmt:
			for _, l := range v.Lhs {
				if ix, ok := l.(*ast.IndexExpr); ok && exprStr(ix.X) == "m.ma" {
					stores[ix] = true
					ev = append(ev, "store:"+exprStr(ix.Index))
				}
			}
		case *ast.IndexExpr:
			if exprStr(v.X) == "m.ma" && !stores[v] {
				ev = append(ev, "load:"+exprStr(v.Index))
			}
		case *ast.IncDecStmt:
			ev = append(ev, "incdec:"+exprStr(v.X)+v.Tok.String())
		case *ast.IfStmt:
			ev = append(ev, "if:"+exprStr(v.Cond))
		case *ast.ReturnStmt:
			var rs []string
			for _, r := range v.Results {
				rs = append(rs, exprStr(r))
			}
			ev = append(ev, "return:"+strings.Join(rs, ","))
		case *ast.CompositeLit:
			if identName(v.Type) == "mutexMapEntry" {
				cnt := "0"
				for _, el := range v.Elts {
					if kv, ok := el.(*ast.KeyValueExpr); ok && identName(kv.Key) == "cnt" {
						cnt = exprStr(kv.Value)
					}
				}
				ev = append(ev, "new:cnt="+cnt)
			}
		case *ast.CallExpr:
			name := exprStr(v.Fun)
			switch name {
			case "m.ml.Lock", "m.ml.Unlock", "e.el.Lock", "e.el.Unlock", "e.el.TryLock":
				if deferred[v] {
					name = "defer " + name
				}
				ev = append(ev, "call:"+name)
			case "delete":
				var as []string
				for _, a := range v.Args {
					as = append(as, exprStr(a))
				}
				ev = append(ev, "delete:"+strings.Join(as, ","))
			case "panic":
				ev = append(ev, "panic")
			}
		}
		return true
	})
	return strings.Join(ev, " | ")
}

// drMutexMapRefCounted: udp/client/mutexmap.go has the shape Model/DedupLockN.lean models - the entry of a key is found or
// created and its reference count changed under the map lock, TryLock creates the entry with count 1 and its mutex taken
// and refuses when an entry exists, Lock waits for the entry's mutex after the map lock is released, Unlock decrements
// under the map lock, removes the entry when the count drops below 1 and releases the entry's mutex last.  Fails closed:
// any other sequence of these operations yields false.
func drMutexMapRefCounted(repo string) bool {
	_, f := parseFile(repo, "udp/client/mutexmap.go")
	lock := funcDecl(f, "MutexMap", "Lock")
	try := funcDecl(f, "MutexMap", "TryLock")
	unlock := funcDecl(f, "mutexMapEntry", "Unlock")
	if lock == nil || try == nil || unlock == nil {
		fail("udp/client/mutexmap.go: Lock / TryLock / Unlock not found")
		return false
	}
	wantLock := "call:m.ml.Lock | load:key | if:!ok | new:cnt=0 | store:key | incdec:e.cnt++ | call:m.ml.Unlock | call:e.el.Lock | return:e"
	wantTry := "call:m.ml.Lock | call:defer m.ml.Unlock | if:ok | load:key | return:nil,false | new:cnt=1 | call:e.el.Lock | store:key | return:e,true"
	wantUnlock := "call:m.ml.Lock | load:entry.key | if:!ok | call:m.ml.Unlock | panic | incdec:e.cnt-- | if:e.cnt < 1 | delete:m.ma,entry.key | call:m.ml.Unlock | call:e.el.Unlock"
	return drMutexMapTrace(lock) == wantLock && drMutexMapTrace(try) == wantTry && drMutexMapTrace(unlock) == wantUnlock
}

func genDedup(g *gen, repo string) {
	_, f := parseFile(repo, drConnFile)

	// --- which key does the lookup use: checkResponseCache -> getResponseFromCache(req.MessageID(), ..) -> Load(Itoa(int(mid)))
	get := funcDecl(f, "Conn", "getResponseFromCache")
	loads := drCallsIn(get, "cc.responseMsgCache.Load")
	if len(loads) != 1 || len(loads[0].Args) != 2 {
		fail("getResponseFromCache: expected one cc.responseMsgCache.Load(key, resp)")
	}
	getKey := identName(drItoaIntArg(loads[0].Args[0]))
	gp := drParamNames(get)
	if getKey == "" || len(gp) == 0 || gp[0] != getKey {
		fail("getResponseFromCache: key is not its first parameter")
	}
	chk := funcDecl(f, "Conn", "checkResponseCache")
	gets := drCallsIn(chk, "cc.getResponseFromCache")
	if len(gets) != 1 || len(gets[0].Args) != 2 {
		fail("checkResponseCache: expected one getResponseFromCache call")
	}
	lookupReq := drDotted(gets[0].Args[0]) == "req.MessageID()"

	// --- which key does the store use
	add := funcDecl(f, "Conn", "addResponseToCache")
	stores := drCallsIn(add, "cc.responseMsgCache.Store")
	if len(stores) != 1 || len(stores[0].Args) != 2 {
		fail("addResponseToCache: expected one cc.responseMsgCache.Store(key, resp)")
	}
	keyExpr := drItoaIntArg(stores[0].Args[0])
	ap := drParamNames(add)
	pr := funcDecl(f, "Conn", "processResponse")
	prParams := drParamNames(pr)
	adds := drCallsIn(pr, "cc.addResponseToCache")
	// the switch of processResponse: first arm = isPongOrResetResponse(w) (empty / reset reply); does it cache the reply?
	emptyCached := false
	armSeen := false
	ast.Inspect(pr, func(x ast.Node) bool {
		if cc, ok := x.(*ast.CaseClause); ok && len(cc.List) == 1 && len(drCallsIn(cc.List[0], "isPongOrResetResponse")) == 1 {
			armSeen = true
			n := 0
			for _, st := range cc.Body {
				n += len(drCallsIn(st, "cc.addResponseToCache"))
			}
			emptyCached = n == 1
			if n > 1 {
				fail("processResponse: empty/reset arm stores more than once")
			}
		}
		return true
	})
	if !armSeen {
		fail("processResponse: isPongOrResetResponse arm not found")
	}
	want := 2
	if emptyCached {
		want = 3
	}
	if len(adds) != want {
		fail("processResponse: expected %d addResponseToCache calls (empty/reset reply if cached, bare ACK, response), found %d", want, len(adds))
	}
	var storeReq bool
	switch {
	case strings.HasSuffix(drDotted(keyExpr), ".MessageID()") && drContains(ap, strings.TrimSuffix(drDotted(keyExpr), ".MessageID()")):
		// key taken from the stored message itself: the reply's MID
		for _, c := range adds {
			if len(c.Args) != 1 || drDotted(c.Args[0]) != "w.Message()" {
				fail("processResponse: addResponseToCache argument is not w.Message()")
			}
		}
		storeReq = false
	case identName(keyExpr) != "" && drContains(ap, identName(keyExpr)):
		// key is a parameter: every call site must pass processResponse's request-MID parameter
		idx := -1
		for i, n := range ap {
			if n == identName(keyExpr) {
				idx = i
			}
		}
		storeReq = true
		for _, c := range adds {
			if len(c.Args) != len(ap) {
				fail("processResponse: addResponseToCache arity")
			}
			a := identName(c.Args[idx])
			if a == "" || !drContains(prParams, a) || a != "reqMessageID" {
				fail("processResponse: cache key argument %q is not the reqMessageID parameter", drDotted(c.Args[idx]))
			}
		}
		// handleReq must pass req.MessageID() as that parameter
	default:
		fail("addResponseToCache: unrecognised key expression %s", drDotted(keyExpr))
	}
	hr := funcDecl(f, "Conn", "handleReq")
	prc := drCallsIn(hr, "cc.processResponse")
	if len(prc) != 1 || len(prc[0].Args) != 3 || identName(prc[0].Args[1]) != "reqMessageID" {
		fail("handleReq: processResponse(reqType, reqMessageID, w) not found")
	}
	midFromReq := false
	for _, st := range hr.Body.List {
		if as, ok := st.(*ast.AssignStmt); ok && len(as.Lhs) == 1 && identName(as.Lhs[0]) == "reqMessageID" &&
			len(as.Rhs) == 1 && drDotted(as.Rhs[0]) == "req.MessageID()" {
			midFromReq = true
		}
	}
	if !midFromReq {
		fail("handleReq: reqMessageID is not req.MessageID()")
	}

	// --- lock shape of handleReq: `l := cc.msgIDMutex.Lock(reqMid)` + `defer l.Unlock()` before the
	// top-level check / handle / store statements.
	locked := false
	lockPos, deferPos, firstUse := -1, -1, -1
	tryShape := false // `l, ok := cc.msgIDMutex.TryLock(reqMid)`; `if !ok { cc.receivedMessageReader.TryToReplaceLoop(); l = cc.msgIDMutex.Lock(reqMid) }`
	handsOver := false
	for i, st := range hr.Body.List {
		if as, ok := st.(*ast.AssignStmt); ok && len(as.Rhs) == 1 {
			if c, ok := as.Rhs[0].(*ast.CallExpr); ok && drDotted(c.Fun) == "cc.msgIDMutex.Lock" && len(c.Args) == 1 && identName(c.Args[0]) == "reqMid" && lockPos < 0 {
				lockPos = i
			}
			if c, ok := as.Rhs[0].(*ast.CallExpr); ok && drDotted(c.Fun) == "cc.msgIDMutex.TryLock" && len(c.Args) == 1 && identName(c.Args[0]) == "reqMid" && lockPos < 0 &&
				len(as.Lhs) == 2 && identName(as.Lhs[0]) == "l" && i+1 < len(hr.Body.List) {
				// the fallback: wait for the lock (after handing the reader loop over), no other exit
				if is, isIf := hr.Body.List[i+1].(*ast.IfStmt); isIf && is.Else == nil && exprStr(is.Cond) == "!"+identName(as.Lhs[1]) && len(is.Body.List) >= 1 {
					last, isAs := is.Body.List[len(is.Body.List)-1].(*ast.AssignStmt)
					exits := false
					ast.Inspect(is.Body, func(x ast.Node) bool {
						if _, r := x.(*ast.ReturnStmt); r {
							exits = true
						}
						return true
					})
					if isAs && !exits && len(last.Lhs) == 1 && identName(last.Lhs[0]) == "l" && len(last.Rhs) == 1 {
						if lc, isCall := last.Rhs[0].(*ast.CallExpr); isCall && drDotted(lc.Fun) == "cc.msgIDMutex.Lock" && len(lc.Args) == 1 && identName(lc.Args[0]) == "reqMid" {
							lockPos = i + 1 // the lock is held from the end of this statement on, whichever branch was taken
							tryShape = true
							for _, bs := range is.Body.List[:len(is.Body.List)-1] {
								if len(drCallsIn(bs, "cc.receivedMessageReader.TryToReplaceLoop")) > 0 {
									handsOver = true
								}
							}
						}
					}
				}
			}
		}
		if d, ok := st.(*ast.DeferStmt); ok && drDotted(d.Call.Fun) == "l.Unlock" && deferPos < 0 {
			deferPos = i
		}
		uses := len(drCallsIn(st, "cc.checkResponseCache")) + len(drCallsIn(st, "cc.handle")) + len(drCallsIn(st, "cc.processResponse"))
		if uses > 0 && firstUse < 0 {
			firstUse = i
		}
	}
	_ = tryShape
	reqMidOK := false
	for _, st := range hr.Body.List {
		if as, ok := st.(*ast.AssignStmt); ok && len(as.Lhs) == 1 && identName(as.Lhs[0]) == "reqMid" && len(as.Rhs) == 1 && drDotted(as.Rhs[0]) == "req.MessageID()" {
			reqMidOK = true
		}
	}
	if firstUse < 0 {
		fail("handleReq: check/handle/store calls not found at statement level")
	}
	locked = reqMidOK && lockPos >= 0 && deferPos == lockPos+1 && deferPos < firstUse

	// --- checkMyMessageID constants: `... >= A` and `oldID + B`; NewConnWithOpts: cfg.GetMID() - C
	cm := funcDecl(f, "Conn", "checkMyMessageID")
	var guard, jump uint64
	var guardSeen, jumpSeen, conOnly, conAndNon bool
	ast.Inspect(cm, func(x ast.Node) bool {
		switch v := x.(type) {
		case *ast.IfStmt:
			if b, ok := v.Cond.(*ast.BinaryExpr); ok && b.Op == token.EQL && drDotted(b.X) == "req.Type()" && drDotted(b.Y) == "message.Confirmable" {
				conOnly = true
			}
			// `req.Type() == message.Confirmable || req.Type() == message.NonConfirmable`: every message that carries an ID of the peer's own
			if b, ok := v.Cond.(*ast.BinaryExpr); ok && b.Op == token.LOR {
				l, lok := b.X.(*ast.BinaryExpr)
				r, rok := b.Y.(*ast.BinaryExpr)
				if lok && rok && l.Op == token.EQL && r.Op == token.EQL && drDotted(l.X) == "req.Type()" && drDotted(r.X) == "req.Type()" &&
					drDotted(l.Y) == "message.Confirmable" && drDotted(r.Y) == "message.NonConfirmable" {
					conAndNon = true
				}
			}
			if b, ok := v.Cond.(*ast.BinaryExpr); ok && b.Op == token.GEQ {
				if sub, ok := b.X.(*ast.BinaryExpr); ok && sub.Op == token.SUB {
					guard = drConstExpr(b.Y)
					guardSeen = true
				}
			}
		case *ast.AssignStmt:
			if len(v.Lhs) == 1 && identName(v.Lhs[0]) == "newID" && len(v.Rhs) == 1 {
				if b, ok := v.Rhs[0].(*ast.BinaryExpr); ok && b.Op == token.ADD && identName(b.X) == "oldID" {
					jump = drConstExpr(b.Y)
					jumpSeen = true
				}
			}
		}
		return true
	})
	if !guardSeen || !jumpSeen || conOnly == conAndNon {
		fail("checkMyMessageID: shape not recognised")
	}
	nc := funcDecl(f, "", "NewConnWithOpts")
	var initOff uint64
	initSeen := false
	for _, c := range drCallsIn(nc, "cc.msgID.Store") {
		ast.Inspect(c, func(x ast.Node) bool {
			if b, ok := x.(*ast.BinaryExpr); ok && b.Op == token.SUB && drDotted(b.X) == "cfg.GetMID()" {
				initOff = drConstExpr(b.Y)
				initSeen = true
			}
			return true
		})
	}
	if !initSeen {
		fail("NewConnWithOpts: initial msgID expression not recognised")
	}

	var b strings.Builder
	b.WriteString("namespace CoapVerif.Generated.Dedup\n\n")
	fmt.Fprintf(&b, "/-- udp/client/conn.go: ExchangeLifetime, in nanoseconds (value computed by the Go compiler) -/\ndef exchangeLifetimeNs : Nat := %d\n", int64(udpclient.ExchangeLifetime))
	fmt.Fprintf(&b, "/-- checkResponseCache looks the reply up under the request's message ID (AST) -/\ndef lookupKeyIsRequestMID : Bool := %s\n", drLeanBool(lookupReq))
	fmt.Fprintf(&b, "/-- processResponse/addResponseToCache store the reply under the request's message ID (false: under the reply's own MID) (AST) -/\ndef storeKeyIsRequestMID : Bool := %s\n", drLeanBool(storeReq))
	fmt.Fprintf(&b, "/-- processResponse caches an empty (code 0.00) or reset reply like any other reply (AST) -/\ndef emptyReplyCached : Bool := %s\n", drLeanBool(emptyCached))
	fmt.Fprintf(&b, "/-- handleReq takes msgIDMutex.Lock(req.MessageID()) with a deferred Unlock before check/handle/store (AST) -/\ndef handleReqLockedPerMID : Bool := %s\n", drLeanBool(locked))
	fmt.Fprintf(&b, "/-- handleReq does not wait for the per-message-ID lock with the reader loop in its hand: it tries the lock first and, when a copy of a request that is still being handled finds it taken, asks for a replacement loop (TryToReplaceLoop) before it waits (AST; false: plain Lock) -/\ndef copyWaitsAfterHandover : Bool := %s\n", drLeanBool(tryShape && handsOver))
	fmt.Fprintf(&b, "/-- udp/client/mutexmap.go is the reference-counted per-key mutex Model/DedupLockN.lean models: entries found / created / counted / removed under the map lock, TryLock refuses when an entry exists and otherwise creates it with count 1 and its mutex taken, the entry's mutex is awaited after and released after the map lock (AST; fails closed) -/\ndef mutexMapRefCounted : Bool := %s\n", drLeanBool(drMutexMapRefCounted(repo)))
	fmt.Fprintf(&b, "/-- checkMyMessageID: distance guard and jump; NewConnWithOpts initial offset (AST) -/\ndef midGuard : Nat := %d\ndef midJump : Nat := %d\ndef midInitOffset : Nat := %d\n", guard, jump, initOff)
	fmt.Fprintf(&b, "/-- checkMyMessageID applies to non-confirmable messages of the peer as well as to confirmable ones (false: to confirmable ones only) (AST) -/\ndef midJumpOnNon : Bool := %s\n", drLeanBool(conAndNon))
	// servers: which cache do the connections they create get, and in which order does the datagram server look a peer up
	_, fd := parseFile(repo, "dtls/server/server.go")
	dtlsDefault := drConnDefaultCache(funcDecl(fd, "Server", "createConn"), "udpClient")
	_, fu := parseFile(repo, "udp/server/server.go")
	goc := funcDecl(fu, "Server", "getOrCreateConn")
	udpDefault := drConnDefaultCache(goc, "client")
	concretePos, wildcardPos := -1, -1
	for i, st := range goc.Body.List {
		if as, ok := st.(*ast.AssignStmt); ok && len(as.Lhs) == 1 && drDotted(as.Lhs[0]) == "cc" && len(as.Rhs) == 1 {
			if ix, ok := as.Rhs[0].(*ast.IndexExpr); ok && drDotted(ix.X) == "s.conns" && identName(ix.Index) == "key" && concretePos < 0 {
				concretePos = i
			}
		}
		if is, ok := st.(*ast.IfStmt); ok && len(drCallsIn(is.Cond, "localAddrCanFallbackToWildcard")) == 1 && wildcardPos < 0 {
			wildcardPos = i
		}
	}
	if concretePos < 0 || wildcardPos < 0 {
		fail("getOrCreateConn: the two peer-table look-ups were not recognised")
	}
	fmt.Fprintf(&b, "/-- dtls/server createConn and udp/server getOrCreateConn create their connections with the default response cache of udp/client (no WithResponseMessageCache option) (AST) -/\ndef dtlsServerConnDefaultCache : Bool := %s\ndef udpServerConnDefaultCache : Bool := %s\n", drLeanBool(dtlsDefault), drLeanBool(udpDefault))
	// Serve: the local address a datagram is keyed under is a fresh copy for every datagram
	// (`laddr, err := s.getListenerLocalAddr(l)` inside the read loop, which then overwrites laddr.IP with cm.Dst)
	srvFn := funcDecl(fu, "Server", "Serve")
	perDatagram := false
	ast.Inspect(srvFn, func(x ast.Node) bool {
		if fs, ok := x.(*ast.ForStmt); ok {
			for _, c := range drCallsIn(fs.Body, "s.getListenerLocalAddr") {
				_ = c
				perDatagram = true
			}
		}
		return true
	})
	outside := len(drCallsIn(srvFn, "s.getListenerLocalAddr"))
	if outside == 0 {
		fail("Serve: getListenerLocalAddr call not found")
	}
	fmt.Fprintf(&b, "/-- udp/server Serve takes the listener's local address anew (a copy) for every datagram before it overwrites its IP with the datagram's destination (AST) -/\ndef udpLocalAddrCopiedPerDatagram : Bool := %s\n", drLeanBool(perDatagram))
	fmt.Fprintf(&b, "/-- udp/server getOrCreateConn looks the peer up under the concrete local address before it falls back to the wildcard key (AST) -/\ndef udpPeerLookupConcreteFirst : Bool := %s\n", drLeanBool(concretePos < wildcardPos))
	b.WriteString("\nend CoapVerif.Generated.Dedup\n")
	g.write("Dedup.lean", b.String())
}

// drHandleAcknowledgesByToken recognises the repair of F42 in udp/client/conn.go:
//
//	writeMessage:  if token := req.Token(); len(token) > 0 && <req is a request> { cc.requestMessageIDs.Store(string(token), req.MessageID());
//	               defer cc.requestMessageIDs.Delete(string(token)) }   - before the first write (cc.session.WriteMessage(req))
//	acknowledgeByResponse(w, m):  guard `m.Code() <= codes.DELETE || len(m.Token()) == 0` → return;
//	               mid, ok := cc.requestMessageIDs.Load(string(m.Token())); … cc.midHandlerContainer.LoadAndDelete(mid) → elem.handler(w, m)
//	handle(w, m):  `cc.acknowledgeByResponse(w, m)` is a statement of the function body, preceded only by guards that return, and
//	               every dispatch by token (tokenHandlerContainer, blockWise.Handle, observationHandler.Handle) comes after it.
//
// Neither the function, nor a call of it, nor the table anywhere in the file: false (the shape before the repair).  Any other
// mixture fails closed.
func drHandleAcknowledgesByToken(f *ast.File) bool {
	const table = "cc.requestMessageIDs"
	hd := funcDecl(f, "Conn", "handle")
	wm := funcDecl(f, "Conn", "writeMessage")
	ack := optFuncDecl(f, "Conn", "acknowledgeByResponse")
	// every method call on the table, by function
	type use struct{ fn, op string }
	var uses []use
	for _, d := range f.Decls {
		fd, ok := d.(*ast.FuncDecl)
		if !ok || fd.Body == nil {
			continue
		}
		ast.Inspect(fd.Body, func(n ast.Node) bool {
			if c, ok := n.(*ast.CallExpr); ok {
				if sel, ok := c.Fun.(*ast.SelectorExpr); ok && drDotted(sel.X) == table {
					uses = append(uses, use{fd.Name.Name, sel.Sel.Name})
				}
			}
			return true
		})
	}
	calls := 0
	ast.Inspect(f, func(n ast.Node) bool {
		if c, ok := n.(*ast.CallExpr); ok && strings.HasSuffix(drDotted(c.Fun), ".acknowledgeByResponse") {
			calls++
		}
		return true
	})
	if ack == nil && calls == 0 && len(uses) == 0 {
		return false
	}
	bad := func(format string, a ...any) {
		fail("udp/client/conn.go: acknowledgement of a request by the token of its response (repair of F42): "+format, a...)
	}
	if ack == nil || calls != 1 {
		bad("acknowledgeByResponse missing or not called exactly once (%d calls)", calls)
	}
	want := map[use]int{{"writeMessage", "Store"}: 1, {"writeMessage", "Delete"}: 1, {"acknowledgeByResponse", "Load"}: 1}
	got := map[use]int{}
	for _, u := range uses {
		got[u]++
	}
	for u, n := range got {
		if want[u] != n {
			bad("unknown use of requestMessageIDs: %s in %s (x%d)", u.op, u.fn, n)
		}
	}
	for u := range want {
		if got[u] != 1 {
			bad("requestMessageIDs.%s missing in %s", u.op, u.fn)
		}
	}
	// writeMessage: the conditional registration, before the first write
	registered := false
	for _, st := range wm.Body.List {
		if len(drCallsIn(st, "cc.session.WriteMessage")) > 0 && !registered {
			bad("writeMessage writes the request before it registers token -> message ID")
		}
		ifs, ok := st.(*ast.IfStmt)
		if !ok || len(drCallsIn(ifs, table+".Store")) == 0 {
			continue
		}
		init, ok := ifs.Init.(*ast.AssignStmt)
		if !ok || ifs.Else != nil || len(init.Lhs) != 1 || len(init.Rhs) != 1 || exprStr(init.Lhs[0]) != "token" || exprStr(init.Rhs[0]) != "req.Token()" ||
			exprStr(ifs.Cond) != "len(token) > 0 && req.Code() >= codes.GET && req.Code() <= codes.DELETE" || len(ifs.Body.List) != 2 {
			bad("writeMessage: the registration is not `if token := req.Token(); len(token) > 0 && req.Code() >= codes.GET && req.Code() <= codes.DELETE { Store; defer Delete }`")
		}
		es, ok1 := ifs.Body.List[0].(*ast.ExprStmt)
		df, ok2 := ifs.Body.List[1].(*ast.DeferStmt)
		if !ok1 || !ok2 {
			bad("writeMessage: the registration block is not `Store; defer Delete`")
		}
		sc, ok := es.X.(*ast.CallExpr)
		if !ok || drDotted(sc.Fun) != table+".Store" || len(sc.Args) != 2 || exprStr(sc.Args[0]) != "string(token)" || exprStr(sc.Args[1]) != "req.MessageID()" {
			bad("writeMessage: not `requestMessageIDs.Store(string(token), req.MessageID())`")
		}
		if drDotted(df.Call.Fun) != table+".Delete" || len(df.Call.Args) != 1 || exprStr(df.Call.Args[0]) != "string(token)" {
			bad("writeMessage: not `defer requestMessageIDs.Delete(string(token))`")
		}
		registered = true
	}
	if !registered {
		bad("writeMessage: registration not found among the statements of the function body")
	}
	// acknowledgeByResponse(w, m)
	ps := drParamNames(ack)
	if len(ps) != 2 {
		bad("acknowledgeByResponse takes %d parameters", len(ps))
	}
	pw, pm := ps[0], ps[1]
	if len(ack.Body.List) != 4 {
		bad("acknowledgeByResponse has %d statements (guard, Load, not-found return, LoadAndDelete + wake)", len(ack.Body.List))
	}
	g0, ok0 := ack.Body.List[0].(*ast.IfStmt)
	ld, ok1 := ack.Body.List[1].(*ast.AssignStmt)
	g2, ok2 := ack.Body.List[2].(*ast.IfStmt)
	wk, ok3 := ack.Body.List[3].(*ast.IfStmt)
	if !ok0 || !ok1 || !ok2 || !ok3 {
		bad("acknowledgeByResponse: statement kinds")
	}
	if exprStr(g0.Cond) != pm+".Code() <= codes.DELETE || len("+pm+".Token()) == 0" || g0.Else != nil || len(g0.Body.List) != 1 || !containsReturn(g0) {
		bad("acknowledgeByResponse: the guard is not `if m.Code() <= codes.DELETE || len(m.Token()) == 0 { return }`")
	}
	if len(ld.Lhs) != 2 || len(ld.Rhs) != 1 || exprStr(ld.Lhs[0]) != "mid" || exprStr(ld.Lhs[1]) != "ok" || exprStr(ld.Rhs[0]) != table+".Load(string("+pm+".Token()))" {
		bad("acknowledgeByResponse: not `mid, ok := cc.requestMessageIDs.Load(string(m.Token()))`")
	}
	if exprStr(g2.Cond) != "!ok" || g2.Else != nil || len(g2.Body.List) != 1 || !containsReturn(g2) {
		bad("acknowledgeByResponse: not `if !ok { return }`")
	}
	wi, okw := wk.Init.(*ast.AssignStmt)
	if !okw || wk.Else != nil || len(wi.Rhs) != 1 || exprStr(wi.Rhs[0]) != "cc.midHandlerContainer.LoadAndDelete(mid)" || len(wi.Lhs) != 2 ||
		exprStr(wi.Lhs[0]) != "elem" || exprStr(wk.Cond) != exprStr(wi.Lhs[1]) {
		bad("acknowledgeByResponse: not `if elem, ok := cc.midHandlerContainer.LoadAndDelete(mid); ok {`")
	}
	hc := drCallsIn(wk.Body, "elem.handler")
	if len(hc) != 1 || len(hc[0].Args) != 2 || exprStr(hc[0].Args[0]) != pw || exprStr(hc[0].Args[1]) != pm || containsReturn(wk) {
		bad("acknowledgeByResponse: the pending entry is removed without `elem.handler(w, m)` (the writer is not woken)")
	}
	for _, disp := range []string{"cc.tokenHandlerContainer.LoadAndDelete", "cc.tokenHandlerContainer.Load", "cc.observationHandler.Handle", "cc.blockWise.Handle"} {
		if len(drCallsIn(ack, disp)) != 0 {
			bad("acknowledgeByResponse dispatches the response itself (%s)", disp)
		}
	}
	// handle: the call is a statement of the body; before it only guards that return; every dispatch after it
	hp := drParamNames(hd)
	if len(hp) != 2 {
		bad("handle takes %d parameters", len(hp))
	}
	at := -1
	for i, st := range hd.Body.List {
		es, ok := st.(*ast.ExprStmt)
		if !ok {
			continue
		}
		c, ok := es.X.(*ast.CallExpr)
		if ok && drDotted(c.Fun) == "cc.acknowledgeByResponse" {
			if len(c.Args) != 2 || exprStr(c.Args[0]) != hp[0] || exprStr(c.Args[1]) != hp[1] {
				bad("handle: acknowledgeByResponse is not called with handle's own (w, m)")
			}
			at = i
		}
	}
	if at < 0 {
		bad("handle: `cc.acknowledgeByResponse(w, m)` is not a statement of the function body (conditional?)")
	}
	dispatches := func(n ast.Node) bool {
		for _, disp := range []string{"cc.tokenHandlerContainer.LoadAndDelete", "cc.tokenHandlerContainer.Load", "cc.observationHandler.Handle", "cc.blockWise.Handle"} {
			if len(drCallsIn(n, disp)) != 0 {
				return true
			}
		}
		return false
	}
	for i, st := range hd.Body.List {
		if i < at {
			ifs, ok := st.(*ast.IfStmt)
			if !ok || ifs.Else != nil || dispatches(st) || len(ifs.Body.List) == 0 {
				bad("handle: a statement before acknowledgeByResponse is not a guard")
			}
			if _, ok := ifs.Body.List[len(ifs.Body.List)-1].(*ast.ReturnStmt); !ok {
				bad("handle: a guard before acknowledgeByResponse does not end in return")
			}
		}
	}
	after := false
	for i, st := range hd.Body.List {
		if i > at && dispatches(st) {
			after = true
		}
	}
	if !after {
		bad("handle: no dispatch by token after acknowledgeByResponse")
	}
	return true
}

func genRetransmit(g *gen, repo string) {
	_, f := parseFile(repo, drConnFile)

	// midElement.IsExpired: `!m.deadline.IsZero() && now.After(m.deadline)` -> true ; `return retransmit >= maxRetransmit`
	ie := funcDecl(f, "midElement", "IsExpired")
	deadlineStrict := false
	waitsLast := false
	var lastAddend uint64
	var expOp token.Token
	ast.Inspect(ie, func(x ast.Node) bool {
		switch v := x.(type) {
		case *ast.IfStmt:
			if b, ok := v.Cond.(*ast.BinaryExpr); ok && b.Op == token.LAND && drDotted(b.Y) == "now.After()" {
				if c := b.Y.(*ast.CallExpr); len(c.Args) == 1 && drDotted(c.Args[0]) == "m.deadline" {
					deadlineStrict = true
				}
			}
		case *ast.ReturnStmt:
			if len(v.Results) == 1 {
				res := v.Results[0]
				// `retransmit OP maxRetransmit` alone, or `… && now.After(m.start.Add(acknowledgeTimeout*time.Duration(retransmit+K)))`:
				// exhaustion is reported only when the timeout of the last copy has passed as well
				if b, ok := res.(*ast.BinaryExpr); ok && b.Op == token.LAND {
					if c, ok := b.Y.(*ast.CallExpr); ok && drDotted(c.Fun) == "now.After" && len(c.Args) == 1 {
						if a, ok := c.Args[0].(*ast.CallExpr); ok && drDotted(a.Fun) == "m.start.Add" && len(a.Args) == 1 {
							if mul, ok := a.Args[0].(*ast.BinaryExpr); ok && mul.Op == token.MUL && identName(mul.X) == "acknowledgeTimeout" {
								if conv, ok := mul.Y.(*ast.CallExpr); ok && drDotted(conv.Fun) == "time.Duration" && len(conv.Args) == 1 {
									if sum, ok := conv.Args[0].(*ast.BinaryExpr); ok && sum.Op == token.ADD && identName(sum.X) == "retransmit" {
										waitsLast = true
										lastAddend = drConstExpr(sum.Y)
										res = b.X
									}
								}
							}
						}
					}
					if !waitsLast {
						fail("midElement.IsExpired: conjunction not recognised")
					}
				}
				if b, ok := res.(*ast.BinaryExpr); ok && identName(b.X) == "retransmit" && identName(b.Y) == "maxRetransmit" {
					expOp = b.Op
				}
			}
		}
		return true
	})
	if !deadlineStrict || (expOp != token.GEQ && expOp != token.GTR) {
		fail("midElement.IsExpired: shape not recognised")
	}
	// midElement.Retransmit: if now.After(m.start.Add(acknowledgeTimeout * time.Duration(m.retransmit.Load()+K))) { m.retransmit.Inc(); return true }; return false
	rt := funcDecl(f, "midElement", "Retransmit")
	var addend uint64
	shapeOK := false
	if len(rt.Body.List) == 2 {
		if is, ok := rt.Body.List[0].(*ast.IfStmt); ok {
			if c, ok := is.Cond.(*ast.CallExpr); ok && drDotted(c.Fun) == "now.After" && len(c.Args) == 1 {
				if a, ok := c.Args[0].(*ast.CallExpr); ok && drDotted(a.Fun) == "m.start.Add" && len(a.Args) == 1 {
					if mul, ok := a.Args[0].(*ast.BinaryExpr); ok && mul.Op == token.MUL && identName(mul.X) == "acknowledgeTimeout" {
						if conv, ok := mul.Y.(*ast.CallExpr); ok && drDotted(conv.Fun) == "time.Duration" && len(conv.Args) == 1 {
							if sum, ok := conv.Args[0].(*ast.BinaryExpr); ok && sum.Op == token.ADD && drDotted(sum.X) == "m.retransmit.Load()" {
								addend = drConstExpr(sum.Y)
								incs := drCallsIn(is.Body, "m.retransmit.Inc")
								if len(incs) == 1 && len(is.Body.List) == 2 {
									shapeOK = true
								}
							}
						}
					}
				}
			}
		}
	}
	if !shapeOK {
		fail("midElement.Retransmit: shape not recognised")
	}
	// checkMidHandlerContainer: IsExpired -> Delete + return precedes Retransmit
	ck := funcDecl(f, "Conn", "checkMidHandlerContainer")
	expFirst := false
	// deletes(n): n removes the entry, directly or through a method of Conn whose body does
	deletes := func(n ast.Node) bool {
		if len(drCallsIn(n, "cc.midHandlerContainer.Delete")) >= 1 {
			return true
		}
		found := false
		ast.Inspect(n, func(x ast.Node) bool {
			if c, ok := x.(*ast.CallExpr); ok {
				if sel, ok := c.Fun.(*ast.SelectorExpr); ok && identName(sel.X) == "cc" {
					for _, d := range f.Decls {
						if fd, ok := d.(*ast.FuncDecl); ok && fd.Name.Name == sel.Sel.Name && fd.Recv != nil && fd.Body != nil &&
							len(drCallsIn(fd.Body, "cc.midHandlerContainer.Delete")) >= 1 {
							found = true
						}
					}
				}
			}
			return true
		})
		return found
	}
	if len(ck.Body.List) >= 2 {
		if is, ok := ck.Body.List[0].(*ast.IfStmt); ok && len(drCallsIn(is.Cond, "value.IsExpired")) == 1 &&
			deletes(is.Body) && len(drCallsIn(is.Body, "cc.session.WriteMessage")) == 0 {
			if is2, ok := ck.Body.List[1].(*ast.IfStmt); ok && len(drCallsIn(is2.Cond, "value.Retransmit")) == 1 {
				expFirst = true
			}
		}
	}
	if !expFirst {
		fail("checkMidHandlerContainer: shape not recognised")
	}
	// is expiry tested again (and the entry dropped) later in the same pass, i.e. after the retransmission was written?
	recheck := false
	for _, st := range ck.Body.List[2:] {
		if is, ok := st.(*ast.IfStmt); ok && len(drCallsIn(is.Cond, "value.IsExpired")) >= 1 && deletes(is.Body) {
			recheck = true
		}
	}
	// handleSpecialMessages removes the pending entry by the received MID; prepareWriteMessage defers removal by req.MessageID()
	hs := funcDecl(f, "Conn", "handleSpecialMessages")
	ackRemoves := false
	for _, c := range drCallsIn(hs, "cc.midHandlerContainer.LoadAndDelete") {
		if len(c.Args) == 1 && drDotted(c.Args[0]) == "r.MessageID()" {
			ackRemoves = true
		}
	}
	pw := funcDecl(f, "Conn", "prepareWriteMessage")
	deferredRemoval := false
	for _, c := range drCallsIn(pw, "cc.midHandlerContainer.LoadAndDelete") {
		if len(c.Args) == 1 && drDotted(c.Args[0]) == "req.MessageID()" {
			deferredRemoval = true
		}
	}
	storesClone := len(drCallsIn(pw, "req.Clone")) == 1 && len(drCallsIn(pw, "cc.midHandlerContainer.LoadOrStore")) == 1
	wm := funcDecl(f, "Conn", "writeMessage")
	deferClose := false
	for _, st := range wm.Body.List {
		if d, ok := st.(*ast.DeferStmt); ok && identName(d.Call.Fun) == "closeFn" {
			deferClose = true
		}
	}
	// doInternal: the token handler (the func literal handed to tokenHandlerContainer.LoadOrStore) removes the pending
	// entry of its own request by MID and calls its handler (wakes the writer) before handing the response over.
	di := funcDecl(f, "Conn", "doInternal")
	respWakes := false
	for _, c := range drCallsIn(di, "cc.tokenHandlerContainer.LoadOrStore") {
		if len(c.Args) != 2 {
			fail("doInternal: tokenHandlerContainer.LoadOrStore arity")
		}
		fl, ok := c.Args[1].(*ast.FuncLit)
		if !ok {
			fail("doInternal: token handler is not a function literal")
		}
		removes := false
		for _, d := range drCallsIn(fl, "cc.midHandlerContainer.LoadAndDelete") {
			if len(d.Args) == 1 && drDotted(d.Args[0]) == "req.MessageID()" {
				removes = true
			}
		}
		respWakes = removes && len(drCallsIn(fl, "elem.handler")) == 1
		if removes != respWakes {
			fail("doInternal: token handler removes the pending entry without waking the writer")
		}
	}
	ackByToken := drHandleAcknowledgesByToken(f)
	cfg := udpclient.DefaultConfig
	var b strings.Builder
	b.WriteString("namespace CoapVerif.Generated.Retransmit\n\n")
	fmt.Fprintf(&b, "/-- udp/client/config.go: DefaultConfig transmission parameters (values computed by the Go compiler) -/\ndef defaultNStart : Nat := %d\ndef defaultAckTimeoutNs : Nat := %d\ndef defaultMaxRetransmit : Nat := %d\n",
		cfg.TransmissionNStart, int64(cfg.TransmissionAcknowledgeTimeout), cfg.TransmissionMaxRetransmit)
	fmt.Fprintf(&b, "/-- midElement.IsExpired: entry is dropped when `retransmit >= maxRetransmit` (true) or `>` (false) (AST) -/\ndef expiredWhenGE : Bool := %s\n", drLeanBool(expOp == token.GEQ))
	fmt.Fprintf(&b, "/-- midElement.IsExpired: exhaustion also needs `now.After(start.Add(ackTimeout * (retransmit + lastCopyAddend)))`, the timeout of the last copy (AST) -/\ndef exhaustionWaitsLastTimeout : Bool := %s\ndef lastCopyAddend : Nat := %d\n", drLeanBool(waitsLast), lastAddend)
	fmt.Fprintf(&b, "/-- midElement.IsExpired: the deadline test is the strict `now.After(deadline)` (AST) -/\ndef deadlineStrict : Bool := %s\n", drLeanBool(deadlineStrict))
	fmt.Fprintf(&b, "/-- midElement.Retransmit: `now.After(start.Add(ackTimeout * (retransmit + addend)))`, then one increment (AST) -/\ndef retransmitAddend : Nat := %d\n", addend)
	fmt.Fprintf(&b, "/-- checkMidHandlerContainer tests expiry (delete, no write) before the retransmit decision (AST) -/\ndef expiryBeforeRetransmit : Bool := %s\n", drLeanBool(expFirst))
	fmt.Fprintf(&b, "/-- checkMidHandlerContainer tests expiry again after it has written a retransmission and drops the entry in the same pass (AST) -/\ndef dropsInPassOfLastCopy : Bool := %s\n", drLeanBool(recheck))
	fmt.Fprintf(&b, "/-- handleSpecialMessages removes the pending entry keyed by the received message's MID (AST) -/\ndef recvRemovesByMID : Bool := %s\n", drLeanBool(ackRemoves))
	fmt.Fprintf(&b, "/-- prepareWriteMessage stores a clone and registers the removal by MID that writeMessage defers (AST) -/\ndef storesClone : Bool := %s\ndef deferredRemovalByMID : Bool := %s\n", drLeanBool(storesClone), drLeanBool(deferredRemoval && deferClose))
	fmt.Fprintf(&b, "/-- doInternal: a response reaching the token handler removes the request's pending entry and wakes the writer (RFC 7252 5.2.2) (AST) -/\ndef responseWakesWriter : Bool := %s\n", drLeanBool(respWakes))
	fmt.Fprintf(&b, "/-- Conn.handle acknowledges a confirmable request by the TOKEN of its response before it dispatches the response by token - doInternal's handler, an observation, the block-wise layer, nobody - (acknowledgeByResponse: requestMessageIDs, written by writeMessage for as long as it runs, gives the message ID; pending entry removed, writer woken; RFC 7252 5.2.2; repair of F42). false = no such step and no such table (the shape before the repair); anything else fails closed (AST) -/\ndef responseAcknowledgesByToken : Bool := %s\n", drLeanBool(ackByToken))
	// options.WithTransmission: each Apply method writes the three parameters verbatim; the servers copy them into the
	// configuration of the connections they create
	_, fo := parseFile(repo, "options/udpOptions.go")
	verbatim := true
	for _, name := range []string{"UDPServerApply", "DTLSServerApply", "UDPClientApply"} {
		ap := funcDecl(fo, "TransmissionOpt", name)
		if len(ap.Body.List) != 3 ||
			!drAssigns(ap, "cfg.TransmissionNStart", "o.transmissionNStart") ||
			!drAssigns(ap, "cfg.TransmissionAcknowledgeTimeout", "o.transmissionAcknowledgeTimeout") ||
			!drAssigns(ap, "cfg.TransmissionMaxRetransmit", "o.transmissionMaxRetransmit") {
			verbatim = false
		}
	}
	_, fds := parseFile(repo, "dtls/server/server.go")
	dtlsTakes := drConnTakesTransmission(funcDecl(fds, "Server", "createConn"))
	_, fus := parseFile(repo, "udp/server/server.go")
	udpTakes := drConnTakesTransmission(funcDecl(fus, "Server", "getOrCreateConn"))
	fmt.Fprintf(&b, "/-- options/udpOptions.go: the three Apply methods of TransmissionOpt are exactly the three verbatim assignments (AST) -/\ndef transmissionOptCopiesVerbatim : Bool := %s\n", drLeanBool(verbatim))
	fmt.Fprintf(&b, "/-- dtls/server createConn and udp/server getOrCreateConn copy NSTART, ACK_TIMEOUT and MAX_RETRANSMIT of the server configuration into the connection's (AST) -/\ndef dtlsServerConnTakesTransmission : Bool := %s\ndef udpServerConnTakesTransmission : Bool := %s\n", drLeanBool(dtlsTakes), drLeanBool(udpTakes))
	b.WriteString("\nend CoapVerif.Generated.Retransmit\n")
	g.write("Retransmit.lean", b.String())
}
