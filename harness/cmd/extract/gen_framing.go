package main

import (
	"fmt"
	"strings"

	"github.com/plgd-dev/go-coap/v3/message"
	"github.com/plgd-dev/go-coap/v3/message/codes"
	tcpcoder "github.com/plgd-dev/go-coap/v3/tcp/coder"
)

func init() {
	register("TcpFraming.lean", func(g *gen, _ string) {
		var b strings.Builder
		b.WriteString("namespace CoapVerif.Generated.TcpFraming\n\n")
		fmt.Fprintf(&b, "/-- tcp/coder/coder.go: MessageLength13Base / 14Base / 15Base -/\ndef len13Base : Nat := %d\ndef len14Base : Nat := %d\ndef len15Base : Nat := %d\n",
			tcpcoder.MessageLength13Base, tcpcoder.MessageLength14Base, tcpcoder.MessageLength15Base)
		fmt.Fprintf(&b, "/-- message/option.go: ExtendOption* -/\ndef extByteCode : Nat := %d\ndef extByteAddend : Nat := %d\ndef extWordCode : Nat := %d\ndef extWordAddend : Nat := %d\ndef extError : Nat := %d\n",
			message.ExtendOptionByteCode, message.ExtendOptionByteAddend, message.ExtendOptionWordCode, message.ExtendOptionWordAddend, message.ExtendOptionError)
		fmt.Fprintf(&b, "/-- message/codes: signalling codes handled inline by tcp/client/conn.go: handleSignals (CSM, Ping, Pong, Release, Abort) -/\ndef signalCodes : List Nat := [%d, %d, %d, %d, %d]\n",
			codes.CSM, codes.Ping, codes.Pong, codes.Release, codes.Abort)
		b.WriteString("\nend CoapVerif.Generated.TcpFraming\n")
		g.write("TcpFraming.lean", b.String())
	})
}
