package main

import (
	"fmt"
	"go/ast"
	"go/token"
	"strings"

	"github.com/plgd-dev/go-coap/v3/message"
	"github.com/plgd-dev/go-coap/v3/message/codes"
	tcpcoder "github.com/plgd-dev/go-coap/v3/tcp/coder"
)

// headerChecksTkl reports whether DecodeHeader contains `if tkl > message.MaxTokenSize { return … }`.
func headerChecksTkl(repo string) bool {
	_, f := parseFile(repo, "tcp/coder/coder.go")
	fd := funcDecl(f, "Coder", "DecodeHeader")
	found := false
	ast.Inspect(fd.Body, func(n ast.Node) bool {
		is, ok := n.(*ast.IfStmt)
		if !ok {
			return true
		}
		c, ok := is.Cond.(*ast.BinaryExpr)
		if !ok || c.Op != token.GTR || identName(c.X) != "tkl" {
			return true
		}
		if sel, ok := c.Y.(*ast.SelectorExpr); ok && sel.Sel.Name == "MaxTokenSize" {
			found = true
		}
		return true
	})
	return found
}

// writeMessageSingleWrite reports whether tcp/client/session.go Session.WriteMessage hands the marshalled frame to the
// transport in one piece: `data, err := req.MarshalWithEncoder(…)`, exactly one call of a `…WriteWithContext(ctx, data)` whose
// data argument is that very identifier (not a slice of it), not inside a loop, and no other write call on the connection.
func writeMessageSingleWrite(repo string) bool {
	_, f := parseFile(repo, "tcp/client/session.go")
	fd := funcDecl(f, "Session", "WriteMessage")
	dataVar := ""
	for _, st := range fd.Body.List {
		if as, ok := st.(*ast.AssignStmt); ok && len(as.Lhs) == 2 && len(as.Rhs) == 1 {
			if c, ok := as.Rhs[0].(*ast.CallExpr); ok && strings.HasSuffix(exprStr(c.Fun), ".MarshalWithEncoder") {
				dataVar = identName(as.Lhs[0])
			}
		}
	}
	if dataVar == "" {
		return false
	}
	writes, good, loops := 0, 0, 0
	ast.Inspect(fd.Body, func(n ast.Node) bool {
		switch x := n.(type) {
		case *ast.ForStmt, *ast.RangeStmt:
			loops++
		case *ast.CallExpr:
			name := exprStr(x.Fun)
			if strings.Contains(name, "connection.") && strings.Contains(name, "Write") {
				writes++
				if strings.HasSuffix(name, ".WriteWithContext") && len(x.Args) == 2 && identName(x.Args[1]) == dataVar {
					good++
				}
			}
		}
		return true
	})
	return writes == 1 && good == 1 && loops == 0
}

func init() {
	register("TcpFraming.lean", func(g *gen, repo string) {
		var b strings.Builder
		b.WriteString("namespace CoapVerif.Generated.TcpFraming\n\n")
		fmt.Fprintf(&b, "/-- tcp/coder/coder.go: MessageLength13Base / 14Base / 15Base -/\ndef len13Base : Nat := %d\ndef len14Base : Nat := %d\ndef len15Base : Nat := %d\n",
			tcpcoder.MessageLength13Base, tcpcoder.MessageLength14Base, tcpcoder.MessageLength15Base)
		fmt.Fprintf(&b, "/-- message/option.go: ExtendOption* -/\ndef extByteCode : Nat := %d\ndef extByteAddend : Nat := %d\ndef extWordCode : Nat := %d\ndef extWordAddend : Nat := %d\ndef extError : Nat := %d\n",
			message.ExtendOptionByteCode, message.ExtendOptionByteAddend, message.ExtendOptionWordCode, message.ExtendOptionWordAddend, message.ExtendOptionError)
		fmt.Fprintf(&b, "/-- message/message.go: MaxTokenSize (tcp DecodeHeader refuses larger TKL values) -/\ndef maxTokenSize : Nat := %d\n", message.MaxTokenSize)
		fmt.Fprintf(&b, "/-- tcp/coder/coder.go: DecodeHeader checks `tkl > message.MaxTokenSize` right after the first byte (read from the AST) -/\ndef headerChecksTkl : Bool := %v\n", headerChecksTkl(repo))
		fmt.Fprintf(&b, "/-- message/codes: signalling codes handled inline by tcp/client/conn.go: handleSignals (CSM, Ping, Pong, Release, Abort) -/\ndef signalCodes : List Nat := [%d, %d, %d, %d, %d]\n",
			codes.CSM, codes.Ping, codes.Pong, codes.Release, codes.Abort)
		fmt.Fprintf(&b, "/-- tcp/client/session.go: Session.WriteMessage marshals the message and hands the whole frame to the connection's WriteWithContext in one call, outside any loop (read from the AST) -/\ndef writeMessageSingleWrite : Bool := %v\n", writeMessageSingleWrite(repo))
		b.WriteString("\nend CoapVerif.Generated.TcpFraming\n")
		g.write("TcpFraming.lean", b.String())
	})
}
