package main

import (
	"fmt"
	"go/ast"
	"go/token"
	"strings"

	"github.com/plgd-dev/go-coap/v3/message"
	"github.com/plgd-dev/go-coap/v3/message/codes"
	tcpcoder "github.com/plgd-dev/go-coap/v3/tcp/coder"
)

// headerChecksTkl reports whether DecodeHeader contains `if tkl > message.MaxTokenSize { return … }`.
func headerChecksTkl(repo string) bool {
	_, f := parseFile(repo, "tcp/coder/coder.go")
	fd := funcDecl(f, "Coder", "DecodeHeader")
	found := false
	ast.Inspect(fd.Body, func(n ast.Node) bool {
		is, ok := n.(*ast.IfStmt)
		if !ok {
			return true
		}
		c, ok := is.Cond.(*ast.BinaryExpr)
		if !ok || c.Op != token.GTR || identName(c.X) != "tkl" {
			return true
		}
		if sel, ok := c.Y.(*ast.SelectorExpr); ok && sel.Sel.Name == "MaxTokenSize" {
			found = true
		}
		return true
	})
	return found
}

func init() {
	register("TcpFraming.lean", func(g *gen, repo string) {
		var b strings.Builder
		b.WriteString("namespace CoapVerif.Generated.TcpFraming\n\n")
		fmt.Fprintf(&b, "/-- tcp/coder/coder.go: MessageLength13Base / 14Base / 15Base -/\ndef len13Base : Nat := %d\ndef len14Base : Nat := %d\ndef len15Base : Nat := %d\n",
			tcpcoder.MessageLength13Base, tcpcoder.MessageLength14Base, tcpcoder.MessageLength15Base)
		fmt.Fprintf(&b, "/-- message/option.go: ExtendOption* -/\ndef extByteCode : Nat := %d\ndef extByteAddend : Nat := %d\ndef extWordCode : Nat := %d\ndef extWordAddend : Nat := %d\ndef extError : Nat := %d\n",
			message.ExtendOptionByteCode, message.ExtendOptionByteAddend, message.ExtendOptionWordCode, message.ExtendOptionWordAddend, message.ExtendOptionError)
		fmt.Fprintf(&b, "/-- message/message.go: MaxTokenSize (tcp DecodeHeader refuses larger TKL values) -/\ndef maxTokenSize : Nat := %d\n", message.MaxTokenSize)
		fmt.Fprintf(&b, "/-- tcp/coder/coder.go: DecodeHeader checks `tkl > message.MaxTokenSize` right after the first byte (read from the AST) -/\ndef headerChecksTkl : Bool := %v\n", headerChecksTkl(repo))
		fmt.Fprintf(&b, "/-- message/codes: signalling codes handled inline by tcp/client/conn.go: handleSignals (CSM, Ping, Pong, Release, Abort) -/\ndef signalCodes : List Nat := [%d, %d, %d, %d, %d]\n",
			codes.CSM, codes.Ping, codes.Pong, codes.Release, codes.Abort)
		b.WriteString("\nend CoapVerif.Generated.TcpFraming\n")
		g.write("TcpFraming.lean", b.String())
	})
}
