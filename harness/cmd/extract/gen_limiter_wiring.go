package main

// gen_limiter_wiring.go — C16 translator tie: the WIRING of the request paths of a client connection.
//
// C16 is a property of the connection ("at most the configured number of requests in flight on a connection / per
// path"), so besides the limiter object it matters that every way a client request can leave the connection is handed
// out in its limited form.  This generator reads, with go/ast only, every non-test file of udp/client and tcp/client
// (DTLS uses udp/client) and net/client/client.go and emits Generated/LimiterWiring.lean:
//
//   * the constructor NewConnWithOpts: the functions wrapped by limitparallelrequests.New, what is passed as `do` to
//     observation.NewHandler (Observation.Cancel sends its deregistration GET through it) and which limiter is passed to
//     client.New (Do / DoObserve / Get / Post / Put / Delete / Observe of the connection are promoted from it);
//   * every other mention of the raw request functions do / doObserve / doInternal anywhere in the package;
//   * methods Do / DoObserve declared on Conn itself (they would shadow the promoted, limited ones);
//   * functions that build a Conn value (another constructor would need its own wiring);
//   * net/client.Client: embeds *LimitParallelRequests and declares no Do / DoObserve of its own.
//
//   * the servers (dtls/server, tcp/server: createConn; udp/server: getOrCreateConn): the Config a connection ACCEPTED by
//     a server is built from (`cfg := <pkg>.DefaultConfig`) and every assignment to one of its two limit fields — a server may
//     leave the defaults or hand down its own setting OF THE SAME LIMIT, nothing else;
//   * the defaults of the two limits in udp/client.DefaultConfig and tcp/client.DefaultConfig (by compiling against /repo);
//   * options/commonOptions.go: every Apply method and the constructor of LimitClientParallelRequestOpt and
//     LimitClientEndpointParallelRequestOpt: which Config field is set from which option field / parameter.
//
// Unknown shapes (no or several constructions, unexpected argument counts …) fail closed.

import (
	"fmt"
	"go/ast"
	"go/parser"
	"go/printer"
	"go/token"
	"os"
	"path/filepath"
	"sort"
	"strings"

	tcpclient "github.com/plgd-dev/go-coap/v3/tcp/client"
	udpclient "github.com/plgd-dev/go-coap/v3/udp/client"
)

func init() {
	register("LimiterWiring.lean", genLimiterWiring)
}

type lwWiring struct {
	pkg          string
	wraps        []string
	handlerVia   string // limiter | raw | unknown
	handlerSrc   string
	clientVia    string
	clientSrc    string
	otherRefs    [][2]string // (enclosing function, referenced raw function)
	shadowing    []string
	connLiterals []string
}

func lwSrc(fset *token.FileSet, e ast.Expr) string {
	var b strings.Builder
	_ = printer.Fprint(&b, fset, e)
	return b.String()
}

func lwPackage(repo, rel string) lwWiring {
	w := lwWiring{pkg: rel}
	dir := filepath.Join(repo, rel)
	ents, err := os.ReadDir(dir)
	if err != nil {
		fail("LimiterWiring: %v", err)
	}
	var names []string
	for _, e := range ents {
		n := e.Name()
		if e.IsDir() || !strings.HasSuffix(n, ".go") || strings.HasSuffix(n, "_test.go") || strings.HasSuffix(n, "_verif.go") {
			continue
		}
		names = append(names, n)
	}
	sort.Strings(names)
	raw := map[string]bool{"do": true, "doObserve": true, "doInternal": true}
	nNew, nHandler, nClient := 0, 0, 0
	for _, n := range names {
		fset := token.NewFileSet()
		f, err := parser.ParseFile(fset, filepath.Join(dir, n), nil, 0)
		if err != nil {
			fail("LimiterWiring: parse %s/%s: %v", rel, n, err)
		}
		for _, d := range f.Decls {
			fd, ok := d.(*ast.FuncDecl)
			if !ok || fd.Body == nil {
				continue
			}
			fname := fd.Name.Name
			onConn := fd.Recv != nil && len(fd.Recv.List) == 1 && recvTypeName(fd.Recv.List[0].Type) == "Conn"
			if onConn && (fname == "Do" || fname == "DoObserve") {
				w.shadowing = append(w.shadowing, fname)
			}
			// selectors that are consumed by the recognised constructions (not reported as other references)
			consumed := map[*ast.SelectorExpr]bool{}
			limiterVar := ""
			ast.Inspect(fd.Body, func(nd ast.Node) bool {
				switch x := nd.(type) {
				case *ast.CompositeLit:
					if identName(x.Type) == "Conn" {
						w.connLiterals = append(w.connLiterals, fname)
					}
				case *ast.AssignStmt:
					// limitParallelRequests := limitparallelrequests.New(limit, endpointLimit, cc.do, cc.doObserve)
					if len(x.Rhs) == 1 {
						if c, ok := x.Rhs[0].(*ast.CallExpr); ok {
							if sel, ok := c.Fun.(*ast.SelectorExpr); ok && identName(sel.X) == "limitparallelrequests" && sel.Sel.Name == "New" {
								if len(x.Lhs) != 1 || identName(x.Lhs[0]) == "" || len(c.Args) != 4 {
									fail("LimiterWiring %s.%s: unexpected shape of limitparallelrequests.New", rel, fname)
								}
								if fname != "NewConnWithOpts" {
									fail("LimiterWiring %s: limiter constructed in %s, not in NewConnWithOpts", rel, fname)
								}
								nNew++
								limiterVar = identName(x.Lhs[0])
								for _, a := range c.Args[2:] {
									w.wraps = append(w.wraps, lwSrc(fset, a))
									if s, ok := a.(*ast.SelectorExpr); ok {
										consumed[s] = true
									}
								}
							}
						}
					}
				case *ast.CallExpr:
					sel, ok := x.Fun.(*ast.SelectorExpr)
					if !ok {
						return true
					}
					switch {
					case identName(sel.X) == "limitparallelrequests" && sel.Sel.Name == "New":
						// counted above when it is the right-hand side of an assignment; anything else is unknown
						if nNew == 0 || limiterVar == "" {
							fail("LimiterWiring %s.%s: limitparallelrequests.New is not assigned to a variable", rel, fname)
						}
					case identName(sel.X) == "observation" && sel.Sel.Name == "NewHandler":
						if len(x.Args) != 3 || fname != "NewConnWithOpts" {
							fail("LimiterWiring %s.%s: unexpected shape of observation.NewHandler", rel, fname)
						}
						nHandler++
						a := x.Args[2]
						w.handlerSrc = lwSrc(fset, a)
						w.handlerVia = "unknown"
						if s, ok := a.(*ast.SelectorExpr); ok {
							switch {
							case limiterVar != "" && identName(s.X) == limiterVar && s.Sel.Name == "Do":
								w.handlerVia = "limiter"
							case raw[s.Sel.Name]:
								w.handlerVia = "raw"
								consumed[s] = true
							}
						}
					case identName(sel.X) == "client" && sel.Sel.Name == "New":
						if len(x.Args) != 4 || fname != "NewConnWithOpts" {
							fail("LimiterWiring %s.%s: unexpected shape of client.New", rel, fname)
						}
						nClient++
						a := x.Args[3]
						w.clientSrc = lwSrc(fset, a)
						w.clientVia = "unknown"
						if limiterVar != "" && identName(a) == limiterVar {
							w.clientVia = "limiter"
						}
					}
				}
				return true
			})
			// every remaining mention of a raw request function
			ast.Inspect(fd.Body, func(nd ast.Node) bool {
				if s, ok := nd.(*ast.SelectorExpr); ok && raw[s.Sel.Name] && !consumed[s] {
					w.otherRefs = append(w.otherRefs, [2]string{fname, s.Sel.Name})
				}
				return true
			})
		}
	}
	if nNew != 1 || nHandler != 1 || nClient != 1 {
		fail("LimiterWiring %s: expected exactly one limitparallelrequests.New / observation.NewHandler / client.New, found %d / %d / %d", rel, nNew, nHandler, nClient)
	}
	return w
}

// lwClient: net/client/client.go — Client embeds *limitparallelrequests.LimitParallelRequests and has no own Do/DoObserve.
func lwClient(repo string) (embeds bool, own []string) {
	_, f := parseFile(repo, "net/client/client.go")
	found := false
	for _, d := range f.Decls {
		switch x := d.(type) {
		case *ast.GenDecl:
			for _, sp := range x.Specs {
				ts, ok := sp.(*ast.TypeSpec)
				if !ok || ts.Name.Name != "Client" {
					continue
				}
				st, ok := ts.Type.(*ast.StructType)
				if !ok {
					fail("LimiterWiring: net/client.Client is not a struct")
				}
				found = true
				for _, fl := range st.Fields.List {
					if len(fl.Names) != 0 {
						continue
					}
					if se, ok := fl.Type.(*ast.StarExpr); ok {
						if sel, ok := se.X.(*ast.SelectorExpr); ok && identName(sel.X) == "limitparallelrequests" && sel.Sel.Name == "LimitParallelRequests" {
							embeds = true
						}
					}
				}
			}
		case *ast.FuncDecl:
			if x.Recv != nil && len(x.Recv.List) == 1 && recvTypeName(x.Recv.List[0].Type) == "Client" && (x.Name.Name == "Do" || x.Name.Name == "DoObserve") {
				own = append(own, x.Name.Name)
			}
		}
	}
	if !found {
		fail("LimiterWiring: type Client not found in net/client/client.go")
	}
	return embeds, own
}


var lwLimitFields = map[string]bool{"LimitClientParallelRequests": true, "LimitClientEndpointParallelRequests": true}

// lwServer: (server, function, base of cfg, [(limit field, source as written)]) for the function that builds accepted connections.
type lwServerWiring struct {
	pkg, fn, base string
	sets        [][2]string
}

func lwServer(repo, rel, fn string) lwServerWiring {
	fset, f := parseFile(repo, rel)
	fd := funcDecl(f, "Server", fn)
	w := lwServerWiring{pkg: filepath.Dir(rel), fn: fn}
	bases := 0
	ast.Inspect(fd.Body, func(nd ast.Node) bool {
		as, ok := nd.(*ast.AssignStmt)
		if !ok || len(as.Lhs) != 1 || len(as.Rhs) != 1 {
			return true
		}
		if identName(as.Lhs[0]) == "cfg" {
			if as.Tok != token.DEFINE {
				fail("LimiterWiring %s.%s: cfg is reassigned", rel, fn)
			}
			bases++
			w.base = lwSrc(fset, as.Rhs[0])
			return true
		}
		if sel, ok := as.Lhs[0].(*ast.SelectorExpr); ok && identName(sel.X) == "cfg" && lwLimitFields[sel.Sel.Name] {
			w.sets = append(w.sets, [2]string{sel.Sel.Name, lwSrc(fset, as.Rhs[0])})
		}
		return true
	})
	if bases != 1 {
		fail("LimiterWiring %s.%s: expected exactly one `cfg := …`, found %d", rel, fn, bases)
	}
	return w
}

// lwOptions: options/commonOptions.go — Apply methods and constructors of the two limit options.
func lwOptions(repo string) (applies [][4]string, ctors [][4]string) {
	fset, f := parseFile(repo, "options/commonOptions.go")
	types := map[string]bool{"LimitClientParallelRequestOpt": true, "LimitClientEndpointParallelRequestOpt": true}
	for _, d := range f.Decls {
		fd, ok := d.(*ast.FuncDecl)
		if !ok || fd.Body == nil {
			continue
		}
		if fd.Recv != nil && len(fd.Recv.List) == 1 && types[recvTypeName(fd.Recv.List[0].Type)] {
			tn := recvTypeName(fd.Recv.List[0].Type)
			if len(fd.Body.List) != 1 {
				fail("LimiterWiring options: %s.%s is not a single assignment", tn, fd.Name.Name)
			}
			as, ok := fd.Body.List[0].(*ast.AssignStmt)
			if !ok || len(as.Lhs) != 1 || len(as.Rhs) != 1 || as.Tok != token.ASSIGN {
				fail("LimiterWiring options: %s.%s is not a single assignment", tn, fd.Name.Name)
			}
			applies = append(applies, [4]string{tn, fd.Name.Name, lwSrc(fset, as.Lhs[0]), lwSrc(fset, as.Rhs[0])})
			continue
		}
		if fd.Recv == nil && (fd.Name.Name == "WithLimitClientParallelRequest" || fd.Name.Name == "WithLimitClientEndpointParallelRequest") {
			if len(fd.Body.List) != 1 || len(fd.Type.Params.List) != 1 || len(fd.Type.Params.List[0].Names) != 1 {
				fail("LimiterWiring options: unexpected shape of %s", fd.Name.Name)
			}
			ret, ok := fd.Body.List[0].(*ast.ReturnStmt)
			if !ok || len(ret.Results) != 1 {
				fail("LimiterWiring options: unexpected shape of %s", fd.Name.Name)
			}
			cl, ok := ret.Results[0].(*ast.CompositeLit)
			if !ok || len(cl.Elts) != 1 {
				fail("LimiterWiring options: unexpected shape of %s", fd.Name.Name)
			}
			kv, ok := cl.Elts[0].(*ast.KeyValueExpr)
			if !ok {
				fail("LimiterWiring options: unexpected shape of %s", fd.Name.Name)
			}
			param := fd.Type.Params.List[0].Names[0].Name
			val := lwSrc(fset, kv.Value)
			if val == param {
				val = "param"
			}
			ctors = append(ctors, [4]string{fd.Name.Name, lwSrc(fset, cl.Type), lwSrc(fset, kv.Key), val})
		}
	}
	if len(applies) == 0 || len(ctors) != 2 {
		fail("LimiterWiring options: limit options not found (%d apply methods, %d constructors)", len(applies), len(ctors))
	}
	return applies, ctors
}

// lwFieldWrites: every place in the library (all non-test Go files of the repository) that can change one of the two limit
// fields of a Config: an assignment / inc-dec whose target is a selector `….LimitClient(Endpoint)ParallelRequests`, taking the
// field's address, or a composite literal that initialises it. (file, enclosing function, field, how, value as written)
func lwFieldWrites(repo string) [][5]string {
	fields := map[string]bool{"LimitClientParallelRequests": true, "LimitClientEndpointParallelRequests": true}
	var out [][5]string
	var files []string
	err := filepath.WalkDir(repo, func(path string, d os.DirEntry, err error) error {
		if err != nil {
			return err
		}
		name := d.Name()
		if d.IsDir() {
			if path != repo && (strings.HasPrefix(name, ".") || name == "vendor" || name == "testdata") {
				return filepath.SkipDir
			}
			return nil
		}
		if strings.HasSuffix(name, ".go") && !strings.HasSuffix(name, "_test.go") {
			files = append(files, path)
		}
		return nil
	})
	if err != nil {
		fail("LimiterWiring field writes: %v", err)
	}
	sort.Strings(files)
	selField := func(e ast.Expr) (string, bool) {
		for {
			switch x := e.(type) {
			case *ast.ParenExpr:
				e = x.X
				continue
			case *ast.StarExpr:
				e = x.X
				continue
			case *ast.SelectorExpr:
				return x.Sel.Name, fields[x.Sel.Name]
			}
			return "", false
		}
	}
	for _, path := range files {
		fset := token.NewFileSet()
		f, err := parser.ParseFile(fset, path, nil, parser.SkipObjectResolution)
		if err != nil {
			fail("LimiterWiring field writes: %v", err)
		}
		rel, _ := filepath.Rel(repo, path)
		rel = filepath.ToSlash(rel)
		visit := func(where string, root ast.Node) {
			ast.Inspect(root, func(n ast.Node) bool {
				switch x := n.(type) {
				case *ast.AssignStmt:
					for i, l := range x.Lhs {
						if fld, ok := selField(l); ok {
							val := "?"
							if len(x.Rhs) == len(x.Lhs) {
								val = lwSrc(fset, x.Rhs[i])
							} else if len(x.Rhs) == 1 {
								val = lwSrc(fset, x.Rhs[0])
							}
							out = append(out, [5]string{rel, where, fld, "assign" + map[bool]string{true: "", false: ":" + x.Tok.String()}[x.Tok == token.ASSIGN], val})
						}
					}
				case *ast.IncDecStmt:
					if fld, ok := selField(x.X); ok {
						out = append(out, [5]string{rel, where, fld, "incdec", x.Tok.String()})
					}
				case *ast.UnaryExpr:
					if x.Op == token.AND {
						if fld, ok := selField(x.X); ok {
							out = append(out, [5]string{rel, where, fld, "address", lwSrc(fset, x)})
						}
					}
				case *ast.KeyValueExpr:
					if id, ok := x.Key.(*ast.Ident); ok && fields[id.Name] {
						out = append(out, [5]string{rel, where, id.Name, "literal", lwSrc(fset, x.Value)})
					}
				}
				return true
			})
		}
		for _, d := range f.Decls {
			switch fd := d.(type) {
			case *ast.FuncDecl:
				where := fd.Name.Name
				if fd.Recv != nil && len(fd.Recv.List) == 1 {
					where = recvTypeName(fd.Recv.List[0].Type) + "." + where
				}
				visit(where, fd)
			case *ast.GenDecl:
				for _, sp := range fd.Specs {
					if vs, ok := sp.(*ast.ValueSpec); ok {
						where := "var"
						if len(vs.Names) > 0 {
							where = "var " + vs.Names[0].Name
						}
						visit(where, vs)
					}
				}
			}
		}
	}
	return out
}

func genLimiterWiring(g *gen, repo string) {
	ws := []lwWiring{lwPackage(repo, "udp/client"), lwPackage(repo, "tcp/client")}
	embeds, own := lwClient(repo)
	q := func(s string) string { return fmt.Sprintf("%q", s) }
	var b strings.Builder
	b.WriteString(`namespace CoapVerif.Generated.LimiterWiring

/-- how a request path is handed out: through the limiter, as the raw unlimited function, or in a form the recogniser does not know -/
inductive Via | limiter | raw | unknown
  deriving DecidableEq, Repr

/-- the wiring of one client package (read from the AST of all its non-test files) -/
structure Wiring where
  pkg : String
  limiterWraps : List String             -- the functions wrapped by limitparallelrequests.New, as written
  handlerDo : Via                        -- third argument of observation.NewHandler (used by Observation.Cancel)
  handlerDoSrc : String
  clientLimiter : Via                    -- last argument of client.New (Do, DoObserve, Get, Post, … are promoted from it)
  clientLimiterSrc : String
  otherRefs : List (String × String)     -- (enclosing function, raw function) for every other mention of do / doObserve / doInternal
  shadowing : List String                -- methods Do / DoObserve declared on Conn itself
  connLiterals : List String             -- functions that build a Conn value
  deriving DecidableEq, Repr

`)
	b.WriteString("def wirings : List Wiring := [\n")
	for i, w := range ws {
		sort.Slice(w.otherRefs, func(a, c int) bool {
			if w.otherRefs[a][0] != w.otherRefs[c][0] {
				return w.otherRefs[a][0] < w.otherRefs[c][0]
			}
			return w.otherRefs[a][1] < w.otherRefs[c][1]
		})
		fmt.Fprintf(&b, "  { pkg := %s, limiterWraps := %s, handlerDo := .%s, handlerDoSrc := %s, clientLimiter := .%s, clientLimiterSrc := %s,\n",
			q(w.pkg), natList(w.wraps, q), w.handlerVia, q(w.handlerSrc), w.clientVia, q(w.clientSrc))
		fmt.Fprintf(&b, "    otherRefs := %s, shadowing := %s, connLiterals := %s }",
			natList(w.otherRefs, func(r [2]string) string { return fmt.Sprintf("(%q, %q)", r[0], r[1]) }), natList(w.shadowing, q), natList(w.connLiterals, q))
		if i+1 < len(ws) {
			b.WriteString(",")
		}
		b.WriteString("\n")
	}
	b.WriteString("]\n\n")
	fmt.Fprintf(&b, "/-- net/client.Client embeds *limitparallelrequests.LimitParallelRequests -/\ndef clientEmbedsLimiter : Bool := %v\n", embeds)
	fmt.Fprintf(&b, "/-- methods Do / DoObserve declared on net/client.Client itself (they would shadow the limiter's) -/\ndef clientOwnDo : List String := %s\n", natList(own, q))
	// servers
	srv := []lwServerWiring{lwServer(repo, "dtls/server/server.go", "createConn"), lwServer(repo, "tcp/server/server.go", "createConn"),
		lwServer(repo, "udp/server/server.go", "getOrCreateConn")}
	b.WriteString(`
/-- how a server builds the Config of the connections it accepts: the base value of cfg and every assignment to one of the two
    limit fields (field, source as written) -/
structure ServerWiring where
  pkg : String
  fn : String
  base : String
  sets : List (String × String)
  deriving DecidableEq, Repr

`)
	b.WriteString("def serverWirings : List ServerWiring := [\n")
	for i, w := range srv {
		fmt.Fprintf(&b, "  { pkg := %s, fn := %s, base := %s, sets := %s }", q(w.pkg), q(w.fn), q(w.base),
			natList(w.sets, func(r [2]string) string { return fmt.Sprintf("(%q, %q)", r[0], r[1]) }))
		if i+1 < len(srv) {
			b.WriteString(",")
		}
		b.WriteString("\n")
	}
	b.WriteString("]\n\n")
	fmt.Fprintf(&b, "/-- udp/client.DefaultConfig (also the base of dtls connections): LimitClientParallelRequests, LimitClientEndpointParallelRequests -/\ndef udpDefaultLimits : Int × Int := (%d, %d)\n",
		udpclient.DefaultConfig.LimitClientParallelRequests, udpclient.DefaultConfig.LimitClientEndpointParallelRequests)
	fmt.Fprintf(&b, "/-- tcp/client.DefaultConfig: LimitClientParallelRequests, LimitClientEndpointParallelRequests -/\ndef tcpDefaultLimits : Int × Int := (%d, %d)\n\n",
		tcpclient.DefaultConfig.LimitClientParallelRequests, tcpclient.DefaultConfig.LimitClientEndpointParallelRequests)
	applies, ctors := lwOptions(repo)
	fmt.Fprintf(&b, "/-- options/commonOptions.go: (option type, Apply method, Config field assigned, source) -/\ndef optionApplies : List (String × String × String × String) := %s\n",
		natList(applies, func(r [4]string) string { return fmt.Sprintf("(%q, %q, %q, %q)", r[0], r[1], r[2], r[3]) }))
	fmt.Fprintf(&b, "/-- options/commonOptions.go: (constructor, option type built, field set, value: `param` = the constructor's parameter) -/\ndef optionCtors : List (String × String × String × String) := %s\n",
		natList(ctors, func(r [4]string) string { return fmt.Sprintf("(%q, %q, %q, %q)", r[0], r[1], r[2], r[3]) }))
	fmt.Fprintf(&b, "/-- every place in the non-test Go files of the repository that can change one of the two limit fields of a Config:\n    (file, enclosing function, field, how: assign / assign:<op> / incdec / address / literal, value as written) -/\ndef limitFieldWrites : List (String × String × String × String × String) := %s\n",
		natList(lwFieldWrites(repo), func(r [5]string) string { return fmt.Sprintf("(%q, %q, %q, %q, %q)", r[0], r[1], r[2], r[3], r[4]) }))
	b.WriteString("\nend CoapVerif.Generated.LimiterWiring\n")
	g.write("LimiterWiring.lean", b.String())
}
