package main

import (
	"fmt"
	"go/ast"
	"go/token"
	"strings"
)

// monitorShape reads:
//   - udp/server/server.go: getConn — the look-ahead added to time.Now() in `cc.CheckExpirations(time.Now().Add(K * time.Millisecond))`
//   - net/monitor/inactivity/monitor.go: CheckInactivity — the comparison `now.After(m.LastActivity().Add(m.duration))`
//   - net/monitor/inactivity/keepalive.go: OnInactive — the comparison `v > m.maxRetries`, and KeepAliveMonitor.Notify calls resetFails
func init() {
	register("Monitor.lean", func(g *gen, repo string) {
		var b strings.Builder
		b.WriteString("namespace CoapVerif.Generated.Monitor\n\n")
		// look-ahead
		_, f := parseFile(repo, "udp/server/server.go")
		fd := funcDecl(f, "Server", "getConn")
		var ms []uint64
		ast.Inspect(fd.Body, func(n ast.Node) bool {
			call, ok := n.(*ast.CallExpr)
			if !ok {
				return true
			}
			sel, ok := call.Fun.(*ast.SelectorExpr)
			if !ok || sel.Sel.Name != "CheckExpirations" || len(call.Args) != 1 {
				return true
			}
			add, ok := call.Args[0].(*ast.CallExpr)
			if !ok {
				fail("getConn: CheckExpirations argument is not time.Now().Add(...)")
			}
			asel, ok := add.Fun.(*ast.SelectorExpr)
			if !ok || asel.Sel.Name != "Add" || len(add.Args) != 1 {
				fail("getConn: CheckExpirations argument is not time.Now().Add(...)")
			}
			mul, ok := add.Args[0].(*ast.BinaryExpr)
			if !ok || mul.Op != token.MUL {
				fail("getConn: look-ahead is not K * time.Millisecond")
			}
			u, ok := mul.Y.(*ast.SelectorExpr)
			if !ok || identName(u.X) != "time" || u.Sel.Name != "Millisecond" {
				fail("getConn: look-ahead is not K * time.Millisecond")
			}
			ms = append(ms, intLit(mul.X))
			return true
		})
		if len(ms) != 1 {
			fail("getConn: expected exactly one CheckExpirations(time.Now().Add(K*time.Millisecond)) call, found %d", len(ms))
		}
		fmt.Fprintf(&b, "/-- udp/server/server.go: getConn checks expiry at now + this many nanoseconds before extending a live peer -/\ndef serverLookaheadNs : Nat := %d\n", ms[0]*1000000)
		// CheckInactivity comparison
		_, f2 := parseFile(repo, "net/monitor/inactivity/monitor.go")
		ci := funcDecl(f2, "Monitor", "CheckInactivity")
		found := false
		ast.Inspect(ci.Body, func(n ast.Node) bool {
			call, ok := n.(*ast.CallExpr)
			if !ok {
				return true
			}
			sel, ok := call.Fun.(*ast.SelectorExpr)
			if ok && sel.Sel.Name == "After" && identName(sel.X) == "now" {
				found = true
			}
			return true
		})
		if !found {
			fail("CheckInactivity: comparison is not now.After(lastActivity + duration)")
		}
		b.WriteString("/-- net/monitor/inactivity/monitor.go: CheckInactivity fires iff now.After(lastActivity.Add(duration)) (strict) -/\ndef fireStrict : Bool := true\n")
		// OnInactive: v > m.maxRetries
		_, f3 := parseFile(repo, "net/monitor/inactivity/keepalive.go")
		oi := funcDecl(f3, "KeepAlive", "OnInactive")
		op := ""
		ast.Inspect(oi.Body, func(n ast.Node) bool {
			is, ok := n.(*ast.IfStmt)
			if !ok {
				return true
			}
			c, ok := is.Cond.(*ast.BinaryExpr)
			if ok && identName(c.X) == "v" {
				if s, ok := c.Y.(*ast.SelectorExpr); ok && s.Sel.Name == "maxRetries" {
					op = c.Op.String()
				}
			}
			return true
		})
		if op != ">" {
			fail("OnInactive: close condition is `v %s m.maxRetries`, expected `>`", op)
		}
		b.WriteString("/-- net/monitor/inactivity/keepalive.go: OnInactive closes iff the incremented counter `v > maxRetries` -/\ndef closeWhenGreater : Bool := true\n")
		// KeepAliveMonitor.Notify resets the counter
		resets := false
		for _, d := range f3.Decls {
			fd, ok := d.(*ast.FuncDecl)
			if !ok || fd.Name.Name != "Notify" || fd.Recv == nil || recvTypeName(fd.Recv.List[0].Type) != "KeepAliveMonitor" {
				continue
			}
			ast.Inspect(fd.Body, func(n ast.Node) bool {
				if call, ok := n.(*ast.CallExpr); ok {
					if s, ok := call.Fun.(*ast.SelectorExpr); ok && s.Sel.Name == "resetFails" {
						resets = true
					}
				}
				return true
			})
		}
		fmt.Fprintf(&b, "/-- net/monitor/inactivity/keepalive.go: KeepAliveMonitor.Notify calls resetFails (any received message resets the count) -/\ndef notifyResetsFails : Bool := %v\n", resets)
		b.WriteString("\nend CoapVerif.Generated.Monitor\n")
		g.write("Monitor.lean", b.String())
	})
}
