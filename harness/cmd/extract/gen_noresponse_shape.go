package main

import (
	"go/ast"
	"go/token"
	"strings"
)

// noResponseClassSwitch recognises, in message/noresponse/noresponse.go: IsNoResponseCode,
//
//	switch code >> N { case A: classBit = X ... }
//	if noRespValue&classBit != 0 { return ErrMessageNotInterested }
//	return nil
//
// and returns N and the (A, X) pairs. Any other shape fails closed.
func noResponseClassSwitch(repo string) (uint64, [][2]uint64) {
	_, f := parseFile(repo, "message/noresponse/noresponse.go")
	fd := funcDecl(f, "", "IsNoResponseCode")
	var sw *ast.SwitchStmt
	var ifs []*ast.IfStmt
	var rets int
	for _, st := range fd.Body.List {
		switch s := st.(type) {
		case *ast.SwitchStmt:
			if sw != nil {
				fail("IsNoResponseCode: more than one switch")
			}
			sw = s
		case *ast.IfStmt:
			ifs = append(ifs, s)
		case *ast.ReturnStmt:
			rets++
			if len(s.Results) != 1 || identName(s.Results[0]) != "nil" {
				fail("IsNoResponseCode: final return is not `return nil`")
			}
		case *ast.DeclStmt:
		default:
			fail("IsNoResponseCode: unexpected statement %T", st)
		}
	}
	if sw == nil || len(ifs) != 1 || rets != 1 {
		fail("IsNoResponseCode: expected one switch, one if and one return nil")
	}
	tag, ok := sw.Tag.(*ast.BinaryExpr)
	if !ok || tag.Op != token.SHR || identName(tag.X) != "code" {
		fail("IsNoResponseCode: switch tag is not `code >> N`")
	}
	shift := intLit(tag.Y)
	var bits [][2]uint64
	var bitVar string
	for _, c := range sw.Body.List {
		cc := c.(*ast.CaseClause)
		if len(cc.List) != 1 || len(cc.Body) != 1 {
			fail("IsNoResponseCode: case arm is not `case A: v = X`")
		}
		as, ok := cc.Body[0].(*ast.AssignStmt)
		if !ok || as.Tok != token.ASSIGN || len(as.Lhs) != 1 || len(as.Rhs) != 1 {
			fail("IsNoResponseCode: case body is not a plain assignment")
		}
		if bitVar == "" {
			bitVar = identName(as.Lhs[0])
		} else if bitVar != identName(as.Lhs[0]) {
			fail("IsNoResponseCode: arms assign different variables")
		}
		bits = append(bits, [2]uint64{intLit(cc.List[0]), intLit(as.Rhs[0])})
	}
	// if noRespValue&classBit != 0 { return ErrMessageNotInterested }
	cond, ok := ifs[0].Cond.(*ast.BinaryExpr)
	if !ok || cond.Op != token.NEQ || intLitOK(cond.Y) != 0 {
		fail("IsNoResponseCode: condition is not `x&y != 0`")
	}
	and, ok := cond.X.(*ast.BinaryExpr)
	if !ok || and.Op != token.AND || identName(and.X) != "noRespValue" || identName(and.Y) != bitVar {
		fail("IsNoResponseCode: condition is not `noRespValue&%s != 0`", bitVar)
	}
	if len(ifs[0].Body.List) != 1 || ifs[0].Else != nil {
		fail("IsNoResponseCode: if body")
	}
	r, ok := ifs[0].Body.List[0].(*ast.ReturnStmt)
	if !ok || len(r.Results) != 1 || identName(r.Results[0]) != "ErrMessageNotInterested" {
		fail("IsNoResponseCode: if body does not return ErrMessageNotInterested")
	}
	return shift, bits
}

// noResponseWriterShape reads net/responsewriter/responseWriter.go:
//
//	eager    - New itself looks the No-Response option up (a call `<x>.GetUint32(message.NoResponse)` in New) and SetResponse
//	           does not look at the request's options at all (the value is a snapshot taken when the request arrived: what a
//	           handler does to its request object afterwards cannot matter)
//	wholeList - the lookup goes through Options.GetUint32 (binary search over the whole list), not through an index expression
func noResponseWriterShape(repo string) (eager bool, wholeList bool) {
	fset, f := parseFile(repo, "net/responsewriter/responseWriter.go")
	calls := func(fd *ast.FuncDecl) (getNoResp int, indexExprs int, mentionsReqOpts bool) {
		ast.Inspect(fd.Body, func(n ast.Node) bool {
			switch x := n.(type) {
			case *ast.CallExpr:
				if sel, ok := x.Fun.(*ast.SelectorExpr); ok && sel.Sel.Name == "GetUint32" && len(x.Args) == 1 &&
					c09ExprText(fset, x.Args[0]) == "message.NoResponse" {
					getNoResp++
				}
			case *ast.IndexExpr:
				if t := c09ExprText(fset, x.X); t == "requestOptions" || t == "reqOpts" || strings.HasSuffix(t, ".requestOptions") {
					indexExprs++ // an option picked by position
				}
			case *ast.Ident:
				if x.Name == "requestOptions" || x.Name == "reqOpts" {
					mentionsReqOpts = true
				}
			case *ast.SelectorExpr:
				if x.Sel.Name == "requestOptions" {
					mentionsReqOpts = true
				}
			}
			return true
		})
		return
	}
	nNew, idxNew, _ := calls(funcDecl(f, "", "New"))
	nSet, _, mentSet := calls(funcDecl(f, "ResponseWriter", "SetResponse"))
	eager = nNew == 1 && nSet == 0 && !mentSet
	wholeList = nNew+nSet >= 1 && idxNew == 0
	return
}

func intLitOK(e ast.Expr) uint64 {
	bl, ok := e.(*ast.BasicLit)
	if !ok || bl.Kind != token.INT || bl.Value != "0" {
		return 1
	}
	return 0
}
