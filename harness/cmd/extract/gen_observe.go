package main

import (
	"fmt"
	"strings"

	"github.com/plgd-dev/go-coap/v3/message/codes"
	"github.com/plgd-dev/go-coap/v3/net/observation"
)

func init() {
	register("Observe.lean", func(g *gen, repo string) {
		var b strings.Builder
		b.WriteString("namespace CoapVerif.Generated.Observe\n\n")
		fmt.Fprintf(&b, "/-- net/observation/observation.go: ObservationSequenceTimeout, in nanoseconds -/\ndef sequenceTimeoutNs : Nat := %d\n", int64(observation.ObservationSequenceTimeout))
		lo, hi := observeWindow(repo)
		fmt.Fprintf(&b, "/-- ValidSequenceNumber: `(newValue-oldValue) < (1<<K)` and `(oldValue-newValue) > (1<<K)` — the two shift amounts (AST) -/\ndef windowShiftLt : Nat := %d\ndef windowShiftGt : Nat := %d\n", lo, hi)
		fmt.Fprintf(&b, "/-- codes accepted as a successful registration in Handler.NewObservation (codes.Content, codes.Valid) -/\ndef okCodes : List Nat := [%d, %d]\n", codes.Content, codes.Valid)
		b.WriteString("\nend CoapVerif.Generated.Observe\n")
		g.write("Observe.lean", b.String())
	})
}
