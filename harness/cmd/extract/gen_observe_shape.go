package main

import (
	"go/ast"
	"go/token"
)

// observeWindow recognises in net/observation/observation.go: ValidSequenceNumber the three ifs
//
//	if oldValue < newValue && (newValue-oldValue) < (1<<A) { return true }
//	if oldValue > newValue && (oldValue-newValue) > (1<<B) { return true }
//	if now.Sub(lastEventOccurs) > ObservationSequenceTimeout { return true }
//	return false
//
// and returns A and B. Any other shape fails closed.
func observeWindow(repo string) (uint64, uint64) {
	_, f := parseFile(repo, "net/observation/observation.go")
	fd := funcDecl(f, "", "ValidSequenceNumber")
	if len(fd.Body.List) != 4 {
		fail("ValidSequenceNumber: expected 3 ifs and a return, got %d statements", len(fd.Body.List))
	}
	retBool := func(s ast.Stmt, want string) {
		r, ok := s.(*ast.ReturnStmt)
		if !ok || len(r.Results) != 1 || identName(r.Results[0]) != want {
			fail("ValidSequenceNumber: expected `return %s`", want)
		}
	}
	cmpShift := func(s ast.Stmt, a, b string, first, second token.Token) uint64 {
		is, ok := s.(*ast.IfStmt)
		if !ok || is.Else != nil || is.Init != nil || len(is.Body.List) != 1 {
			fail("ValidSequenceNumber: if shape")
		}
		retBool(is.Body.List[0], "true")
		and, ok := is.Cond.(*ast.BinaryExpr)
		if !ok || and.Op != token.LAND {
			fail("ValidSequenceNumber: condition is not a conjunction")
		}
		l, ok := and.X.(*ast.BinaryExpr)
		if !ok || l.Op != first || identName(l.X) != a || identName(l.Y) != b {
			fail("ValidSequenceNumber: first conjunct is not `%s %s %s`", a, first, b)
		}
		r, ok := and.Y.(*ast.BinaryExpr)
		if !ok || r.Op != second {
			fail("ValidSequenceNumber: second conjunct operator")
		}
		diff, ok := unparen(r.X).(*ast.BinaryExpr)
		if !ok || diff.Op != token.SUB {
			fail("ValidSequenceNumber: second conjunct is not a difference")
		}
		big, small := b, a
		if first == token.GTR {
			big, small = a, b
		}
		if identName(diff.X) != big || identName(diff.Y) != small {
			fail("ValidSequenceNumber: difference is not `%s-%s`", big, small)
		}
		sh, ok := unparen(r.Y).(*ast.BinaryExpr)
		if !ok || sh.Op != token.SHL || intLit(sh.X) != 1 {
			fail("ValidSequenceNumber: bound is not `1<<K`")
		}
		return intLit(sh.Y)
	}
	a := cmpShift(fd.Body.List[0], "oldValue", "newValue", token.LSS, token.LSS)
	b := cmpShift(fd.Body.List[1], "oldValue", "newValue", token.GTR, token.GTR)
	is, ok := fd.Body.List[2].(*ast.IfStmt)
	if !ok || len(is.Body.List) != 1 {
		fail("ValidSequenceNumber: third if")
	}
	retBool(is.Body.List[0], "true")
	c, ok := is.Cond.(*ast.BinaryExpr)
	if !ok || c.Op != token.GTR || identName(c.Y) != "ObservationSequenceTimeout" {
		fail("ValidSequenceNumber: third condition is not `… > ObservationSequenceTimeout`")
	}
	call, ok := c.X.(*ast.CallExpr)
	if !ok || len(call.Args) != 1 || identName(call.Args[0]) != "lastEventOccurs" {
		fail("ValidSequenceNumber: third condition is not now.Sub(lastEventOccurs)")
	}
	sel, ok := call.Fun.(*ast.SelectorExpr)
	if !ok || sel.Sel.Name != "Sub" || identName(sel.X) != "now" {
		fail("ValidSequenceNumber: third condition is not now.Sub(lastEventOccurs)")
	}
	retBool(fd.Body.List[3], "false")
	return a, b
}

func unparen(e ast.Expr) ast.Expr {
	for {
		p, ok := e.(*ast.ParenExpr)
		if !ok {
			return e
		}
		e = p.X
	}
}
