package main

import (
	"fmt"
	"go/ast"
	"sort"
	"strings"
)

// Option appliers (options/*.go): every option type has up to five methods - TCPServerApply, TCPClientApply,
// UDPServerApply, DTLSServerApply, UDPClientApply - that write the option's value into the configuration of one kind of
// endpoint.  For every such method: the configuration fields it assigns and the (transport-normalised) text of the value.
// The Lean side demands that all appliers of one option type agree (Props/C10.lean option_appliers_agree): the same
// fields from the same values, whatever the transport and the role - a slip in one of the five copies (a field of another
// name, another value, a missing assignment) breaks it.  No expectation table: the code is compared with itself.
type owRec struct {
	opt, method string
	assigns     []string // "Field=<normalised rhs>", sorted
}

func owNormalise(s string) string {
	for _, p := range [][2]string{
		{"tcpClient", "XClient"}, {"udpClient", "XClient"}, {"tcpServer", "XServer"}, {"udpServer", "XServer"}, {"dtlsServer", "XServer"},
		{"toTCP", "toX"}, {"toUDP", "toX"}, {"TCPOnInactive", "XOnInactive"}, {"UDPOnInactive", "XOnInactive"},
	} {
		s = strings.ReplaceAll(s, p[0], p[1])
	}
	return s
}

func init() {
	register("OptionWiring.lean", func(g *gen, repo string) {
		var recs []owRec
		for _, file := range []string{"options/commonOptions.go", "options/tcpOptions.go", "options/udpOptions.go"} {
			fset, f := parseFile(repo, file)
			for _, d := range f.Decls {
				fd, ok := d.(*ast.FuncDecl)
				if !ok || fd.Recv == nil || fd.Body == nil || !strings.HasSuffix(fd.Name.Name, "Apply") {
					continue
				}
				if len(fd.Type.Params.List) != 1 || len(fd.Type.Params.List[0].Names) != 1 {
					fail("%s: %s: unexpected parameter list", file, fd.Name.Name)
				}
				cfgName := fd.Type.Params.List[0].Names[0].Name
				rec := owRec{opt: recvTypeName(fd.Recv.List[0].Type), method: fd.Name.Name}
				ast.Inspect(fd.Body, func(n ast.Node) bool {
					as, ok := n.(*ast.AssignStmt)
					if !ok {
						return true
					}
					for i, l := range as.Lhs {
						sel, ok := l.(*ast.SelectorExpr)
						if !ok {
							continue
						}
						if id, ok := sel.X.(*ast.Ident); !ok || id.Name != cfgName {
							continue
						}
						if i >= len(as.Rhs) {
							fail("%s: %s.%s: assignment with fewer values than targets", file, rec.opt, rec.method)
						}
						rec.assigns = append(rec.assigns, sel.Sel.Name+"="+owNormalise(c09ExprText(fset, as.Rhs[i])))
					}
					return true
				})
				sort.Strings(rec.assigns)
				recs = append(recs, rec)
			}
		}
		if len(recs) < 40 {
			fail("options: only %d option appliers found", len(recs))
		}
		sort.Slice(recs, func(i, j int) bool {
			if recs[i].opt != recs[j].opt {
				return recs[i].opt < recs[j].opt
			}
			return recs[i].method < recs[j].method
		})
		var b strings.Builder
		b.WriteString("namespace CoapVerif.Generated.OptionWiring\n\n")
		b.WriteString("structure Applier where\n  opt : String\n  method : String\n  assigns : List String\n  deriving Repr, DecidableEq\n\n")
		b.WriteString("/-- every `…Apply` method of options/*.go: the configuration fields it assigns and the transport-normalised value texts -/\ndef appliers : List Applier := [\n")
		for i, r := range recs {
			sep := ","
			if i == len(recs)-1 {
				sep = ""
			}
			fmt.Fprintf(&b, "  ⟨%q, %q, %s⟩%s\n", r.opt, r.method, natList(r.assigns, func(s string) string { return fmt.Sprintf("%q", s) }), sep)
		}
		b.WriteString("]\n\nend CoapVerif.Generated.OptionWiring\n")
		g.write("OptionWiring.lean", b.String())
	})
}
