package main

import (
	"fmt"
	"go/ast"
	"sort"
	"strings"
)

// Option appliers (options/*.go): every option type has up to five methods - TCPServerApply, TCPClientApply,
// UDPServerApply, DTLSServerApply, UDPClientApply - that write the option's value into the configuration of one kind of
// endpoint.  For every such method: the configuration fields it assigns and the (transport-normalised) text of the value.
// The Lean side demands that all appliers of one option type agree (Props/C10.lean option_appliers_agree): the same
// fields from the same values, whatever the transport and the role - a slip in one of the five copies (a field of another
// name, another value, a missing assignment) breaks it.  No expectation table: the code is compared with itself.
type owRec struct {
	opt, method string
	assigns     []string // "Field=<normalised rhs>", sorted
}

func owNormalise(s string) string {
	for _, p := range [][2]string{
		{"tcpClient", "XClient"}, {"udpClient", "XClient"}, {"tcpServer", "XServer"}, {"udpServer", "XServer"}, {"dtlsServer", "XServer"},
		{"toTCP", "toX"}, {"toUDP", "toX"}, {"TCPOnInactive", "XOnInactive"}, {"UDPOnInactive", "XOnInactive"},
	} {
		s = strings.ReplaceAll(s, p[0], p[1])
	}
	return s
}

func init() {
	register("OptionWiring.lean", func(g *gen, repo string) {
		var recs []owRec
		for _, file := range []string{"options/commonOptions.go", "options/tcpOptions.go", "options/udpOptions.go"} {
			fset, f := parseFile(repo, file)
			for _, d := range f.Decls {
				fd, ok := d.(*ast.FuncDecl)
				if !ok || fd.Recv == nil || fd.Body == nil || !strings.HasSuffix(fd.Name.Name, "Apply") {
					continue
				}
				if len(fd.Type.Params.List) != 1 || len(fd.Type.Params.List[0].Names) != 1 {
					fail("%s: %s: unexpected parameter list", file, fd.Name.Name)
				}
				cfgName := fd.Type.Params.List[0].Names[0].Name
				rec := owRec{opt: recvTypeName(fd.Recv.List[0].Type), method: fd.Name.Name}
				ast.Inspect(fd.Body, func(n ast.Node) bool {
					as, ok := n.(*ast.AssignStmt)
					if !ok {
						return true
					}
					for i, l := range as.Lhs {
						sel, ok := l.(*ast.SelectorExpr)
						if !ok {
							continue
						}
						if id, ok := sel.X.(*ast.Ident); !ok || id.Name != cfgName {
							continue
						}
						if i >= len(as.Rhs) {
							fail("%s: %s.%s: assignment with fewer values than targets", file, rec.opt, rec.method)
						}
						rec.assigns = append(rec.assigns, sel.Sel.Name+"="+owNormalise(c09ExprText(fset, as.Rhs[i])))
					}
					return true
				})
				sort.Strings(rec.assigns)
				recs = append(recs, rec)
			}
		}
		if len(recs) < 40 {
			fail("options: only %d option appliers found", len(recs))
		}
		sort.Slice(recs, func(i, j int) bool {
			if recs[i].opt != recs[j].opt {
				return recs[i].opt < recs[j].opt
			}
			return recs[i].method < recs[j].method
		})
		var b strings.Builder
		b.WriteString("namespace CoapVerif.Generated.OptionWiring\n\n")
		b.WriteString("structure Applier where\n  opt : String\n  method : String\n  assigns : List String\n  deriving Repr, DecidableEq\n\n")
		b.WriteString("/-- every `…Apply` method of options/*.go: the configuration fields it assigns and the transport-normalised value texts -/\ndef appliers : List Applier := [\n")
		for i, r := range recs {
			sep := ","
			if i == len(recs)-1 {
				sep = ""
			}
			fmt.Fprintf(&b, "  ⟨%q, %q, %s⟩%s\n", r.opt, r.method, natList(r.assigns, func(s string) string { return fmt.Sprintf("%q", s) }), sep)
		}
		b.WriteString("]\n\n")
		// the servers' per-connection configuration: what createConn / getOrCreateConn write into the client.Config of an
		// accepted connection (the variable initialised from DefaultConfig)
		b.WriteString("structure ConnField where\n  server : String\n  field : String\n  value : String\n  deriving Repr, DecidableEq\n\n")
		b.WriteString("/-- `cfg.<field> = <value>` in the servers' per-connection set-up (function literals abbreviated to `func`) -/\ndef connFields : List ConnField := [\n")
		var cf []string
		for _, sv := range [][3]string{{"tcp", "tcp/server/server.go", "createConn"}, {"dtls", "dtls/server/server.go", "createConn"}, {"udp", "udp/server/server.go", "getOrCreateConn"}} {
			fset, f := parseFile(repo, sv[1])
			fd := funcDecl(f, "Server", sv[2])
			cfgVar := ""
			n := 0
			ast.Inspect(fd.Body, func(nd ast.Node) bool {
				as, ok := nd.(*ast.AssignStmt)
				if !ok {
					return true
				}
				if len(as.Lhs) == 1 && len(as.Rhs) == 1 {
					if id, ok := as.Lhs[0].(*ast.Ident); ok && strings.HasSuffix(c09ExprText(fset, as.Rhs[0]), ".DefaultConfig") {
						cfgVar = id.Name
						return true
					}
					if sel, ok := as.Lhs[0].(*ast.SelectorExpr); ok && cfgVar != "" {
						if id, ok := sel.X.(*ast.Ident); ok && id.Name == cfgVar {
							v := c09ExprText(fset, as.Rhs[0])
							if _, isFunc := as.Rhs[0].(*ast.FuncLit); isFunc {
								v = "func"
							}
							cf = append(cf, fmt.Sprintf("  ⟨%q, %q, %q⟩", sv[0], sel.Sel.Name, v))
							n++
						}
					}
				}
				return true
			})
			if cfgVar == "" || n == 0 {
				fail("%s: %s: no per-connection configuration initialised from DefaultConfig and filled in here", sv[1], sv[2])
			}
		}
		b.WriteString(strings.Join(cf, ",\n"))
		b.WriteString("\n]\n\nend CoapVerif.Generated.OptionWiring\n")
		g.write("OptionWiring.lean", b.String())
	})
}
