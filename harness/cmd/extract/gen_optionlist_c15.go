package main

import (
	"context"
	"fmt"
	"reflect"
	"strings"

	"github.com/plgd-dev/go-coap/v3/message"
	"github.com/plgd-dev/go-coap/v3/message/pool"
)

// Generated/OptionList.lean: constants the C15 models (Model/Options.lean, Model/PoolMessage.lean) depend on.
func init() {
	register("OptionList.lean", func(g *gen, _ string) { genOptionList(g) })
}

func genOptionList(g *gen) {
	var b strings.Builder
	b.WriteString("namespace CoapVerif.Generated.OptionList\n\n")
	fmt.Fprintf(&b, "/-- message/options.go: maxPathValue -/\ndef maxPathValue : Nat := %d\n", uint64(message.VerifC15MaxPathValue))
	fmt.Fprintf(&b, "/-- message/option.go: max1ByteNumber -/\ndef max1ByteNumber : Nat := %d\n", uint64(message.VerifC15Max1ByteNumber))
	fmt.Fprintf(&b, "/-- message/option.go: max2ByteNumber -/\ndef max2ByteNumber : Nat := %d\n", uint64(message.VerifC15Max2ByteNumber))
	fmt.Fprintf(&b, "/-- message/option.go: max3ByteNumber -/\ndef max3ByteNumber : Nat := %d\n", uint64(message.VerifC15Max3ByteNumber))
	fmt.Fprintf(&b, "/-- message/option.go: URIPath -/\ndef uriPath : Nat := %d\n", uint64(message.URIPath))
	fmt.Fprintf(&b, "/-- message/option.go: LocationPath -/\ndef locationPath : Nat := %d\n", uint64(message.LocationPath))
	fmt.Fprintf(&b, "/-- message/option.go: URIQuery -/\ndef uriQuery : Nat := %d\n", uint64(message.URIQuery))
	fmt.Fprintf(&b, "/-- message/option.go: ETag -/\ndef eTag : Nat := %d\n", uint64(message.ETag))
	fmt.Fprintf(&b, "/-- message/option.go: Observe -/\ndef observe : Nat := %d\n", uint64(message.Observe))
	fmt.Fprintf(&b, "/-- message/option.go: ContentFormat -/\ndef contentFormat : Nat := %d\n", uint64(message.ContentFormat))
	fmt.Fprintf(&b, "/-- message/option.go: bit size of MediaType (math.CastTo[MediaType] in ContentFormat) -/\ndef mediaTypeBits : Nat := %d\n", reflect.TypeOf(message.MediaType(0)).Bits())
	fmt.Fprintf(&b, "/-- message/pool/message.go: valueBufferSize -/\ndef valueBufferSize : Nat := %d\n", uint64(pool.VerifC15ValueBufferSize))
	m := pool.NewMessage(context.Background())
	fmt.Fprintf(&b, "/-- message/pool/message.go: NewMessage: cap(msg.Options) -/\ndef newMessageOptionsCap : Nat := %d\n", cap(m.Options()))
	fmt.Fprintf(&b, "/-- message/pool/message.go: NewMessage: len(valueBuffer) -/\ndef newMessageValueBufferLen : Nat := %d\n", m.VerifC15ValueBufferLen())
	b.WriteString("\nend CoapVerif.Generated.OptionList\n")
	g.write("OptionList.lean", b.String())
}
