package main

import (
	"fmt"
	"go/ast"
	"go/token"
	"strings"
)

// Generated/OptionListShape.lean (C15): structural facts of message/options.go read from the AST.
//
//   - the comparison operator of every `for i := firstIdx; i ? lastIdx; i++` loop of the range getters
//     (GetUint32s, GetStrings, GetBytess, path);
//   - in setPath: whether `options.Remove(optionID)` comes after the call of GetPathBufferSize and after the
//     `requiredSize > len(buf)` check;
//   - in ResetOptionsTo: whether a top-level `if … { return …, ErrTooSmall }` precedes `opts := options[:0]`.
//
// The models in Model/Options.lean / Model/OptionValues.lean branch on these facts, so they follow the source in either
// shape; the theorems of Props/C15.lean hold only for the repaired shapes and stop checking when a shape flips.
func init() {
	register("OptionListShape.lean", genOptionListShape)
}

// rangeLoopStrict returns, for every loop `for i := firstIdx; i OP lastIdx; i++` in the function, whether OP is `<`.
func rangeLoopStrict(fd *ast.FuncDecl, what string) []bool {
	var out []bool
	ast.Inspect(fd.Body, func(n ast.Node) bool {
		fs, ok := n.(*ast.ForStmt)
		if !ok {
			return true
		}
		init, ok := fs.Init.(*ast.AssignStmt)
		if !ok || len(init.Lhs) != 1 || len(init.Rhs) != 1 || identName(init.Lhs[0]) != "i" || identName(init.Rhs[0]) != "firstIdx" {
			return true
		}
		cond, ok := fs.Cond.(*ast.BinaryExpr)
		if !ok || identName(cond.X) != "i" || identName(cond.Y) != "lastIdx" {
			fail("%s: range loop condition is not `i ? lastIdx`", what)
		}
		post, ok := fs.Post.(*ast.IncDecStmt)
		if !ok || post.Tok != token.INC || identName(post.X) != "i" {
			fail("%s: range loop post statement is not `i++`", what)
		}
		switch cond.Op {
		case token.LSS:
			out = append(out, true)
		case token.LEQ:
			out = append(out, false)
		default:
			fail("%s: range loop compares with %s", what, cond.Op)
		}
		return true
	})
	return out
}

func containsCall(n ast.Node, sel string) bool {
	found := false
	ast.Inspect(n, func(x ast.Node) bool {
		ce, ok := x.(*ast.CallExpr)
		if !ok {
			return true
		}
		switch f := ce.Fun.(type) {
		case *ast.SelectorExpr:
			if f.Sel.Name == sel {
				found = true
			}
		case *ast.Ident:
			if f.Name == sel {
				found = true
			}
		}
		return true
	})
	return found
}

func returnsErr(n ast.Node, errName string) bool {
	found := false
	ast.Inspect(n, func(x ast.Node) bool {
		rs, ok := x.(*ast.ReturnStmt)
		if !ok {
			return true
		}
		for _, r := range rs.Results {
			if identName(r) == errName {
				found = true
			}
		}
		return true
	})
	return found
}

func boolLean(b bool) string {
	if b {
		return "true"
	}
	return "false"
}

func genOptionListShape(g *gen, repo string) {
	_, f := parseFile(repo, "message/options.go")
	var b strings.Builder
	b.WriteString("namespace CoapVerif.Generated.OptionListShape\n\n")
	one := func(fn, lean string, want int) {
		fd := funcDecl(f, "Options", fn)
		ls := rangeLoopStrict(fd, fn)
		if len(ls) != want {
			fail("%s: expected %d range loop(s) `for i := firstIdx; i ? lastIdx; i++`, found %d", fn, want, len(ls))
		}
		all := true
		for _, s := range ls {
			all = all && s
		}
		fmt.Fprintf(&b, "/-- message/options.go: %s: every `for i := firstIdx; i ? lastIdx; i++` compares with `<` (read from the AST) -/\ndef %s : Bool := %s\n", fn, lean, boolLean(all))
	}
	one("GetUint32s", "getUint32sLoopStrict", 1)
	one("GetStrings", "getStringsLoopStrict", 1)
	one("GetBytess", "getBytessLoopStrict", 1)
	one("path", "pathLoopsStrict", 2)

	// setPath: order of Remove vs. validation and size check (top-level statements)
	sp := funcDecl(f, "", "setPath")
	removeIdx, sizeIdx, fitIdx := -1, -1, -1
	for i, st := range sp.Body.List {
		switch s := st.(type) {
		case *ast.AssignStmt:
			if containsCall(s, "Remove") && removeIdx < 0 {
				removeIdx = i
			}
			if containsCall(s, "GetPathBufferSize") && sizeIdx < 0 {
				sizeIdx = i
			}
		case *ast.IfStmt:
			if be, ok := s.Cond.(*ast.BinaryExpr); ok && be.Op == token.GTR && identName(be.X) == "requiredSize" && returnsErr(s.Body, "ErrTooSmall") {
				fitIdx = i
			}
		}
	}
	if removeIdx < 0 || sizeIdx < 0 || fitIdx < 0 {
		fail("setPath: expected top-level `o := options.Remove(..)`, `requiredSize, err := GetPathBufferSize(..)` and `if requiredSize > len(buf) { return .., ErrTooSmall }` (found %d %d %d)", removeIdx, sizeIdx, fitIdx)
	}
	fmt.Fprintf(&b, "/-- message/options.go: setPath: `options.Remove(optionID)` comes after GetPathBufferSize and the `requiredSize > len(buf)` check (statement order read from the AST) -/\ndef setPathValidatesBeforeRemove : Bool := %s\n",
		boolLean(removeIdx > sizeIdx && removeIdx > fitIdx))

	// ResetOptionsTo: a top-level ErrTooSmall return before `opts := options[:0]`
	ro := funcDecl(f, "Options", "ResetOptionsTo")
	optsIdx, checkIdx := -1, -1
	for i, st := range ro.Body.List {
		switch s := st.(type) {
		case *ast.AssignStmt:
			if len(s.Lhs) == 1 && identName(s.Lhs[0]) == "opts" && len(s.Rhs) == 1 {
				if se, ok := s.Rhs[0].(*ast.SliceExpr); ok && identName(se.X) == "options" && optsIdx < 0 {
					optsIdx = i
				}
			}
		case *ast.IfStmt:
			if returnsErr(s.Body, "ErrTooSmall") && checkIdx < 0 {
				checkIdx = i
			}
		}
	}
	if optsIdx < 0 {
		fail("ResetOptionsTo: expected top-level `opts := options[:0]`")
	}
	if !returnsErr(ro.Body, "ErrTooSmall") {
		fail("ResetOptionsTo: no `ErrTooSmall` return at all")
	}
	fmt.Fprintf(&b, "/-- message/options.go: ResetOptionsTo: the size check (`return options, used, ErrTooSmall`) is a top-level statement that precedes `opts := options[:0]` (read from the AST) -/\ndef resetChecksSizeBeforeOverwrite : Bool := %s\n",
		boolLean(checkIdx >= 0 && checkIdx < optsIdx))
	// glue: how the library's own users of the option list copy / reset it
	_, fo := parseFile(repo, "net/observation/handler.go")
	no := funcDecl(fo, "Handler", "NewObservation")
	clones, found := false, false
	for _, st := range no.Body.List {
		as, ok := st.(*ast.AssignStmt)
		if !ok || len(as.Lhs) < 1 || identName(as.Lhs[0]) != "options" {
			continue
		}
		found = true
		clones = containsCall(as, "Clone")
	}
	if !found {
		fail("NewObservation: no top-level assignment to `options`")
	}
	fmt.Fprintf(&b, "/-- net/observation/handler.go: NewObservation: the request's options kept by the observation come from a `.Clone()` call (read from the AST) -/\ndef observationClonesOptions : Bool := %s\n", boolLean(clones))
	_, fr := parseFile(repo, "net/responsewriter/responseWriter.go")
	sr := funcDecl(fr, "ResponseWriter", "SetResponse")
	top, any := false, containsCall(sr.Body, "ResetOptionsTo")
	for _, st := range sr.Body.List {
		if es, ok := st.(*ast.ExprStmt); ok && containsCall(es, "ResetOptionsTo") {
			top = true
		}
	}
	if !any {
		fail("SetResponse: no call of ResetOptionsTo")
	}
	fmt.Fprintf(&b, "/-- net/responsewriter/responseWriter.go: SetResponse: `ResetOptionsTo(opts)` is an unconditional top-level statement (read from the AST) -/\ndef setResponseAlwaysResets : Bool := %s\n", boolLean(top))
	_, fc := parseFile(repo, "net/client/client.go")
	nor := funcDecl(fc, "Client", "NewObserveRequest")
	if !containsCall(nor.Body, "NewGetRequest") {
		fail("NewObserveRequest: no call of NewGetRequest")
	}
	fmt.Fprintf(&b, "/-- net/client/client.go: NewObserveRequest: the Observe option is put on the built request with `SetObserve` (set semantics; read from the AST) -/\ndef newObserveRequestSetsObserve : Bool := %s\n", boolLean(containsCall(nor.Body, "SetObserve")))
	b.WriteString("\nend CoapVerif.Generated.OptionListShape\n")
	g.write("OptionListShape.lean", b.String())
}
