package main

// gen_router_lockshape.go — C17 translator tie.
//
// Reads mux/*.go (non-test, non-verif) with go/ast and emits Generated/RouterLockShape.lean:
//
//   - routerFields: the fields of struct Router;
//   - accesses: every access `<router>.<field>` (field other than the mutex `m` itself) in every function of package
//     mux, with the function it occurs in (function literals are separate pseudo-functions `<outer>.funcN`, since they
//     run later), whether it is a write (assignment target, map-element assignment, delete(), ++/--) and which lock on
//     `<router>.m` is held at that statement (none | r | w);
//   - calls: every call of a Router method on the same router with the lock held at the call;
//   - lockingFns: the functions that acquire the mutex;
//   - defaultPatternText: the literal assigned to `defaultPattern` in newRouteRegexp;
//   - emptyPathReplacement: what FilterPath returns for "" (recognised shape: `if x == "" { return LIT }; return x`);
//   - toHandlerRouteParamsExpr / toHandlerFreshRouteParams: what ToHandler puts into the `RouteParams` field of the
//     per-request mux.Message, and whether that is an object built for this request alone;
//   - muxApplyDirect: for every options.MuxHandlerOpt.<X>Apply whether it installs `mux.ToHandler[…](o.m)` itself;
//   - uriPathOptionID: the number of the Uri-Path option;
//   - optionDeltaBaseIsComputedNumber: what the loop of message.Options.Unmarshal takes as the base of the next option's delta;
//   - observationCleansUpOnEveryError / discoveryCleansUpOnFailedWrite: the two token tables that are consulted BEFORE the
//     configured handler (observation table of a connection, multicast table of a udp server) drop the token of an
//     exchange on every failing exit.
//
// Lock tracking is deliberately simple and fails closed: Lock/RLock/Unlock/RUnlock must be top-level statements of the
// function body (or `defer … Unlock()` directly after the Lock), never nested in if/for/switch/closures; a `return`
// anywhere while a lock is held without a deferred unlock fails; a function must end unlocked (or with the unlock
// deferred); taking the address of a guarded field, or reaching a Router field through anything other than a known
// router identifier (receiver, or a local bound to `&Router{…}`), fails.

import (
	"fmt"
	"go/ast"
	"go/printer"
	"go/token"
	"os"
	"path/filepath"
	"sort"
	"strconv"
	"strings"
)

func init() {
	register("RouterLockShape.lean", genRouterLockShape)
}

type rlAccess struct {
	fn, field string
	write     bool
	lock      string
	whole     bool // a write that replaces the whole field (`r.z = …`) rather than an element of it (`r.z[k] = …`, delete)
}

type rlCall struct {
	fn, callee, lock string
}

type rlState struct {
	fields     map[string]bool
	methods    map[string]bool
	accesses   []rlAccess
	calls      []rlCall
	lockingFns map[string]bool
}

func rlLeanStr(s string) string {
	for _, r := range s {
		if r < 0x20 || r > 0x7e {
			fail("RouterLockShape: non-printable character in extracted string %q", s)
		}
	}
	return strconv.Quote(s)
}

func genRouterLockShape(g *gen, repo string) {
	dir := filepath.Join(repo, "mux")
	ents, err := os.ReadDir(dir)
	if err != nil {
		fail("RouterLockShape: %v", err)
	}
	var files []string
	for _, e := range ents {
		n := e.Name()
		if e.IsDir() || !strings.HasSuffix(n, ".go") || strings.HasSuffix(n, "_test.go") || strings.HasSuffix(n, "_verif.go") {
			continue
		}
		files = append(files, n)
	}
	sort.Strings(files)
	st := &rlState{fields: map[string]bool{}, methods: map[string]bool{}, lockingFns: map[string]bool{}}
	var parsed []*ast.File
	for _, n := range files {
		_, f := parseFile(repo, filepath.Join("mux", n))
		parsed = append(parsed, f)
	}
	// struct Router
	var fieldOrder []string
	found := false
	for _, f := range parsed {
		for _, d := range f.Decls {
			gd, ok := d.(*ast.GenDecl)
			if !ok || gd.Tok != token.TYPE {
				continue
			}
			for _, sp := range gd.Specs {
				ts := sp.(*ast.TypeSpec)
				if ts.Name.Name != "Router" {
					continue
				}
				stt, ok := ts.Type.(*ast.StructType)
				if !ok {
					fail("RouterLockShape: Router is not a struct")
				}
				found = true
				for _, fl := range stt.Fields.List {
					if len(fl.Names) == 0 {
						fail("RouterLockShape: embedded field in Router")
					}
					for _, nm := range fl.Names {
						st.fields[nm.Name] = true
						fieldOrder = append(fieldOrder, nm.Name)
					}
				}
			}
		}
	}
	if !found || !st.fields["m"] {
		fail("RouterLockShape: struct Router with mutex field m not found")
	}
	// method set of Router
	for _, f := range parsed {
		for _, d := range f.Decls {
			if fd, ok := d.(*ast.FuncDecl); ok && fd.Recv != nil && len(fd.Recv.List) == 1 && recvTypeName(fd.Recv.List[0].Type) == "Router" {
				st.methods[fd.Name.Name] = true
			}
		}
	}
	for _, f := range parsed {
		for _, d := range f.Decls {
			fd, ok := d.(*ast.FuncDecl)
			if !ok || fd.Body == nil {
				continue
			}
			name := fd.Name.Name
			routers := map[string]bool{}
			if fd.Recv != nil && len(fd.Recv.List) == 1 {
				if recvTypeName(fd.Recv.List[0].Type) == "Router" {
					if len(fd.Recv.List[0].Names) == 1 {
						routers[fd.Recv.List[0].Names[0].Name] = true
					}
				} else {
					name = recvTypeName(fd.Recv.List[0].Type) + "." + name
				}
			}
			// parameters of type *Router / Router
			if fd.Type.Params != nil {
				for _, p := range fd.Type.Params.List {
					if recvTypeName(p.Type) == "Router" {
						for _, nm := range p.Names {
							routers[nm.Name] = true
						}
					}
				}
			}
			// locals bound to &Router{…}
			ast.Inspect(fd.Body, func(n ast.Node) bool {
				as, ok := n.(*ast.AssignStmt)
				if !ok || len(as.Lhs) != 1 || len(as.Rhs) != 1 {
					return true
				}
				if u, ok := as.Rhs[0].(*ast.UnaryExpr); ok && u.Op == token.AND {
					if cl, ok := u.X.(*ast.CompositeLit); ok && identName(cl.Type) == "Router" {
						if id := identName(as.Lhs[0]); id != "" {
							routers[id] = true
						}
					}
				}
				return true
			})
			w := &rlWalker{st: st, fn: name, routers: routers}
			w.walkBody(fd.Body)
		}
	}
	sort.SliceStable(st.accesses, func(i, j int) bool {
		a, b := st.accesses[i], st.accesses[j]
		if a.fn != b.fn {
			return a.fn < b.fn
		}
		return false
	})
	sort.SliceStable(st.calls, func(i, j int) bool { return st.calls[i].fn < st.calls[j].fn })

	defPat := rlDefaultPattern(repo)
	empty := rlFilterPath(repo)
	rpFresh, rpExpr := rlToHandlerRouteParams(repo)
	applies := rlMuxApplies(repo)
	uriPathID := rlOptionIDConst(repo, "URIPath")
	obsCleanup := rlObservationCleanup(repo)
	useAppends := rlUseAppends(repo)
	deltaBaseComputed := rlOptionDeltaBase(repo)
	discCleanup := rlDiscoveryCleanup(repo)

	var b strings.Builder
	b.WriteString("namespace CoapVerif.Generated.RouterLockShape\n\n")
	b.WriteString("inductive Lock\n  | none | r | w\n  deriving DecidableEq, Repr\n\n")
	b.WriteString("structure Access where\n  fn : String\n  field : String\n  write : Bool\n  lock : Lock\n  /-- a write that replaces the whole field (`r.z = …`) instead of updating it in place (`r.z[k] = …`, `delete(r.z, k)`) -/\n  whole : Bool\n  deriving DecidableEq, Repr\n\n")
	b.WriteString("structure Call where\n  fn : String\n  callee : String\n  lock : Lock\n  deriving DecidableEq, Repr\n\n")
	b.WriteString("/-- mux/router.go: fields of struct Router (AST) -/\n")
	b.WriteString("def routerFields : List String := " + natList(fieldOrder, rlLeanStr) + "\n\n")
	b.WriteString("/-- every access to a Router field other than the mutex, in source order per function (AST of mux/*.go) -/\n")
	b.WriteString("def accesses : List Access := [\n")
	for i, a := range st.accesses {
		sep := ","
		if i == len(st.accesses)-1 {
			sep = ""
		}
		fmt.Fprintf(&b, "  ⟨%s, %s, %v, .%s, %v⟩%s\n", rlLeanStr(a.fn), rlLeanStr(a.field), a.write, a.lock, a.whole, sep)
	}
	b.WriteString("]\n\n")
	b.WriteString("/-- calls of Router methods on the same router, with the lock held at the call -/\n")
	b.WriteString("def calls : List Call := [\n")
	for i, c := range st.calls {
		sep := ","
		if i == len(st.calls)-1 {
			sep = ""
		}
		fmt.Fprintf(&b, "  ⟨%s, %s, .%s⟩%s\n", rlLeanStr(c.fn), rlLeanStr(c.callee), c.lock, sep)
	}
	b.WriteString("]\n\n")
	var lf []string
	for k := range st.lockingFns {
		lf = append(lf, k)
	}
	sort.Strings(lf)
	b.WriteString("/-- functions that acquire Router.m -/\n")
	b.WriteString("def lockingFns : List String := " + natList(lf, rlLeanStr) + "\n\n")
	b.WriteString("/-- mux/regexp.go newRouteRegexp: `defaultPattern := …` -/\n")
	b.WriteString("def defaultPatternText : String := " + rlLeanStr(defPat) + "\n\n")
	b.WriteString("/-- mux/router.go FilterPath: the value returned for the empty string -/\n")
	b.WriteString("def emptyPathReplacement : String := " + rlLeanStr(empty) + "\n\n")
	b.WriteString("/-- mux/muxResponseWriter.go ToHandler: the expression given as `RouteParams:` of the per-request mux.Message (AST) -/\n")
	b.WriteString("def toHandlerRouteParamsExpr : String := " + rlLeanStr(rpExpr) + "\n\n")
	b.WriteString("/-- … is it an object built for this request alone (`new(RouteParams)` or `&RouteParams{}`)? -/\n")
	fmt.Fprintf(&b, "def toHandlerFreshRouteParams : Bool := %v\n\n", rpFresh)
	b.WriteString("/-- options/commonOptions.go: every `MuxHandlerOpt.<X>Apply` with whether its body is exactly\n    `cfg.Handler = mux.ToHandler[…](o.m)` — the router adapter installed directly, nothing in between (AST) -/\n")
	b.WriteString("def muxApplyDirect : List (String × Bool) := " + natList(applies, func(a rlApply) string {
		return fmt.Sprintf("(%s, %v)", rlLeanStr(a.name), a.direct)
	}) + "\n\n")
	b.WriteString("/-- message/option.go: `URIPath OptionID = …` (AST) -/\n")
	fmt.Fprintf(&b, "def uriPathOptionID : Nat := %d\n\n", uriPathID)
	b.WriteString("/-- net/observation/handler.go NewObservation: after the token was stored and the clean-up was deferred (it runs iff the\n    function's `err` variable is non-nil), does EVERY `return nil, X` hand back that variable itself, so that no failing\n    registration keeps its token in the table the connection consults before its handler (AST) -/\n")
	fmt.Fprintf(&b, "def observationCleansUpOnEveryError : Bool := %v\n\n", obsCleanup)
	b.WriteString("/-- udp/server/discover.go DiscoveryRequest: are the removals from multicastHandler and multicastRequests deferred BEFORE the\n    first statement that writes the datagram (so that a failed write leaves no token in the server-wide table every\n    connection's handler consults before the configured one) (AST) -/\n")
	fmt.Fprintf(&b, "def discoveryCleansUpOnFailedWrite : Bool := %v\n\n", discCleanup)
	b.WriteString("/-- mux/middleware.go Router.Use: is the body exactly `r.middlewares = append(r.middlewares, mwf...)` — the router's chain lives in\n    the router's own slice and never adopts the caller's variadic slice (AST) -/\n")
	fmt.Fprintf(&b, "def useAppendsToOwnSlice : Bool := %v\n\n", useAppends)
	b.WriteString("/-- message/options.go Options.Unmarshal: the loop computes `oid := SafeCastTo[OptionID](prev + delta)` and ends with the only\n    assignment to `prev`; true = it assigns the computed number (`prev = int(oid)`), false = it assigns the ID of the decoded option\n    object (`prev = option.ID`, which Option.Unmarshal leaves at 0 when it skips the option); other shapes fail closed (AST) -/\n")
	fmt.Fprintf(&b, "def optionDeltaBaseIsComputedNumber : Bool := %v\n\n", deltaBaseComputed)
	b.WriteString("end CoapVerif.Generated.RouterLockShape\n")
	g.write("RouterLockShape.lean", b.String())
}

type rlWalker struct {
	st       *rlState
	fn       string
	routers  map[string]bool
	held     string // "" | "r" | "w"
	deferred bool
	nlit     int
}

func (w *rlWalker) failf(format string, a ...any) {
	fail("RouterLockShape %s: %s", w.fn, fmt.Sprintf(format, a...))
}

// mutexCall recognises <router>.m.<Lock|Unlock|RLock|RUnlock>().
func (w *rlWalker) mutexCall(e ast.Expr) string {
	c, ok := e.(*ast.CallExpr)
	if !ok {
		return ""
	}
	sel, ok := c.Fun.(*ast.SelectorExpr)
	if !ok {
		return ""
	}
	in, ok := sel.X.(*ast.SelectorExpr)
	if !ok || in.Sel.Name != "m" || !w.routers[identName(in.X)] {
		return ""
	}
	switch sel.Sel.Name {
	case "Lock", "Unlock", "RLock", "RUnlock":
		if len(c.Args) != 0 {
			w.failf("mutex call with arguments")
		}
		return sel.Sel.Name
	}
	w.failf("unknown use of the mutex: .m.%s", sel.Sel.Name)
	return ""
}

func (w *rlWalker) lockName() string {
	if w.held == "" {
		return "none"
	}
	return w.held
}

func (w *rlWalker) walkBody(body *ast.BlockStmt) {
	for _, s := range body.List {
		switch t := s.(type) {
		case *ast.ExprStmt:
			if k := w.mutexCall(t.X); k != "" {
				w.lockOp(k)
				continue
			}
		case *ast.DeferStmt:
			if k := w.mutexCall(t.Call); k != "" {
				switch {
				case k == "Unlock" && w.held == "w" && !w.deferred, k == "RUnlock" && w.held == "r" && !w.deferred:
					w.deferred = true
				default:
					w.failf("defer .m.%s while holding %q", k, w.held)
				}
				continue
			}
		}
		w.scanStmt(s)
	}
	if w.held != "" && !w.deferred {
		w.failf("function ends with the lock held and no deferred unlock")
	}
}

func (w *rlWalker) lockOp(k string) {
	switch k {
	case "Lock", "RLock":
		if w.held != "" {
			w.failf("%s while holding %q", k, w.held)
		}
		w.held = map[string]string{"Lock": "w", "RLock": "r"}[k]
		w.st.lockingFns[w.fn] = true
	case "Unlock", "RUnlock":
		want := map[string]string{"Unlock": "w", "RUnlock": "r"}[k]
		if w.held != want || w.deferred {
			w.failf("%s while holding %q (deferred=%v)", k, w.held, w.deferred)
		}
		w.held = ""
	}
}

// scanStmt records the accesses of one top-level statement (at the current lock state). Nested mutex operations and
// returns with a non-deferred lock fail closed. Function literals are analysed as separate pseudo-functions.
func (w *rlWalker) scanStmt(s ast.Stmt) {
	writes := map[ast.Expr]bool{}
	wholes := map[ast.Expr]bool{}
	markWrite := func(e ast.Expr) {
		e = unparen(e)
		if ix, ok := e.(*ast.IndexExpr); ok {
			e = unparen(ix.X)
		} else {
			wholes[e] = true
		}
		writes[e] = true
	}
	markElemWrite := func(e ast.Expr) {
		writes[unparen(e)] = true
	}
	var lits []*ast.FuncLit
	ast.Inspect(s, func(n ast.Node) bool {
		switch t := n.(type) {
		case *ast.FuncLit:
			lits = append(lits, t)
			return false
		case *ast.AssignStmt:
			for _, l := range t.Lhs {
				markWrite(l)
			}
		case *ast.IncDecStmt:
			markWrite(t.X)
		case *ast.UnaryExpr:
			if t.Op == token.AND {
				if sel, ok := unparen(t.X).(*ast.SelectorExpr); ok && w.routers[identName(sel.X)] && w.st.fields[sel.Sel.Name] {
					w.failf("address of guarded field %s taken", sel.Sel.Name)
				}
			}
		case *ast.CallExpr:
			if identName(t.Fun) == "delete" && len(t.Args) == 2 {
				markElemWrite(t.Args[0])
			}
			if w.mutexCall(t) != "" {
				w.failf("mutex operation nested inside a statement")
			}
			if sel, ok := t.Fun.(*ast.SelectorExpr); ok && w.routers[identName(sel.X)] && w.st.methods[sel.Sel.Name] {
				w.st.calls = append(w.st.calls, rlCall{w.fn, sel.Sel.Name, w.lockName()})
			}
		case *ast.ReturnStmt:
			if w.held != "" && !w.deferred {
				w.failf("return while holding the lock without a deferred unlock")
			}
		}
		return true
	})
	ast.Inspect(s, func(n ast.Node) bool {
		switch t := n.(type) {
		case *ast.FuncLit:
			return false
		case *ast.SelectorExpr:
			if w.st.fields[t.Sel.Name] {
				base := identName(t.X)
				if w.routers[base] {
					if t.Sel.Name != "m" {
						w.st.accesses = append(w.st.accesses, rlAccess{w.fn, t.Sel.Name, writes[ast.Expr(t)], w.lockName(), wholes[ast.Expr(t)]})
					}
					return false
				}
				// a field name of Router reached through something that is not a known router identifier:
				// accept only if the base is a plain identifier that is certainly not a Router (declared otherwise)
				w.failf("field %s accessed through %T (not a known router identifier)", t.Sel.Name, t.X)
			}
		case *ast.KeyValueExpr:
			// composite literal &Router{field: …}: keys are identifiers, not selector expressions
		}
		return true
	})
	for _, l := range lits {
		w.nlit++
		sub := &rlWalker{st: w.st, fn: fmt.Sprintf("%s.func%d", w.fn, w.nlit), routers: w.routers}
		sub.walkBody(l.Body)
	}
}

func rlDefaultPattern(repo string) string {
	_, f := parseFile(repo, "mux/regexp.go")
	fd := funcDecl(f, "", "newRouteRegexp")
	var out []string
	ast.Inspect(fd.Body, func(n ast.Node) bool {
		as, ok := n.(*ast.AssignStmt)
		if ok && len(as.Lhs) == 1 && identName(as.Lhs[0]) == "defaultPattern" {
			if len(as.Rhs) != 1 {
				fail("RouterLockShape: defaultPattern assignment shape")
			}
			bl, ok := as.Rhs[0].(*ast.BasicLit)
			if !ok || bl.Kind != token.STRING {
				fail("RouterLockShape: defaultPattern is not a string literal")
			}
			v, err := strconv.Unquote(bl.Value)
			if err != nil {
				fail("RouterLockShape: defaultPattern literal: %v", err)
			}
			out = append(out, v)
		}
		return true
	})
	if len(out) != 1 {
		fail("RouterLockShape: expected exactly one assignment to defaultPattern, found %d", len(out))
	}
	return out[0]
}

// rlToHandlerRouteParams recognises in ToHandler the single call `<m>.ServeCOAP(<w>, &Message{…, RouteParams: X})` and
// reports whether X is an object built for this request alone. Any other shape of the call fails closed.
func rlToHandlerRouteParams(repo string) (bool, string) {
	fset, f := parseFile(repo, "mux/muxResponseWriter.go")
	fd := funcDecl(f, "", "ToHandler")
	var calls []*ast.CallExpr
	ast.Inspect(fd.Body, func(n ast.Node) bool {
		if c, ok := n.(*ast.CallExpr); ok {
			if sel, ok := c.Fun.(*ast.SelectorExpr); ok && sel.Sel.Name == "ServeCOAP" {
				calls = append(calls, c)
			}
		}
		return true
	})
	if len(calls) != 1 || len(calls[0].Args) != 2 {
		fail("RouterLockShape: ToHandler: expected exactly one call of ServeCOAP with two arguments, found %d", len(calls))
	}
	u, ok := calls[0].Args[1].(*ast.UnaryExpr)
	if !ok || u.Op != token.AND {
		fail("RouterLockShape: ToHandler: the request is not `&Message{…}`")
	}
	cl, ok := u.X.(*ast.CompositeLit)
	if !ok || identName(cl.Type) != "Message" {
		fail("RouterLockShape: ToHandler: the request is not `&Message{…}`")
	}
	var val ast.Expr
	for _, el := range cl.Elts {
		kv, ok := el.(*ast.KeyValueExpr)
		if !ok {
			fail("RouterLockShape: ToHandler: Message literal without field names")
		}
		if identName(kv.Key) == "RouteParams" {
			if val != nil {
				fail("RouterLockShape: ToHandler: RouteParams given twice")
			}
			val = kv.Value
		}
	}
	if val == nil {
		fail("RouterLockShape: ToHandler: Message literal has no RouteParams field")
	}
	var sb strings.Builder
	if err := printer.Fprint(&sb, fset, val); err != nil {
		fail("RouterLockShape: ToHandler: cannot print the RouteParams expression: %v", err)
	}
	fresh := false
	switch t := val.(type) {
	case *ast.CallExpr:
		fresh = identName(t.Fun) == "new" && len(t.Args) == 1 && identName(t.Args[0]) == "RouteParams"
	case *ast.UnaryExpr:
		if c, ok := t.X.(*ast.CompositeLit); ok && t.Op == token.AND {
			fresh = identName(c.Type) == "RouteParams" && len(c.Elts) == 0
		}
	}
	return fresh, sb.String()
}

func rlContainsCall(n ast.Node, recvField, method string) bool {
	found := false
	ast.Inspect(n, func(x ast.Node) bool {
		c, ok := x.(*ast.CallExpr)
		if !ok {
			return true
		}
		sel, ok := c.Fun.(*ast.SelectorExpr)
		if !ok || sel.Sel.Name != method {
			return true
		}
		if recvField == "" {
			found = true
			return true
		}
		if in, ok := sel.X.(*ast.SelectorExpr); ok && in.Sel.Name == recvField {
			found = true
		}
		return true
	})
	return found
}

// rlObservationCleanup: in Handler.NewObservation find the top-level `defer func(err *error) { if *err != nil { o.cleanUp() } }(&err)`
// that follows the LoadOrStore of the token; every return statement after it whose second result is not the literal
// nil must return the identifier `err` (the variable the deferred function looks at).
func rlObservationCleanup(repo string) bool {
	_, f := parseFile(repo, "net/observation/handler.go")
	fd := funcDecl(f, "Handler", "NewObservation")
	deferIdx, storeIdx := -1, -1
	for i, st := range fd.Body.List {
		if storeIdx < 0 && rlContainsCall(st, "observations", "LoadOrStore") {
			storeIdx = i
		}
		if d, ok := st.(*ast.DeferStmt); ok && deferIdx < 0 && rlContainsCall(d, "", "cleanUp") {
			// the argument must be &err
			if len(d.Call.Args) != 1 {
				fail("RouterLockShape: NewObservation: deferred clean-up does not take one argument")
			}
			u, ok := d.Call.Args[0].(*ast.UnaryExpr)
			if !ok || u.Op != token.AND || identName(u.X) != "err" {
				fail("RouterLockShape: NewObservation: deferred clean-up is not given &err")
			}
			deferIdx = i
		}
	}
	if storeIdx < 0 || deferIdx < 0 || deferIdx < storeIdx {
		fail("RouterLockShape: NewObservation: `observations.LoadOrStore` followed by a deferred clean-up not found")
	}
	ok := true
	for _, st := range fd.Body.List[deferIdx+1:] {
		ast.Inspect(st, func(n ast.Node) bool {
			if _, isLit := n.(*ast.FuncLit); isLit {
				return false
			}
			r, isRet := n.(*ast.ReturnStmt)
			if !isRet {
				return true
			}
			if len(r.Results) != 2 {
				fail("RouterLockShape: NewObservation: return without two results")
			}
			if identName(r.Results[1]) != "nil" && identName(r.Results[1]) != "err" {
				ok = false
			}
			return true
		})
	}
	return ok
}

// rlDiscoveryCleanup: among the top-level statements of Server.DiscoveryRequest the deferred removals from
// multicastHandler (LoadAndDelete) and multicastRequests (Delete) must both come before the first statement that calls
// WriteMulticast / WriteWithContext.
func rlDiscoveryCleanup(repo string) bool {
	_, f := parseFile(repo, "udp/server/discover.go")
	fd := funcDecl(f, "Server", "DiscoveryRequest")
	store, write, delH, delR := -1, -1, -1, -1
	for i, st := range fd.Body.List {
		if store < 0 && rlContainsCall(st, "multicastHandler", "LoadOrStore") {
			store = i
		}
		if write < 0 && (rlContainsCall(st, "", "WriteMulticast") || rlContainsCall(st, "", "WriteWithContext")) {
			write = i
		}
		if d, ok := st.(*ast.DeferStmt); ok {
			if delH < 0 && rlContainsCall(d, "multicastHandler", "LoadAndDelete") {
				delH = i
			}
			if delR < 0 && rlContainsCall(d, "multicastRequests", "Delete") {
				delR = i
			}
		}
	}
	if store < 0 || write < 0 || write < store {
		fail("RouterLockShape: DiscoveryRequest: `multicastHandler.LoadOrStore` followed by a write of the datagram not found")
	}
	return delH > store && delH < write && delR > store && delR < write
}

// rlUseAppends: Router.Use(mwf ...MiddlewareFunc) consists of the single statement `<r>.middlewares = append(<r>.middlewares, <mwf>...)`.
func rlUseAppends(repo string) bool {
	_, f := parseFile(repo, "mux/middleware.go")
	fd := funcDecl(f, "Router", "Use")
	if len(fd.Recv.List[0].Names) != 1 || fd.Type.Params == nil || len(fd.Type.Params.List) != 1 || len(fd.Type.Params.List[0].Names) != 1 {
		fail("RouterLockShape: Router.Use: receiver/parameter shape")
	}
	recv := fd.Recv.List[0].Names[0].Name
	param := fd.Type.Params.List[0].Names[0].Name
	if len(fd.Body.List) != 1 {
		return false
	}
	as, ok := fd.Body.List[0].(*ast.AssignStmt)
	if !ok || as.Tok != token.ASSIGN || len(as.Lhs) != 1 || len(as.Rhs) != 1 {
		return false
	}
	isField := func(e ast.Expr) bool {
		sel, ok := e.(*ast.SelectorExpr)
		return ok && sel.Sel.Name == "middlewares" && identName(sel.X) == recv
	}
	call, ok := as.Rhs[0].(*ast.CallExpr)
	return isField(as.Lhs[0]) && ok && identName(call.Fun) == "append" && len(call.Args) == 2 && call.Ellipsis.IsValid() &&
		isField(call.Args[0]) && identName(call.Args[1]) == param
}

// rlOptionDeltaBase looks at the decoding loop of message/options.go Options.Unmarshal.  Recognised shape: one `for` loop whose
// body contains `<oid>, err := math.SafeCastTo[OptionID](<prev> + delta)` (or `int(<prev>) + delta`), one call
// `<opt>.Unmarshal(…, <oid>)`, and exactly one assignment to <prev>, which is the last statement of the loop body.
// Result: true if that assignment is `<prev> = int(<oid>)` / `<prev> = <oid>`, false if it is `<prev> = <opt>.ID` /
// `<prev> = int(<opt>.ID)`; everything else fails closed.
func rlOptionDeltaBase(repo string) bool {
	_, f := parseFile(repo, "message/options.go")
	fd := funcDecl(f, "Options", "Unmarshal")
	var loop *ast.ForStmt
	for _, s := range fd.Body.List {
		if fs, ok := s.(*ast.ForStmt); ok {
			if loop != nil {
				fail("RouterLockShape: Options.Unmarshal: more than one loop")
			}
			loop = fs
		}
	}
	if loop == nil || len(loop.Body.List) == 0 {
		fail("RouterLockShape: Options.Unmarshal: no decoding loop")
	}
	last, ok := loop.Body.List[len(loop.Body.List)-1].(*ast.AssignStmt)
	if !ok || last.Tok != token.ASSIGN || len(last.Lhs) != 1 || len(last.Rhs) != 1 || identName(last.Lhs[0]) == "" {
		fail("RouterLockShape: Options.Unmarshal: the loop does not end with `prev = …`")
	}
	prev := identName(last.Lhs[0])
	unwrapInt := func(e ast.Expr) ast.Expr {
		if c, ok := e.(*ast.CallExpr); ok && identName(c.Fun) == "int" && len(c.Args) == 1 {
			return c.Args[0]
		}
		return e
	}
	oid, opt := "", ""
	assigns := 0
	ast.Inspect(loop.Body, func(n ast.Node) bool {
		switch t := n.(type) {
		case *ast.AssignStmt:
			for _, l := range t.Lhs {
				if identName(l) == prev {
					assigns++
				}
			}
			if len(t.Rhs) != 1 {
				return true
			}
			call, ok := t.Rhs[0].(*ast.CallExpr)
			if !ok {
				return true
			}
			fun := call.Fun
			if ix, ok := fun.(*ast.IndexExpr); ok {
				fun = ix.X
			}
			if sel, ok := fun.(*ast.SelectorExpr); ok && sel.Sel.Name == "SafeCastTo" && len(call.Args) == 1 && len(t.Lhs) == 2 {
				be, ok := call.Args[0].(*ast.BinaryExpr)
				if !ok || be.Op != token.ADD || identName(unwrapInt(be.X)) != prev || identName(be.Y) != "delta" || oid != "" {
					fail("RouterLockShape: Options.Unmarshal: option number is not `SafeCastTo(%s + delta)`", prev)
				}
				oid = identName(t.Lhs[0])
			}
			if sel, ok := fun.(*ast.SelectorExpr); ok && sel.Sel.Name == "Unmarshal" && identName(sel.X) != "" && len(call.Args) == 3 {
				if opt != "" || oid == "" || identName(call.Args[2]) != oid {
					fail("RouterLockShape: Options.Unmarshal: the option is not decoded under the computed number")
				}
				opt = identName(sel.X)
			}
		case *ast.IncDecStmt:
			if identName(t.X) == prev {
				assigns++
			}
		}
		return true
	})
	if oid == "" || opt == "" || assigns != 1 {
		fail("RouterLockShape: Options.Unmarshal: loop shape not recognised (oid=%q option=%q assignments to %s: %d)", oid, opt, prev, assigns)
	}
	rhs := unwrapInt(last.Rhs[0])
	if identName(rhs) == oid {
		return true
	}
	if sel, ok := rhs.(*ast.SelectorExpr); ok && identName(sel.X) == opt && sel.Sel.Name == "ID" {
		return false
	}
	fail("RouterLockShape: Options.Unmarshal: delta base `%s = …` is neither the computed number nor the decoded option's ID", prev)
	return false
}

type rlApply struct {
	name   string
	direct bool
}

// rlMuxApplies lists the methods `MuxHandlerOpt.<X>Apply(cfg …)`. Each must consist of the single statement
// `cfg.Handler = <expr>` (anything else fails closed); direct = <expr> is `mux.ToHandler[…](<recv>.m)`.
func rlMuxApplies(repo string) []rlApply {
	_, f := parseFile(repo, "options/commonOptions.go")
	var out []rlApply
	for _, d := range f.Decls {
		fd, ok := d.(*ast.FuncDecl)
		if !ok || fd.Recv == nil || len(fd.Recv.List) != 1 || recvTypeName(fd.Recv.List[0].Type) != "MuxHandlerOpt" {
			continue
		}
		if !strings.HasSuffix(fd.Name.Name, "Apply") {
			fail("RouterLockShape: MuxHandlerOpt has a method %s that is not an …Apply", fd.Name.Name)
		}
		if len(fd.Recv.List[0].Names) != 1 || fd.Type.Params == nil || len(fd.Type.Params.List) != 1 || len(fd.Type.Params.List[0].Names) != 1 {
			fail("RouterLockShape: MuxHandlerOpt.%s: receiver/parameter shape", fd.Name.Name)
		}
		recv := fd.Recv.List[0].Names[0].Name
		cfg := fd.Type.Params.List[0].Names[0].Name
		if fd.Body == nil || len(fd.Body.List) != 1 {
			fail("RouterLockShape: MuxHandlerOpt.%s: body is not a single statement", fd.Name.Name)
		}
		as, ok := fd.Body.List[0].(*ast.AssignStmt)
		if !ok || as.Tok != token.ASSIGN || len(as.Lhs) != 1 || len(as.Rhs) != 1 {
			fail("RouterLockShape: MuxHandlerOpt.%s: body is not `cfg.Handler = …`", fd.Name.Name)
		}
		lhs, ok := as.Lhs[0].(*ast.SelectorExpr)
		if !ok || lhs.Sel.Name != "Handler" || identName(lhs.X) != cfg {
			fail("RouterLockShape: MuxHandlerOpt.%s: body is not `cfg.Handler = …`", fd.Name.Name)
		}
		direct := false
		if call, ok := as.Rhs[0].(*ast.CallExpr); ok && len(call.Args) == 1 {
			fun := call.Fun
			switch t := fun.(type) {
			case *ast.IndexExpr:
				fun = t.X
			case *ast.IndexListExpr:
				fun = t.X
			}
			if sel, ok := fun.(*ast.SelectorExpr); ok && identName(sel.X) == "mux" && sel.Sel.Name == "ToHandler" {
				if arg, ok := call.Args[0].(*ast.SelectorExpr); ok && identName(arg.X) == recv && arg.Sel.Name == "m" {
					direct = true
				}
			}
		}
		out = append(out, rlApply{fd.Name.Name, direct})
	}
	if len(out) == 0 {
		fail("RouterLockShape: no MuxHandlerOpt.…Apply method found")
	}
	sort.Slice(out, func(i, j int) bool { return out[i].name < out[j].name })
	return out
}

// rlOptionIDConst reads `<name> OptionID = <int>` from message/option.go.
func rlOptionIDConst(repo, name string) uint64 {
	_, f := parseFile(repo, "message/option.go")
	var vals []uint64
	for _, d := range f.Decls {
		gd, ok := d.(*ast.GenDecl)
		if !ok || gd.Tok != token.CONST {
			continue
		}
		for _, sp := range gd.Specs {
			vs := sp.(*ast.ValueSpec)
			for i, nm := range vs.Names {
				if nm.Name == name {
					if identName(vs.Type) != "OptionID" || i >= len(vs.Values) {
						fail("RouterLockShape: constant %s is not `%s OptionID = <int>`", name, name)
					}
					vals = append(vals, intLit(vs.Values[i]))
				}
			}
		}
	}
	if len(vals) != 1 {
		fail("RouterLockShape: expected one constant %s, found %d", name, len(vals))
	}
	return vals[0]
}

func rlFilterPath(repo string) string {
	_, f := parseFile(repo, "mux/router.go")
	fd := funcDecl(f, "", "FilterPath")
	if fd.Type.Params == nil || len(fd.Type.Params.List) != 1 || len(fd.Type.Params.List[0].Names) != 1 {
		fail("RouterLockShape: FilterPath parameters")
	}
	arg := fd.Type.Params.List[0].Names[0].Name
	if len(fd.Body.List) != 2 {
		fail("RouterLockShape: FilterPath: expected `if x == \"\" { return LIT }; return x`")
	}
	is, ok := fd.Body.List[0].(*ast.IfStmt)
	if !ok || is.Init != nil || is.Else != nil || len(is.Body.List) != 1 {
		fail("RouterLockShape: FilterPath: if shape")
	}
	c, ok := is.Cond.(*ast.BinaryExpr)
	if !ok || c.Op != token.EQL || identName(c.X) != arg {
		fail("RouterLockShape: FilterPath: condition is not `%s == \"\"`", arg)
	}
	if bl, ok := c.Y.(*ast.BasicLit); !ok || bl.Kind != token.STRING || bl.Value != `""` {
		fail("RouterLockShape: FilterPath: condition is not a comparison with the empty string")
	}
	r1, ok := is.Body.List[0].(*ast.ReturnStmt)
	if !ok || len(r1.Results) != 1 {
		fail("RouterLockShape: FilterPath: return in if")
	}
	bl, ok := r1.Results[0].(*ast.BasicLit)
	if !ok || bl.Kind != token.STRING {
		fail("RouterLockShape: FilterPath: replacement is not a string literal")
	}
	v, err := strconv.Unquote(bl.Value)
	if err != nil {
		fail("RouterLockShape: FilterPath literal: %v", err)
	}
	r2, ok := fd.Body.List[1].(*ast.ReturnStmt)
	if !ok || len(r2.Results) != 1 || identName(r2.Results[0]) != arg {
		fail("RouterLockShape: FilterPath: final statement is not `return %s`", arg)
	}
	return v
}
