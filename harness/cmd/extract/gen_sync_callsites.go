package main

// gen_sync_callsites.go — C14 translator tie, second half: the CALL SITES.
//
// The atomicity theorems of C14 are about the methods of pkg/sync.Map and pkg/cache.Cache.  The callers get those guarantees
// only if they use the atomic forms: a store-if-absent wrapper must be ONE LoadOrStore call (not Load … Store), and a value
// that is only valid while it is in the map (a pooled message that its owner releases after deleting the entry) must be read
// inside the callback of LoadWithFunc, i.e. under the map's lock.  This generator lists, with go/ast, every call on a field
// that holds such a map / cache in the files that use them, in source order:
//
//	(function, field, method, deferred?, [method calls made inside function literals passed to it])
//
// and, per function, the method calls made on the *result* of a plain Load after the call returned (outside the lock).
// Generated/SyncCallSites.lean; the obligations are decided in Props/C14.lean.  Unknown files / missing functions fail closed.

import (
	"fmt"
	"go/ast"
	"strings"
)

func init() {
	register("SyncCallSites.lean", genSyncCallSites)
}

// fields that hold a sync.Map / cache.Cache, per file
var scFiles = []struct {
	rel    string
	fields []string
}{
	{"udp/client/conn.go", []string{"c", "tokenHandlerContainer", "midHandlerContainer"}},
	{"tcp/client/conn.go", []string{"tokenHandlerContainer"}},
	{"net/blockwise/blockwise.go", []string{"sendingMessagesCache", "receivingMessagesCache"}},
	{"net/observation/handler.go", []string{"observations"}},
	{"net/client/limitParallelRequests/limitParallelRequests.go", []string{"endpointQueues"}},
	{"udp/server/discover.go", []string{"multicastHandler", "multicastRequests"}},
	{"udp/server/server.go", []string{"multicastHandler", "multicastRequests"}},
}

type scCall struct {
	fn, field, method string
	deferred          bool
	inside            []string // method calls made inside function literals passed as arguments
	afterOnResult     []string // for a plain Load whose result is bound to a variable: methods called on that variable afterwards
}

func scFuncName(fd *ast.FuncDecl) string {
	if fd.Recv != nil && len(fd.Recv.List) == 1 {
		return recvTypeName(fd.Recv.List[0].Type) + "." + fd.Name.Name
	}
	return fd.Name.Name
}

// scTracked recognises <x>.<field>.<Method>(…) for a tracked field.
func scTracked(c *ast.CallExpr, fields map[string]bool) (field, method string, ok bool) {
	sel, isSel := c.Fun.(*ast.SelectorExpr)
	if !isSel {
		return "", "", false
	}
	in, isSel := sel.X.(*ast.SelectorExpr)
	if !isSel || !fields[in.Sel.Name] {
		return "", "", false
	}
	if _, isIdent := in.X.(*ast.Ident); !isIdent {
		return "", "", false
	}
	return in.Sel.Name, sel.Sel.Name, true
}

func scInside(args []ast.Expr) []string {
	var out []string
	for _, a := range args {
		fl, ok := a.(*ast.FuncLit)
		if !ok {
			continue
		}
		ast.Inspect(fl.Body, func(n ast.Node) bool {
			if c, ok := n.(*ast.CallExpr); ok {
				if s, ok := c.Fun.(*ast.SelectorExpr); ok {
					out = append(out, s.Sel.Name)
				}
			}
			return true
		})
	}
	return out
}

func scFile(repo, rel string, fieldList []string) []scCall {
	_, f := parseFile(repo, rel)
	fields := map[string]bool{}
	for _, x := range fieldList {
		fields[x] = true
	}
	var calls []scCall
	found := map[string]bool{}
	for _, d := range f.Decls {
		fd, ok := d.(*ast.FuncDecl)
		if !ok || fd.Body == nil {
			continue
		}
		fn := scFuncName(fd)
		deferred := map[*ast.CallExpr]bool{}
		bound := map[*ast.CallExpr]string{} // call -> variable its (first) result is bound to
		ast.Inspect(fd.Body, func(n ast.Node) bool {
			switch x := n.(type) {
			case *ast.DeferStmt:
				deferred[x.Call] = true
			case *ast.AssignStmt:
				if len(x.Rhs) == 1 {
					if c, ok := x.Rhs[0].(*ast.CallExpr); ok && len(x.Lhs) >= 1 {
						bound[c] = identName(x.Lhs[0])
					}
				}
			}
			return true
		})
		ast.Inspect(fd.Body, func(n ast.Node) bool {
			c, ok := n.(*ast.CallExpr)
			if !ok {
				return true
			}
			field, method, ok := scTracked(c, fields)
			if !ok {
				return true
			}
			found[field] = true
			sc := scCall{fn: fn, field: field, method: method, deferred: deferred[c], inside: scInside(c.Args)}
			if method == "Load" {
				if v := bound[c]; v != "" && v != "_" {
					// everything called on the loaded value (or on what its accessors return) after the lock was released
					ast.Inspect(fd.Body, func(m ast.Node) bool {
						cc, ok := m.(*ast.CallExpr)
						if !ok || cc.Pos() <= c.End() {
							return true
						}
						if s, ok := cc.Fun.(*ast.SelectorExpr); ok && identName(s.X) == v {
							sc.afterOnResult = append(sc.afterOnResult, s.Sel.Name)
						}
						return true
					})
				}
			}
			calls = append(calls, sc)
			return true
		})
	}
	for _, x := range fieldList {
		if !found[x] {
			fail("SyncCallSites %s: no call on field %s found (renamed?)", rel, x)
		}
	}
	// any other mention of a tracked field (passed around, assigned, compared …) is an unknown shape: every selector
	// <ident>.<field> must be the receiver of one of the calls listed above
	uses := map[string]int{}
	ast.Inspect(f, func(n ast.Node) bool {
		if s, ok := n.(*ast.SelectorExpr); ok && fields[s.Sel.Name] {
			if _, isIdent := s.X.(*ast.Ident); isIdent {
				uses[s.Sel.Name]++
			}
		}
		return true
	})
	listed := map[string]int{}
	for _, c := range calls {
		listed[c.field]++
	}
	for _, x := range fieldList {
		if x != "c" && uses[x] != listed[x] {
			fail("SyncCallSites %s: field %s is mentioned %d times but only %d times as the receiver of a method call", rel, x, uses[x], listed[x])
		}
	}
	return calls
}

// scFieldKind finds the declaration `<field> *cache.Cache[…]` / `<field> *coapSync.Map[…]` of a tracked field in a file.
func scFieldKind(repo, rel, field string) string {
	_, f := parseFile(repo, rel)
	kind := ""
	ast.Inspect(f, func(n ast.Node) bool {
		st, ok := n.(*ast.StructType)
		if !ok {
			return true
		}
		for _, fl := range st.Fields.List {
			for _, nm := range fl.Names {
				if nm.Name != field {
					continue
				}
				t := fl.Type
				if se, ok := t.(*ast.StarExpr); ok {
					t = se.X
				}
				switch x := t.(type) {
				case *ast.IndexExpr:
					t = x.X
				case *ast.IndexListExpr:
					t = x.X
				}
				if sel, ok := t.(*ast.SelectorExpr); ok {
					switch {
					case identName(sel.X) == "cache" && sel.Sel.Name == "Cache":
						kind = "cache"
					case sel.Sel.Name == "Map", sel.Sel.Name == "RequestsMap": // udp/client.RequestsMap = coapSync.Map[uint64, *pool.Message]
						kind = "map"
					}
				}
			}
		}
		return true
	})
	return kind
}

func genSyncCallSites(g *gen, repo string) {
	var b strings.Builder
	b.WriteString(`namespace CoapVerif.Generated.SyncCallSites

/-- one call on a field that holds a sync.Map / cache.Cache, in source order within its file -/
structure Call where
  file : String
  fn : String                    -- enclosing function (Receiver.Method)
  field : String
  method : String
  deferred : Bool
  inside : List String           -- method calls made inside the function literals passed to the call (i.e. under the map's lock)
  afterOnResult : List String    -- plain Load only: methods called on the loaded value after the call returned (outside the lock)
  deriving DecidableEq, Repr

`)
	q := func(s string) string { return fmt.Sprintf("%q", s) }
	b.WriteString("def calls : List Call := [\n")
	first := true
	for _, sf := range scFiles {
		for _, c := range scFile(repo, sf.rel, sf.fields) {
			if !first {
				b.WriteString(",\n")
			}
			first = false
			fmt.Fprintf(&b, "  { file := %s, fn := %s, field := %s, method := %s, deferred := %v, inside := %s, afterOnResult := %s }",
				q(sf.rel), q(c.fn), q(c.field), q(c.method), c.deferred, natList(c.inside, q), natList(c.afterOnResult, q))
		}
	}
	b.WriteString("\n]\n\n")
	// which of the fields are expiring caches (cache.Cache embeds the plain Map: the Map's own methods called on a cache
	// value know nothing about expiry) and which are plain maps
	b.WriteString("/-- (file of the declaration, field, `cache` = cache.Cache / `map` = sync.Map) -/\ndef fieldKinds : List (String × String × String) := [\n")
	firstK := true
	seen := map[string]bool{}
	for _, sf := range scFiles {
		for _, fld := range sf.fields {
			k := scFieldKind(repo, sf.rel, fld)
			if k == "" {
				continue
			}
			seen[fld] = true
			if !firstK {
				b.WriteString(",\n")
			}
			firstK = false
			fmt.Fprintf(&b, "  (%s, %s, %s)", q(sf.rel), q(fld), q(k))
		}
	}
	b.WriteString("\n]\n")
	for _, sf := range scFiles {
		for _, fld := range sf.fields {
			if !seen[fld] {
				fail("SyncCallSites: declaration of field %s not found (type unknown)", fld)
			}
		}
	}
	b.WriteString("\nend CoapVerif.Generated.SyncCallSites\n")
	g.write("SyncCallSites.lean", b.String())
}
