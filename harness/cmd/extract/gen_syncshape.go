package main

// gen_syncshape.go — C14 translator tie.
//
// Reads pkg/sync/map.go and pkg/cache/cache.go with go/ast and emits Generated/SyncShape.lean: for every method of
// sync.Map and cache.Cache the list of sections in source order. A section is (lock kind, primitive operations):
// lock kind w/r for code between Lock/RLock and the matching Unlock/RUnlock (or the end of the function when the unlock
// is deferred), `none` for code that runs while the method holds no lock. Primitive operations are the accesses to the Go
// map (read/write/delete/len/iterate/copy/take/swap), calls of function-typed parameters (cb), calls of other methods
// of the same object (call, with the operations of function literals passed to them between argBegin/argEnd), expiry
// tests and clock reads. Any access to the map outside a lock is listed in `outsideLock`. Every statement or expression
// that touches the mutex or the map in a way the recogniser does not know makes it fail closed.

import (
	"fmt"
	"go/ast"
	"go/token"
	"strings"
)

func init() {
	register("SyncShape.lean", genSyncShape)
}

type ssSection struct {
	lock string // "w" | "r" | "none"
	ops  []string
}

type ssWalker struct {
	method   string
	recv     string          // receiver identifier
	funcs    map[string]bool // names of function-typed parameters / local function values in scope
	isMap    bool            // analysing sync.Map itself (direct access to data/mutex allowed)
	secs     []ssSection
	held     string // "" | "w" | "r"
	deferred bool   // the matching unlock is deferred to function exit
	outside  []string
}

func (w *ssWalker) failf(format string, a ...any) {
	fail("SyncShape %s: %s", w.method, fmt.Sprintf(format, a...))
}

func (w *ssWalker) emit(op string) {
	lock := w.held
	if lock == "" {
		lock = "none"
	}
	if n := len(w.secs); n > 0 && w.secs[n-1].lock == lock && !w.secs[n-1].closed() {
		w.secs[n-1].ops = append(w.secs[n-1].ops, op)
		return
	}
	w.secs = append(w.secs, ssSection{lock: lock, ops: []string{op}})
}

// sections are closed implicitly by opening the next one; this helper keeps emit() simple.
func (s ssSection) closed() bool { return false }

func (w *ssWalker) open(kind string) {
	if w.held != "" {
		w.failf("lock acquired while a lock is held")
	}
	w.held = kind
	w.secs = append(w.secs, ssSection{lock: kind})
}

func (w *ssWalker) close(kind string) {
	if w.held != kind {
		w.failf("unlock of kind %s while holding %q", kind, w.held)
	}
	w.held = ""
	// the next emit opens a `none` section
	w.secs = append(w.secs, ssSection{lock: "none"})
}

// mutexCall recognises <recv>.mutex.<Lock|Unlock|RLock|RUnlock>().
func (w *ssWalker) mutexCall(e ast.Expr) string {
	c, ok := e.(*ast.CallExpr)
	if !ok || len(c.Args) != 0 {
		return ""
	}
	sel, ok := c.Fun.(*ast.SelectorExpr)
	if !ok {
		return ""
	}
	in, ok := sel.X.(*ast.SelectorExpr)
	if !ok || in.Sel.Name != "mutex" || identName(in.X) != w.recv {
		return ""
	}
	return sel.Sel.Name
}

func (w *ssWalker) isData(e ast.Expr) bool {
	sel, ok := e.(*ast.SelectorExpr)
	return ok && sel.Sel.Name == "data" && identName(sel.X) == w.recv
}

func (w *ssWalker) access(op string) {
	if w.held == "" {
		w.outside = append(w.outside, w.method+":"+op)
	}
	w.emit(op)
}

// methodCall recognises <recv>.X(...) and <recv>.Map.X(...): a call of another method of the same object.
func (w *ssWalker) methodCall(c *ast.CallExpr) (string, bool) {
	sel, ok := c.Fun.(*ast.SelectorExpr)
	if !ok {
		return "", false
	}
	if identName(sel.X) == w.recv {
		return sel.Sel.Name, true
	}
	if in, ok := sel.X.(*ast.SelectorExpr); ok && in.Sel.Name == "Map" && identName(in.X) == w.recv {
		return sel.Sel.Name, true
	}
	return "", false
}

func (w *ssWalker) expr(e ast.Expr) {
	if e == nil {
		return
	}
	switch x := e.(type) {
	case *ast.CallExpr:
		if m := w.mutexCall(x); m != "" {
			w.failf("mutex operation %s inside an expression", m)
		}
		// builtins on the map
		if id := identName(x.Fun); id == "delete" && len(x.Args) == 2 && w.isData(x.Args[0]) {
			w.expr(x.Args[1])
			w.access("delete")
			return
		} else if id == "len" && len(x.Args) == 1 && w.isData(x.Args[0]) {
			w.access("len")
			return
		}
		if sel, ok := x.Fun.(*ast.SelectorExpr); ok {
			if identName(sel.X) == "maps" && sel.Sel.Name == "Copy" && len(x.Args) == 2 && w.isData(x.Args[1]) {
				w.expr(x.Args[0])
				w.access("copy")
				return
			}
			if identName(sel.X) == "time" && sel.Sel.Name == "Now" {
				w.emit("clock")
				return
			}
			if sel.Sel.Name == "IsExpired" {
				w.expr(sel.X)
				w.emit("expiry")
				for _, a := range x.Args {
					w.expr(a)
				}
				return
			}
			if sel.Sel.Name == "onExpire" {
				for _, a := range x.Args {
					w.expr(a)
				}
				w.emit(`cb "onExpire"`)
				return
			}
		}
		if name, ok := w.methodCall(x); ok {
			if w.held != "" {
				w.failf("method %s called while holding the %s lock (self-deadlock)", name, w.held)
			}
			w.emit(fmt.Sprintf("call %q", name))
			for _, a := range x.Args {
				if fl, ok := a.(*ast.FuncLit); ok {
					w.emit("argBegin")
					w.funcLit(fl)
					w.emit("argEnd")
				} else {
					w.expr(a)
				}
			}
			return
		}
		if id := identName(x.Fun); id != "" && w.funcs[id] {
			for _, a := range x.Args {
				w.expr(a)
			}
			w.emit(fmt.Sprintf("cb %q", id))
			return
		}
		w.expr(x.Fun)
		for _, a := range x.Args {
			w.expr(a)
		}
	case *ast.IndexExpr:
		if w.isData(x.X) {
			w.expr(x.Index)
			w.access("read")
			return
		}
		w.expr(x.X)
		w.expr(x.Index)
	case *ast.SelectorExpr:
		if w.isData(x) {
			w.failf("map referenced in an unrecognised way")
		}
		if x.Sel.Name == "mutex" && identName(x.X) == w.recv {
			w.failf("mutex referenced in an unrecognised way")
		}
		w.expr(x.X)
	case *ast.FuncLit:
		// a function value that is not an argument of a method call of the object: analysed in place
		w.funcLit(x)
	case *ast.BinaryExpr:
		w.expr(x.X)
		w.expr(x.Y)
	case *ast.UnaryExpr:
		w.expr(x.X)
	case *ast.ParenExpr:
		w.expr(x.X)
	case *ast.StarExpr:
		w.expr(x.X)
	case *ast.CompositeLit:
		for _, el := range x.Elts {
			if kv, ok := el.(*ast.KeyValueExpr); ok {
				w.expr(kv.Value)
			} else {
				w.expr(el)
			}
		}
	case *ast.Ident, *ast.BasicLit, *ast.IndexListExpr, *ast.MapType, *ast.ArrayType, *ast.FuncType:
	default:
		w.failf("unexpected expression %T", e)
	}
}

func (w *ssWalker) funcLit(fl *ast.FuncLit) {
	// parameters of function type become callable names inside the literal
	saved := w.funcs
	w.funcs = map[string]bool{}
	for k, v := range saved {
		w.funcs[k] = v
	}
	for _, p := range fl.Type.Params.List {
		if _, ok := p.Type.(*ast.FuncType); ok {
			for _, n := range p.Names {
				w.funcs[n.Name] = true
			}
		}
	}
	held, def := w.held, w.deferred
	w.block(fl.Body.List)
	if w.held != held || w.deferred != def {
		w.failf("function literal changes the lock state")
	}
	w.funcs = saved
}

func (w *ssWalker) block(stmts []ast.Stmt) {
	for _, st := range stmts {
		w.stmt(st)
	}
}

func (w *ssWalker) stmt(st ast.Stmt) {
	switch s := st.(type) {
	case *ast.ExprStmt:
		switch w.mutexCall(s.X) {
		case "Lock":
			w.open("w")
		case "RLock":
			w.open("r")
		case "Unlock":
			w.close("w")
		case "RUnlock":
			w.close("r")
		case "":
			w.expr(s.X)
		default:
			w.failf("unknown mutex method")
		}
	case *ast.DeferStmt:
		switch w.mutexCall(s.Call) {
		case "Unlock":
			if w.held != "w" || w.deferred {
				w.failf("deferred Unlock without a held write lock")
			}
			w.deferred = true
		case "RUnlock":
			if w.held != "r" || w.deferred {
				w.failf("deferred RUnlock without a held read lock")
			}
			w.deferred = true
		default:
			w.failf("unexpected defer")
		}
	case *ast.AssignStmt:
		// data := m.data  /  m.data = make(...)  /  m.data[k] = v  /  v, ok := m.data[k]
		for _, r := range s.Rhs {
			if w.isData(r) {
				w.access("take")
			} else {
				w.expr(r)
			}
		}
		for _, l := range s.Lhs {
			if w.isData(l) {
				if s.Tok != token.ASSIGN {
					w.failf("map redefined")
				}
				w.access("swap")
			} else if ix, ok := l.(*ast.IndexExpr); ok && w.isData(ix.X) {
				w.expr(ix.Index)
				w.access("write")
			} else {
				w.expr(l)
			}
		}
	case *ast.DeclStmt:
		gd, ok := s.Decl.(*ast.GenDecl)
		if !ok || gd.Tok != token.VAR {
			w.failf("unexpected declaration")
		}
		for _, sp := range gd.Specs {
			for _, v := range sp.(*ast.ValueSpec).Values {
				w.expr(v)
			}
		}
	case *ast.ReturnStmt:
		for _, r := range s.Results {
			w.expr(r)
		}
		if w.held != "" && !w.deferred {
			w.failf("return while holding the %s lock without a deferred unlock", w.held)
		}
	case *ast.IfStmt:
		if s.Init != nil {
			w.stmt(s.Init)
		}
		w.expr(s.Cond)
		held, def := w.held, w.deferred
		w.block(s.Body.List)
		if w.held != held || w.deferred != def {
			w.failf("if-branch changes the lock state")
		}
		if s.Else != nil {
			w.stmt(s.Else)
			if w.held != held || w.deferred != def {
				w.failf("else-branch changes the lock state")
			}
		}
	case *ast.BlockStmt:
		w.block(s.List)
	case *ast.RangeStmt:
		if w.isData(s.X) {
			w.access("iterate")
		} else {
			w.expr(s.X)
		}
		held, def := w.held, w.deferred
		w.emit("loopBegin")
		w.block(s.Body.List)
		w.emit("loopEnd")
		if w.held != held || w.deferred != def {
			w.failf("loop body changes the lock state")
		}
	default:
		w.failf("unexpected statement %T", st)
	}
}

func ssMethods(repo, rel, recvType string, isMap bool) ([]string, map[string][]ssSection, []string) {
	_, f := parseFile(repo, rel)
	var names []string
	shapes := map[string][]ssSection{}
	var outside []string
	for _, d := range f.Decls {
		fd, ok := d.(*ast.FuncDecl)
		if !ok || fd.Recv == nil || len(fd.Recv.List) != 1 || recvTypeName(fd.Recv.List[0].Type) != recvType {
			continue
		}
		if len(fd.Recv.List[0].Names) != 1 {
			fail("SyncShape %s.%s: unnamed receiver", recvType, fd.Name.Name)
		}
		w := &ssWalker{method: recvType + "." + fd.Name.Name, recv: fd.Recv.List[0].Names[0].Name, funcs: map[string]bool{}, isMap: isMap}
		for _, p := range fd.Type.Params.List {
			if _, ok := p.Type.(*ast.FuncType); ok {
				for _, n := range p.Names {
					w.funcs[n.Name] = true
				}
			}
		}
		w.block(fd.Body.List)
		if w.held != "" && !w.deferred {
			w.failf("function ends while holding the %s lock", w.held)
		}
		var secs []ssSection
		for _, s := range w.secs {
			if len(s.ops) == 0 && s.lock == "none" {
				continue
			}
			secs = append(secs, s)
		}
		// merge adjacent `none` sections (an empty locked section still counts: it is a critical section)
		var merged []ssSection
		for _, s := range secs {
			if n := len(merged); n > 0 && s.lock == "none" && merged[n-1].lock == "none" {
				merged[n-1].ops = append(merged[n-1].ops, s.ops...)
				continue
			}
			merged = append(merged, s)
		}
		names = append(names, fd.Name.Name)
		shapes[fd.Name.Name] = merged
		outside = append(outside, w.outside...)
	}
	if len(names) == 0 {
		fail("SyncShape: no methods of %s found in %s", recvType, rel)
	}
	// the struct itself: for Map exactly the fields mutex (sync.RWMutex) and data (map[K]V)
	if isMap {
		ok := false
		ast.Inspect(f, func(n ast.Node) bool {
			ts, is := n.(*ast.TypeSpec)
			if !is || ts.Name.Name != recvType {
				return true
			}
			st, is := ts.Type.(*ast.StructType)
			if !is || len(st.Fields.List) != 2 {
				fail("SyncShape: %s is not a two-field struct", recvType)
			}
			f0, f1 := st.Fields.List[0], st.Fields.List[1]
			sel, is0 := f0.Type.(*ast.SelectorExpr)
			_, is1 := f1.Type.(*ast.MapType)
			if len(f0.Names) != 1 || f0.Names[0].Name != "mutex" || !is0 || identName(sel.X) != "sync" || sel.Sel.Name != "RWMutex" ||
				len(f1.Names) != 1 || f1.Names[0].Name != "data" || !is1 {
				fail("SyncShape: %s fields are not `mutex sync.RWMutex; data map[K]V`", recvType)
			}
			ok = true
			return false
		})
		if !ok {
			fail("SyncShape: type %s not found", recvType)
		}
	}
	return names, shapes, outside
}

func ssLean(names []string, shapes map[string][]ssSection) string {
	var b strings.Builder
	b.WriteString("[\n")
	for i, n := range names {
		fmt.Fprintf(&b, "  (%q, [", n)
		for j, s := range shapes[n] {
			if j > 0 {
				b.WriteString(", ")
			}
			ops := make([]string, len(s.ops))
			for k, o := range s.ops {
				ops[k] = "." + o
				if strings.Contains(o, " ") {
					ops[k] = "(." + o + ")"
				}
			}
			fmt.Fprintf(&b, "(.%s, [%s])", s.lock, strings.Join(ops, ", "))
		}
		b.WriteString("])")
		if i+1 < len(names) {
			b.WriteString(",")
		}
		b.WriteString("\n")
	}
	b.WriteString("]")
	return b.String()
}

func genSyncShape(g *gen, repo string) {
	mn, ms, mo := ssMethods(repo, "pkg/sync/map.go", "Map", true)
	cn, cs, co := ssMethods(repo, "pkg/cache/cache.go", "Cache", false)
	var b strings.Builder
	b.WriteString(`namespace CoapVerif.Generated.SyncShape

/-- lock held while a section runs: write lock, read lock, or no lock -/
inductive Lock | w | r | none
  deriving DecidableEq, Repr

/-- primitive operations, in source order -/
inductive Prim
  | read | write | delete | len | iterate | copy | take | swap   -- accesses to the Go map
  | cb (name : String)        -- call of a function-typed parameter (user callback)
  | call (method : String)    -- call of another method of the same object
  | argBegin | argEnd         -- operations of a function literal passed to the preceding call
  | loopBegin | loopEnd       -- body of a for/range statement
  | expiry                    -- Element.IsExpired
  | clock                     -- time.Now()
  deriving DecidableEq, Repr

abbrev Section := Lock × List Prim

`)
	fmt.Fprintf(&b, "/-- pkg/sync/map.go: methods of Map in source order (read from the AST) -/\ndef mapMethods : List (String × List Section) := %s\n\n", ssLean(mn, ms))
	fmt.Fprintf(&b, "/-- pkg/cache/cache.go: methods of Cache in source order (read from the AST) -/\ndef cacheMethods : List (String × List Section) := %s\n\n", ssLean(cn, cs))
	out := append(mo, co...)
	fmt.Fprintf(&b, "/-- accesses to the Go map while no lock is held (method:operation) -/\ndef outsideLock : List String := %s\n",
		natList(out, func(s string) string { return fmt.Sprintf("%q", s) }))
	b.WriteString("\nend CoapVerif.Generated.SyncShape\n")
	g.write("SyncShape.lean", b.String())
}
