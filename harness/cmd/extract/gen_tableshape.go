package main

// Generated/TableShape.lean (C03, C13): every insertion into a per-exchange table of a connection
// (LoadOrStore / Store / LoadOrStoreWithFunc / StoreWithFunc on a coapSync.Map or cache.Cache field, the map
// assignment of MutexMap) together with the removal that is paired with it in the source, and every
// lookup on the token-handler table.  Read with go/parser only.  Unknown shapes fail closed; a
// recognised insertion for which no removal is found is emitted with an empty removal list (the Lean
// obligation `bracketed` then no longer checks).

import (
	"fmt"
	"go/ast"
	"go/token"
	"go/types"
	"sort"
	"strings"
)

func init() {
	register("TableShape.lean", genTableShape)
}

// the files that own per-exchange tables, and the tables (receiver expression suffix → canonical name)
var tableFiles = []string{
	"udp/client/conn.go",
	"tcp/client/conn.go",
	"net/observation/handler.go",
	"net/blockwise/blockwise.go",
	"net/client/limitParallelRequests/limitParallelRequests.go",
	"udp/server/discover.go",
}

var knownTables = map[string]bool{
	"tokenHandlerContainer":  true,
	"midHandlerContainer":    true,
	"requestMessageIDs":      true, // udp/client/conn.go: token of a confirmable request being written -> its message ID (repair of F42)
	"c":                      true, // messageCache.c (response cache)
	"observations":           true,
	"sendingMessagesCache":   true,
	"receivingMessagesCache": true,
	"endpointQueues":         true,
	"multicastRequests":      true,
	"multicastHandler":       true,
}

var insertOps = map[string]bool{"LoadOrStore": true, "Store": true, "LoadOrStoreWithFunc": true, "StoreWithFunc": true, "Replace": true}
var removeOps = map[string]bool{"LoadAndDelete": true, "Delete": true, "DeleteWithFunc": true, "LoadAndDeleteWithFunc": true}
var lookupOps = map[string]bool{"Load": true, "LoadAndDelete": true, "LoadWithFunc": true, "LoadAndDeleteWithFunc": true}

type tsInsertion struct {
	file, fn, table, op, key string
	removal                  []string
	line                     int
}

type tsLookup struct {
	file, fn, table, op, key string
	line                     int
}

func exprStr(e ast.Expr) string { return types.ExprString(e) }

// tableCall recognises `<recv>.<table>.<op>(args…)` / `<table>.<op>(…)`; returns table field name and op.
func tableCall(c *ast.CallExpr) (table, op string, ok bool) {
	sel, ok1 := c.Fun.(*ast.SelectorExpr)
	if !ok1 {
		return "", "", false
	}
	switch x := sel.X.(type) {
	case *ast.SelectorExpr:
		return x.Sel.Name, sel.Sel.Name, true
	case *ast.Ident:
		return x.Name, sel.Sel.Name, true
	}
	return "", "", false
}

func fnName(fd *ast.FuncDecl) string {
	if fd.Recv != nil && len(fd.Recv.List) == 1 {
		return recvTypeName(fd.Recv.List[0].Type) + "." + fd.Name.Name
	}
	return fd.Name.Name
}

func containsReturn(s ast.Stmt) bool {
	found := false
	ast.Inspect(s, func(n ast.Node) bool {
		switch n.(type) {
		case *ast.FuncLit:
			return false
		case *ast.ReturnStmt:
			found = true
		}
		return true
	})
	return found
}

// removalIn reports whether node contains `<table>.<removeOp>(<key>, …)`.
func removalIn(n ast.Node, table, key string) bool {
	found := false
	ast.Inspect(n, func(n ast.Node) bool {
		c, ok := n.(*ast.CallExpr)
		if !ok {
			return true
		}
		t, op, ok := tableCall(c)
		if ok && t == table && removeOps[op] && len(c.Args) >= 1 && exprStr(c.Args[0]) == key {
			found = true
		}
		return true
	})
	return found
}

// callsIn lists the selector call names (`x.f`) made inside n.
func callsIn(n ast.Node) []string {
	var out []string
	ast.Inspect(n, func(n ast.Node) bool {
		if c, ok := n.(*ast.CallExpr); ok {
			if s, ok := c.Fun.(*ast.SelectorExpr); ok {
				out = append(out, exprStr(s))
			}
		}
		return true
	})
	return out
}

// isErrGuardedDefer recognises `defer func(err *error) { if *err != nil { … } }(&err)` and returns the calls of the guarded block.
func isErrGuardedDefer(d *ast.DeferStmt) ([]string, bool) {
	fl, ok := d.Call.Fun.(*ast.FuncLit)
	if !ok || len(fl.Body.List) != 1 || fl.Type.Params == nil || len(fl.Type.Params.List) != 1 {
		return nil, false
	}
	ifs, ok := fl.Body.List[0].(*ast.IfStmt)
	if !ok || ifs.Else != nil {
		return nil, false
	}
	cond, ok := ifs.Cond.(*ast.BinaryExpr)
	if !ok || cond.Op != token.NEQ || exprStr(cond.X) != "*err" || exprStr(cond.Y) != "nil" {
		return nil, false
	}
	return callsIn(ifs.Body), true
}

func scanFuncForTables(file string, f *ast.File, fd *ast.FuncDecl, fset *token.FileSet, ins *[]tsInsertion, lks *[]tsLookup) {
	if fd.Body == nil {
		return
	}
	name := fnName(fd)
	body := fd.Body.List
	// lookups (anywhere in the function, closures included)
	ast.Inspect(fd.Body, func(n ast.Node) bool {
		c, ok := n.(*ast.CallExpr)
		if !ok {
			return true
		}
		t, op, ok := tableCall(c)
		if ok && t == "tokenHandlerContainer" && lookupOps[op] && len(c.Args) >= 1 {
			*lks = append(*lks, tsLookup{file, name, t, op, exprStr(c.Args[0]), fset.Position(c.Pos()).Line})
		}
		return true
	})
	for idx, st := range body {
		ast.Inspect(st, func(n ast.Node) bool {
			c, ok := n.(*ast.CallExpr)
			if !ok {
				return true
			}
			t, op, ok := tableCall(c)
			if !ok || !insertOps[op] {
				return true
			}
			if op == "Store" && len(c.Args) != 2 {
				return true // atomic.Store(x)
			}
			if op == "Replace" && len(c.Args) != 2 {
				return true
			}
			if t == "responseMsgCache" {
				return true // MessageCache interface: forwards to messageCache.Store, whose m.c.LoadOrStore is recorded
			}
			if !knownTables[t] {
				fail("%s: %s: insertion `%s` into an unknown table `%s` (line %d)", file, name, op, t, fset.Position(c.Pos()).Line)
			}
			if len(c.Args) < 2 {
				fail("%s: %s: insertion `%s.%s` with %d arguments", file, name, t, op, len(c.Args))
			}
			key := exprStr(c.Args[0])
			in := tsInsertion{file: file, fn: name, table: t, op: op, key: key, line: fset.Position(c.Pos()).Line}
			// (d) expiry-managed: the value is cache.NewElement(data, validUntil, onExpire)
			if vc, ok := c.Args[1].(*ast.CallExpr); ok && exprStr(vc.Fun) == "cache.NewElement" {
				if len(vc.Args) != 3 {
					fail("%s: %s: cache.NewElement with %d arguments", file, name, len(vc.Args))
				}
				if exprStr(vc.Args[1]) == "time.Time{}" {
					fail("%s: %s: cache element without expiry", file, name)
				}
				in.removal = append(in.removal, "expiry")
			}
			// (a) deferred removal in the same function
			for j, other := range body {
				d, ok := other.(*ast.DeferStmt)
				if !ok {
					continue
				}
				if calls, ok := isErrGuardedDefer(d); ok {
					// registered before the insertion, or after it with no return path in between (the insertion
					// statement's own `if …; loaded { return }` is the not-inserted path)
					clean := true
					for k := idx + 1; k < j; k++ {
						if containsReturn(body[k]) {
							clean = false
						}
					}
					if j < idx || clean {
						in.removal = append(in.removal, "errdefer:"+strings.Join(calls, "+"))
					}
					continue
				}
				if !removalIn(d, t, key) {
					continue
				}
				if j < idx {
					in.removal = append(in.removal, "defer")
					continue
				}
				clean := true
				loadedVar := ""
				if as, ok := st.(*ast.AssignStmt); ok && len(as.Lhs) == 2 {
					loadedVar = exprStr(as.Lhs[1])
				}
				for k := idx + 1; k < j; k++ {
					// `if loaded { return … }` directly after `_, loaded := table.LoadOrStore(…)` is the not-inserted path
					if ifs, ok := body[k].(*ast.IfStmt); ok && loadedVar != "" && loadedVar != "_" && exprStr(ifs.Cond) == loadedVar && ifs.Else == nil {
						continue
					}
					if containsReturn(body[k]) {
						clean = false
					}
				}
				if clean {
					in.removal = append(in.removal, "defer")
				} else {
					in.removal = append(in.removal, "defer-after-return-path")
				}
			}
			// (b) closure appended to closeFns, (c) closure bound to a name that the function returns
			for j := idx; j < len(body); j++ {
				as, ok := body[j].(*ast.AssignStmt)
				if !ok && j == idx {
					// the insertion statement itself may be followed inside its block; look at later siblings only
					continue
				}
				if !ok || len(as.Rhs) != 1 {
					continue
				}
				switch rhs := as.Rhs[0].(type) {
				case *ast.CallExpr:
					if exprStr(rhs.Fun) == "append" && len(rhs.Args) == 2 && exprStr(as.Lhs[0]) == exprStr(rhs.Args[0]) {
						if fl, ok := rhs.Args[1].(*ast.FuncLit); ok && removalIn(fl, t, key) {
							in.removal = append(in.removal, "closeFns:"+exprStr(as.Lhs[0]))
						}
					}
				case *ast.FuncLit:
					if removalIn(rhs, t, key) {
						nm := exprStr(as.Lhs[0])
						returned := false
						for _, s2 := range body[j+1:] {
							ast.Inspect(s2, func(n ast.Node) bool {
								if r, ok := n.(*ast.ReturnStmt); ok {
									for _, e := range r.Results {
										if exprStr(e) == nm {
											returned = true
										}
									}
								}
								return true
							})
						}
						if returned {
							in.removal = append(in.removal, "returned-closure")
						}
					}
				}
			}
			// closeFns appended inside the same switch/case block as the insertion (prepareWriteMessage)
			if len(in.removal) == 0 {
				ast.Inspect(st, func(n ast.Node) bool {
					as, ok := n.(*ast.AssignStmt)
					if !ok || len(as.Rhs) != 1 || as.Pos() < c.Pos() {
						return true
					}
					if rhs, ok := as.Rhs[0].(*ast.CallExpr); ok && exprStr(rhs.Fun) == "append" && len(rhs.Args) == 2 {
						if fl, ok := rhs.Args[1].(*ast.FuncLit); ok && removalIn(fl, t, key) {
							in.removal = append(in.removal, "closeFns:"+exprStr(as.Lhs[0]))
						}
					}
					return true
				})
			}
			// (e) insertion made conditionally: `if <cond> { …; <table>.<insertOp>(<key>, …); defer <table>.<removeOp>(<key>); … }` where the
			// `if` is a top-level statement of the function without `else`, the insertion is a statement of its block and the statement
			// RIGHT AFTER it in that block is the deferred removal (a deferred call runs when the function returns, whichever block
			// registered it; with nothing between the two there is no path that inserts without registering the removal)
			if len(in.removal) == 0 {
				if ifs, ok := st.(*ast.IfStmt); ok && ifs.Else == nil {
					for k, s2 := range ifs.Body.List {
						es, ok := s2.(*ast.ExprStmt)
						if !ok || es.X != ast.Expr(c) || k+1 >= len(ifs.Body.List) {
							continue
						}
						d, ok := ifs.Body.List[k+1].(*ast.DeferStmt)
						if !ok {
							continue
						}
						dt, dop, ok := tableCall(d.Call)
						if ok && dt == t && removeOps[dop] && len(d.Call.Args) >= 1 && exprStr(d.Call.Args[0]) == key {
							in.removal = append(in.removal, "defer")
						}
					}
				}
			}
			*ins = append(*ins, in)
			return true
		})
	}
}

// callerDefers: for insertions made by helper `helper(ctx, key)`, every caller in the file must follow the
// call with `defer <recv>.<release>(key)`; returns the release name or "".
func callerDefers(f *ast.File, helper string) string {
	release := ""
	okAll := true
	n := 0
	for _, d := range f.Decls {
		fd, ok := d.(*ast.FuncDecl)
		if !ok || fd.Body == nil || fd.Name.Name == helper {
			continue
		}
		for i, st := range fd.Body.List {
			uses := false
			var keyArg string
			ast.Inspect(st, func(nd ast.Node) bool {
				if c, ok := nd.(*ast.CallExpr); ok {
					if s, ok := c.Fun.(*ast.SelectorExpr); ok && s.Sel.Name == helper && len(c.Args) == 2 {
						uses = true
						keyArg = exprStr(c.Args[1])
					}
				}
				return true
			})
			if !uses {
				continue
			}
			n++
			if i+1 >= len(fd.Body.List) {
				okAll = false
				continue
			}
			df, ok := fd.Body.List[i+1].(*ast.DeferStmt)
			if !ok || len(df.Call.Args) != 1 || exprStr(df.Call.Args[0]) != keyArg {
				okAll = false
				continue
			}
			s, ok := df.Call.Fun.(*ast.SelectorExpr)
			if !ok {
				okAll = false
				continue
			}
			if release != "" && release != s.Sel.Name {
				okAll = false
			}
			release = s.Sel.Name
		}
	}
	if n == 0 || !okAll {
		return ""
	}
	return release
}

// closeFnDeferredByCallers: every function of f that calls `<recv>.<helper>(…)` binds the first result to a name and, after
// the error check, has `defer <name>()` (the closure the helper built from closeFns runs when the caller returns).
func closeFnDeferredByCallers(f *ast.File, helper string) bool {
	n, good := 0, 0
	for _, d := range f.Decls {
		fd, ok := d.(*ast.FuncDecl)
		if !ok || fd.Body == nil || fd.Name.Name == helper {
			continue
		}
		for i, st := range fd.Body.List {
			as, ok := st.(*ast.AssignStmt)
			if !ok || len(as.Rhs) != 1 || len(as.Lhs) != 2 {
				continue
			}
			c, ok := as.Rhs[0].(*ast.CallExpr)
			if !ok {
				continue
			}
			sel, ok := c.Fun.(*ast.SelectorExpr)
			if !ok || sel.Sel.Name != helper {
				continue
			}
			n++
			name := exprStr(as.Lhs[0])
			for _, later := range fd.Body.List[i+1:] {
				if df, ok := later.(*ast.DeferStmt); ok && exprStr(df.Call.Fun) == name && len(df.Call.Args) == 0 {
					good++
					break
				}
				if ifs, ok := later.(*ast.IfStmt); ok && exprStr(ifs.Cond) == "err != nil" {
					continue
				}
				break
			}
		}
	}
	// any other use of the helper (not `x, err := …helper(…)`) is unknown
	total := 0
	ast.Inspect(f, func(nd ast.Node) bool {
		if c, ok := nd.(*ast.CallExpr); ok {
			if s, ok := c.Fun.(*ast.SelectorExpr); ok && s.Sel.Name == helper {
				total++
			}
		}
		return true
	})
	return n > 0 && n == good && total == n
}

// pingDefersCancel: every library function that waits for a pong — net/client/client.go Client.Ping and the transports'
// own Conn.Ping (udp/client, tcp/client; optional: without one, Client.Ping is promoted) — binds the cancel closure that
// AsyncPing / asyncPing returns and defers it.
func pingDefersCancel(repo string) bool {
	one := func(fd *ast.FuncDecl) bool {
		name := ""
		for _, st := range fd.Body.List {
			if as, ok := st.(*ast.AssignStmt); ok && len(as.Rhs) == 1 && len(as.Lhs) == 2 {
				if c, ok := as.Rhs[0].(*ast.CallExpr); ok && strings.HasSuffix(strings.ToLower(exprStr(c.Fun)), ".asyncping") {
					name = exprStr(as.Lhs[0])
				}
			}
			if df, ok := st.(*ast.DeferStmt); ok && name != "" && exprStr(df.Call.Fun) == name {
				return true
			}
		}
		return false
	}
	_, f := parseFile(repo, "net/client/client.go")
	if !one(funcDecl(f, "Client", "Ping")) {
		return false
	}
	for _, cf := range []string{"udp/client/conn.go", "tcp/client/conn.go"} {
		_, f := parseFile(repo, cf)
		fd := optFuncDecl(f, "Conn", "Ping")
		if fd == nil {
			continue
		}
		// either a pure wrapper of Client.Ping or a waiter of its own that defers the closure
		calls := false
		ast.Inspect(fd.Body, func(n ast.Node) bool {
			if c, ok := n.(*ast.CallExpr); ok && strings.HasSuffix(strings.ToLower(exprStr(c.Fun)), ".asyncping") {
				calls = true
			}
			return true
		})
		if calls && !one(fd) {
			return false
		}
	}
	return true
}

// mutexMapShape recognises udp/client/mutexmap.go (Lock inserts `m.ma[key] = e`, counts; Unlock decrements and
// deletes at zero) and that every `msgIDMutex.Lock(x)` in conn.go is `l := …` followed by `defer l.Unlock()`.
func mutexMapShape(repo string) tsInsertion {
	_, f := parseFile(repo, "udp/client/mutexmap.go")
	lock := funcDecl(f, "MutexMap", "Lock")
	unlock := funcDecl(f, "mutexMapEntry", "Unlock")
	in := tsInsertion{file: "udp/client/mutexmap.go", fn: "MutexMap.Lock", table: "ma", op: "mapassign"}
	assigned, counted := false, false
	ast.Inspect(lock.Body, func(n ast.Node) bool {
		switch s := n.(type) {
		case *ast.AssignStmt:
			if len(s.Lhs) == 1 {
				if ix, ok := s.Lhs[0].(*ast.IndexExpr); ok && exprStr(ix.X) == "m.ma" {
					assigned = true
					in.key = exprStr(ix.Index)
				}
			}
		case *ast.IncDecStmt:
			if s.Tok == token.INC && exprStr(s.X) == "e.cnt" {
				counted = true
			}
		}
		return true
	})
	if !assigned || !counted {
		fail("mutexmap.go: Lock is not `m.ma[key] = e … e.cnt++`")
	}
	dec, del := false, false
	ast.Inspect(unlock.Body, func(n ast.Node) bool {
		switch s := n.(type) {
		case *ast.IncDecStmt:
			if s.Tok == token.DEC && exprStr(s.X) == "e.cnt" {
				dec = true
			}
		case *ast.IfStmt:
			if c, ok := s.Cond.(*ast.BinaryExpr); ok && exprStr(c.X) == "e.cnt" && ((c.Op == token.LSS && exprStr(c.Y) == "1") || (c.Op == token.EQL && exprStr(c.Y) == "0") || (c.Op == token.LEQ && exprStr(c.Y) == "0")) {
				ast.Inspect(s.Body, func(n ast.Node) bool {
					if cl, ok := n.(*ast.CallExpr); ok && exprStr(cl.Fun) == "delete" && len(cl.Args) == 2 && exprStr(cl.Args[0]) == "m.ma" {
						del = true
					}
					return true
				})
			}
		}
		return true
	})
	if dec && del {
		in.removal = append(in.removal, "refcount-zero")
	}
	// TryLock (optional): inserts an entry only when there is none, already counted once and locked; it is released by the
	// same Unlock
	if tl := optFuncDecl(f, "MutexMap", "TryLock"); tl != nil {
		tAssigned, tCounted := false, false
		ast.Inspect(tl.Body, func(n ast.Node) bool {
			switch s := n.(type) {
			case *ast.AssignStmt:
				if len(s.Lhs) == 1 {
					if ix, ok := s.Lhs[0].(*ast.IndexExpr); ok && exprStr(ix.X) == "m.ma" && exprStr(ix.Index) == in.key {
						tAssigned = true
					}
				}
			case *ast.KeyValueExpr:
				if exprStr(s.Key) == "cnt" && exprStr(s.Value) == "1" {
					tCounted = true
				}
			}
			return true
		})
		if !tAssigned || !tCounted {
			fail("mutexmap.go: TryLock is not `e := &mutexMapEntry{…, cnt: 1} … m.ma[key] = e`")
		}
	}
	// users: `l := cc.msgIDMutex.Lock(x)` + `defer l.Unlock()`, or
	//        `l, ok := cc.msgIDMutex.TryLock(x)`; `if !ok { …; l = cc.msgIDMutex.Lock(x) }`; `defer l.Unlock()`
	_, cf := parseFile(repo, "udp/client/conn.go")
	users, good := 0, 0
	for _, d := range cf.Decls {
		fd, ok := d.(*ast.FuncDecl)
		if !ok || fd.Body == nil {
			continue
		}
		for i, st := range fd.Body.List {
			as, ok := st.(*ast.AssignStmt)
			if !ok || len(as.Rhs) != 1 {
				continue
			}
			c, ok := as.Rhs[0].(*ast.CallExpr)
			if !ok {
				continue
			}
			switch {
			case strings.HasSuffix(exprStr(c.Fun), "msgIDMutex.Lock"):
				users++
				if i+1 < len(fd.Body.List) {
					if df, ok := fd.Body.List[i+1].(*ast.DeferStmt); ok && exprStr(df.Call.Fun) == exprStr(as.Lhs[0])+".Unlock" {
						good++
					}
				}
			case strings.HasSuffix(exprStr(c.Fun), "msgIDMutex.TryLock") && len(as.Lhs) == 2 && i+2 < len(fd.Body.List):
				lv, okv := exprStr(as.Lhs[0]), exprStr(as.Lhs[1])
				is, isIf := fd.Body.List[i+1].(*ast.IfStmt)
				df, isDf := fd.Body.List[i+2].(*ast.DeferStmt)
				if !isIf || !isDf || exprStr(is.Cond) != "!"+okv || is.Else != nil || len(is.Body.List) == 0 || exprStr(df.Call.Fun) != lv+".Unlock" {
					fail("conn.go: msgIDMutex.TryLock is not followed by `if !ok { …; l = cc.msgIDMutex.Lock(x) }` and `defer l.Unlock()`")
				}
				last, isAs := is.Body.List[len(is.Body.List)-1].(*ast.AssignStmt)
				if !isAs || len(last.Lhs) != 1 || exprStr(last.Lhs[0]) != lv || len(last.Rhs) != 1 {
					fail("conn.go: the `!ok` branch after msgIDMutex.TryLock does not end in `l = cc.msgIDMutex.Lock(x)`")
				}
				lc, isCall := last.Rhs[0].(*ast.CallExpr)
				if !isCall || !strings.HasSuffix(exprStr(lc.Fun), "msgIDMutex.Lock") || len(lc.Args) != 1 || exprStr(lc.Args[0]) != exprStr(c.Args[0]) {
					fail("conn.go: the `!ok` branch after msgIDMutex.TryLock does not lock the same key")
				}
				users += 2 // the TryLock and the Lock of its fallback
				good += 2
			}
		}
	}
	// any other use of msgIDMutex.Lock / TryLock is unknown
	total := 0
	ast.Inspect(cf, func(n ast.Node) bool {
		if c, ok := n.(*ast.CallExpr); ok && (strings.HasSuffix(exprStr(c.Fun), "msgIDMutex.Lock") || strings.HasSuffix(exprStr(c.Fun), "msgIDMutex.TryLock")) {
			total++
		}
		return true
	})
	if total != users {
		fail("conn.go: a msgIDMutex.Lock / TryLock call of an unknown form")
	}
	if users > 0 && users == good {
		in.removal = append(in.removal, "defer-unlock")
	}
	return in
}

func leanStr(s string) string {
	return "\"" + strings.ReplaceAll(strings.ReplaceAll(s, "\\", "\\\\"), "\"", "\\\"") + "\""
}

func genTableShape(g *gen, repo string) {
	var ins []tsInsertion
	var lks []tsLookup
	for _, rel := range tableFiles {
		fset, f := parseFile(repo, rel)
		start := len(ins)
		for _, d := range f.Decls {
			if fd, ok := d.(*ast.FuncDecl); ok {
				scanFuncForTables(rel, f, fd, fset, &ins, &lks)
			}
		}
		// a closure appended to closeFns removes the entry only if every caller of the function defers the returned closure
		for i := start; i < len(ins); i++ {
			for k, r := range ins[i].removal {
				if strings.HasPrefix(r, "closeFns:") {
					helper := ins[i].fn[strings.LastIndex(ins[i].fn, ".")+1:]
					if !closeFnDeferredByCallers(f, helper) {
						ins[i].removal[k] = "closeFns-not-deferred-by-callers"
					}
				}
			}
		}
		// helper-made insertions whose removal is deferred by every caller
		for i := start; i < len(ins); i++ {
			if len(ins[i].removal) == 0 && strings.HasSuffix(ins[i].fn, ".acquireEndpoint") {
				if rel := callerDefers(f, "acquireEndpoint"); rel != "" {
					ins[i].removal = append(ins[i].removal, "caller-defer:"+rel)
				}
			}
		}
	}
	ins = append(ins, mutexMapShape(repo))
	if len(ins) < 10 {
		fail("only %d table insertions found: the scanner no longer sees the tables", len(ins))
	}
	sort.SliceStable(ins, func(i, j int) bool {
		if ins[i].file != ins[j].file {
			return ins[i].file < ins[j].file
		}
		return ins[i].line < ins[j].line
	})
	sort.SliceStable(lks, func(i, j int) bool {
		if lks[i].file != lks[j].file {
			return lks[i].file < lks[j].file
		}
		return lks[i].line < lks[j].line
	})
	var b strings.Builder
	b.WriteString("namespace CoapVerif.Generated.TableShape\n\n")
	b.WriteString("/-- one insertion into a per-exchange table, with the removals the source pairs with it -/\n")
	b.WriteString("structure Insertion where\n  file : String\n  func : String\n  table : String\n  op : String\n  key : String\n  removal : List String\n  deriving Repr, DecidableEq\n\n")
	b.WriteString("/-- one lookup on a token-handler table -/\n")
	b.WriteString("structure Lookup where\n  file : String\n  func : String\n  op : String\n  key : String\n  deriving Repr, DecidableEq\n\n")
	b.WriteString("def insertions : List Insertion := [\n")
	for i, in := range ins {
		sep := ","
		if i == len(ins)-1 {
			sep = ""
		}
		fmt.Fprintf(&b, "  ⟨%s, %s, %s, %s, %s, %s⟩%s\n", leanStr(in.file), leanStr(in.fn), leanStr(in.table), leanStr(in.op), leanStr(in.key),
			natList(in.removal, leanStr), sep)
	}
	b.WriteString("]\n\n")
	b.WriteString("def tokenLookups : List Lookup := [\n")
	for i, l := range lks {
		sep := ","
		if i == len(lks)-1 {
			sep = ""
		}
		fmt.Fprintf(&b, "  ⟨%s, %s, %s, %s⟩%s\n", leanStr(l.file), leanStr(l.fn), leanStr(l.op), leanStr(l.key), sep)
	}
	b.WriteString("]\n\n")
	fmt.Fprintf(&b, "/-- net/client/client.go: Client.Ping defers the cancel closure that AsyncPing returns (read from the AST) -/\ndef pingDefersCancel : Bool := %v\n", pingDefersCancel(repo))
	b.WriteString("\nend CoapVerif.Generated.TableShape\n")
	g.write("TableShape.lean", b.String())
}
