package main

// Generated/TokenHash.lean (C03): the key function of the token tables.  message/getToken.go: Token.Hash must be
// `return crc64.Checksum(t, crc64.MakeTable(crc64.ISO))` (read from the AST); the polynomial is the value of the
// constant crc64.ISO in the Go standard library the harness is built with, and GetToken's length is read too.

import (
	"fmt"
	"go/ast"
	"hash/crc64"
	"strings"

	"github.com/plgd-dev/go-coap/v3/message"
)

func init() {
	register("TokenHash.lean", genTokenHash)
}

func genTokenHash(g *gen, repo string) {
	_, f := parseFile(repo, "message/getToken.go")
	fd := funcDecl(f, "Token", "Hash")
	if len(fd.Body.List) != 1 {
		fail("Token.Hash: body is not a single return")
	}
	r, ok := fd.Body.List[0].(*ast.ReturnStmt)
	if !ok || len(r.Results) != 1 || exprStr(r.Results[0]) != "crc64.Checksum(t, crc64.MakeTable(crc64.ISO))" {
		fail("Token.Hash: body is not `return crc64.Checksum(t, crc64.MakeTable(crc64.ISO))`")
	}
	// GetToken: `b := make(Token, N)`
	gt := funcDecl(f, "", "GetToken")
	tokLen := uint64(0)
	tokVar := ""
	ast.Inspect(gt.Body, func(n ast.Node) bool {
		if a, ok := n.(*ast.AssignStmt); ok && len(a.Lhs) == 1 && len(a.Rhs) == 1 {
			if c, ok := a.Rhs[0].(*ast.CallExpr); ok && exprStr(c.Fun) == "make" && len(c.Args) == 2 && exprStr(c.Args[0]) == "Token" {
				tokLen = intLit(c.Args[1])
				tokVar = exprStr(a.Lhs[0])
			}
		}
		return true
	})
	if tokLen == 0 || tokVar == "" {
		fail("GetToken: `b := make(Token, N)` not found")
	}
	// one read of the random source per call, straight into the token that is returned; the function keeps nothing between calls
	// (every identifier it mentions is local, a builtin or the package of the random source)
	reads := 0
	ast.Inspect(gt.Body, func(n ast.Node) bool {
		switch x := n.(type) {
		case *ast.CallExpr:
			if exprStr(x.Fun) == "rand.Read" {
				if len(x.Args) != 1 || exprStr(x.Args[0]) != tokVar {
					fail("GetToken: rand.Read does not fill the token it returns")
				}
				reads++
			}
		case *ast.Ident:
			switch x.Name {
			case tokVar, "make", "Token", "rand", "Read", "err", "nil", "_":
			default:
				fail("GetToken: mentions `" + x.Name + "` (expected: one rand.Read into a fresh token, nothing kept between calls)")
			}
		}
		return true
	})
	if reads != 1 {
		fail("GetToken: not exactly one read of the random source per token")
	}
	var b strings.Builder
	b.WriteString("namespace CoapVerif.Generated.TokenHash\n\n")
	fmt.Fprintf(&b, "/-- hash/crc64: ISO (reflected polynomial), the table message.Token.Hash uses (shape of Hash read from the AST) -/\ndef crc64Poly : Nat := %d\n", uint64(crc64.ISO))
	fmt.Fprintf(&b, "/-- message/getToken.go: GetToken draws this many random bytes -/\ndef randomTokenLen : Nat := %d\n", tokLen)
	fmt.Fprintf(&b, "/-- message/getToken.go: GetToken reads the random source this many times per call, into the token it returns, and keeps nothing between calls -/\ndef readsPerToken : Nat := %d\n", reads)
	fmt.Fprintf(&b, "/-- message.MaxTokenSize -/\ndef maxTokenSize : Nat := %d\n", message.MaxTokenSize)
	// check values computed by the real function, used by the model's `crc64_check` theorem
	t1 := message.Token{1, 2, 3, 4}
	t2 := message.Token("123456789")
	fmt.Fprintf(&b, "/-- Token{1,2,3,4}.Hash() and Token(\"123456789\").Hash() computed by the real function -/\ndef check1 : Nat := %d\ndef check2 : Nat := %d\n", t1.Hash(), t2.Hash())
	b.WriteString("\nend CoapVerif.Generated.TokenHash\n")
	g.write("TokenHash.lean", b.String())
}
