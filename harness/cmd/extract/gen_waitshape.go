package main

// Generated/WaitShape.lean (C11; usable by C09): every blocking construct (select without default, bare channel
// receive/send, semaphore Acquire) in the functions through which a handler can block on its own connection, with the
// wake-up cases of each select and whether a call of TryToReplaceLoop precedes it in the same function (source
// order).  The reader itself (loop / TryToReplaceLoop) is recognised structurally.  Read with go/parser only.

import (
	"fmt"
	"go/ast"
	"go/token"
	"strings"
)

func init() {
	register("WaitShape.lean", genWaitShape)
}

type waitAnchor struct{ file, recv, fn string }

var waitAnchors = []waitAnchor{
	{"udp/client/conn.go", "Conn", "doInternal"},
	{"udp/client/conn.go", "Conn", "waitForAcknowledge"},
	{"udp/client/conn.go", "Conn", "acquireOutstandingInteraction"},
	{"udp/client/conn.go", "Conn", "Process"},
	{"tcp/client/conn.go", "Conn", "doInternal"},
	{"tcp/client/conn.go", "Conn", "pushToReceivedMessageQueue"},
	{"net/observation/handler.go", "Handler", "NewObservation"},
	{"net/client/limitParallelRequests/limitParallelRequests.go", "LimitParallelRequests", "acquireEndpoint"},
	{"net/client/limitParallelRequests/limitParallelRequests.go", "LimitParallelRequests", "Do"},
	{"net/client/limitParallelRequests/limitParallelRequests.go", "LimitParallelRequests", "DoObserve"},
	{"net/client/client.go", "Client", "Ping"},
	{"net/client/receivedMessageReader.go", "ReceivedMessageReader", "loop"},
	{"net/client/receivedMessageReader.go", "ReceivedMessageReader", "TryToReplaceLoop"},
}

type waitRec struct {
	file, fn, kind string
	cases          []string
	preceded       bool
}

func scanWaits(a waitAnchor, fd *ast.FuncDecl) []waitRec {
	var out []waitRec
	seenReplace := false
	name := a.recv + "." + a.fn
	inSelect := map[ast.Node]bool{}
	ast.Inspect(fd.Body, func(n ast.Node) bool {
		switch x := n.(type) {
		case *ast.FuncLit:
			return false // closures run later / elsewhere
		case *ast.CallExpr:
			if s, ok := x.Fun.(*ast.SelectorExpr); ok {
				if s.Sel.Name == "TryToReplaceLoop" {
					seenReplace = true
				}
				if s.Sel.Name == "Acquire" {
					out = append(out, waitRec{a.file, name, "acquire", []string{exprStr(x.Fun)}, seenReplace})
				}
			}
		case *ast.SelectStmt:
			hasDefault := false
			var cases []string
			for _, c := range x.Body.List {
				cc := c.(*ast.CommClause)
				if cc.Comm == nil {
					hasDefault = true
					continue
				}
				inSelect[cc.Comm] = true
				switch cm := cc.Comm.(type) {
				case *ast.ExprStmt:
					cases = append(cases, exprStr(cm.X))
				case *ast.AssignStmt:
					cases = append(cases, exprStr(cm.Rhs[0]))
				case *ast.SendStmt:
					cases = append(cases, exprStr(cm.Chan)+" <- "+exprStr(cm.Value))
				default:
					fail("%s: %s: unexpected select case %T", a.file, name, cc.Comm)
				}
			}
			if !hasDefault {
				out = append(out, waitRec{a.file, name, "select", cases, seenReplace})
			}
		case *ast.ExprStmt:
			if inSelect[x] {
				return true
			}
			if u, ok := x.X.(*ast.UnaryExpr); ok && u.Op == token.ARROW {
				out = append(out, waitRec{a.file, name, "recv", []string{exprStr(u)}, seenReplace})
			}
		case *ast.AssignStmt:
			if inSelect[x] {
				return true
			}
			for _, r := range x.Rhs {
				if u, ok := r.(*ast.UnaryExpr); ok && u.Op == token.ARROW {
					out = append(out, waitRec{a.file, name, "recv", []string{exprStr(u)}, seenReplace})
				}
			}
		case *ast.SendStmt:
			if !inSelect[x] {
				out = append(out, waitRec{a.file, name, "send", []string{exprStr(x.Chan)}, seenReplace})
			}
		}
		return true
	})
	return out
}

// readerShape recognises the structure of ReceivedMessageReader.loop and TryToReplaceLoop that the model follows.
func readerShape(repo string) map[string]bool {
	_, f := parseFile(repo, "net/client/receivedMessageReader.go")
	facts := map[string]bool{}
	loop := funcDecl(f, "ReceivedMessageReader", "loop")
	// for { select { case <-loopDone: return; case req := <-r.queue: …; case <-r.cc.Done(): return } }
	if len(loop.Body.List) != 1 {
		fail("loop: body is not a single for statement")
	}
	fs, ok := loop.Body.List[0].(*ast.ForStmt)
	if !ok || fs.Cond != nil || len(fs.Body.List) != 1 {
		fail("loop: not `for { select {…} }`")
	}
	sel, ok := fs.Body.List[0].(*ast.SelectStmt)
	if !ok || len(sel.Body.List) != 3 {
		fail("loop: select does not have three cases")
	}
	for _, c := range sel.Body.List {
		cc := c.(*ast.CommClause)
		var comm string
		switch cm := cc.Comm.(type) {
		case *ast.ExprStmt:
			comm = exprStr(cm.X)
		case *ast.AssignStmt:
			comm = exprStr(cm.Rhs[0])
		default:
			fail("loop: unexpected case")
		}
		switch comm {
		case "<-loopDone":
			if len(cc.Body) == 1 {
				if _, ok := cc.Body[0].(*ast.ReturnStmt); ok {
					facts["loopExitsOnDone"] = true
				}
			}
		case "<-r.cc.Done()":
			if len(cc.Body) == 1 {
				if _, ok := cc.Body[0].(*ast.ReturnStmt); ok {
					facts["loopExitsOnConnDone"] = true
				}
			}
		case "<-r.queue":
			// readingMessages.Store(false); r.cc.ProcessReceivedMessage(req); mutex.Lock(); readingMessages.Store(true); mutex.Unlock()
			var calls []string
			for _, st := range cc.Body {
				if es, ok := st.(*ast.ExprStmt); ok {
					if ce, ok := es.X.(*ast.CallExpr); ok {
						s := exprStr(ce.Fun)
						if len(ce.Args) == 1 && strings.HasSuffix(s, ".Store") {
							s += "(" + exprStr(ce.Args[0]) + ")"
						}
						calls = append(calls, s)
					}
				}
			}
			want := []string{"readingMessages.Store(false)", "r.cc.ProcessReceivedMessage", "r.private.mutex.Lock", "readingMessages.Store(true)", "r.private.mutex.Unlock"}
			if strings.Join(calls, ";") == strings.Join(want, ";") {
				facts["loopClearsFlagProcessesSetsFlagUnderMutex"] = true
			}
		default:
			fail("loop: unknown select case %s", comm)
		}
	}
	try := funcDecl(f, "ReceivedMessageReader", "TryToReplaceLoop")
	// mutex.Lock(); if readingMessages.Load() { Unlock; return }; defer Unlock; close(loopDone); …; go r.loop(loopDone, readingMessages)
	var seq []string
	for _, st := range try.Body.List {
		switch x := st.(type) {
		case *ast.ExprStmt:
			if ce, ok := x.X.(*ast.CallExpr); ok {
				seq = append(seq, exprStr(ce.Fun))
			}
		case *ast.IfStmt:
			seq = append(seq, "if "+exprStr(x.Cond))
			ret := false
			for _, b := range x.Body.List {
				if _, ok := b.(*ast.ReturnStmt); ok {
					ret = true
				}
			}
			if ret {
				seq = append(seq, "return")
			}
		case *ast.DeferStmt:
			seq = append(seq, "defer "+exprStr(x.Call.Fun))
		case *ast.GoStmt:
			seq = append(seq, "go "+exprStr(x.Call.Fun))
		case *ast.AssignStmt:
			seq = append(seq, exprStr(x.Lhs[0])+"=")
		}
	}
	want := "r.private.mutex.Lock;if r.private.readingMessages.Load();return;defer r.private.mutex.Unlock;close;loopDone=;readingMessages=;r.private.loopDone=;r.private.readingMessages=;go r.loop"
	if strings.Join(seq, ";") == want {
		facts["tryReplaceChecksCurrentFlagThenClosesAndSpawns"] = true
	}
	return facts
}

func genWaitShape(g *gen, repo string) {
	var recs []waitRec
	files := map[string]*ast.File{}
	for _, a := range waitAnchors {
		f := files[a.file]
		if f == nil {
			_, f = parseFile(repo, a.file)
			files[a.file] = f
		}
		recs = append(recs, scanWaits(a, funcDecl(f, a.recv, a.fn))...)
	}
	if len(recs) < 8 {
		fail("only %d blocking constructs found", len(recs))
	}
	facts := readerShape(repo)
	var b strings.Builder
	b.WriteString("namespace CoapVerif.Generated.WaitShape\n\n")
	b.WriteString("/-- one blocking construct: select without default / bare receive / bare send / semaphore acquire -/\n")
	b.WriteString("structure Wait where\n  file : String\n  func : String\n  kind : String\n  cases : List String\n  precededByReplace : Bool\n  deriving Repr, DecidableEq\n\n")
	b.WriteString("def waits : List Wait := [\n")
	for i, r := range recs {
		sep := ","
		if i == len(recs)-1 {
			sep = ""
		}
		fmt.Fprintf(&b, "  ⟨%s, %s, %s, %s, %v⟩%s\n", leanStr(r.file), leanStr(r.fn), leanStr(r.kind), natList(r.cases, leanStr), r.preceded, sep)
	}
	b.WriteString("]\n\n")
	for _, k := range []string{"loopExitsOnDone", "loopExitsOnConnDone", "loopClearsFlagProcessesSetsFlagUnderMutex", "tryReplaceChecksCurrentFlagThenClosesAndSpawns"} {
		fmt.Fprintf(&b, "/-- net/client/receivedMessageReader.go (structure recognised in the AST) -/\ndef %s : Bool := %v\n", k, facts[k])
	}
	b.WriteString("\nend CoapVerif.Generated.WaitShape\n")
	g.write("WaitShape.lean", b.String())
}
