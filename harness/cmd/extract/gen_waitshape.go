package main

// Generated/WaitShape.lean (C11; usable by C09): every blocking construct (select without default, bare channel
// receive/send, semaphore Acquire) in the functions through which a handler can block on its own connection, with the
// wake-up cases of each select and whether a call of TryToReplaceLoop precedes it in the same function (source
// order).  The reader itself (loop / TryToReplaceLoop) is recognised structurally.  Read with go/parser only.

import (
	"fmt"
	"go/ast"
	"go/token"
	"strings"
)

func init() {
	register("WaitShape.lean", genWaitShape)
}

type waitAnchor struct{ file, recv, fn string }

var waitAnchors = []waitAnchor{
	{"udp/client/conn.go", "Conn", "doInternal"},
	{"udp/client/conn.go", "Conn", "waitForAcknowledge"},
	{"udp/client/conn.go", "Conn", "acquireOutstandingInteraction"},
	{"udp/client/conn.go", "Conn", "Process"},
	{"tcp/client/conn.go", "Conn", "doInternal"},
	{"tcp/client/conn.go", "Conn", "pushToReceivedMessageQueue"},
	{"net/observation/handler.go", "Handler", "NewObservation"},
	{"net/client/limitParallelRequests/limitParallelRequests.go", "LimitParallelRequests", "acquireEndpoint"},
	{"net/client/limitParallelRequests/limitParallelRequests.go", "LimitParallelRequests", "Do"},
	{"net/client/limitParallelRequests/limitParallelRequests.go", "LimitParallelRequests", "DoObserve"},
	{"net/client/client.go", "Client", "Ping"},
	{"net/client/receivedMessageReader.go", "ReceivedMessageReader", "loop"},
	{"net/client/receivedMessageReader.go", "ReceivedMessageReader", "TryToReplaceLoop"},
}

type waitRec struct {
	file, fn, kind string
	cases          []string
	preceded       bool
}

func scanWaits(a waitAnchor, fd *ast.FuncDecl) []waitRec {
	var out []waitRec
	seenReplace := false
	name := a.recv + "." + a.fn
	inSelect := map[ast.Node]bool{}
	ast.Inspect(fd.Body, func(n ast.Node) bool {
		switch x := n.(type) {
		case *ast.FuncLit:
			return false // closures run later / elsewhere
		case *ast.CallExpr:
			if s, ok := x.Fun.(*ast.SelectorExpr); ok {
				if s.Sel.Name == "TryToReplaceLoop" {
					seenReplace = true
				}
				if s.Sel.Name == "Acquire" {
					out = append(out, waitRec{a.file, name, "acquire", []string{exprStr(x.Fun)}, seenReplace})
				}
			}
		case *ast.SelectStmt:
			hasDefault := false
			var cases []string
			for _, c := range x.Body.List {
				cc := c.(*ast.CommClause)
				if cc.Comm == nil {
					hasDefault = true
					continue
				}
				inSelect[cc.Comm] = true
				switch cm := cc.Comm.(type) {
				case *ast.ExprStmt:
					cases = append(cases, exprStr(cm.X))
				case *ast.AssignStmt:
					cases = append(cases, exprStr(cm.Rhs[0]))
				case *ast.SendStmt:
					cases = append(cases, exprStr(cm.Chan)+" <- "+exprStr(cm.Value))
				default:
					fail("%s: %s: unexpected select case %T", a.file, name, cc.Comm)
				}
			}
			if !hasDefault {
				out = append(out, waitRec{a.file, name, "select", cases, seenReplace})
			}
		case *ast.ExprStmt:
			if inSelect[x] {
				return true
			}
			if u, ok := x.X.(*ast.UnaryExpr); ok && u.Op == token.ARROW {
				out = append(out, waitRec{a.file, name, "recv", []string{exprStr(u)}, seenReplace})
			}
		case *ast.AssignStmt:
			if inSelect[x] {
				return true
			}
			for _, r := range x.Rhs {
				if u, ok := r.(*ast.UnaryExpr); ok && u.Op == token.ARROW {
					out = append(out, waitRec{a.file, name, "recv", []string{exprStr(u)}, seenReplace})
				}
			}
		case *ast.SendStmt:
			if !inSelect[x] {
				out = append(out, waitRec{a.file, name, "send", []string{exprStr(x.Chan)}, seenReplace})
			}
		}
		return true
	})
	return out
}

// readerShape recognises the structure of ReceivedMessageReader.loop and TryToReplaceLoop that the model follows.
func readerShape(repo string) map[string]bool {
	_, f := parseFile(repo, "net/client/receivedMessageReader.go")
	facts := map[string]bool{}
	loop := funcDecl(f, "ReceivedMessageReader", "loop")
	// for { select { case <-loopDone: return; case req := <-r.queue: …; case <-r.cc.Done(): return } }
	if len(loop.Body.List) != 1 {
		fail("loop: body is not a single for statement")
	}
	fs, ok := loop.Body.List[0].(*ast.ForStmt)
	if !ok || fs.Cond != nil || len(fs.Body.List) != 1 {
		fail("loop: not `for { select {…} }`")
	}
	sel, ok := fs.Body.List[0].(*ast.SelectStmt)
	if !ok || len(sel.Body.List) != 3 {
		fail("loop: select does not have three cases")
	}
	for _, c := range sel.Body.List {
		cc := c.(*ast.CommClause)
		var comm string
		switch cm := cc.Comm.(type) {
		case *ast.ExprStmt:
			comm = exprStr(cm.X)
		case *ast.AssignStmt:
			comm = exprStr(cm.Rhs[0])
		default:
			fail("loop: unexpected case")
		}
		switch comm {
		case "<-loopDone":
			if len(cc.Body) == 1 {
				if _, ok := cc.Body[0].(*ast.ReturnStmt); ok {
					facts["loopExitsOnDone"] = true
				}
			}
		case "<-r.cc.Done()":
			if len(cc.Body) == 1 {
				if _, ok := cc.Body[0].(*ast.ReturnStmt); ok {
					facts["loopExitsOnConnDone"] = true
				}
			}
		case "<-r.queue":
			// readingMessages.Store(false); r.cc.ProcessReceivedMessage(req); mutex.Lock(); readingMessages.Store(true); mutex.Unlock()
			var calls []string
			for _, st := range cc.Body {
				if es, ok := st.(*ast.ExprStmt); ok {
					if ce, ok := es.X.(*ast.CallExpr); ok {
						s := exprStr(ce.Fun)
						if len(ce.Args) == 1 && strings.HasSuffix(s, ".Store") {
							s += "(" + exprStr(ce.Args[0]) + ")"
						}
						calls = append(calls, s)
					}
				}
			}
			want := []string{"readingMessages.Store(false)", "r.cc.ProcessReceivedMessage", "r.private.mutex.Lock", "readingMessages.Store(true)", "r.private.mutex.Unlock"}
			// exactly these five statements: anything else in the case (e.g. handing the message back to the queue) is not the
			// structure the model follows
			if len(cc.Body) == len(want) && strings.Join(calls, ";") == strings.Join(want, ";") {
				facts["loopClearsFlagProcessesSetsFlagUnderMutex"] = true
			}
		default:
			fail("loop: unknown select case %s", comm)
		}
	}
	try := funcDecl(f, "ReceivedMessageReader", "TryToReplaceLoop")
	// mutex.Lock(); if readingMessages.Load() { Unlock; return }; defer Unlock; close(loopDone); …; go r.loop(loopDone, readingMessages)
	var seq []string
	for _, st := range try.Body.List {
		switch x := st.(type) {
		case *ast.ExprStmt:
			if ce, ok := x.X.(*ast.CallExpr); ok {
				seq = append(seq, exprStr(ce.Fun))
			}
		case *ast.IfStmt:
			seq = append(seq, "if "+exprStr(x.Cond))
			ret := false
			for _, b := range x.Body.List {
				if _, ok := b.(*ast.ReturnStmt); ok {
					ret = true
				}
			}
			if ret {
				seq = append(seq, "return")
			}
		case *ast.DeferStmt:
			seq = append(seq, "defer "+exprStr(x.Call.Fun))
		case *ast.GoStmt:
			seq = append(seq, "go "+exprStr(x.Call.Fun))
		case *ast.AssignStmt:
			seq = append(seq, exprStr(x.Lhs[0])+"=")
		}
	}
	want := "r.private.mutex.Lock;if r.private.readingMessages.Load();return;defer r.private.mutex.Unlock;close;loopDone=;readingMessages=;r.private.loopDone=;r.private.readingMessages=;go r.loop"
	if strings.Join(seq, ";") == want {
		facts["tryReplaceChecksCurrentFlagThenClosesAndSpawns"] = true
	}
	return facts
}

// ---- hand-overs made on behalf of a blocking construct that lives in another function -----------------------------

type handoverRec struct{ file, fn, callee string }

func optFuncDecl(f *ast.File, recv, name string) *ast.FuncDecl {
	for _, d := range f.Decls {
		fd, ok := d.(*ast.FuncDecl)
		if !ok || fd.Name.Name != name || fd.Body == nil {
			continue
		}
		if recv == "" && fd.Recv == nil {
			return fd
		}
		if recv != "" && fd.Recv != nil && len(fd.Recv.List) == 1 && recvTypeName(fd.Recv.List[0].Type) == recv {
			return fd
		}
	}
	return nil
}

// isReplaceStmt: the statement `cc.receivedMessageReader.TryToReplaceLoop()`
func isReplaceStmt(st ast.Stmt) bool {
	es, ok := st.(*ast.ExprStmt)
	if !ok {
		return false
	}
	ce, ok := es.X.(*ast.CallExpr)
	return ok && len(ce.Args) == 0 && exprStr(ce.Fun) == "cc.receivedMessageReader.TryToReplaceLoop"
}

func wsContainsCall(n ast.Node, fun string) bool {
	found := false
	ast.Inspect(n, func(x ast.Node) bool {
		if ce, ok := x.(*ast.CallExpr); ok && exprStr(ce.Fun) == fun {
			found = true
		}
		return !found
	})
	return found
}

// wrapperHandover: in the body of fd, as statements of the function body itself (unconditional, source order), the
// hand-over statement stands before the statement that calls `callee`; fails if fd does not call callee at that level.
func wrapperHandover(where string, fd *ast.FuncDecl, callee string) bool {
	rep, call := -1, -1
	for i, st := range fd.Body.List {
		if rep < 0 && isReplaceStmt(st) {
			rep = i
		}
		if call < 0 && wsContainsCall(st, callee) {
			call = i
		}
	}
	if call < 0 {
		fail("%s: no call of %s in the function body", where, callee)
	}
	return rep >= 0 && rep < call
}

func countCallsNamed(n ast.Node, sel string) int {
	k := 0
	ast.Inspect(n, func(x ast.Node) bool {
		if ce, ok := x.(*ast.CallExpr); ok {
			if s, ok := ce.Fun.(*ast.SelectorExpr); ok && s.Sel.Name == sel {
				k++
			}
		}
		return true
	})
	return k
}

// limiterHook recognises, in limitParallelRequests.go: a field F of type func() of LimitParallelRequests; a setter method S
// on LimitParallelRequests whose body is the single statement `c.F = <its parameter>` (the only assignment to F in the
// file); New initialises F in its composite literal (so that F is never nil).  Returns F, S ("" if absent) and, per function
// Do / DoObserve, whether `c.F()` is a statement of the body that stands before the first statement which calls
// c.acquireEndpoint or c.limit.Acquire.
func limiterHook(f *ast.File) (field, setter string, before map[string]bool) {
	before = map[string]bool{}
	for _, d := range f.Decls {
		gd, ok := d.(*ast.GenDecl)
		if !ok {
			continue
		}
		for _, sp := range gd.Specs {
			ts, ok := sp.(*ast.TypeSpec)
			if !ok || ts.Name.Name != "LimitParallelRequests" {
				continue
			}
			st, ok := ts.Type.(*ast.StructType)
			if !ok {
				continue
			}
			for _, fl := range st.Fields.List {
				ft, ok := fl.Type.(*ast.FuncType)
				if ok && (ft.Params == nil || len(ft.Params.List) == 0) && (ft.Results == nil || len(ft.Results.List) == 0) && len(fl.Names) == 1 {
					if field != "" {
						fail("limiter: two func() fields (%s, %s)", field, fl.Names[0].Name)
					}
					field = fl.Names[0].Name
				}
			}
		}
	}
	if field == "" {
		return "", "", before
	}
	assigns := 0
	ast.Inspect(f, func(x ast.Node) bool {
		if as, ok := x.(*ast.AssignStmt); ok {
			for _, l := range as.Lhs {
				if s, ok := l.(*ast.SelectorExpr); ok && s.Sel.Name == field {
					assigns++
				}
			}
		}
		return true
	})
	for _, d := range f.Decls {
		fd, ok := d.(*ast.FuncDecl)
		if !ok || fd.Recv == nil || len(fd.Recv.List) != 1 || recvTypeName(fd.Recv.List[0].Type) != "LimitParallelRequests" || fd.Body == nil {
			continue
		}
		if fd.Type.Params == nil || len(fd.Type.Params.List) != 1 || len(fd.Type.Params.List[0].Names) != 1 || len(fd.Body.List) != 1 {
			continue
		}
		param := fd.Type.Params.List[0].Names[0].Name
		if as, ok := fd.Body.List[0].(*ast.AssignStmt); ok && len(as.Lhs) == 1 && len(as.Rhs) == 1 {
			if s, ok := as.Lhs[0].(*ast.SelectorExpr); ok && s.Sel.Name == field && identName(as.Rhs[0]) == param {
				setter = fd.Name.Name
			}
		}
	}
	// New gives the field a value
	initialised := false
	if nw := optFuncDecl(f, "", "New"); nw != nil {
		ast.Inspect(nw.Body, func(x ast.Node) bool {
			if kv, ok := x.(*ast.KeyValueExpr); ok && identName(kv.Key) == field {
				if _, isLit := kv.Value.(*ast.FuncLit); isLit {
					initialised = true
				}
			}
			return true
		})
	}
	if setter == "" || assigns != 1 || !initialised {
		return field, "", before
	}
	for _, fn := range []string{"Do", "DoObserve"} {
		fd := funcDecl(f, "LimitParallelRequests", fn)
		hook, wait := -1, -1
		for i, st := range fd.Body.List {
			if es, ok := st.(*ast.ExprStmt); ok && hook < 0 {
				if ce, ok := es.X.(*ast.CallExpr); ok && len(ce.Args) == 0 && exprStr(ce.Fun) == "c."+field {
					hook = i
				}
			}
			if wait < 0 && (wsContainsCall(st, "c.acquireEndpoint") || wsContainsCall(st, "c.limit.Acquire")) {
				wait = i
			}
		}
		if wait < 0 {
			fail("limiter: %s does not wait for a slot any more", fn)
		}
		before[fn] = hook >= 0 && hook < wait
	}
	return field, setter, before
}

// connInstallsLimiterHook: in the function that builds the limiter (`v := limitparallelrequests.New(…)`) the statement
// `v.<setter>(func() { cc.receivedMessageReader.TryToReplaceLoop() })` is a statement of the same body
func connInstallsLimiterHook(f *ast.File, setter string) bool {
	ok := false
	for _, d := range f.Decls {
		fd, isFn := d.(*ast.FuncDecl)
		if !isFn || fd.Body == nil {
			continue
		}
		limiterVar := ""
		for _, st := range fd.Body.List {
			if as, isAs := st.(*ast.AssignStmt); isAs && len(as.Lhs) == 1 && len(as.Rhs) == 1 {
				if ce, isCall := as.Rhs[0].(*ast.CallExpr); isCall && exprStr(ce.Fun) == "limitparallelrequests.New" {
					limiterVar = identName(as.Lhs[0])
				}
			}
			if limiterVar == "" {
				continue
			}
			if es, isEs := st.(*ast.ExprStmt); isEs {
				if ce, isCall := es.X.(*ast.CallExpr); isCall && exprStr(ce.Fun) == limiterVar+"."+setter && len(ce.Args) == 1 {
					if lit, isLit := ce.Args[0].(*ast.FuncLit); isLit && len(lit.Body.List) == 1 && isReplaceStmt(lit.Body.List[0]) {
						ok = true
					}
				}
			}
		}
	}
	return ok
}

func scanHandovers(repo string, files map[string]*ast.File) []handoverRec {
	var out []handoverRec
	get := func(rel string) *ast.File {
		f := files[rel]
		if f == nil {
			_, f = parseFile(repo, rel)
			files[rel] = f
		}
		return f
	}
	limFile := "net/client/limitParallelRequests/limitParallelRequests.go"
	_, setter, before := limiterHook(get(limFile))
	for _, cf := range []string{"udp/client/conn.go", "tcp/client/conn.go"} {
		f := get(cf)
		// Conn.Ping (optional: without it Client.Ping is promoted): either a wrapper → Client.Ping, or a waiter of its own
		// (it then has a select, listed among the waits with this file, and calls asyncPing itself)
		if fd := optFuncDecl(f, "Conn", "Ping"); fd != nil {
			if wsContainsCall(fd, "cc.Client.Ping") {
				if wrapperHandover(cf+": Conn.Ping", fd, "cc.Client.Ping") {
					out = append(out, handoverRec{cf, "Conn.Ping", "Client.Ping"})
				}
			} else if len(scanWaits(waitAnchor{cf, "Conn", "Ping"}, fd)) == 0 {
				fail("%s: Conn.Ping neither calls cc.Client.Ping nor waits itself", cf)
			}
		}
		// Conn.doObserve → Handler.NewObservation (its only caller in the file)
		fd := funcDecl(f, "Conn", "doObserve")
		if countCallsNamed(f, "NewObservation") != countCallsNamed(fd, "NewObservation") {
			fail("%s: NewObservation is called outside Conn.doObserve", cf)
		}
		if wrapperHandover(cf+": Conn.doObserve", fd, "cc.observationHandler.NewObservation") {
			out = append(out, handoverRec{cf, "Conn.doObserve", "Handler.NewObservation"})
		}
		// limiter hook installed by this connection
		if setter != "" && connInstallsLimiterHook(f, setter) {
			for _, fn := range []string{"Do", "DoObserve"} {
				if before[fn] {
					out = append(out, handoverRec{cf, "LimitParallelRequests." + fn, "LimitParallelRequests.acquireEndpoint"})
				}
			}
		}
	}
	return out
}

func genWaitShape(g *gen, repo string) {
	var recs []waitRec
	files := map[string]*ast.File{}
	for _, a := range waitAnchors {
		f := files[a.file]
		if f == nil {
			_, f = parseFile(repo, a.file)
			files[a.file] = f
		}
		recs = append(recs, scanWaits(a, funcDecl(f, a.recv, a.fn))...)
	}
	// the transports' own Conn.Ping, when it exists (a wrapper of Client.Ping has no blocking construct of its own)
	for _, cf := range []string{"udp/client/conn.go", "tcp/client/conn.go"} {
		if fd := optFuncDecl(files[cf], "Conn", "Ping"); fd != nil {
			recs = append(recs, scanWaits(waitAnchor{cf, "Conn", "Ping"}, fd)...)
		}
	}
	if len(recs) < 8 {
		fail("only %d blocking constructs found", len(recs))
	}
	facts := readerShape(repo)
	var b strings.Builder
	b.WriteString("namespace CoapVerif.Generated.WaitShape\n\n")
	b.WriteString("/-- one blocking construct: select without default / bare receive / bare send / semaphore acquire -/\n")
	b.WriteString("structure Wait where\n  file : String\n  func : String\n  kind : String\n  cases : List String\n  precededByReplace : Bool\n  deriving Repr, DecidableEq\n\n")
	b.WriteString("def waits : List Wait := [\n")
	for i, r := range recs {
		sep := ","
		if i == len(recs)-1 {
			sep = ""
		}
		fmt.Fprintf(&b, "  ⟨%s, %s, %s, %s, %v⟩%s\n", leanStr(r.file), leanStr(r.fn), leanStr(r.kind), natList(r.cases, leanStr), r.preceded, sep)
	}
	b.WriteString("]\n\n")
	for _, k := range []string{"loopExitsOnDone", "loopExitsOnConnDone", "loopClearsFlagProcessesSetsFlagUnderMutex", "tryReplaceChecksCurrentFlagThenClosesAndSpawns"} {
		fmt.Fprintf(&b, "/-- net/client/receivedMessageReader.go (structure recognised in the AST) -/\ndef %s : Bool := %v\n", k, facts[k])
	}
	// (added with the repair of F42, C06) udp/client/conn.go: Conn.handle acknowledges a confirmable request by the token of its
	// response before it dispatches the response - also a notification of an observation that is being registered; the recogniser
	// is C06's (gen_dedup_retransmit.go drHandleAcknowledgesByToken: false = the shape before the repair, other shapes fail closed)
	{
		_, cf := parseFile(repo, "udp/client/conn.go")
		fmt.Fprintf(&b, "/-- udp/client/conn.go: Conn.handle acknowledges a confirmable request by the token of its response (acknowledgeByResponse) before the dispatch by token: a notification that arrives before the acknowledgement ends the registration request's wait for it, as a separate response does for doInternal (AST) -/\ndef handleAcknowledgesByToken : Bool := %v\n", drHandleAcknowledgesByToken(cf))
	}
	hos := scanHandovers(repo, files)
	b.WriteString("\n/-- a hand-over of the reader loop made on behalf of a blocking construct that lives in another function: on connections\n    built in `file`, `func` calls `TryToReplaceLoop` (itself, or through the hook the connection installs in the limiter) before it\n    enters `callee`, as an unconditional statement of its body -/\n")
	b.WriteString("structure Handover where\n  file : String\n  func : String\n  callee : String\n  deriving Repr, DecidableEq\n\n")
	b.WriteString("def handovers : List Handover := [")
	for i, h := range hos {
		sep := ","
		if i == len(hos)-1 {
			sep = ""
		}
		fmt.Fprintf(&b, "\n  ⟨%s, %s, %s⟩%s", leanStr(h.file), leanStr(h.fn), leanStr(h.callee), sep)
	}
	b.WriteString("]\n")
	b.WriteString("\nend CoapVerif.Generated.WaitShape\n")
	g.write("WaitShape.lean", b.String())
}
