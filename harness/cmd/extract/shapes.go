package main

// genShapes reads structural facts with go/parser + go/ast (no type checking).
func genShapes(g *gen, repo string) {
}
