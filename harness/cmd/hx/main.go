// Command hx is the implementation side of the correspondence for the stateless properties:
// it calls the real code of /repo in-process (build tag verif) and speaks the same line protocol
// as the Lean driver.
package main

import (
	"fmt"
	"os"
)

var commands = map[string]func(args []string){}

func main() {
	if len(os.Args) < 2 {
		fmt.Fprintln(os.Stderr, "usage: hx <Cxx> [args]")
		os.Exit(2)
	}
	f, ok := commands[os.Args[1]]
	if !ok {
		fmt.Fprintln(os.Stderr, "hx: unknown command", os.Args[1])
		os.Exit(2)
	}
	f(os.Args[2:])
}
