// Package codecx is the shared part of the C01/C02 harnesses: message text format, error enum,
// calls into the real coders of /repo with recover() and a per-operation watchdog.
package codecx

import (
	"bufio"
	"bytes"
	"context"
	"errors"
	"fmt"
	"io"
	"strconv"
	"strings"
	"time"

	"github.com/plgd-dev/go-coap/v3/message"
	"github.com/plgd-dev/go-coap/v3/message/codes"
	"github.com/plgd-dev/go-coap/v3/message/pool"
	tcpcoder "github.com/plgd-dev/go-coap/v3/tcp/coder"
	udpcoder "github.com/plgd-dev/go-coap/v3/udp/coder"
	"verifharness/internal/lp"
)

// Coder is what both DefaultCoders implement.
type Coder interface {
	Size(m message.Message) (int, error)
	Encode(m message.Message, buf []byte) (int, error)
	Decode(data []byte, m *message.Message) (int, error)
}

func CoderOf(name string) (Coder, bool) {
	switch name {
	case "udp":
		return udpcoder.DefaultCoder, true
	case "tcp":
		return tcpcoder.DefaultCoder, true
	}
	return nil, false
}

// ErrKind maps an error of the codec layer to the enum of DESIGN appendix A.
func ErrKind(err error) string {
	switch {
	case err == nil:
		return "ok"
	case errors.Is(err, message.ErrTooSmall):
		return "tooSmall"
	case errors.Is(err, udpcoder.ErrMessageTruncated):
		return "truncated"
	case errors.Is(err, udpcoder.ErrMessageInvalidVersion):
		return "badVersion"
	case errors.Is(err, message.ErrInvalidTokenLen):
		return "badToken"
	case errors.Is(err, message.ErrOptionTruncated):
		return "optTruncated"
	case errors.Is(err, message.ErrOptionUnexpectedExtendMarker):
		return "optExtMarker"
	case errors.Is(err, message.ErrOptionNotFound):
		return "optOverflow"
	case errors.Is(err, message.ErrOptionsTooSmall):
		return "optCap"
	case errors.Is(err, message.ErrShortRead):
		return "shortRead"
	case errors.Is(err, message.ErrInvalidValueLength):
		return "invalidLen"
	case strings.HasPrefix(err.Error(), "invalid MessageID"):
		return "badMID"
	case strings.HasPrefix(err.Error(), "invalid Type"):
		return "badType"
	case strings.HasPrefix(err.Error(), "invalid Code"):
		return "badCode"
	}
	return "other"
}

// ParseMsg reads `<typ> <mid> <code> <tok> <pay> <k> <id>:<val>...` and returns the rest of the fields.
func ParseMsg(f []string) (message.Message, []string, error) {
	var m message.Message
	if len(f) < 6 {
		return m, nil, errors.New("short message")
	}
	typ, e1 := strconv.ParseInt(f[0], 10, 16)
	mid, e2 := strconv.ParseInt(f[1], 10, 32)
	code, e3 := strconv.ParseUint(f[2], 10, 16)
	tok, e4 := lp.ParseHex(f[3])
	pay, e5 := lp.ParseHex(f[4])
	k, e6 := strconv.Atoi(f[5])
	if err := errors.Join(e1, e2, e3, e4, e5, e6); err != nil {
		return m, nil, err
	}
	if len(f) < 6+k {
		return m, nil, errors.New("short option list")
	}
	m.Type = message.Type(typ)
	m.MessageID = int32(mid)
	m.Code = codes.Code(code)
	if len(tok) > 0 {
		m.Token = tok
	}
	if len(pay) > 0 {
		m.Payload = pay
	}
	m.Options = make(message.Options, 0, k)
	for i := 0; i < k; i++ {
		id, val, ok := strings.Cut(f[6+i], ":")
		if !ok {
			return m, nil, errors.New("bad option")
		}
		n, err := strconv.ParseUint(id, 10, 16)
		if err != nil {
			return m, nil, err
		}
		v, err := lp.ParseHex(val)
		if err != nil {
			return m, nil, err
		}
		m.Options = append(m.Options, message.Option{ID: message.OptionID(n), Value: v})
	}
	return m, f[6+k:], nil
}

// FmtMsg is the canonical text of a message; the stream framing has no type / message ID.
func FmtMsg(coder string, m *message.Message) string {
	var b strings.Builder
	if coder == "tcp" {
		b.WriteString("0 0")
	} else {
		fmt.Fprintf(&b, "%d %d", m.Type, m.MessageID)
	}
	fmt.Fprintf(&b, " %d %s %s %d", uint16(m.Code), lp.Hex(m.Token), lp.Hex(m.Payload), len(m.Options))
	for _, o := range m.Options {
		fmt.Fprintf(&b, " %d:%s", o.ID, lp.Hex(o.Value))
	}
	return b.String()
}

const Fill = 0xA5
const CanaryLen = 32

// Window is a destination buffer of length n inside a larger array pre-filled with Fill.
func Window(n int) (win []byte, arr []byte) {
	arr = bytes.Repeat([]byte{Fill}, n+CanaryLen)
	return arr[:n], arr
}

func CanaryOK(arr []byte, n int) bool {
	for _, b := range arr[n:] {
		if b != Fill {
			return false
		}
	}
	return true
}

func Clean(win []byte) bool {
	for _, b := range win {
		if b != Fill {
			return false
		}
	}
	return true
}

// Guard runs op with recover() and a watchdog. A panic yields "panic", a run longer than the
// timeout yields "hang" (the goroutine is abandoned).
var Hangs int

const MaxHangs = 2

func Guard(timeout time.Duration, op func() string) string {
	if Hangs >= MaxHangs {
		return "hang-skipped"
	}
	ch := make(chan string, 1)
	go func() {
		defer func() {
			if r := recover(); r != nil {
				ch <- "panic " + strings.ReplaceAll(fmt.Sprint(r), "\n", " ")
			}
		}()
		ch <- op()
	}()
	select {
	case s := <-ch:
		return s
	case <-time.After(timeout):
		Hangs++
		return "hang"
	}
}

// Direct runs op on the caller's goroutine with recover() only (cheap; for operations without loops
// over untrusted state).
func Direct(op func() string) (out string) {
	defer func() {
		if r := recover(); r != nil {
			out = "panic " + strings.ReplaceAll(fmt.Sprint(r), "\n", " ")
		}
	}()
	return op()
}

// NewPooled returns a pooled message: "fresh" = pool.NewMessage; "recycled" = a message that carried
// a message.Message whose option slice has capacity optCap and was then reset the way
// Pool.ReleaseMessage does (Reset keeps the slice: `Options[:0]`).
func NewPooled(kind string, optCap int) *pool.Message {
	m := pool.NewMessage(context.Background())
	if kind == "loaded" {
		// a message that already carries a token and a body through the public setters, the way udp/client's response
		// cache decodes a cached datagram into the response message that was prepared with the request's token
		m.SetToken(message.Token{0xa1, 0xa2, 0xa3, 0xa4, 0xa5, 0xa6, 0xa7, 0xa8})
		m.SetBody(bytes.NewReader([]byte("stale-body")))
		m.SetCode(codes.Content)
		m.SetType(message.Acknowledgement)
		m.SetMessageID(0x4242)
		return m
	}
	if kind == "recycled" {
		var opts message.Options
		if optCap > 0 {
			opts = make(message.Options, 0, optCap)
		}
		m.SetMessage(message.Message{Code: codes.Content, Options: opts, Payload: []byte("x"), MessageID: 7, Type: message.NonConfirmable})
		m.Reset()
	}
	return m
}

// Snapshot reads a pooled message back into a message.Message (payload through the body reader).
func Snapshot(m *pool.Message) (message.Message, error) {
	out := message.Message{Type: m.Type(), MessageID: m.MessageID(), Code: m.Code(), Token: m.Token()}
	for _, o := range m.Options() {
		out.Options = append(out.Options, message.Option{ID: o.ID, Value: append([]byte(nil), o.Value...)})
	}
	if b := m.Body(); b != nil {
		if _, err := b.Seek(0, io.SeekStart); err != nil {
			return out, err
		}
		p, err := io.ReadAll(b)
		if err != nil {
			return out, err
		}
		if len(p) > 0 {
			out.Payload = p
		}
		_, _ = b.Seek(0, io.SeekStart)
	}
	return out, nil
}

func Ff(w *bufio.Writer, format string, a ...any) { fmt.Fprintf(w, format, a...) }
