package codecx

import (
	"fmt"
	"net"
	"sort"
	"strings"
	"sync"
	"time"

	"github.com/plgd-dev/go-coap/v3/message/pool"
	coapNet "github.com/plgd-dev/go-coap/v3/net"
	"github.com/plgd-dev/go-coap/v3/net/responsewriter"
	"github.com/plgd-dev/go-coap/v3/options"
	"github.com/plgd-dev/go-coap/v3/udp"
	udpclient "github.com/plgd-dev/go-coap/v3/udp/client"
	udpserver "github.com/plgd-dev/go-coap/v3/udp/server"
)

// UDPRig is a real udp.Server (options only) on a loopback socket whose handler records, per remote port, every
// message the application receives.  Real sockets cannot live in a synctest bubble: the rig runs in real time.
type UDPRig struct {
	Addr   *net.UDPAddr
	mu     sync.Mutex
	byPort map[int][]string
	total  int
	stop   func()
}

func StartUDPRig(extra ...udpserver.Option) (*UDPRig, error) {
	l, err := coapNet.NewListenUDP("udp4", "127.0.0.1:0")
	if err != nil {
		return nil, err
	}
	r := &UDPRig{byPort: map[int][]string{}}
	opts := []udpserver.Option{
		options.WithErrors(func(error) {}),
		options.WithMessagePool(pool.New(64, 2048)),
		options.WithHandlerFunc(func(w *responsewriter.ResponseWriter[*udpclient.Conn], req *pool.Message) {
			s, e := Snapshot(req)
			line := "snapshot-failed"
			if e == nil {
				line = FmtMsg("udp", &s)
			}
			port := 0
			if a, ok := w.Conn().RemoteAddr().(*net.UDPAddr); ok {
				port = a.Port
			}
			r.mu.Lock()
			r.byPort[port] = append(r.byPort[port], line)
			r.total++
			r.mu.Unlock()
		}),
	}
	opts = append(opts, extra...)
	s := udp.NewServer(opts...)
	served := make(chan struct{})
	go func() { _ = s.Serve(l); close(served) }()
	r.Addr = l.LocalAddr().(*net.UDPAddr)
	r.stop = func() { s.Stop(); <-served; _ = l.Close() }
	return r, nil
}

func (r *UDPRig) Stop() { r.stop() }

// Peer opens a raw socket towards the server; the returned port identifies it in the records.
func (r *UDPRig) Peer() (*net.UDPConn, int, error) {
	c, err := net.DialUDP("udp4", nil, r.Addr)
	if err != nil {
		return nil, 0, err
	}
	return c, c.LocalAddr().(*net.UDPAddr).Port, nil
}

// Wait blocks until n messages were delivered in total or the timeout elapsed.
func (r *UDPRig) Wait(n int, timeout time.Duration) bool {
	deadline := time.Now().Add(timeout)
	for {
		r.mu.Lock()
		t := r.total
		r.mu.Unlock()
		if t >= n {
			return true
		}
		if time.Now().After(deadline) {
			return false
		}
		time.Sleep(500 * time.Microsecond)
	}
}

// Of returns what the application received from the peer with the given port, in order.
func (r *UDPRig) Of(port int) []string {
	r.mu.Lock()
	defer r.mu.Unlock()
	return append([]string(nil), r.byPort[port]...)
}

// Unknown lists deliveries attributed to ports other than the given ones (must be empty).
func (r *UDPRig) Unknown(ports []int) string {
	r.mu.Lock()
	defer r.mu.Unlock()
	known := map[int]bool{}
	for _, p := range ports {
		known[p] = true
	}
	var out []string
	for p, l := range r.byPort {
		if !known[p] {
			out = append(out, fmt.Sprintf("%d:%d", p, len(l)))
		}
	}
	sort.Strings(out)
	return strings.Join(out, ",")
}
