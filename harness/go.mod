module verifharness

go 1.26.8

require (
	github.com/pion/dtls/v3 v3.1.2
	github.com/plgd-dev/go-coap/v3 v3.0.0
)

require (
	github.com/dsnet/golib/memfile v1.0.0 // indirect
	github.com/pion/logging v0.2.4 // indirect
	github.com/pion/transport/v4 v4.0.1 // indirect
	go.uber.org/atomic v1.11.0 // indirect
	golang.org/x/crypto v0.45.0 // indirect
	golang.org/x/exp v0.0.0-20240904232852-e7e105dedf7e // indirect
	golang.org/x/net v0.47.0 // indirect
	golang.org/x/sync v0.11.0 // indirect
	golang.org/x/sys v0.38.0 // indirect
)

replace github.com/plgd-dev/go-coap/v3 => /repo
