package lp

import (
	"bufio"
	"os"
	"strings"
)

// FileLoop is Loop for harnesses that run as `go test` binaries: input lines come from the file
// named by $VERIF_IN, output lines go to the file named by $VERIF_OUT.
func FileLoop(f func(fields []string, w *bufio.Writer)) error {
	in, err := os.Open(os.Getenv("VERIF_IN"))
	if err != nil {
		return err
	}
	defer in.Close()
	outf, err := os.Create(os.Getenv("VERIF_OUT"))
	if err != nil {
		return err
	}
	defer outf.Close()
	out := bufio.NewWriterSize(outf, 1<<20)
	defer out.Flush()
	sc := bufio.NewScanner(in)
	sc.Buffer(make([]byte, 1<<20), 1<<26)
	for sc.Scan() {
		f(strings.Fields(sc.Text()), out)
	}
	return sc.Err()
}
