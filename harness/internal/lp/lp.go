// Package lp holds line-protocol helpers shared by the harness commands.
package lp

import (
	"bufio"
	"encoding/hex"
	"fmt"
	"os"
	"strings"
)

const (
	FnvInit  uint64 = 0xcbf29ce484222325
	fnvPrime uint64 = 0x100000001b3
)

// Mix is FNV-1a over 64-bit words; identical to Driver.fnvMix.
func Mix(h, w uint64) uint64 { return (h ^ w) * fnvPrime }

func Hex64(h uint64) string { return fmt.Sprintf("%016x", h) }

// Hex renders bytes as lower-case hex, "-" for empty/nil.
func Hex(b []byte) string {
	if len(b) == 0 {
		return "-"
	}
	return hex.EncodeToString(b)
}

func ParseHex(s string) ([]byte, error) {
	if s == "-" {
		return []byte{}, nil
	}
	return hex.DecodeString(s)
}

// Loop reads stdin line by line and prints f(line) for each, flushing at the end.
func Loop(f func(fields []string, w *bufio.Writer)) {
	in := bufio.NewScanner(os.Stdin)
	in.Buffer(make([]byte, 1<<20), 1<<26)
	out := bufio.NewWriterSize(os.Stdout, 1<<20)
	defer out.Flush()
	for in.Scan() {
		f(strings.Fields(in.Text()), out)
	}
}
