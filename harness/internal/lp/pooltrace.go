package lp

import (
	"fmt"
	"os"
	"strings"
	"sync"

	"github.com/plgd-dev/go-coap/v3/message/pool"
)

// Pool lifecycle tracing for harnesses of other properties (used by the C12 check): when $VERIF_POOLTRACE names a
// file, every case of the harness is bracketed by PoolTraceBegin / PoolTraceEnd and its acquire/release trace
// (hook h1, message/pool/lifecycle_verif.go) is appended to that file as one line `trace <label> | ev;ev;…`.

var poolTraceMu sync.Mutex

func PoolTraceOn() bool { return os.Getenv("VERIF_POOLTRACE") != "" }

func PoolTraceBegin() {
	if PoolTraceOn() {
		pool.VerifTraceEnable(true)
	}
}

func PoolTraceEnd(label string) {
	if !PoolTraceOn() {
		return
	}
	tr := pool.VerifTraceTake()
	pool.VerifTraceEnable(false)
	poolTraceMu.Lock()
	defer poolTraceMu.Unlock()
	f, err := os.OpenFile(os.Getenv("VERIF_POOLTRACE"), os.O_APPEND|os.O_CREATE|os.O_WRONLY, 0o644)
	if err != nil {
		return
	}
	defer f.Close()
	body := "-"
	if len(tr) > 0 {
		body = strings.Join(tr, ";")
	}
	fmt.Fprintf(f, "scn foreign %s | trace %s\n", strings.ReplaceAll(label, " ", "_"), body)
}
