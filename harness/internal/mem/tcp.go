package mem

import (
	"context"
	"errors"
	"net"
	"sync"
	"time"

	"github.com/plgd-dev/go-coap/v3/message/pool"
	coapNet "github.com/plgd-dev/go-coap/v3/net"
	"github.com/plgd-dev/go-coap/v3/tcp"
	"github.com/plgd-dev/go-coap/v3/tcp/client"
	"github.com/plgd-dev/go-coap/v3/options"
	"github.com/plgd-dev/go-coap/v3/tcp/coder"
	tcpserver "github.com/plgd-dev/go-coap/v3/tcp/server"
)

// TCPPeer is the harness end of a net.Pipe whose other end carries a real tcp/client.Conn.
// A reader goroutine collects everything the connection writes (net.Pipe is synchronous).
type TCPPeer struct {
	Conn net.Conn
	mu   sync.Mutex
	buf  []byte
	eof  bool
	done chan struct{}
	// stalling: the peer stops reading (its receive window is full), so the connection's next Write blocks
	stalled bool
	resume  chan struct{}
}

// Stall makes the peer stop reading until Resume or Close.
func (p *TCPPeer) Stall() {
	p.mu.Lock()
	p.stalled = true
	if p.resume == nil {
		p.resume = make(chan struct{})
	}
	p.mu.Unlock()
	_ = p.Conn.SetReadDeadline(time.Now()) // wake the collector out of its Read
}

// Resume lets a stalled peer read again.
func (p *TCPPeer) Resume() {
	p.mu.Lock()
	if p.stalled {
		p.stalled = false
		close(p.resume)
		p.resume = nil
	}
	p.mu.Unlock()
}

func (p *TCPPeer) reader() {
	defer close(p.done)
	b := make([]byte, 65536)
	for {
		n, err := p.Conn.Read(b)
		p.mu.Lock()
		p.buf = append(p.buf, b[:n]...)
		if err != nil && p.stalled {
			ch := p.resume
			p.mu.Unlock()
			<-ch
			_ = p.Conn.SetReadDeadline(time.Time{})
			continue
		}
		if err != nil {
			p.eof = true
			p.mu.Unlock()
			return
		}
		p.mu.Unlock()
	}
}

// TakeBytes returns and clears the bytes written by the connection so far.
func (p *TCPPeer) TakeBytes() []byte {
	p.mu.Lock()
	defer p.mu.Unlock()
	out := p.buf
	p.buf = nil
	return out
}

// TakeFrames decodes complete frames from the collected bytes with the real stream coder and
// leaves an incomplete tail in place. Each frame is returned as its raw bytes.
func (p *TCPPeer) TakeFrames() [][]byte {
	p.mu.Lock()
	defer p.mu.Unlock()
	var out [][]byte
	for len(p.buf) > 0 {
		var h coder.MessageHeader
		if _, err := coder.DefaultCoder.DecodeHeader(p.buf, &h); err != nil {
			break
		}
		if uint32(len(p.buf)) < h.MessageLength {
			break
		}
		out = append(out, append([]byte(nil), p.buf[:h.MessageLength]...))
		p.buf = p.buf[h.MessageLength:]
	}
	return out
}

// Len is the number of collected bytes not taken yet.
func (p *TCPPeer) Len() int { p.mu.Lock(); defer p.mu.Unlock(); return len(p.buf) }

func (p *TCPPeer) EOF() bool { p.mu.Lock(); defer p.mu.Unlock(); return p.eof }

// Write sends bytes to the connection (blocks until the connection's reader consumed them).
func (p *TCPPeer) Write(b []byte) error { _, err := p.Conn.Write(b); return err }

// Close closes the peer side and waits for the collector goroutine.
func (p *TCPPeer) Close() { _ = p.Conn.Close(); p.Resume(); <-p.done }

type cfgMutator func(cfg *client.Config)

func (m cfgMutator) TCPClientApply(cfg *client.Config) { m(cfg) }

// TCPOpts configures NewTCPConn.
type TCPOpts struct {
	Mutate func(cfg *client.Config)
}

// NewTCPConn builds a real tcp/client.Conn (tcp.Client) over net.Pipe. The periodic runner is
// replaced by a no-op: harnesses call cc.CheckExpirations(now) themselves. The reader goroutine of
// the connection (cc.Run) is started by tcp.Client.
func NewTCPConn(o TCPOpts) (*client.Conn, *TCPPeer, error) {
	a, b := net.Pipe()
	peer := &TCPPeer{Conn: b, done: make(chan struct{})}
	go peer.reader()
	cc, err := tcp.Client(a, cfgMutator(func(cfg *client.Config) {
		cfg.MessagePool = pool.New(64, 2048)
		cfg.Errors = func(error) {}
		cfg.PeriodicRunner = func(func(now time.Time) bool) {}
		cfg.CloseSocket = true
		if o.Mutate != nil {
			o.Mutate(cfg)
		}
	}))
	if err != nil {
		peer.Close()
		return nil, nil, err
	}
	return cc, peer, nil
}

// NewTCPPeer wraps the harness end of a stream (e.g. of a net.Pipe whose other end was handed to a server's
// listener) and starts the collector goroutine.
func NewTCPPeer(c net.Conn) *TCPPeer {
	p := &TCPPeer{Conn: c, done: make(chan struct{})}
	go p.reader()
	return p
}

// AddrConn is a net.Conn with chosen addresses (net.Pipe ends all call themselves "pipe"; servers key their connection
// tables by the remote address).
type AddrConn struct {
	net.Conn
	Local, Remote net.Addr
}

func (c *AddrConn) LocalAddr() net.Addr  { return c.Local }
func (c *AddrConn) RemoteAddr() net.Addr { return c.Remote }

// Listener is an in-memory listener for tcp/server and dtls/server: connections pushed with Push are accepted in order.
type Listener struct {
	ch     chan net.Conn
	closed chan struct{}
	once   sync.Once
}

func NewListener() *Listener { return &Listener{ch: make(chan net.Conn, 16), closed: make(chan struct{})} }

func (l *Listener) Push(c net.Conn) { l.ch <- c }

func (l *Listener) AcceptWithContext(ctx context.Context) (net.Conn, error) {
	select {
	case c := <-l.ch:
		return c, nil
	case <-ctx.Done():
		return nil, ctx.Err()
	case <-l.closed:
		return nil, coapNet.ErrListenerIsClosed
	}
}

func (l *Listener) Close() error {
	l.once.Do(func() { close(l.closed) })
	return nil
}

// NewTCPConnViaServer builds the connection the way a stream server does: a real tcp.Server (configured through the
// given options only) serves an in-memory listener, one net.Pipe connection is pushed and accepted; returned are the
// server-side connection (from OnNewConn), the harness end of the pipe and a stop function.  The periodic runner is a
// no-op unless the options say otherwise (put options.WithPeriodicRunner last to override).
func NewTCPConnViaServer(remote string, opts ...tcpserver.Option) (*client.Conn, *TCPPeer, func(), error) {
	ch := make(chan *client.Conn, 1)
	all := []tcpserver.Option{
		options.WithErrors(func(error) {}),
		options.WithMessagePool(pool.New(64, 2048)),
		options.WithPeriodicRunner(func(func(now time.Time) bool) {}),
	}
	all = append(all, opts...)
	all = append(all, options.WithOnNewConn(func(cc *client.Conn) { ch <- cc }))
	s := tcp.NewServer(all...)
	l := NewListener()
	served := make(chan struct{})
	go func() { _ = s.Serve(l); close(served) }()
	a, b := net.Pipe()
	peer := NewTCPPeer(b)
	l.Push(&AddrConn{Conn: a, Local: memAddr("server"), Remote: memAddr(remote)})
	stop := func() {
		s.Stop()
		peer.Close()
		<-served
	}
	select {
	case cc := <-ch:
		return cc, peer, stop, nil
	case <-time.After(time.Second):
		stop()
		return nil, nil, nil, errors.New("the server did not accept the connection")
	}
}

type memAddr string

func (a memAddr) Network() string { return "mem" }
func (a memAddr) String() string  { return string(a) }
