// Package mem provides in-memory transports for the harnesses: the real connection code of /repo
// runs on top of them inside a testing/synctest bubble (virtual clock, deterministic quiescence).
package mem

import (
	"errors"
	"context"
	"net"
	"sync"
	"time"

	"github.com/plgd-dev/go-coap/v3/message"
	"github.com/plgd-dev/go-coap/v3/message/pool"
	coapNet "github.com/plgd-dev/go-coap/v3/net"
	"github.com/plgd-dev/go-coap/v3/net/blockwise"
	"github.com/plgd-dev/go-coap/v3/udp/client"
	"github.com/plgd-dev/go-coap/v3/udp/coder"
)

// Sent is one datagram handed to Session.WriteMessage (already encoded with the real UDP coder).
type Sent struct {
	At   time.Time
	Data []byte
}

// UDPSession implements udp/client.Session without a socket. Every written message is encoded
// with the real coder and recorded; incoming datagrams are injected with Conn.Process.
type UDPSession struct {
	mu       sync.Mutex
	ctx      context.Context
	cancel   context.CancelFunc
	done     chan struct{}
	onClose  []func()
	closed   bool
	sent     []Sent
	MaxSize  uint32
	WriteErr error // returned by WriteMessage when set
	// FailWrites > 0: the next FailWrites calls of WriteMessage fail with FailErr (a transport that refuses a datagram, e.g.
	// ECONNREFUSED on a connected socket after an ICMP port-unreachable) while the connection stays usable
	FailWrites int
	FailErr    error
	OnWrite  func(data []byte)
	// RunExitDelay > 0 switches to the structure of the real sessions: Close() only cancels the context; the done signal
	// is completed and the on-close callbacks run when Run returns, which happens RunExitDelay after the context ended
	// (a socket reader that notices the cancellation at its next read heartbeat). Run must then be started (NewUDPConn does).
	RunExitDelay time.Duration
	inbox        chan []byte // RunExitDelay mode: datagrams handed to Deliver, processed by Run like a socket reader does
}

func NewUDPSession(maxSize uint32) *UDPSession {
	ctx, cancel := context.WithCancel(context.Background())
	return &UDPSession{ctx: ctx, cancel: cancel, done: make(chan struct{}), MaxSize: maxSize}
}

func (s *UDPSession) Context() context.Context { s.mu.Lock(); defer s.mu.Unlock(); return s.ctx }

func (s *UDPSession) Close() error {
	if s.RunExitDelay > 0 {
		s.cancel()
		return nil
	}
	s.mu.Lock()
	if s.closed {
		s.mu.Unlock()
		return nil
	}
	s.closed = true
	fns := s.onClose
	s.onClose = nil
	s.mu.Unlock()
	s.cancel()
	for _, f := range fns {
		f()
	}
	close(s.done)
	return nil
}

func (s *UDPSession) MaxMessageSize() uint32 { return s.MaxSize }
func (s *UDPSession) RemoteAddr() net.Addr   { return &net.UDPAddr{IP: net.IPv4(10, 0, 0, 2), Port: 5683} }
func (s *UDPSession) LocalAddr() net.Addr    { return &net.UDPAddr{IP: net.IPv4(10, 0, 0, 1), Port: 40000} }
func (s *UDPSession) NetConn() net.Conn      { return nil }

func (s *UDPSession) WriteMessage(req *pool.Message) error {
	if s.WriteErr != nil {
		return s.WriteErr
	}
	s.mu.Lock()
	if s.FailWrites > 0 {
		s.FailWrites--
		e := s.FailErr
		s.mu.Unlock()
		if e == nil {
			e = errors.New("write: connection refused")
		}
		return e
	}
	s.mu.Unlock()
	data, err := req.MarshalWithEncoder(coder.DefaultCoder)
	if err != nil {
		return err
	}
	cp := append([]byte(nil), data...)
	s.mu.Lock()
	s.sent = append(s.sent, Sent{At: time.Now(), Data: cp})
	cb := s.OnWrite
	s.mu.Unlock()
	if cb != nil {
		cb(cp)
	}
	return nil
}

// FailNext makes the next n writes fail.
func (s *UDPSession) FailNext(n int) { s.mu.Lock(); s.FailWrites = n; s.mu.Unlock() }

func (s *UDPSession) WriteMulticastMessage(req *pool.Message, _ *net.UDPAddr, _ ...coapNet.MulticastOption) error {
	return s.WriteMessage(req)
}

// Deliver hands a datagram to the session's reader (RunExitDelay mode only): Run calls Conn.Process with it, as the real
// sessions' Run loops do with what they read from the socket.
func (s *UDPSession) Deliver(data []byte) {
	s.inbox <- append([]byte(nil), data...)
}

func (s *UDPSession) Run(cc *client.Conn) error {
	if s.RunExitDelay == 0 {
		<-s.done
		return nil
	}
	for reading := true; reading; {
		select {
		case d := <-s.inbox:
			_ = cc.Process(nil, d)
		case <-s.Context().Done():
			reading = false
		}
	}
	time.Sleep(s.RunExitDelay) // the reader leaves its read at the next heartbeat
	s.mu.Lock()
	fns := s.onClose
	s.onClose = nil
	s.closed = true
	s.mu.Unlock()
	for _, f := range fns {
		f()
	}
	close(s.done)
	return nil
}

func (s *UDPSession) AddOnClose(f client.EventFunc) {
	s.mu.Lock()
	defer s.mu.Unlock()
	s.onClose = append(s.onClose, f)
}

func (s *UDPSession) SetContextValue(key, val interface{}) {
	s.mu.Lock()
	defer s.mu.Unlock()
	s.ctx = context.WithValue(s.ctx, key, val)
}

func (s *UDPSession) Done() <-chan struct{} { return s.done }

// TakeSent returns and clears the datagrams written since the last call.
func (s *UDPSession) TakeSent() []Sent {
	s.mu.Lock()
	defer s.mu.Unlock()
	out := s.sent
	s.sent = nil
	return out
}

// UDPOpts configures NewUDPConn.
type UDPOpts struct {
	Blockwise        bool
	BlockwiseSZX     blockwise.SZX
	BlockwiseTimeout time.Duration
	MaxSize          uint32
	Mutate           func(cfg *client.Config)
	ConnOpts         []client.Option
	RunExitDelay     time.Duration // see UDPSession.RunExitDelay
}

// NewUDPConn builds a real udp/client.Conn over an in-memory session. The pool really pools
// (pool.New(64, 2048)) so that recycling bugs are observable.
func NewUDPConn(o UDPOpts) (*client.Conn, *UDPSession) {
	if o.MaxSize == 0 {
		o.MaxSize = 64 * 1024
	}
	s := NewUDPSession(o.MaxSize)
	cfg := client.DefaultConfig
	cfg.MessagePool = pool.New(64, 2048)
	cfg.Errors = func(error) {}
	cfg.MaxMessageSize = o.MaxSize
	if o.Mutate != nil {
		o.Mutate(&cfg)
	}
	opts := append([]client.Option(nil), o.ConnOpts...)
	if cfg.CreateInactivityMonitor != nil {
		// as udp.Client / the servers do: the monitor comes from the configured factory (options.WithKeepAlive …)
		opts = append(opts, client.WithInactivityMonitor(cfg.CreateInactivityMonitor()))
	}
	if o.Blockwise {
		to := o.BlockwiseTimeout
		if to == 0 {
			to = 3 * time.Second
		}
		cfg.BlockwiseSZX = o.BlockwiseSZX
		opts = append(opts, client.WithBlockWise(func(cc *client.Conn) *blockwise.BlockWise[*client.Conn] {
			return blockwise.New(cc, to, cfg.Errors, func(token message.Token) (*pool.Message, bool) { return cc.GetObservationRequest(token) })
		}))
	}
	s.RunExitDelay = o.RunExitDelay
	s.inbox = make(chan []byte, 256)
	cc := client.NewConnWithOpts(s, &cfg, opts...)
	if o.RunExitDelay > 0 {
		go func() { _ = cc.Run() }()
	}
	return cc, s
}
