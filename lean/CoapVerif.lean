import CoapVerif.Props.C19
import CoapVerif.Props.C20
import CoapVerif.Props.C07
import CoapVerif.Props.C08
import CoapVerif.Props.C18
import CoapVerif.Findings.C18
import CoapVerif.Props.C12
