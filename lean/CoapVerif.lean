import CoapVerif.Props.C19
