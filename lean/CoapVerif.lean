import CoapVerif.Props.C19
import CoapVerif.Props.C20
import CoapVerif.Props.C07
import CoapVerif.Props.C08
